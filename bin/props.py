"""Per-property plans for bin/check: which harness commands to build, which
drivers to run (as a function of tier and seed), which case kinds belong to
the property's dependency cone, and the text that goes into the evidence."""
import os

VERIF = os.path.dirname(os.path.dirname(os.path.abspath(__file__)))
HB = os.path.join(VERIF, "harness", "bin")

# Standard-library axioms a theorem may depend on (named in the trusted base, DESIGN.md I.6). Everything else must be
# closed under the global context. `classic` (Coq.Logic.Classical_Prop, excluded middle) is used by the
# leader-completeness family Proofs/LC*.v (C01, C04, C07 cluster theorems).
AXIOM_WHITELIST = ("classic", "Classical_Prop.classic")
COQCHK_AXIOM_WHITELIST = ("Coq.Logic.Classical_Prop.classic",)

TRUSTED_BASE = [
    "Coq 8.16.1 kernel (coqc full .vo build; coqchk re-check in the thorough tier); vm_compute only in examples; no native_compute",
    "no Axiom/Parameter/Admitted declared anywhere (grep gate on every run); Print Assumptions text parsed on every run: the only axiom any theorem may depend on is the standard library's excluded middle, Coq.Logic.Classical_Prop.classic : forall P : Prop, P \\/ ~ P (used by Proofs/LC*.v: C07 first half, C01 and C04 cluster theorems); any other axiom fails the check",
    "extraction: ExtrOcamlBasic only (bool, option, unit, list, prod, sumbool, sumor -> OCaml; andb/orb/negb/fst/snd inlined); nat/positive/N stay Coq datatypes; no Extract Constant of our own; OCaml 4.13.1; ocaml/driver.ml (parsing/printing of cases)",
    "hand-written model; correspondence established only on the cases explored (Go harness built from /repo with -tags verif, generators, canonicalisation)",
    "constants translator harness/cmd/genconst (field numbers, wire kinds, enum values, String() cases, chunk size, file names)",
]


def codec_drivers(ctx):
    n = 400 if ctx.tier == "quick" else 6000
    return [{"name": "codecdiff", "cases": "codec.cases",
             "cmd": [os.path.join(HB, "codecdiff"), "-seed", str(ctx.seed), "-n", str(n), "-out", "codec.cases"]}]


def disk_drivers(which, kinds, props):
    def f(ctx):
        quick = ctx.tier == "quick"
        cmd = [os.path.join(HB, "diskdiff"), "-seed", str(ctx.seed), "-which", which, "-out", "disk.cases",
               "-programs", "12" if quick else "150", "-len", "12" if quick else "30",
               "-snapshots", "12" if quick else "45"]
        if not quick:
            cmd.append("-allcuts")
        return [{"name": "diskdiff", "cases": "disk.cases", "cmd": cmd, "kinds": kinds, "props": props}]
    return f


def cosim_drivers(exclude=()):
    def f(ctx):
        quick = ctx.tier == "quick"
        out = []
        corpus = os.path.join(VERIF, "corpus")
        for sc in sorted(os.listdir(corpus)):
            if sc.endswith(".script"):
                out.append({"name": "corpus-" + sc[:-7], "trace": "c.trace", "exclude_fields": exclude,
                            "cmd": [os.path.join(HB, "cosim"), "-replay", os.path.join(corpus, sc)]})
        out.append({"name": "cosim", "trace": "cosim.trace", "exclude_fields": exclude, "timeout": 3000,
                    "cmd": [os.path.join(HB, "cosim"), "-seed", str(ctx.seed), "-traces", "108" if quick else "900",
                            "-steps", "150" if quick else "250", "-maxtime", "10m" if quick else "60m"]})
        return out
    return f


COSIM_RULE = ("lock-step co-simulation: real *Raft nodes (real raft.go, real file-backed log/state/snapshot storage) driven by a "
              "scripted transport / virtual clock / storage write budget; after every label (deliver, duplicate, reply, fail, tick, "
              "election timer, heartbeat, submit, snapshot, crash, crash after k storage writes, restart) the complete observable "
              "state of every node, every in-flight RPC with request and response, every resolved future and every FSM apply stream "
              "is compared with the extracted Coq model; monitors for the property run on the implementation's observations; "
              "corpus witnesses (one script per repaired defect) run first; families normal/lossy/delay/crash/snapshot/timed/bigsnap (snapshot payloads of 1-3 chunks)/member (add, promote, demote, remove servers incl. the leader; a spare server)/memberx (the same over a lossy network with frequent elections, snapshots and crashes, so that changes stay pending); when the default order of the goroutines woken by a label does not reproduce the observation, the other orders of the model's internal labels are tried (SCHEDULES line); clusters of 1-5 voters. "
              "evaluations = labels executed; distinct_nontrivial = distinct (step, label) pairs sampled from the traces")
COSIM_ASSUME = ["each lock-held section of raft.go is atomic (mutex discipline: C20, not checked)",
                "observations are taken when every goroutine of the library is blocked (quiescence read from runtime.Stack)",
                "virtual time: timestamps are shifted in units of one hour; real timers never fire",
                "FSM calls (Apply of a replicated operation, Snapshot, Restore) are atomic in the co-simulation - the library excludes them from one another (fsmBusy, fix D8/D9; checked by the fsmrace driver of C10); a read-only Apply may still overlap a Restore; snapshots are triggered by the harness"]

_SAFETY_EXCL = ("lease", "ro", "sv", "Read")


def handler_driver(which):
    def f(ctx):
        quick = ctx.tier == "quick"
        return [{"name": "handlerdiff-" + which, "cases": "handler.cases", "kinds": ["HSEQ"],
                 "cmd": [os.path.join(HB, "handlerdiff"), "-seed", str(ctx.seed), "-which", which, "-out", "handler.cases",
                         "-ae", "3" if quick else "40", "-rv", "120" if quick else "1500", "-crash", "150" if quick else "1500",
                         "-is", "2500" if quick else "30000"]}]
    return f


HANDLER_RULE = (" PLUS handler-level differential on the property's bounded domain: the real handler of a node put into a state "
                "(VerifSetState hook: every non-decreasing term sequence of length 0-5 over terms 1-3 as log, with/without a compacted "
                "prefix, commit/applied/term/role/vote/contact/lease sampled) receives a request sequence (AppendEntries: every leader "
                "log of the same domain, sampled prev index, entries range, leaderCommit, lower/equal/higher term, duplicates; "
                "RequestVote: terms, candidates, last index/term around the voter's own, prevote, a rival of the same term, and a crash "
                "after k storage writes + restart + rival; InstallSnapshot: two snapshots, 1-3 chunks, any order/duplication/offset, "
                "followed by a probe); response and complete post-state compared with the Coq handler after every request; "
                "distinct_nontrivial counts distinct case lines")


GRPC_RULE = (" PLUS grpcsnap: three real nodes over the library's own gRPC transport on the loopback interface; two replicate 20 operations "
             "and compact; the third starts afterwards and must reach the same applied sequence within 60 s for snapshot payloads of "
             "84 B, 100 KiB and 5 MiB (above gRPC's default message limit)")


FSMRACE_RULE = (" PLUS fsmrace: real nodes with a state machine whose Apply/Snapshot/Restore calls are held at their first "
                "instruction: (a) Snapshot held after takeSnapshot chose its label while the next operation is committed, then restart "
                "(restore + replay); (b) a follower's Apply held while a snapshot covering that operation is installed; no operation "
                "may be in a state machine twice (defects D8, D9); (c) a follower starts a slow local snapshot after the first chunk of a "
                "received snapshot and the final chunk arrives meanwhile: it must end with the received state (defect D23)")


API03_RULE = (" PLUS apidiff -family c03: 5 scripted programs x {1,3} voters x 2 on real nodes with real timers: node 0 is made leader, "
              "partitioned away (or its AppendEntries held), accepts replicated submissions whose futures are kept, is stopped and "
              "restarted AS THE SAME OBJECT (Stop/Start/Restart) while the other nodes elect a leader and commit other operations at the "
              "same indexes; every kept future that resolves successfully must carry exactly the bytes submitted through it")


def cosim_plan(exclude=(), handlers=None, d3=False, grpc=False, fsmrace=False, api03=False):
    def drivers(ctx):
        d = []
        if api03:
            d.append({"name": "apidiff", "cmd": [os.path.join(HB, "apidiff"), "-family", "c03", "-seed", str(ctx.seed)], "props": ["C03"]})
        if fsmrace:
            d.append({"name": "fsmrace", "cmd": [os.path.join(HB, "fsmrace")]})
        if grpc:
            # three real nodes over the library's gRPC transport: a late node needs a snapshot of 84 B, 100 KiB, 5 MiB (defect D14)
            d.append({"name": "grpcsnap", "cmd": [os.path.join(HB, "grpcsnap")]})
        if d3:
            # the delayed vote-request goroutine schedule (defect D3), replayed on real nodes through the held-election hook
            d.append({"name": "d3witness", "cmd": [os.path.join(HB, "d3witness")]})
        if handlers:
            d += handler_driver(handlers)(ctx)
        return d + cosim_drivers(exclude)(ctx)
    return {"harness": ["cosim"] + (["apidiff"] if api03 else []) + (["handlerdiff"] if handlers else []) + (["d3witness"] if d3 else []) + (["grpcsnap"] if grpc else []) + (["fsmrace"] if fsmrace else []), "drivers": drivers,
            "rule": COSIM_RULE + (HANDLER_RULE if handlers else "") + (GRPC_RULE if grpc else "") + (FSMRACE_RULE if fsmrace else "") + (API03_RULE if api03 else ""), "assumptions": COSIM_ASSUME,
            "nontrivial": (lambda l: l.startswith("HSEQ")) if handlers else (lambda l: False)}


PLANS = {
    "C19": {
        "harness": ["codecdiff", "diskdiff"],
        # the storage read-back clause ("every log entry ... read back equals what was written") is also exercised through
        # operation sequences on the real persistentLog (append/truncate/compact/discard/reopen): the LOGPROG family of diskdiff
        "drivers": lambda ctx: codec_drivers(ctx) + disk_drivers("log", ["LOGPROG"], ["C19"])(ctx),
        "rule": "structured generator over every message/record type (boundary values 0, 2^31, 2^32, 2^63, 2^64-1, nil/empty/large "
                "byte slices, non-ASCII ids, 0..6 entries, all entry types) -> library encoder bytes compared with the Coq encoder, "
                "library decoder compared with the Coq decoder on valid encodings, on every prefix and on bit flips; plus a real "
                "loopback gRPC transport round trip; plus the LOGPROG programs of diskdiff (append / append-batch / truncate / compact / discard / "
                "close+reopen sequences on the real persistentLog: entries and file bytes read back after every program compared with the "
                "Coq log-file model - catches a read-back that is lossless for a single write but not after compact->truncate->append->reopen). distinct_nontrivial = distinct case lines with at least one non-default field",
        "nontrivial": lambda l: " - => " not in l and "=> -" not in l,
        "assumptions": ["strings are modelled as byte lists (UTF-8 validity of ids is not modelled; generators use valid UTF-8)",
                        "uint64 lengths: a serialized nested message fits a uint64 length prefix",
                        "metadata.json (encoding/json, base64) is covered by the storage differential of C13 only, not by a theorem"],
    },
    "C12": {
        "harness": ["diskdiff"],
        "drivers": disk_drivers("log,kill", ["RECOVER", "RECOVER_APPEND", "LOGPROG"], ["C12"]),
        "rule": "programs of append/append-batch/truncate/compact/discard/close+reopen on the real persistentLog (30 x length 3 with "
                "every byte cut, then random longer ones); every crash image (file cut at each byte of the write; tmp file at each "
                "prefix, before/after rename; before/after truncate) is materialised and reopened with NewLog+Open+Replay; the result "
                "is checked against the property on the implementation and against the model's recover; RECOVER_APPEND continues "
                "after recovery; PLUS a kill sweep: each operation (append batch, truncate, compact, discard, compact+truncate) "
                "runs in a child process killed by `strace -e inject=...:signal=SIGKILL:when=N` on entry to its N-th "
                "write/rename/unlink/mkdir/truncate system call, for every N, and the directory is reopened. distinct_nontrivial = distinct images/programs with at least one entry beyond the placeholder",
        "nontrivial": lambda l: l.startswith(("RECOVER", "LOGPROG")) and "=> OK 0 " not in l,
        "assumptions": ["process-death crash model: a write leaves a byte prefix; truncate and rename are atomic; fsync is irrelevant; no media corruption",
                        "record payloads are shorter than 2 GiB (int32 length header)"],
    },
    "C13": {
        "harness": ["diskdiff"],
        "drivers": disk_drivers("state,snap,kill", ["READSTATE", "SNAPLATEST", "STATEREC"], ["C13"]),
        "rule": "SetState sequences with the temporary file cut at every byte, before/after rename; snapshot programs "
                "(NewSnapshotFile, 0-3 writes, Close|Discard; 3, 12 and 41 snapshots) with an image after every step plus synthetic "
                "intermediate states of NewSnapshotFile; each image reopened with the real constructors (and NewRaft) and compared "
                "with the model's recover_state / latest(recover_snap); PLUS the kill sweep (SetState, snapshot write+Close|Discard "
                "killed on entry to every file-system call). distinct_nontrivial = distinct case lines",
        "nontrivial": lambda l: l.startswith(("READSTATE", "SNAPLATEST")),
        "assumptions": ["process-death crash model (rename atomic, directory entries durable)",
                        "sort.Slice leaves an input without inversions unchanged (the comparator in directories() always returns false); "
                        "ReadDir returns names sorted, timestamps have equal digit counts"],
    },
    "C01": cosim_plan(_SAFETY_EXCL, None, False, False, True), "C02": cosim_plan(_SAFETY_EXCL, None, True), "C03": cosim_plan(_SAFETY_EXCL, None, False, False, True, True),
    "C04": cosim_plan(_SAFETY_EXCL, None, False, False, True), "C05": cosim_plan(), "C06": cosim_plan(_SAFETY_EXCL, "ae"), "C07": cosim_plan(_SAFETY_EXCL),
    "C08": cosim_plan(_SAFETY_EXCL, "rv"), "C09": cosim_plan(), "C10": cosim_plan(_SAFETY_EXCL, "is", False, False, True), "C11": cosim_plan(_SAFETY_EXCL, "is"),
    "C14": cosim_plan(_SAFETY_EXCL), "C15": cosim_plan((), None, False, True, True), "C16": cosim_plan(), "C17": cosim_plan(),
    "C18": {
        "harness": ["apidiff", "cosim"],
        "drivers": lambda ctx: [{"name": "apidiff", "cmd": [os.path.join(HB, "apidiff"), "-seed", str(ctx.seed),
                                                            "-n", "60" if ctx.tier == "quick" else "1500"]}]
                               + cosim_drivers()(ctx),
        "rule": "bounded programs of public API calls (start/stop/restart in any order, bootstrap valid/invalid, submissions of every "
                "operation type incl. an invalid one, add/remove server, Status().State.String() of every state, Configuration().String()) "
                "on node 0 of 1- and 3-voter clusters with real short timers and a direct in-process transport; each program in its own "
                "child process under a 60 s watchdog: panic, exit, hang, a future unresolved after its timeout, or a committed and applied "
                "membership change whose future timed out while the submitter stayed leader is a violation; 14 scripted programs first. "
                + COSIM_RULE,
        "assumptions": ["absence of panics/exits/hangs is observed on the explored programs, not proved",
                        "timers are real (40 ms election timeout): which role a node has at a call is not controlled"],
        "nontrivial": lambda l: False,
    },
}
