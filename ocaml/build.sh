#!/bin/sh
# Extract the model and build the driver. Run from anywhere.
set -e
cd "$(dirname "$0")"
timeout 600 coqc -Q ../coq RaftV ../coq/Extract/Extract.v
ocamlfind ocamlopt -O3 -w -a -package str -linkpkg model.mli model.ml ext.ml driver.ml -o modeldrv 2>/dev/null || \
ocamlfind ocamlopt -w -a -package str -linkpkg model.mli model.ml ext.ml driver.ml -o modeldrv
