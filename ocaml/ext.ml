(* Node- and cluster-level case kinds (L2/L3); filled in by later layers. *)
let run (kind : string) (_ : string array) : string = failwith ("unknown kind " ^ kind)
