(* Cluster-level replay: runs the extracted step function on the label
   sequences the Go harness executed on real nodes, compares every observation
   (node dumps, live RPCs, resolved futures), and runs the property monitors on
   the implementation's own observations. *)
open Model

let rec pos_of_int (i : int) : positive =
  if i = 1 then XH else if i land 1 = 0 then XO (pos_of_int (i lsr 1)) else XI (pos_of_int (i lsr 1))
let n_of_int (i : int) : n = if i = 0 then N0 else Npos (pos_of_int i)
let rec int_of_pos = function XH -> 1 | XO p -> 2 * int_of_pos p | XI p -> 2 * int_of_pos p + 1
let int_of_n = function N0 -> 0 | Npos p -> int_of_pos p
let ns (x : n) = string_of_int (int_of_n x)
let n_of_s s = n_of_int (int_of_string s)
let b01 b = if b then "1" else "0"
let join_or l = if l = [] then "-" else String.concat "," l

(* ---------- canonical strings (must match harness/sim) ---------- *)
let conf_s (c : config) : string =
  Printf.sprintf "%s{%s}" (ns c.c_index)
    (String.concat "," (List.map (fun (id, v) -> ns id ^ ":" ^ b01 v) c.c_members))

let kind_s = function KNoop -> "n" | KOp p -> "o" ^ ns p | KConf c -> "c" ^ conf_s c
let entry_s (e : entry) = Printf.sprintf "%s:%s:%s" (ns e.e_index) (ns e.e_term) (kind_s e.e_kind)
let entries_s es = if es = [] then "-" else String.concat "," (List.map entry_s es)

let data_s (bs : n list) : string =
  if bs = [] then "-"
  else if List.length bs mod 4 <> 0 then
    "x" ^ String.concat "" (List.map (fun b -> Printf.sprintf "%02x" (int_of_n b)) bs)
  else begin
    let rec words = function
      | a :: b :: c :: d :: r -> (((int_of_n a * 256 + int_of_n b) * 256 + int_of_n c) * 256 + int_of_n d) :: words r
      | _ -> [] in
    let rec runs = function
      | [] -> []
      | v :: r ->
          let rec cnt k = function x :: r' when x = v -> cnt (k + 1) r' | rest -> (k, rest) in
          let (k, rest) = cnt 1 r in
          (if k > 1 then Printf.sprintf "%d*%d" v k else string_of_int v) :: runs rest in
    String.concat "." (runs (words bs))
  end

let role_s = function Leader -> "L" | Follower -> "F" | PreCandidate -> "P" | Candidate -> "C" | Shutdown -> "S"
let opt_id = function None -> "-" | Some i -> ns i

let log_s (l : entry list) : string =
  match l with
  | [] -> "closed"
  | p :: rest ->
      let ph = if rest = [] then Printf.sprintf "%s:%s:p" (ns p.e_index) (ns p.e_term)
        else Printf.sprintf "%s:?:p" (ns p.e_index) in
      String.concat "," (ph :: List.map entry_s rest)

let node_s (now : n) (m : node) : string =
  if m.n_role = Shutdown then "down"
  else if m.n_frozen then "frozen"
  else begin
    let fol = List.map (fun (id, f) ->
        Printf.sprintf "%s:%s:%s:%s" (ns id) (ns f.f_next) (ns f.f_match)
          (match f.f_snap with None -> "-" | Some (_, pos) -> "S" ^ ns pos)) m.n_followers in
    let pend = List.map (fun (i, _) -> ns i) m.n_pending in
    let ro = List.sort compare (List.map (fun o ->
        Printf.sprintf "%d:%s:%s:%s" (match o.ro_type with OLinearizable -> 1 | OLease -> 2 | OReplicated -> 0)
          (ns o.ro_payload) (ns o.ro_read_index) (b01 o.ro_verified)) m.n_ro) in
    let partial = match m.n_partial with
      | None -> "-"
      | Some s -> Printf.sprintf "%s:%s:%d" (ns s.s_index) (ns s.s_term) (List.length s.s_data) in
    let applies = List.map (fun ((i, t), p) -> Printf.sprintf "%s:%s:%s" (ns i) (ns t) (ns p)) m.n_applies in
    Printf.sprintf
      "role=%s term=%s vote=%s commit=%s applied=%s lii=%s lit=%s leader=%s log=%s conf=%s cconf=%s fol=%s pend=%s ro=%s sv=%s lease=%s contact=%s partial=%s fsm=%s applies=%s"
      (role_s m.n_role) (ns m.n_term) (opt_id m.n_vote) (ns m.n_commit) (ns m.n_applied) (ns m.n_lii) (ns m.n_lit)
      (opt_id m.n_leader) (log_s m.n_log)
      (match m.n_conf with None -> "-" | Some c -> conf_s c)
      (match m.n_cconf with None -> "-" | Some c -> conf_s c)
      (join_or fol) (join_or pend) (join_or ro) (b01 m.n_should_verify)
      (b01 (lease_valid now m)) (b01 (recent_contact now m)) partial
      (join_or (List.map ns m.n_fsm)) (join_or applies) ^ Printf.sprintf " iswait=%d" (List.length m.n_iswait)
      ^ " snap=" ^ (match List.rev m.n_snaps with
                    | [] -> "-"
                    | s :: _ -> Printf.sprintf "%s:%s:%s:%d" (ns s.s_index) (ns s.s_term) (conf_s s.s_conf) (List.length s.s_data))
  end

let req_s = function
  | ReqAE q -> Printf.sprintf "AE %s %s %s %s %s %s" (ns q.ae_leader) (ns q.ae_term) (ns q.ae_commit)
                 (ns q.ae_prev_index) (ns q.ae_prev_term) (entries_s q.ae_entries)
  | ReqRV q -> Printf.sprintf "RV %s %s %s %s %s" (ns q.rv_cand) (ns q.rv_term) (ns q.rv_last_index)
                 (ns q.rv_last_term) (b01 q.rv_prevote)
  | ReqIS q -> Printf.sprintf "IS %s %s %s %s %s %s %s %s" (ns q.is_leader) (ns q.is_term) (ns q.is_lii) (ns q.is_lit)
                 (conf_s q.is_conf) (ns q.is_offset) (data_s q.is_bytes) (b01 q.is_done)

let resp_s = function
  | RespAE p -> Printf.sprintf "%s/%s/%s" (ns p.aer_term) (b01 p.aer_success) (ns p.aer_index)
  | RespRV p -> Printf.sprintf "%s/%s" (ns p.rvr_term) (b01 p.rvr_granted)
  | RespIS p -> Printf.sprintf "%s/%s" (ns p.isr_term) (ns p.isr_written)

let result_s = function
  | FNotLeader -> "NotLeader" | FInvalidLease -> "InvalidLease" | FNoCommitThisTerm -> "NoCommit"
  | FPendingConfiguration -> "PendingConf"
  | FOp (i, t, p, r) -> Printf.sprintf "Op:%s:%s:%s:%s" (ns i) (ns t) (ns p) (ns r)
  | FRead (p, r) -> Printf.sprintf "Read:%s:%s" (ns p) (ns r)
  | FConf c -> "Conf:" ^ conf_s c

(* ---------- trace parsing ---------- *)
type obs = {
  mutable nodes : (string * string) list;                       (* id, state string *)
  mutable calls : (int * string * string * string * string * string) list;  (* id src dst st req resp *)
  mutable results : (int * string * string) list;               (* fid node res *)
  mutable notes : string list;
}

let kv (s : string) : (string * string) list =
  List.filter_map (fun tok ->
      match String.index_opt tok '=' with
      | Some i -> Some (String.sub tok 0 i, String.sub tok (i + 1) (String.length tok - i - 1))
      | None -> None) (String.split_on_char ' ' s)
let field s k = try List.assoc k (kv s) with Not_found -> "?"

let split_arrow (s : string) : string * string =
  match Str.bounded_split_delim (Str.regexp_string " => ") s 2 with
  | [a; b] -> (a, b) | _ -> (s, "-")

(* ---------- monitors over the implementation's observations ---------- *)
type mon = {
  tname : string;
  mutable step : int;
  mutable label : string;
  leaders : (int, string) Hashtbl.t;                 (* term -> leader id (C02) *)
  applied : (int, string) Hashtbl.t;                 (* index -> "term:payload" (C01) *)
  committed : (int, string) Hashtbl.t;               (* index -> entry string, learnt from commit indexes (C07) *)
  terms : (string, int) Hashtbl.t;                   (* node -> highest term seen (C08) *)
  votes : (string, string) Hashtbl.t;                (* "voter/term" -> candidate (C08) *)
  lastlog : (string, string) Hashtbl.t;              (* node -> last observed log (disk content while down) *)
  submitted : (int, (string * int * int * int)) Hashtbl.t;  (* fid -> node, type, payload, step *)
  acked : (int, int * int) Hashtbl.t;                (* fid -> (fsm position, step of ack) *)
  mutable nfid : int;
  mutable voters : int;
  mutable static_membership : bool;
  timed : bool;
  mutable viol : (string * string) list;             (* property, text *)
  mutable tag : string;                              (* signature of a known finding seen earlier in this trace *)
}

let rec violate (m : mon) (prop : string) (text : string) =
  (* C01-C04 and C07 are stated for static membership; that they continue to hold under add/promote/demote/remove
     requests is C09: in a trace with membership requests their violations are C09's *)
  if List.mem prop ["C01"; "C02"; "C03"; "C04"; "C07"] && not m.static_membership then
    violate m "C09" (prop ^ " under membership changes: " ^ text)
  else if not (List.exists (fun (p, _) -> p = prop) m.viol) then
    m.viol <- (prop, Printf.sprintf "%s step %d (%s): %s%s" m.tname m.step m.label m.tag text) :: m.viol

let parse_log (s : string) : (int * string) list =
  (* "0:?:p,1:1:c1{0:1,1:1},2:1:n" -> [(1,"1:c1{..}"); (2,"1:n")] ; commas inside {} are not separators *)
  let parts = ref [] and depth = ref 0 and cur = Buffer.create 32 in
  String.iter (fun c ->
      if c = '{' then incr depth; if c = '}' then decr depth;
      if c = ',' && !depth = 0 then (parts := Buffer.contents cur :: !parts; Buffer.clear cur)
      else Buffer.add_char cur c) s;
  parts := Buffer.contents cur :: !parts;
  List.filter_map (fun e ->
      match String.index_opt e ':' with
      | Some i ->
          (match int_of_string_opt (String.sub e 0 i) with
           | None -> None   (* a log the implementation itself can no longer index (wrapped first index) *)
           | Some idx ->
               let rest = String.sub e (i + 1) (String.length e - i - 1) in
               if String.length rest > 0 && (rest.[String.length rest - 1] = 'p' && (String.length rest < 2 || rest.[String.length rest - 2] = ':')) then None
               else Some (idx, rest))
      | None -> None) (List.rev !parts)

let int_field s k = try int_of_string (field s k) with _ -> 0

(* "3{0:1,1:1,3:0}" -> [("0", true); ("1", true); ("3", false)] *)
let conf_members (c : string) : (string * bool) list =
  match String.index_opt c '{' with
  | None -> []
  | Some i ->
      let body = String.sub c (i + 1) (String.length c - i - 2) in
      if body = "" then [] else
        List.filter_map (fun kv -> match String.split_on_char ':' kv with
            | [k; v] -> Some (k, v = "1") | _ -> None) (String.split_on_char ',' body)
let conf_voters c = List.filter_map (fun (k, v) -> if v then Some k else None) (conf_members c)

let monitor_obs (m : mon) (o : obs) =
  let up = List.filter (fun (_, s) -> s <> "down" && s <> "frozen") o.nodes in
  (* open finding D6: a node is elected while counting with a configuration older than the latest
     configuration entry of its own log (followers adopt a configuration only when they apply it);
     violations seen from here on in this trace carry this signature *)
  List.iter (fun (id, s) ->
      let t = int_field s "term" in
      if field s "role" = "L" && not (try ignore (Str.search_forward (Str.regexp_string "elected-under-stale-configuration") m.tag 0); true with Not_found -> false)
         && not (Hashtbl.mem m.votes (Printf.sprintf "elected/%s/%d" id t)) then begin
        let conf = field s "conf" in
        let conf_index = try int_of_string (String.sub conf 0 (String.index conf '{')) with _ -> 0 in
        let newest = List.fold_left (fun acc (i, e) ->
            match String.index_opt e ':' with
            | Some j when j + 1 < String.length e && e.[j + 1] = 'c' -> max acc i
            | _ -> acc) 0 (parse_log (field s "log")) in
        if newest > conf_index then
          m.tag <- m.tag ^ Printf.sprintf "[elected-under-stale-configuration node %s term %d uses %s, its log holds a configuration at index %d] " id t conf newest
      end) up;
  (* open finding D10: an InstallSnapshot chunk of an OLDER snapshot (smaller last included index) is accepted
     into the partially received file of a NEWER one (its offset equals the file's size); violations seen from
     here on in this trace carry this signature *)
  List.iter (fun (cid, _, dst, st, req, resp) ->
      let key = Printf.sprintf "is-answered/%d" cid in
      if st = "A" && not (Hashtbl.mem m.votes key) then begin
        Hashtbl.replace m.votes key "1";
        match String.split_on_char ' ' req with
        | "IS" :: _ :: _ :: lii :: _ :: _ :: off :: _ ->
            (match Hashtbl.find_opt m.votes ("partial-of/" ^ dst) with
             | Some prev when prev <> "-" ->
                 (match String.split_on_char ':' prev with
                  | [pl; _; poff] when int_of_string pl > int_of_string lii && poff = off && resp <> "-" ->
                      if not (try ignore (Str.search_forward (Str.regexp_string "older-chunk-into-newer-partial") m.tag 0); true with Not_found -> false) then
                        m.tag <- m.tag ^ Printf.sprintf "[older-chunk-into-newer-partial node %s: chunk of snapshot %s at offset %s accepted into the partial file of snapshot %s] " dst lii off pl
                  | _ -> ())
             | _ -> ())
        | _ -> ()
      end) o.calls;
  List.iter (fun (id, s) -> Hashtbl.replace m.votes ("partial-of/" ^ id) (field s "partial")) up;
  (* C16 stickiness: a node that has heard from a leader within the election timeout (contact=1 before the
     delivery), or is a leader with a valid lease, grants no vote - prevote or real *)
  List.iter (fun (cid, _, dst, st, req, resp) ->
      let key = Printf.sprintf "rv-answered/%d" cid in
      if st = "A" && not (Hashtbl.mem m.votes key) then begin
        match String.split_on_char ' ' req, String.split_on_char '/' resp with
        | ["RV"; cand; term; _; _; pv], [_; "1"] ->
            Hashtbl.replace m.votes key "1";
            if pv = "1" then Hashtbl.replace m.votes (Printf.sprintf "pv-grant/%s/%s/%s" cand term dst) "1";
            let was k = Hashtbl.find_opt m.votes (k ^ dst) = Some "1" in
            if was "contact-of/" || was "lease-of/" then
              violate m "C16" (Printf.sprintf "node %s granted a %s of term %s to node %s although it %s"
                                 dst (if pv = "1" then "prevote" else "vote") term cand
                                 (if was "lease-of/" then "is a leader with a valid lease" else "had heard from a leader within the election timeout"))
        | "RV" :: _, _ -> Hashtbl.replace m.votes key "1"
        | _ -> ()
      end) o.calls;
  (* C16 prevote: a follower or pre-candidate starts a real election (role C, term + 1) only after a majority of the
     voters of its configuration (itself included) granted it a prevote for that term *)
  List.iter (fun (id, s) ->
      let role = field s "role" and t = int_field s "term" in
      (match Hashtbl.find_opt m.votes ("role-of/" ^ id), Hashtbl.find_opt m.votes ("term-of/" ^ id) with
       | Some pr, Some pt when (pr = "F" || pr = "P") && role = "C" && t = int_of_string pt + 1 ->
           let vs = conf_voters (field s "conf") in
           (* the reply that completes the quorum may belong to a prevote round started one term earlier: its
              request term (old term + 1) equals the current term, so it is not stale for sendRequestVote *)
           let grants = List.filter (fun v -> v = id || Hashtbl.mem m.votes (Printf.sprintf "pv-grant/%s/%d/%s" id t v)
                                              || Hashtbl.mem m.votes (Printf.sprintf "pv-grant/%s/%d/%s" id (t - 1) v)) vs in
           if List.length vs > 1 && 2 * List.length grants <= List.length vs then
             violate m "C16" (Printf.sprintf "node %s became a candidate of term %d with prevotes from %d of the %d voters of %s"
                                id t (List.length grants) (List.length vs) (field s "conf"))
       | _ -> ());
      Hashtbl.replace m.votes ("role-of/" ^ id) role;
      Hashtbl.replace m.votes ("term-of/" ^ id) (string_of_int t);
      Hashtbl.replace m.votes ("contact-of/" ^ id) (field s "contact");
      Hashtbl.replace m.votes ("lease-of/" ^ id) (if role = "L" then field s "lease" else "0")) up;
  List.iter (fun (id, s) -> if s = "down" || s = "frozen" then begin
      Hashtbl.remove m.votes ("role-of/" ^ id); Hashtbl.remove m.votes ("contact-of/" ^ id); Hashtbl.remove m.votes ("lease-of/" ^ id) end) o.nodes;
  (* C02: one leader per term *)
  let see_leader term id =
    match Hashtbl.find_opt m.leaders term with
    | Some other when other <> id ->
        violate m "C02" (Printf.sprintf "two leaders in term %d: node %s and node %s" term other id)
    | Some _ -> ()
    | None -> Hashtbl.replace m.leaders term id in
  List.iter (fun (id, s) -> if field s "role" = "L" then see_leader (int_field s "term") id) up;
  List.iter (fun (_, src, _, _, req, _) ->
      match String.split_on_char ' ' req with
      | "AE" :: leader :: term :: _ | "IS" :: leader :: term :: _ ->
          if leader <> src then violate m "C02" (Printf.sprintf "request from %s names leader %s" src leader);
          see_leader (int_of_string term) leader
      | _ -> ()) o.calls;
  (* C08: terms never decrease; one real vote per term *)
  List.iter (fun (id, s) ->
      let t = int_field s "term" in
      (match Hashtbl.find_opt m.terms id with
       | Some old when t < old -> violate m "C08" (Printf.sprintf "term of node %s went from %d to %d" id old t)
       | _ -> ());
      Hashtbl.replace m.terms id (max t (try Hashtbl.find m.terms id with Not_found -> 0));
      (* a vote cast in a term is never forgotten or changed while the node stays in that term,
         across crashes and restarts *)
      let key = "vote-of/" ^ id ^ "/" ^ string_of_int t and v = field s "vote" in
      (match Hashtbl.find_opt m.votes key with
       | Some old when old <> v ->
           violate m "C08" (Printf.sprintf "node %s voted for %s in term %d and now shows vote %s for that term" id old t v)
       | _ -> if v <> "-" then Hashtbl.replace m.votes key v)) up;
  List.iter (fun (_, _, dst, st, req, resp) ->
      match String.split_on_char ' ' req, String.split_on_char '/' resp with
      | ["RV"; cand; term; _; _; "0"], [rterm; "1"] when st = "A" ->
          let key = dst ^ "/" ^ term in
          ignore rterm;
          (match Hashtbl.find_opt m.votes key with
           | Some c when c <> cand ->
               violate m "C08" (Printf.sprintf "node %s granted its term-%s vote to %s and to %s" dst term c cand)
           | _ -> Hashtbl.replace m.votes key cand)
      | _ -> ()) o.calls;
  (* responses never carry a term lower than an earlier one of the same node *)
  (* C01: same index => same term and payload; increasing per FSM lineage *)
  List.iter (fun (id, s) ->
      let aps = field s "applies" in
      if aps <> "-" && aps <> "?" then begin
        let last = ref (-1) in
        List.iter (fun a ->
            match String.split_on_char ':' a with
            | [i; t; p] ->
                let i = int_of_string i in
                if i <= !last then violate m "C01" (Printf.sprintf "node %s applied index %d after %d" id i !last);
                last := i;
                let v = t ^ ":" ^ p in
                (match Hashtbl.find_opt m.applied i with
                 | Some w when w <> v ->
                     violate m "C01" (Printf.sprintf "index %d applied as (term:payload) %s and as %s (node %s)" i w v id)
                 | _ -> Hashtbl.replace m.applied i v)
            | _ -> ()) (String.split_on_char ',' aps)
      end) up;
  (* remember logs (what is on disk while a node is down) *)
  List.iter (fun (id, s) -> Hashtbl.replace m.lastlog id (field s "log")) up;
  (* C06: log matching between every two observed logs *)
  let logs = List.map (fun (id, s) -> (id, parse_log (field s "log"))) up in
  List.iter (fun (a, la) ->
      List.iter (fun (b, lb) ->
          if a < b then
            List.iter (fun (i, e) ->
                match List.assoc_opt i lb with
                | Some e' ->
                    let term x = List.hd (String.split_on_char ':' x) in
                    if term e = term e' then begin
                      if e <> e' then violate m "C06" (Printf.sprintf "nodes %s and %s hold different entries with index %d and term %s" a b i (term e));
                      List.iter (fun (j, f) ->
                          if j < i then match List.assoc_opt j lb with
                            | Some f' when f <> f' ->
                                violate m "C06" (Printf.sprintf "nodes %s and %s agree at index %d (term %s) but differ at index %d" a b i (term e) j)
                            | _ -> ()) la
                    end
                | None -> ()) la) logs) logs;
  (* committed entries: everything up to a node's commit index *)
  List.iter (fun (id, s) ->
      let c = int_field s "commit" in
      List.iter (fun (i, e) ->
          if i <= c then
            match Hashtbl.find_opt m.committed i with
            | Some e' when e' <> e ->
                violate m "C01" (Printf.sprintf "index %d committed as %s and as %s (node %s)" i e' e id)
            | _ -> Hashtbl.replace m.committed i e) (List.assoc id logs)) up;
  (* C07: a leader holds every committed entry *)
  List.iter (fun (id, s) ->
      let key = id ^ "/" ^ field s "term" in
      if field s "role" = "L" && not (Hashtbl.mem m.votes ("leader-seen/" ^ key)) then begin
        Hashtbl.replace m.votes ("leader-seen/" ^ key) "1";
        let l = List.assoc id logs and lii = int_field s "lii" in
        Hashtbl.iter (fun i e ->
            if i > lii then
              match List.assoc_opt i l with
              | Some e' when e' = e -> ()
              | Some e' -> violate m "C07" (Printf.sprintf "leader %s of term %s has %s at committed index %d (committed: %s)" id (field s "term") e' i e)
              | None -> violate m "C07" (Printf.sprintf "leader %s of term %s lacks committed index %d (%s)" id (field s "term") i e)) m.committed
      end) up;
  (* C09: a node becomes leader of term T only with the real votes of a majority of the voters of its
     configuration (itself included only if it is a voter) *)
  List.iter (fun (id, s) ->
      let t = int_field s "term" in
      let key = Printf.sprintf "elected/%s/%d" id t in
      if field s "role" = "L" && not (Hashtbl.mem m.votes key) then begin
        Hashtbl.replace m.votes key "1";
        let vs = conf_voters (field s "conf") in
        let support = List.filter (fun v -> Hashtbl.find_opt m.votes (Printf.sprintf "vote-of/%s/%d" v t) = Some id) vs in
        if 2 * List.length support <= List.length vs then
          violate m "C09" (Printf.sprintf "node %s leads term %d with the votes of %d of the %d voters of its configuration %s (voters for it: %s)"
                             id t (List.length support) (List.length vs) (field s "conf") (String.concat "," support))
      end) up;
  (* C09: a leader advances its commit index to an entry of its term only when a majority of the VOTERS
     of its configuration hold that entry on disk (the leader counts itself only if it is a voter) *)
  List.iter (fun (id, s) ->
      if field s "role" = "L" then begin
        let t = field s "term" and c = int_field s "commit" in
        let key = "commit-seen/" ^ id ^ "/" ^ t in
        let before = try int_of_string (Hashtbl.find m.votes key) with Not_found -> -1 in
        if c > before then begin
          Hashtbl.replace m.votes key (string_of_int c);
          (match List.assoc_opt c (List.assoc id logs) with
           | Some e when before >= 0 && List.hd (String.split_on_char ':' e) = t ->
               (* the configuration in force when the entry was counted: the one shown now or the one shown
                  before this step (applying the committed entry may itself have changed it) *)
               let confs = field s "conf" :: (match Hashtbl.find_opt m.votes ("conf-of/" ^ id) with Some c -> [c] | None -> []) in
               let check conf =
                 let vs = conf_voters conf in
                 let holders = List.filter (fun v ->
                     match Hashtbl.find_opt m.lastlog v with
                     | Some l -> List.assoc_opt c (parse_log l) = Some e
                     | None -> false) vs in
                 (2 * List.length holders > List.length vs, holders, vs) in
               if not (List.exists (fun conf -> let (ok, _, _) = check conf in ok) confs) then begin
                 let (_, holders, vs) = check (List.nth confs (List.length confs - 1)) in
                 violate m "C09" (Printf.sprintf "leader %s of term %s committed index %d (%s) held by %d of the %d voters of %s (holders: %s)"
                                    id t c e (List.length holders) (List.length vs) (List.nth confs (List.length confs - 1)) (String.concat "," holders))
               end
           | _ -> ())
        end
      end) up;
  List.iter (fun (id, s) -> Hashtbl.replace m.votes ("conf-of/" ^ id) (field s "conf")) up;
  (* C10: every FSM holds a prefix of the committed operation sequence *)
  let ops = Hashtbl.fold (fun i e acc -> (i, e) :: acc) m.committed [] |> List.sort compare
            |> List.filter_map (fun (_, e) -> match String.split_on_char ':' e with
                | [_; k] when String.length k > 0 && k.[0] = 'o' -> Some (String.sub k 1 (String.length k - 1))
                | _ -> None) in
  List.iter (fun (id, s) ->
      let fsm = field s "fsm" in
      if fsm <> "-" then begin
        let have = String.split_on_char ',' fsm in
        let rec prefix a b = match a, b with
          | [], _ -> true
          | x :: a', y :: b' -> x = y && prefix a' b'
          | _ :: _, [] -> false in
        if not (prefix have ops) then
          violate m "C10" (Printf.sprintf "state machine of node %s holds [%s], not a prefix of the committed operations [%s]" id fsm (String.concat "," ops))
      end) up;
  (* C10: a snapshot labelled i carries the configuration committed at i: its configuration entry has an index <= i
     and, if that index is known committed, is that committed entry *)
  List.iter (fun (id, s) ->
      match String.split_on_char ':' (field s "snap") with
      | i :: _ :: rest when rest <> [] ->
          let i = int_of_string i in
          let rest = String.concat ":" rest in
          (match String.rindex_opt rest ':' with
           | Some k ->
               let conf = String.sub rest 0 k in
               let ci = try int_of_string (String.sub conf 0 (String.index conf '{')) with _ -> 0 in
               if ci > i then
                 violate m "C10" (Printf.sprintf "node %s holds a snapshot labelled %d with configuration %s (a configuration entry beyond the label)" id i conf)
               else (match Hashtbl.find_opt m.committed ci with
                   | Some e when (match String.index_opt e ':' with
                                  | Some j -> String.length e > j + 1 && e.[j + 1] = 'c' && String.sub e (j + 1) (String.length e - j - 1) <> "c" ^ conf
                                  | None -> false) ->
                       violate m "C10" (Printf.sprintf "node %s holds a snapshot labelled %d with configuration %s but index %d is committed as %s" id i conf ci e)
                   | _ -> ())
           | None -> ())
      | _ -> ()) up;
  (* C11: applied and commit never exceed what the log/snapshot boundary covers; lii <= applied *)
  List.iter (fun (id, s) ->
      if int_field s "applied" > int_field s "commit" then
        violate m "C11" (Printf.sprintf "node %s: applied %d > commit %d" id (int_field s "applied") (int_field s "commit"))) up;
  (* futures: C03 (truthful), C04 (quorum on disk), C05/C17 (reads not stale) *)
  List.iter (fun (fid, node, res) ->
      match String.split_on_char ':' res with
      | ["Op"; i; t; p; r] ->
          let i = int_of_string i in
          (match Hashtbl.find_opt m.submitted fid with
           | Some (_, _, payload, _) when string_of_int payload <> p ->
               violate m "C03" (Printf.sprintf "future %d returned payload %s, submitted %d" fid p payload)
           | _ -> ());
          (match Hashtbl.find_opt m.applied i with
           | Some v when v = t ^ ":" ^ p -> ()
           | Some v -> violate m "C03" (Printf.sprintf "future %d reports index %d as %s:%s but %s was applied there" fid i t p v)
           | None -> violate m "C03" (Printf.sprintf "future %d succeeded for index %d which no state machine has applied" fid i));
          Hashtbl.replace m.acked fid (int_of_string r, m.step);
          (* C04: a majority of voters hold the entry on disk *)
          if m.static_membership then begin
            let holders = Hashtbl.fold (fun _ log acc ->
                match List.assoc_opt i (parse_log log) with
                | Some e when e = t ^ ":o" ^ p -> acc + 1
                | _ -> acc) m.lastlog 0 in
            if 2 * holders <= m.voters then
              violate m "C04" (Printf.sprintf "future %d acknowledged index %d with the entry in %d of %d logs" fid i holders m.voters)
          end
      | "Conf" :: _ ->
          (* C09: a membership future that succeeds reports a committed configuration containing the change *)
          let c = String.sub res 5 (String.length res - 5) in
          (match Hashtbl.find_opt m.votes (Printf.sprintf "confreq/%d" fid) with
           | Some req ->
               let ms = conf_members c in
               (match String.split_on_char ' ' req with
                | ["ADD"; id; v] ->
                    if List.assoc_opt id ms <> Some (v = "1") then
                      violate m "C09" (Printf.sprintf "future %d (add %s voter=%s at node %s) succeeded with configuration %s" fid id v node c)
                | ["REMOVE"; id] ->
                    if List.mem_assoc id ms then
                      violate m "C09" (Printf.sprintf "future %d (remove %s at node %s) succeeded with configuration %s" fid id node c)
                | _ -> ());
               let idx = try int_of_string (String.sub c 0 (String.index c '{')) with _ -> -1 in
               (match Hashtbl.find_opt m.committed idx with
                | Some e when (match String.index_opt e ':' with
                               | Some i -> String.sub e (i + 1) (String.length e - i - 1) = "c" ^ c | None -> false) -> ()
                | Some e -> violate m "C09" (Printf.sprintf "future %d reports configuration %s but index %d is committed as %s" fid c idx e)
                | None -> violate m "C09" (Printf.sprintf "future %d reports configuration %s which no node has committed" fid c))
           | None -> ())
      | ["Read"; _; r] ->
          let r = int_of_string r in
          (match Hashtbl.find_opt m.submitted fid with
           | Some (_, ty, _, sstep) ->
               Hashtbl.iter (fun f (pos, astep) ->
                   (* C17 assumes lease + message delay < election timeout: only the "timed" family keeps that *)
                   if astep < sstep && pos > r && (ty = 1 || m.timed) then
                     violate m (if ty = 1 then "C05" else "C17")
                       (Printf.sprintf "read %d (submitted at step %d to node %s) saw %d operations but operation future %d, acknowledged at step %d, was number %d"
                          fid sstep node r f astep pos)) m.acked
           | None -> ())
      | _ -> ()) o.results

(* C15: at the end of the fault-free tail *)
let monitor_tail (m : mon) (o : obs) =
  let up = List.filter (fun (_, s) -> s <> "down" && s <> "frozen") o.nodes in
  let members = List.filter (fun (id, s) -> let c = field s "conf" in c <> "-" && c <> "0{}" && ignore id = ()) up in
  let leaders = List.filter (fun (_, s) -> field s "role" = "L") members in
  if List.length members * 2 > m.voters && m.static_membership then begin
    if List.length leaders <> 1 then
      violate m "C15" (Printf.sprintf "%d leaders after the fault-free tail" (List.length leaders))
    else begin
      let (_, ls) = List.hd leaders in
      List.iter (fun (id, s) ->
          if field s "fsm" <> field ls "fsm" then
            begin
              violate m "C15" (Printf.sprintf "node %s did not catch up: fsm %s vs leader %s" id (field s "fsm") (field ls "fsm"));
              (* C14: a node that crashed and restarted rejoins and catches up *)
              if Hashtbl.mem m.votes ("restarted/" ^ id) then
                violate m "C14" (Printf.sprintf "node %s, restarted after a crash, did not catch up: fsm %s vs leader %s" id (field s "fsm") (field ls "fsm"))
            end) members
    end
  end

(* ---------- replay ---------- *)
let first_diff (a : string) (b : string) : string =
  let ta = String.split_on_char ' ' a and tb = String.split_on_char ' ' b in
  let rec go x y = match x, y with
    | u :: x', v :: y' -> if u = v then go x' y' else Printf.sprintf "model{%s} impl{%s}" u v
    | [], [] -> "same"
    | u :: _, [] -> "model{" ^ u ^ "} impl{}"
    | [], v :: _ -> "model{} impl{" ^ v ^ "}" in
  go ta tb

let parse_label (w : world) (cmap : (int, n) Hashtbl.t) (l : string) : label option =
  let f = Array.of_list (String.split_on_char ' ' l) in
  let node i = n_of_s f.(i) in
  let call i = try Some (Hashtbl.find cmap (int_of_string f.(i))) with Not_found -> None in
  ignore w;
  match f.(0) with
  | "TICK" -> Some (LTick (node 1))
  | "ELECTION" -> Some (LElection (node 1))
  | "HEARTBEAT" -> Some (LHeartbeat (node 1))
  | "SNAPSHOT" -> Some (LSnapshot (node 1))
  | "DELIVER" -> Option.map (fun c -> LDeliver c) (call 1)
  | "DUP" -> Option.map (fun c -> LDup c) (call 1)
  | "REPLY" -> Option.map (fun c -> LReply c) (call 1)
  | "FAIL" -> Option.map (fun c -> LFail c) (call 1)
  | "SUBMIT" -> Some (LSubmit (node 1, (match f.(2) with "0" -> OReplicated | "1" -> OLinearizable | _ -> OLease), node 3))
  | "ADD" -> Some (LAddServer (node 1, node 2, f.(3) = "1"))
  | "REMOVE" -> Some (LRemoveServer (node 1, node 2))
  | "BUDGET" -> Some (LBudget (node 1, node 2))
  | "PAD" -> Some (LPad (node 1, node 2))
  | "CRASH" -> Some (LCrash (node 1))
  | "RESTART" -> Some (LRestart (node 1))
  | _ -> None

let cstate_s = function CPending -> "P" | CAnswered -> "A" | CWaiting -> "W" | CDone -> "D"

type tstate = {
  mutable w : world;
  cmap : (int, n) Hashtbl.t;           (* impl call id -> model call id *)
  mutable seen_results : (int * string) list;
  mutable waiting : (int * string) list;   (* impl calls whose handler is parked, with destination *)
  mutable diverged : bool;
  mutable prev : (world * label) option;   (* state before the last harness label, and that label *)
  mutable quiet : bool;                    (* dry run: record divergence, report nothing *)
}

let mismatches = ref 0
let traces = ref 0
let steps = ref 0
let out_lines : string list ref = ref []
let say s = out_lines := s :: !out_lines

(* ---- schedules of the goroutines woken by one harness label ----
   [macro] (Coq: settle) runs them in one fixed order: spawned goroutines first (in spawn order), then
   electionLoop, commitLoop, applyLoop, readOnlyLoop.  The Go scheduler may pick any order; the model's
   [step] has one label per goroutine (LTask, LDefer, LElectionRun, LCommit, LApply, LRo), and every
   theorem quantifies over all label sequences.  When the default order does not reproduce what the
   implementation shows, other orders are tried: every priority order of the five classes with the spawned
   goroutines in FIFO or LIFO order, then pseudo-random orders.  The implementation's observation is a
   mismatch only if no schedule tried reproduces it. *)
let schedules_tried = ref 0
let schedules_needed = ref 0

let enabled_classes (m : node) : int list =
  if not (is_up m) then [] else
  (if m.n_tasks <> [] then [0] else [])
  @ (if m.n_cv.cv_election then [1] else [])
  @ (if m.n_cv.cv_commit then [2] else [])
  @ (if m.n_cv.cv_apply then [3] else [])
  @ (if m.n_cv.cv_ro then [4; 5] else [])

let class_labels (m : node) (cls : int) (task : int) : label list =
  match cls with
  | 0 -> List.init task (fun _ -> LDefer m.n_id) @ [LTask m.n_id]
  | 1 -> [LElectionRun m.n_id]
  | 2 -> [LCommit m.n_id]
  | 3 -> [LApply m.n_id]
  | 4 -> [LRo m.n_id]
  | _ -> [LRoMissed m.n_id]   (* the wake-up of readOnlyLoop is lost *)

(* choose : node -> enabled classes -> (class, task index) *)
let rec settle_by (choose : node -> int list -> int * int) (fuel : int) (w : world) : world =
  if fuel = 0 then w else
  match List.find_opt (fun m -> enabled_classes m <> []) w.w_nodes with
  | None -> w
  | Some m ->
      let (cls, task) = choose m (enabled_classes m) in
      settle_by choose (fuel - 1) (List.fold_left step w (class_labels m cls task))

let rec perms = function
  | [] -> [[]]
  | l -> List.concat_map (fun x -> List.map (fun p -> x :: p) (perms (List.filter (fun y -> y <> x) l))) l

let by_priority (prio : int list) (lifo : bool) : node -> int list -> int * int = fun m en ->
  let cls = List.find (fun c -> List.mem c en) prio in
  (cls, if cls = 0 && lifo then List.length m.n_tasks - 1 else 0)

let by_random (seed : int) : node -> int list -> int * int =
  let st = Random.State.make [| seed |] in
  fun m en ->
    let cls = List.nth en (Random.State.int st (List.length en)) in
    (cls, if cls = 0 then Random.State.int st (List.length m.n_tasks) else 0)

let alternative_schedules : (node -> int list -> int * int) list Lazy.t = lazy (
  List.concat_map (fun p -> [by_priority p false; by_priority p true]) (perms [0; 1; 2; 3; 4])
  @ List.init 300 (fun i -> by_random (i + 1)))

let compare_obs (ts : tstate) (m : mon) (o : obs) =
  (* An InstallSnapshot handler parked in applyCond.Wait resumes when a broadcast finds its wait
     condition false; whether it or applyLoop wins the lock after a common wake-up is the scheduler's
     choice, so the model takes the implementation's choice as an input: when the parked call is seen
     answered, the model fires LInstallResume (a no-op unless the resume is enabled in the model). *)
  List.iter (fun (id, s) ->
      if s <> "down" && s <> "frozen" then
        match get_node ts.w (n_of_s id) with
        | Some mn ->
            let k = int_field s "iswait" in
            let excess = List.length mn.n_iswait - k in
            for _ = 1 to excess do ts.w <- macro ts.w (LInstallResume (n_of_s id)) done
        | None -> ()) o.nodes;
  let w = ts.w in
  let bad what detail =
    if not ts.diverged then begin
      ts.diverged <- true;
      if not ts.quiet then begin
        incr mismatches;
        say (Printf.sprintf "MISMATCH trace=%s step=%d label=%s what=%s %s" m.tname m.step m.label what detail)
      end
    end in
  (* nodes *)
  List.iter (fun (id, s) ->
      match get_node w (n_of_s id) with
      | None -> bad ("node " ^ id) "unknown to the model"
      | Some mn ->
          let ms = node_s w.w_now mn in
          if ms <> s then bad ("node " ^ id) (first_diff ms s)) o.nodes;
  (* calls: bind new implementation calls to model calls with the same content *)
  let live_model = List.filter (fun c -> c.c_state <> CDone) w.w_calls in
  let bound = Hashtbl.fold (fun _ v acc -> v :: acc) ts.cmap [] in
  List.iter (fun (id, src, dst, _, req, _) ->
      if not (Hashtbl.mem ts.cmap id) then
        match List.find_opt (fun c -> not (List.mem c.c_id bound) && not (Hashtbl.fold (fun _ v a -> a || v = c.c_id) ts.cmap false)
                                      && ns c.c_src = src && ns c.c_dst = dst && req_s c.c_req = req) live_model with
        | Some c -> Hashtbl.replace ts.cmap id c.c_id
        | None -> bad (Printf.sprintf "call %d %s->%s" id src dst) ("impl sent {" ^ req ^ "} which the model did not")) o.calls;
  List.iter (fun (id, _, _, st, _, resp) ->
      match Hashtbl.find_opt ts.cmap id with
      | None -> ()
      | Some _ when st = "Z" -> ()
      | Some mid ->
          (match List.find_opt (fun c -> c.c_id = mid) w.w_calls with
           | None -> ()
           | Some c ->
               let mst = cstate_s c.c_state in
               let mresp = match c.c_state, c.c_resp with
                 | CAnswered, Some p -> resp_s p | CAnswered, None -> "ERR" | _ -> "-" in
               if mst <> st then bad (Printf.sprintf "call %d state" id) (Printf.sprintf "model{%s} impl{%s}" mst st)
               else if mresp <> resp then bad (Printf.sprintf "call %d response" id) (Printf.sprintf "model{%s} impl{%s}" mresp resp))) o.calls;
  List.iter (fun c ->
      if not (Hashtbl.fold (fun _ v a -> a || v = c.c_id) ts.cmap false) then
        bad (Printf.sprintf "model call %s->%s" (ns c.c_src) (ns c.c_dst)) ("model sent {" ^ req_s c.c_req ^ "} which the impl did not")) live_model;
  (* results *)
  (* the value a read returns depends on whether readOnlyLoop or applyLoop wins the lock after a
     common wake-up (both orders are legal): reads are compared on payload and time of resolution only *)
  let norm r = match String.split_on_char ':' r with ["Read"; p; _] -> "Read:" ^ p ^ ":*" | _ -> r in
  (* a future answered inside the very section in which the node then freezes at a storage write is never seen by
     anybody (the harness cannot poll a frozen node, and the process dies next): such answers are not compared *)
  List.iter (fun mn ->
      if mn.n_frozen then
        List.iter (fun (fid, r) ->
            let x = (int_of_n fid, norm (result_s r)) in
            if not (List.mem x ts.seen_results) then ts.seen_results <- x :: ts.seen_results) mn.n_results) w.w_nodes;
  let model_results = List.concat_map (fun mn -> List.map (fun (fid, r) -> (int_of_n fid, norm (result_s r))) mn.n_results) w.w_nodes in
  let fresh = List.filter (fun r -> not (List.mem r ts.seen_results)) model_results in
  let impl = List.map (fun (fid, _, r) -> (fid, norm r)) o.results in
  List.iter (fun r -> if not (List.mem r impl) then bad (Printf.sprintf "future %d" (fst r)) ("model resolved it with {" ^ snd r ^ "}, impl did not")) fresh;
  List.iter (fun r -> if not (List.mem r fresh) then bad (Printf.sprintf "future %d" (fst r)) ("impl resolved it with {" ^ snd r ^ "}, model did not")) impl;
  ts.seen_results <- fresh @ ts.seen_results;
  (* outcome *)
  (* a node frozen at a storage write executes nothing more: what the model computes for it after the freeze (it lets
     the section run on with writes suppressed) is not the goroutine's behaviour and is discarded by the crash *)
  List.iter (fun mn -> if mn.n_out <> Model.Ok && not mn.n_frozen then bad (Printf.sprintf "node %s" (ns mn.n_id)) "model predicts a fatal error or panic here") w.w_nodes

(* ---- dumping the model-level labels of a trace as a Coq list (for refutation witnesses) ---- *)
let dump_labels : Buffer.t option ref = ref None
let rec nat_of_int k = if k <= 0 then O else S (nat_of_int (k - 1))
let coq_label (l : label) : string =
  let n = ns in
  let b v = if v then "true" else "false" in
  match l with
  | LTick d -> "LTick " ^ n d | LElection x -> "LElection " ^ n x | LHeartbeat x -> "LHeartbeat " ^ n x
  | LDeliver c -> "LDeliver " ^ n c | LDup c -> "LDup " ^ n c | LReply c -> "LReply " ^ n c | LFail c -> "LFail " ^ n c
  | LSubmit (x, ty, p) -> Printf.sprintf "LSubmit %s %s %s" (n x)
                            (match ty with OReplicated -> "OReplicated" | OLinearizable -> "OLinearizable" | _ -> "OLease") (n p)
  | LAddServer (x, id, v) -> Printf.sprintf "LAddServer %s %s %s" (n x) (n id) (b v)
  | LRemoveServer (x, id) -> Printf.sprintf "LRemoveServer %s %s" (n x) (n id)
  | LSnapshot x -> "LSnapshot " ^ n x | LCrash x -> "LCrash " ^ n x | LRestart x -> "LRestart " ^ n x
  | LBudget (x, k) -> Printf.sprintf "LBudget %s %s" (n x) (n k) | LPad (x, k) -> Printf.sprintf "LPad %s %s" (n x) (n k)
  | LDefer x -> "LDefer " ^ n x | LRoMissed x -> "LRoMissed " ^ n x | LTask x -> "LTask " ^ n x | LElectionRun x -> "LElectionRun " ^ n x
  | LCommit x -> "LCommit " ^ n x | LApply x -> "LApply " ^ n x | LRo x -> "LRo " ^ n x
  | LInstallResume x -> "LInstallResume " ^ n x

let matches (ts : tstate) (m : mon) (o : obs) (w : world) : bool =
  let t' = { ts with w; cmap = Hashtbl.copy ts.cmap; diverged = false; quiet = true } in
  compare_obs t' m o;
  not t'.diverged

let compare_obs_any_schedule (ts : tstate) (m : mon) (o : obs) =
  (match ts.prev with
   | Some (w0, l) when not (matches ts m o ts.w) ->
       let w1 = step w0 l in
       let rec go = function
         | [] -> ()
         | sch :: rest ->
             incr schedules_tried;
             let w' = settle_by sch 400 w1 in
             if matches ts m o w' then (ts.w <- w'; incr schedules_needed) else go rest in
       go (Lazy.force alternative_schedules)
   | _ -> ());
  compare_obs ts m o

let run_trace_file (path : string) =
  let ic = open_in path in
  let ts = ref None and mon = ref None and cur = ref None in
  let tail_seen = ref false in
  let flush_obs () =
    (match !ts, !mon, !cur with
     | Some t, Some m, Some o ->
         (try
            monitor_obs m o;
            if !tail_seen then (monitor_tail m o; tail_seen := false);
            if not t.diverged then compare_obs_any_schedule t m o
          with e ->
            (* an observation the replayer cannot even parse: the implementation shows something no model state has *)
            if not t.diverged then begin
              t.diverged <- true; incr mismatches;
              say (Printf.sprintf "MISMATCH trace=%s step=%d label=%s what=observation cannot be interpreted (%s)"
                     m.tname m.step m.label (Printexc.to_string e))
            end)
     | _ -> ());
    cur := None in
  let finish () =
    flush_obs ();
    (match !mon with
     | Some m -> List.iter (fun (p, t) -> say (Printf.sprintf "IMPL-VIOLATION %s %s" p t)) (List.rev m.viol)
     | None -> ());
    ts := None; mon := None in
  (try
     while true do
       let line = input_line ic in
       let f = String.split_on_char ' ' line in
       match f with
       | "TRACE" :: _ ->
           finish ();
           incr traces;
           let k = kv line in
           let ids = List.map n_of_s (String.split_on_char ',' (List.assoc "ids" k)) in
           let boot = List.map n_of_s (String.split_on_char ',' (List.assoc "boot" k)) in
           let w = init_world ids boot (n_of_s (List.assoc "et" k)) (n_of_s (List.assoc "ld" k)) in
           ts := Some { w; cmap = Hashtbl.create 64; seen_results = []; waiting = []; diverged = false; prev = None; quiet = false };
           mon := Some { tname = Printf.sprintf "%s#%d(%s)" (Filename.basename path) !traces (List.assoc "family" k);
                         step = 0; label = "INIT"; leaders = Hashtbl.create 8; applied = Hashtbl.create 32;
                         committed = Hashtbl.create 32; terms = Hashtbl.create 8; votes = Hashtbl.create 16;
                         lastlog = Hashtbl.create 8; submitted = Hashtbl.create 32; acked = Hashtbl.create 32; nfid = 0;
                         voters = List.length boot; static_membership = true; timed = (List.assoc "family" k = "timed"); viol = []; tag = "" }
       | "STEP" :: i :: rest ->
           flush_obs ();
           incr steps;
           let label = String.concat " " rest in
           (match !ts, !mon with
            | Some t, Some m ->
                m.step <- int_of_string i; m.label <- label;
                (match rest with
                 | "SUBMIT" :: node :: ty :: p :: _ ->
                     Hashtbl.replace m.submitted m.nfid (node, int_of_string ty, int_of_string p, m.step); m.nfid <- m.nfid + 1
                 | "RESTART" :: id :: _ -> Hashtbl.replace m.votes ("restarted/" ^ id) "1"
                 | "ADD" :: _ :: id :: v :: _ ->
                     Hashtbl.replace m.votes (Printf.sprintf "confreq/%d" m.nfid) ("ADD " ^ id ^ " " ^ v);
                     m.nfid <- m.nfid + 1; m.static_membership <- false
                 | "REMOVE" :: _ :: id :: _ ->
                     Hashtbl.replace m.votes (Printf.sprintf "confreq/%d" m.nfid) ("REMOVE " ^ id);
                     m.nfid <- m.nfid + 1; m.static_membership <- false
                 | _ -> ());
                if label <> "INIT" && not t.diverged then
                  (match parse_label t.w t.cmap label with
                   | Some l ->
                       (match !dump_labels with
                        | Some b ->
                            let w1 = step t.w l in
                            List.iter (fun x -> Buffer.add_string b (coq_label x ^ ";\n   ")) (l :: settle_labels (nat_of_int 200) w1)
                        | None -> ());
                       t.prev <- Some (t.w, l); t.w <- macro t.w l
                   | None ->
                       t.diverged <- true; incr mismatches;
                       say (Printf.sprintf "MISMATCH trace=%s step=%s label=%s what=label the model has no call with that id" m.tname i label))
            | _ -> ());
           cur := Some { nodes = []; calls = []; results = []; notes = [] }
       | "NODE" :: id :: rest ->
           (match !cur with Some o -> o.nodes <- o.nodes @ [(id, String.concat " " rest)] | None -> ())
       | "CALL" :: id :: src :: dst :: st :: rest ->
           let (req, resp) = split_arrow (String.concat " " rest) in
           (match !cur with Some o -> o.calls <- o.calls @ [(int_of_string id, src, dst, st, req, resp)] | None -> ())
       | "RESULT" :: fid :: node :: res :: _ ->
           (match !cur with Some o -> o.results <- o.results @ [(int_of_string fid, node, res)] | None -> ())
       | "TAIL" :: _ -> tail_seen := true; (match !cur with Some o -> (match !mon with Some m -> monitor_tail m o | None -> ()) | None -> ())
       | "IMPL-VIOLATION" :: _ -> say line
       | "HARNESS-ERROR" :: _ -> say ("HARNESS-ERROR " ^ line); (match !ts with Some t -> t.diverged <- true | None -> ())
       | "END" :: _ -> finish ()
       | _ -> ()
     done
   with End_of_file -> finish (); close_in ic)

let run_dump_labels (file : string) =
  let b = Buffer.create 4096 in
  dump_labels := Some b;
  run_trace_file file;
  let body = Buffer.contents b in
  let body = if String.length body >= 5 then String.sub body 0 (String.length body - 5) else body in
  print_string ("[" ^ body ^ "]\n");
  if !mismatches > 0 || !schedules_needed > 0 then (prerr_endline "the default schedule does not reproduce this trace"; exit 1)

let run_traces (files : string list) =
  List.iter run_trace_file files;
  List.iter print_endline (List.rev !out_lines);
  Printf.printf "SCHEDULES steps-needing-another-goroutine-order=%d orders-tried=%d\n" !schedules_needed !schedules_tried;
  Printf.printf "TRACES traces=%d steps=%d mismatches=%d\n" !traces !steps !mismatches

(* ---------- handler-level cases (HSEQ) ---------- *)
let split_top (s : string) : string list =
  if s = "-" then [] else begin
    let parts = ref [] and depth = ref 0 and cur = Buffer.create 32 in
    String.iter (fun c ->
        if c = '{' then incr depth; if c = '}' then decr depth;
        if c = ',' && !depth = 0 then (parts := Buffer.contents cur :: !parts; Buffer.clear cur)
        else Buffer.add_char cur c) s;
    parts := Buffer.contents cur :: !parts;
    List.rev !parts
  end

let parse_conf (s : string) : config =
  let i = String.index s '{' in
  let idx = n_of_s (String.sub s 0 i) in
  let body = String.sub s (i + 1) (String.length s - i - 2) in
  let ms = if body = "" then [] else List.map (fun kv ->
      match String.split_on_char ':' kv with
      | [k; v] -> (n_of_s k, v = "1") | _ -> failwith "bad conf") (String.split_on_char ',' body) in
  { c_index = idx; c_members = ms }

let parse_entry (s : string) : entry =
  match String.index_opt s ':' with
  | None -> failwith ("bad entry " ^ s)
  | Some i ->
      let idx = n_of_s (String.sub s 0 i) in
      let rest = String.sub s (i + 1) (String.length s - i - 1) in
      let j = String.index rest ':' in
      let term = n_of_s (String.sub rest 0 j) in
      let k = String.sub rest (j + 1) (String.length rest - j - 1) in
      let kind = match k.[0] with
        | 'n' | 'p' -> KNoop
        | 'o' -> KOp (n_of_s (String.sub k 1 (String.length k - 1)))
        | 'c' -> KConf (parse_conf (String.sub k 1 (String.length k - 1)))
        | _ -> failwith ("bad kind " ^ k) in
      { e_index = idx; e_term = term; e_kind = kind }

let parse_data (s : string) : n list =
  if s = "-" then []
  else if s.[0] = 'x' then
    List.init ((String.length s - 1) / 2) (fun i -> n_of_int (int_of_string ("0x" ^ String.sub s (1 + 2 * i) 2)))
  else List.concat_map (fun tok ->
      let (v, k) = match String.split_on_char '*' tok with
        | [v; k] -> (int_of_string v, int_of_string k) | _ -> (int_of_string tok, 1) in
      let w = [n_of_int ((v lsr 24) land 255); n_of_int ((v lsr 16) land 255); n_of_int ((v lsr 8) land 255); n_of_int (v land 255)] in
      List.concat (List.init k (fun _ -> w)))
      (String.split_on_char '.' s)

let parse_request (toks : string list) : request =
  match toks with
  | ["AE"; l; t; c; pi; pt; es] ->
      ReqAE { ae_leader = n_of_s l; ae_term = n_of_s t; ae_commit = n_of_s c; ae_prev_index = n_of_s pi;
              ae_prev_term = n_of_s pt; ae_entries = List.map parse_entry (split_top es) }
  | ["RV"; c; t; li; lt; pv] ->
      ReqRV { rv_cand = n_of_s c; rv_term = n_of_s t; rv_last_index = n_of_s li; rv_last_term = n_of_s lt; rv_prevote = pv = "1" }
  | ["IS"; l; t; lii; lit; conf; off; data; dn] ->
      ReqIS { is_leader = n_of_s l; is_term = n_of_s t; is_lii = n_of_s lii; is_lit = n_of_s lit; is_conf = parse_conf conf;
              is_offset = n_of_s off; is_bytes = parse_data data; is_done = dn = "1" }
  | _ -> failwith ("bad request " ^ String.concat " " toks)

let hseq_conf = { c_index = N0; c_members = [(n_of_int 0, true); (n_of_int 1, true); (n_of_int 2, true)] }

let node_of_spec (now : n) (spec : string) : node =
  let f k = field spec k in
  let base = mk_node N0 (n_of_int 4) (n_of_int 2) in
  let role = match f "role" with "L" -> Leader | "F" -> Follower | "P" -> PreCandidate | "C" -> Candidate | _ -> Shutdown in
  let vote = if f "vote" = "-" then None else Some (n_of_s (f "vote")) in
  let term = n_of_s (f "term") in
  { base with
    n_role = role; n_term = term; n_vote = vote; n_pterm = term; n_pvote = vote;
    n_commit = n_of_s (f "commit"); n_applied = n_of_s (f "applied"); n_lii = n_of_s (f "lii"); n_lit = n_of_s (f "lit");
    n_log = List.map parse_entry (split_top (f "log"));
    n_conf = Some hseq_conf; n_cconf = (if f "cconf" = "1" then Some hseq_conf else None);
    n_followers = List.map (fun (id, _) -> (id, fstate0)) hseq_conf.c_members;
    n_contact = (if f "contactold" = "1" then N.sub now (n_of_int 10) else now);
    n_lease = (if f "lease" = "1" then N.add now (n_of_int 1) else now) }

let split_on_sep (sep : string) (toks : string list) : string list list =
  let rec go cur acc = function
    | [] -> List.rev (List.rev cur :: acc)
    | t :: r -> if t = sep then go [] (List.rev cur :: acc) r else go (t :: cur) acc r in
  go [] [] toks

let run_hseq (a : string array) : string =
  let groups = split_on_sep ";;" (Array.to_list a) in
  match groups with
  | [] -> "EMPTY"
  | spec :: steps ->
      let now = ref (n_of_int 100) in
      let nd = ref (node_of_spec !now (String.concat " " spec)) in
      let outs = ref [] in
      List.iter (fun toks ->
          match toks with
          | ["BUDGET"; k] -> nd := { !nd with n_budget = Some (n_of_s k) }
          | ["CRASHRESTART"; dt] ->
              nd := restart_after_crash !now (crash !nd);
              outs := ("RESTARTED ## " ^ node_s !now !nd) :: !outs;
              now := N.add !now (n_of_s dt)
          | _ ->
              if !nd.n_frozen then outs := "- ## frozen" :: !outs
              else begin
                let ((n', resp), parked) = run_handler !now !nd (parse_request toks) in
                nd := n';
                let r = if n'.n_frozen then "-" else if parked then "WAIT" else (match resp with None -> "ERR" | Some p -> resp_s p) in
                outs := (r ^ " ## " ^ node_s !now n') :: !outs
              end) steps;
      String.concat " ;; " (List.rev !outs)

let run (kind : string) (a : string array) : string =
  match kind with
  | "HSEQ" -> run_hseq a
  | _ -> failwith ("unknown kind " ^ kind)
