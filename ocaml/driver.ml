(* modeldrv: runs the extracted Coq model on case files written by the Go
   harness and reports every case where the model's answer differs from the
   implementation's.  One case per line:   KIND args... => expected
   Output: one "MISMATCH <file>:<line> kind=... model=... impl=..." per
   difference and a final "SUMMARY cases=N mismatches=M". *)
open Model

(* ---------- numbers ---------- *)
let rec pos_of_int (i : int) : positive =
  if i = 1 then XH else if i land 1 = 0 then XO (pos_of_int (i lsr 1)) else XI (pos_of_int (i lsr 1))
let n_of_int (i : int) : n = if i = 0 then N0 else Npos (pos_of_int i)
let ten = n_of_int 10
let n_of_string (s : string) : n =
  let acc = ref N0 in
  String.iter (fun c ->
      if c < '0' || c > '9' then failwith ("bad number " ^ s);
      acc := N.add (N.mul !acc ten) (n_of_int (Char.code c - 48))) s;
  !acc
let rec int_of_pos = function XH -> 1 | XO p -> 2 * int_of_pos p | XI p -> 2 * int_of_pos p + 1
let int_of_n = function N0 -> 0 | Npos p -> int_of_pos p
let string_of_n (x : n) : string =
  if x = N0 then "0" else begin
    let b = Buffer.create 20 in
    let r = ref x in
    let digits = ref [] in
    while !r <> N0 do
      digits := int_of_n (N.modulo !r ten) :: !digits;
      r := N.div !r ten
    done;
    List.iter (fun d -> Buffer.add_char b (Char.chr (48 + d))) !digits;
    Buffer.contents b
  end
let rec nat_of_int i = if i = 0 then O else S (nat_of_int (i - 1))
let rec int_of_nat = function O -> 0 | S k -> 1 + int_of_nat k

(* ---------- bytes ---------- *)
let byte_tbl = Array.init 256 n_of_int
let bytes_of_hex (s : string) : n list =
  if s = "-" then [] else begin
    let l = String.length s / 2 in
    let res = ref [] in
    for i = l - 1 downto 0 do
      res := byte_tbl.(int_of_string ("0x" ^ String.sub s (2 * i) 2)) :: !res
    done;
    !res
  end
let hex_of_bytes (bs : n list) : string =
  if bs = [] then "-" else begin
    let b = Buffer.create 64 in
    List.iter (fun x -> Buffer.add_string b (Printf.sprintf "%02x" (int_of_n x land 255))) bs;
    Buffer.contents b
  end
let bool_of_s s = s = "1"
let s_of_bool b = if b then "1" else "0"

(* ---------- entries ---------- *)
let entry_of_s (s : string) : pb_entry =
  match String.split_on_char ',' s with
  | [i; t; o; ty; d] ->
      { pe_index = n_of_string i; pe_term = n_of_string t; pe_offset = n_of_string o;
        pe_type = n_of_string ty; pe_data = bytes_of_hex d }
  | _ -> failwith ("bad entry " ^ s)
let s_of_entry (e : pb_entry) : string =
  String.concat "," [string_of_n e.pe_index; string_of_n e.pe_term; string_of_n e.pe_offset;
                     string_of_n e.pe_type; hex_of_bytes e.pe_data]
let entries_of_s sep s = if s = "-" then [] else List.map entry_of_s (String.split_on_char sep s)
let s_of_entries sep es = if es = [] then "-" else String.concat (String.make 1 sep) (List.map s_of_entry es)

let opt f = function None -> "ERR" | Some x -> f x

(* ---------- log programs ---------- *)
let lop_of_s (s : string) : lop =
  match s.[0] with
  | 'A' -> LAppend (entries_of_s '+' (String.sub s 2 (String.length s - 2)))
  | 'T' -> LTruncate (n_of_string (String.sub s 2 (String.length s - 2)))
  | 'C' -> LCompact (n_of_string (String.sub s 2 (String.length s - 2)))
  | 'D' -> (match String.split_on_char ',' (String.sub s 2 (String.length s - 2)) with
            | [i; t] -> LDiscard (n_of_string i, n_of_string t)
            | _ -> failwith "bad discard")
  | 'R' -> LReopen
  | _ -> failwith ("bad log op " ^ s)

let sort_pairs l = List.sort compare l

(* what the Log interface shows: size, placeholder index, last term, entries after the placeholder *)
let s_of_logview (es : pb_entry list) : string =
  match es with
  | [] -> "EMPTY"
  | p :: rest ->
      let last = List.nth es (List.length es - 1) in
      Printf.sprintf "%d %s %s %s" (List.length rest) (string_of_n p.pe_index) (string_of_n last.pe_term)
        (s_of_entries ';' rest)

let sop_of_s (s : string) : sop =
  match s.[0] with
  | 'N' -> (match String.split_on_char ',' (String.sub s 2 (String.length s - 2)) with
            | [i; t; c] -> SNew { sn_index = n_of_string i; sn_term = n_of_string t; sn_conf = bytes_of_hex c; sn_data = [] }
            | _ -> failwith "bad snapshot op")
  | 'W' -> SWrite (bytes_of_hex (String.sub s 2 (String.length s - 2)))
  | 'C' -> SClose
  | 'X' -> SDiscard
  | _ -> failwith ("bad snapshot op " ^ s)

(* ---------- dispatch ---------- *)
let run (kind : string) (a : string array) : string =
  let n i = n_of_string a.(i) and h i = bytes_of_hex a.(i) and b i = bool_of_s a.(i) in
  match kind with
  | "ENC_ENTRY" -> hex_of_bytes (enc_entry (entry_of_s a.(0)))
  | "DEC_ENTRY" -> opt s_of_entry (dec_entry (h 0))
  | "ENC_STATE" -> hex_of_bytes (enc_state { ps_term = n 0; ps_vote = h 1 })
  | "DEC_STATE" -> opt (fun s -> string_of_n s.ps_term ^ "," ^ hex_of_bytes s.ps_vote) (dec_state (h 0))
  | "ENC_AERESP" -> hex_of_bytes (enc_ae_resp { ar_term = n 0; ar_index = n 1; ar_success = b 2 })
  | "DEC_AERESP" ->
      opt (fun r -> String.concat "," [string_of_n r.ar_term; string_of_n r.ar_index; s_of_bool r.ar_success])
        (dec_ae_resp (h 0))
  | "ENC_RVRESP" -> hex_of_bytes (enc_rv_resp { vr_term = n 0; vr_granted = b 1 })
  | "DEC_RVRESP" -> opt (fun r -> string_of_n r.vr_term ^ "," ^ s_of_bool r.vr_granted) (dec_rv_resp (h 0))
  | "ENC_ISRESP" -> hex_of_bytes (enc_is_resp { sr_term = n 0; sr_written = n 1 })
  | "DEC_ISRESP" -> opt (fun r -> string_of_n r.sr_term ^ "," ^ string_of_n r.sr_written) (dec_is_resp (h 0))
  | "ENC_RVREQ" ->
      hex_of_bytes (enc_rv_req { vq_cand = h 0; vq_term = n 1; vq_last_index = n 2; vq_last_term = n 3; vq_prevote = b 4 })
  | "DEC_RVREQ" ->
      opt (fun r -> String.concat "," [hex_of_bytes r.vq_cand; string_of_n r.vq_term; string_of_n r.vq_last_index;
                                       string_of_n r.vq_last_term; s_of_bool r.vq_prevote]) (dec_rv_req (h 0))
  | "ENC_ISREQ" ->
      hex_of_bytes (enc_is_req { sq_term = n 0; sq_leader = h 1; sq_lii = n 2; sq_lit = n 3; sq_conf = h 4;
                                 sq_offset = n 5; sq_data = h 6; sq_done = b 7 })
  | "DEC_ISREQ" ->
      opt (fun r -> String.concat "," [string_of_n r.sq_term; hex_of_bytes r.sq_leader; string_of_n r.sq_lii;
                                       string_of_n r.sq_lit; hex_of_bytes r.sq_conf; string_of_n r.sq_offset;
                                       hex_of_bytes r.sq_data; s_of_bool r.sq_done]) (dec_is_req (h 0))
  | "ENC_AEREQ" ->
      hex_of_bytes (enc_ae_req { aq_leader = h 0; aq_term = n 1; aq_commit = n 2; aq_prev_index = n 3;
                                 aq_prev_term = n 4; aq_entries = entries_of_s ';' a.(5) })
  | "DEC_AEREQ" ->
      opt (fun r -> String.concat " " [hex_of_bytes r.aq_leader; string_of_n r.aq_term; string_of_n r.aq_commit;
                                       string_of_n r.aq_prev_index; string_of_n r.aq_prev_term;
                                       s_of_entries ';' r.aq_entries]) (dec_ae_req (h 0))
  | "SEND_AEREQ" ->
      hex_of_bytes (send_ae_req { aq_leader = h 0; aq_term = n 1; aq_commit = n 2; aq_prev_index = n 3;
                                  aq_prev_term = n 4; aq_entries = entries_of_s ';' a.(5) })
  | "RECV_AEREQ" ->
      opt (fun r -> String.concat " " [hex_of_bytes r.aq_leader; string_of_n r.aq_term; string_of_n r.aq_commit;
                                       string_of_n r.aq_prev_index; string_of_n r.aq_prev_term;
                                       s_of_entries ';' r.aq_entries]) (recv_ae_req (h 0))
  | "ENC_CONF" ->
      (* members k:v,... voters k:b,... index ; encoded in the given order *)
      let pairs s f = if s = "-" then [] else
          List.map (fun kv -> match String.split_on_char ':' kv with
              | [k; v] -> (bytes_of_hex k, f v) | _ -> failwith "bad pair") (String.split_on_char ',' s) in
      hex_of_bytes (enc_conf { pc_members = pairs a.(0) bytes_of_hex; pc_voters = pairs a.(1) bool_of_s; pc_index = n 2 })
  | "DEC_CONF" ->
      opt (fun c ->
          let ms = sort_pairs (List.map (fun (k, v) -> hex_of_bytes k ^ ":" ^ hex_of_bytes v) c.pc_members) in
          let vs = sort_pairs (List.map (fun (k, v) -> hex_of_bytes k ^ ":" ^ s_of_bool v) c.pc_voters) in
          let j l = if l = [] then "-" else String.concat "," l in
          String.concat " " [j ms; j vs; string_of_n c.pc_index]) (dec_conf (h 0))
  | "REPLAY" ->
      (match replay (h 0) with
       | ROk (es, valid) -> "OK " ^ string_of_n valid ^ " " ^ s_of_entries ';' es
       | RErr -> "ERR"
       | RPanic -> "PANIC")
  | "LOGPROG" ->
      let ops = if a.(0) = "-" then [] else List.map lop_of_s (String.split_on_char '/' a.(0)) in
      let (d, es) = run_log ops in
      hex_of_bytes d.d_file ^ " " ^ s_of_logview es
  | "RECOVER" ->
      (match replay (h 0) with
       | RPanic -> "PANIC"
       | RErr -> "ERR"
       | ROk _ ->
           (match recover { d_file = h 0; d_tmp = None } with
            | Some (_, es) -> "OK " ^ s_of_logview es
            | None -> "ERR"))
  | "RECOVER_APPEND" ->
      (match recover { d_file = h 0; d_tmp = None } with
       | Some st -> let ((d, _), _) = lstep st (LAppend [entry_of_s a.(1)]) in hex_of_bytes d.d_file
       | None -> "ERR")
  | "SNAPLATEST" ->
      let ops = if a.(0) = "-" then [] else List.map sop_of_s (String.split_on_char '/' a.(0)) in
      let d = List.fold_left sstep { sd_closed = []; sd_tmp = [] } ops in
      (match latest (recover_snap d) with
       | None -> "NONE"
       | Some s -> String.concat "," [string_of_n s.sn_index; string_of_n s.sn_term; hex_of_bytes s.sn_conf; hex_of_bytes s.sn_data])
  | "READSTATE" ->
      opt (fun s -> string_of_n s.ps_term ^ "," ^ hex_of_bytes s.ps_vote) (read_state (h 0))
  | "STATEREC" -> hex_of_bytes (state_rec { ps_term = n 0; ps_vote = h 1 })
  | _ -> Ext.run kind a

let split_case (line : string) : (string * string array * string) option =
  (* KIND a b c => expected words *)
  match Str.bounded_split_delim (Str.regexp_string " => ") line 2 with
  | [lhs; rhs] ->
      (match String.split_on_char ' ' lhs with
       | kind :: args -> Some (kind, Array.of_list args, rhs)
       | [] -> None)
  | _ -> None

let () =
  if Array.length Sys.argv > 2 && Sys.argv.(1) = "--labels" then begin
    Ext.run_dump_labels Sys.argv.(2);
    exit 0
  end;
  if Array.length Sys.argv > 1 && Sys.argv.(1) = "--trace" then begin
    Ext.run_traces (List.tl (List.tl (Array.to_list Sys.argv)));
    exit 0
  end;
  let cases = ref 0 and mism = ref 0 in
  let by_kind : (string, int) Hashtbl.t = Hashtbl.create 16 in
  for i = 1 to Array.length Sys.argv - 1 do
    let file = Sys.argv.(i) in
    let ic = open_in file in
    let ln = ref 0 in
    (try
       while true do
         let line = input_line ic in
         incr ln;
         if line <> "" && line.[0] <> '#' then
           match split_case line with
           | None -> Printf.printf "BADLINE %s:%d\n" file !ln; incr mism
           | Some (kind, args, expected) ->
               incr cases;
               Hashtbl.replace by_kind kind (1 + (try Hashtbl.find by_kind kind with Not_found -> 0));
               let got = try run kind args with
                 | Failure m -> "EXC:" ^ m
                 | Invalid_argument m -> "EXC:" ^ m
                 | Not_found -> "EXC:notfound"
                 | Stack_overflow -> "EXC:stack" in
               if got <> expected then begin
                 incr mism;
                 let cut s = if String.length s > 400 then String.sub s 0 400 ^ "..." else s in
                 Printf.printf "MISMATCH %s:%d kind=%s model=%s impl=%s\n" file !ln kind (cut got) (cut expected)
               end
       done
     with End_of_file -> close_in ic)
  done;
  let kinds = Hashtbl.fold (fun k v acc -> (k, v) :: acc) by_kind [] |> List.sort compare in
  Printf.printf "KINDS %s\n" (String.concat " " (List.map (fun (k, v) -> Printf.sprintf "%s=%d" k v) kinds));
  Printf.printf "SUMMARY cases=%d mismatches=%d\n" !cases !mism
