(* L1: the persistentLog operations of log.go over the byte-level file model:
   what each operation leaves on disk, which crash images it can leave, and
   what NewLog+Open+Replay recovers from each. Executable; compared with the
   real persistentLog by harness/cmd/diskdiff. *)
From RaftV Require Export Disk.LogFile.
Open Scope N_scope.

(* The log directory: log.bin plus at most one leftover tmp-* file. *)
Record dlog := { d_file : bytes; d_tmp : option bytes }.

Definition set_offset (e : pb_entry) (o : N) : pb_entry :=
  {| pe_index := pe_index e; pe_term := pe_term e; pe_offset := o; pe_data := pe_data e; pe_type := pe_type e |}.

(* AppendEntries / Compact: each entry records the offset it is written at. *)
Fixpoint assign_offsets (pos : N) (es : list pb_entry) : list pb_entry :=
  match es with
  | [] => []
  | e :: r => let e' := set_offset e pos in e' :: assign_offsets (pos + blen (rec_of e')) r
  end.

Inductive lop :=
| LAppend (batch : list pb_entry)
| LTruncate (index : N)
| LCompact (index : N)
| LDiscard (index term : N)
| LReopen.                      (* Close; NewLog; Open; Replay *)

Inductive lres := LDone | LError.   (* error return of the Go method (index not contained) *)

(* In-memory view: entries, head = placeholder. *)
Definition contains (es : list pb_entry) (index : N) : bool :=
  match es with
  | [] => false
  | e0 :: _ => let li := index - pe_index e0 in negb ((li <=? 0) || (N.of_nat (length es) <=? li))
  end.
Definition log_index (es : list pb_entry) (index : N) : nat :=
  match es with [] => O | e0 :: _ => N.to_nat (index - pe_index e0) end.

Definition entry0 : pb_entry := pb_entry0.

(* Recovery = NewLog (removes tmp files) + Open + Replay (with the torn-tail
   truncation) + the placeholder write for an empty log. *)
Definition recover (d : dlog) : option (dlog * list pb_entry) :=
  match replay (d_file d) with
  | ROk es valid =>
      let file := firstn (N.to_nat valid) (d_file d) in
      match es with
      | [] => Some ({| d_file := file ++ rec_of entry0; d_tmp := None |}, [entry0])
      | _ => Some ({| d_file := file; d_tmp := None |}, es)
      end
  | _ => None
  end.

(* One completed operation. *)
Definition lstep (st : dlog * list pb_entry) (op : lop) : (dlog * list pb_entry) * lres :=
  let '(d, es) := st in
  match op with
  | LAppend batch =>
      let batch' := assign_offsets (blen (d_file d)) batch in
      (({| d_file := d_file d ++ file_of batch'; d_tmp := d_tmp d |}, es ++ batch'), LDone)
  | LTruncate index =>
      if contains es index then
        let li := log_index es index in
        let size := pe_offset (nth li es entry0) in
        (({| d_file := firstn (N.to_nat size) (d_file d); d_tmp := d_tmp d |}, firstn li es), LDone)
      else (st, LError)
  | LCompact index =>
      if contains es index then
        let es' := assign_offsets 0 (skipn (log_index es index) es) in
        (({| d_file := file_of es'; d_tmp := None |}, es'), LDone)
      else (st, LError)
  | LDiscard index term =>
      let e := {| pe_index := index; pe_term := term; pe_offset := 0; pe_data := []; pe_type := 0 |} in
      (({| d_file := file_of [e]; d_tmp := None |}, [e]), LDone)
  | LReopen =>
      match recover d with
      | Some st' => (st', LDone)
      | None => (st, LError)
      end
  end.

(* Every directory state a process death during [op] can leave. *)
Definition prefixes (b : bytes) : list bytes := map (fun k => firstn k b) (seq 0 (S (length b))).

Definition crash_images (st : dlog * list pb_entry) (op : lop) : list dlog :=
  let '(d, es) := st in
  match op with
  | LAppend batch =>
      let batch' := assign_offsets (blen (d_file d)) batch in
      map (fun p => {| d_file := d_file d ++ p; d_tmp := d_tmp d |}) (prefixes (file_of batch'))
  | LTruncate index => [d; fst (fst (lstep st op))]
  | LCompact _ | LDiscard _ _ =>
      let d' := fst (fst (lstep st op)) in
      map (fun p => {| d_file := d_file d; d_tmp := Some p |}) (prefixes (d_file d')) ++ [d']
  | LReopen => [d; fst (fst (lstep st op))]
  end.

Definition init_log : dlog * list pb_entry :=
  ({| d_file := rec_of entry0; d_tmp := None |}, [entry0]).

Definition run_log (ops : list lop) : dlog * list pb_entry :=
  fold_left (fun st op => fst (lstep st op)) ops init_log.

(* ---- theorems about the append path (the only multi-byte in-place write) ---- *)

Lemma rec_of_entry0 : rec_of entry0 = [0; 0; 0; 0].
Proof. reflexivity. Qed.

Lemma recover_after_append_crash es batch k tmp :
  es <> [] -> Forall rec_ok es -> Forall rec_ok batch -> (k <= length (file_of batch))%nat ->
  recover {| d_file := file_of es ++ firstn k (file_of batch); d_tmp := tmp |}
  = Some ({| d_file := file_of (es ++ whole batch k); d_tmp := None |}, es ++ whole batch k).
Proof.
  intros Hne Hes Hb Hk. unfold recover. cbn [d_file].
  rewrite replay_crashed_append by assumption.
  assert (Hfile : firstn (N.to_nat (blen (file_of (es ++ whole batch k))))
                    (file_of es ++ firstn k (file_of batch)) = file_of (es ++ whole batch k)).
  { unfold blen. rewrite Nat2N.id, file_of_app, app_length.
    rewrite firstn_app. rewrite firstn_all2 by lia.
    replace (length (file_of es) + length (file_of (whole batch k)) - length (file_of es))%nat
      with (length (file_of (whole batch k))) by lia.
    f_equal.
    destruct (whole_prefix batch k) as [r Hr].
    rewrite Hr at 2. rewrite file_of_app.
    rewrite firstn_firstn. rewrite Nat.min_l by apply whole_file_le.
    rewrite firstn_app, Nat.sub_diag, firstn_O, app_nil_r. apply firstn_all. }
  rewrite Hfile. destruct (es ++ whole batch k) eqn:E; [|reflexivity].
  apply app_eq_nil in E. tauto.
Qed.
