(* L1: term/vote storage (state_storage.go) and snapshot storage
   (snapshot_storage.go) at directory level.  SetState = CreateTemp, write,
   Rename; a snapshot = MkdirTemp, create data + metadata, writes, Rename dir.
   Constructors remove every entry whose name starts with "tmp". *)
From RaftV Require Export Disk.LogFile.
Open Scope N_scope.

(* ---------------- state.bin ---------------- *)
Record sdir := { s_file : option bytes; s_tmps : list bytes }.

Definition state_rec (s : pb_state) : bytes := frame (enc_state s).

(* decodePersistentState on the whole file. *)
Definition read_state (bs : bytes) : option pb_state :=
  match dec_be32 bs with
  | None => None
  | Some (size, r) =>
      if 2147483648 <=? size then None
      else match take size r with
           | None => None
           | Some (payload, _) => dec_state payload
           end
  end.

(* NewStateStorage (tmp cleanup) then State(): no file = (0, ""). *)
Definition recover_state (d : sdir) : option pb_state :=
  match s_file d with
  | None => Some {| ps_term := 0; ps_vote := [] |}
  | Some bs => read_state bs
  end.

Definition set_state (d : sdir) (s : pb_state) : sdir :=
  {| s_file := Some (state_rec s); s_tmps := s_tmps d |}.

Definition prefixes (b : bytes) : list bytes := map (fun k => firstn k b) (seq 0 (S (length b))).

Definition set_state_images (d : sdir) (s : pb_state) : list sdir :=
  map (fun p => {| s_file := s_file d; s_tmps := p :: s_tmps d |}) (prefixes (state_rec s))
  ++ [set_state d s].

Definition state_ok (s : pb_state) : Prop := wf_state s /\ blen (enc_state s) < 2147483648.

Lemma read_state_rec s : state_ok s -> read_state (state_rec s) = Some s.
Proof.
  intros [Hwf Hlen]. unfold read_state, state_rec, frame.
  rewrite <- (app_nil_r (enc_state s)) at 2.
  rewrite dec_enc_be32 by (change (2 ^ 32) with 4294967296; lia).
  destruct (N.leb_spec 2147483648 (blen (enc_state s))); [lia|].
  unfold blen. rewrite take_app by reflexivity. apply dec_enc_state. exact Hwf.
Qed.

(* C13, term/vote half: every crash image of SetState reopens, without error,
   to the old pair or to the pair being written. *)
Theorem set_state_atomic d old new img :
  recover_state d = Some old -> state_ok new ->
  In img (set_state_images d new) ->
  recover_state img = Some old \/ recover_state img = Some new.
Proof.
  intros Hold Hnew Hin. unfold set_state_images in Hin.
  apply in_app_or in Hin. destruct Hin as [Hin|[<-|[]]].
  - apply in_map_iff in Hin. destruct Hin as (p & <- & _). left. exact Hold.
  - right. unfold recover_state, set_state. cbn [s_file]. apply read_state_rec. exact Hnew.
Qed.

Theorem set_state_returns d new : state_ok new -> recover_state (set_state d new) = Some new.
Proof. intros H. unfold recover_state, set_state. cbn [s_file]. apply read_state_rec. exact H. Qed.

(* ---------------- snapshots/ ---------------- *)
Record snap := { sn_index : N; sn_term : N; sn_conf : bytes; sn_data : bytes }.
(* closed snapshots in directory-name order (oldest first); open writers are
   tmp-snapshot* directories holding a partial data file. *)
Record snapdir := { sd_closed : list snap; sd_tmp : list snap }.

Inductive sop :=
| SNew (w : snap)            (* NewSnapshotFile: tmp dir with metadata and empty data *)
| SWrite (chunk : bytes)     (* append to the newest writer *)
| SClose                     (* rename the newest writer's directory *)
| SDiscard.                  (* RemoveAll the newest writer's directory *)

Definition with_data (s : snap) (d : bytes) : snap :=
  {| sn_index := sn_index s; sn_term := sn_term s; sn_conf := sn_conf s; sn_data := d |}.

Definition sstep (d : snapdir) (op : sop) : snapdir :=
  match op, sd_tmp d with
  | SNew w, tmps => {| sd_closed := sd_closed d; sd_tmp := with_data w [] :: tmps |}
  | SWrite c, w :: tmps => {| sd_closed := sd_closed d; sd_tmp := with_data w (sn_data w ++ c) :: tmps |}
  | SClose, w :: tmps => {| sd_closed := sd_closed d ++ [w]; sd_tmp := tmps |}
  | SDiscard, w :: tmps => {| sd_closed := sd_closed d; sd_tmp := tmps |}
  | _, [] => d
  end.

(* NewSnapshotStorage (removes every tmp directory - this is what the fix:
   commit to fileutil.RemoveTmpFiles makes true for non-empty ones) followed
   by SnapshotFile(): the last closed snapshot, if any. *)
Definition recover_snap (d : snapdir) : snapdir := {| sd_closed := sd_closed d; sd_tmp := [] |}.
Definition latest (d : snapdir) : option snap := last (map Some (sd_closed d)) None.

(* crash images of one operation: a write may stop after any prefix. *)
Definition snap_images (d : snapdir) (op : sop) : list snapdir :=
  match op, sd_tmp d with
  | SWrite c, w :: tmps =>
      map (fun p => {| sd_closed := sd_closed d; sd_tmp := with_data w (sn_data w ++ p) :: tmps |}) (prefixes c)
  | _, _ => [d; sstep d op]
  end.

Lemma latest_app d w : latest {| sd_closed := sd_closed d ++ [w]; sd_tmp := [] |} = Some w.
Proof. unfold latest. cbn [sd_closed]. rewrite map_app. cbn [map]. apply last_last. Qed.

(* C13, snapshot half: whatever the crash point, reopening shows either the
   snapshot that was latest before the operation or, for a completed Close, the
   closed writer with all of its bytes; a writer that was never closed is
   never visible. *)
Theorem snapshot_store_atomic d op img :
  In img (snap_images d op) ->
  latest (recover_snap img) = latest (recover_snap d) \/
  (exists w tmps, op = SClose /\ sd_tmp d = w :: tmps /\ latest (recover_snap img) = Some w).
Proof.
  intros Hin. unfold snap_images in Hin.
  destruct op as [w|c| |]; destruct (sd_tmp d) as [|w0 tmps] eqn:Et; cbn [In] in Hin;
    try (destruct Hin as [<-|[<-|[]]]; unfold sstep; try rewrite Et; auto; fail).
  - apply in_map_iff in Hin. destruct Hin as (p & <- & _). left. reflexivity.
  - destruct Hin as [<-|[<-|[]]]; [left; reflexivity|].
    right. exists w0, tmps. unfold sstep. rewrite Et. repeat split.
    unfold recover_snap. cbn [sd_closed]. apply latest_app.
Qed.

Theorem closed_invisible_until_close d ops :
  (forall op, In op ops -> op <> SClose) ->
  latest (recover_snap (fold_left sstep ops d)) = latest (recover_snap d).
Proof.
  revert d. induction ops as [|op ops IH]; intros d Hno; [reflexivity|].
  cbn [fold_left]. rewrite IH by (intros o Ho; apply Hno; right; exact Ho).
  assert (op <> SClose) by (apply Hno; left; reflexivity).
  unfold sstep. destruct op; destruct (sd_tmp d); try reflexivity; congruence.
Qed.
