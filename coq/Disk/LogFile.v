(* L1: byte-level model of log.bin (log.go): record framing, Replay, and the
   crash images of every log operation.  A process death can leave any byte
   prefix of an in-flight write; Truncate and Rename are atomic; Sync is a
   no-op under this (process-death, not power-loss) crash model. *)
From RaftV Require Export Codec.Msgs.
Open Scope N_scope.

Definition blen (b : bytes) : N := N.of_nat (length b).

(* encodeLogEntry: int32 big-endian length, then the marshalled LogEntry. *)
Definition frame (payload : bytes) : bytes := enc_be32 (blen payload) ++ payload.
Definition rec_of (e : pb_entry) : bytes := frame (enc_entry e).
Definition file_of (es : list pb_entry) : bytes := concat (map rec_of es).

Inductive rres :=
| ROk (es : list pb_entry) (valid : N)   (* entries and the length of the valid prefix *)
| RErr                                   (* proto.Unmarshal failed: Replay returns an error *)
| RPanic.                                (* negative length header: make([]byte, size) panics *)

(* Replay, as repaired by the fix: commit (a torn tail - fewer than 4 header
   bytes, or fewer payload bytes than the header announces - ends the scan; the
   caller then truncates the file to [valid] and appends from there). *)
Fixpoint replay_f (fuel : nat) (bs : bytes) (acc : list pb_entry) (pos : N) : rres :=
  match fuel with
  | O => ROk (rev acc) pos
  | S f =>
      match dec_be32 bs with
      | None => ROk (rev acc) pos
      | Some (size, r) =>
          if 2147483648 <=? size then RPanic
          else match take size r with
               | None => ROk (rev acc) pos
               | Some (payload, r') =>
                   match dec_entry payload with
                   | None => RErr
                   | Some e => replay_f f r' (e :: acc) (pos + 4 + size)
                   end
               end
      end
  end.
Definition replay (bs : bytes) : rres := replay_f (S (length bs)) bs [] 0.

Definition rec_ok (e : pb_entry) : Prop := wf_entry e /\ blen (enc_entry e) < 2147483648.

Lemma frame_length p : length (frame p) = (4 + length p)%nat.
Proof. unfold frame. rewrite app_length. reflexivity. Qed.

Lemma replay_f_rec e rest fuel acc pos :
  rec_ok e ->
  replay_f (S fuel) (rec_of e ++ rest) acc pos
  = replay_f fuel rest (e :: acc) (pos + 4 + blen (enc_entry e)).
Proof.
  intros [Hwf Hlen]. unfold rec_of, frame. cbn [replay_f]. rewrite <- app_assoc.
  rewrite dec_enc_be32 by (change (2 ^ 32) with 4294967296; lia).
  destruct (N.leb_spec 2147483648 (blen (enc_entry e))); [lia|].
  unfold blen. rewrite take_app by reflexivity.
  rewrite dec_enc_entry by exact Hwf. reflexivity.
Qed.

(* A strict prefix of one record is never mistaken for a record. *)
Lemma replay_f_torn e k fuel acc pos :
  rec_ok e -> (k < length (rec_of e))%nat ->
  replay_f fuel (firstn k (rec_of e)) acc pos = ROk (rev acc) pos.
Proof.
  intros [Hwf Hlen] Hk. destruct fuel as [|fuel]; [reflexivity|].
  unfold rec_of, frame in *. cbn [replay_f].
  rewrite app_length in Hk. change (length (enc_be32 _)) with 4%nat in Hk.
  destruct (Nat.lt_ge_cases k 4) as [Hlt|Hge].
  - rewrite firstn_app. replace (k - length (enc_be32 (blen (enc_entry e))))%nat with 0%nat
      by (change (length (enc_be32 _)) with 4%nat; lia).
    rewrite firstn_O, app_nil_r. unfold enc_be32.
    destruct k as [|[|[|[|k]]]]; try reflexivity. lia.
  - rewrite firstn_app. change (length (enc_be32 _)) with 4%nat.
    rewrite firstn_all2 by (change (length (enc_be32 _)) with 4%nat; lia).
    rewrite dec_enc_be32 by (change (2 ^ 32) with 4294967296; lia).
    destruct (N.leb_spec 2147483648 (blen (enc_entry e))); [lia|].
    unfold take. rewrite firstn_length.
    destruct (N.leb_spec (blen (enc_entry e)) (N.of_nat (Nat.min (k - 4) (length (enc_entry e)))));
      [unfold blen in *; lia|reflexivity].
Qed.

Lemma file_of_app a b : file_of (a ++ b) = file_of a ++ file_of b.
Proof. unfold file_of. rewrite map_app, concat_app. reflexivity. Qed.

Lemma file_of_cons e es : file_of (e :: es) = rec_of e ++ file_of es.
Proof. reflexivity. Qed.

Lemma replay_f_all es : forall rest fuel acc pos,
  Forall rec_ok es -> (length es <= fuel)%nat ->
  replay_f fuel (file_of es ++ rest) acc pos
  = replay_f (fuel - length es) rest (rev es ++ acc) (pos + blen (file_of es)).
Proof.
  induction es as [|e es IH]; intros rest fuel acc pos Hok Hf.
  - cbn [file_of map concat app length rev]. rewrite Nat.sub_0_r. f_equal. unfold blen; cbn; lia.
  - inversion Hok as [|? ? He Hes]; subst. cbn [length] in Hf.
    destruct fuel as [|fuel]; [lia|].
    rewrite file_of_cons, <- app_assoc, replay_f_rec by exact He.
    rewrite IH by (assumption || lia). cbn [length rev]. rewrite <- app_assoc. cbn [app].
    f_equal. unfold blen, rec_of. rewrite app_length, frame_length. lia.
Qed.

Lemma rec_of_length_pos e : (4 <= length (rec_of e))%nat.
Proof. unfold rec_of. rewrite frame_length. lia. Qed.

Lemma file_of_length es : (length es <= length (file_of es))%nat.
Proof.
  induction es as [|e es IH]; [apply Nat.le_refl|].
  rewrite file_of_cons, app_length. pose proof (rec_of_length_pos e). cbn [length]. lia.
Qed.

(* Whole file: exactly the entries, valid = whole length. *)
Theorem replay_file_of es : Forall rec_ok es -> replay (file_of es) = ROk es (blen (file_of es)).
Proof.
  intros Hok. unfold replay. rewrite <- (app_nil_r (file_of es)) at 2.
  rewrite replay_f_all; [|exact Hok|pose proof (file_of_length es); lia].
  rewrite app_nil_r.
  destruct (S (length (file_of es)) - length es)%nat; cbn [replay_f dec_be32];
    rewrite rev_involutive; reflexivity.
Qed.

(* The crash theorem for an append: the completed records [es], then any byte
   prefix of the in-flight batch.  Recovery yields [es] plus the records of
   the batch that are completely on disk, and the valid length is exactly the
   end of the last of them. *)
Fixpoint whole (batch : list pb_entry) (k : nat) : list pb_entry :=
  match batch with
  | [] => []
  | e :: r => if (length (rec_of e) <=? k)%nat then e :: whole r (k - length (rec_of e)) else []
  end.

Lemma whole_prefix batch : forall k, exists r, batch = whole batch k ++ r.
Proof.
  induction batch as [|e b IH]; intros k; cbn [whole]; [exists []; reflexivity|].
  destruct (length (rec_of e) <=? k)%nat; [|exists (e :: b); reflexivity].
  destruct (IH (k - length (rec_of e))%nat) as [r Hr]. exists r. cbn [app]. congruence.
Qed.

Lemma whole_all batch : whole batch (length (file_of batch)) = batch.
Proof.
  induction batch as [|e b IH]; [reflexivity|].
  cbn [whole]. rewrite file_of_cons, app_length.
  destruct (Nat.leb_spec (length (rec_of e)) (length (rec_of e) + length (file_of b))); [|lia].
  replace (length (rec_of e) + length (file_of b) - length (rec_of e))%nat with (length (file_of b)) by lia.
  rewrite IH. reflexivity.
Qed.

Lemma whole_file_le batch : forall k, (length (file_of (whole batch k)) <= k)%nat.
Proof.
  induction batch as [|e b IH]; intros k; cbn [whole]; [cbn; lia|].
  destruct (Nat.leb_spec (length (rec_of e)) k); [|cbn; lia].
  rewrite file_of_cons, app_length. specialize (IH (k - length (rec_of e))%nat). lia.
Qed.

Lemma replay_f_prefix batch : forall k fuel acc pos,
  Forall rec_ok batch -> (length (whole batch k) <= fuel)%nat -> (k <= length (file_of batch))%nat ->
  replay_f fuel (firstn k (file_of batch)) acc pos
  = ROk (rev acc ++ whole batch k) (pos + blen (file_of (whole batch k))).
Proof.
  induction batch as [|e b IH]; intros k fuel acc pos Hok Hf Hk.
  - cbn [file_of map concat] in *. rewrite firstn_nil. cbn [whole]. rewrite app_nil_r.
    replace (pos + blen (file_of [])) with pos by (unfold blen; cbn; lia).
    destruct fuel; reflexivity.
  - inversion Hok as [|? ? He Hb]; subst. cbn [whole] in *.
    rewrite file_of_cons in *. rewrite firstn_app.
    destruct (Nat.leb_spec (length (rec_of e)) k) as [Hge|Hlt].
    + cbn [length] in Hf. destruct fuel as [|fuel]; [lia|].
      rewrite firstn_all2 by exact Hge. rewrite replay_f_rec by exact He.
      rewrite IH; [|exact Hb|lia|rewrite app_length in Hk; lia].
      cbn [rev]. rewrite <- app_assoc. cbn [app]. f_equal.
      rewrite file_of_cons. unfold blen, rec_of. rewrite app_length, frame_length. lia.
    + replace (k - length (rec_of e))%nat with 0%nat by lia. rewrite firstn_O, app_nil_r.
      rewrite replay_f_torn by assumption. rewrite app_nil_r.
      f_equal. unfold blen; cbn; lia.
Qed.

Theorem replay_crashed_append es batch k :
  Forall rec_ok es -> Forall rec_ok batch -> (k <= length (file_of batch))%nat ->
  replay (file_of es ++ firstn k (file_of batch))
  = ROk (es ++ whole batch k) (blen (file_of (es ++ whole batch k))).
Proof.
  intros Hes Hb Hk. unfold replay.
  pose proof (file_of_length es) as Hle.
  rewrite replay_f_all; [|exact Hes|rewrite app_length; lia].
  rewrite replay_f_prefix; [|exact Hb| |exact Hk].
  - rewrite app_nil_r, rev_involutive. f_equal. rewrite file_of_app.
    unfold blen. rewrite app_length. lia.
  - rewrite app_length, firstn_length.
    pose proof (whole_file_le batch k). pose proof (file_of_length (whole batch k)). lia.
Qed.

(* Reading: every crash image of an append recovers to the completed entries
   followed by a prefix of the batch (whole_prefix), the full batch when all
   bytes arrived (whole_all); [valid] is where the next append must go. *)
