(* L0: base-128 varints and big-endian 32-bit lengths, as used by protobuf-go
   (protowire.AppendVarint / ConsumeVarint) and encoding/binary.  Bytes are
   modelled as [N] values (< 256 for everything an encoder produces). *)
From RaftV Require Export Base.Prelude.
Open Scope N_scope.

Definition bytes := list N.

(* protowire.AppendVarint for a uint64: at most 10 bytes. *)
Fixpoint enc_varint_f (fuel : nat) (n : N) : bytes :=
  match fuel with
  | O => [n]
  | S f => if n <? 128 then [n] else (n mod 128 + 128) :: enc_varint_f f (n / 128)
  end.
Definition enc_varint (n : N) : bytes := enc_varint_f 9 n.

(* protowire.ConsumeVarint: up to 10 bytes, the tenth must be 0 or 1;
   running out of input is an error; non-minimal encodings are accepted. *)
Fixpoint dec_varint_f (fuel : nat) (bs : bytes) (shift acc : N) : option (N * bytes) :=
  match bs with
  | [] => None
  | b :: r =>
      match fuel with
      | O => if b <? 2 then Some (acc + b * 2 ^ shift, r) else None
      | S f =>
          if b <? 128 then Some (acc + b * 2 ^ shift, r)
          else dec_varint_f f r (shift + 7) (acc + (b - 128) * 2 ^ shift)
      end
  end.
Definition dec_varint (bs : bytes) : option (N * bytes) := dec_varint_f 9 bs 0 0.

Lemma pow2_7f1 f : 2 ^ (7 * N.of_nat (S f) + 1) = 128 * 2 ^ (7 * N.of_nat f + 1).
Proof.
  replace (7 * N.of_nat (S f) + 1) with (7 + (7 * N.of_nat f + 1)) by lia.
  rewrite N.pow_add_r. reflexivity.
Qed.

Lemma dec_enc_varint_f :
  forall f n shift acc rest,
    n < 2 ^ (7 * N.of_nat f + 1) ->
    dec_varint_f f (enc_varint_f f n ++ rest) shift acc = Some (acc + n * 2 ^ shift, rest).
Proof.
  induction f as [|f IH]; intros n shift acc rest Hn.
  - cbn [enc_varint_f app dec_varint_f].
    change (2 ^ (7 * N.of_nat 0 + 1)) with 2 in Hn.
    destruct (N.ltb_spec n 2); [reflexivity|lia].
  - cbn [enc_varint_f].
    destruct (N.ltb_spec n 128) as [Hlt|Hge].
    + cbn [app dec_varint_f]. destruct (N.ltb_spec n 128); [reflexivity|lia].
    + cbn [app dec_varint_f].
      assert (Hm : n mod 128 < 128) by (apply N.mod_lt; lia).
      destruct (N.ltb_spec (n mod 128 + 128) 128); [lia|].
      rewrite IH.
      * f_equal. f_equal.
        replace (n mod 128 + 128 - 128) with (n mod 128) by lia.
        rewrite N.pow_add_r. change (2 ^ 7) with 128.
        pose proof (N.div_mod' n 128) as Hd.
        set (q := n / 128) in *. set (r := n mod 128) in *. set (p := 2 ^ shift).
        rewrite Hd. ring.
      * rewrite pow2_7f1 in Hn.
        apply N.div_lt_upper_bound; [lia|exact Hn].
Qed.

Theorem dec_enc_varint :
  forall n rest, n < 2 ^ 64 -> dec_varint (enc_varint n ++ rest) = Some (n, rest).
Proof.
  intros n rest Hn. unfold dec_varint, enc_varint.
  rewrite dec_enc_varint_f.
  - f_equal. f_equal. change (2 ^ 0) with 1. lia.
  - exact Hn.
Qed.

Lemma enc_varint_f_nonempty f n : exists b r, enc_varint_f f n = b :: r.
Proof. destruct f; cbn [enc_varint_f]; [eauto|destruct (n <? 128); eauto]. Qed.

Lemma enc_varint_nonempty n : exists b r, enc_varint n = b :: r.
Proof. apply enc_varint_f_nonempty. Qed.

Lemma enc_varint_f_bytes f n : n < 2 ^ (7 * N.of_nat f + 1) -> Forall (fun b => b < 256) (enc_varint_f f n).
Proof.
  revert n. induction f as [|f IH]; intros n Hn; cbn [enc_varint_f].
  - change (2 ^ (7 * N.of_nat 0 + 1)) with 2 in Hn. constructor; [lia|constructor].
  - destruct (N.ltb_spec n 128).
    + constructor; [lia|constructor].
    + constructor.
      * assert (n mod 128 < 128) by (apply N.mod_lt; lia). lia.
      * apply IH. rewrite pow2_7f1 in Hn. apply N.div_lt_upper_bound; [lia|exact Hn].
Qed.

(* encoding/binary big-endian int32 length header. *)
Definition enc_be32 (n : N) : bytes :=
  [n / 16777216; (n / 65536) mod 256; (n / 256) mod 256; n mod 256].

Definition dec_be32 (bs : bytes) : option (N * bytes) :=
  match bs with
  | a :: b :: c :: d :: r => Some (a * 16777216 + b * 65536 + c * 256 + d, r)
  | _ => None
  end.

Lemma dec_enc_be32 n rest : n < 2 ^ 32 -> dec_be32 (enc_be32 n ++ rest) = Some (n, rest).
Proof.
  intros Hn. unfold enc_be32, dec_be32. cbn [app].
  f_equal. f_equal.
  change (2 ^ 32) with 4294967296 in Hn.
  pose proof (N.div_mod' n 256) as H0.
  pose proof (N.div_mod' (n / 256) 256) as H1.
  pose proof (N.div_mod' (n / 256 / 256) 256) as H2.
  rewrite !N.div_div in * by lia.
  change (256 * 256) with 65536 in *. change (65536 * 256) with 16777216 in *.
  assert (n / 16777216 < 256) by (apply N.div_lt_upper_bound; lia).
  assert (Hm : (n / 65536) mod 256 = n / 65536 - 256 * (n / 16777216)) by lia.
  assert (Hm1 : (n / 256) mod 256 = n / 256 - 256 * (n / 65536)) by lia.
  lia.
Qed.
