(* Shared preamble: arithmetic automation set-up (lia understands N/nat
   division, modulo and boolean comparisons). *)
From Coq Require Export List NArith ZArith Lia Bool ZifyN ZifyNat ZifyBool.
Export ListNotations.
Ltac Zify.zify_post_hook ::= Z.div_mod_to_equations.
