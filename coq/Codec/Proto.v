(* L0: protobuf wire format, generic layer.  A serialized message is a
   concatenation of fields (tag varint, then a varint / a length-delimited
   run / 8 or 4 fixed bytes).  [parse] is the decoder's first phase
   (protowire.ConsumeField in a loop): it fails on a truncated varint, a
   length that overruns the input, field number 0 and the group / reserved
   wire types. *)
From RaftV Require Export Base.Varint.
Open Scope N_scope.

Inductive wval := VInt (n : N) | VBytes (b : bytes) | VFix64 (b : bytes) | VFix32 (b : bytes).
Definition field := (N * wval)%type.

Definition enc_field (f : field) : bytes :=
  match snd f with
  | VInt n => enc_varint (fst f * 8) ++ enc_varint n
  | VBytes b => enc_varint (fst f * 8 + 2) ++ enc_varint (N.of_nat (length b)) ++ b
  | VFix64 b => enc_varint (fst f * 8 + 1) ++ b
  | VFix32 b => enc_varint (fst f * 8 + 5) ++ b
  end.

Definition enc_fields (fs : list field) : bytes := concat (map enc_field fs).

Definition take (n : N) (bs : bytes) : option (bytes * bytes) :=
  if n <=? N.of_nat (length bs)
  then Some (firstn (N.to_nat n) bs, skipn (N.to_nat n) bs)
  else None.

Fixpoint parse_f (fuel : nat) (bs : bytes) : option (list field) :=
  match bs with
  | [] => Some []
  | _ :: _ =>
      match fuel with
      | O => None
      | S f =>
          match dec_varint bs with
          | None => None
          | Some (tag, r1) =>
              let num := tag / 8 in
              let wt := tag mod 8 in
              if (num =? 0) || (536870911 <? num) then None   (* protowire.MaxValidNumber = 2^29 - 1 *)
              else if wt =? 0 then
                match dec_varint r1 with
                | None => None
                | Some (v, r2) => option_map (cons (num, VInt v)) (parse_f f r2)
                end
              else if wt =? 2 then
                match dec_varint r1 with
                | None => None
                | Some (len, r2) =>
                    match take len r2 with
                    | None => None
                    | Some (b, r3) => option_map (cons (num, VBytes b)) (parse_f f r3)
                    end
                end
              else if wt =? 1 then
                match take 8 r1 with
                | None => None
                | Some (b, r3) => option_map (cons (num, VFix64 b)) (parse_f f r3)
                end
              else if wt =? 5 then
                match take 4 r1 with
                | None => None
                | Some (b, r3) => option_map (cons (num, VFix32 b)) (parse_f f r3)
                end
              else None
          end
      end
  end.

Definition parse (bs : bytes) : option (list field) := parse_f (length bs) bs.

(* Fields an encoder of this code base produces. *)
Definition wf_field (f : field) : Prop :=
  1 <= fst f /\ fst f <= 536870911 /\
  match snd f with
  | VInt n => n < 2 ^ 64
  | VBytes b => N.of_nat (length b) < 2 ^ 64
  | VFix64 b => length b = 8%nat
  | VFix32 b => length b = 4%nat
  end.

Lemma take_app n a b : N.of_nat (length a) = n -> take n (a ++ b) = Some (a, b).
Proof.
  intros <-. unfold take. rewrite app_length, Nat2N.id.
  destruct (N.leb_spec (N.of_nat (length a)) (N.of_nat (length a + length b))); [|lia].
  rewrite firstn_app, Nat.sub_diag, firstn_all, firstn_O, app_nil_r.
  rewrite skipn_app, Nat.sub_diag, skipn_all. reflexivity.
Qed.

Lemma tag_split num w : w < 8 -> (num * 8 + w) / 8 = num /\ (num * 8 + w) mod 8 = w.
Proof. intros. lia. Qed.

Definition parse_body (f : nat) (bs : bytes) : option (list field) :=
  match dec_varint bs with
  | None => None
  | Some (tag, r1) =>
      let num := tag / 8 in
      let wt := tag mod 8 in
      if (num =? 0) || (536870911 <? num) then None   (* protowire.MaxValidNumber = 2^29 - 1 *)
      else if wt =? 0 then
        match dec_varint r1 with
        | None => None
        | Some (v, r2) => option_map (cons (num, VInt v)) (parse_f f r2)
        end
      else if wt =? 2 then
        match dec_varint r1 with
        | None => None
        | Some (len, r2) =>
            match take len r2 with
            | None => None
            | Some (b, r3) => option_map (cons (num, VBytes b)) (parse_f f r3)
            end
        end
      else if wt =? 1 then
        match take 8 r1 with
        | None => None
        | Some (b, r3) => option_map (cons (num, VFix64 b)) (parse_f f r3)
        end
      else if wt =? 5 then
        match take 4 r1 with
        | None => None
        | Some (b, r3) => option_map (cons (num, VFix32 b)) (parse_f f r3)
        end
      else None
  end.

Lemma parse_f_unfold f bs : bs <> [] -> parse_f (S f) bs = parse_body f bs.
Proof. destruct bs; [congruence|reflexivity]. Qed.

Lemma varint_app_nonempty t r : enc_varint t ++ r <> [].
Proof. destruct (enc_varint_nonempty t) as (b & r0 & ->). discriminate. Qed.

Lemma parse_f_step f fuel rest :
  wf_field f ->
  parse_f (S fuel) (enc_field f ++ rest) = option_map (cons f) (parse_f fuel rest).
Proof.
  intros (Hlo & Hhi & Hv). destruct f as [num v]. cbn [fst snd] in *.
  assert (Htag : forall w, w < 8 -> num * 8 + w < 2 ^ 64).
  { intros w Hw. change (2 ^ 64) with 18446744073709551616. lia. }
  assert (Hrange : (num =? 0) || (536870911 <? num) = false).
  { destruct (N.eqb_spec num 0); [lia|]. destruct (N.ltb_spec 536870911 num); [lia|reflexivity]. }
  unfold enc_field; cbn [fst snd].
  destruct v as [n|b|b|b]; rewrite <- ?app_assoc;
    (rewrite parse_f_unfold by apply varint_app_nonempty); unfold parse_body.
  - replace (num * 8) with (num * 8 + 0) by lia.
    rewrite dec_enc_varint by (apply Htag; lia).
    destruct (tag_split num 0) as [-> ->]; [lia|]. rewrite Hrange. cbn [N.eqb].
    rewrite dec_enc_varint by exact Hv. reflexivity.
  - rewrite dec_enc_varint by (apply Htag; lia).
    destruct (tag_split num 2) as [-> ->]; [lia|]. rewrite Hrange. cbn [N.eqb Pos.eqb].
    rewrite dec_enc_varint by exact Hv.
    rewrite take_app by reflexivity. reflexivity.
  - rewrite dec_enc_varint by (apply Htag; lia).
    destruct (tag_split num 1) as [-> ->]; [lia|]. rewrite Hrange. cbn [N.eqb Pos.eqb].
    rewrite take_app by (rewrite Hv; reflexivity). reflexivity.
  - rewrite dec_enc_varint by (apply Htag; lia).
    destruct (tag_split num 5) as [-> ->]; [lia|]. rewrite Hrange. cbn [N.eqb Pos.eqb].
    rewrite take_app by (rewrite Hv; reflexivity). reflexivity.
Qed.

Lemma enc_field_nonempty f : exists b r, enc_field f = b :: r.
Proof.
  unfold enc_field. destruct (snd f);
    match goal with |- context [enc_varint ?t ++ _] =>
      destruct (enc_varint_nonempty t) as (b0 & r0 & ->) end; cbn [app]; eauto.
Qed.

Lemma enc_fields_length fs : (length fs <= length (enc_fields fs))%nat.
Proof.
  induction fs as [|f fs IH]; [apply Nat.le_refl|].
  unfold enc_fields in *. cbn [map concat]. rewrite app_length.
  destruct (enc_field_nonempty f) as (b & r & ->). cbn [length]. lia.
Qed.

Lemma parse_f_enc fs : forall fuel, (length fs <= fuel)%nat -> Forall wf_field fs ->
  parse_f fuel (enc_fields fs) = Some fs.
Proof.
  induction fs as [|f fs IH]; intros fuel Hf Hwf.
  - destruct fuel; reflexivity.
  - destruct fuel as [|fuel]; [cbn [length] in Hf; lia|].
    inversion Hwf as [|? ? Hw Hws]; subst.
    unfold enc_fields. cbn [map concat]. rewrite parse_f_step by exact Hw.
    fold (enc_fields fs). rewrite IH; [reflexivity| cbn [length] in Hf; lia | exact Hws].
Qed.

Theorem parse_enc_fields fs : Forall wf_field fs -> parse (enc_fields fs) = Some fs.
Proof. intros H. apply parse_f_enc; [apply enc_fields_length|exact H]. Qed.

(* A strict prefix of a run of bytes is shorter: used by the framing layer. *)
Lemma enc_fields_app a b : enc_fields (a ++ b) = enc_fields a ++ enc_fields b.
Proof. unfold enc_fields. rewrite map_app, concat_app. reflexivity. Qed.
