(* L0: the concrete protobuf messages of internal/protobuf/raft.proto, with the
   proto3 encoder (fields in number order, defaults omitted, repeated message
   fields always emitted, map entries always carrying key and value) and the
   decoder (any field order, last scalar wins, repeated appended, unknown
   fields and fields with an unexpected wire type skipped).
   Field numbers come from Gen/Constants.v, regenerated from raft.pb.go. *)
From RaftV Require Export Codec.Proto Gen.Constants.
Open Scope N_scope.

Definition fint (num v : N) : list field := if v =? 0 then [] else [(num, VInt v)].
Definition fbytes (num : N) (b : bytes) : list field :=
  match b with [] => [] | _ => [(num, VBytes b)] end.
Definition fbool (num : N) (b : bool) : list field := if b then [(num, VInt 1)] else [].
Definition nz (v : N) : bool := negb (v =? 0).
Definition u64 (n : N) : Prop := n < 2 ^ 64.

(* ---------- LogEntry ---------- *)
Record pb_entry := { pe_index : N; pe_term : N; pe_offset : N; pe_data : bytes; pe_type : N }.
Definition pb_entry0 := {| pe_index := 0; pe_term := 0; pe_offset := 0; pe_data := []; pe_type := 0 |}.

Definition entry_fields (e : pb_entry) : list field :=
  fint fn_entry_index (pe_index e) ++ fint fn_entry_term (pe_term e) ++
  fint fn_entry_offset (pe_offset e) ++ fbytes fn_entry_data (pe_data e) ++
  fint fn_entry_type (pe_type e).
Definition enc_entry (e : pb_entry) : bytes := enc_fields (entry_fields e).

Definition upd_entry (e : pb_entry) (f : field) : pb_entry :=
  let '(num, v) := f in
  match v with
  | VInt n =>
      if num =? fn_entry_index then {| pe_index := n; pe_term := pe_term e; pe_offset := pe_offset e; pe_data := pe_data e; pe_type := pe_type e |}
      else if num =? fn_entry_term then {| pe_index := pe_index e; pe_term := n; pe_offset := pe_offset e; pe_data := pe_data e; pe_type := pe_type e |}
      else if num =? fn_entry_offset then {| pe_index := pe_index e; pe_term := pe_term e; pe_offset := n; pe_data := pe_data e; pe_type := pe_type e |}
      else if num =? fn_entry_type then {| pe_index := pe_index e; pe_term := pe_term e; pe_offset := pe_offset e; pe_data := pe_data e; pe_type := n mod 4294967296 |}
      else e
  | VBytes b =>
      if num =? fn_entry_data then {| pe_index := pe_index e; pe_term := pe_term e; pe_offset := pe_offset e; pe_data := b; pe_type := pe_type e |}
      else e
  | _ => e
  end.
Definition dec_entry (bs : bytes) : option pb_entry :=
  option_map (fun fs => fold_left upd_entry fs pb_entry0) (parse bs).

Definition wf_entry (e : pb_entry) : Prop :=
  u64 (pe_index e) /\ u64 (pe_term e) /\ u64 (pe_offset e) /\ pe_type e < 2 ^ 31 /\
  N.of_nat (length (pe_data e)) < 2 ^ 64.

Lemma wf_fint num v : 1 <= num -> num <= 536870911 -> u64 v -> Forall wf_field (fint num v).
Proof. intros. unfold fint. destruct (v =? 0); [constructor|constructor; [|constructor]]. repeat split; assumption. Qed.
Lemma wf_fbool num v : 1 <= num -> num <= 536870911 -> Forall wf_field (fbool num v).
Proof. intros. unfold fbool. destruct v; [constructor; [|constructor]|constructor]. repeat split; try assumption. Qed.
Lemma wf_fbytes num b : 1 <= num -> num <= 536870911 -> N.of_nat (length b) < 2 ^ 64 -> Forall wf_field (fbytes num b).
Proof. intros. unfold fbytes. destruct b eqn:E; [constructor|constructor; [|constructor]]. repeat split; try assumption; try (rewrite <- E; assumption). Qed.
Ltac fnum := first [ discriminate | reflexivity | (vm_compute; congruence) ].
Ltac wf_fields :=
  repeat first
    [ apply wf_fint; [fnum|fnum|]
    | apply wf_fbool; [fnum|fnum]
    | apply wf_fbytes; [fnum|fnum|]
    | (apply Forall_app; split) ].

Lemma entry_fields_wf e : wf_entry e -> Forall wf_field (entry_fields e).
Proof.
  intros (H1 & H2 & H3 & H4 & H5). unfold entry_fields. wf_fields; try assumption.
  unfold u64. change (2 ^ 31) with 2147483648 in H4. change (2 ^ 64) with 18446744073709551616. lia.
Qed.

Theorem dec_enc_entry e : wf_entry e -> dec_entry (enc_entry e) = Some e.
Proof.
  intros Hwf. unfold dec_entry, enc_entry.
  rewrite parse_enc_fields by (apply entry_fields_wf; exact Hwf).
  cbn [option_map]. f_equal.
  destruct Hwf as (_ & _ & _ & Ht & _).
  destruct e as [i t o d ty]. cbn [pe_type] in Ht. unfold entry_fields. cbn [pe_index pe_term pe_offset pe_data pe_type].
  assert (Hty : ty mod 4294967296 = ty).
  { apply N.mod_small. change (2 ^ 31) with 2147483648 in Ht. lia. }
  unfold fint, fbytes.
  destruct (N.eqb_spec i 0), (N.eqb_spec t 0), (N.eqb_spec o 0), d, (N.eqb_spec ty 0);
    subst; cbn; rewrite ?Hty; reflexivity.
Qed.

(* ---------- StorageState ---------- *)
Record pb_state := { ps_term : N; ps_vote : bytes }.
Definition state_fields (s : pb_state) : list field :=
  fint fn_state_term (ps_term s) ++ fbytes fn_state_voted_for (ps_vote s).
Definition enc_state (s : pb_state) : bytes := enc_fields (state_fields s).
Definition upd_state (s : pb_state) (f : field) : pb_state :=
  let '(num, v) := f in
  match v with
  | VInt n => if num =? fn_state_term then {| ps_term := n; ps_vote := ps_vote s |} else s
  | VBytes b => if num =? fn_state_voted_for then {| ps_term := ps_term s; ps_vote := b |} else s
  | _ => s
  end.
Definition dec_state (bs : bytes) : option pb_state :=
  option_map (fun fs => fold_left upd_state fs {| ps_term := 0; ps_vote := [] |}) (parse bs).
Definition wf_state (s : pb_state) := u64 (ps_term s) /\ N.of_nat (length (ps_vote s)) < 2 ^ 64.

Theorem dec_enc_state s : wf_state s -> dec_state (enc_state s) = Some s.
Proof.
  intros (H1 & H2). unfold dec_state, enc_state.
  rewrite parse_enc_fields.
  - cbn [option_map]. f_equal. destruct s as [t v]. unfold state_fields, fint, fbytes.
    cbn [ps_term ps_vote]. destruct (N.eqb_spec t 0), v; subst; reflexivity.
  - unfold state_fields. wf_fields; assumption.
Qed.

(* ---------- responses ---------- *)
Record pb_ae_resp := { ar_term : N; ar_index : N; ar_success : bool }.
Definition ae_resp_fields (r : pb_ae_resp) :=
  fint fn_aeresp_term (ar_term r) ++ fint fn_aeresp_index (ar_index r) ++ fbool fn_aeresp_success (ar_success r).
Definition enc_ae_resp r := enc_fields (ae_resp_fields r).
Definition upd_ae_resp (r : pb_ae_resp) (f : field) : pb_ae_resp :=
  let '(num, v) := f in
  match v with
  | VInt n =>
      if num =? fn_aeresp_term then {| ar_term := n; ar_index := ar_index r; ar_success := ar_success r |}
      else if num =? fn_aeresp_index then {| ar_term := ar_term r; ar_index := n; ar_success := ar_success r |}
      else if num =? fn_aeresp_success then {| ar_term := ar_term r; ar_index := ar_index r; ar_success := nz n |}
      else r
  | _ => r
  end.
Definition dec_ae_resp bs :=
  option_map (fun fs => fold_left upd_ae_resp fs {| ar_term := 0; ar_index := 0; ar_success := false |}) (parse bs).

Theorem dec_enc_ae_resp r : u64 (ar_term r) -> u64 (ar_index r) -> dec_ae_resp (enc_ae_resp r) = Some r.
Proof.
  intros H1 H2. unfold dec_ae_resp, enc_ae_resp. rewrite parse_enc_fields.
  - cbn [option_map]. f_equal. destruct r as [t i s]. unfold ae_resp_fields, fint, fbool.
    cbn [ar_term ar_index ar_success]. destruct (N.eqb_spec t 0), (N.eqb_spec i 0), s; subst; reflexivity.
  - unfold ae_resp_fields. wf_fields; assumption.
Qed.

Record pb_rv_resp := { vr_term : N; vr_granted : bool }.
Definition rv_resp_fields (r : pb_rv_resp) :=
  fint fn_rvresp_term (vr_term r) ++ fbool fn_rvresp_granted (vr_granted r).
Definition enc_rv_resp r := enc_fields (rv_resp_fields r).
Definition upd_rv_resp (r : pb_rv_resp) (f : field) : pb_rv_resp :=
  let '(num, v) := f in
  match v with
  | VInt n =>
      if num =? fn_rvresp_term then {| vr_term := n; vr_granted := vr_granted r |}
      else if num =? fn_rvresp_granted then {| vr_term := vr_term r; vr_granted := nz n |}
      else r
  | _ => r
  end.
Definition dec_rv_resp bs :=
  option_map (fun fs => fold_left upd_rv_resp fs {| vr_term := 0; vr_granted := false |}) (parse bs).
Theorem dec_enc_rv_resp r : u64 (vr_term r) -> dec_rv_resp (enc_rv_resp r) = Some r.
Proof.
  intros H1. unfold dec_rv_resp, enc_rv_resp. rewrite parse_enc_fields.
  - cbn [option_map]. f_equal. destruct r as [t g]. unfold rv_resp_fields, fint, fbool.
    cbn [vr_term vr_granted]. destruct (N.eqb_spec t 0), g; subst; reflexivity.
  - unfold rv_resp_fields. wf_fields; assumption.
Qed.

Record pb_is_resp := { sr_term : N; sr_written : N }.
Definition is_resp_fields (r : pb_is_resp) :=
  fint fn_isresp_term (sr_term r) ++ fint fn_isresp_written (sr_written r).
Definition enc_is_resp r := enc_fields (is_resp_fields r).
Definition upd_is_resp (r : pb_is_resp) (f : field) : pb_is_resp :=
  let '(num, v) := f in
  match v with
  | VInt n =>
      if num =? fn_isresp_term then {| sr_term := n; sr_written := sr_written r |}
      else if num =? fn_isresp_written then {| sr_term := sr_term r; sr_written := n |}
      else r
  | _ => r
  end.
Definition dec_is_resp bs :=
  option_map (fun fs => fold_left upd_is_resp fs {| sr_term := 0; sr_written := 0 |}) (parse bs).
Theorem dec_enc_is_resp r : u64 (sr_term r) -> u64 (sr_written r) -> dec_is_resp (enc_is_resp r) = Some r.
Proof.
  intros H1 H2. unfold dec_is_resp, enc_is_resp. rewrite parse_enc_fields.
  - cbn [option_map]. f_equal. destruct r as [t w]. unfold is_resp_fields, fint.
    cbn [sr_term sr_written]. destruct (N.eqb_spec t 0), (N.eqb_spec w 0); subst; reflexivity.
  - unfold is_resp_fields. wf_fields; assumption.
Qed.

(* ---------- RequestVoteRequest ---------- *)
Record pb_rv_req := { vq_cand : bytes; vq_term : N; vq_last_index : N; vq_last_term : N; vq_prevote : bool }.
Definition rv_req_fields (r : pb_rv_req) :=
  fbytes fn_rv_candidate (vq_cand r) ++ fint fn_rv_term (vq_term r) ++
  fint fn_rv_last_index (vq_last_index r) ++ fint fn_rv_last_term (vq_last_term r) ++
  fbool fn_rv_prevote (vq_prevote r).
Definition enc_rv_req r := enc_fields (rv_req_fields r).
Definition upd_rv_req (r : pb_rv_req) (f : field) : pb_rv_req :=
  let '(num, v) := f in
  match v with
  | VInt n =>
      if num =? fn_rv_term then {| vq_cand := vq_cand r; vq_term := n; vq_last_index := vq_last_index r; vq_last_term := vq_last_term r; vq_prevote := vq_prevote r |}
      else if num =? fn_rv_last_index then {| vq_cand := vq_cand r; vq_term := vq_term r; vq_last_index := n; vq_last_term := vq_last_term r; vq_prevote := vq_prevote r |}
      else if num =? fn_rv_last_term then {| vq_cand := vq_cand r; vq_term := vq_term r; vq_last_index := vq_last_index r; vq_last_term := n; vq_prevote := vq_prevote r |}
      else if num =? fn_rv_prevote then {| vq_cand := vq_cand r; vq_term := vq_term r; vq_last_index := vq_last_index r; vq_last_term := vq_last_term r; vq_prevote := nz n |}
      else r
  | VBytes b =>
      if num =? fn_rv_candidate then {| vq_cand := b; vq_term := vq_term r; vq_last_index := vq_last_index r; vq_last_term := vq_last_term r; vq_prevote := vq_prevote r |}
      else r
  | _ => r
  end.
Definition dec_rv_req bs :=
  option_map (fun fs => fold_left upd_rv_req fs
    {| vq_cand := []; vq_term := 0; vq_last_index := 0; vq_last_term := 0; vq_prevote := false |}) (parse bs).
Definition wf_rv_req r := N.of_nat (length (vq_cand r)) < 2 ^ 64 /\ u64 (vq_term r) /\ u64 (vq_last_index r) /\ u64 (vq_last_term r).
Theorem dec_enc_rv_req r : wf_rv_req r -> dec_rv_req (enc_rv_req r) = Some r.
Proof.
  intros (H0 & H1 & H2 & H3). unfold dec_rv_req, enc_rv_req. rewrite parse_enc_fields.
  - cbn [option_map]. f_equal. destruct r as [c t i lt p]. unfold rv_req_fields, fint, fbool, fbytes.
    cbn [vq_cand vq_term vq_last_index vq_last_term vq_prevote].
    destruct c, (N.eqb_spec t 0), (N.eqb_spec i 0), (N.eqb_spec lt 0), p; subst; reflexivity.
  - unfold rv_req_fields. wf_fields; assumption.
Qed.

(* ---------- InstallSnapshotRequest ---------- *)
Record pb_is_req := { sq_term : N; sq_leader : bytes; sq_lii : N; sq_lit : N; sq_conf : bytes;
                      sq_offset : N; sq_data : bytes; sq_done : bool }.
Definition is_req_fields (r : pb_is_req) :=
  fint fn_is_term (sq_term r) ++ fbytes fn_is_leader (sq_leader r) ++ fint fn_is_lii (sq_lii r) ++
  fint fn_is_lit (sq_lit r) ++ fbytes fn_is_conf (sq_conf r) ++ fint fn_is_offset (sq_offset r) ++
  fbytes fn_is_data (sq_data r) ++ fbool fn_is_done (sq_done r).
Definition enc_is_req r := enc_fields (is_req_fields r).
Definition upd_is_req (r : pb_is_req) (f : field) : pb_is_req :=
  let '(num, v) := f in
  match v with
  | VInt n =>
      if num =? fn_is_term then {| sq_term := n; sq_leader := sq_leader r; sq_lii := sq_lii r; sq_lit := sq_lit r; sq_conf := sq_conf r; sq_offset := sq_offset r; sq_data := sq_data r; sq_done := sq_done r |}
      else if num =? fn_is_lii then {| sq_term := sq_term r; sq_leader := sq_leader r; sq_lii := n; sq_lit := sq_lit r; sq_conf := sq_conf r; sq_offset := sq_offset r; sq_data := sq_data r; sq_done := sq_done r |}
      else if num =? fn_is_lit then {| sq_term := sq_term r; sq_leader := sq_leader r; sq_lii := sq_lii r; sq_lit := n; sq_conf := sq_conf r; sq_offset := sq_offset r; sq_data := sq_data r; sq_done := sq_done r |}
      else if num =? fn_is_offset then {| sq_term := sq_term r; sq_leader := sq_leader r; sq_lii := sq_lii r; sq_lit := sq_lit r; sq_conf := sq_conf r; sq_offset := n; sq_data := sq_data r; sq_done := sq_done r |}
      else if num =? fn_is_done then {| sq_term := sq_term r; sq_leader := sq_leader r; sq_lii := sq_lii r; sq_lit := sq_lit r; sq_conf := sq_conf r; sq_offset := sq_offset r; sq_data := sq_data r; sq_done := nz n |}
      else r
  | VBytes b =>
      if num =? fn_is_leader then {| sq_term := sq_term r; sq_leader := b; sq_lii := sq_lii r; sq_lit := sq_lit r; sq_conf := sq_conf r; sq_offset := sq_offset r; sq_data := sq_data r; sq_done := sq_done r |}
      else if num =? fn_is_conf then {| sq_term := sq_term r; sq_leader := sq_leader r; sq_lii := sq_lii r; sq_lit := sq_lit r; sq_conf := b; sq_offset := sq_offset r; sq_data := sq_data r; sq_done := sq_done r |}
      else if num =? fn_is_data then {| sq_term := sq_term r; sq_leader := sq_leader r; sq_lii := sq_lii r; sq_lit := sq_lit r; sq_conf := sq_conf r; sq_offset := sq_offset r; sq_data := b; sq_done := sq_done r |}
      else r
  | _ => r
  end.
Definition dec_is_req bs :=
  option_map (fun fs => fold_left upd_is_req fs
    {| sq_term := 0; sq_leader := []; sq_lii := 0; sq_lit := 0; sq_conf := []; sq_offset := 0; sq_data := []; sq_done := false |}) (parse bs).
Definition wf_is_req r :=
  u64 (sq_term r) /\ u64 (sq_lii r) /\ u64 (sq_lit r) /\ u64 (sq_offset r) /\
  N.of_nat (length (sq_leader r)) < 2 ^ 64 /\ N.of_nat (length (sq_conf r)) < 2 ^ 64 /\
  N.of_nat (length (sq_data r)) < 2 ^ 64.
(* No bound on the payload: holds for snapshot chunks of any size. *)
Theorem dec_enc_is_req r : wf_is_req r -> dec_is_req (enc_is_req r) = Some r.
Proof.
  intros (H0 & H1 & H2 & H3 & H4 & H5 & H6). unfold dec_is_req, enc_is_req. rewrite parse_enc_fields.
  - cbn [option_map]. f_equal. destruct r as [t l i lt c o d dn]. unfold is_req_fields, fint, fbool, fbytes.
    cbn [sq_term sq_leader sq_lii sq_lit sq_conf sq_offset sq_data sq_done].
    destruct (N.eqb_spec t 0), l, (N.eqb_spec i 0), (N.eqb_spec lt 0), c, (N.eqb_spec o 0), d, dn; subst; reflexivity.
  - unfold is_req_fields. wf_fields; assumption.
Qed.

(* ---------- AppendEntriesRequest ---------- *)
Record pb_ae_req := { aq_leader : bytes; aq_term : N; aq_commit : N; aq_prev_index : N; aq_prev_term : N;
                      aq_entries : list pb_entry }.
Definition ae_scalar_fields (r : pb_ae_req) :=
  fbytes fn_ae_leader (aq_leader r) ++ fint fn_ae_term (aq_term r) ++ fint fn_ae_commit (aq_commit r) ++
  fint fn_ae_prev_index (aq_prev_index r) ++ fint fn_ae_prev_term (aq_prev_term r).
Definition ae_req_fields (r : pb_ae_req) :=
  ae_scalar_fields r ++ map (fun e => (fn_ae_entries, VBytes (enc_entry e))) (aq_entries r).
Definition enc_ae_req r := enc_fields (ae_req_fields r).
Definition set_entries (r : pb_ae_req) (es : list pb_entry) :=
  {| aq_leader := aq_leader r; aq_term := aq_term r; aq_commit := aq_commit r; aq_prev_index := aq_prev_index r; aq_prev_term := aq_prev_term r; aq_entries := es |}.
Definition upd_ae_req (o : option pb_ae_req) (f : field) : option pb_ae_req :=
  match o with
  | None => None
  | Some r =>
      let '(num, v) := f in
      match v with
      | VInt n =>
          if num =? fn_ae_term then Some {| aq_leader := aq_leader r; aq_term := n; aq_commit := aq_commit r; aq_prev_index := aq_prev_index r; aq_prev_term := aq_prev_term r; aq_entries := aq_entries r |}
          else if num =? fn_ae_commit then Some {| aq_leader := aq_leader r; aq_term := aq_term r; aq_commit := n; aq_prev_index := aq_prev_index r; aq_prev_term := aq_prev_term r; aq_entries := aq_entries r |}
          else if num =? fn_ae_prev_index then Some {| aq_leader := aq_leader r; aq_term := aq_term r; aq_commit := aq_commit r; aq_prev_index := n; aq_prev_term := aq_prev_term r; aq_entries := aq_entries r |}
          else if num =? fn_ae_prev_term then Some {| aq_leader := aq_leader r; aq_term := aq_term r; aq_commit := aq_commit r; aq_prev_index := aq_prev_index r; aq_prev_term := n; aq_entries := aq_entries r |}
          else Some r
      | VBytes b =>
          if num =? fn_ae_leader then Some {| aq_leader := b; aq_term := aq_term r; aq_commit := aq_commit r; aq_prev_index := aq_prev_index r; aq_prev_term := aq_prev_term r; aq_entries := aq_entries r |}
          else if num =? fn_ae_entries then
            match dec_entry b with
            | None => None
            | Some e => Some (set_entries r (aq_entries r ++ [e]))
            end
          else Some r
      | _ => Some r
      end
  end.
Definition ae_req0 := {| aq_leader := []; aq_term := 0; aq_commit := 0; aq_prev_index := 0; aq_prev_term := 0; aq_entries := [] |}.
Definition dec_ae_req bs : option pb_ae_req :=
  match parse bs with None => None | Some fs => fold_left upd_ae_req fs (Some ae_req0) end.
Definition wf_ae_req r :=
  N.of_nat (length (aq_leader r)) < 2 ^ 64 /\ u64 (aq_term r) /\ u64 (aq_commit r) /\
  u64 (aq_prev_index r) /\ u64 (aq_prev_term r) /\ Forall wf_entry (aq_entries r).

Lemma fold_entries es : forall r, Forall wf_entry es ->
  fold_left upd_ae_req (map (fun e => (fn_ae_entries, VBytes (enc_entry e))) es) (Some r)
  = Some (set_entries r (aq_entries r ++ es)).
Proof.
  induction es as [|e es IH]; intros r Hwf.
  - cbn [map fold_left]. rewrite app_nil_r. destruct r; reflexivity.
  - inversion Hwf as [|? ? He Hes]; subst. cbn [map fold_left].
    unfold upd_ae_req at 2.
    replace (fn_ae_entries =? fn_ae_leader) with false by reflexivity.
    rewrite N.eqb_refl, dec_enc_entry by exact He.
    rewrite IH by exact Hes. f_equal. unfold set_entries; cbn [aq_leader aq_term aq_commit aq_prev_index aq_prev_term aq_entries].
    rewrite <- app_assoc. reflexivity.
Qed.

Lemma enc_entry_len e : N.of_nat (length (enc_entry e)) < 2 ^ 64 -> wf_field (fn_ae_entries, VBytes (enc_entry e)).
Proof. intros H. unfold wf_field; cbn [fst snd]. split; [fnum|split; [fnum|exact H]]. Qed.

(* The length side condition says a serialized entry fits a uint64 length
   prefix; it holds for any entry that fits in memory. *)
Theorem dec_enc_ae_req r :
  wf_ae_req r -> Forall (fun e => N.of_nat (length (enc_entry e)) < 2 ^ 64) (aq_entries r) ->
  dec_ae_req (enc_ae_req r) = Some r.
Proof.
  intros (H0 & H1 & H2 & H3 & H4 & H5) Hlen. unfold dec_ae_req, enc_ae_req. rewrite parse_enc_fields.
  - unfold ae_req_fields. rewrite fold_left_app.
    assert (Hs : fold_left upd_ae_req (ae_scalar_fields r) (Some ae_req0) = Some (set_entries r [])).
    { destruct r as [l t c pi pt es]. unfold ae_scalar_fields, fint, fbytes, set_entries.
      cbn [aq_leader aq_term aq_commit aq_prev_index aq_prev_term aq_entries].
      destruct l, (N.eqb_spec t 0), (N.eqb_spec c 0), (N.eqb_spec pi 0), (N.eqb_spec pt 0); subst; reflexivity. }
    rewrite Hs, fold_entries by exact H5. destruct r; reflexivity.
  - unfold ae_req_fields. apply Forall_app; split.
    + unfold ae_scalar_fields. wf_fields; assumption.
    + apply Forall_map. eapply Forall_impl; [|exact Hlen]. intros e He. apply enc_entry_len; exact He.
Qed.

(* The converters of requests.go: makeProtoEntries / makeEntries do not carry
   LogEntry.Offset (a storage-local field), so it is zero on the wire and zero
   after receipt. *)
Definition wire_entry (e : pb_entry) : pb_entry :=
  {| pe_index := pe_index e; pe_term := pe_term e; pe_offset := 0; pe_data := pe_data e; pe_type := pe_type e |}.
Definition send_ae_req (r : pb_ae_req) : bytes := enc_ae_req (set_entries r (map wire_entry (aq_entries r))).
Definition recv_ae_req (bs : bytes) : option pb_ae_req :=
  option_map (fun r => set_entries r (map wire_entry (aq_entries r))) (dec_ae_req bs).

Lemma wire_entry_wf e : wf_entry e -> wf_entry (wire_entry e).
Proof. intros (H1 & H2 & H3 & H4 & H5). repeat split; assumption. Qed.

Lemma wire_entry_idem e : wire_entry (wire_entry e) = wire_entry e.
Proof. reflexivity. Qed.

Theorem recv_send_ae_req r :
  wf_ae_req r -> Forall (fun e => N.of_nat (length (enc_entry (wire_entry e))) < 2 ^ 64) (aq_entries r) ->
  recv_ae_req (send_ae_req r) = Some (set_entries r (map wire_entry (aq_entries r))).
Proof.
  intros (H0 & H1 & H2 & H3 & H4 & H5) Hlen. unfold recv_ae_req, send_ae_req.
  rewrite dec_enc_ae_req.
  - cbn [option_map]. f_equal. unfold set_entries; cbn [aq_leader aq_term aq_commit aq_prev_index aq_prev_term aq_entries].
    rewrite map_map. f_equal.
  - repeat split; try assumption. cbn [set_entries aq_entries].
    apply Forall_map. eapply Forall_impl; [|exact H5]. intros e He. apply wire_entry_wf; exact He.
  - cbn [set_entries aq_entries]. apply Forall_map. exact Hlen.
Qed.

(* ---------- Configuration (two maps) ---------- *)
Record pb_conf := { pc_members : list (bytes * bytes); pc_voters : list (bytes * bool); pc_index : N }.

Definition kv_str_fields (kv : bytes * bytes) : list field := [(1, VBytes (fst kv)); (2, VBytes (snd kv))].
Definition kv_bool_fields (kv : bytes * bool) : list field := [(1, VBytes (fst kv)); (2, VInt (if snd kv then 1 else 0))].
Definition conf_fields (c : pb_conf) : list field :=
  map (fun kv => (fn_conf_members, VBytes (enc_fields (kv_str_fields kv)))) (pc_members c) ++
  map (fun kv => (fn_conf_is_voter, VBytes (enc_fields (kv_bool_fields kv)))) (pc_voters c) ++
  fint fn_conf_index (pc_index c).
Definition enc_conf c := enc_fields (conf_fields c).

Definition beq (a b : bytes) : bool := if list_eq_dec N.eq_dec a b then true else false.
Fixpoint insert {V} (k : bytes) (v : V) (l : list (bytes * V)) : list (bytes * V) :=
  match l with
  | [] => [(k, v)]
  | (k', v') :: r => if beq k k' then (k, v) :: r else (k', v') :: insert k v r
  end.

Definition upd_kv_str (kv : bytes * bytes) (f : field) : bytes * bytes :=
  match f with
  | (1, VBytes b) => (b, snd kv)
  | (2, VBytes b) => (fst kv, b)
  | _ => kv
  end.
Definition upd_kv_bool (kv : bytes * bool) (f : field) : bytes * bool :=
  match f with
  | (1, VBytes b) => (b, snd kv)
  | (2, VInt n) => (fst kv, nz n)
  | _ => kv
  end.

Definition upd_conf (o : option pb_conf) (f : field) : option pb_conf :=
  match o with
  | None => None
  | Some c =>
      let '(num, v) := f in
      match v with
      | VInt n => if num =? fn_conf_index then Some {| pc_members := pc_members c; pc_voters := pc_voters c; pc_index := n |} else Some c
      | VBytes b =>
          if num =? fn_conf_members then
            match parse b with
            | None => None
            | Some fs => let kv := fold_left upd_kv_str fs ([], []) in
                         Some {| pc_members := insert (fst kv) (snd kv) (pc_members c); pc_voters := pc_voters c; pc_index := pc_index c |}
            end
          else if num =? fn_conf_is_voter then
            match parse b with
            | None => None
            | Some fs => let kv := fold_left upd_kv_bool fs ([], false) in
                         Some {| pc_members := pc_members c; pc_voters := insert (fst kv) (snd kv) (pc_voters c); pc_index := pc_index c |}
            end
          else Some c
      | _ => Some c
      end
  end.
Definition conf0 := {| pc_members := []; pc_voters := []; pc_index := 0 |}.
Definition dec_conf bs : option pb_conf :=
  match parse bs with None => None | Some fs => fold_left upd_conf fs (Some conf0) end.

Definition small (b : bytes) := N.of_nat (length b) < 2 ^ 32.
Definition wf_conf c :=
  NoDup (map fst (pc_members c)) /\ NoDup (map fst (pc_voters c)) /\ u64 (pc_index c) /\
  Forall (fun kv => small (fst kv) /\ small (snd kv)) (pc_members c) /\
  Forall (fun kv => small (fst kv)) (pc_voters c).

Lemma beq_refl a : beq a a = true.
Proof. unfold beq. destruct (list_eq_dec N.eq_dec a a); congruence. Qed.
Lemma beq_neq a b : a <> b -> beq a b = false.
Proof. unfold beq. destruct (list_eq_dec N.eq_dec a b); congruence. Qed.

Lemma insert_fresh {V} k (v : V) l : ~ In k (map fst l) -> insert k v l = l ++ [(k, v)].
Proof.
  induction l as [|[k' v'] l IH]; intros Hn; [reflexivity|].
  cbn [insert map fst In] in *. rewrite beq_neq by (intro; subst; tauto).
  rewrite IH by tauto. reflexivity.
Qed.

Lemma small_u64 b : small b -> N.of_nat (length b) < 2 ^ 64.
Proof. unfold small. change (2 ^ 32) with 4294967296. change (2 ^ 64) with 18446744073709551616. lia. Qed.

Lemma parse_kv_str kv : small (fst kv) -> small (snd kv) ->
  parse (enc_fields (kv_str_fields kv)) = Some (kv_str_fields kv).
Proof.
  intros H1 H2. apply parse_enc_fields. unfold kv_str_fields.
  repeat constructor; cbn [fst snd]; try discriminate; apply small_u64; assumption.
Qed.

Lemma parse_kv_bool kv : small (fst kv) ->
  parse (enc_fields (kv_bool_fields kv)) = Some (kv_bool_fields kv).
Proof.
  intros H1. apply parse_enc_fields. unfold kv_bool_fields.
  repeat constructor; cbn [fst snd]; try discriminate; try (apply small_u64; assumption).
  destruct (snd kv); reflexivity.
Qed.

Definition set_members c ms := {| pc_members := ms; pc_voters := pc_voters c; pc_index := pc_index c |}.
Definition set_voters c vs := {| pc_members := pc_members c; pc_voters := vs; pc_index := pc_index c |}.

Lemma fold_members ms : forall c,
  NoDup (map fst (pc_members c ++ ms)) ->
  Forall (fun kv => small (fst kv) /\ small (snd kv)) ms ->
  fold_left upd_conf (map (fun kv => (fn_conf_members, VBytes (enc_fields (kv_str_fields kv)))) ms) (Some c)
  = Some (set_members c (pc_members c ++ ms)).
Proof.
  induction ms as [|[k v] ms IH]; intros c Hnd Hs.
  - cbn [map fold_left]. rewrite app_nil_r. destruct c; reflexivity.
  - inversion Hs as [|? ? [Hk Hv] Hs']; subst. cbn [map fold_left].
    unfold upd_conf at 2. rewrite N.eqb_refl, parse_kv_str by assumption.
    cbn [kv_str_fields fold_left upd_kv_str fst snd].
    rewrite insert_fresh.
    + rewrite IH.
      * unfold set_members; cbn [pc_members pc_voters pc_index]. rewrite <- app_assoc. reflexivity.
      * cbn [pc_members]. rewrite <- app_assoc. exact Hnd.
      * exact Hs'.
    + rewrite map_app in Hnd. cbn [map fst] in Hnd. apply NoDup_remove_2 in Hnd.
      intro Hin. apply Hnd. apply in_or_app. left. exact Hin.
Qed.

Lemma fold_voters vs : forall c,
  NoDup (map fst (pc_voters c ++ vs)) ->
  Forall (fun kv => small (fst kv)) vs ->
  fold_left upd_conf (map (fun kv => (fn_conf_is_voter, VBytes (enc_fields (kv_bool_fields kv)))) vs) (Some c)
  = Some (set_voters c (pc_voters c ++ vs)).
Proof.
  induction vs as [|[k v] vs IH]; intros c Hnd Hs.
  - cbn [map fold_left]. rewrite app_nil_r. destruct c; reflexivity.
  - inversion Hs as [|? ? Hk Hs']; subst. cbn [map fold_left].
    unfold upd_conf at 2.
    replace (fn_conf_is_voter =? fn_conf_members) with false by reflexivity.
    rewrite N.eqb_refl, parse_kv_bool by assumption.
    cbn [kv_bool_fields fold_left upd_kv_bool fst snd].
    replace (nz (if v then 1 else 0)) with v by (destruct v; reflexivity).
    rewrite insert_fresh.
    + rewrite IH.
      * unfold set_voters; cbn [pc_members pc_voters pc_index]. rewrite <- app_assoc. reflexivity.
      * cbn [pc_voters]. rewrite <- app_assoc. exact Hnd.
      * exact Hs'.
    + rewrite map_app in Hnd. cbn [map fst] in Hnd. apply NoDup_remove_2 in Hnd.
      intro Hin. apply Hnd. apply in_or_app. left. exact Hin.
Qed.

Lemma kv_field_wf num b : 1 <= num -> num <= 536870911 -> N.of_nat (length b) < 2 ^ 64 -> wf_field (num, VBytes b).
Proof. intros. repeat split; assumption. Qed.

(* Length side conditions as for AppendEntries: a serialized map entry fits a
   uint64 length prefix. *)
Definition conf_lens_ok c :=
  Forall (fun kv => N.of_nat (length (enc_fields (kv_str_fields kv))) < 2 ^ 64) (pc_members c) /\
  Forall (fun kv => N.of_nat (length (enc_fields (kv_bool_fields kv))) < 2 ^ 64) (pc_voters c).

Theorem dec_enc_conf c : wf_conf c -> conf_lens_ok c -> dec_conf (enc_conf c) = Some c.
Proof.
  intros (Hm & Hv & Hi & Hsm & Hsv) (Hlm & Hlv). unfold dec_conf, enc_conf.
  rewrite parse_enc_fields.
  - unfold conf_fields. rewrite !fold_left_app.
    rewrite fold_members by (cbn [conf0 pc_members app]; assumption).
    rewrite fold_voters by (cbn [set_members conf0 pc_voters pc_members app]; assumption).
    destruct c as [ms vs i]. cbn [pc_index pc_members pc_voters set_members set_voters conf0 app] in *.
    unfold fint. destruct (N.eqb_spec i 0); subst; reflexivity.
  - unfold conf_fields. apply Forall_app; split; [|apply Forall_app; split].
    + apply Forall_map. eapply Forall_impl; [|exact Hlm]. intros kv H. apply kv_field_wf; [fnum|fnum|exact H].
    + apply Forall_map. eapply Forall_impl; [|exact Hlv]. intros kv H. apply kv_field_wf; [fnum|fnum|exact H].
    + wf_fields; assumption.
Qed.
