(* L2: one Gallina function per lock-held section of raft.go.  Part 1: the log
   (log.go in memory), storage writes with a crash budget, state transitions,
   and the three RPC handlers.  [now] is the virtual clock. *)
From RaftV Require Export Node.Types.
Open Scope N_scope.

(* ---------------- log.go, in-memory view ---------------- *)
Definition first_index (l : list entry) : N := e_index (hd entry0 l).
Definition last_entry (l : list entry) : entry := last l entry0.
Definition last_index (l : list entry) : N := e_index (last_entry l).
Definition last_term (l : list entry) : N := e_term (last_entry l).
Definition next_index (l : list entry) : N := last_index l + 1.
Definition log_size (l : list entry) : N := N.of_nat (length l) - 1.
(* Contains: logIndex := index - entries[0].Index (unsigned); !(logIndex <= 0 || logIndex >= len) *)
Definition log_contains (l : list entry) (i : N) : bool :=
  let li := i - first_index l in negb ((li <=? 0) || (N.of_nat (length l) <=? li)).
Definition log_get (l : list entry) (i : N) : option entry :=
  if log_contains l i then nth_error l (N.to_nat (i - first_index l)) else None.
Definition log_truncate (l : list entry) (i : N) : list entry := firstn (N.to_nat (i - first_index l)) l.
Definition log_compact (l : list entry) (i : N) : list entry := skipn (N.to_nat (i - first_index l)) l.
Definition log_discard (i t : N) : list entry := [{| e_index := i; e_term := t; e_kind := KNoop |}].

(* ---------------- the user state machine of the harness ---------------- *)
(* Snapshot: 4 bytes big-endian per applied payload; Restore parses them back. *)
Definition be4 (p : N) : list N := [(p / 16777216) mod 256; (p / 65536) mod 256; (p / 256) mod 256; p mod 256].
(* count, payloads, then [pad] zero bytes (the harness pads snapshots to exercise multi-chunk transfers) *)
Definition fsm_snap (pad : N) (st : list N) : list N :=
  be4 (N.of_nat (length st)) ++ flat_map be4 st ++ repeat 0 (N.to_nat pad).
Fixpoint take_words (k : nat) (bs : list N) : list N :=
  match k with
  | O => []
  | S k' => match bs with
            | a :: b :: c :: d :: r => (a * 16777216 + b * 65536 + c * 256 + d) :: take_words k' r
            | _ => []
            end
  end.
Definition fsm_unsnap (bs : list N) : list N :=
  match bs with
  | a :: b :: c :: d :: r => take_words (N.to_nat (a * 16777216 + b * 65536 + c * 256 + d)) r
  | _ => []
  end.

(* ---------------- storage writes under a crash budget ---------------- *)
Definition tick_write (n : node) : bool * node :=
  if n_frozen n then (false, n)
  else match n_budget n with
       | None => (true, n)
       | Some k => if k =? 0 then (false, n <| n_frozen := true |>) else (true, n <| n_budget := Some (k - 1) |>)
       end.

(* persistTermAndVote *)
Definition persist (n : node) : node :=
  let (ok, n1) := tick_write n in
  if ok then n1 <| n_pterm := n_term n1 |> <| n_pvote := n_vote n1 |> else n1.

(* Log.AppendEntries: a batch is one fsync but can be torn: one budget unit per entry. *)
Fixpoint append_entries (n : node) (es : list entry) : node :=
  match es with
  | [] => n
  | e :: r => let (ok, n1) := tick_write n in
              if ok then append_entries (n1 <| n_log ::= fun l => l ++ [e] |>) r else n1
  end.

Definition truncate_log (n : node) (i : N) : node :=
  let (ok, n1) := tick_write n in if ok then n1 <| n_log ::= fun l => log_truncate l i |> else n1.
Definition compact_log (n : node) (i : N) : node :=
  let (ok, n1) := tick_write n in if ok then n1 <| n_log ::= fun l => log_compact l i |> else n1.
Definition discard_log (n : node) (i t : N) : node :=
  let (ok, n1) := tick_write n in if ok then n1 <| n_log := log_discard i t |> else n1.
(* SnapshotFile.Close of a writer: the rename that makes the snapshot visible *)
Definition close_snapshot (n : node) (s : snap) : node :=
  let (ok, n1) := tick_write n in if ok then n1 <| n_snaps ::= fun l => l ++ [s] |> else n1.

Definition fail (o : outcome) (n : node) : node :=
  match n_out n with Ok => n <| n_out := o |> | _ => n end.

(* ---------------- futures ---------------- *)
(* respond: buffered channel of 1, non-blocking send: the first result wins *)
Definition respond (n : node) (fid : N) (r : fresult) : node :=
  if n_frozen n then n else
  if existsb (fun p => fst p =? fid) (n_results n) then n else n <| n_results ::= fun l => l ++ [(fid, r)] |>.
Definition respond_all (n : node) (fids : list N) (r : fresult) : node :=
  fold_left (fun m f => respond m f r) fids n.

(* ---------------- small state transitions ---------------- *)
(* newOperationManager: empty tables, shouldVerifyQuorum = true, lease expires now *)
Definition new_opmanager (now : N) (n : node) : node :=
  n <| n_pending := [] |> <| n_ro := [] |> <| n_should_verify := true |> <| n_hb_rounds := 0 |> <| n_lease := now |>.

Definition notify_lost_leadership (n : node) : node :=
  respond_all (respond_all n (map ro_fid (n_ro n)) FNotLeader) (map snd (n_pending n)) FNotLeader.

(* cancelConfigurationChange (fix: D16) *)
Definition cancel_conf_change (n : node) : node :=
  match n_cfg_fid n with
  | Some f => (respond n f FNotLeader) <| n_cfg_fid := None |>
  | None => n
  end.

(* r.followers[id] = &follower{nextIndex: next}: a fresh object; the one it replaces may still be held by a goroutine *)
Definition new_follower (n : node) (id : nid) (next : N) : node :=
  n <| n_orphans ::= fun l => l ++ match lookup id (n_followers n) with Some f => [f] | None => [] end |>
    <| n_followers ::= put id {| f_next := next; f_match := 0; f_snap := None; f_gen := n_fgen n |} |>
    <| n_fgen ::= N.succ |>.

(* resetSnapshotFiles: close readers, discard the writer *)
Definition reset_snapshot_files (n : node) : node :=
  n <| n_followers ::= map (fun p => (fst p, snd p <| f_snap := None |>)) |> <| n_partial := None |>.

(* becomeFollower: the vote is cleared only when the term changes (fix: D2) *)
Definition become_follower (now : N) (n : node) (leader : nid) (term : N) : node :=
  let vote := if term =? n_term n then n_vote n else None in
  let n1 := n <| n_role := Follower |> <| n_term := term |> <| n_leader := Some leader |> <| n_vote := vote |> in
  let n2 := reset_snapshot_files (persist n1) in
  cancel_conf_change (new_opmanager now (notify_lost_leadership n2)).

Definition stepdown (now : N) (n : node) : node :=
  cancel_conf_change (new_opmanager now (notify_lost_leadership (n <| n_role := Follower |>))).

(* nextConfiguration(next); next = None models the nil pointer (panic) *)
Definition next_configuration (now : N) (n : node) (next : option config) : node :=
  match next with
  | None => fail Panic n
  | Some nx =>
      let cur := conf_of n in
      let n1 := if is_member nx (n_id n) then n
                else reset_snapshot_files (if role_eqb (n_role n) Leader then stepdown now n else n) in
      let keep := fun p : nid * fstate => negb (is_member cur (fst p)) || is_member nx (fst p) in
      let n2 := n1 <| n_orphans ::= fun l => l ++ map snd (filter (fun p => negb (keep p)) (n_followers n1)) |>
                   <| n_followers ::= filter keep |> in
      let added := filter (fun id => negb (is_member cur id)) (member_ids nx) in
      (fold_left (fun m id => new_follower m id 0) added n2) <| n_conf := Some nx |>
  end.

(* applyConfiguration(data) *)
Definition apply_configuration (now : N) (n : node) (c : config) : node :=
  match n_cconf n with
  | Some cc => if c_index c <=? c_index cc then n
               else (next_configuration now n (Some c)) <| n_cconf := Some c |>
  | None => (next_configuration now n (Some c)) <| n_cconf := Some c |>
  end.

Definition lease_valid (now : N) (n : node) : bool := now <? n_lease n.
Definition recent_contact (now : N) (n : node) : bool := now - n_contact n <? n_et n.

Definition signal_apply (n : node) : node := n <| n_cv ::= fun c => c <| cv_apply := true |> |>.
Definition signal_commit (n : node) : node := n <| n_cv ::= fun c => c <| cv_commit := true |> |>.
Definition signal_ro (n : node) : node := n <| n_cv ::= fun c => c <| cv_ro := true |> |>.
Definition signal_election (n : node) : node := n <| n_cv ::= fun c => c <| cv_election := true |> |>.
Definition signal_snapshot (n : node) : node := n <| n_cv ::= fun c => c <| cv_snapshot := true |> |>.

(* ---------------- AppendEntries ---------------- *)
(* first index of the conflicting term: scan down from prev-1 while the term matches *)
Fixpoint conflict_scan (fuel : nat) (l : list entry) (lii index t : N) : N :=
  match fuel with
  | O => index
  | S f => if lii <? index
           then match log_get l index with
                | Some e => if e_term e =? t then conflict_scan f l lii (index - 1) t else index
                | None => index
                end
           else index
  end.

(* The loop over request.Entries: returns the node after an optional truncate
   and the suffix to append.  [None] = GetEntry failed (logger.Fatalf). *)
Fixpoint ae_scan (now : N) (n : node) (es : list entry) : option (node * list entry) :=
  match es with
  | [] => Some (n, [])
  | e :: r =>
      if last_index (n_log n) <? e_index e then Some (n, es)
      else match log_get (n_log n) (e_index e) with
           | None => None
           | Some ex =>
               if (e_index ex =? e_index e) && negb (e_term ex =? e_term e) then
                 let n1 := truncate_log n (e_index e) in
                 let n2 := if e_index e <=? c_index (conf_of n1)
                           then next_configuration now n1 (n_cconf n1) else n1 in
                 Some (n2, es)
               else ae_scan now n r
           end
  end.

Definition h_append_entries (now : N) (n : node) (q : ae_req) : node * option ae_resp :=
  if role_eqb (n_role n) Shutdown then (n, None) else
  let reject n' idx := (n', Some {| aer_term := n_term n'; aer_success := false; aer_index := idx |}) in
  if ae_term q <? n_term n then reject n 0 else
  let n1 := n <| n_contact := now |> <| n_leader := Some (ae_leader q) |> in
  let n2 := if n_term n1 <? ae_term q then become_follower now n1 (ae_leader q) (ae_term q) else n1 in
  let n3 := if (ae_term q =? n_term n2) && (role_eqb (n_role n2) Candidate || role_eqb (n_role n2) PreCandidate)
            then become_follower now n2 (ae_leader q) (ae_term q) else n2 in
  let l := n_log n3 in
  if ae_prev_index q <? n_lii n3 then reject n3 (n_lii n3 + 1) else
  if next_index l <=? ae_prev_index q then reject n3 (next_index l) else
  if (n_lii n3 =? ae_prev_index q) && negb (n_lit n3 =? ae_prev_term q) then reject n3 (n_lii n3) else
  let conflict :=
    if n_lii n3 <? ae_prev_index q then
      match log_get l (ae_prev_index q) with
      | None => Some None                                     (* Fatal *)
      | Some pe => if e_term pe =? ae_prev_term q then None
                   else Some (Some (conflict_scan (length l) l (n_lii n3) (ae_prev_index q - 1) (e_term pe) + 1))
      end
    else None in
  match conflict with
  | Some None => (fail Fatal n3, None)
  | Some (Some idx) => reject n3 idx
  | None =>
      match ae_scan now n3 (ae_entries q) with
      | None => (fail Fatal n3, None)
      | Some (n4, to_append) =>
          let n5 := append_entries n4 to_append in
          (* fix: D18 - the commit index follows the leader only up to the last entry of this request *)
          let verified := ae_prev_index q + N.of_nat (length (ae_entries q)) in
          let c := N.min (ae_commit q) verified in
          let n6 := if n_commit n5 <? c then signal_apply (n5 <| n_commit := c |>) else n5 in
          (n6, Some {| aer_term := n_term n6; aer_success := true; aer_index := 0 |})
      end
  end.

(* ---------------- RequestVote ---------------- *)
Definition h_request_vote (now : N) (n : node) (q : rv_req) : node * option rv_resp :=
  if role_eqb (n_role n) Shutdown then (n, None) else
  let deny n' := (n', Some {| rvr_term := n_term n'; rvr_granted := false |}) in
  if lease_valid now n || recent_contact now n then deny n else
  if rv_term q <? n_term n then deny n else
  let n1 := if negb (rv_prevote q) && (n_term n <? rv_term q)
            then become_follower now n (rv_cand q) (rv_term q) else n in
  let voted_other := match n_vote n1 with Some v => negb (v =? rv_cand q) | None => false end in
  if negb (rv_prevote q) && voted_other then deny n1 else
  let l := n_log n1 in
  if (rv_last_term q <? last_term l) || ((rv_last_term q =? last_term l) && (rv_last_index q <? last_index l))
  then deny n1 else
  let n2 := if rv_prevote q then n1
            else persist (n1 <| n_contact := now |> <| n_vote := Some (rv_cand q) |>) in
  (n2, Some {| rvr_term := n_term n1; rvr_granted := true |}).

(* ---------------- InstallSnapshot ---------------- *)
(* Part b for a request whose boundary entry is in the log: after the wait. *)
Definition h_install_compact (n : node) (q : is_req) : node :=
  if role_eqb (n_role n) Shutdown || (is_lii q <? n_lii n) then n
  else compact_log n (is_lii q).

(* Part b otherwise: Restore (unlocked in Go; atomic here), then trim. *)
Definition h_install_restore (now : N) (n : node) (q : is_req) : node :=
  (* snapshotStorage.SnapshotFile(): the newest closed snapshot *)
  match last (map Some (n_snaps n)) None with
  | None => fail Panic n                       (* nil file handed to Restore *)
  | Some s =>
      let n1 := n <| n_fsm := fsm_unsnap (s_data s) |> <| n_applies := [] |> in
      if role_eqb (n_role n1) Shutdown then n1 else
      let n2 := n1 <| n_applied := is_lii q |> <| n_commit := is_lii q |> in
      let n3 := discard_log n2 (is_lii q) (is_lit q) in
      apply_configuration now n3 (is_conf q)
  end.

Definition h_install_snapshot (now : N) (n : node) (q : is_req) : node * option is_resp :=
  if role_eqb (n_role n) Shutdown then (n, None) else
  if is_term q <? n_term n then (n, Some {| isr_term := n_term n; isr_written := 0 |}) else
  let rterm := if n_term n <? is_term q then is_term q else n_term n in
  let n1 := if n_term n <? is_term q then become_follower now n (is_leader q) (is_term q) else n in
  let n2 := if (is_term q =? n_term n1) && (role_eqb (n_role n1) Candidate || role_eqb (n_role n1) PreCandidate)
            then become_follower now n1 (is_leader q) (is_term q) else n1 in
  let n3 := n2 <| n_contact := now |> in
  let reply n' w := (n', Some {| isr_term := rterm; isr_written := w |}) in
  (* fix: D13 - nothing new: the chunk is acknowledged so that the sender can finish the transfer *)
  if (is_lii q <=? n_lii n3) || (is_lii q <=? n_applied n3) then reply n3 (is_offset q + N.of_nat (length (is_bytes q))) else
  (* known finding D10: a chunk of an older snapshot is appended to the partial file of a newer one *)
  let n4 := match n_partial n3 with
            | Some p => if s_index p <? is_lii q then n3 <| n_partial := None |> else n3
            | None => n3
            end in
  let p := match n_partial n4 with
           | Some p => p
           | None => {| s_index := is_lii q; s_term := is_lit q; s_conf := is_conf q; s_data := [] |}
           end in
  let offset := N.of_nat (length (s_data p)) in
  if negb (is_offset q =? offset) then reply (n4 <| n_partial := Some p |>) offset else
  let p' := {| s_index := s_index p; s_term := s_term p; s_conf := s_conf p; s_data := s_data p ++ is_bytes q |} in
  let written := offset + N.of_nat (length (is_bytes q)) in
  if negb (is_done q) then reply (n4 <| n_partial := Some p' |>) written else
  let n5 := (close_snapshot n4 p') <| n_partial := None |> <| n_lii := is_lii q |> <| n_lit := is_lit q |> in
  let boundary := match log_get (n_log n5) (is_lii q) with
                  | Some e => e_term e =? is_lit q
                  | None => false
                  end in
  if boundary then
    (* for r.state != Shutdown && r.lastApplied < LastIncludedIndex { applyCond.Wait() } *)
    if n_applied n5 <? is_lii q then (n5 <| n_iswait ::= fun l => l ++ [q] |>, Some {| isr_term := rterm; isr_written := written |})
    else reply (h_install_compact n5 q) written
  else reply (h_install_restore now n5 q) written.
