(* L2, part 2: elections, replication (sender side), the background loops,
   the client API, start/stop/restore. *)
From RaftV Require Export Node.Handlers.
Open Scope N_scope.

Definition get_follower (n : node) (id : nid) : fstate :=
  match lookup id (n_followers n) with Some f => f | None => fstate0 end.
Definition set_follower (n : node) (id : nid) (f : fstate) : node :=
  n <| n_followers ::= put id f |>.
(* the follower object a goroutine captured before its RPC: r.followers[id] if that is still the same
   object, otherwise the replaced one *)
Definition fobj (n : node) (id : nid) (gen : N) : fstate :=
  let f := get_follower n id in
  if f_gen f =? gen then f else
  match find (fun o => f_gen o =? gen) (n_orphans n) with Some o => o | None => f end.
Definition set_fobj (n : node) (id : nid) (gen : N) (f : fstate) : node :=
  if f_gen (get_follower n id) =? gen then set_follower n id f
  else n <| n_orphans ::= map (fun o => if f_gen o =? gen then f else o) |>.

(* fix: D22 - the node counts itself only if it is a voting member of its configuration *)
Definition self_count (n : node) : N := if is_voter (conf_of n) (n_id n) then 1 else 0.
Definition new_round (n : node) (stamp : N) : node * N :=
  let id := n_next_round n in
  (n <| n_rounds ::= fun l => l ++ [{| r_id := id; r_count := self_count n; r_stamp := stamp; r_term := n_term n |}] |> <| n_next_round := id + 1 |>, id).
Definition round_count (n : node) (id : N) : N :=
  match find (fun r => r_id r =? id) (n_rounds n) with Some r => r_count r | None => 0 end.
Definition round_term (n : node) (id : N) : N :=
  match find (fun r => r_id r =? id) (n_rounds n) with Some r => r_term r | None => 0 end.
Definition round_stamp (n : node) (id : N) : N :=
  match find (fun r => r_id r =? id) (n_rounds n) with Some r => r_stamp r | None => 0 end.
Definition bump_round (n : node) (id : N) : node :=
  n <| n_rounds ::= map (fun r => if r_id r =? id then {| r_id := id; r_count := r_count r + 1; r_stamp := r_stamp r; r_term := r_term r |} else r) |>.

(* tryApplyReadOnlyOperations(round): fix D4 - only reads submitted before the round was started are verified *)
Definition try_apply_ro (now : N) (n : node) (stamp : N) : node :=
  signal_ro (n <| n_ro ::= map (fun o => {| ro_fid := ro_fid o; ro_type := ro_type o; ro_payload := ro_payload o;
                                            ro_read_index := ro_read_index o;
                                            ro_verified := ro_verified o || (ro_round o <? stamp);
                                            ro_round := ro_round o |}) |>
               <| n_should_verify := true |> <| n_lease := now + n_ld n |>).

(* sendAppendEntriesToPeers: the goroutines are recorded as tasks *)
Definition send_ae_to_peers (now : N) (n : node) : node :=
  let c := conf_of n in
  let n0 := n <| n_hb_rounds ::= N.succ |> in
  let stamp := n_hb_rounds n0 in
  let n1 := if is_single c (n_id n)
            then try_apply_ro now (if n_commit n0 <? last_index (n_log n0) then signal_commit n0 else n0) stamp
            else n0 in
  let (n2, rid) := new_round n1 stamp in
  n2 <| n_tasks ::= fun t => t ++ map (fun id => TAe rid id) (filter (fun id => negb (id =? n_id n)) (member_ids c)) |>.

(* becomeLeader *)
Definition become_leader (now : N) (n : node) : node :=
  let n1 := new_opmanager now (n <| n_role := Leader |>) in
  let nx := last_index (n_log n1) + 1 in
  let n2 := n1 <| n_followers ::= map (fun p => (fst p, snd p <| f_next := nx |> <| f_match := 0 |>)) |> in
  let n3 := reset_snapshot_files n2 in
  let n4 := append_entries n3 [{| e_index := next_index (n_log n3); e_term := n_term n3; e_kind := KNoop |}] in
  send_ae_to_peers now n4.

(* sendRequestVoteToPeers *)
Definition send_rv_to_peers (now : N) (n : node) : node :=
  let c := conf_of n in
  if is_single c (n_id n) then
    (* fix: D21 - no votes are needed, but the leadership still gets a term of its own (becomeCandidate) *)
    let n0 := n <| n_role := Candidate |> in
    become_leader now (if role_eqb (n_role n) PreCandidate
                       then persist (n0 <| n_term := N.succ (n_term n0) |> <| n_vote := Some (n_id n0) |>) else n)
  else
  let (n1, rid) := new_round n 0 in
  let prevote := role_eqb (n_role n1) PreCandidate in
  n1 <| n_tasks ::= fun t => t ++ map (fun id => TRv rid id prevote)
                                    (filter (fun id => negb (id =? n_id n) && is_voter c id) (member_ids c)) |>.

(* election(), run by electionLoop after electionCond.Wait *)
Definition l_election (now : N) (n : node) : node :=
  let n := n <| n_cv ::= fun c => c <| cv_election := false |> |> in
  if role_eqb (n_role n) Leader || role_eqb (n_role n) Shutdown || negb (is_voter (conf_of n) (n_id n))
     || recent_contact now n then n else
  let n1 := if role_eqb (n_role n) Follower then n <| n_role := PreCandidate |> else n in
  let n2 := if role_eqb (n_role n1) Candidate
            then persist (n1 <| n_term ::= N.succ |> <| n_vote := Some (n_id n1) |>) else n1 in
  send_rv_to_peers now n2.

(* sendRequestVote up to the RPC: None = returned without sending *)
Definition l_rv_send (n : node) (rid : N) (peer : nid) (prevote : bool) : option rv_req :=
  let c := conf_of n in
  (* fix: D3 - the goroutine gives up if the term changed since its election started *)
  if negb (n_term n =? round_term n rid) then None else
  if negb (is_voter c peer) || negb (is_voter c (n_id n)) then None else
  Some {| rv_cand := n_id n; rv_term := if prevote then n_term n + 1 else n_term n;
          rv_last_index := last_index (n_log n); rv_last_term := last_term (n_log n); rv_prevote := prevote |}.

(* sendRequestVote after the RPC returned a response *)
Definition l_rv_reply (now : N) (n : node) (rid : N) (peer : nid) (prevote : bool) (q : rv_req) (p : rv_resp) : node :=
  if role_eqb (n_role n) Shutdown then n else
  if rv_term q <? n_term n then n else
  let n1 := if rvr_granted p then bump_round n rid else n in
  if rv_term q <? rvr_term p then become_follower now n1 peer (rvr_term p) else
  let quorum := has_quorum (conf_of n1) (round_count n1 rid) in
  let n2 := if quorum && role_eqb (n_role n1) PreCandidate
            then signal_election (n1 <| n_role := Candidate |>) else n1 in
  if negb prevote && quorum && role_eqb (n_role n2) Candidate then become_leader now n2 else n2.

(* ---------------- replication, sender side ---------------- *)
Definition chunk_done (len : N) : bool := len <? snapshot_chunk_size.

(* sendInstallSnapshot up to the RPC.  Returns the node (reader opened, file
   offset advanced to EOF by io.Copy) and the request, or None if nothing is sent. *)
Definition l_is_send (n : node) (peer : nid) : node * option is_req :=
  if negb (role_eqb (n_role n) Leader) then (n, None) else
  if n_lii n =? 0 then (n, None) else
  let f := get_follower n peer in
  match (match f_snap f with
         | Some so => Some so
         | None => match last (map Some (n_snaps n)) None with Some s => Some (s, 0) | None => None end
         end) with
  | None => (fail Panic n, None)
  | Some (s, offset) =>
      (* fix: D14 - one chunk (io.CopyN), not the rest of the file *)
      let rest := firstn (N.to_nat snapshot_chunk_size) (skipn (N.to_nat offset) (s_data s)) in
      let q := {| is_leader := n_id n; is_term := n_term n; is_lii := s_index s; is_lit := s_term s;
                  is_conf := s_conf s; is_offset := offset; is_bytes := rest;
                  is_done := chunk_done (N.of_nat (length rest)) |} in
      (set_follower n peer (f <| f_snap := Some (s, N.min (offset + N.of_nat (length rest)) (N.of_nat (length (s_data s)))) |>), Some q)
  end.

(* sendInstallSnapshot after the RPC; [resp = None] is a transport error *)
Definition l_is_reply (now : N) (n : node) (peer : nid) (gen : N) (q : is_req) (resp : option is_resp) : node :=
  let f := fobj n peer gen in
  match f_snap f, resp with
  | None, _ | _, None => n
  | Some (s, _), Some p =>
      if n_term n <? isr_term p then become_follower now n peer (isr_term p) else
      if negb (isr_written p =? is_offset q) then set_fobj n peer gen (f <| f_snap := Some (s, isr_written p) |>) else
      if negb (is_done q) then n else
      set_fobj n peer gen {| f_next := is_lii q + 1; f_match := is_lii q; f_snap := None; f_gen := gen |}
  end.

Inductive sent := SentNothing | SentAE (q : ae_req) | SentIS (q : is_req).

(* entries from [from] to the end of the log *)
Definition log_from (l : list entry) (lii from : N) : list entry :=
  if (lii <? from) && (from <? next_index l) then skipn (N.to_nat (from - first_index l)) l else [].

(* sendAppendEntries up to the RPC *)
Definition l_ae_send (n : node) (peer : nid) : node * sent :=
  if negb (role_eqb (n_role n) Leader) || negb (is_member (conf_of n) peer) then (n, SentNothing) else
  let f := get_follower n peer in
  if f_next f <=? n_lii n then
    match l_is_send n peer with (n1, Some q) => (n1, SentIS q) | (n1, None) => (n1, SentNothing) end
  else
  let l := n_log n in
  let nx := f_next f in
  let prev := N.max (nx - 1) (n_lii n) in
  let prev_term := if (n_lii n <? prev) && (prev <? next_index l)
                   then match log_get l prev with Some e => e_term e | None => n_lit n end
                   else n_lit n in
  (* make([]*LogEntry, 0, NextIndex()-nextIndex) panics when nextIndex > NextIndex() *)
  if next_index l <? nx then (fail Panic n, SentNothing) else
  (n, SentAE {| ae_leader := n_id n; ae_term := n_term n; ae_commit := n_commit n; ae_prev_index := prev;
                ae_prev_term := prev_term; ae_entries := log_from l (n_lii n) nx |}).

(* sendAppendEntries after the RPC returned a response; may go on to send a snapshot *)
Definition l_ae_reply (now : N) (n : node) (rid : N) (peer : nid) (gen : N) (q : ae_req) (p : ae_resp) : node * option is_req :=
  if negb (is_member (conf_of n) peer) || negb (role_eqb (n_role n) Leader) then (n, None) else
  if n_term n <? aer_term p then (become_follower now n peer (aer_term p), None) else
  (* fix: D1 - a reply to a request of an earlier term is ignored *)
  if negb (ae_term q =? n_term n) then (n, None) else
  (* fix: D5 - only the responses of voting members count towards the confirmation of leadership *)
  let n1 := if is_voter (conf_of n) peer then bump_round n rid else n in
  let n2 := if is_voter (conf_of n) peer && has_quorum (conf_of n1) (round_count n1 rid)
            then try_apply_ro now n1 (round_stamp n1 rid) else n1 in
  let f := fobj n2 peer gen in
  if negb (aer_success p) then
    let n3 := set_fobj n2 peer gen (f <| f_next := aer_index p |>) in
    (* sendInstallSnapshot reads r.followers[id] again *)
    if aer_index p <=? n_lii n3 then l_is_send n3 peer else (n3, None)
  else
  let top := ae_prev_index q + N.of_nat (length (ae_entries q)) in
  if f_match f <? top then
    let n3 := set_fobj n2 peer gen (f <| f_next := N.max (f_next f) (top + 1) |> <| f_match := top |>) in
    ((if n_commit n3 <? top then signal_commit n3 else n3), None)
  else (n2, None).

(* ---------------- loops ---------------- *)
(* committedThisTerm *)
Definition committed_this_term (n : node) : bool :=
  match log_get (n_log n) (n_commit n) with
  | Some e => e_term e =? n_term n
  | None => n_lit n =? n_term n
  end.

Definition count_matches (n : node) (index : N) : N :=
  self_count n + N.of_nat (length (filter (fun p => negb (fst p =? n_id n) && is_voter (conf_of n) (fst p)
                                          && (index <=? f_match (snd p))) (n_followers n))).

Fixpoint commit_scan (n : node) (es : list entry) (commit : N) : N :=
  match es with
  | [] => commit
  | e :: r =>
      let commit' := if (commit <? e_index e) && (e_term e =? n_term n)
                        && has_quorum (conf_of n) (count_matches n (e_index e))
                     then e_index e else commit in
      commit_scan n r commit'
  end.

(* commitLoop body after commitCond.Wait *)
Definition lp_commit (now : N) (n : node) : node :=
  let n := n <| n_cv ::= fun c => c <| cv_commit := false |> |> in
  if negb (role_eqb (n_role n) Leader) then n else
  let c := commit_scan n (log_from (n_log n) (first_index (n_log n)) (n_commit n + 1)) (n_commit n) in
  if n_commit n <? c then send_ae_to_peers now (signal_apply (n <| n_commit := c |>)) else n.

Definition need_snapshot (n : node) : bool :=
  negb (n_snap_every n =? 0) && (log_size (n_log n) mod n_snap_every n =? 0).

(* One iteration of the inner loop of applyLoop (Apply is atomic here). *)
Definition lp_apply_one (now : N) (n : node) : node :=
  match log_get (n_log n) (n_applied n + 1) with
  | None => fail Fatal n
  | Some e =>
      let n1 := match e_kind e with
                | KNoop => n
                | KConf c =>
                    let n' := apply_configuration now n c in
                    match n_cfg_fid n' with
                    | Some f => (respond n' f (FConf (conf_of n'))) <| n_cfg_fid := None |>
                    | None => n'
                    end
                | KOp p =>
                    let fsm' := n_fsm n ++ [p] in
                    let n' := n <| n_fsm := fsm' |> <| n_applies ::= fun l => l ++ [(e_index e, e_term e, p)] |> in
                    match lookup (e_index e) (n_pending n') with
                    | Some fid => respond (n' <| n_pending ::= remove_key (e_index e) |>) fid
                                    (FOp (e_index e) (e_term e) p (N.of_nat (length fsm')))
                    | None => n'
                    end
                end in
      let n2 := n1 <| n_applied ::= N.succ |> in
      if need_snapshot n2 then signal_snapshot n2 else n2
  end.

Fixpoint lp_apply_run (fuel : nat) (now : N) (n : node) : node :=
  match fuel with
  | O => n
  | S f => if (n_applied n <? n_commit n) && negb (role_eqb (n_role n) Shutdown)
              && match n_out n with Ok => true | _ => false end
           then lp_apply_run f now (lp_apply_one now n) else n
  end.

(* applyLoop body after applyCond.Wait *)
Definition lp_apply (now : N) (n : node) : node :=
  let n := n <| n_cv ::= fun c => c <| cv_apply := false |> |> in
  let n1 := lp_apply_run (N.to_nat (n_commit n - n_applied n)) now n in
  if role_eqb (n_role n1) Leader then signal_ro n1 else n1.

(* readOnlyLoop body after readOnlyCond.Wait *)
Definition ro_appliable (n : node) (o : rop) : bool :=
  match ro_type o with
  | OLinearizable => ro_verified o && (ro_read_index o <=? n_applied n)
  | OLease => ro_read_index o <=? n_applied n
  | OReplicated => false
  end.
Definition lp_ro (now : N) (n : node) : node :=
  let n := n <| n_cv ::= fun c => c <| cv_ro := false |> |> in
  if negb (role_eqb (n_role n) Leader) || negb (committed_this_term n) then n else
  let ready := filter (ro_appliable n) (n_ro n) in
  let n1 := n <| n_ro ::= filter (fun o => negb (ro_appliable n o)) |> in
  fold_left (fun m o =>
               match ro_type o with
               | OLease => if lease_valid now m then respond m (ro_fid o) (FRead (ro_payload o) (N.of_nat (length (n_fsm m))))
                           else respond m (ro_fid o) FInvalidLease
               | _ => respond m (ro_fid o) (FRead (ro_payload o) (N.of_nat (length (n_fsm m))))
               end) ready n1.

(* takeSnapshot (Snapshot is atomic here) *)
Definition lp_snapshot (n : node) : node :=
  let n := n <| n_cv ::= fun c => c <| cv_snapshot := false |> |> in
  if role_eqb (n_role n) Shutdown || negb (need_snapshot n) then n else
  if n_applied n <=? n_lii n then n else
  match n_cconf n with
  | None => n
  | Some cc =>
      if n_applied n <? c_index cc then n else
      match log_get (n_log n) (n_applied n) with
      | None => fail Fatal n
      | Some e =>
          let s := {| s_index := e_index e; s_term := e_term e; s_conf := cc; s_data := fsm_snap (n_pad n) (n_fsm n) |} in
          (* fix: D23 - a snapshot superseded while it was being written (a received snapshot was installed in the
             meantime) is discarded, not published; unreachable here, where Snapshot is atomic *)
          if e_index e <=? n_lii n then n else
          let n1 := close_snapshot n s in
          reset_snapshot_files (compact_log (n1 <| n_lii := e_index e |> <| n_lit := e_term e |>) (e_index e))
      end
  end.

(* a parked InstallSnapshot handler resumes (applyCond was signalled and the
   wait condition is false) *)
Definition install_can_resume (n : node) (q : is_req) : bool :=
  role_eqb (n_role n) Shutdown || (is_lii q <=? n_applied n).
Definition lp_install_resume (n : node) : node * option is_req :=
  match n_iswait n with
  | q :: r => if install_can_resume n q then (h_install_compact (n <| n_iswait := r |>) q, Some q) else (n, None)
  | [] => (n, None)
  end.

(* ---------------- client API ---------------- *)
Definition api_submit (now : N) (n : node) (fid : N) (ty : optype) (payload : N) : node :=
  if negb (role_eqb (n_role n) Leader) then respond n fid FNotLeader else
  match ty with
  | OReplicated =>
      let idx := next_index (n_log n) in
      let n1 := append_entries n [{| e_index := idx; e_term := n_term n; e_kind := KOp payload |}] in
      send_ae_to_peers now (n1 <| n_pending ::= put idx fid |>)
  | _ =>
      (* fix: D20 - a leader that has not committed in its term reads at the end of its log *)
      let ridx := if committed_this_term n then n_commit n else last_index (n_log n) in
      let o := {| ro_fid := fid; ro_type := ty; ro_payload := payload; ro_read_index := ridx; ro_verified := false;
                  ro_round := n_hb_rounds n |} in
      let n1 := n <| n_ro ::= fun l => l ++ [o] |> in
      match ty with
      | OLease => if ridx <=? n_applied n then signal_ro n1 else n1
      | _ => if n_should_verify n1 then (send_ae_to_peers now n1) <| n_should_verify := false |> else n1
      end
  end.

Definition pending_conf_change (n : node) : bool :=
  match n_cconf n with
  | None => true
  | Some cc => negb (c_index cc =? c_index (conf_of n))
  end
  (* fix: D7 - a change submitted to this node (RemoveServer does not install its configuration) is pending until applied *)
  || match n_cfg_fid n with Some _ => true | None => false end.

Definition append_configuration (n : node) (c : config) : node * config :=
  let c' := {| c_index := next_index (n_log n); c_members := c_members c |} in
  (append_entries n [{| e_index := c_index c'; e_term := n_term n; e_kind := KConf c' |}], c').

Definition api_add_server (now : N) (n : node) (fid : N) (id : nid) (voter : bool) : node :=
  if negb (role_eqb (n_role n) Leader) then respond n fid FNotLeader else
  if negb (committed_this_term n) then respond n fid FNoCommitThisTerm else
  if pending_conf_change n then respond n fid FPendingConfiguration else
  let c := conf_of n in
  if is_member c id && Bool.eqb (is_voter c id) voter then respond n fid (FConf c) else
  let (n1, c') := append_configuration n {| c_index := 0; c_members := put id voter (c_members c) |} in
  let n2 := new_follower (n1 <| n_conf := Some c' |> <| n_cfg_fid := Some fid |>) id 1 in
  send_ae_to_peers now n2.

Definition api_remove_server (now : N) (n : node) (fid : N) (id : nid) : node :=
  if negb (role_eqb (n_role n) Leader) then respond n fid FNotLeader else
  if negb (committed_this_term n) then respond n fid FNoCommitThisTerm else
  if pending_conf_change n then respond n fid FPendingConfiguration else
  let c := conf_of n in
  if negb (is_member c id) then respond n fid (FConf c) else
  let (n1, _) := append_configuration n {| c_index := 0; c_members := remove_key id (c_members c) |} in
  send_ae_to_peers now (n1 <| n_cfg_fid := Some fid |>).

(* heartbeatLoop body *)
Definition l_heartbeat (now : N) (n : node) : node :=
  if role_eqb (n_role n) Shutdown || role_eqb (n_role n) Follower then n else send_ae_to_peers now n.

(* ---------------- lifecycle ---------------- *)
(* restore(): log replayed, term/vote, newest snapshot into the FSM, configuration scan *)
Fixpoint conf_scan (es : list entry) (conf cconf : option config) : option config * option config :=
  match es with
  | [] => (conf, cconf)
  | e :: r => match e_kind e with
              | KConf c => conf_scan r (Some c) (match conf with Some c0 => Some c0 | None => cconf end)
              | _ => conf_scan r conf cconf
              end
  end.

Definition restore (n : node) : node :=
  let n1 := n <| n_open := true |> <| n_term := n_pterm n |> <| n_vote := n_pvote n |> in
  let n2 := match last (map Some (n_snaps n1)) None with
            | Some s => n1 <| n_lii := s_index s |> <| n_lit := s_term s |> <| n_commit := s_index s |>
                           <| n_applied := s_index s |> <| n_fsm := fsm_unsnap (s_data s) |> <| n_applies := [] |>
                           <| n_conf := Some (s_conf s) |> <| n_cconf := Some (s_conf s) |>
            | None => n1
            end in
  (* fix: D17 - a log that ends before the snapshot or conflicts with it is replaced by it *)
  let n2 := match last (map Some (n_snaps n1)) None with
            | Some s =>
                if (last_index (n_log n2) <? s_index s)
                   || match log_get (n_log n2) (s_index s) with Some e => negb (e_term e =? s_term s) | None => false end
                then n2 <| n_log := log_discard (s_index s) (s_term s) |> else n2
            | None => n2
            end in
  let es := log_from (n_log n2) (first_index (n_log n2)) (n_lii n2 + 1) in
  let (c, cc) := conf_scan es (n_conf n2) (n_cconf n2) in
  n2 <| n_conf := c |> <| n_cconf := cc |>.

(* process death: volatile state is gone, tmp snapshot removed by the constructors *)
Definition crash (n : node) : node :=
  n <| n_role := Shutdown |> <| n_commit := 0 |> <| n_applied := 0 |> <| n_lii := 0 |> <| n_lit := 0 |>
    <| n_conf := None |> <| n_cconf := None |> <| n_leader := None |> <| n_followers := [] |> <| n_orphans := [] |>
    <| n_pending := [] |> <| n_ro := [] |> <| n_should_verify := true |> <| n_cfg_fid := None |> <| n_lease := 0 |> <| n_contact := 0 |>
    <| n_rounds := [] |> <| n_tasks := [] |> <| n_cv := conds0 |> <| n_iswait := [] |> <| n_fsm := [] |>
    <| n_partial := None |> <| n_budget := None |> <| n_frozen := false |> <| n_applies := [] |>
    <| n_term := n_pterm n |> <| n_vote := n_pvote n |>   (* what restore() will read back *)
    <| n_out := Ok |>.   (* whatever the dead process was doing (a frozen goroutine does nothing more) ended with it *)

(* start(restore=false) on a node created by NewRaft (which has run restore()) *)
Definition api_start (now : N) (n : node) : node :=
  if negb (role_eqb (n_role n) Shutdown) then n else
  let c := conf_of n in
  (fold_left (fun m id => new_follower m id 0) (member_ids c) (n <| n_conf := Some c |> <| n_followers := [] |>))
    <| n_contact := now |> <| n_role := Follower |>.

(* NewRaft over the directory after a process death, then Start *)
Definition restart_after_crash (now : N) (n : node) : node :=
  let n1 := new_opmanager now (restore (crash n)) in
  api_start now n1.

(* Bootstrap(configuration): all members voters, entry (1, 1) *)
Definition api_bootstrap (n : node) (members : list nid) : node :=
  match n_conf n with
  | Some _ => n
  | None =>
      if 0 <? last_index (n_log n) then n else
      let c := {| c_index := 1; c_members := fold_left (fun l id => put id true l) members [] |} in
      append_entries (n <| n_conf := Some c |>) [{| e_index := 1; e_term := 1; e_kind := KConf c |}]
  end.
