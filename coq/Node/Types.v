(* L2: data of one node.  Numbers are N (uint64 wrap-around is not modelled);
   node ids are N (the harness names nodes n0, n1, ...); operation payloads are
   N (the harness maps them to bytes); Go maps are association lists. *)
From RaftV Require Export Base.Prelude Gen.Constants.
From RecordUpdate Require Export RecordSet.
Export RecordSetNotations.
Open Scope N_scope.

Definition nid := N.

Inductive role := Leader | Follower | PreCandidate | Candidate | Shutdown.
Definition role_eqb (a b : role) : bool :=
  match a, b with
  | Leader, Leader | Follower, Follower | PreCandidate, PreCandidate
  | Candidate, Candidate | Shutdown, Shutdown => true
  | _, _ => false
  end.

(* Configuration: Members and IsVoter as one list id -> isVoter, plus Index. *)
Record config := { c_index : N; c_members : list (nid * bool) }.
Definition config0 : config := {| c_index := 0; c_members := [] |}.   (* Configuration{} *)

Fixpoint lookup {V} (k : N) (l : list (N * V)) : option V :=
  match l with
  | [] => None
  | (k', v) :: r => if k =? k' then Some v else lookup k r
  end.
Definition is_member (c : config) (id : nid) : bool :=
  match lookup id (c_members c) with Some _ => true | None => false end.
Definition is_voter (c : config) (id : nid) : bool :=
  match lookup id (c_members c) with Some b => b | None => false end.
Definition num_voters (c : config) : N := N.of_nat (length (filter snd (c_members c))).
(* hasQuorum: count > voters / 2 *)
Definition has_quorum (c : config) (count : N) : bool := num_voters c / 2 <? count.
Definition is_single (c : config) (self : nid) : bool :=
  (N.of_nat (length (c_members c)) =? 1) && is_voter c self.
Definition member_ids (c : config) : list nid := map fst (c_members c).

Fixpoint remove_key {V} (k : N) (l : list (N * V)) : list (N * V) :=
  match l with
  | [] => []
  | (k', v) :: r => if k =? k' then remove_key k r else (k', v) :: remove_key k r
  end.
(* sorted insert / replace *)
Fixpoint put {V} (k : N) (v : V) (l : list (N * V)) : list (N * V) :=
  match l with
  | [] => [(k, v)]
  | (k', v') :: r =>
      if k =? k' then (k, v) :: r
      else if k <? k' then (k, v) :: (k', v') :: r
      else (k', v') :: put k v r
  end.

Inductive kind := KNoop | KOp (payload : N) | KConf (c : config).
Record entry := { e_index : N; e_term : N; e_kind : kind }.
Definition entry0 : entry := {| e_index := 0; e_term := 0; e_kind := KNoop |}.

(* A snapshot file: metadata + bytes. *)
Record snap := { s_index : N; s_term : N; s_conf : config; s_data : list N }.

(* ---------- messages ---------- *)
Record ae_req := { ae_leader : nid; ae_term : N; ae_commit : N; ae_prev_index : N; ae_prev_term : N;
                   ae_entries : list entry }.
Record ae_resp := { aer_term : N; aer_success : bool; aer_index : N }.
Record rv_req := { rv_cand : nid; rv_term : N; rv_last_index : N; rv_last_term : N; rv_prevote : bool }.
Record rv_resp := { rvr_term : N; rvr_granted : bool }.
Record is_req := { is_leader : nid; is_term : N; is_lii : N; is_lit : N; is_conf : config;
                   is_offset : N; is_bytes : list N; is_done : bool }.
Record is_resp := { isr_term : N; isr_written : N }.

Inductive request := ReqAE (r : ae_req) | ReqRV (r : rv_req) | ReqIS (r : is_req).
Inductive response := RespAE (r : ae_resp) | RespRV (r : rv_resp) | RespIS (r : is_resp).

(* ---------- client-visible results ---------- *)
Inductive optype := OReplicated | OLinearizable | OLease.
Inductive fresult :=
| FNotLeader | FInvalidLease | FNoCommitThisTerm | FPendingConfiguration
| FOp (index term payload resp : N)        (* replicated: Operation{LogIndex,LogTerm,Bytes}, ApplicationResponse *)
| FRead (payload resp : N)
| FConf (c : config).

(* ---------- leader bookkeeping ---------- *)
(* a *follower object; [f_gen] is its identity: goroutines keep the pointer across an RPC while
   AddServer / nextConfiguration may put a new object into r.followers *)
Record fstate := { f_next : N; f_match : N; f_snap : option (snap * N) (* open snapshot being sent, read offset *); f_gen : N }.
Definition fstate0 : fstate := {| f_next := 0; f_match := 0; f_snap := None; f_gen := 0 |}.

Record rop := { ro_fid : N; ro_type : optype; ro_payload : N; ro_read_index : N; ro_verified : bool;
                ro_round : N (* heartbeat rounds started when the read was submitted *) }.

(* &votesRecieved / &numResponses: one shared counter per call of
   sendRequestVoteToPeers / sendAppendEntriesToPeers. *)
Record round := { r_id : N; r_count : N; r_stamp : N (* operationManager.rounds when the round was started *);
                  r_term : N (* currentTerm when the round was started *) }.

(* goroutines spawned by `go r.send...` that have not yet taken the lock *)
Inductive task :=
| TRv (round : N) (peer : nid) (prevote : bool)
| TAe (round : N) (peer : nid).

(* which condition variables were signalled and not yet served *)
Record conds := { cv_apply : bool; cv_commit : bool; cv_ro : bool; cv_election : bool; cv_snapshot : bool }.
Definition conds0 := {| cv_apply := false; cv_commit := false; cv_ro := false; cv_election := false; cv_snapshot := false |}.

Inductive outcome := Ok | Fatal | Panic.

Record node := {
  n_id : nid;
  n_et : N;                      (* election timeout, in clock ticks *)
  n_ld : N;                      (* lease duration *)
  (* persistent: state.bin, log.bin, snapshots/ *)
  n_pterm : N; n_pvote : option nid;
  (* in memory: currentTerm, votedFor *)
  n_term : N; n_vote : option nid;
  n_log : list entry;            (* head = placeholder, as persistentLog.entries *)
  n_snaps : list snap;           (* closed snapshots, oldest first *)
  n_partial : option snap;       (* r.snapshot: the tmp snapshot being received *)
  n_open : bool;                 (* log open (false after Stop) *)
  (* volatile *)
  n_role : role;
  n_commit : N; n_applied : N; n_lii : N; n_lit : N;
  n_conf : option config; n_cconf : option config;
  n_leader : option nid;
  n_followers : list (nid * fstate);
  n_fgen : N;                      (* identity of the next follower object *)
  n_orphans : list fstate;         (* follower objects no longer in r.followers that a goroutine may still hold *)
  n_pending : list (N * N);      (* pendingReplicated: index -> future id *)
  n_ro : list rop;               (* pendingReadOnly *)
  n_should_verify : bool;
  n_cfg_fid : option N;          (* configurationResponseCh: the pending membership change's future *)
  n_hb_rounds : N;               (* operationManager.rounds *)
  n_lease : N;                   (* lease expiration (absolute) *)
  n_contact : N;                 (* lastContact (absolute) *)
  n_rounds : list round; n_next_round : N;
  n_tasks : list task;
  n_cv : conds;
  n_iswait : list is_req;        (* InstallSnapshot handlers parked in applyCond.Wait *)
  n_fsm : list N;                (* the user state machine: applied payloads *)
  n_snap_every : N;              (* NeedSnapshot: log size multiple of this (0 = never) *)
  n_pad : N;                     (* zero bytes the harness FSM appends to its snapshots *)
  (* crash injection *)
  n_budget : option N;           (* storage writes still allowed; None = unlimited *)
  n_frozen : bool;               (* a write was refused: the goroutine is stuck there *)
  n_out : outcome;
  (* outputs of this node, appended in order *)
  n_results : list (N * fresult);
  n_applies : list (N * N * N)   (* (index, term, payload) handed to the FSM since the last restore *)
}.

#[export] Instance eta_node : Settable _ := settable! Build_node
  <n_id; n_et; n_ld; n_pterm; n_pvote; n_term; n_vote; n_log; n_snaps; n_partial; n_open; n_role; n_commit; n_applied; n_lii; n_lit;
   n_conf; n_cconf; n_leader; n_followers; n_fgen; n_orphans; n_pending; n_ro; n_should_verify; n_cfg_fid; n_hb_rounds; n_lease; n_contact;
   n_rounds; n_next_round; n_tasks; n_cv; n_iswait; n_fsm; n_snap_every; n_pad; n_budget; n_frozen; n_out;
   n_results; n_applies>.
#[export] Instance eta_conds : Settable _ := settable! Build_conds <cv_apply; cv_commit; cv_ro; cv_election; cv_snapshot>.
#[export] Instance eta_fstate : Settable _ := settable! Build_fstate <f_next; f_match; f_snap; f_gen>.

Definition conf_of (n : node) : config := match n_conf n with Some c => c | None => config0 end.
