(* Extraction of the executable model to OCaml.  ExtrOcamlBasic only: bool,
   option, unit, list, prod, sumbool, sumor map to OCaml's; andb/orb/negb/fst/snd
   are inlined.  nat, positive, N, Z stay extracted Coq datatypes (uint64 does
   not fit OCaml's int). No Extract Constant of our own. *)
From Coq Require Import ExtrOcamlBasic.
From RaftV Require Import Codec.Msgs Disk.LogOps Disk.StateFile Cluster.World.
Extraction Language OCaml.
Set Extraction KeepSingleton.
Extraction "model.ml"
  N.add N.mul N.div N.modulo N.eqb N.leb N.ltb N.of_nat N.to_nat
  enc_entry dec_entry enc_state dec_state enc_ae_resp dec_ae_resp enc_rv_resp dec_rv_resp
  enc_is_resp dec_is_resp enc_rv_req dec_rv_req enc_is_req dec_is_req enc_ae_req dec_ae_req
  enc_conf dec_conf send_ae_req recv_ae_req
  replay run_log lstep crash_images recover init_log
  read_state state_rec sstep recover_snap latest
  init_world macro step settle run get_node lease_valid recent_contact
  h_append_entries h_request_vote h_install_snapshot run_handler mk_node crash restart_after_crash fstate0 put.
