(* C01 State machine safety
   Full-strength statement: C01_statement (Cluster/Statements.v). Proved at cluster level for every execution
   without membership changes and without snapshots: C01_state_machine_safety_partial (any two applications of
   an index, on any nodes, in any incarnations, at any two points of the execution, carry the same term and
   bytes; uses excluded middle, axiom `classic`) and C01_apply_order (between two restores the state machine is
   handed operations in strictly increasing index order). With snapshots: decided on every run by the
   lock-step co-simulation together with the monitors run on the implementation's own observations. *)
From RaftV Require Import Cluster.World Cluster.Statements Proofs.RVSpec Proofs.AESpec Proofs.CommitSpec.
From RaftV Require Import Proofs.ConfStatic Proofs.ApplyOrder Proofs.FsmApplies Proofs.LCFinal.
Open Scope N_scope.

(* cluster level, every schedule without membership changes and snapshots: C01_statement restricted to
   snapshot-free executions *)
Theorem C01_state_machine_safety_partial : forall ids boot et ld ls1 ls2,
  static (ls1 ++ ls2) = true -> nosnap (ls1 ++ ls2) = true ->
  let w1 := run (init_world ids boot et ld) ls1 in
  let w2 := run w1 ls2 in
  forall i t p t' p', applied_in w1 i t p -> applied_in w2 i t' p' -> t = t' /\ p = p'.
Proof. exact state_machine_safety_nosnap. Qed.
Print Assumptions C01_state_machine_safety_partial.

(* the state machine of a node is exactly the sequence of payloads it has been handed since its last restore
   (executions without snapshots; read-only operations never write it) *)
Theorem C01_state_machine_is_the_applied_sequence : forall ids boot et ld ls, static ls = true -> nosnap ls = true ->
  forall n, In n (w_nodes (run (init_world ids boot et ld) ls)) ->
    n_fsm n = map (fun x : N * N * N => snd x) (n_applies n).
Proof. exact fsm_is_applied_payloads. Qed.
Print Assumptions C01_state_machine_is_the_applied_sequence.

(* not vacuous: a schedule (3 nodes) in which node 0 is elected in term 1, replicates, commits and applies the
   operation 7 at index 3 (first point: c07_ls1), then node 1 applies it and is elected in term 2 (second point) *)
Definition c07_ls1 : list label :=
  [LTick 4; LElection 0; LElectionRun 0; LTask 0; LTask 0; LDeliver 0; LReply 0; LElectionRun 0; LTask 0; LTask 0;
   LDeliver 1; LReply 1; LDeliver 2; LReply 2; LTask 0; LTask 0; LDeliver 4; LDeliver 5;
   LReply 4; LReply 5; LCommit 0; LApply 0; LSubmit 0 OReplicated 7; LTask 0; LTask 0;
   LDeliver 6; LDeliver 7; LReply 6; LReply 7; LCommit 0; LApply 0; LTask 0; LTask 0].
Definition c07_ls2 : list label :=
  [LDeliver 8; LDeliver 9; LApply 1; LTick 20; LElection 1; LElectionRun 1; LTask 1; LTask 1;
   LDeliver 11; LReply 11; LElectionRun 1; LTask 1; LTask 1; LDeliver 13; LReply 13].
Definition c07_view (w : world) :=
  map (fun n => (n_role n, n_frozen n, n_term n, n_commit n, n_applies n, map (fun e => (e_index e, e_term e)) (n_log n))) (w_nodes w).
Example C01_cluster_not_vacuous :
  static (c07_ls1 ++ c07_ls2) = true /\ nosnap (c07_ls1 ++ c07_ls2) = true /\
  let w1 := run (init_world [0; 1; 2] [0; 1; 2] 4 2) c07_ls1 in
  let w2 := run w1 c07_ls2 in
  c07_view w1 = [(Leader, false, 1, 3, [(3, 1, 7)], [(0, 0); (1, 1); (2, 1); (3, 1)]);
                 (Follower, false, 1, 2, [], [(0, 0); (1, 1); (2, 1); (3, 1)]);
                 (Follower, false, 1, 2, [], [(0, 0); (1, 1); (2, 1); (3, 1)])] /\
  c07_view w2 = [(Leader, false, 1, 3, [(3, 1, 7)], [(0, 0); (1, 1); (2, 1); (3, 1)]);
                 (Leader, false, 2, 3, [(3, 1, 7)], [(0, 0); (1, 1); (2, 1); (3, 1); (4, 2)]);
                 (Follower, false, 2, 3, [], [(0, 0); (1, 1); (2, 1); (3, 1)])].
Proof. split; [reflexivity|]. split; [reflexivity|]. cbn zeta. split; vm_compute; reflexivity. Qed.

(* second sentence of C01: the applications of a node since its last restore are in strictly increasing index
   order, all at or below its applied index *)
Theorem C01_apply_order : forall ids boot et ld ls, static ls = true -> nosnap ls = true ->
  forall n, In n (w_nodes (run (init_world ids boot et ld) ls)) ->
    increasing 0 (n_applies n) /\ (forall i t p, In (i, t, p) (n_applies n) -> i <= n_applied n).
Proof. exact apply_order. Qed.
Print Assumptions C01_apply_order.

(* RequestVote, every voter state x every request *)
Theorem C01_prevote_pure : forall now n q, rv_prevote q = true -> fst (h_request_vote now n q) = n.
Proof. exact rv_prevote_pure. Qed.
Print Assumptions C01_prevote_pure.

Theorem C01_vote_refused_if_voted_other : forall now n q v,
  rv_prevote q = false -> rv_term q = n_term n -> n_vote n = Some v -> v <> rv_cand q ->
  rv_granted (snd (h_request_vote now n q)) = false /\ n_vote (fst (h_request_vote now n q)) = Some v.
Proof. exact rv_already_voted. Qed.
Print Assumptions C01_vote_refused_if_voted_other.

(* becomeFollower (every term change, every step-down) never touches the commit index, the applied index, the
   snapshot boundary, the stored snapshots, the state machine or its apply history *)
Theorem C01_step_down_frame : forall now n l t, vol (become_follower now n l t) = vol n.
Proof. exact vol_become_follower. Qed.
Print Assumptions C01_step_down_frame.

(* One iteration of the apply loop, for every node state: the applied index advances by exactly one; the state machine
   receives exactly the payload of the log entry at that index - nothing for a no-op or configuration entry - and the
   apply history records that entry's own index, term and payload. *)
Theorem C01_apply_one_entry : forall now n e,
  log_get (n_log n) (n_applied n + 1) = Some e ->
  let n' := lp_apply_one now n in
  n_applied n' = n_applied n + 1 /\
  match e_kind e with
  | KOp p => n_fsm n' = n_fsm n ++ [p] /\ n_applies n' = n_applies n ++ [(e_index e, e_term e, p)]
  | _ => n_fsm n' = n_fsm n /\ n_applies n' = n_applies n
  end.
Proof. exact lp_apply_one_spec. Qed.
Print Assumptions C01_apply_one_entry.
