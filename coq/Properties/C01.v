(* C01 State machine safety
   Full-strength statement: C01_statement (Cluster/Statements.v). Proved so far: the theorems below; what is
   not yet proved is decided on every run by the lock-step co-simulation (model = implementation on every
   explored schedule) together with the monitors run on the implementation's own observations. *)
From RaftV Require Import Cluster.Statements Proofs.RVSpec Proofs.AESpec Proofs.CommitSpec.
Open Scope N_scope.

(* RequestVote, every voter state x every request *)
Theorem C01_prevote_pure : forall now n q, rv_prevote q = true -> fst (h_request_vote now n q) = n.
Proof. exact rv_prevote_pure. Qed.
Print Assumptions C01_prevote_pure.

Theorem C01_vote_refused_if_voted_other : forall now n q v,
  rv_prevote q = false -> rv_term q = n_term n -> n_vote n = Some v -> v <> rv_cand q ->
  rv_granted (snd (h_request_vote now n q)) = false /\ n_vote (fst (h_request_vote now n q)) = Some v.
Proof. exact rv_already_voted. Qed.
Print Assumptions C01_vote_refused_if_voted_other.

(* becomeFollower (every term change, every step-down) never touches the commit index, the applied index, the
   snapshot boundary, the stored snapshots, the state machine or its apply history *)
Theorem C01_step_down_frame : forall now n l t, vol (become_follower now n l t) = vol n.
Proof. exact vol_become_follower. Qed.
Print Assumptions C01_step_down_frame.

(* One iteration of the apply loop, for every node state: the applied index advances by exactly one; the state machine
   receives exactly the payload of the log entry at that index - nothing for a no-op or configuration entry - and the
   apply history records that entry's own index, term and payload. *)
Theorem C01_apply_one_entry : forall now n e,
  log_get (n_log n) (n_applied n + 1) = Some e ->
  let n' := lp_apply_one now n in
  n_applied n' = n_applied n + 1 /\
  match e_kind e with
  | KOp p => n_fsm n' = n_fsm n ++ [p] /\ n_applies n' = n_applies n ++ [(e_index e, e_term e, p)]
  | _ => n_fsm n' = n_fsm n /\ n_applies n' = n_applies n
  end.
Proof. exact lp_apply_one_spec. Qed.
Print Assumptions C01_apply_one_entry.
