(* C15 Liveness after faults stop (partial)
   Full-strength statement: C15 (see DESIGN.md section 7) (Cluster/Statements.v). Proved so far: the theorems below; what is
   not yet proved is decided on every run by the lock-step co-simulation (model = implementation on every
   explored schedule) together with the monitors run on the implementation's own observations. *)
From RaftV Require Import Cluster.Statements Proofs.RVSpec Proofs.AESpec Proofs.LiveSpec.
Open Scope N_scope.

(* becomeFollower (every term change, every step-down) never touches the commit index, the applied index, the
   snapshot boundary, the stored snapshots, the state machine or its apply history *)
Theorem C15_step_down_frame : forall now n l t, vol (become_follower now n l t) = vol n.
Proof. exact vol_become_follower. Qed.
Print Assumptions C15_step_down_frame.

(* Progress steps (node level, every state and request).  Log repair: the hint of a rejected AppendEntries request is at
   most the request's previous index, or is the index right after the follower's snapshot boundary. *)
Theorem C15_reject_hint_moves_towards_agreement : forall now n q h,
  ae_hint (snd (h_append_entries now n q)) = Some h ->
  ae_term q < n_term n \/ h <= ae_prev_index q \/ (ae_prev_index q < h /\ h = n_lii n + 1).
Proof. exact ae_reject_hint. Qed.
Print Assumptions C15_reject_hint_moves_towards_agreement.

(* Snapshot transfer: a follower that already covers the offered snapshot acknowledges every chunk (fix D13) ... *)
Theorem C15_covered_snapshot_chunk_is_acknowledged : forall now n q,
  role_eqb (n_role n) Shutdown = false -> n_term n <= is_term q ->
  is_lii q <= n_lii n \/ is_lii q <= n_applied n ->
  exists t, snd (h_install_snapshot now n q) =
            Some {| isr_term := t; isr_written := is_offset q + N.of_nat (length (is_bytes q)) |}.
Proof. exact is_covered_chunk_is_acknowledged. Qed.
Print Assumptions C15_covered_snapshot_chunk_is_acknowledged.

(* ... and the leader whose final chunk is acknowledged finishes the transfer: nextIndex = boundary + 1. *)
Theorem C15_acknowledged_final_chunk_finishes_the_transfer : forall now n peer q p s o,
  f_snap (get_follower n peer) = Some (s, o) ->
  isr_term p <= n_term n -> isr_written p = is_offset q -> is_done q = true ->
  get_follower (l_is_reply now n peer (f_gen (get_follower n peer)) q (Some p)) peer =
  {| f_next := is_lii q + 1; f_match := is_lii q; f_snap := None; f_gen := f_gen (get_follower n peer) |}.
Proof. exact is_acknowledged_final_chunk_finishes. Qed.
Print Assumptions C15_acknowledged_final_chunk_finishes_the_transfer.
