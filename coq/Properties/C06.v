(* C06  Log matching / the AppendEntries handler.
   Proved here, for EVERY follower state and EVERY request (no bound on log length, terms, indices, number of
   entries; the compacted-prefix case included through first_index = lastIncludedIndex):
     - a rejected request leaves log, commit index and snapshot boundary unchanged;
     - the commit index never decreases and never passes the last entry verified by the request (defect D18);
     - an accepted request splits into a part already present (same index and term at the same positions) and a
       rest; with an empty rest the log is untouched, otherwise the log is cut exactly after the present part
       (a no-op cut when the rest extends the log) and the rest appended: it agrees with the request, never
       removes an entry that does not conflict, never touches anything at or before the request's prev index.
   Cluster level: C06_log_matching_partial below proves the Log Matching property between ANY two persistent
   logs of ANY reachable world, for every execution without membership changes and WITHOUT SNAPSHOTS (every
   cluster size, delivery order, loss, duplication, delay, crash at any storage write - torn batches included -
   and restart; no bound on terms, log lengths or steps).  The full statement C06_statement (Cluster/Statements.v)
   also allows snapshots (log compaction, InstallSnapshot, the restore-time reconciliation of fix D17); that
   part is not proved - it needs Leader Completeness (a snapshot never conflicts with a committed prefix) - and
   is decided on every run by the co-simulation and the log-matching monitor over every pair of observed logs.
   C06_committed_entry_never_removed ("never removes a committed entry"), same executions: an entry a running
   node holds at or below its commit index stays in that node's log at every later point, whatever requests it
   accepts, through crashes and restarts (uses excluded middle, axiom `classic`, through leader completeness). *)
From RaftV Require Import Proofs.LogMatching Proofs.LCKeep.
From RaftV Require Import Cluster.World Cluster.Statements Proofs.AESpec.
Open Scope N_scope.

Theorem C06_reject_changes_nothing : forall now n q,
  ae_success (snd (h_append_entries now n q)) = false -> LC n (fst (h_append_entries now n q)).
Proof. exact ae_reject_unchanged. Qed.
Print Assumptions C06_reject_changes_nothing.

Theorem C06_commit_index_bounds : forall now n q,
  let n' := fst (h_append_entries now n q) in
  n_commit n <= n_commit n' /\
  n_commit n' <= N.max (n_commit n) (N.min (ae_commit q) (ae_prev_index q + N.of_nat (length (ae_entries q)))).
Proof. exact ae_commit_bounds. Qed.
Print Assumptions C06_commit_index_bounds.

Theorem C06_accept_changes_log_toward_request : forall now n q,
  unlimited n -> wf_log (n_log n) -> first_index (n_log n) = n_lii n ->
  consecutive (ae_prev_index q + 1) (ae_entries q) ->
  ae_success (snd (h_append_entries now n q)) = true ->
  exists a ta,
    ae_entries q = a ++ ta /\
    (forall k, (k < length a)%nat ->
       exists x, nth_error (n_log n) (N.to_nat (ae_prev_index q + 1 + N.of_nat k - first_index (n_log n))) = Some x /\
                 e_index x = e_index (nth k a entry0) /\ e_term x = e_term (nth k a entry0)) /\
    n_log (fst (h_append_entries now n q)) =
      match ta with
      | [] => n_log n
      | _ => firstn (N.to_nat (ae_prev_index q + 1 + N.of_nat (length a) - first_index (n_log n))) (n_log n) ++ ta
      end.
Proof. exact ae_success_log. Qed.
Print Assumptions C06_accept_changes_log_toward_request.

Theorem C06_prefix_up_to_prev_untouched : forall now n q,
  unlimited n -> wf_log (n_log n) -> first_index (n_log n) = n_lii n ->
  consecutive (ae_prev_index q + 1) (ae_entries q) ->
  ae_success (snd (h_append_entries now n q)) = true ->
  firstn (N.to_nat (ae_prev_index q + 1 - first_index (n_log n))) (n_log (fst (h_append_entries now n q)))
  = firstn (N.to_nat (ae_prev_index q + 1 - first_index (n_log n))) (n_log n).
Proof. exact ae_success_prefix. Qed.
Print Assumptions C06_prefix_up_to_prev_untouched.

(* non-vacuity: a follower with a conflicting tail; the hypotheses hold and the request is accepted *)
Definition ex_node : node :=
  (mk_node 0 4 2) <| n_role := Follower |> <| n_term := 3 |>
    <| n_log := [entry0; {| e_index := 1; e_term := 1; e_kind := KOp 11 |}; {| e_index := 2; e_term := 1; e_kind := KOp 21 |};
                 {| e_index := 3; e_term := 2; e_kind := KOp 32 |}] |>.
Definition ex_req : ae_req :=
  {| ae_leader := 1; ae_term := 3; ae_commit := 3; ae_prev_index := 1; ae_prev_term := 1;
     ae_entries := [{| e_index := 2; e_term := 1; e_kind := KOp 21 |}; {| e_index := 3; e_term := 3; e_kind := KOp 33 |}] |}.
Example C06_nonvacuous :
  unlimited ex_node /\ wf_log (n_log ex_node) /\ first_index (n_log ex_node) = n_lii ex_node /\
  consecutive (ae_prev_index ex_req + 1) (ae_entries ex_req) /\
  ae_success (snd (h_append_entries 100 ex_node ex_req)) = true /\
  map e_term (n_log (fst (h_append_entries 100 ex_node ex_req))) = [0; 1; 1; 3] /\
  n_commit (fst (h_append_entries 100 ex_node ex_req)) = 3.
Proof. repeat split; try discriminate; vm_compute; auto. Qed.

(* C06 at cluster level, every schedule without membership changes and without snapshots: if two logs of a
   reachable world hold an entry with the same index and term, they hold exactly the same entries up to that
   index.  (Proofs/Log*.v: every node log and every AppendEntries request ever sent are pairwise one-step
   matching segments; every entry has a creator, the unique winner of its term (C02), who still holds it as
   long as its persistent term is that term; a leader only appends; a follower's new log reads like its old log
   below the cut and like the request from the cut on, whatever prefix of the batch reached the disk.) *)
Theorem C06_log_matching_partial : forall ids boot et ld ls, static ls = true -> nosnap ls = true ->
  let w := run (init_world ids boot et ld) ls in
  forall a b i t, In a (w_nodes w) -> In b (w_nodes w) ->
    entry_at (n_log a) i t -> entry_at (n_log b) i t ->
    forall e, e_index e <= i -> first_index (n_log a) < e_index e -> first_index (n_log b) < e_index e ->
      (In e (n_log a) <-> In e (n_log b)).
Proof. intros ids boot et ld ls Hs Hn. exact (log_matching_nosnap ids boot et ld ls Hs Hn). Qed.
Print Assumptions C06_log_matching_partial.

(* "never removes a committed entry", cluster level, every execution without membership changes and snapshots:
   an entry (above the bootstrap entry) that a running node holds at or below its commit index at one point of
   the execution is in the log of that node at every later point - whatever AppendEntries requests (stale,
   duplicated, reordered, overlapping, of any leader) it handles in between, and through crashes at any storage
   write and restarts. *)
Theorem C06_committed_entry_never_removed : forall ids boot et ld ls1 ls2,
  static (ls1 ++ ls2) = true -> nosnap (ls1 ++ ls2) = true ->
  let w1 := run (init_world ids boot et ld) ls1 in
  let w2 := run w1 ls2 in
  forall n1 e n2, In n1 (w_nodes w1) -> n_frozen n1 = false -> In e (n_log n1) -> 2 <= e_index e -> e_index e <= n_commit n1 ->
    In n2 (w_nodes w2) -> n_id n2 = n_id n1 -> In e (n_log n2).
Proof. exact committed_entry_stays. Qed.
Print Assumptions C06_committed_entry_never_removed.

(* not vacuous: a schedule after which three logs hold the entry (2, 1) *)
Definition c06_labels : list label :=
  [LTick 4; LElection 0; LElectionRun 0; LTask 0; LTask 0; LDeliver 0; LReply 0; LElectionRun 0; LTask 0; LTask 0;
   LDeliver 1; LReply 1; LDeliver 2; LReply 2; LTask 0; LTask 0; LDeliver 4; LDeliver 5].
Example C06_cluster_not_vacuous :
  static c06_labels = true /\ nosnap c06_labels = true /\
  map (fun n => map (fun e => (e_index e, e_term e)) (n_log n)) (w_nodes (run (init_world [0; 1; 2] [0; 1; 2] 4 2) c06_labels))
  = [[(0, 0); (1, 1); (2, 1)]; [(0, 0); (1, 1); (2, 1)]; [(0, 0); (1, 1); (2, 1)]].
Proof. split; [reflexivity|]. split; [reflexivity|]. vm_compute. reflexivity. Qed.
