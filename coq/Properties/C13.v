(* C13  Term/vote storage and snapshot storage are atomic and always reopenable. *)
From RaftV Require Import Disk.StateFile.
Open Scope N_scope.

Theorem C13_state_atomic :
  forall d old new img, recover_state d = Some old -> state_ok new ->
    In img (set_state_images d new) ->
    recover_state img = Some old \/ recover_state img = Some new.
Proof. exact set_state_atomic. Qed.
Print Assumptions C13_state_atomic.

Theorem C13_state_returns_written : forall d new, state_ok new -> recover_state (set_state d new) = Some new.
Proof. exact set_state_returns. Qed.

Theorem C13_snapshot_store_atomic :
  forall d op img, In img (snap_images d op) ->
    latest (recover_snap img) = latest (recover_snap d) \/
    (exists w tmps, op = SClose /\ sd_tmp d = w :: tmps /\ latest (recover_snap img) = Some w).
Proof. exact snapshot_store_atomic. Qed.
Print Assumptions C13_snapshot_store_atomic.

Theorem C13_unclosed_snapshot_invisible :
  forall d ops, (forall op, In op ops -> op <> SClose) ->
    latest (recover_snap (fold_left sstep ops d)) = latest (recover_snap d).
Proof. exact closed_invisible_until_close. Qed.
Print Assumptions C13_unclosed_snapshot_invisible.
