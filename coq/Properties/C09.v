(* C09 Membership changes
   Full-strength statement: C09 (see DESIGN.md section 7) (Cluster/Statements.v). Proved so far: the theorems below; what is
   not yet proved is decided on every run by the lock-step co-simulation (model = implementation on every
   explored schedule) together with the monitors run on the implementation's own observations. *)
From RaftV Require Import Cluster.Statements Proofs.RVSpec Proofs.AESpec Witness.W_C09_D6 Proofs.MemberSpec.
Open Scope N_scope.

(* becomeFollower (every term change, every step-down) never touches the commit index, the applied index, the
   snapshot boundary, the stored snapshots, the state machine or its apply history *)
Theorem C09_step_down_frame : forall now n l t, vol (become_follower now n l t) = vol n.
Proof. exact vol_become_follower. Qed.
Print Assumptions C09_step_down_frame.

(* The state-machine-safety part of C09 at full strength (Statements.C09_statement: every schedule, membership
   requests included) is FALSE of the faithful model, and of the code: open finding D6.  The witness schedule is
   replayed on the real nodes on every run (corpus/D6_two_disjoint_quorums.script). *)
Theorem C09_state_machine_safety_refuted : ~ C09_statement.
Proof. exact C09_refuted_by_D6. Qed.
Print Assumptions C09_state_machine_safety_refuted.

(* Membership requests, node level, every state: AddServer / RemoveServer change neither the log nor the configuration
   unless the node is a leader that has committed an entry of its term and has no membership change pending ... *)
Theorem C09_add_server_is_guarded : forall now n fid id v,
  n_role n <> Leader \/ committed_this_term n = false \/ pending_conf_change n = true ->
  let n' := api_add_server now n fid id v in
  n_log n' = n_log n /\ n_conf n' = n_conf n /\ exists r, refused r /\ n' = respond n fid r.
Proof. exact add_server_guard. Qed.
Print Assumptions C09_add_server_is_guarded.

Theorem C09_remove_server_is_guarded : forall now n fid id,
  n_role n <> Leader \/ committed_this_term n = false \/ pending_conf_change n = true ->
  let n' := api_remove_server now n fid id in
  n_log n' = n_log n /\ n_conf n' = n_conf n /\ exists r, refused r /\ n' = respond n fid r.
Proof. exact remove_server_guard. Qed.
Print Assumptions C09_remove_server_is_guarded.

(* ... and an accepted removal is itself pending (fix D7): no second change is computed from the stale configuration. *)
Theorem C09_accepted_removal_is_pending : forall now n fid id,
  n_role n = Leader -> committed_this_term n = true -> pending_conf_change n = false ->
  is_member (conf_of n) id = true ->
  pending_conf_change (api_remove_server now n fid id) = true.
Proof. exact accepted_removal_is_pending. Qed.
Print Assumptions C09_accepted_removal_is_pending.
