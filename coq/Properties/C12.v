(* C12  The file-backed log recovers from a crash at any point. *)
From RaftV Require Import Disk.LogFile Disk.LogOps.
Open Scope N_scope.

(* Any byte prefix [k] of an in-flight batch after the completed entries [es]:
   Replay yields [es] followed by exactly the batch records that are wholly on
   disk - a prefix of the batch (C12_recovered_is_prefix), all of it when every
   byte arrived (C12_complete_write) - and the valid length is the end of the
   last of them, which is where the reopened log truncates and continues. *)
Theorem C12_replay_crashed_append :
  forall es batch k, Forall rec_ok es -> Forall rec_ok batch -> (k <= length (file_of batch))%nat ->
    replay (file_of es ++ firstn k (file_of batch))
    = ROk (es ++ whole batch k) (blen (file_of (es ++ whole batch k))).
Proof. exact replay_crashed_append. Qed.
Print Assumptions C12_replay_crashed_append.

Theorem C12_recovered_is_prefix : forall batch k, exists rest, batch = whole batch k ++ rest.
Proof. exact whole_prefix. Qed.

Theorem C12_complete_write : forall batch, whole batch (length (file_of batch)) = batch.
Proof. exact whole_all. Qed.

(* Reopening (tmp cleanup, Replay, truncation of the torn tail) re-establishes
   "file = records of the entries", so the statement iterates. *)
Theorem C12_recover_reestablishes_invariant :
  forall es batch k tmp, es <> [] -> Forall rec_ok es -> Forall rec_ok batch ->
    (k <= length (file_of batch))%nat ->
    recover {| d_file := file_of es ++ firstn k (file_of batch); d_tmp := tmp |}
    = Some ({| d_file := file_of (es ++ whole batch k); d_tmp := None |}, es ++ whole batch k).
Proof. exact recover_after_append_crash. Qed.
Print Assumptions C12_recover_reestablishes_invariant.

Theorem C12_clean_reopen : forall es, Forall rec_ok es -> replay (file_of es) = ROk es (blen (file_of es)).
Proof. exact replay_file_of. Qed.
