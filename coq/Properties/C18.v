(* C18  Public API is total.
   Proved: (a) every State and OperationType constant has a returning case in its String() method - the
   case lists are regenerated from the source's switch statements on every run, so deleting a case breaks
   this file; (b) a future is answered at most once and the first answer is kept - node level for every state, and at
   cluster level for every execution without membership changes and snapshots (C18_answers_once_cluster,
   C18_answers_never_retracted: crashes, restarts and storage-failure freezes included).
   Not provable in this model: absence of runtime panics, process exit and hangs of the real goroutines;
   these are observed by harness/cmd/apidiff (bounded API programs, child process + watchdog). *)
From RaftV Require Import Gen.Constants Node.Leader Proofs.Futures.
From RaftV Require Import Cluster.World Cluster.Statements Proofs.ConfStatic Proofs.LogDefs Proofs.LogMatching Proofs.AnswerHistory.
Open Scope N_scope.

Theorem C18_state_string_total :
  forallb (fun s => existsb (N.eqb s) state_string_cases)
          [st_leader; st_follower; st_precandidate; st_candidate; st_shutdown] = true.
Proof. reflexivity. Qed.

Theorem C18_optype_string_total :
  forallb (fun s => existsb (N.eqb s) optype_string_cases)
          [ot_replicated; ot_linearizablereadonly; ot_leasebasedreadonly] = true.
Proof. reflexivity. Qed.

Theorem C18_future_answered_at_most_once : forall n f r,
  NoDup (map fst (n_results n)) -> NoDup (map fst (n_results (respond n f r))).
Proof. exact respond_nodup. Qed.
Print Assumptions C18_future_answered_at_most_once.

Theorem C18_first_answer_wins : forall n f r r0,
  In (f, r0) (n_results n) -> n_results (respond n f r) = n_results n.
Proof. exact respond_keeps_first. Qed.
Print Assumptions C18_first_answer_wins.

(* cluster level, every execution without membership changes and snapshots: in the answer history of every node each
   future id occurs at most once ... *)
Theorem C18_answers_once_cluster : forall ids boot et ld ls, static ls = true -> nosnap ls = true ->
  forall n, In n (w_nodes (run (init_world ids boot et ld) ls)) -> NoDup (map fst (n_results n)).
Proof. exact answers_once. Qed.
Print Assumptions C18_answers_once_cluster.

(* ... and one step only ever appends to it: an answer given is never changed or retracted (crash and restart keep it) *)
Theorem C18_answers_never_retracted : forall C w l, NoDup (member_ids C) -> static_label l = true -> nosnap_label l = true -> ALL C w ->
  forall n', In n' (w_nodes (step w l)) -> exists n, In n (w_nodes w) /\ n_id n' = n_id n /\
    (exists more, n_results n' = n_results n ++ more) /\ (NoDup (map fst (n_results n)) -> NoDup (map fst (n_results n'))).
Proof. exact step_answers. Qed.
Print Assumptions C18_answers_never_retracted.
