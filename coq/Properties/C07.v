(* C07 Leader completeness
   Full-strength statement: C07_statement (Cluster/Statements.v; "later leader" = leader of a term above the
   term in which the entry was known committed).  Proved at cluster level, for every execution without
   membership changes and without snapshots: C07_leader_completeness (= C07_statement: the first half, a leader
   of a later term holds every entry that was known committed), C07_acknowledged_entries_in_later_leaders (the
   core: an entry acknowledged by a majority in its own term is in the log of every leader of a later term) and
   C07_leader_never_overwrites (the second half).  These three use excluded middle (Coq.Logic.Classical,
   axiom `classic`).  With snapshots the statement is not proved and is decided on every run by the lock-step
   co-simulation together with the monitor run at the first observation of every new leader. *)
From RaftV Require Import Cluster.World Cluster.Statements Proofs.RVSpec Proofs.AESpec Proofs.ElectSpec Proofs.CommitSpec Proofs.ReplySpec Proofs.LeaderLog.
From RaftV Require Import Proofs.ConfStatic Proofs.LCCore Proofs.LCReach Proofs.LCFinal Proofs.LCStatement.
Open Scope N_scope.

(* C07 first half, cluster level, every schedule without membership changes and snapshots (any number of nodes,
   delivery order, loss, duplication, delay, crash at any storage write, restart; no bound on terms, log
   lengths or steps): an entry that some node holds at or below its commit index while in a term <= T is in the
   log of every node that is leader of a term > T at any later point of the execution. *)
Theorem C07_leader_completeness : C07_statement.
Proof. exact leader_completeness. Qed.
Print Assumptions C07_leader_completeness.

(* the core of the argument: an entry acknowledged (AppendEntries success responses of its own term, or being
   the winner of that term) by a majority of the voters is in the log of every leader of a later term *)
Theorem C07_acknowledged_entries_in_later_leaders : forall ids boot et ld ls ej L,
  static ls = true -> nosnap ls = true ->
  let w := run (init_world ids boot et ld) ls in
  is_entry w ej -> committed (bootconf boot) (w_calls w) ej ->
  In L (w_nodes w) -> n_role L = Leader -> e_term ej < n_term L -> In ej (n_log L).
Proof. exact committed_in_later_leaders. Qed.
Print Assumptions C07_acknowledged_entries_in_later_leaders.

(* not vacuous: a schedule (3 nodes) in which node 0 is elected in term 1, replicates, commits and applies the
   operation 7 at index 3 (first point: c07_ls1), then node 1 applies it and is elected in term 2 (second point) *)
Definition c07_ls1 : list label :=
  [LTick 4; LElection 0; LElectionRun 0; LTask 0; LTask 0; LDeliver 0; LReply 0; LElectionRun 0; LTask 0; LTask 0;
   LDeliver 1; LReply 1; LDeliver 2; LReply 2; LTask 0; LTask 0; LDeliver 4; LDeliver 5;
   LReply 4; LReply 5; LCommit 0; LApply 0; LSubmit 0 OReplicated 7; LTask 0; LTask 0;
   LDeliver 6; LDeliver 7; LReply 6; LReply 7; LCommit 0; LApply 0; LTask 0; LTask 0].
Definition c07_ls2 : list label :=
  [LDeliver 8; LDeliver 9; LApply 1; LTick 20; LElection 1; LElectionRun 1; LTask 1; LTask 1;
   LDeliver 11; LReply 11; LElectionRun 1; LTask 1; LTask 1; LDeliver 13; LReply 13].
Definition c07_view (w : world) :=
  map (fun n => (n_role n, n_frozen n, n_term n, n_commit n, n_applies n, map (fun e => (e_index e, e_term e)) (n_log n))) (w_nodes w).
Example C07_cluster_not_vacuous :
  static (c07_ls1 ++ c07_ls2) = true /\ nosnap (c07_ls1 ++ c07_ls2) = true /\
  let w1 := run (init_world [0; 1; 2] [0; 1; 2] 4 2) c07_ls1 in
  let w2 := run w1 c07_ls2 in
  c07_view w1 = [(Leader, false, 1, 3, [(3, 1, 7)], [(0, 0); (1, 1); (2, 1); (3, 1)]);
                 (Follower, false, 1, 2, [], [(0, 0); (1, 1); (2, 1); (3, 1)]);
                 (Follower, false, 1, 2, [], [(0, 0); (1, 1); (2, 1); (3, 1)])] /\
  c07_view w2 = [(Leader, false, 1, 3, [(3, 1, 7)], [(0, 0); (1, 1); (2, 1); (3, 1)]);
                 (Leader, false, 2, 3, [(3, 1, 7)], [(0, 0); (1, 1); (2, 1); (3, 1); (4, 2)]);
                 (Follower, false, 2, 3, [], [(0, 0); (1, 1); (2, 1); (3, 1)])].
Proof. split; [reflexivity|]. split; [reflexivity|]. cbn zeta. split; vm_compute; reflexivity. Qed.

(* C07 "...and never overwrites it", cluster level, every schedule without membership changes and snapshots:
   between any two points of an execution, the log of a node that leads at the first point has only been
   extended at the second point if its persistent term is still the term it led (crashes at any storage write,
   restarts, any AppendEntries request it receives in between included). *)
Theorem C07_leader_never_overwrites : forall ids boot et ld ls1 ls2,
  static (ls1 ++ ls2) = true -> nosnap (ls1 ++ ls2) = true ->
  let w1 := run (init_world ids boot et ld) ls1 in
  let w2 := run w1 ls2 in
  forall n n', In n (w_nodes w1) -> n_role n = Leader -> n_frozen n = false ->
    In n' (w_nodes w2) -> n_id n' = n_id n -> n_pterm n' = n_term n ->
    exists es, n_log n' = n_log n ++ es.
Proof. exact leader_never_overwrites. Qed.
Print Assumptions C07_leader_never_overwrites.

(* RequestVote, every voter state x every request *)
Theorem C07_prevote_pure : forall now n q, rv_prevote q = true -> fst (h_request_vote now n q) = n.
Proof. exact rv_prevote_pure. Qed.
Print Assumptions C07_prevote_pure.

Theorem C07_vote_refused_if_voted_other : forall now n q v,
  rv_prevote q = false -> rv_term q = n_term n -> n_vote n = Some v -> v <> rv_cand q ->
  rv_granted (snd (h_request_vote now n q)) = false /\ n_vote (fst (h_request_vote now n q)) = Some v.
Proof. exact rv_already_voted. Qed.
Print Assumptions C07_vote_refused_if_voted_other.

(* becomeFollower (every term change, every step-down) never touches the commit index, the applied index, the
   snapshot boundary, the stored snapshots, the state machine or its apply history *)
Theorem C07_step_down_frame : forall now n l t, vol (become_follower now n l t) = vol n.
Proof. exact vol_become_follower. Qed.
Print Assumptions C07_step_down_frame.

(* How a node becomes leader, for every node state and every vote reply: only by processing the reply to a REAL vote
   request (of a term not older than its own) while it is a (pre)candidate and the votes counted for that election -
   its own and the granted replies, this one included - are a majority of the voters of its configuration ... *)
Theorem C07_leader_only_with_counted_majority : forall now n rid peer pv q p,
  n_role n <> Leader -> n_role (l_rv_reply now n rid peer pv q p) = Leader ->
  pv = false /\ n_term n <= rv_term q /\
  let n1 := if rvr_granted p then bump_round n rid else n in
  has_quorum (conf_of n1) (round_count n1 rid) = true /\
  (n_role n = Candidate \/ n_role n = PreCandidate).
Proof. exact rv_reply_becomes_leader. Qed.
Print Assumptions C07_leader_only_with_counted_majority.

(* ... or, in election(), as the only voter of its configuration, and then in a term of its own (fix D21). *)
Theorem C07_single_voter_election_takes_a_new_term : forall now n,
  n_role n <> Leader -> n_role (l_election now n) = Leader ->
  is_single (conf_of n) (n_id n) = true /\ n_term (l_election now n) = n_term n + 1.
Proof. exact election_becomes_leader. Qed.
Print Assumptions C07_single_voter_election_takes_a_new_term.

(* commitLoop, for every node state: the commit index only moves forward, only on a leader, and only to an entry of
   the leader's own term whose index a majority of the voters of its configuration have acknowledged (matchIndex),
   the leader counting itself only if it is a voter (fix D22). *)
Theorem C07_commit_needs_voter_majority : forall now n,
  let n' := lp_commit now n in
  n_commit n <= n_commit n' /\
  (n_commit n < n_commit n' ->
   n_role n = Leader /\
   exists e, In e (n_log n) /\ e_index e = n_commit n' /\ e_term e = n_term n /\
             has_quorum (conf_of n) (count_matches n (e_index e)) = true).
Proof. exact lp_commit_spec. Qed.
Print Assumptions C07_commit_needs_voter_majority.

(* sendAppendEntries after the RPC, for every leader state and every reply: the matchIndex of a follower changes only
   through a SUCCESS reply of that follower to a request sent in the CURRENT term (fix D1), and becomes prev + len. *)
Theorem C07_match_index_only_by_current_term_success : forall now n rid peer g q r p,
  let n' := fst (l_ae_reply now n rid peer g q r) in
  fm n' p <> fm n p ->
  p = peer /\ aer_success r = true /\ ae_term q = n_term n /\ n_role n = Leader /\ aer_term r <= n_term n /\
  fm n' p = ae_prev_index q + N.of_nat (length (ae_entries q)).
Proof. exact ae_reply_match. Qed.
Print Assumptions C07_match_index_only_by_current_term_success.
