(* C17 Lease-based reads
   Full-strength statement: C17 (see DESIGN.md section 7) (Cluster/Statements.v). Proved so far: the theorems below; what is
   not yet proved is decided on every run by the lock-step co-simulation (model = implementation on every
   explored schedule) together with the monitors run on the implementation's own observations. *)
From RaftV Require Import Cluster.Statements Proofs.RVSpec Proofs.AESpec Proofs.ReadSpec Proofs.LeaseSpec.
From RaftV Require Import Proofs.ContactSpec.
Open Scope N_scope.

(* becomeFollower (every term change, every step-down) never touches the commit index, the applied index, the
   snapshot boundary, the stored snapshots, the state machine or its apply history *)
Theorem C17_step_down_frame : forall now n l t, vol (become_follower now n l t) = vol n.
Proof. exact vol_become_follower. Qed.
Print Assumptions C17_step_down_frame.

(* readOnlyLoop, for every node state: a result it produces answers a pending read-only operation of a LEADER that has
   committed an entry of its term; the operation's read index has been applied; a linearizable read has been
   verified by a heartbeat round started after it was submitted (try_apply_ro, fix D4); the value is the state
   machine's current state; a lease-based read gets a value only while the lease is valid, otherwise ErrInvalidLease. *)
Theorem C17_read_only_loop_spec : forall now n x,
  In x (n_results (lp_ro now n)) ->
  In x (n_results n) \/
  exists o, In o (n_ro n) /\ fst x = ro_fid o /\
    n_role n = Leader /\ committed_this_term n = true /\ ro_read_index o <= n_applied n /\
    (ro_type o = OLinearizable -> ro_verified o = true) /\
    (snd x = FRead (ro_payload o) (N.of_nat (length (n_fsm n))) /\ (ro_type o = OLease -> now < n_lease n)
     \/ snd x = FInvalidLease /\ ro_type o = OLease /\ n_lease n <= now).
Proof. exact lp_ro_spec. Qed.
Print Assumptions C17_read_only_loop_spec.

(* The lease (and the verification of pending linearizable reads, which happens in the same call) is extended only when
   the reply of a VOTING member to a request of the CURRENT term completes the majority of its heartbeat round - or
   the node steps down (fixes D1, D5, D22). *)
Theorem C17_lease_extended_only_by_a_voter_majority_of_the_current_term : forall now n rid peer g q r,
  let n' := fst (l_ae_reply now n rid peer g q r) in
  n_lease n' <> n_lease n ->
  n_term n < aer_term r \/
  (is_voter (conf_of n) peer = true /\ ae_term q = n_term n /\ n_role n = Leader /\
   has_quorum (conf_of n) (round_count (bump_round n rid) rid) = true /\ n_lease n' = now + n_ld n).
Proof. exact ae_reply_lease. Qed.
Print Assumptions C17_lease_extended_only_by_a_voter_majority_of_the_current_term.

(* The voter's side of the lease argument (node level, every state and request): a leader renews its lease with ANY
   same-term response of a voter, success or not; correspondingly the voter records the leader contact for EVERY
   AppendEntries request of its own or a newer term - accepted, or rejected because its log does not match - so that for a
   whole election timeout after answering it refuses every vote request (C16_sticky_voter_refuses_and_does_not_change).
   (Seeded change C17-A6 moves the refresh to the success path only: the model then differs from the code.) *)
Theorem C17_every_current_term_append_entries_records_contact : forall now n q,
  role_eqb (n_role n) Shutdown = false -> (ae_term q <? n_term n) = false ->
  let n' := fst (h_append_entries now n q) in n_contact n' = now /\ n_et n' = n_et n /\ n_id n' = n_id n.
Proof. exact ae_records_contact. Qed.
Print Assumptions C17_every_current_term_append_entries_records_contact.

Theorem C17_voter_within_election_timeout_of_an_append_entries_has_recent_contact : forall now n q later,
  role_eqb (n_role n) Shutdown = false -> (ae_term q <? n_term n) = false ->
  now <= later -> later < now + n_et n ->
  recent_contact later (fst (h_append_entries now n q)) = true.
Proof. exact ae_makes_recent_contact. Qed.
Print Assumptions C17_voter_within_election_timeout_of_an_append_entries_has_recent_contact.
