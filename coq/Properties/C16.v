(* C16 Prevote / stickiness
   Full-strength statement: C16 (see DESIGN.md section 7) (Cluster/Statements.v). Proved so far: the theorems below; what is
   not yet proved is decided on every run by the lock-step co-simulation (model = implementation on every
   explored schedule) together with the monitors run on the implementation's own observations. *)
From RaftV Require Import Cluster.World Cluster.Statements Proofs.RVSpec Proofs.AESpec Proofs.ReadSpec Proofs.StickyWorld Proofs.ContactSpec Proofs.StickyTime.
Open Scope N_scope.

(* RequestVote, every voter state x every request *)
Theorem C16_prevote_pure : forall now n q, rv_prevote q = true -> fst (h_request_vote now n q) = n.
Proof. exact rv_prevote_pure. Qed.
Print Assumptions C16_prevote_pure.

Theorem C16_vote_refused_if_voted_other : forall now n q v,
  rv_prevote q = false -> rv_term q = n_term n -> n_vote n = Some v -> v <> rv_cand q ->
  rv_granted (snd (h_request_vote now n q)) = false /\ n_vote (fst (h_request_vote now n q)) = Some v.
Proof. exact rv_already_voted. Qed.
Print Assumptions C16_vote_refused_if_voted_other.

(* Stickiness, for every node state and every request: a node that has heard from a leader within the election
   timeout, or a leader whose lease is valid, refuses every vote request - prevote or real, of any term - and does
   not change in any way: an isolated or removed server cannot make it adopt a term or step down. *)
Theorem C16_sticky_voter_refuses_and_does_not_change : forall now n q,
  role_eqb (n_role n) Shutdown = false -> lease_valid now n || recent_contact now n = true ->
  h_request_vote now n q = (n, Some {| rvr_term := n_term n; rvr_granted := false |}).
Proof. exact rv_sticky. Qed.
Print Assumptions C16_sticky_voter_refuses_and_does_not_change.

(* Prevote: the election timer of a follower (not alone in its configuration) does not touch the term or the vote,
   in memory or on disk: an isolated node does not inflate its term. *)
Theorem C16_election_timeout_starts_a_prevote : forall now n,
  n_role n = Follower -> is_single (conf_of n) (n_id n) = false ->
  let n' := l_election now n in
  n_term n' = n_term n /\ n_vote n' = n_vote n /\ n_pterm n' = n_pterm n /\ n_pvote n' = n_pvote n /\
  (n_role n' = Follower \/ n_role n' = PreCandidate).
Proof. exact election_prevote_keeps_term. Qed.
Print Assumptions C16_election_timeout_starts_a_prevote.

(* and a prevote request changes nothing in the voter *)
Theorem C16_prevote_request_changes_nothing : forall now n q, rv_prevote q = true -> fst (h_request_vote now n q) = n.
Proof. exact rv_prevote_pure. Qed.
Print Assumptions C16_prevote_request_changes_nothing.

(* Cluster level, one step of ANY world (reachable or not), any request: a vote request - prevote or real, of any term,
   from any candidate (isolated for any duration, removed, restarted, campaigning repeatedly) - delivered, or delivered
   again by the network, to a node that has heard from a leader within an election timeout (or holds a valid lease)
   changes NO node of the cluster: not the destination's term, role or vote, in memory or on disk, and nobody else. *)
Theorem C16_vote_request_to_a_sticky_node_changes_no_node : forall w cid c n q,
  get_call w cid = Some c -> get_node w (c_dst c) = Some n -> sticky w n -> c_req c = ReqRV q ->
  forall id, get_node (step w (LDeliver cid)) id = get_node w id /\ get_node (step w (LDup cid)) id = get_node w id.
Proof. exact sticky_step_changes_no_node. Qed.
Print Assumptions C16_vote_request_to_a_sticky_node_changes_no_node.

(* ... and what the candidate is answered: refused, with the voter's own unchanged term *)
Theorem C16_sticky_node_refuses : forall w cid c n q,
  get_call w cid = Some c -> c_state c = CPending -> get_node w (c_dst c) = Some n -> sticky w n -> c_req c = ReqRV q ->
  step w (LDeliver cid) =
    set_call (set_node w n)
      (c <| c_resp := Some (RespRV {| rvr_term := n_term n; rvr_granted := false |}) |> <| c_state := CAnswered |>).
Proof. exact sticky_step_refuses. Qed.
Print Assumptions C16_sticky_node_refuses.

(* any number of vote requests delivered to sticky nodes, in any order, duplicates included: no node changes - in
   particular no term of the healthy majority increases and its leader does not step down.  (What is NOT proved: that
   a leader in prompt contact with a majority keeps that majority sticky as time passes - the timing half of C16.) *)
Theorem C16_campaigning_against_sticky_nodes_changes_no_node : forall ls w, sticky_labels w ls ->
  forall id, get_node (run w ls) id = get_node w id.
Proof. exact sticky_run_changes_no_node. Qed.
Print Assumptions C16_campaigning_against_sticky_nodes_changes_no_node.

(* not vacuous: a reachable world of three nodes in which node 0 leads term 1, node 1 has just received its heartbeat,
   node 2 (which has not) campaigns, and its vote request to node 1 is in flight (call 7) *)
Definition c16_labels : list label :=
  [LTick 4; LElection 0; LElectionRun 0; LTask 0; LTask 0; LDeliver 0; LReply 0; LElectionRun 0; LTask 0; LTask 0;
   LDeliver 1; LReply 1; LDeliver 2; LReply 2; LTask 0; LTask 0; LDeliver 4; LElection 2; LElectionRun 2; LTask 2; LTask 2].
Example C16_not_vacuous :
  let w := run (init_world [0; 1; 2] [0; 1; 2] 4 2) c16_labels in
  exists c n q, get_call w 7 = Some c /\ c_state c = CPending /\ c_src c = 2 /\ get_node w (c_dst c) = Some n /\
                n_id n = 1 /\ sticky w n /\ c_req c = ReqRV q.
Proof.
  cbn zeta.
  set (w := run (init_world [0; 1; 2] [0; 1; 2] 4 2) c16_labels).
  destruct (get_call w 7) as [c|] eqn:Ec; [|exfalso; revert Ec; vm_compute; discriminate].
  destruct (get_node w (c_dst c)) as [n|] eqn:En.
  2:{ exfalso. revert Ec En. vm_compute. intros Ec. injection Ec as <-. vm_compute. discriminate. }
  assert (Hall : match get_call w 7 with
                 | Some c => match get_node w (c_dst c) with
                             | Some n => match c_state c, c_req c with
                                         | CPending, ReqRV _ => (c_src c =? 2) && (n_id n =? 1) && negb (n_frozen n) &&
                                              negb (role_eqb (n_role n) Shutdown) &&
                                              (lease_valid (w_now w) n || recent_contact (w_now w) n)
                                         | _, _ => false end
                             | None => false end
                 | None => false end = true) by (vm_compute; reflexivity).
  rewrite Ec, En in Hall. clearbody w.
  destruct (c_state c) eqn:Es; try discriminate. destruct (c_req c) as [qa|q|qi] eqn:Er; try discriminate.
  apply andb_prop in Hall. destruct Hall as [Hall H5]. apply andb_prop in Hall. destruct Hall as [Hall H4].
  apply andb_prop in Hall. destruct Hall as [Hall H3]. apply andb_prop in Hall. destruct Hall as [H1 H2].
  exists c, n, q. split; [reflexivity|]. split; [exact Es|]. split; [apply N.eqb_eq, H1|]. split; [exact En|].
  split; [apply N.eqb_eq, H2|]. split; [|exact Er].
  unfold sticky. split; [apply Bool.negb_true_iff, H3|]. split; [apply Bool.negb_true_iff, H4|exact H5].
Qed.

(* What makes a voter sticky (node level, every state and request): handling an AppendEntries request of the node's own
   or a newer term - accepted or rejected, heartbeat or not - records the leader contact at the current time, and nothing
   else in the handler moves it; a request of an older term changes nothing at all. *)
Theorem C16_append_entries_records_leader_contact : forall now n q,
  role_eqb (n_role n) Shutdown = false -> (ae_term q <? n_term n) = false ->
  let n' := fst (h_append_entries now n q) in n_contact n' = now /\ n_et n' = n_et n /\ n_id n' = n_id n.
Proof. exact ae_records_contact. Qed.
Print Assumptions C16_append_entries_records_leader_contact.

Theorem C16_stale_append_entries_changes_nothing : forall now n q,
  (ae_term q <? n_term n) = true -> fst (h_append_entries now n q) = n.
Proof. exact ae_stale_term_changes_nothing. Qed.
Print Assumptions C16_stale_append_entries_changes_nothing.

(* The timing half of C16 in its one-voter form, cluster level, ANY world: a running voter handles an AppendEntries
   request of its own or a newer term at time t; any amount of time dt shorter than its election timeout passes; then
   whatever vote request reaches that voter - prevote or real, of any term, from any node, delivered once or twice -
   changes no node of the cluster.  So a leader whose requests reach a voter at intervals shorter than the election
   timeout keeps that voter out of every election, whatever the remaining nodes do.  (Not proved: the composition over
   a majority and over an unbounded run, i.e. "the leader never steps down and the majority's term never increases".) *)
Theorem C16_no_vote_within_an_election_timeout_of_a_heartbeat : forall w cid c n q dt,
  get_call w cid = Some c -> c_state c = CPending -> c_req c = ReqAE q ->
  get_node w (c_dst c) = Some n -> n_frozen n = false -> role_eqb (n_role n) Shutdown = false ->
  (ae_term q <? n_term n) = false -> dt < n_et n ->
  let w1 := step w (LDeliver cid) in
  let w2 := step w1 (LTick dt) in
  forall n1, get_node w1 (c_dst c) = Some n1 -> n_frozen n1 = false -> role_eqb (n_role n1) Shutdown = false ->
    sticky w2 n1 /\
    forall cid' c' q', get_call w2 cid' = Some c' -> c_dst c' = c_dst c -> c_req c' = ReqRV q' ->
      forall id, get_node (step w2 (LDeliver cid')) id = get_node w2 id /\
                 get_node (step w2 (LDup cid')) id = get_node w2 id.
Proof. exact heartbeat_then_vote_request. Qed.
Print Assumptions C16_no_vote_within_an_election_timeout_of_a_heartbeat.

(* not vacuous: in the reachable world just before node 1 receives the first heartbeat of leader 0 (call 4), every
   premise holds with dt = 3 (election timeout 4) *)
Definition c16_labels_hb : list label :=
  [LTick 4; LElection 0; LElectionRun 0; LTask 0; LTask 0; LDeliver 0; LReply 0; LElectionRun 0; LTask 0; LTask 0;
   LDeliver 1; LReply 1; LDeliver 2; LReply 2; LTask 0; LTask 0].
Example C16_heartbeat_premises_hold :
  let w := run (init_world [0; 1; 2] [0; 1; 2] 4 2) c16_labels_hb in
  match get_call w 4 with
  | Some c => match get_node w (c_dst c), get_node (step w (LDeliver 4)) (c_dst c), c_state c, c_req c with
              | Some n, Some n1, CPending, ReqAE q =>
                  negb (n_frozen n) && negb (role_eqb (n_role n) Shutdown) && negb (ae_term q <? n_term n) && (3 <? n_et n) &&
                  negb (n_frozen n1) && negb (role_eqb (n_role n1) Shutdown)
              | _, _, _, _ => false end
  | None => false end = true.
Proof. vm_compute. reflexivity. Qed.
