(* C16 Prevote / stickiness
   Full-strength statement: C16 (see DESIGN.md section 7) (Cluster/Statements.v). Proved so far: the theorems below; what is
   not yet proved is decided on every run by the lock-step co-simulation (model = implementation on every
   explored schedule) together with the monitors run on the implementation's own observations. *)
From RaftV Require Import Cluster.Statements Proofs.RVSpec Proofs.AESpec Proofs.ReadSpec.
Open Scope N_scope.

(* RequestVote, every voter state x every request *)
Theorem C16_prevote_pure : forall now n q, rv_prevote q = true -> fst (h_request_vote now n q) = n.
Proof. exact rv_prevote_pure. Qed.
Print Assumptions C16_prevote_pure.

Theorem C16_vote_refused_if_voted_other : forall now n q v,
  rv_prevote q = false -> rv_term q = n_term n -> n_vote n = Some v -> v <> rv_cand q ->
  rv_granted (snd (h_request_vote now n q)) = false /\ n_vote (fst (h_request_vote now n q)) = Some v.
Proof. exact rv_already_voted. Qed.
Print Assumptions C16_vote_refused_if_voted_other.

(* Stickiness, for every node state and every request: a node that has heard from a leader within the election
   timeout, or a leader whose lease is valid, refuses every vote request - prevote or real, of any term - and does
   not change in any way: an isolated or removed server cannot make it adopt a term or step down. *)
Theorem C16_sticky_voter_refuses_and_does_not_change : forall now n q,
  role_eqb (n_role n) Shutdown = false -> lease_valid now n || recent_contact now n = true ->
  h_request_vote now n q = (n, Some {| rvr_term := n_term n; rvr_granted := false |}).
Proof. exact rv_sticky. Qed.
Print Assumptions C16_sticky_voter_refuses_and_does_not_change.

(* Prevote: the election timer of a follower (not alone in its configuration) does not touch the term or the vote,
   in memory or on disk: an isolated node does not inflate its term. *)
Theorem C16_election_timeout_starts_a_prevote : forall now n,
  n_role n = Follower -> is_single (conf_of n) (n_id n) = false ->
  let n' := l_election now n in
  n_term n' = n_term n /\ n_vote n' = n_vote n /\ n_pterm n' = n_pterm n /\ n_pvote n' = n_pvote n /\
  (n_role n' = Follower \/ n_role n' = PreCandidate).
Proof. exact election_prevote_keeps_term. Qed.
Print Assumptions C16_election_timeout_starts_a_prevote.

(* and a prevote request changes nothing in the voter *)
Theorem C16_prevote_request_changes_nothing : forall now n q, rv_prevote q = true -> fst (h_request_vote now n q) = n.
Proof. exact rv_prevote_pure. Qed.
Print Assumptions C16_prevote_request_changes_nothing.
