(* C14 Crash between any two storage writes
   Full-strength statement: C14 (see DESIGN.md section 7). Proved: "the cluster keeps all safety properties" for
   executions without membership changes and snapshots - the cluster theorems of C01, C02, C07, C08 quantify over
   every schedule, and a schedule may arm a crash point at any storage write of any node (LBudget n k: node n
   freezes at its (k+1)-th write from now, leaving a torn batch), kill it (LCrash) and restart it over the same
   directory (LRestart): C14_crash_points_are_in_scope, C14_*_across_crashes below; plus the node-level theorems.
   "NewRaft succeeds / no fatal error" and the snapshot-related crash points are decided on every run by the
   lock-step co-simulation (crash family: crash point in every write incl. takeSnapshot) and the monitors. *)
From RaftV Require Import Cluster.World Cluster.Statements Proofs.RVSpec Proofs.AESpec Proofs.ReadSpec.
From RaftV Require Import Proofs.ConfStatic Proofs.LogDefs Proofs.ElectSafety Proofs.LCFinal Proofs.LCStatement.
Open Scope N_scope.

(* the executions the cluster theorems quantify over contain crash points at every storage write, kills and restarts *)
Theorem C14_crash_points_are_in_scope : forall n k ls, static ls = true -> nosnap ls = true ->
  static (LBudget n k :: LCrash n :: LRestart n :: ls) = true /\ nosnap (LBudget n k :: LCrash n :: LRestart n :: ls) = true.
Proof. intros n k ls Hs Hn. split; cbn; assumption. Qed.
Print Assumptions C14_crash_points_are_in_scope.

Theorem C14_election_safety_across_crashes : C02_statement.
Proof. exact election_safety. Qed.
Print Assumptions C14_election_safety_across_crashes.

Theorem C14_leader_completeness_across_crashes : C07_statement.
Proof. exact leader_completeness. Qed.
Print Assumptions C14_leader_completeness_across_crashes.

Theorem C14_state_machine_safety_across_crashes : forall ids boot et ld ls1 ls2,
  static (ls1 ++ ls2) = true -> nosnap (ls1 ++ ls2) = true ->
  let w1 := run (init_world ids boot et ld) ls1 in
  let w2 := run w1 ls2 in
  forall i t p t' p', applied_in w1 i t p -> applied_in w2 i t' p' -> t = t' /\ p = p'.
Proof. exact state_machine_safety_nosnap. Qed.
Print Assumptions C14_state_machine_safety_across_crashes.

(* becomeFollower (every term change, every step-down) never touches the commit index, the applied index, the
   snapshot boundary, the stored snapshots, the state machine or its apply history *)
Theorem C14_step_down_frame : forall now n l t, vol (become_follower now n l t) = vol n.
Proof. exact vol_become_follower. Qed.
Print Assumptions C14_step_down_frame.

(* NewRaft + Start over the directory of a process that died at ANY point (any volatile state, frozen at any storage
   write): the node comes back with exactly the term and vote that were last persisted, and is not frozen. *)
Theorem C14_restart_reads_back_term_and_vote : forall now n,
  let n' := restart_after_crash now n in
  n_term n' = n_pterm n /\ n_vote n' = n_pvote n /\ n_pterm n' = n_pterm n /\ n_pvote n' = n_pvote n /\
  n_frozen n' = false /\ n_id n' = n_id n.
Proof. exact restart_reads_back. Qed.
Print Assumptions C14_restart_reads_back_term_and_vote.
