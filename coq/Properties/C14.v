(* C14 Crash between any two storage writes
   Full-strength statement: C14 (see DESIGN.md section 7) (Cluster/Statements.v). Proved so far: the theorems below; what is
   not yet proved is decided on every run by the lock-step co-simulation (model = implementation on every
   explored schedule) together with the monitors run on the implementation's own observations. *)
From RaftV Require Import Cluster.Statements Proofs.RVSpec Proofs.AESpec Proofs.ReadSpec.
Open Scope N_scope.

(* becomeFollower (every term change, every step-down) never touches the commit index, the applied index, the
   snapshot boundary, the stored snapshots, the state machine or its apply history *)
Theorem C14_step_down_frame : forall now n l t, vol (become_follower now n l t) = vol n.
Proof. exact vol_become_follower. Qed.
Print Assumptions C14_step_down_frame.

(* NewRaft + Start over the directory of a process that died at ANY point (any volatile state, frozen at any storage
   write): the node comes back with exactly the term and vote that were last persisted, and is not frozen. *)
Theorem C14_restart_reads_back_term_and_vote : forall now n,
  let n' := restart_after_crash now n in
  n_term n' = n_pterm n /\ n_vote n' = n_pvote n /\ n_pterm n' = n_pterm n /\ n_pvote n' = n_pvote n /\
  n_frozen n' = false /\ n_id n' = n_id n.
Proof. exact restart_reads_back. Qed.
Print Assumptions C14_restart_reads_back_term_and_vote.
