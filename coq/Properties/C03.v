(* C03 Linearizable replicated operations, truthful futures
   Full-strength statement: C01_statement (order) + future truth (Cluster/Statements.v). Proved so far: the theorems below; what is
   not yet proved is decided on every run by the lock-step co-simulation (model = implementation on every
   explored schedule) together with the monitors run on the implementation's own observations. *)
From RaftV Require Import Cluster.Statements Proofs.RVSpec Proofs.AESpec Proofs.CommitSpec.
Open Scope N_scope.

(* becomeFollower (every term change, every step-down) never touches the commit index, the applied index, the
   snapshot boundary, the stored snapshots, the state machine or its apply history *)
Theorem C03_step_down_frame : forall now n l t, vol (become_follower now n l t) = vol n.
Proof. exact vol_become_follower. Qed.
Print Assumptions C03_step_down_frame.

(* One iteration of the apply loop, for every node state: the applied index advances by exactly one; the state machine
   receives exactly the payload of the log entry at that index - nothing for a no-op or configuration entry - and the
   apply history records that entry's own index, term and payload. *)
Theorem C03_apply_one_entry : forall now n e,
  log_get (n_log n) (n_applied n + 1) = Some e ->
  let n' := lp_apply_one now n in
  n_applied n' = n_applied n + 1 /\
  match e_kind e with
  | KOp p => n_fsm n' = n_fsm n ++ [p] /\ n_applies n' = n_applies n ++ [(e_index e, e_term e, p)]
  | _ => n_fsm n' = n_fsm n /\ n_applies n' = n_applies n
  end.
Proof. exact lp_apply_one_spec. Qed.
Print Assumptions C03_apply_one_entry.

(* Applying an operation entry answers at most one future - the one registered for that index - and the answer
   carries the entry's own index, term and payload and the state machine's new state. *)
Theorem C03_future_answered_with_the_applied_entry : forall now n e p x,
  log_get (n_log n) (n_applied n + 1) = Some e -> e_kind e = KOp p ->
  In x (n_results (lp_apply_one now n)) ->
  In x (n_results n) \/
  exists fid, lookup (e_index e) (n_pending n) = Some fid /\
              x = (fid, FOp (e_index e) (e_term e) p (N.of_nat (length (n_fsm n ++ [p])))).
Proof. exact lp_apply_one_results. Qed.
Print Assumptions C03_future_answered_with_the_applied_entry.
