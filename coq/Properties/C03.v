(* C03 Linearizable replicated operations, truthful futures
   Full-strength statement: C01_statement (order) + future truth (Cluster/Statements.v). Proved at cluster level for
   executions without membership changes and snapshots: C03_applied_at_most_once (within one incarnation a node
   applies each index at most once), C03_answered_operation_is_the_applied_one (a future answered successfully
   names the log position and bytes that every node applying that position applies; uses `classic`), together
   with C01_state_machine_safety_partial (one total order of applied operations: the log index). NOT proved:
   that this order is consistent with the real-time order of acknowledged submissions (linearizability proper) and
   that the bytes are those submitted under that future; these are decided on every run by the lock-step
   co-simulation (model = implementation on every explored schedule) together with the monitors run on the
   implementation's own observations (the future-truth monitor: submitted bytes, reported position against what
   was applied there). *)
From RaftV Require Import Cluster.World Cluster.Statements Proofs.RVSpec Proofs.AESpec Proofs.CommitSpec.
From RaftV Require Import Proofs.ConfStatic Proofs.ApplyOnce Proofs.LCAck Proofs.SubmitBytes.
Open Scope N_scope.

(* cluster level, every execution without membership changes and snapshots: between two restores a node hands each
   log index to its state machine at most once *)
Theorem C03_applied_at_most_once : forall ids boot et ld ls, static ls = true -> nosnap ls = true ->
  forall n, In n (w_nodes (run (init_world ids boot et ld) ls)) -> NoDup (map (fun x : N * N * N => fst (fst x)) (n_applies n)).
Proof. exact applied_at_most_once. Qed.
Print Assumptions C03_applied_at_most_once.

(* a future answered with FOp index term payload: every application of that index, on any node, at any later point,
   in any incarnation, is that term and payload *)
Theorem C03_answered_operation_is_the_applied_one : forall ids boot et ld ls1 ls2,
  static (ls1 ++ ls2) = true -> nosnap (ls1 ++ ls2) = true ->
  let w1 := run (init_world ids boot et ld) ls1 in
  let w2 := run w1 ls2 in
  forall i t p t' p', acked_op w1 i t p -> applied_in w2 i t' p' -> t = t' /\ p = p'.
Proof. exact acknowledged_then_applied. Qed.
Print Assumptions C03_answered_operation_is_the_applied_one.

(* becomeFollower (every term change, every step-down) never touches the commit index, the applied index, the
   snapshot boundary, the stored snapshots, the state machine or its apply history *)
Theorem C03_step_down_frame : forall now n l t, vol (become_follower now n l t) = vol n.
Proof. exact vol_become_follower. Qed.
Print Assumptions C03_step_down_frame.

(* One iteration of the apply loop, for every node state: the applied index advances by exactly one; the state machine
   receives exactly the payload of the log entry at that index - nothing for a no-op or configuration entry - and the
   apply history records that entry's own index, term and payload. *)
Theorem C03_apply_one_entry : forall now n e,
  log_get (n_log n) (n_applied n + 1) = Some e ->
  let n' := lp_apply_one now n in
  n_applied n' = n_applied n + 1 /\
  match e_kind e with
  | KOp p => n_fsm n' = n_fsm n ++ [p] /\ n_applies n' = n_applies n ++ [(e_index e, e_term e, p)]
  | _ => n_fsm n' = n_fsm n /\ n_applies n' = n_applies n
  end.
Proof. exact lp_apply_one_spec. Qed.
Print Assumptions C03_apply_one_entry.

(* Applying an operation entry answers at most one future - the one registered for that index - and the answer
   carries the entry's own index, term and payload and the state machine's new state. *)
Theorem C03_future_answered_with_the_applied_entry : forall now n e p x,
  log_get (n_log n) (n_applied n + 1) = Some e -> e_kind e = KOp p ->
  In x (n_results (lp_apply_one now n)) ->
  In x (n_results n) \/
  exists fid, lookup (e_index e) (n_pending n) = Some fid /\
              x = (fid, FOp (e_index e) (e_term e) p (N.of_nat (length (n_fsm n ++ [p])))).
Proof. exact lp_apply_one_results. Qed.
Print Assumptions C03_future_answered_with_the_applied_entry.

(* "A future that resolves successfully returns exactly the submitted bytes", cluster level, every execution without
   membership changes and without snapshots (any number of nodes, delivery order, loss, duplication, delay, crash at
   any storage write - a torn submission included -, restart, step-downs and re-elections; no bound on anything).
   [subs] is the submission record of the execution: the (future id, payload) pairs of its replicated Submit calls, in
   order, the future id being the one the world allocates for that call.  A success answer (FOp index term payload
   response) found in any node's answer history under future id fid carries a payload that was submitted under fid ... *)
Theorem C03_answered_bytes_are_the_submitted_bytes : forall ids boot et ld ls, static ls = true -> nosnap ls = true ->
  forall n fid i t p r, In n (w_nodes (run (init_world ids boot et ld) ls)) ->
    In (fid, FOp i t p r) (n_results n) ->
    In (fid, p) (subs (init_world ids boot et ld) ls).
Proof. exact answered_bytes_are_submitted. Qed.
Print Assumptions C03_answered_bytes_are_the_submitted_bytes.

(* ... future ids of replicated submissions are pairwise distinct (any world, any labels) ... *)
Theorem C03_future_ids_are_distinct : forall ls w, NoDup (map fst (subs w ls)).
Proof. exact subs_fids_distinct. Qed.
Print Assumptions C03_future_ids_are_distinct.

(* ... so it is THE payload submitted under that future. *)
Theorem C03_answered_bytes_unique : forall ids boot et ld ls, static ls = true -> nosnap ls = true ->
  forall n fid i t p r, In n (w_nodes (run (init_world ids boot et ld) ls)) ->
    In (fid, FOp i t p r) (n_results n) ->
    forall p', In (fid, p') (subs (init_world ids boot et ld) ls) -> p' = p.
Proof. exact answered_bytes_unique. Qed.
Print Assumptions C03_answered_bytes_unique.

(* not vacuous: a schedule in which a submission of 42 is answered with 42 *)
Example C03_answered_bytes_example :
  static ex_ls = true /\ nosnap ex_ls = true /\
  map n_results (w_nodes (run (init_world [0] [0] 100 50) ex_ls)) = [[(0, FOp 3 1 42 1)]] /\
  subs (init_world [0] [0] 100 50) ex_ls = [(0, 42)].
Proof. exact ex_answered. Qed.
