(* C08 Term and vote monotone and durable
   Full-strength statement: C08_statement (Cluster/Statements.v). Proved so far: the theorems below; what is
   not yet proved is decided on every run by the lock-step co-simulation (model = implementation on every
   explored schedule) together with the monitors run on the implementation's own observations. *)
From RaftV Require Import Cluster.Statements Proofs.RVSpec Proofs.AESpec.
Open Scope N_scope.

(* RequestVote, every voter state x every request *)
Theorem C08_prevote_pure : forall now n q, rv_prevote q = true -> fst (h_request_vote now n q) = n.
Proof. exact rv_prevote_pure. Qed.
Print Assumptions C08_prevote_pure.

Theorem C08_vote_refused_if_voted_other : forall now n q v,
  rv_prevote q = false -> rv_term q = n_term n -> n_vote n = Some v -> v <> rv_cand q ->
  rv_granted (snd (h_request_vote now n q)) = false /\ n_vote (fst (h_request_vote now n q)) = Some v.
Proof. exact rv_already_voted. Qed.
Print Assumptions C08_vote_refused_if_voted_other.

Theorem C08_term_monotone_handler : forall now n q,
  let n' := fst (h_request_vote now n q) in n_term n <= n_term n' /\ n_log n' = n_log n.
Proof. exact rv_term_monotone. Qed.
Print Assumptions C08_term_monotone_handler.

Theorem C08_vote_only_up_to_date : forall now n q,
  rv_granted (snd (h_request_vote now n q)) = true ->
  last_term (n_log n) < rv_last_term q \/
  (last_term (n_log n) = rv_last_term q /\ last_index (n_log n) <= rv_last_index q).
Proof. exact rv_grant_up_to_date. Qed.
Print Assumptions C08_vote_only_up_to_date.

Theorem C08_become_follower_keeps_same_term_vote : forall now n leader term,
  let n' := become_follower now n leader term in
  n_term n' = term /\ n_vote n' = (if term =? n_term n then n_vote n else None) /\
  n_log n' = n_log n /\ n_role n' = Follower /\
  (n_pterm n' = term /\ n_pvote n' = n_vote n' \/ n_pterm n' = n_pterm n /\ n_pvote n' = n_pvote n).
Proof. exact become_follower_fields. Qed.
Print Assumptions C08_become_follower_keeps_same_term_vote.
