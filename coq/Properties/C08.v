(* C08 Term and vote monotone and durable
   Full-strength statement: C08_statement (Cluster/Statements.v). Proved so far: the theorems below; what is
   not yet proved is decided on every run by the lock-step co-simulation (model = implementation on every
   explored schedule) together with the monitors run on the implementation's own observations. *)
From RaftV Require Import Cluster.Statements Proofs.RVSpec Proofs.AESpec Proofs.Votes Proofs.VoteRecords.
Open Scope N_scope.

(* RequestVote, every voter state x every request *)
Theorem C08_prevote_pure : forall now n q, rv_prevote q = true -> fst (h_request_vote now n q) = n.
Proof. exact rv_prevote_pure. Qed.
Print Assumptions C08_prevote_pure.

Theorem C08_vote_refused_if_voted_other : forall now n q v,
  rv_prevote q = false -> rv_term q = n_term n -> n_vote n = Some v -> v <> rv_cand q ->
  rv_granted (snd (h_request_vote now n q)) = false /\ n_vote (fst (h_request_vote now n q)) = Some v.
Proof. exact rv_already_voted. Qed.
Print Assumptions C08_vote_refused_if_voted_other.

Theorem C08_term_monotone_handler : forall now n q,
  let n' := fst (h_request_vote now n q) in n_term n <= n_term n' /\ n_log n' = n_log n.
Proof. exact rv_term_monotone. Qed.
Print Assumptions C08_term_monotone_handler.

Theorem C08_vote_only_up_to_date : forall now n q,
  rv_granted (snd (h_request_vote now n q)) = true ->
  last_term (n_log n) < rv_last_term q \/
  (last_term (n_log n) = rv_last_term q /\ last_index (n_log n) <= rv_last_index q).
Proof. exact rv_grant_up_to_date. Qed.
Print Assumptions C08_vote_only_up_to_date.

Theorem C08_become_follower_keeps_same_term_vote : forall now n leader term,
  let n' := become_follower now n leader term in
  n_term n' = term /\ n_vote n' = (if term =? n_term n then n_vote n else None) /\
  n_log n' = n_log n /\ n_role n' = Follower /\
  (n_pterm n' = term /\ n_pvote n' = n_vote n' \/ n_pterm n' = n_pterm n /\ n_pvote n' = n_pvote n).
Proof. exact become_follower_fields. Qed.
Print Assumptions C08_become_follower_keeps_same_term_vote.

(* The cluster form, at full strength: in every world reachable from any initial cluster by ANY label list
   (all delivery orders, drops, duplicates, delays, crashes after any number of storage writes, restarts,
   client calls, membership requests, snapshots) every further step leaves every node's persistent term
   non-decreasing and, while the term stays, its persistent vote unchanged.  "One vote per term, counting
   votes granted before a crash" follows: a real grant for candidate c in term t is only produced after
   (t, c) is on disk (C08_become_follower_keeps_same_term_vote, rv_grant handler lemmas), and from then on
   the pair can only be replaced by a larger term. *)
Theorem C08_term_and_vote_durable : C08_statement.
Proof. exact C08_statement_holds. Qed.
Print Assumptions C08_term_and_vote_durable.

(* "Within one term a node grants real votes to at most one candidate, counting votes granted before a crash":
   the RPC records of a world are its history (never deleted); in every reachable world - any cluster, any
   label list - two real RequestVote responses that grant the vote of the same voter in the same term name the
   same candidate. *)
Theorem C08_one_vote_per_term : forall ids boot et ld ls c1 c2 t x y,
  let w := run (init_world ids boot et ld) ls in
  In c1 (w_calls w) -> In c2 (w_calls w) ->
  granted_real c1 t x -> granted_real c2 t y -> c_dst c1 = c_dst c2 -> x = y.
Proof. exact one_vote_per_term. Qed.
Print Assumptions C08_one_vote_per_term.

(* a grant is only ever answered after the vote is on disk *)
Theorem C08_grant_is_durable_before_reply : forall now n q,
  coh n -> rv_prevote q = false -> rv_granted (snd (h_request_vote now n q)) = true ->
  let n' := fst (h_request_vote now n q) in
  n_frozen n' = false -> n_pterm n' = rv_term q /\ n_pvote n' = Some (rv_cand q).
Proof. exact rv_grant_recorded. Qed.
Print Assumptions C08_grant_is_durable_before_reply.

(* non-vacuity: a concrete schedule in which a node casts a real vote, crashes, restarts, and still holds it *)
Example C08_nonvacuous :
  let w := run (init_world [0; 1; 2] [0; 1; 2] 4 2)
             [LTick 4; LElection 0; LElectionRun 0; LTask 0; LTask 0; LDeliver 0; LReply 0; LElectionRun 0;
              LTask 0; LTask 0; LDeliver 2; LCrash 1; LRestart 1] in
  option_map (fun n => (n_pterm n, n_pvote n, n_role n)) (get_node w 1) = Some (1, Some 0, Follower).
Proof. vm_compute. reflexivity. Qed.
