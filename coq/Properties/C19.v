(* C19  Encodings are lossless.  Only statements, each closed by [exact] of a
   lemma proved elsewhere, followed by Print Assumptions. *)
From RaftV Require Import Codec.Msgs Disk.LogFile Disk.StateFile.
Open Scope N_scope.

(* Wire kinds of every protobuf field are the ones the model encodes with
   (regenerated from raft.pb.go on every run). *)
Theorem C19_wire_kinds : wire_kinds_ok = true.
Proof. reflexivity. Qed.

Theorem C19_varint_roundtrip : forall n rest, n < 2 ^ 64 -> dec_varint (enc_varint n ++ rest) = Some (n, rest).
Proof. exact dec_enc_varint. Qed.
Print Assumptions C19_varint_roundtrip.

Theorem C19_log_entry_roundtrip : forall e, wf_entry e -> dec_entry (enc_entry e) = Some e.
Proof. exact dec_enc_entry. Qed.
Print Assumptions C19_log_entry_roundtrip.

Theorem C19_state_roundtrip : forall s, wf_state s -> dec_state (enc_state s) = Some s.
Proof. exact dec_enc_state. Qed.
Print Assumptions C19_state_roundtrip.

Theorem C19_configuration_roundtrip : forall c, wf_conf c -> conf_lens_ok c -> dec_conf (enc_conf c) = Some c.
Proof. exact dec_enc_conf. Qed.
Print Assumptions C19_configuration_roundtrip.

(* The six RPC messages.  AppendEntries goes through the converters of
   requests.go, which drop LogEntry.Offset: what arrives is the request with
   every entry's offset zeroed, all other fields (all three entry types, any
   data) equal. *)
Theorem C19_append_entries_request :
  forall r, wf_ae_req r ->
    Forall (fun e => N.of_nat (length (enc_entry (wire_entry e))) < 2 ^ 64) (aq_entries r) ->
    recv_ae_req (send_ae_req r) = Some (set_entries r (map wire_entry (aq_entries r))).
Proof. exact recv_send_ae_req. Qed.
Print Assumptions C19_append_entries_request.

Theorem C19_append_entries_response : forall r, u64 (ar_term r) -> u64 (ar_index r) -> dec_ae_resp (enc_ae_resp r) = Some r.
Proof. exact dec_enc_ae_resp. Qed.
Print Assumptions C19_append_entries_response.

Theorem C19_request_vote_request : forall r, wf_rv_req r -> dec_rv_req (enc_rv_req r) = Some r.
Proof. exact dec_enc_rv_req. Qed.
Print Assumptions C19_request_vote_request.

Theorem C19_request_vote_response : forall r, u64 (vr_term r) -> dec_rv_resp (enc_rv_resp r) = Some r.
Proof. exact dec_enc_rv_resp. Qed.
Print Assumptions C19_request_vote_response.

(* No bound on the payload length other than fitting a uint64 length prefix. *)
Theorem C19_install_snapshot_request : forall r, wf_is_req r -> dec_is_req (enc_is_req r) = Some r.
Proof. exact dec_enc_is_req. Qed.
Print Assumptions C19_install_snapshot_request.

Theorem C19_install_snapshot_response : forall r, u64 (sr_term r) -> u64 (sr_written r) -> dec_is_resp (enc_is_resp r) = Some r.
Proof. exact dec_enc_is_resp. Qed.
Print Assumptions C19_install_snapshot_response.

(* Storage read-back: the file made of the records of [es] replays to [es]
   (offsets included); the state file reads back the pair written. *)
Theorem C19_log_readback : forall es, Forall rec_ok es -> replay (file_of es) = ROk es (blen (file_of es)).
Proof. exact replay_file_of. Qed.
Print Assumptions C19_log_readback.

Theorem C19_state_readback : forall s, state_ok s -> read_state (state_rec s) = Some s.
Proof. exact read_state_rec. Qed.
Print Assumptions C19_state_readback.

(* Non-vacuity: extreme field values satisfy the hypotheses. *)
Example C19_nonvacuous :
  wf_entry {| pe_index := 18446744073709551615; pe_term := 18446744073709551615;
              pe_offset := 18446744073709551615; pe_data := [0; 255]; pe_type := 2 |}
  /\ wf_state {| ps_term := 18446744073709551615; ps_vote := [195; 177] |}.
Proof. repeat split; reflexivity. Qed.
