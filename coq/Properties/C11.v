(* C11 Compaction and snapshot installation
   Full-strength statement: C11 (see DESIGN.md section 7). Proved at cluster level for EVERY schedule (snapshots,
   InstallSnapshot, membership changes, crashes, restarts): C11_applied_index_and_boundary_never_move_backwards,
   and C11_commit_index_moves_backwards_only_by_a_conflicting_snapshot (the exact characterisation of one step).
   "never moves the commit index backwards" at full strength is FALSE of the model:
   C11_commit_index_monotone_refuted_by_D6 (the restore path of InstallSnapshot sets commitIndex :=
   lastIncludedIndex even when that is below the commit index; reachable through the open finding D6, where a
   snapshot of a rival leader conflicts with the committed zone of the receiver; unreachable when log matching
   holds for snapshots, which is not proved). The rest is decided on every run by the lock-step co-simulation
   together with the monitors run on the implementation's own observations. *)
From RaftV Require Import Cluster.World Cluster.Statements Proofs.RVSpec Proofs.AESpec Proofs.SnapSpec Proofs.ChunkSpec.
From RaftV Require Import Proofs.IndexMono Proofs.IndexOrder.
Open Scope N_scope.

(* cluster level, EVERY schedule (snapshots, InstallSnapshot, membership changes, crashes and restarts of other nodes
   included): as long as node id is not crashed or restarted, its applied index and its snapshot boundary never
   move backwards *)
Theorem C11_applied_index_and_boundary_never_move_backwards : forall ids boot et ld ls1 ls2 id, no_reset id ls2 = true ->
  let w1 := run (init_world ids boot et ld) ls1 in let w2 := run w1 ls2 in
  forall n2, In n2 (w_nodes w2) -> n_id n2 = id -> exists n1, In n1 (w_nodes w1) /\ n_id n1 = id /\
    n_applied n1 <= n_applied n2 /\ n_lii n1 <= n_lii n2.
Proof. exact run_applied_lii_mono. Qed.
Print Assumptions C11_applied_index_and_boundary_never_move_backwards.

(* cluster level, EVERY schedule and every reachable node (frozen nodes, crash, restart, membership changes, the restore
   path of InstallSnapshot included): the applied index never exceeds the commit index.  (The snapshot boundary may
   transiently exceed both: InstallSnapshot records lastIncludedIndex when the last chunk is closed, before the state
   machine has caught up - lii_above_applied_reachable in Proofs/IndexOrder.v; the code does the same.) *)
Theorem C11_applied_never_exceeds_commit : forall ids boot et ld ls n,
  In n (w_nodes (run (init_world ids boot et ld) ls)) -> n_applied n <= n_commit n.
Proof. exact index_order_ac. Qed.
Print Assumptions C11_applied_never_exceeds_commit.

(* one step, every world, every label: the commit index, the applied index and the snapshot boundary of a node do not
   move backwards, unless the node is crashed / restarted, or it installs (restore path) a snapshot whose index lies
   strictly between its applied index and its commit index and whose last entry is not the one in its log *)
Theorem C11_commit_index_moves_backwards_only_by_a_conflicting_snapshot : forall w l n', In n' (w_nodes (step w l)) ->
  exists n, In n (w_nodes w) /\ n_id n' = n_id n /\
            (mono3 n n' \/ reset_label l (n_id n) \/ install_jump w l n n').
Proof. exact step_index_mono. Qed.
Print Assumptions C11_commit_index_moves_backwards_only_by_a_conflicting_snapshot.

(* and that case is reachable when membership changes (open finding D6): the full statement is refuted *)
Theorem C11_commit_index_monotone_refuted_by_D6 : ~ index_mono_statement.
Proof. exact index_mono_refuted_by_D6. Qed.
Print Assumptions C11_commit_index_monotone_refuted_by_D6.

(* becomeFollower (every term change, every step-down) never touches the commit index, the applied index, the
   snapshot boundary, the stored snapshots, the state machine or its apply history *)
Theorem C11_step_down_frame : forall now n l t, vol (become_follower now n l t) = vol n.
Proof. exact vol_become_follower. Qed.
Print Assumptions C11_step_down_frame.

(* InstallSnapshot, for every node state and every request: a request of a stale term, or one whose last included
   index is covered by the node's own snapshot or by what it has applied, changes neither the log nor the commit
   index, the applied index, the snapshot boundary, the stored snapshots, the state machine, its apply history or
   the configurations: no snapshot older than what the node has applied is ever installed. *)
Theorem C11_nothing_new_changes_nothing : forall now n q,
  is_term q < n_term n \/ is_lii q <= n_lii n \/ is_lii q <= n_applied n ->
  let n' := is_node (h_install_snapshot now n q) in
  vol n' = vol n /\ n_log n' = n_log n.
Proof. exact is_nothing_new_unchanged. Qed.
Print Assumptions C11_nothing_new_changes_nothing.

(* InstallSnapshot, every state, every request (stale, duplicated, reordered, any offset): the applied index and
   the snapshot boundary never move backwards. *)
Theorem C11_applied_and_boundary_monotone : forall now n q,
  let n' := is_node (h_install_snapshot now n q) in
  n_applied n <= n_applied n' /\ n_lii n <= n_lii n'.
Proof. exact is_monotone. Qed.
Print Assumptions C11_applied_and_boundary_monotone.

(* the premises of the first theorem are met by a node that has applied index 7 and is offered snapshot 5 *)
Example C11_nonvacuous : exists n q, is_lii q <= n_applied n /\ n_role n = Follower.
Proof.
  exists ((mk_node 1 4 2) <| n_role := Follower |> <| n_applied := 7 |>),
         {| is_leader := 2; is_term := 1; is_lii := 5; is_lit := 1; is_conf := config0; is_offset := 0; is_bytes := []; is_done := true |}.
  split; [cbn; lia|reflexivity].
Qed.

(* Chunk exactness for chunks that belong to the snapshot being received (every state): a chunk with the index of the
   partially received file and the expected offset is appended byte for byte and acknowledged with offset + length;
   nothing else changes.  (A chunk of an OLDER snapshot at the same offset is accepted too: open finding D10.) *)
Theorem C11_chunk_of_the_snapshot_being_received_is_appended_exactly : forall now n q p,
  n_role n = Follower -> is_term q = n_term n ->
  n_lii n < is_lii q -> n_applied n < is_lii q ->
  n_partial n = Some p -> s_index p = is_lii q ->
  is_offset q = N.of_nat (length (s_data p)) -> is_done q = false ->
  let r := h_install_snapshot now n q in
  n_partial (fst r) = Some {| s_index := s_index p; s_term := s_term p; s_conf := s_conf p; s_data := s_data p ++ is_bytes q |} /\
  snd r = Some {| isr_term := n_term n; isr_written := is_offset q + N.of_nat (length (is_bytes q)) |} /\
  n_snaps (fst r) = n_snaps n /\ n_log (fst r) = n_log n /\ n_fsm (fst r) = n_fsm n.
Proof. exact is_chunk_appended. Qed.
Print Assumptions C11_chunk_of_the_snapshot_being_received_is_appended_exactly.
