(* C11 Compaction and snapshot installation
   Full-strength statement: C11 (see DESIGN.md section 7) (Cluster/Statements.v). Proved so far: the theorems below; what is
   not yet proved is decided on every run by the lock-step co-simulation (model = implementation on every
   explored schedule) together with the monitors run on the implementation's own observations. *)
From RaftV Require Import Cluster.Statements Proofs.RVSpec Proofs.AESpec Proofs.SnapSpec Proofs.ChunkSpec.
Open Scope N_scope.

(* becomeFollower (every term change, every step-down) never touches the commit index, the applied index, the
   snapshot boundary, the stored snapshots, the state machine or its apply history *)
Theorem C11_step_down_frame : forall now n l t, vol (become_follower now n l t) = vol n.
Proof. exact vol_become_follower. Qed.
Print Assumptions C11_step_down_frame.

(* InstallSnapshot, for every node state and every request: a request of a stale term, or one whose last included
   index is covered by the node's own snapshot or by what it has applied, changes neither the log nor the commit
   index, the applied index, the snapshot boundary, the stored snapshots, the state machine, its apply history or
   the configurations: no snapshot older than what the node has applied is ever installed. *)
Theorem C11_nothing_new_changes_nothing : forall now n q,
  is_term q < n_term n \/ is_lii q <= n_lii n \/ is_lii q <= n_applied n ->
  let n' := is_node (h_install_snapshot now n q) in
  vol n' = vol n /\ n_log n' = n_log n.
Proof. exact is_nothing_new_unchanged. Qed.
Print Assumptions C11_nothing_new_changes_nothing.

(* InstallSnapshot, every state, every request (stale, duplicated, reordered, any offset): the applied index and
   the snapshot boundary never move backwards. *)
Theorem C11_applied_and_boundary_monotone : forall now n q,
  let n' := is_node (h_install_snapshot now n q) in
  n_applied n <= n_applied n' /\ n_lii n <= n_lii n'.
Proof. exact is_monotone. Qed.
Print Assumptions C11_applied_and_boundary_monotone.

(* the premises of the first theorem are met by a node that has applied index 7 and is offered snapshot 5 *)
Example C11_nonvacuous : exists n q, is_lii q <= n_applied n /\ n_role n = Follower.
Proof.
  exists ((mk_node 1 4 2) <| n_role := Follower |> <| n_applied := 7 |>),
         {| is_leader := 2; is_term := 1; is_lii := 5; is_lit := 1; is_conf := config0; is_offset := 0; is_bytes := []; is_done := true |}.
  split; [cbn; lia|reflexivity].
Qed.

(* Chunk exactness for chunks that belong to the snapshot being received (every state): a chunk with the index of the
   partially received file and the expected offset is appended byte for byte and acknowledged with offset + length;
   nothing else changes.  (A chunk of an OLDER snapshot at the same offset is accepted too: open finding D10.) *)
Theorem C11_chunk_of_the_snapshot_being_received_is_appended_exactly : forall now n q p,
  n_role n = Follower -> is_term q = n_term n ->
  n_lii n < is_lii q -> n_applied n < is_lii q ->
  n_partial n = Some p -> s_index p = is_lii q ->
  is_offset q = N.of_nat (length (s_data p)) -> is_done q = false ->
  let r := h_install_snapshot now n q in
  n_partial (fst r) = Some {| s_index := s_index p; s_term := s_term p; s_conf := s_conf p; s_data := s_data p ++ is_bytes q |} /\
  snd r = Some {| isr_term := n_term n; isr_written := is_offset q + N.of_nat (length (is_bytes q)) |} /\
  n_snaps (fst r) = n_snaps n /\ n_log (fst r) = n_log n /\ n_fsm (fst r) = n_fsm n.
Proof. exact is_chunk_appended. Qed.
Print Assumptions C11_chunk_of_the_snapshot_being_received_is_appended_exactly.
