(* C10 Snapshots are exact
   Full-strength statement: C10 (see DESIGN.md section 7) (Cluster/Statements.v). Proved so far: the theorems below; what is
   not yet proved is decided on every run by the lock-step co-simulation (model = implementation on every
   explored schedule) together with the monitors run on the implementation's own observations. *)
From RaftV Require Import Cluster.Statements Proofs.RVSpec Proofs.AESpec.
Open Scope N_scope.

(* becomeFollower (every term change, every step-down) never touches the commit index, the applied index, the
   snapshot boundary, the stored snapshots, the state machine or its apply history *)
Theorem C10_step_down_frame : forall now n l t, vol (become_follower now n l t) = vol n.
Proof. exact vol_become_follower. Qed.
Print Assumptions C10_step_down_frame.
