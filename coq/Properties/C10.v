(* C10 Snapshots are exact
   Full-strength statement: C10 (see DESIGN.md section 7) (Cluster/Statements.v). Proved so far: the theorems below; what is
   not yet proved is decided on every run by the lock-step co-simulation (model = implementation on every
   explored schedule) together with the monitors run on the implementation's own observations. *)
From RaftV Require Import Cluster.Statements Proofs.RVSpec Proofs.AESpec Proofs.SnapSpec Proofs.ReadSpec Proofs.CommitSpec.
Open Scope N_scope.

(* becomeFollower (every term change, every step-down) never touches the commit index, the applied index, the
   snapshot boundary, the stored snapshots, the state machine or its apply history *)
Theorem C10_step_down_frame : forall now n l t, vol (become_follower now n l t) = vol n.
Proof. exact vol_become_follower. Qed.
Print Assumptions C10_step_down_frame.

(* The state machine used by the co-simulation (harness/sim.FSM, modelled by fsm_snap / fsm_unsnap): restoring a
   snapshot gives back exactly the operations that were snapshotted, for every padding (snapshots of 0 B to several
   chunk sizes) and every operation list with 32-bit payloads. *)
Theorem C10_restore_of_snapshot_is_identity : forall pad st,
  Forall (fun p => p < 4294967296) st -> N.of_nat (length st) < 4294967296 ->
  fsm_unsnap (fsm_snap pad st) = st.
Proof. exact fsm_unsnap_snap. Qed.
Print Assumptions C10_restore_of_snapshot_is_identity.

Example C10_nonvacuous : fsm_unsnap (fsm_snap 5 [7; 8; 9]) = [7; 8; 9].
Proof. reflexivity. Qed.

(* takeSnapshot, for every node state (Snapshot excluded from Apply: fix D8): a snapshot it adds is labelled with the
   index and term of the log entry at the applied index, contains the state machine exactly as it is at that point,
   and carries the committed configuration, whose index is not beyond the applied index. *)
Theorem C10_local_snapshot_label : forall n s,
  In s (n_snaps (lp_snapshot n)) ->
  In s (n_snaps n) \/
  (s_data s = fsm_snap (n_pad n) (n_fsm n) /\
   n_cconf n = Some (s_conf s) /\ c_index (s_conf s) <= n_applied n /\
   exists e, log_get (n_log n) (n_applied n) = Some e /\ s_index s = e_index e /\ s_term s = e_term e).
Proof. exact lp_snapshot_label. Qed.
Print Assumptions C10_local_snapshot_label.

(* One iteration of the apply loop, for every node state: the applied index advances by exactly one; the state machine
   receives exactly the payload of the log entry at that index - nothing for a no-op or configuration entry - and the
   apply history records that entry's own index, term and payload. *)
Theorem C10_apply_one_entry : forall now n e,
  log_get (n_log n) (n_applied n + 1) = Some e ->
  let n' := lp_apply_one now n in
  n_applied n' = n_applied n + 1 /\
  match e_kind e with
  | KOp p => n_fsm n' = n_fsm n ++ [p] /\ n_applies n' = n_applies n ++ [(e_index e, e_term e, p)]
  | _ => n_fsm n' = n_fsm n /\ n_applies n' = n_applies n
  end.
Proof. exact lp_apply_one_spec. Qed.
Print Assumptions C10_apply_one_entry.
