(* C10 Snapshots are exact
   Full-strength statement: C10 (see DESIGN.md section 7) (Cluster/Statements.v). Proved so far: the theorems below; what is
   not yet proved is decided on every run by the lock-step co-simulation (model = implementation on every
   explored schedule) together with the monitors run on the implementation's own observations. *)
From RaftV Require Import Cluster.Statements Proofs.RVSpec Proofs.AESpec Proofs.SnapSpec.
Open Scope N_scope.

(* becomeFollower (every term change, every step-down) never touches the commit index, the applied index, the
   snapshot boundary, the stored snapshots, the state machine or its apply history *)
Theorem C10_step_down_frame : forall now n l t, vol (become_follower now n l t) = vol n.
Proof. exact vol_become_follower. Qed.
Print Assumptions C10_step_down_frame.

(* The state machine used by the co-simulation (harness/sim.FSM, modelled by fsm_snap / fsm_unsnap): restoring a
   snapshot gives back exactly the operations that were snapshotted, for every padding (snapshots of 0 B to several
   chunk sizes) and every operation list with 32-bit payloads. *)
Theorem C10_restore_of_snapshot_is_identity : forall pad st,
  Forall (fun p => p < 4294967296) st -> N.of_nat (length st) < 4294967296 ->
  fsm_unsnap (fsm_snap pad st) = st.
Proof. exact fsm_unsnap_snap. Qed.
Print Assumptions C10_restore_of_snapshot_is_identity.

Example C10_nonvacuous : fsm_unsnap (fsm_snap 5 [7; 8; 9]) = [7; 8; 9].
Proof. reflexivity. Qed.
