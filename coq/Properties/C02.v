(* C02 Election safety
   Full-strength statement: C02_statement (Cluster/Statements.v). Proved so far: the theorems below; what is
   not yet proved is decided on every run by the lock-step co-simulation (model = implementation on every
   explored schedule) together with the monitors run on the implementation's own observations. *)
From RaftV Require Import Cluster.Statements Proofs.RVSpec Proofs.AESpec.
Open Scope N_scope.

(* RequestVote, every voter state x every request *)
Theorem C02_prevote_pure : forall now n q, rv_prevote q = true -> fst (h_request_vote now n q) = n.
Proof. exact rv_prevote_pure. Qed.
Print Assumptions C02_prevote_pure.

Theorem C02_vote_refused_if_voted_other : forall now n q v,
  rv_prevote q = false -> rv_term q = n_term n -> n_vote n = Some v -> v <> rv_cand q ->
  rv_granted (snd (h_request_vote now n q)) = false /\ n_vote (fst (h_request_vote now n q)) = Some v.
Proof. exact rv_already_voted. Qed.
Print Assumptions C02_vote_refused_if_voted_other.
