(* C02 Election safety
   Full-strength statement: C02_statement (Cluster/Statements.v): in every execution without membership changes -
   every delivery order, loss, duplication, delay, crash at any storage write, restart, snapshot - two nodes that
   are leader in the same term, at any two points of the execution, are the same node.  PROVED below
   (C02_election_safety), and so is the second sentence of the property (C02_requests_of_a_term_name_one_leader: all
   AppendEntries / InstallSnapshot requests ever sent that carry one term name one leader - the winner of that
   term); the node-level theorems that follow it are the facts about single sections the proof
   and the correspondence check rest on.  The tie of the model to the code is the lock-step co-simulation. *)
From RaftV Require Import Cluster.Statements Proofs.RVSpec Proofs.AESpec Proofs.ElectSpec Proofs.Names Proofs.ElectSafety.
From RaftV Require Import Cluster.World Proofs.ConfStatic Proofs.LogInv Proofs.OneLeader.
Open Scope N_scope.

(* C02, first clause, at full strength: every cluster size, every schedule, no bound on terms or steps *)
Theorem C02_election_safety : C02_statement.
Proof. exact election_safety. Qed.
Print Assumptions C02_election_safety.

(* C02, second sentence, cluster level, every execution without membership changes (snapshots, crashes, restarts,
   any delivery order included): any two AppendEntries / InstallSnapshot requests in the history of RPCs that carry
   the same term name the same leader ... *)
Theorem C02_requests_of_a_term_name_one_leader : forall ids boot et ld ls, static ls = true ->
  let w := run (init_world ids boot et ld) ls in
  forall k1 k2 T, In k1 (w_calls w) -> In k2 (w_calls w) -> req_term k1 = Some T -> req_term k2 = Some T ->
    req_leader k1 = req_leader k2.
Proof. exact requests_of_a_term_name_one_leader. Qed.
Print Assumptions C02_requests_of_a_term_name_one_leader.

(* ... namely their sender, which has won that term (a voter backed by recorded votes of a majority). *)
Theorem C02_requests_of_a_term_come_from_its_winner : forall ids boot et ld ls, static ls = true ->
  let w := run (init_world ids boot et ld) ls in
  forall k T, In k (w_calls w) -> req_term k = Some T ->
    lead (bootconf boot) (w_calls w) (c_src k) T /\ req_leader k = Some (c_src k).
Proof. exact requests_of_a_term_come_from_its_winner. Qed.
Print Assumptions C02_requests_of_a_term_come_from_its_winner.

(* the statement is not vacuous: a static schedule of three nodes after which node 0 leads term 1 *)
Definition c02_labels : list label :=
  [LTick 4; LElection 0; LElectionRun 0; LTask 0; LTask 0; LDeliver 0; LReply 0; LElectionRun 0; LTask 0; LTask 0;
   LDeliver 1; LReply 1; LDeliver 2; LReply 2].
Example C02_not_vacuous :
  static c02_labels = true /\ leader_of (run (init_world [0; 1; 2] [0; 1; 2] 4 2) c02_labels) 0 1.
Proof.
  split; [reflexivity|]. unfold leader_of.
  set (ns := w_nodes (run (init_world [0; 1; 2] [0; 1; 2] 4 2) c02_labels)).
  assert (H : existsb (fun n => (n_id n =? 0) && role_eqb (n_role n) Leader && (n_term n =? 1)) ns = true)
    by (vm_compute; reflexivity).
  clearbody ns.
  apply existsb_exists in H. destruct H as (n & Hn & Hb). apply andb_prop in Hb. destruct Hb as [Hb H3].
  apply andb_prop in Hb. destruct Hb as [H1 H2]. exists n. split; [exact Hn|]. split; [apply N.eqb_eq, H1|].
  split; [destruct (n_role n); try discriminate; reflexivity|apply N.eqb_eq, H3].
Qed.

(* RequestVote, every voter state x every request *)
Theorem C02_prevote_pure : forall now n q, rv_prevote q = true -> fst (h_request_vote now n q) = n.
Proof. exact rv_prevote_pure. Qed.
Print Assumptions C02_prevote_pure.

Theorem C02_vote_refused_if_voted_other : forall now n q v,
  rv_prevote q = false -> rv_term q = n_term n -> n_vote n = Some v -> v <> rv_cand q ->
  rv_granted (snd (h_request_vote now n q)) = false /\ n_vote (fst (h_request_vote now n q)) = Some v.
Proof. exact rv_already_voted. Qed.
Print Assumptions C02_vote_refused_if_voted_other.

(* How a node becomes leader, for every node state and every vote reply: only by processing the reply to a REAL vote
   request (of a term not older than its own) while it is a (pre)candidate and the votes counted for that election -
   its own and the granted replies, this one included - are a majority of the voters of its configuration ... *)
Theorem C02_leader_only_with_counted_majority : forall now n rid peer pv q p,
  n_role n <> Leader -> n_role (l_rv_reply now n rid peer pv q p) = Leader ->
  pv = false /\ n_term n <= rv_term q /\
  let n1 := if rvr_granted p then bump_round n rid else n in
  has_quorum (conf_of n1) (round_count n1 rid) = true /\
  (n_role n = Candidate \/ n_role n = PreCandidate).
Proof. exact rv_reply_becomes_leader. Qed.
Print Assumptions C02_leader_only_with_counted_majority.

(* ... or, in election(), as the only voter of its configuration, and then in a term of its own (fix D21). *)
Theorem C02_single_voter_election_takes_a_new_term : forall now n,
  n_role n <> Leader -> n_role (l_election now n) = Leader ->
  is_single (conf_of n) (n_id n) = true /\ n_term (l_election now n) = n_term n + 1.
Proof. exact election_becomes_leader. Qed.
Print Assumptions C02_single_voter_election_takes_a_new_term.

(* C02, second clause, cluster level, every schedule (membership changes, crashes, restarts included): every request
   ever sent names its sender - an AppendEntries or InstallSnapshot request names the node that sent it as leader,
   a RequestVote request names its sender as candidate. *)
Theorem C02_requests_name_their_sender : forall ids boot et ld ls c,
  In c (w_calls (run (init_world ids boot et ld) ls)) -> named c.
Proof. intros ids boot et ld ls. exact (requests_name_their_sender ids boot et ld ls). Qed.
Print Assumptions C02_requests_name_their_sender.

(* ... and a new AppendEntries / InstallSnapshot request leaves a node (the goroutine at the head of its run queue)
   only while that node's role is Leader, carrying that node's current term. *)
Theorem C02_requests_are_sent_by_the_leader_of_their_term : forall w m c,
  get_node w (n_id m) = Some m ->
  In c (w_calls (step_task w m)) -> ~ In c (w_calls w) -> from_leader w c.
Proof. exact task_request_from_leader. Qed.
Print Assumptions C02_requests_are_sent_by_the_leader_of_their_term.
