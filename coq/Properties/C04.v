(* C04 Acknowledged operations are on a majority's disk
   Full-strength statement: C04 (see DESIGN.md section 7) (Cluster/Statements.v). Proved so far: the theorems below; what is
   not yet proved is decided on every run by the lock-step co-simulation (model = implementation on every
   explored schedule) together with the monitors run on the implementation's own observations. *)
From RaftV Require Import Cluster.World Cluster.Statements Proofs.RVSpec Proofs.AESpec Proofs.CommitSpec Proofs.ReplySpec.
From RaftV Require Import Proofs.ConfStatic Proofs.ElectSafety Proofs.LCFinal Proofs.LCAck.
Open Scope N_scope.

(* cluster level, every schedule without membership changes and snapshots (crash at any storage write and restart
   of any set of nodes included; n_log is the log as it is on disk): from the moment an operation is applied
   anywhere, at every later point of the execution its entry - same index, term and bytes - is in the persistent
   log of every node of some majority of the voters. (That every node applying that index applies that operation
   is C01_state_machine_safety_partial.) Uses excluded middle (axiom `classic`). *)
Theorem C04_applied_durable_on_majority : forall ids boot et ld ls1 ls2,
  static (ls1 ++ ls2) = true -> nosnap (ls1 ++ ls2) = true ->
  let w1 := run (init_world ids boot et ld) ls1 in
  let w2 := run w1 ls2 in
  forall i t p, applied_in w1 i t p ->
  exists e V, e_index e = i /\ e_term e = t /\ e_kind e = KOp p /\
    NoDup V /\ incl V (voters (bootconf boot)) /\ (length (voters (bootconf boot)) < 2 * length V)%nat /\
    forall nv, In nv (w_nodes w2) -> In (n_id nv) V -> In e (n_log nv).
Proof. exact applied_durable_on_majority. Qed.
Print Assumptions C04_applied_durable_on_majority.

(* "At the moment a replicated operation is acknowledged to a client ...": cluster level, same executions. A client
   future answered with the success result FOp index term payload (acked_op, Proofs/LCAck.v: the pair is in the
   answer history n_results of some node) means: at that point and at every later point of the execution, after
   any crashes and restarts, the entry with that index, term and payload is in the on-disk log of every node of
   some majority of the voters ... *)
Theorem C04_acknowledged_durable_on_majority : forall ids boot et ld ls1 ls2,
  static (ls1 ++ ls2) = true -> nosnap (ls1 ++ ls2) = true ->
  let w1 := run (init_world ids boot et ld) ls1 in
  let w2 := run w1 ls2 in
  forall i t p, acked_op w1 i t p ->
  exists e V, e_index e = i /\ e_term e = t /\ e_kind e = KOp p /\
    NoDup V /\ incl V (voters (bootconf boot)) /\ (length (voters (bootconf boot)) < 2 * length V)%nat /\
    forall nv, In nv (w_nodes w2) -> In (n_id nv) V -> In e (n_log nv).
Proof. exact acknowledged_durable_on_majority. Qed.
Print Assumptions C04_acknowledged_durable_on_majority.

(* ... and every node that applies that index, at any later point, applies that operation. *)
Theorem C04_acknowledged_then_applied_everywhere : forall ids boot et ld ls1 ls2,
  static (ls1 ++ ls2) = true -> nosnap (ls1 ++ ls2) = true ->
  let w1 := run (init_world ids boot et ld) ls1 in
  let w2 := run w1 ls2 in
  forall i t p t' p', acked_op w1 i t p -> applied_in w2 i t' p' -> t = t' /\ p = p'.
Proof. exact acknowledged_then_applied. Qed.
Print Assumptions C04_acknowledged_then_applied_everywhere.

(* not vacuous: a schedule (3 nodes) in which node 0 is elected in term 1, replicates, commits and applies the
   operation 7 at index 3 (first point: c07_ls1), then node 1 applies it and is elected in term 2 (second point) *)
Definition c07_ls1 : list label :=
  [LTick 4; LElection 0; LElectionRun 0; LTask 0; LTask 0; LDeliver 0; LReply 0; LElectionRun 0; LTask 0; LTask 0;
   LDeliver 1; LReply 1; LDeliver 2; LReply 2; LTask 0; LTask 0; LDeliver 4; LDeliver 5;
   LReply 4; LReply 5; LCommit 0; LApply 0; LSubmit 0 OReplicated 7; LTask 0; LTask 0;
   LDeliver 6; LDeliver 7; LReply 6; LReply 7; LCommit 0; LApply 0; LTask 0; LTask 0].
Definition c07_ls2 : list label :=
  [LDeliver 8; LDeliver 9; LApply 1; LTick 20; LElection 1; LElectionRun 1; LTask 1; LTask 1;
   LDeliver 11; LReply 11; LElectionRun 1; LTask 1; LTask 1; LDeliver 13; LReply 13].
Definition c07_view (w : world) :=
  map (fun n => (n_role n, n_frozen n, n_term n, n_commit n, n_applies n, map (fun e => (e_index e, e_term e)) (n_log n))) (w_nodes w).
Example C04_cluster_not_vacuous :
  static (c07_ls1 ++ c07_ls2) = true /\ nosnap (c07_ls1 ++ c07_ls2) = true /\
  let w1 := run (init_world [0; 1; 2] [0; 1; 2] 4 2) c07_ls1 in
  let w2 := run w1 c07_ls2 in
  c07_view w1 = [(Leader, false, 1, 3, [(3, 1, 7)], [(0, 0); (1, 1); (2, 1); (3, 1)]);
                 (Follower, false, 1, 2, [], [(0, 0); (1, 1); (2, 1); (3, 1)]);
                 (Follower, false, 1, 2, [], [(0, 0); (1, 1); (2, 1); (3, 1)])] /\
  c07_view w2 = [(Leader, false, 1, 3, [(3, 1, 7)], [(0, 0); (1, 1); (2, 1); (3, 1)]);
                 (Leader, false, 2, 3, [(3, 1, 7)], [(0, 0); (1, 1); (2, 1); (3, 1); (4, 2)]);
                 (Follower, false, 2, 3, [], [(0, 0); (1, 1); (2, 1); (3, 1)])].
Proof. split; [reflexivity|]. split; [reflexivity|]. cbn zeta. split; vm_compute; reflexivity. Qed.

(* in that schedule the client's future 0 has been answered at the first point: operation 7, index 3, term 1 *)
Example C04_acknowledged_not_vacuous :
  map n_results (w_nodes (run (init_world [0; 1; 2] [0; 1; 2] 4 2) c07_ls1)) = [[(0, FOp 3 1 7 1)]; []; []].
Proof. vm_compute. reflexivity. Qed.

(* becomeFollower (every term change, every step-down) never touches the commit index, the applied index, the
   snapshot boundary, the stored snapshots, the state machine or its apply history *)
Theorem C04_step_down_frame : forall now n l t, vol (become_follower now n l t) = vol n.
Proof. exact vol_become_follower. Qed.
Print Assumptions C04_step_down_frame.

(* commitLoop, for every node state: the commit index only moves forward, only on a leader, and only to an entry of
   the leader's own term whose index a majority of the voters of its configuration have acknowledged (matchIndex),
   the leader counting itself only if it is a voter (fix D22). *)
Theorem C04_commit_needs_voter_majority : forall now n,
  let n' := lp_commit now n in
  n_commit n <= n_commit n' /\
  (n_commit n < n_commit n' ->
   n_role n = Leader /\
   exists e, In e (n_log n) /\ e_index e = n_commit n' /\ e_term e = n_term n /\
             has_quorum (conf_of n) (count_matches n (e_index e)) = true).
Proof. exact lp_commit_spec. Qed.
Print Assumptions C04_commit_needs_voter_majority.

(* sendAppendEntries after the RPC, for every leader state and every reply: the matchIndex of a follower changes only
   through a SUCCESS reply of that follower to a request sent in the CURRENT term (fix D1), and becomes prev + len. *)
Theorem C04_match_index_only_by_current_term_success : forall now n rid peer g q r p,
  let n' := fst (l_ae_reply now n rid peer g q r) in
  fm n' p <> fm n p ->
  p = peer /\ aer_success r = true /\ ae_term q = n_term n /\ n_role n = Leader /\ aer_term r <= n_term n /\
  fm n' p = ae_prev_index q + N.of_nat (length (ae_entries q)).
Proof. exact ae_reply_match. Qed.
Print Assumptions C04_match_index_only_by_current_term_success.
