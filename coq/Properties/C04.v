(* C04 Acknowledged operations are on a majority's disk
   Full-strength statement: C04 (see DESIGN.md section 7) (Cluster/Statements.v). Proved so far: the theorems below; what is
   not yet proved is decided on every run by the lock-step co-simulation (model = implementation on every
   explored schedule) together with the monitors run on the implementation's own observations. *)
From RaftV Require Import Cluster.Statements Proofs.RVSpec Proofs.AESpec Proofs.CommitSpec Proofs.ReplySpec.
Open Scope N_scope.

(* becomeFollower (every term change, every step-down) never touches the commit index, the applied index, the
   snapshot boundary, the stored snapshots, the state machine or its apply history *)
Theorem C04_step_down_frame : forall now n l t, vol (become_follower now n l t) = vol n.
Proof. exact vol_become_follower. Qed.
Print Assumptions C04_step_down_frame.

(* commitLoop, for every node state: the commit index only moves forward, only on a leader, and only to an entry of
   the leader's own term whose index a majority of the voters of its configuration have acknowledged (matchIndex),
   the leader counting itself only if it is a voter (fix D22). *)
Theorem C04_commit_needs_voter_majority : forall now n,
  let n' := lp_commit now n in
  n_commit n <= n_commit n' /\
  (n_commit n < n_commit n' ->
   n_role n = Leader /\
   exists e, In e (n_log n) /\ e_index e = n_commit n' /\ e_term e = n_term n /\
             has_quorum (conf_of n) (count_matches n (e_index e)) = true).
Proof. exact lp_commit_spec. Qed.
Print Assumptions C04_commit_needs_voter_majority.

(* sendAppendEntries after the RPC, for every leader state and every reply: the matchIndex of a follower changes only
   through a SUCCESS reply of that follower to a request sent in the CURRENT term (fix D1), and becomes prev + len. *)
Theorem C04_match_index_only_by_current_term_success : forall now n rid peer g q r p,
  let n' := fst (l_ae_reply now n rid peer g q r) in
  fm n' p <> fm n p ->
  p = peer /\ aer_success r = true /\ ae_term q = n_term n /\ n_role n = Leader /\ aer_term r <= n_term n /\
  fm n' p = ae_prev_index q + N.of_nat (length (ae_entries q)).
Proof. exact ae_reply_match. Qed.
Print Assumptions C04_match_index_only_by_current_term_success.
