(* C02 (second sentence), cluster level, every execution with a static configuration (snapshots included):
   all AppendEntries / InstallSnapshot requests that carry a given term name the same leader.
   Every such request was created by a node that was Leader of that term at that moment (the head task of a
   running node, or sendAppendEntries continuing with sendInstallSnapshot after a rejection); a leader has won
   its term (XInv); "has won" survives in the history of calls; two winners of one term are the same node;
   and every request names its sender (Names). *)
From RaftV Require Import Cluster.World Cluster.Statements Proofs.Frame Proofs.RVSpec.
From RaftV Require Import Proofs.ConfNode Proofs.ConfStatic Proofs.ConfSticky.
From RaftV Require Import Proofs.Votes Proofs.VoteRecords Proofs.Names Proofs.ElectSpec.
From RaftV Require Import Proofs.ElectDefs Proofs.ElectBook Proofs.ElectWorld Proofs.ElectRun Proofs.ElectSafety.
From RaftV Require Import Proofs.LogInv.
Open Scope N_scope.

Definition req_term (k : call) : option N :=
  match c_req k with ReqAE q => Some (ae_term q) | ReqIS q => Some (is_term q) | ReqRV _ => None end.
Definition req_leader (k : call) : option N :=
  match c_req k with ReqAE q => Some (ae_leader q) | ReqIS q => Some (is_leader q) | ReqRV _ => None end.

(* ---------------- the nodes of a world are never added or removed ---------------- *)
Definition NIDS (w w' : world) : Prop := map n_id (w_nodes w') = map n_id (w_nodes w).
Lemma NIDS_refl w : NIDS w w. Proof. reflexivity. Qed.
Lemma NIDS_set_node w w1 m : NIDS w w1 -> NIDS w (set_node w1 m).
Proof.
  unfold NIDS. intros <-. unfold set_node. cbn [w_nodes set]. rewrite map_map. apply map_ext. intros x.
  destruct (N.eqb_spec (n_id x) (n_id m)) as [E|E]; [symmetry; exact E|reflexivity].
Qed.
Lemma NIDS_on_node w w1 id f : NIDS w w1 -> NIDS w (on_node w1 id f).
Proof. intros H. unfold on_node. destruct (get_node w1 id); [apply NIDS_set_node, H|exact H]. Qed.
Lemma NIDS_set_call w w1 c : NIDS w w1 -> NIDS w (set_call w1 c).
Proof. intros H. exact H. Qed.
Lemma NIDS_new_call w w1 a b r g q : NIDS w w1 -> NIDS w (new_call w1 a b r g q).
Proof. intros H. exact H. Qed.
Lemma NIDS_drop w w1 id : NIDS w w1 -> NIDS w (drop_calls_of w1 id).
Proof. intros H. exact H. Qed.
Lemma NIDS_fid w w1 : NIDS w w1 -> NIDS w (w1 <| w_next_fid ::= N.succ |>).
Proof. intros H. exact H. Qed.
Lemma NIDS_now w w1 t : NIDS w w1 -> NIDS w (w1 <| w_now := t |>).
Proof. intros H. exact H. Qed.

Ltac nids_step :=
  match goal with
  | |- NIDS _ (match ?x with _ => _ end) => destruct x
  | |- NIDS _ (if ?x then _ else _) => destruct x
  | |- NIDS _ (let (_, _) := ?x in _) => destruct x
  | |- NIDS ?w ?w => apply NIDS_refl
  | |- NIDS _ (set_call _ _) => apply NIDS_set_call
  | |- NIDS _ (new_call _ _ _ _ _ _) => apply NIDS_new_call
  | |- NIDS _ (drop_calls_of _ _) => apply NIDS_drop
  | |- NIDS _ (set_node _ _) => apply NIDS_set_node
  | |- NIDS _ (on_node _ _ _) => apply NIDS_on_node
  | |- NIDS _ (_ <| w_next_fid ::= _ |>) => apply NIDS_fid
  | |- NIDS _ (_ <| w_now := _ |>) => apply NIDS_now
  end.

Lemma step_NIDS w l : NIDS w (step w l).
Proof.
  destruct l; cbn [step]; unfold fresh_fid, step_deliver, step_reply, step_task; cbn zeta; repeat nids_step.
Qed.

Lemma NIDS_forward w w' n : NIDS w w' -> In n (w_nodes w) -> exists n', In n' (w_nodes w') /\ n_id n' = n_id n.
Proof.
  unfold NIDS. intros E Hn. assert (H : In (n_id n) (map n_id (w_nodes w'))) by (rewrite E; apply in_map, Hn).
  apply in_map_iff in H. destruct H as (n' & A & B). exists n'. auto.
Qed.

(* ---------------- where a call of the next world comes from ---------------- *)
(* it continues a call of the world (same sender, same request), or - if it is an AppendEntries / InstallSnapshot
   request - it was sent by a node of the world whose role is Leader, with that node's term *)
Definition origin (w : world) (k' : call) : Prop :=
  (exists k, In k (w_calls w) /\ c_src k' = c_src k /\ c_req k' = c_req k) \/
  (forall T, req_term k' = Some T -> exists n, In n (w_nodes w) /\ n_id n = c_src k' /\ n_role n = Leader /\ T = n_term n).

Definition OR (w : world) (cs : list call) : Prop := forall k', In k' cs -> origin w k'.

Lemma OR_refl w : OR w (w_calls w).
Proof. intros k Hk. left. exists k. auto. Qed.

Lemma OR_upd w cs c c0 : OR w cs -> In c (w_calls w) -> c_src c0 = c_src c -> c_req c0 = c_req c -> OR w (upd_call c0 cs).
Proof.
  intros H Hc E1 E2 k' Hk'. apply in_upd_call in Hk'. destruct Hk' as [Hk'|[-> _]]; [apply H, Hk'|].
  left. exists c. auto.
Qed.

Lemma OR_app w cs k : OR w cs -> origin w k -> OR w (cs ++ [k]).
Proof. intros H Hk k' Hk'. apply in_app_or in Hk'. destruct Hk' as [Hk'|[<-|[]]]; [apply H, Hk'|exact Hk]. Qed.

Lemma OR_map w (g : call -> call) :
  (forall c, c_src (g c) = c_src c /\ c_req (g c) = c_req c) -> OR w (map g (w_calls w)).
Proof.
  intros Hg k' Hk'. apply in_map_iff in Hk'. destruct Hk' as (d & <- & Hd). left. exists d. destruct (Hg d). auto.
Qed.

Lemma origin_rv w a b r g i q :
  origin w {| c_id := i; c_src := a; c_dst := b; c_round := r; c_fgen := g; c_req := ReqRV q; c_resp := None; c_state := CPending |}.
Proof. right. intros T H. discriminate H. Qed.

(* sendAppendEntries continues with sendInstallSnapshot only on a node that is still Leader of the term *)
Lemma role_set_fobj n id g f : n_role (set_fobj n id g f) = n_role n.
Proof. unfold set_fobj. destruct (_ =? g); reflexivity. Qed.
Lemma term_set_fobj n id g f : n_term (set_fobj n id g f) = n_term n.
Proof. unfold set_fobj. destruct (_ =? g); reflexivity. Qed.

Lemma ae_reply_leader now n rid peer g q p n1 isq :
  l_ae_reply now n rid peer g q p = (n1, Some isq) -> n_role n = Leader /\ is_term isq = n_term n.
Proof.
  unfold l_ae_reply.
  destruct (role_eqb (n_role n) Leader) eqn:ER.
  2:{ rewrite Bool.orb_true_r. discriminate. }
  assert (HL : n_role n = Leader) by (destruct (n_role n); try discriminate; reflexivity).
  destruct (_ || _); [discriminate|].
  destruct (n_term n <? aer_term p); [discriminate|]. destruct (negb _); [discriminate|].
  set (m1 := if is_voter (conf_of n) peer then bump_round n rid else n).
  set (m2 := if is_voter (conf_of n) peer && has_quorum (conf_of m1) (round_count m1 rid)
             then try_apply_ro now m1 (round_stamp m1 rid) else m1).
  assert (I2 : n_term m2 = n_term n).
  { subst m2 m1. destruct (is_voter (conf_of n) peer); cbn [andb]; [|reflexivity]. destruct (has_quorum _ _); reflexivity. }
  clearbody m2. clear m1.
  destruct (negb (aer_success p)).
  - set (m3 := set_fobj m2 peer g _). assert (I3 : n_term m3 = n_term n) by (subst m3; rewrite term_set_fobj; exact I2).
    clearbody m3. destruct (aer_index p <=? n_lii m3); [|discriminate].
    intros H. destruct (l_is_send m3 peer) as [m [q'|]] eqn:E; [|discriminate].
    injection H as _ <-. pose proof (is_send_term _ _ _ _ E) as E1. split; [exact HL|congruence].
  - destruct (f_match (fobj m2 peer g) <? _); discriminate.
Qed.

Lemma OR_step_deliver w cl dup : In cl (w_calls w) -> OR w (w_calls (step_deliver w cl dup)).
Proof.
  intros Gin.
  assert (H1 : forall w1 r st, w_calls w1 = w_calls w -> OR w (w_calls (set_call w1 (cl <| c_resp := r |> <| c_state := st |>)))).
  { intros w1 r st E. change (w_calls (set_call w1 (cl <| c_resp := r |> <| c_state := st |>)))
      with (upd_call (cl <| c_resp := r |> <| c_state := st |>) (w_calls w1)).
    rewrite E. apply OR_upd with (c := cl); [apply OR_refl|exact Gin|reflexivity|reflexivity]. }
  assert (H2 : forall w1 st, w_calls w1 = w_calls w -> OR w (w_calls (set_call w1 (cl <| c_state := st |>)))).
  { intros w1 st E. change (w_calls (set_call w1 (cl <| c_state := st |>))) with (upd_call (cl <| c_state := st |>) (w_calls w1)).
    rewrite E. apply OR_upd with (c := cl); [apply OR_refl|exact Gin|reflexivity|reflexivity]. }
  unfold step_deliver. destruct (get_node w (c_dst cl)) as [n|].
  - destruct (n_frozen n); [destruct dup; [apply OR_refl|apply H2; reflexivity]|].
    destruct (run_handler (w_now w) n (c_req cl)) as [[n1 resp] parked].
    destruct dup; [exact (OR_refl w)|].
    destruct (n_frozen n1); [apply H2; reflexivity|].
    destruct resp; [apply H1; reflexivity|apply H2; reflexivity].
  - destruct dup; [apply OR_refl|apply H2; reflexivity].
Qed.

Lemma OR_step_reply w cl failed : In cl (w_calls w) -> OR w (w_calls (step_reply w cl failed)).
Proof.
  intros Gin. unfold step_reply.
  set (w0 := set_call w (cl <| c_state := CDone |>)).
  assert (H0 : OR w (w_calls w0)).
  { change (w_calls w0) with (upd_call (cl <| c_state := CDone |>) (w_calls w)).
    apply OR_upd with (c := cl); [apply OR_refl|exact Gin|reflexivity|reflexivity]. }
  clearbody w0.
  destruct (get_node w (c_src cl)) as [n|] eqn:G; [|exact H0].
  destruct (Votes.get_node_in _ _ _ G) as [Hn Eid].
  destruct (n_frozen n); [exact H0|].
  destruct (c_req cl) as [q|q|q]; destruct (if failed then None else c_resp cl) as [[p|p|p]|];
    try exact H0.
  destruct (l_ae_reply (w_now w) n (c_round cl) (c_dst cl) (c_fgen cl) q p) as [n1 [isq|]] eqn:E;
    [|exact H0].
  unfold new_call. cbn [w_calls set]. change (w_calls (set_node w0 n1)) with (w_calls w0).
  apply OR_app; [exact H0|].
  destruct (ae_reply_leader _ _ _ _ _ _ _ _ _ E) as [HL HT].
  right. intros T HT'. unfold req_term in HT'. cbn [c_req] in HT'. injection HT' as <-.
  exists n. cbn [c_src]. auto.
Qed.

Lemma OR_step_task w m : get_node w (n_id m) = Some m -> OR w (w_calls (step_task w m)).
Proof.
  intros G. destruct (Votes.get_node_in _ _ _ G) as [Hn _].
  unfold step_task. destruct (n_tasks m) as [|t rest]; [apply OR_refl|].
  set (m0 := m <| n_tasks := rest |>).
  assert (P0 : n_id m0 = n_id m /\ n_role m0 = n_role m /\ n_term m0 = n_term m) by (repeat split).
  clearbody m0. destruct P0 as (I0 & R0 & T0).
  destruct t as [rid peer pv|rid peer].
  - destruct (l_rv_send m0 rid peer pv) as [q|] eqn:E; [|exact (OR_refl w)].
    unfold new_call. cbn [w_calls set]. change (w_calls (set_node w m0)) with (w_calls w).
    apply OR_app; [apply OR_refl|apply origin_rv].
  - destruct (l_ae_send m0 peer) as [m1 s] eqn:E.
    pose proof (ae_send_named _ _ _ _ E) as HN. pose proof (ae_send_term _ _ _ _ E) as HT.
    destruct s as [|q|q]; [exact (OR_refl w)| |];
      unfold new_call; cbn [w_calls set]; change (w_calls (set_node w m1)) with (w_calls w);
      (apply OR_app; [apply OR_refl|]); destruct HN as [_ HL];
      right; intros T HT'; unfold req_term in HT'; cbn [c_req] in HT'; injection HT' as <-;
      exists m; cbn [c_src]; (split; [exact Hn|split; [reflexivity|split; [rewrite <- R0; exact HL|rewrite HT; exact T0]]]).
Qed.

Theorem step_origin w l : OR w (w_calls (step w l)).
Proof.
  destruct l; cbn [step]; try (rewrite calls_on_node; apply OR_refl); try exact (OR_refl w).
  - destruct (get_call w c) as [cl|] eqn:G; [|apply OR_refl]. destruct (VoteRecords.get_call_in _ _ _ G) as [Hin _].
    destruct (c_state cl); try apply OR_refl. apply OR_step_deliver, Hin.
  - destruct (get_call w c) as [cl|] eqn:G; [|apply OR_refl]. destruct (VoteRecords.get_call_in _ _ _ G) as [Hin _].
    apply OR_step_deliver, Hin.
  - destruct (get_call w c) as [cl|] eqn:G; [|apply OR_refl]. destruct (VoteRecords.get_call_in _ _ _ G) as [Hin _].
    destruct (c_state cl); try apply OR_refl. apply OR_step_reply, Hin.
  - destruct (get_call w c) as [cl|] eqn:G; [|apply OR_refl]. destruct (VoteRecords.get_call_in _ _ _ G) as [Hin _].
    destruct (c_state cl); try apply OR_refl; apply OR_step_reply, Hin.
  - unfold fresh_fid. rewrite calls_on_node. exact (OR_refl w).
  - unfold fresh_fid. rewrite calls_on_node. exact (OR_refl w).
  - unfold fresh_fid. rewrite calls_on_node. exact (OR_refl w).
  - unfold drop_calls_of. cbn [w_calls set]. rewrite calls_on_node.
    intros k' Hk'. apply in_map_iff in Hk'. destruct Hk' as (d & <- & Hd). left. exists d.
    destruct (c_src d =? n); auto.
  - destruct (get_node w n) as [m|] eqn:G; [|apply OR_refl]. destruct (is_up m); [|apply OR_refl].
    apply OR_step_task. eapply get_node_id; exact G.
  - destruct (get_node w n) as [m|]; [|apply OR_refl].
    destruct (lp_install_resume m) as [m1 [q|]]; [|apply OR_refl].
    match goal with |- OR _ (w_calls (match ?x with _ => _ end)) => destruct x as [c|] eqn:Ef end; [|exact (OR_refl w)].
    apply find_some in Ef. destruct Ef as [Hin _].
    match goal with |- OR _ (w_calls (set_call _ ?c')) => change (OR w (upd_call c' (w_calls w))) end.
    apply OR_upd with (c := c); [apply OR_refl|exact Hin|reflexivity|reflexivity].
Qed.

(* ---------------- the invariant ---------------- *)
Section OneLeader.
Variable C : config.

(* the sender of every AppendEntries / InstallSnapshot request ever sent has won the term the request carries *)
Definition RQL (w : world) : Prop :=
  forall k T, In k (w_calls w) -> req_term k = Some T ->
    lead C (w_calls w) (c_src k) T /\ exists n, In n (w_nodes w) /\ n_id n = c_src k.

Lemma leader_leads w L : XInv C w -> In L (w_nodes w) -> n_role L = Leader -> lead C (w_calls w) (n_id L) (n_term L).
Proof.
  intros HX HinL Hrole. assert (Hact : active (n_role L)) by (rewrite Hrole; unfold active; auto).
  destruct (x_l0 C w HX L HinL Hact) as [_ Hvoter]. split; [exact Hvoter|intros Hm; apply (x_l C w HX L HinL Hrole Hm)].
Qed.

Lemma RQL_init ids boot et ld : RQL (init_world ids boot et ld).
Proof. intros k T []. Qed.

Theorem step_RQL w l : XInv C w -> RQL w -> RQL (step w l).
Proof.
  intros HX HR k' T Hk' HT.
  pose proof (CP_step w l (x_v C w HX)) as HCP. pose proof (step_NIDS w l) as HI.
  destruct (step_origin w l k' Hk') as [(k & Hk & Es & Eq)|Hnew].
  - assert (HT0 : req_term k = Some T) by (unfold req_term in *; rewrite <- Eq; exact HT).
    destruct (HR k T Hk HT0) as [Hl (n & Hn & En)]. rewrite Es. split; [eapply lead_persist; eassumption|].
    destruct (NIDS_forward _ _ n HI Hn) as (n' & A & B). exists n'. split; [exact A|congruence].
  - destruct (Hnew T HT) as (n & Hn & En & Hrole & ->). rewrite <- En.
    split; [eapply lead_persist; [exact HCP|apply leader_leads; assumption]|].
    apply (NIDS_forward _ _ n HI Hn).
Qed.

Lemma RQL_run ls : NoDup (member_ids C) -> forall w, static ls = true -> WI C w -> XInv C w -> RQL w -> RQL (run w ls).
Proof.
  intros HC. induction ls as [|l ls IH]; intros w Hs HW HX HR; [exact HR|].
  destruct (static_cons _ _ Hs) as [H1 H2]. cbn [run fold_left].
  apply IH; [exact H2|apply step_WI; assumption|apply step_XInv; assumption|apply step_RQL; assumption].
Qed.

(* in a world that satisfies both invariants, the requests of one term have one sender and name it *)
Lemma RQL_one_leader w k1 k2 T :
  XInv C w -> RQL w -> In k1 (w_calls w) -> In k2 (w_calls w) -> req_term k1 = Some T -> req_term k2 = Some T ->
  c_src k1 = c_src k2 /\ req_leader k1 = Some (c_src k1) /\ req_leader k2 = Some (c_src k2).
Proof.
  intros HX HR H1 H2 T1 T2.
  destruct (HR k1 T H1 T1) as [L1 (n1 & Hn1 & _)]. destruct (HR k2 T H2 T2) as [L2 (n2 & Hn2 & _)].
  split; [exact (lead_unique C w _ _ T n1 n2 HX Hn1 Hn2 L1 L2)|].
  pose proof (x_n C w HX k1 H1) as N1. pose proof (x_n C w HX k2 H2) as N2.
  unfold named in N1, N2. unfold req_leader, req_term in *.
  split.
  - destruct (c_req k1); try discriminate T1; rewrite N1; reflexivity.
  - destruct (c_req k2); try discriminate T2; rewrite N2; reflexivity.
Qed.

End OneLeader.

(* every request carrying a term was sent by the node that won that term, and names it *)
Theorem requests_of_a_term_come_from_its_winner ids boot et ld ls : static ls = true ->
  let w := run (init_world ids boot et ld) ls in
  forall k T, In k (w_calls w) -> req_term k = Some T ->
    lead (bootconf boot) (w_calls w) (c_src k) T /\ req_leader k = Some (c_src k).
Proof.
  intros Hs. cbn zeta. set (C := bootconf boot). pose proof (bootconf_nodup boot) as HC. fold C in HC.
  set (w0 := init_world ids boot et ld).
  destruct (XInv_run C ls HC w0 Hs (WI_init ids boot et ld) (XInv_init C ids boot et ld)) as [HX _].
  pose proof (RQL_run C ls HC w0 Hs (WI_init ids boot et ld) (XInv_init C ids boot et ld) (RQL_init C ids boot et ld)) as HR.
  intros k T Hk HT. split; [apply (HR k T Hk HT)|].
  apply (RQL_one_leader C _ k k T HX HR Hk Hk HT HT).
Qed.

Theorem requests_of_a_term_name_one_leader ids boot et ld ls : static ls = true ->
  let w := run (init_world ids boot et ld) ls in
  forall k1 k2 T, In k1 (w_calls w) -> In k2 (w_calls w) -> req_term k1 = Some T -> req_term k2 = Some T ->
    req_leader k1 = req_leader k2.
Proof.
  intros Hs. cbn zeta. set (C := bootconf boot). pose proof (bootconf_nodup boot) as HC. fold C in HC.
  set (w0 := init_world ids boot et ld).
  destruct (XInv_run C ls HC w0 Hs (WI_init ids boot et ld) (XInv_init C ids boot et ld)) as [HX _].
  pose proof (RQL_run C ls HC w0 Hs (WI_init ids boot et ld) (XInv_init C ids boot et ld) (RQL_init C ids boot et ld)) as HR.
  intros k1 k2 T H1 H2 T1 T2.
  destruct (RQL_one_leader C _ k1 k2 T HX HR H1 H2 T1 T2) as (E & L1 & L2). rewrite L1, L2, E. reflexivity.
Qed.

Print Assumptions requests_of_a_term_name_one_leader.
Print Assumptions requests_of_a_term_come_from_its_winner.
