(* Commit backing in every reachable world (no membership changes, no snapshots), and the two theorems it gives:
   leader completeness (C07_statement: an entry known committed at a term is in the log of every leader of a
   later term, at any later point of the execution) and state machine safety (two applications of one index agree). *)
From Coq Require Import Classical.
From RaftV Require Import Cluster.World Cluster.Statements Proofs.Frame Proofs.RVSpec Proofs.AESpec.
From RaftV Require Import Proofs.ConfNode Proofs.ConfStatic Proofs.Votes Proofs.VoteRecords Proofs.Names.
From RaftV Require Import Proofs.ElectDefs Proofs.ElectBook Proofs.ElectWorld Proofs.ElectRun Proofs.ElectSafety.
From RaftV Require Import Proofs.LogDefs Proofs.LogSeg Proofs.LogUni Proofs.LogInv Proofs.NoSnap Proofs.TaePeer Proofs.LogRun Proofs.LogMatching
                          Proofs.StepCases Proofs.SortedTerms Proofs.ReachInd Proofs.ReqTerm Proofs.TermLe Proofs.MatchAck Proofs.Tails
                          Proofs.LCDefs Proofs.LCHist Proofs.LCCore Proofs.LCStep Proofs.LCStep2 Proofs.LCCtx Proofs.LCtt Proofs.LCClauses Proofs.LCReach
                          Proofs.LCPersist Proofs.LCChain Proofs.LCReq Proofs.LCQuorum Proofs.FollowerKeys Proofs.CommitSteps Proofs.LCBack.
Open Scope N_scope.

Lemma CBI_init ids boot et ld : CBI (bootconf boot) (init_world ids boot et ld).
Proof.
  constructor.
  - intros n Hn _ Hc. destruct (init_cap ids boot et ld n Hn) as [E _]. lia.
  - intros k q [].
  - intros n i t p Hn Hin. destruct (init_cap ids boot et ld n Hn) as [_ E]. rewrite E in Hin. destruct Hin.
Qed.

Theorem CBI_reach ids boot et ld ls : static ls = true -> nosnap ls = true ->
  CBI (bootconf boot) (run (init_world ids boot et ld) ls).
Proof.
  induction ls as [|l ls IH] using rev_ind; intros Hs Hn; [apply CBI_init|].
  destruct (static_snoc _ _ Hs) as [S1 S2]. destruct (nosnap_snoc _ _ Hn) as [N1 N2].
  destruct (ctx_reach ids boot et ld ls l Hs Hn) as [HC E]. rewrite E. apply step_CBI; auto.
  - apply RQI_reach; assumption.
  - intros n Hin. apply (fk_run ids boot et ld ls n Hin).
Qed.

Lemma run_app w a b : run (run w a) b = run w (a ++ b).
Proof. unfold run. rewrite fold_left_app. reflexivity. Qed.

(* an acknowledged entry and its chain persist along the execution *)
Lemma chain_run ids boot et ld ls1 ls2 ej i ec : static (ls1 ++ ls2) = true -> nosnap (ls1 ++ ls2) = true ->
  let w1 := run (init_world ids boot et ld) ls1 in
  let w2 := run w1 ls2 in
  is_entry w1 ej -> committed (bootconf boot) (w_calls w1) ej -> 1 <= i -> i <= e_index ej -> chain_at w1 ej i ec ->
  is_entry w2 ej /\ committed (bootconf boot) (w_calls w2) ej /\ chain_at w2 ej i ec.
Proof.
  cbn zeta. induction ls2 as [|l ls IH] using rev_ind; intros Hs Hn He Hc H1 Hi Hch; [cbn; auto|].
  rewrite app_assoc in Hs, Hn. destruct (static_snoc _ _ Hs) as [S1 _]. destruct (nosnap_snoc _ _ Hn) as [N1 _].
  destruct (IH S1 N1 He Hc H1 Hi Hch) as (He2 & Hc2 & Hch2).
  destruct (ctx_reach ids boot et ld (ls1 ++ ls) l Hs Hn) as [HC E].
  rewrite run_app, app_assoc, E. rewrite run_app in He2, Hc2, Hch2.
  pose proof (committed_mono _ _ _ HC ej Hc2) as Hc3. pose proof (committed_not_dead _ _ ej Hc3) as Hnd.
  split; [apply (entry_persists _ _ _ HC ej He2 Hnd)|]. split; [exact Hc3|].
  apply (chain_persists _ _ _ HC ej i ec He2 Hnd H1 Hi Hch2).
Qed.

Lemma static_app1 a b : static (a ++ b) = true -> static a = true.
Proof. intros H. apply (static_app _ _ H). Qed.
Lemma nosnap_app1 a b : nosnap (a ++ b) = true -> nosnap a = true.
Proof. intros H. apply (nosnap_app _ _ H). Qed.

(* ---------------- C07: leader completeness ---------------- *)
Theorem leader_completeness_gen ids boot et ld ls1 ls2 : static (ls1 ++ ls2) = true -> nosnap (ls1 ++ ls2) = true ->
  let w1 := run (init_world ids boot et ld) ls1 in
  let w2 := run w1 ls2 in
  forall e T n1 L, In n1 (w_nodes w1) -> n_frozen n1 = false -> In e (n_log n1) -> e_index e <= n_commit n1 -> n_term n1 <= T ->
    In L (w_nodes w2) -> n_role L = Leader -> T < n_term L -> In e (n_log L).
Proof.
  intros Hs Hn. cbn zeta. intros e T n1 L Hn1 Hfz1 Hin Hidx Hterm HL Hrole HT.
  pose proof (static_app1 _ _ Hs) as S1. pose proof (nosnap_app1 _ _ Hn) as N1.
  rewrite run_app in HL.
  set (C := bootconf boot) in *. set (w1 := run (init_world ids boot et ld) ls1) in *.
  set (w2 := run (init_world ids boot et ld) (ls1 ++ ls2)) in *.
  pose proof (facts_reach ids boot et ld ls1 S1 N1) as HF1. pose proof (facts_reach ids boot et ld _ Hs Hn) as HF2.
  fold C in HF1, HF2. fold w1 in HF1. fold w2 in HF2.
  pose proof (f_all C w1 HF1) as HA1. pose proof (f_all C w2 HF2) as HA2.
  destruct (ns_nodes _ (a_ns _ _ HA1) n1 Hn1) as (_ & _ & _ & _ & _ & (r1 & Er1)).
  destruct (ns_nodes _ (a_ns _ _ HA2) L HL) as (_ & _ & _ & _ & _ & (rL & ErL)).
  assert (Hs1 : is_seg w1 (seg_of_log (n_log n1))) by (left; exists n1; auto).
  pose proof (lm_wf C w1 (a_lm _ _ HA1) _ Hs1) as Hwf1. rewrite Er1 in Hwf1.
  rewrite Er1 in Hin. destruct Hin as [<-|Hin]; [rewrite ErL; left; reflexivity|].
  pose proof (in_log_eget r1 e Hwf1 Hin) as Ee. rewrite <- Er1 in Ee.
  destruct (eget_range _ _ _ Ee) as [Hb _]. cbn [sg_base seg_of_log] in Hb.
  destruct (N.eq_dec (e_index e) 1) as [E1|Hne].
  - rewrite E1 in Ee. pose proof (lm_one C w1 (a_lm _ _ HA1) _ e Hs1 Ee) as ->.
    assert (Hact : active (n_role L)) by (rewrite Hrole; unfold active; auto).
    destruct (x_l0 C w2 (a_x _ _ HA2) L HL Hact) as [_ Hvoter].
    destruct (lm_boot C w2 (a_lm _ _ HA2) L HL Hvoter) as (r & Er). rewrite Er. right. left. reflexivity.
  - pose proof (CBI_reach ids boot et ld ls1 S1 N1) as HB1. fold C in HB1. fold w1 in HB1.
    destruct (cb_node C w1 HB1 n1 Hn1 Hfz1 ltac:(lia)) as (ej & (He & Hc & Hte & Hci) & Hz).
    pose proof (Hz (e_index e) e ltac:(lia) Hidx Ee) as Hch.
    destruct (chain_run ids boot et ld ls1 ls2 ej (e_index e) e Hs Hn He Hc ltac:(lia) ltac:(lia) Hch) as (He2 & Hc2 & Hch2).
    rewrite run_app in He2, Hc2, Hch2. fold w2 in He2, Hc2, Hch2.
    pose proof (LCI_reach ids boot et ld _ Hs Hn) as HI2. fold C in HI2. fold w2 in HI2.
    pose proof (lc_ic C w2 HI2 ej L He2 (committed_not_dead _ _ ej Hc2) HL Hrole ltac:(lia)) as Hh.
    pose proof (Hch2 L HL Hh) as EL. rewrite ErL in *. right. apply (eget_in_log rL _ e EL).
Qed.

Print Assumptions leader_completeness_gen.

(* ---------------- C01: state machine safety, executions without snapshots ---------------- *)
Theorem state_machine_safety_nosnap ids boot et ld ls1 ls2 : static (ls1 ++ ls2) = true -> nosnap (ls1 ++ ls2) = true ->
  let w1 := run (init_world ids boot et ld) ls1 in
  let w2 := run w1 ls2 in
  forall i t p t' p', applied_in w1 i t p -> applied_in w2 i t' p' -> t = t' /\ p = p'.
Proof.
  intros Hs Hn. cbn zeta. intros i t p t' p' (n1 & Hn1 & Hin1) (n2 & Hn2 & Hin2).
  pose proof (static_app1 _ _ Hs) as S1. pose proof (nosnap_app1 _ _ Hn) as N1.
  pose proof (CBI_reach ids boot et ld ls1 S1 N1) as HB1.
  destruct (cb_app _ _ HB1 n1 i t p Hn1 Hin1) as (Hi2 & ej1 & ec1 & He1 & Hc1 & Hi1 & Hch1 & Et1 & Ek1).
  destruct (chain_run ids boot et ld ls1 ls2 ej1 i ec1 Hs Hn He1 Hc1 ltac:(lia) Hi1 Hch1) as (He1' & Hc1' & Hch1').
  rewrite run_app in *.
  pose proof (CBI_reach ids boot et ld _ Hs Hn) as HB2.
  destruct (cb_app _ _ HB2 n2 i t' p' Hn2 Hin2) as (_ & ej2 & ec2 & He2 & Hc2 & Hi2' & Hch2 & Et2 & Ek2).
  pose proof (facts_reach ids boot et ld _ Hs Hn) as HF2. pose proof (LCI_reach ids boot et ld _ Hs Hn) as HI2.
  assert (ec1 = ec2).
  { apply (chains_agree _ _ HF2 HI2 ej1 ej2 i ec1 ec2); auto using committed_not_dead. lia. }
  subst ec2. split; [congruence|]. rewrite Ek1 in Ek2. injection Ek2 as ->. reflexivity.
Qed.

Print Assumptions state_machine_safety_nosnap.

(* ---------------- C04: an applied operation is, from then on, in the persistent logs of a majority ---------------- *)
Theorem applied_durable_on_majority ids boot et ld ls1 ls2 : static (ls1 ++ ls2) = true -> nosnap (ls1 ++ ls2) = true ->
  let w1 := run (init_world ids boot et ld) ls1 in
  let w2 := run w1 ls2 in
  forall i t p, applied_in w1 i t p ->
  exists e V, e_index e = i /\ e_term e = t /\ e_kind e = KOp p /\
    NoDup V /\ incl V (voters (bootconf boot)) /\ (length (voters (bootconf boot)) < 2 * length V)%nat /\
    forall nv, In nv (w_nodes w2) -> In (n_id nv) V -> In e (n_log nv).
Proof.
  intros Hs Hn. cbn zeta. intros i t p (n1 & Hn1 & Hin1).
  pose proof (static_app1 _ _ Hs) as S1. pose proof (nosnap_app1 _ _ Hn) as N1.
  pose proof (CBI_reach ids boot et ld ls1 S1 N1) as HB1.
  destruct (cb_app _ _ HB1 n1 i t p Hn1 Hin1) as (Hi2 & ej & ec & He & Hc & Hi & Hch & Et & Ek).
  destruct (chain_run ids boot et ld ls1 ls2 ej i ec Hs Hn He Hc ltac:(lia) Hi Hch) as (He' & Hc' & Hch').
  rewrite run_app in *.
  pose proof (facts_reach ids boot et ld _ Hs Hn) as HF2. pose proof (LCI_reach ids boot et ld _ Hs Hn) as HI2.
  pose proof (f_all _ _ HF2) as HA2.
  (* the index of ec *)
  assert (Eidx : e_index ec = i).
  { destruct (live_holder _ _ HF2 HI2 ej He' (committed_not_dead _ _ ej Hc')) as (a & Ha & Hh).
    assert (Hsa : is_seg (run (init_world ids boot et ld) (ls1 ++ ls2)) (seg_of_log (n_log a))) by (left; exists a; auto).
    apply (eget_index _ _ _ (lm_wf _ _ (a_lm _ _ HA2) _ Hsa) (Hch' a Ha Hh)). }
  pose proof Hc' as (V & NV & IV & LV & HV). exists ec, V. repeat split; auto.
  intros nv Hnv Hid. pose proof (lc_a _ _ HI2 ej nv He' (committed_not_dead _ _ ej Hc') Hnv (HV _ Hid)) as Hh.
  pose proof (Hch' nv Hnv Hh) as E.
  destruct (ns_nodes _ (a_ns _ _ HA2) nv Hnv) as (_ & _ & _ & _ & _ & (r & Er)). rewrite Er in *. right. apply (eget_in_log r _ ec E).
Qed.

Print Assumptions applied_durable_on_majority.
