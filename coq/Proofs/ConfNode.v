(* Configurations without membership changes, node level.  For a fixed configuration C,
   [CI C n] says that every configuration the node n holds anywhere - n_conf, n_cconf, the
   KConf entries of its log, its snapshots (closed, partial, being sent), its parked
   InstallSnapshot requests - is C (n_conf may also be the empty configuration).  Every
   function of the node except AddServer / RemoveServer preserves CI, provided the
   request it handles carries only C; every request it produces carries only C. *)
From RaftV Require Import Node.Leader.
Open Scope N_scope.

Section Conf.
Variable C : config.

Definition conf_p (o : option config) : Prop := forall c, o = Some c -> c = config0 \/ c = C.
Definition cconf_p (o : option config) : Prop := forall c, o = Some c -> c = C.
Definition ent_p (e : entry) : Prop := forall c, e_kind e = KConf c -> c = C.
Definition log_p (l : list entry) : Prop := Forall ent_p l.
Definition snaps_p (l : list snap) : Prop := Forall (fun s => s_conf s = C) l.
Definition osnap_p (o : option snap) : Prop := forall s, o = Some s -> s_conf s = C.
Definition fs_p (f : fstate) : Prop := forall s o, f_snap f = Some (s, o) -> s_conf s = C.
Definition fol_p (l : list (nid * fstate)) : Prop := Forall (fun p => fs_p (snd p)) l.
Definition orph_p (l : list fstate) : Prop := Forall fs_p l.
Definition wait_p (l : list is_req) : Prop := Forall (fun q => is_conf q = C) l.

Record CI (n : node) : Prop := {
  ci_conf : conf_p (n_conf n);
  ci_cconf : cconf_p (n_cconf n);
  ci_log : log_p (n_log n);
  ci_snaps : snaps_p (n_snaps n);
  ci_partial : osnap_p (n_partial n);
  ci_fol : fol_p (n_followers n);
  ci_orph : orph_p (n_orphans n);
  ci_wait : wait_p (n_iswait n) }.

(* the fields CI is about *)
Definition cf (n : node) :=
  (n_conf n, n_cconf n, n_log n, n_snaps n, n_partial n, n_followers n, n_orphans n, n_iswait n).

Lemma CI_cf n n' : cf n' = cf n -> CI n -> CI n'.
Proof.
  unfold cf. intros H. injection H as H1 H2 H3 H4 H5 H6 H7 H8. intros [].
  constructor; [rewrite H1|rewrite H2|rewrite H3|rewrite H4|rewrite H5|rewrite H6|rewrite H7|rewrite H8]; assumption.
Qed.

(* P: the step from n to n' preserves CI *)
Definition P (n n' : node) : Prop := CI n -> CI n'.
Lemma P_refl n : P n n. Proof. intros H; exact H. Qed.
Lemma P_trans a b c : P a b -> P b c -> P a c. Proof. unfold P. auto. Qed.
Lemma P_of_cf n n' : cf n' = cf n -> P n n'. Proof. intros E H. eapply CI_cf; eassumption. Qed.

(* the base node is abstracted first: conversion on large node terms is slow *)
Ltac pcf :=
  match goal with
  | |- P ?x _ => first [ is_var x; apply P_of_cf; reflexivity
                       | let y := fresh "base" in generalize x; intro y; apply P_of_cf; reflexivity
                       | apply P_of_cf; reflexivity ]
  end.

(* ---------------- lists ---------------- *)
Lemma Forall_skipn {A} (Q : A -> Prop) k : forall l, Forall Q l -> Forall Q (skipn k l).
Proof.
  induction k as [|k IH]; intros l H; [exact H|]. destruct l as [|x l]; [constructor|].
  cbn [skipn]. apply IH. inversion H; assumption.
Qed.
Lemma Forall_firstn {A} (Q : A -> Prop) k : forall l, Forall Q l -> Forall Q (firstn k l).
Proof.
  induction k as [|k IH]; intros l H; [constructor|]. destruct l as [|x l]; [constructor|].
  cbn [firstn]. inversion H; subst. constructor; [assumption|apply IH; assumption].
Qed.
Lemma Forall_snoc {A} (Q : A -> Prop) l x : Forall Q l -> Q x -> Forall Q (l ++ [x]).
Proof. intros H1 H2. apply Forall_app. split; [exact H1|constructor; [exact H2|constructor]]. Qed.
Lemma Forall_filter {A} (Q : A -> Prop) f l : Forall Q l -> Forall Q (filter f l).
Proof. apply incl_Forall, incl_filter. Qed.

Lemma last_some_in {A} (l : list A) x : last (map Some l) None = Some x -> In x l.
Proof.
  induction l as [|a l IH]; [discriminate|]. cbn [map last].
  destruct l as [|b l]; [cbn; intros H; injection H as <-; left; reflexivity|].
  intros H. right. apply IH. exact H.
Qed.

Lemma log_get_in l i e : log_get l i = Some e -> In e l.
Proof.
  unfold log_get. destruct (log_contains l i); [|discriminate]. apply nth_error_In.
Qed.

Lemma log_p_get l i e : log_p l -> log_get l i = Some e -> ent_p e.
Proof.
  intros H G. apply log_get_in in G. unfold log_p in H. rewrite Forall_forall in H. apply H, G.
Qed.

Lemma log_p_from l lii from : log_p l -> log_p (log_from l lii from).
Proof.
  intros H. unfold log_from. destruct (_ && _); [apply Forall_skipn; exact H|constructor].
Qed.

Lemma snaps_p_last l s : snaps_p l -> last (map Some l) None = Some s -> s_conf s = C.
Proof.
  intros H E. apply last_some_in in E. unfold snaps_p in H. rewrite Forall_forall in H. apply H, E.
Qed.

Lemma noop_p i t : ent_p {| e_index := i; e_term := t; e_kind := KNoop |}.
Proof. intros c H. discriminate H. Qed.
Lemma op_p i t p : ent_p {| e_index := i; e_term := t; e_kind := KOp p |}.
Proof. intros c H. discriminate H. Qed.
Lemma kconf_p i t : ent_p {| e_index := i; e_term := t; e_kind := KConf C |}.
Proof. intros c H. cbn in H. congruence. Qed.

Lemma lookup_in {V} k (l : list (N * V)) v : lookup k l = Some v -> In (k, v) l.
Proof.
  induction l as [|[k' v'] l IH]; [discriminate|]. cbn [lookup].
  destruct (N.eqb_spec k k') as [->|_]; [intros H; injection H as ->; left; reflexivity|].
  intros H. right. apply IH, H.
Qed.

Lemma Forall_put {V} (Q : N * V -> Prop) k v : forall l, Forall Q l -> Q (k, v) -> Forall Q (put k v l).
Proof.
  induction l as [|[k' v'] l IH]; intros H Hv; cbn [put]; [constructor; [exact Hv|constructor]|].
  inversion H; subst.
  destruct (k =? k'); [constructor; assumption|].
  destruct (k <? k'); [constructor; [exact Hv|exact H]|].
  constructor; [assumption|apply IH; assumption].
Qed.

Lemma fs_none f : f_snap f = None -> fs_p f.
Proof. intros E s o H. rewrite E in H. discriminate H. Qed.

Lemma fol_lookup l id f : fol_p l -> lookup id l = Some f -> fs_p f.
Proof.
  intros H E. apply lookup_in in E. unfold fol_p in H. rewrite Forall_forall in H. apply (H _ E).
Qed.

(* ---------------- single-field updates of a CI node ---------------- *)
Lemma CI_upd_log n f : CI n -> log_p (f (n_log n)) -> CI (n <| n_log ::= f |>).
Proof. intros [] H. constructor; assumption. Qed.
Lemma CI_upd_snaps n f : CI n -> snaps_p (f (n_snaps n)) -> CI (n <| n_snaps ::= f |>).
Proof. intros [] H. constructor; assumption. Qed.
Lemma CI_upd_partial n f : CI n -> osnap_p (f (n_partial n)) -> CI (n <| n_partial ::= f |>).
Proof. intros [] H. constructor; assumption. Qed.
Lemma CI_upd_fol n f : CI n -> fol_p (f (n_followers n)) -> CI (n <| n_followers ::= f |>).
Proof. intros [] H. constructor; assumption. Qed.
Lemma CI_upd_orph n f : CI n -> orph_p (f (n_orphans n)) -> CI (n <| n_orphans ::= f |>).
Proof. intros [] H. constructor; assumption. Qed.
Lemma CI_upd_wait n f : CI n -> wait_p (f (n_iswait n)) -> CI (n <| n_iswait ::= f |>).
Proof. intros [] H. constructor; assumption. Qed.
Lemma CI_upd_conf n f : CI n -> conf_p (f (n_conf n)) -> CI (n <| n_conf ::= f |>).
Proof. intros [] H. constructor; assumption. Qed.
Lemma CI_upd_cconf n f : CI n -> cconf_p (f (n_cconf n)) -> CI (n <| n_cconf ::= f |>).
Proof. intros [] H. constructor; assumption. Qed.

Lemma conf_p_C : conf_p (Some C). Proof. intros c H. injection H as <-. right; reflexivity. Qed.
Lemma cconf_p_C : cconf_p (Some C). Proof. intros c H. injection H as <-. reflexivity. Qed.
Lemma conf_p_None : conf_p None. Proof. intros c H. discriminate H. Qed.
Lemma cconf_p_None : cconf_p None. Proof. intros c H. discriminate H. Qed.
Lemma osnap_p_None : osnap_p None. Proof. intros c H. discriminate H. Qed.

(* ---------------- Handlers.v ---------------- *)
Lemma P_tick n : P n (snd (tick_write n)).
Proof.
  unfold tick_write. destruct (n_frozen n); [apply P_refl|].
  destruct (n_budget n) as [k|]; [|apply P_refl]. destruct (k =? 0); cbn [snd]; pcf.
Qed.

Lemma P_write (f : node -> node) n :
  (forall m, P m (f m)) -> P n (let (ok, n1) := tick_write n in if ok then f n1 else n1).
Proof.
  intros Hf. pose proof (P_tick n) as H. destruct (tick_write n) as [ok n1]. cbn [snd] in H.
  destruct ok; [|exact H]. eapply P_trans; [exact H|apply Hf].
Qed.

Lemma P_persist n : P n (persist n).
Proof. unfold persist. apply P_write. intros m. pcf. Qed.

Lemma P_append es : forall n, log_p es -> P n (append_entries n es).
Proof.
  induction es as [|e es IH]; intros n Hes; cbn [append_entries]; [apply P_refl|].
  inversion Hes; subst.
  pose proof (P_tick n) as H. destruct (tick_write n) as [ok n1]. cbn [snd] in H.
  destruct ok; [|exact H]. eapply P_trans; [exact H|]. eapply P_trans; [|apply IH; assumption].
  intros HC. apply CI_upd_log; [exact HC|]. apply Forall_snoc; [apply (ci_log _ HC)|assumption].
Qed.

Lemma P_truncate n i : P n (truncate_log n i).
Proof.
  unfold truncate_log. apply P_write. intros m H. apply CI_upd_log; [exact H|].
  apply Forall_firstn, (ci_log _ H).
Qed.
Lemma P_compact n i : P n (compact_log n i).
Proof.
  unfold compact_log. apply P_write. intros m H. apply CI_upd_log; [exact H|].
  apply Forall_skipn, (ci_log _ H).
Qed.
Lemma P_discard n i t : P n (discard_log n i t).
Proof.
  unfold discard_log. apply P_write. intros m H. apply (CI_upd_log m (fun _ => log_discard i t)); [exact H|].
  constructor; [apply noop_p|constructor].
Qed.
Lemma P_close_snapshot n s : s_conf s = C -> P n (close_snapshot n s).
Proof.
  intros Hs. unfold close_snapshot. apply P_write. intros m H. apply CI_upd_snaps; [exact H|].
  apply Forall_snoc; [apply (ci_snaps _ H)|exact Hs].
Qed.

Lemma P_fail o n : P n (fail o n).
Proof. unfold fail. destruct (n_out n); [pcf|apply P_refl|apply P_refl]. Qed.

Lemma P_respond n f r : P n (respond n f r).
Proof. unfold respond. destruct (n_frozen n); [apply P_refl|]. destruct (existsb _ _); [apply P_refl|pcf]. Qed.
Lemma P_respond_all fids : forall n r, P n (respond_all n fids r).
Proof.
  induction fids as [|f fids IH]; intros n r; [apply P_refl|].
  cbn [respond_all fold_left]. fold (respond_all (respond n f r) fids r).
  eapply P_trans; [apply P_respond|apply IH].
Qed.
Lemma P_new_opmanager now n : P n (new_opmanager now n). Proof. pcf. Qed.
Lemma P_notify n : P n (notify_lost_leadership n).
Proof. unfold notify_lost_leadership. eapply P_trans; apply P_respond_all. Qed.
Lemma P_cancel n : P n (cancel_conf_change n).
Proof.
  unfold cancel_conf_change. destruct (n_cfg_fid n); [|apply P_refl].
  eapply P_trans; [apply P_respond|pcf].
Qed.

Lemma P_new_follower n id nx : P n (new_follower n id nx).
Proof.
  unfold new_follower. intros H.
  set (o := match lookup id (n_followers n) with Some f => [f] | None => [] end).
  assert (Ho : orph_p o).
  { subst o. destruct (lookup id (n_followers n)) as [f|] eqn:E; [|constructor].
    constructor; [|constructor]. eapply fol_lookup; [apply (ci_fol _ H)|exact E]. }
  set (fr := {| f_next := nx; f_match := 0; f_snap := None; f_gen := n_fgen n |}).
  assert (H1 : CI (n <| n_orphans ::= fun l => l ++ o |>)).
  { apply CI_upd_orph; [exact H|]. apply Forall_app. split; [apply (ci_orph _ H)|exact Ho]. }
  assert (H2 : CI (n <| n_orphans ::= fun l => l ++ o |> <| n_followers ::= put id fr |>)).
  { apply CI_upd_fol; [exact H1|]. apply Forall_put; [apply (ci_fol _ H)|]. apply fs_none. reflexivity. }
  revert H2. apply P_of_cf. reflexivity.
Qed.

Lemma P_new_followers nx ids : forall n, P n (fold_left (fun m id => new_follower m id nx) ids n).
Proof.
  induction ids as [|id ids IH]; intros n; cbn [fold_left]; [apply P_refl|].
  eapply P_trans; [apply P_new_follower|apply IH].
Qed.

Lemma fs_p_clear f : fs_p (f <| f_snap := None |>).
Proof. apply fs_none. reflexivity. Qed.

Lemma P_reset n : P n (reset_snapshot_files n).
Proof.
  unfold reset_snapshot_files. intros H.
  apply (CI_upd_partial _ (fun _ => None)); [|apply osnap_p_None].
  apply CI_upd_fol; [exact H|]. apply Forall_map. apply Forall_forall. intros p _. apply fs_p_clear.
Qed.

Lemma P_become_follower now n l t : P n (become_follower now n l t).
Proof.
  unfold become_follower.
  eapply P_trans; [|apply P_cancel]. eapply P_trans; [|apply P_new_opmanager].
  eapply P_trans; [|apply P_notify]. eapply P_trans; [|apply P_reset].
  eapply P_trans; [|apply P_persist]. pcf.
Qed.

Lemma P_stepdown now n : P n (stepdown now n).
Proof.
  unfold stepdown. eapply P_trans; [|apply P_cancel]. eapply P_trans; [|apply P_new_opmanager].
  eapply P_trans; [|apply P_notify]. pcf.
Qed.

Lemma P_next_configuration now n next : cconf_p next -> P n (next_configuration now n next).
Proof.
  intros Hn. unfold next_configuration. destruct next as [nx|]; [|apply P_fail].
  assert (Enx : nx = C) by (apply Hn; reflexivity).
  set (n1 := if is_member nx (n_id n) then n else _).
  assert (H1 : P n n1).
  { subst n1. destruct (is_member nx (n_id n)); [apply P_refl|].
    eapply P_trans; [|apply P_reset]. destruct (role_eqb (n_role n) Leader); [apply P_stepdown|apply P_refl]. }
  clearbody n1. eapply P_trans; [exact H1|].
  match goal with |- P n1 (fold_left ?f ?l ?n2 <| n_conf := ?c |>) =>
    apply P_trans with n2; [|apply P_trans with (fold_left f l n2); [apply P_new_followers|]] end.
  - intros H. apply CI_upd_fol; [|apply Forall_filter, (ci_fol _ H)].
    apply CI_upd_orph; [exact H|]. apply Forall_app. split; [apply (ci_orph _ H)|].
    apply Forall_map. apply Forall_filter. exact (ci_fol _ H).
  - intros H. apply (CI_upd_conf _ (fun _ => Some nx)); [exact H|]. subst nx. apply conf_p_C.
Qed.

Lemma P_apply_configuration now n c : c = C -> P n (apply_configuration now n c).
Proof.
  intros ->. unfold apply_configuration.
  assert (H : P n (next_configuration now n (Some C) <| n_cconf := Some C |>)).
  { eapply P_trans; [apply P_next_configuration, cconf_p_C|].
    intros H. apply (CI_upd_cconf _ (fun _ => Some C)); [exact H|apply cconf_p_C]. }
  destruct (n_cconf n) as [cc|]; [|exact H]. destruct (c_index C <=? c_index cc); [apply P_refl|exact H].
Qed.

(* ---- AppendEntries ---- *)
Lemma P_ae_scan now es : forall n n4 l, log_p es -> ae_scan now n es = Some (n4, l) -> P n n4 /\ log_p l.
Proof.
  induction es as [|e es IH]; intros n n4 l Hes H; cbn [ae_scan] in H.
  - injection H as <- <-. split; [apply P_refl|constructor].
  - destruct (last_index (n_log n) <? e_index e); [injection H as <- <-; split; [apply P_refl|exact Hes]|].
    destruct (log_get (n_log n) (e_index e)) as [ex|]; [|discriminate].
    destruct ((e_index ex =? e_index e) && negb (e_term ex =? e_term e)).
    + injection H as <- <-. split; [|exact Hes].
      destruct (e_index e <=? c_index (conf_of (truncate_log n (e_index e)))); [|apply P_truncate].
      intros H. pose proof (P_truncate n (e_index e) H) as H1.
      exact (P_next_configuration now _ _ (ci_cconf _ H1) H1).
    + inversion Hes; subst. eapply IH; eassumption.
Qed.

Lemma P_signal_apply n : P n (signal_apply n). Proof. unfold signal_apply. pcf. Qed.

Lemma P_append_entries now n q : log_p (ae_entries q) -> P n (fst (h_append_entries now n q)).
Proof.
  intros Hq. unfold h_append_entries.
  destruct (role_eqb (n_role n) Shutdown); [apply P_refl|].
  destruct (ae_term q <? n_term n); [apply P_refl|].
  set (n1 := n <| n_contact := now |> <| n_leader := Some (ae_leader q) |>).
  assert (H1 : P n n1) by pcf.
  set (n2 := if n_term n1 <? ae_term q then become_follower now n1 (ae_leader q) (ae_term q) else n1).
  assert (H2 : P n1 n2).
  { subst n2. destruct (n_term n1 <? ae_term q); [apply P_become_follower|apply P_refl]. }
  set (n3 := if (ae_term q =? n_term n2) && _ then become_follower now n2 (ae_leader q) (ae_term q) else n2).
  assert (H3 : P n2 n3).
  { subst n3. destruct ((ae_term q =? n_term n2) && _); [apply P_become_follower|apply P_refl]. }
  assert (H03 : P n n3) by (eapply P_trans; [exact H1|eapply P_trans; eassumption]).
  clearbody n3. clear H1 H2 H3 n2 n1.
  destruct (ae_prev_index q <? n_lii n3); [exact H03|].
  destruct (next_index (n_log n3) <=? ae_prev_index q); [exact H03|].
  destruct ((n_lii n3 =? ae_prev_index q) && negb (n_lit n3 =? ae_prev_term q)); [exact H03|].
  match goal with |- P n (fst (match ?c with _ => _ end)) => destruct c as [[idx|]|] end.
  - exact H03.
  - cbn [fst]. eapply P_trans; [exact H03|apply P_fail].
  - destruct (ae_scan now n3 (ae_entries q)) as [[n4 to_append]|] eqn:Es.
    + cbn [fst]. eapply P_trans; [exact H03|].
      destruct (P_ae_scan _ _ _ _ _ Hq Es) as [H4 Hl].
      eapply P_trans; [exact H4|]. eapply P_trans; [apply P_append; exact Hl|].
      match goal with |- P _ (if ?c then _ else _) => destruct c end; [|apply P_refl].
      eapply P_trans; [|apply P_signal_apply]. pcf.
    + cbn [fst]. eapply P_trans; [exact H03|apply P_fail].
Qed.

(* ---- RequestVote ---- *)
Lemma P_request_vote now n q : P n (fst (h_request_vote now n q)).
Proof.
  unfold h_request_vote.
  destruct (role_eqb (n_role n) Shutdown); [apply P_refl|].
  destruct (lease_valid now n || recent_contact now n); [apply P_refl|].
  destruct (rv_term q <? n_term n); [apply P_refl|].
  set (n1 := if negb (rv_prevote q) && (n_term n <? rv_term q) then become_follower now n (rv_cand q) (rv_term q) else n).
  assert (H1 : P n n1).
  { subst n1. destruct (negb (rv_prevote q) && (n_term n <? rv_term q)); [apply P_become_follower|apply P_refl]. }
  clearbody n1.
  destruct (negb (rv_prevote q) && match n_vote n1 with Some v => negb (v =? rv_cand q) | None => false end); [exact H1|].
  destruct ((rv_last_term q <? last_term (n_log n1)) || _); [exact H1|].
  cbn [fst]. destruct (rv_prevote q); [exact H1|].
  eapply P_trans; [exact H1|]. eapply P_trans; [|apply P_persist]. pcf.
Qed.

(* ---- InstallSnapshot ---- *)
Lemma P_install_compact n q : P n (h_install_compact n q).
Proof. unfold h_install_compact. destruct (_ || _); [apply P_refl|apply P_compact]. Qed.

Lemma P_install_restore now n q : is_conf q = C -> P n (h_install_restore now n q).
Proof.
  intros Hq. unfold h_install_restore. destruct (last (map Some (n_snaps n)) None) as [s|]; [|apply P_fail].
  destruct (role_eqb _ Shutdown); [pcf|].
  eapply P_trans; [|apply P_apply_configuration; exact Hq]. eapply P_trans; [|apply P_discard]. pcf.
Qed.

Lemma P_install_snapshot now n q : is_conf q = C -> P n (fst (h_install_snapshot now n q)).
Proof.
  intros Hq. unfold h_install_snapshot.
  destruct (role_eqb (n_role n) Shutdown); [apply P_refl|].
  destruct (is_term q <? n_term n); [apply P_refl|].
  set (n1 := if n_term n <? is_term q then become_follower now n (is_leader q) (is_term q) else n).
  assert (H1 : P n n1).
  { subst n1. destruct (n_term n <? is_term q); [apply P_become_follower|apply P_refl]. }
  set (n2 := if (is_term q =? n_term n1) && _ then become_follower now n1 (is_leader q) (is_term q) else n1).
  assert (H2 : P n1 n2).
  { subst n2. destruct ((is_term q =? n_term n1) && _); [apply P_become_follower|apply P_refl]. }
  set (n3 := n2 <| n_contact := now |>).
  assert (H03 : P n n3).
  { eapply P_trans; [exact H1|]. eapply P_trans; [exact H2|]. pcf. }
  clearbody n3. clear H1 H2 n1 n2.
  destruct ((is_lii q <=? n_lii n3) || (is_lii q <=? n_applied n3)); [exact H03|].
  set (n4 := match n_partial n3 with Some p => if s_index p <? is_lii q then n3 <| n_partial := None |> else n3 | None => n3 end).
  assert (H4 : P n3 n4).
  { subst n4. destruct (n_partial n3) as [p|]; [|apply P_refl]. destruct (s_index p <? is_lii q); [|apply P_refl].
    intros H. apply (CI_upd_partial _ (fun _ => None)); [exact H|apply osnap_p_None]. }
  assert (H04 : P n n4) by (eapply P_trans; eassumption).
  clearbody n4. clear H4 H03 n3.
  set (p := match n_partial n4 with Some p => p | None => _ end).
  assert (Hp : CI n4 -> s_conf p = C).
  { intros H. subst p. destruct (n_partial n4) as [p|] eqn:E; [apply (ci_partial _ H), E|exact Hq]. }
  clearbody p.
  set (p' := {| s_index := s_index p; s_term := s_term p; s_conf := s_conf p; s_data := s_data p ++ is_bytes q |}).
  assert (Hp' : CI n4 -> s_conf p' = C) by exact Hp.
  clearbody p'.
  assert (Hsetp : forall x, (CI n4 -> s_conf x = C) -> P n4 (n4 <| n_partial := Some x |>)).
  { intros x Hx H. apply (CI_upd_partial _ (fun _ => Some x)); [exact H|]. intros s E. injection E as <-. apply Hx, H. }
  match goal with |- P n (fst (if ?c then _ else _)) => destruct c end.
  { cbn [fst]. eapply P_trans; [exact H04|]. apply Hsetp, Hp. }
  match goal with |- P n (fst (if ?c then _ else _)) => destruct c end.
  { cbn [fst]. eapply P_trans; [exact H04|]. apply Hsetp, Hp'. }
  set (n5 := close_snapshot n4 p' <| n_partial := None |> <| n_lii := is_lii q |> <| n_lit := is_lit q |>).
  assert (H5 : P n4 n5).
  { intros H. subst n5. pose proof (P_close_snapshot n4 p' (Hp' H) H) as Hc. revert Hc.
    generalize (close_snapshot n4 p'). intros m Hm.
    assert (H' : CI (m <| n_partial := None |>)) by (apply (CI_upd_partial _ (fun _ => None)); [exact Hm|apply osnap_p_None]).
    revert H'. apply P_of_cf. reflexivity. }
  assert (H05 : P n n5) by (eapply P_trans; eassumption).
  clearbody n5. clear H5 H04 Hsetp Hp Hp'.
  match goal with |- P n (fst (if ?c then _ else _)) => destruct c end.
  - match goal with |- P n (fst (if ?c then _ else _)) => destruct c end; cbn [fst];
      (eapply P_trans; [exact H05|]).
    + intros H. apply CI_upd_wait; [exact H|]. apply Forall_snoc; [apply (ci_wait _ H)|exact Hq].
    + apply P_install_compact.
  - cbn [fst]. eapply P_trans; [exact H05|]. apply P_install_restore, Hq.
Qed.


(* ---------------- Leader.v ---------------- *)
Lemma get_follower_p n id : CI n -> fs_p (get_follower n id).
Proof.
  intros H. unfold get_follower. destruct (lookup id (n_followers n)) as [f|] eqn:E.
  - eapply fol_lookup; [apply (ci_fol _ H)|exact E].
  - apply fs_none. reflexivity.
Qed.

Lemma P_set_follower n id f : fs_p f -> P n (set_follower n id f).
Proof.
  intros Hf H. unfold set_follower. apply CI_upd_fol; [exact H|]. apply Forall_put; [apply (ci_fol _ H)|exact Hf].
Qed.

Lemma fobj_p n id g : CI n -> fs_p (fobj n id g).
Proof.
  intros H. unfold fobj. destruct (f_gen (get_follower n id) =? g); [apply get_follower_p, H|].
  destruct (find _ (n_orphans n)) as [o|] eqn:E; [|apply get_follower_p, H].
  apply find_some in E. destruct E as [E _]. pose proof (ci_orph _ H) as Ho. unfold orph_p in Ho.
  rewrite Forall_forall in Ho. apply Ho, E.
Qed.

Lemma P_set_fobj n id g f : fs_p f -> P n (set_fobj n id g f).
Proof.
  intros Hf. unfold set_fobj. destruct (_ =? g); [apply P_set_follower, Hf|].
  intros H. apply CI_upd_orph; [exact H|]. apply Forall_map. pose proof (ci_orph _ H) as Ho.
  unfold orph_p in Ho. rewrite Forall_forall in *. intros o Hin. destruct (f_gen o =? g); [exact Hf|apply Ho, Hin].
Qed.

Lemma P_bump n r : P n (bump_round n r). Proof. unfold bump_round. pcf. Qed.
Lemma P_try_apply_ro now n s : P n (try_apply_ro now n s). Proof. unfold try_apply_ro, signal_ro. pcf. Qed.
Lemma P_signal_commit n : P n (signal_commit n). Proof. unfold signal_commit. pcf. Qed.
Lemma P_signal_ro n : P n (signal_ro n). Proof. unfold signal_ro. pcf. Qed.
Lemma P_signal_election n : P n (signal_election n). Proof. unfold signal_election. pcf. Qed.
Lemma P_signal_snapshot n : P n (signal_snapshot n). Proof. unfold signal_snapshot. pcf. Qed.

Lemma P_send_ae_to_peers now n : P n (send_ae_to_peers now n).
Proof.
  unfold send_ae_to_peers.
  set (n0 := n <| n_hb_rounds ::= N.succ |>).
  assert (H0 : P n n0) by pcf.
  set (n1 := if is_single (conf_of n) (n_id n) then _ else n0).
  assert (H1 : P n0 n1).
  { subst n1. destruct (is_single (conf_of n) (n_id n)); [|apply P_refl].
    eapply P_trans; [|apply P_try_apply_ro].
    destruct (n_commit n0 <? last_index (n_log n0)); [apply P_signal_commit|apply P_refl]. }
  unfold new_round. cbn [fst snd].
  eapply P_trans; [exact H0|]. eapply P_trans; [exact H1|]. pcf.
Qed.

Lemma P_become_leader now n : P n (become_leader now n).
Proof.
  unfold become_leader.
  eapply P_trans; [|apply P_send_ae_to_peers].
  eapply P_trans; [|apply P_append; constructor; [apply noop_p|constructor]].
  eapply P_trans; [|apply P_reset].
  apply P_trans with (new_opmanager now (n <| n_role := Leader |>)).
  - eapply P_trans; [|apply P_new_opmanager]. pcf.
  - intros H. apply CI_upd_fol; [exact H|]. apply Forall_map. pose proof (ci_fol _ H) as Hf.
    unfold fol_p in Hf. rewrite Forall_forall in *. intros p Hin. exact (Hf p Hin).
Qed.

Lemma P_send_rv_to_peers now n : P n (send_rv_to_peers now n).
Proof.
  unfold send_rv_to_peers. destruct (is_single (conf_of n) (n_id n)).
  - eapply P_trans; [|apply P_become_leader].
    destruct (role_eqb (n_role n) PreCandidate); [|apply P_refl].
    eapply P_trans; [|apply P_persist]. pcf.
  - unfold new_round. pcf.
Qed.

Lemma P_election now n : P n (l_election now n).
Proof.
  unfold l_election.
  set (n0 := n <| n_cv ::= _ |>).
  assert (H0 : P n n0) by pcf. clearbody n0.
  match goal with |- P n (if ?c then _ else _) => destruct c end; [exact H0|].
  set (n1 := if role_eqb (n_role n0) Follower then n0 <| n_role := PreCandidate |> else n0).
  assert (H1 : P n0 n1) by (subst n1; destruct (role_eqb (n_role n0) Follower); [pcf|apply P_refl]).
  clearbody n1.
  eapply P_trans; [exact H0|]. eapply P_trans; [exact H1|]. eapply P_trans; [|apply P_send_rv_to_peers].
  destruct (role_eqb (n_role n1) Candidate); [|apply P_refl].
  eapply P_trans; [|apply P_persist]. pcf.
Qed.

Lemma P_rv_reply now n rid peer pv q p : P n (l_rv_reply now n rid peer pv q p).
Proof.
  unfold l_rv_reply.
  destruct (role_eqb (n_role n) Shutdown); [apply P_refl|].
  destruct (rv_term q <? n_term n); [apply P_refl|].
  set (n1 := if rvr_granted p then bump_round n rid else n).
  assert (H1 : P n n1) by (subst n1; destruct (rvr_granted p); [apply P_bump|apply P_refl]).
  clearbody n1.
  destruct (rv_term q <? rvr_term p).
  - eapply P_trans; [exact H1|apply P_become_follower].
  - eapply P_trans; [exact H1|].
    set (n2 := if _ && role_eqb (n_role n1) PreCandidate then _ else n1).
    assert (H2 : P n1 n2).
    { subst n2. match goal with |- P _ (if ?c then _ else _) => destruct c end; [|apply P_refl].
      eapply P_trans; [|apply P_signal_election]. pcf. }
    match goal with |- P _ (if ?c then _ else _) => destruct c end; [|exact H2].
    eapply P_trans; [exact H2|apply P_become_leader].
Qed.

(* ---- replication, sender side ---- *)
Definition oreq_p (o : option is_req) : Prop := match o with Some q => is_conf q = C | None => True end.
Definition sent_p (s : sent) : Prop :=
  match s with SentNothing => True | SentAE q => log_p (ae_entries q) | SentIS q => is_conf q = C end.

Lemma is_send_ok n peer : CI n -> CI (fst (l_is_send n peer)) /\ oreq_p (snd (l_is_send n peer)).
Proof.
  intros H. unfold l_is_send.
  destruct (negb (role_eqb (n_role n) Leader)); [split; [exact H|exact I]|].
  destruct (n_lii n =? 0); [split; [exact H|exact I]|].
  pose proof (get_follower_p n peer H) as Hf.
  set (f := get_follower n peer) in *. clearbody f.
  match goal with |- CI (fst (match ?c with _ => _ end)) /\ _ => destruct c as [[s offset]|] eqn:E end.
  - assert (Hs : s_conf s = C).
    { destruct (f_snap f) as [[s0 o0]|] eqn:Ef.
      - injection E as <- <-. apply (Hf _ _ Ef).
      - destruct (last (map Some (n_snaps n)) None) as [s0|] eqn:El; [|discriminate].
        injection E as <- <-. eapply snaps_p_last; [apply (ci_snaps _ H)|exact El]. }
    cbv zeta. cbn [fst snd]. split; [|exact Hs].
    apply P_set_follower; [|exact H].
    match goal with |- fs_p (f <| f_snap := Some (s, ?x) |>) => generalize x end.
    intros x s' o' E'. change (Some (s, x) = Some (s', o')) in E'. injection E' as <- _. exact Hs.
  - cbn [fst snd]. split; [apply P_fail, H|exact I].
Qed.

Lemma is_reply_ok now n peer g q resp : P n (l_is_reply now n peer g q resp).
Proof.
  intros H. unfold l_is_reply. pose proof (fobj_p n peer g H) as Hf.
  set (f := fobj n peer g) in *. clearbody f.
  destruct (f_snap f) as [[s o]|] eqn:Ef; [|exact H].
  destruct resp as [p|]; [|exact H].
  destruct (n_term n <? isr_term p); [apply P_become_follower, H|].
  destruct (negb (isr_written p =? is_offset q)).
  - apply P_set_fobj; [|exact H]. intros s' o' E'. change (Some (s, isr_written p) = Some (s', o')) in E'.
    injection E' as <- _. apply (Hf _ _ Ef).
  - destruct (negb (is_done q)); [exact H|]. apply P_set_fobj; [|exact H]. apply fs_none. reflexivity.
Qed.

Lemma ae_send_ok n peer : CI n -> CI (fst (l_ae_send n peer)) /\ sent_p (snd (l_ae_send n peer)).
Proof.
  intros H. unfold l_ae_send. destruct (_ || _); [split; [exact H|exact I]|].
  destruct (f_next (get_follower n peer) <=? n_lii n).
  - pose proof (is_send_ok n peer H) as [H1 H2]. destruct (l_is_send n peer) as [n1 [q|]]; cbn [fst snd] in *;
      (split; [exact H1|exact H2]).
  - destruct (next_index (n_log n) <? f_next (get_follower n peer)); cbn [fst snd].
    + split; [apply P_fail, H|exact I].
    + split; [exact H|]. cbn [sent_p ae_entries]. apply log_p_from, (ci_log _ H).
Qed.

Lemma fs_p_upd_next f x : fs_p f -> fs_p (f <| f_next := x |>).
Proof. intros H s o E. exact (H s o E). Qed.
Lemma fs_p_upd_next_match f x y : fs_p f -> fs_p (f <| f_next := x |> <| f_match := y |>).
Proof. intros H s o E. exact (H s o E). Qed.

Lemma ae_reply_ok now n rid peer g q p :
  CI n -> CI (fst (l_ae_reply now n rid peer g q p)) /\ oreq_p (snd (l_ae_reply now n rid peer g q p)).
Proof.
  intros H. unfold l_ae_reply.
  destruct (_ || _); [split; [exact H|exact I]|].
  destruct (n_term n <? aer_term p); [split; [apply P_become_follower, H|exact I]|].
  destruct (negb (ae_term q =? n_term n)); [split; [exact H|exact I]|].
  set (n1 := if is_voter (conf_of n) peer then bump_round n rid else n).
  set (n2 := if is_voter (conf_of n) peer && has_quorum (conf_of n1) (round_count n1 rid)
             then try_apply_ro now n1 (round_stamp n1 rid) else n1).
  assert (H1 : P n n1) by (subst n1; destruct (is_voter (conf_of n) peer); [apply P_bump|apply P_refl]).
  assert (H2 : CI n2).
  { subst n2. destruct (is_voter (conf_of n) peer && has_quorum (conf_of n1) (round_count n1 rid));
      [apply P_try_apply_ro|]; apply H1, H. }
  clearbody n2. clear H1 n1.
  pose proof (fobj_p n2 peer g H2) as Hf. set (f := fobj n2 peer g) in *. clearbody f.
  destruct (negb (aer_success p)).
  - pose proof (P_set_fobj n2 peer g _ (fs_p_upd_next f (aer_index p) Hf) H2) as H3.
    set (n3 := set_fobj n2 peer g _) in *. clearbody n3.
    destruct (aer_index p <=? n_lii n3); [apply is_send_ok, H3|split; [exact H3|exact I]].
  - match goal with |- CI (fst (if ?c then _ else _)) /\ _ => destruct c end; cbn [fst snd]; [|split; [exact H2|exact I]].
    split; [|exact I].
    pose proof (P_set_fobj n2 peer g _ (fs_p_upd_next_match f (N.max (f_next f) (ae_prev_index q + N.of_nat (length (ae_entries q)) + 1))
                                          (ae_prev_index q + N.of_nat (length (ae_entries q))) Hf) H2) as H3.
    match goal with |- CI (if ?c then _ else _) => destruct c end; [apply P_signal_commit|]; exact H3.
Qed.

(* ---- loops ---- *)
Lemma P_commit now n : P n (lp_commit now n).
Proof.
  unfold lp_commit. set (n0 := n <| n_cv ::= _ |>). assert (H0 : P n n0) by pcf. clearbody n0.
  destruct (negb (role_eqb (n_role n0) Leader)); [exact H0|].
  match goal with |- P n (if ?c then _ else _) => destruct c end; [|exact H0].
  eapply P_trans; [exact H0|]. eapply P_trans; [|apply P_send_ae_to_peers].
  eapply P_trans; [|apply P_signal_apply]. pcf.
Qed.

Lemma P_upd_cfg m v : P m (m <| n_cfg_fid := v |>). Proof. pcf. Qed.
Lemma P_upd_pending m f : P m (m <| n_pending ::= f |>). Proof. pcf. Qed.
Lemma P_upd_applied m f : P m (m <| n_applied ::= f |>). Proof. pcf. Qed.
Lemma P_upd_fsm m a f : P m (m <| n_fsm := a |> <| n_applies ::= f |>). Proof. pcf. Qed.

Lemma P_apply_one now n : P n (lp_apply_one now n).
Proof.
  intros H. unfold lp_apply_one. destruct (log_get (n_log n) (n_applied n + 1)) as [e|] eqn:G; [|apply P_fail, H].
  pose proof (log_p_get _ _ _ (ci_log _ H) G) as He.
  set (n1 := match e_kind e with KNoop => n | _ => _ end).
  assert (H1 : CI n1).
  { subst n1. destruct (e_kind e) as [|p|c] eqn:Ek.
    - exact H.
    - match goal with |- CI (match ?x with _ => _ end) => destruct x end.
      + apply P_respond. apply P_upd_pending. apply P_upd_fsm, H.
      + apply P_upd_fsm, H.
    - assert (Ec : c = C) by (apply He; exact Ek).
      pose proof (P_apply_configuration now n c Ec H) as H'.
      match goal with |- CI (match ?x with _ => _ end) => destruct x end; [|exact H'].
      apply P_upd_cfg. apply P_respond. exact H'. }
  clearbody n1.
  match goal with |- CI (if ?c then _ else _) => destruct c end;
    [apply P_signal_snapshot|]; apply P_upd_applied, H1.
Qed.

Lemma P_apply_run now fuel : forall n, P n (lp_apply_run fuel now n).
Proof.
  induction fuel as [|f IH]; intros n; cbn [lp_apply_run]; [apply P_refl|].
  match goal with |- P n (if ?c then _ else _) => destruct c end; [|apply P_refl].
  eapply P_trans; [apply P_apply_one|apply IH].
Qed.

Lemma P_apply now n : P n (lp_apply now n).
Proof.
  unfold lp_apply. set (n0 := n <| n_cv ::= _ |>). assert (H0 : P n n0) by pcf. clearbody n0.
  eapply P_trans; [exact H0|].
  match goal with |- P _ (if ?c then _ else _) => destruct c end;
    [eapply P_trans; [apply P_apply_run|apply P_signal_ro]|apply P_apply_run].
Qed.

Lemma P_fold_respond (f : node -> rop -> node) ops : (forall m o, P m (f m o)) -> forall n, P n (fold_left f ops n).
Proof.
  intros Hf. induction ops as [|o ops IH]; intros n; cbn [fold_left]; [apply P_refl|].
  eapply P_trans; [apply Hf|apply IH].
Qed.

Lemma P_ro now n : P n (lp_ro now n).
Proof.
  unfold lp_ro. set (n0 := n <| n_cv ::= _ |>). assert (H0 : P n n0) by pcf. clearbody n0.
  destruct (_ || _); [exact H0|].
  eapply P_trans; [exact H0|]. eapply P_trans; [|apply P_fold_respond].
  - pcf.
  - intros m o. destruct (ro_type o); [apply P_respond|apply P_respond|].
    destruct (lease_valid now m); apply P_respond.
Qed.

Lemma P_snapshot n : P n (lp_snapshot n).
Proof.
  unfold lp_snapshot. set (n0 := n <| n_cv ::= _ |>). assert (H0 : P n n0) by pcf. clearbody n0.
  destruct (_ || _); [exact H0|]. destruct (n_applied n0 <=? n_lii n0); [exact H0|].
  destruct (n_cconf n0) as [cc|] eqn:Ec; [|exact H0]. destruct (n_applied n0 <? c_index cc); [exact H0|].
  destruct (log_get (n_log n0) (n_applied n0)) as [e|]; [|eapply P_trans; [exact H0|apply P_fail]].
  eapply P_trans; [exact H0|].
  match goal with |- P _ (if ?c then _ else _) => destruct c end; [apply P_refl|].
  intros H. assert (Ecc : cc = C) by (apply (ci_cconf _ H); exact Ec).
  apply P_reset. apply P_compact.
  match goal with |- CI (close_snapshot n0 ?s <| n_lii := _ |> <| n_lit := _ |>) =>
    pose proof (P_close_snapshot n0 s Ecc H) as H1; revert H1; generalize (close_snapshot n0 s) end.
  intros m. apply P_of_cf. reflexivity.
Qed.

Lemma install_resume_ok n :
  CI n -> CI (fst (lp_install_resume n)) /\ oreq_p (snd (lp_install_resume n)).
Proof.
  intros H. unfold lp_install_resume. destruct (n_iswait n) as [|q r] eqn:E; [split; [exact H|exact I]|].
  pose proof (ci_wait _ H) as Hw. rewrite E in Hw. inversion Hw; subst.
  destruct (install_can_resume n q); cbn [fst snd]; [|split; [exact H|exact I]].
  split; [|assumption]. apply P_install_compact.
  apply (CI_upd_wait _ (fun _ => r)); [exact H|assumption].
Qed.

(* ---- client API (without AddServer / RemoveServer) ---- *)
Lemma P_upd_sv m v : P m (m <| n_should_verify := v |>). Proof. pcf. Qed.
Lemma P_upd_ro m f : P m (m <| n_ro ::= f |>). Proof. pcf. Qed.

Lemma P_submit now n fid ty p : P n (api_submit now n fid ty p).
Proof.
  unfold api_submit. destruct (negb (role_eqb (n_role n) Leader)); [apply P_respond|].
  destruct ty.
  - eapply P_trans; [|apply P_send_ae_to_peers]. eapply P_trans; [|apply P_upd_pending].
    apply P_append. constructor; [apply op_p|constructor].
  - match goal with |- P n (if ?c then _ else _) => destruct c end; [|apply P_upd_ro].
    eapply P_trans; [|apply P_upd_sv]. eapply P_trans; [|apply P_send_ae_to_peers]. apply P_upd_ro.
  - match goal with |- P n (if ?c then _ else _) => destruct c end; [|apply P_upd_ro].
    eapply P_trans; [|apply P_signal_ro]. apply P_upd_ro.
Qed.

Lemma P_heartbeat now n : P n (l_heartbeat now n).
Proof. unfold l_heartbeat. destruct (_ || _); [apply P_refl|apply P_send_ae_to_peers]. Qed.

(* ---- lifecycle ---- *)
Lemma CI_of_cf n a b c d e f g h :
  cf n = (a, b, c, d, e, f, g, h) ->
  conf_p a -> cconf_p b -> log_p c -> snaps_p d -> osnap_p e -> fol_p f -> orph_p g -> wait_p h -> CI n.
Proof.
  unfold cf. intros H. injection H as <- <- <- <- <- <- <- <-. intros. constructor; assumption.
Qed.

Lemma CI_crash n : CI n -> CI (crash n).
Proof.
  intros H.
  exact (CI_of_cf (crash n) None None (n_log n) (n_snaps n) None [] [] [] eq_refl
           conf_p_None cconf_p_None (ci_log _ H) (ci_snaps _ H) osnap_p_None
           (Forall_nil _) (Forall_nil _) (Forall_nil _)).
Qed.

Lemma conf_scan_p es : forall conf cconf,
  log_p es -> cconf_p conf -> cconf_p cconf ->
  cconf_p (fst (conf_scan es conf cconf)) /\ cconf_p (snd (conf_scan es conf cconf)).
Proof.
  induction es as [|e es IH]; intros conf cconf Hes H1 H2; cbn [conf_scan]; [split; assumption|].
  inversion Hes as [|? ? He Hes']; subst.
  destruct (e_kind e) as [|p|c] eqn:Ek; try (apply IH; assumption).
  assert (c = C) by (apply He; exact Ek). subst c.
  apply IH; [assumption|apply cconf_p_C|]. destruct conf as [c0|]; [|exact H2].
  intros c Ec. injection Ec as <-. apply H1. reflexivity.
Qed.

Lemma cconf_conf_p o : cconf_p o -> conf_p o.
Proof. intros H c E. right. apply H, E. Qed.

(* restore() on a node whose volatile configuration is empty or C (after crash: empty) *)
Lemma CI_restore n : CI n -> cconf_p (n_conf n) -> CI (restore n).
Proof.
  intros H Hc. unfold restore.
  set (n1 := n <| n_open := true |> <| n_term := n_pterm n |> <| n_vote := n_pvote n |>).
  assert (H1 : CI n1 /\ cconf_p (n_conf n1)) by (split; [revert H; apply P_of_cf; reflexivity|exact Hc]).
  clearbody n1. clear H Hc.
  set (n2 := match last (map Some (n_snaps n1)) None with Some s => _ | None => n1 end).
  assert (H2 : CI n2 /\ cconf_p (n_conf n2)).
  { subst n2. destruct (last (map Some (n_snaps n1)) None) as [s|] eqn:El; [|exact H1].
    destruct H1 as [H1 _]. assert (Es : s_conf s = C) by (eapply snaps_p_last; [apply (ci_snaps _ H1)|exact El]).
    rewrite Es. split; [|apply cconf_p_C].
    apply (CI_upd_cconf _ (fun _ => Some C)); [|apply cconf_p_C].
    apply (CI_upd_conf _ (fun _ => Some C)); [|apply conf_p_C].
    revert H1. apply P_of_cf. reflexivity. }
  clearbody n2.
  set (n3 := match last (map Some (n_snaps n1)) None with Some s => _ | None => n2 end).
  assert (H3 : CI n3 /\ cconf_p (n_conf n3)).
  { subst n3. destruct (last (map Some (n_snaps n1)) None) as [s|]; [|exact H2].
    destruct (_ || _); [|exact H2]. destruct H2 as [H2 H2'].
    split; [|exact H2']. apply (CI_upd_log _ (fun _ => log_discard (s_index s) (s_term s))); [exact H2|].
    constructor; [apply noop_p|constructor]. }
  clearbody n3. clear H1 H2 n1 n2. destruct H3 as [H3 H3'].
  pose proof (conf_scan_p (log_from (n_log n3) (first_index (n_log n3)) (n_lii n3 + 1)) (n_conf n3) (n_cconf n3)
                (log_p_from _ _ _ (ci_log _ H3)) H3' (ci_cconf _ H3)) as [S1 S2].
  destruct (conf_scan _ _ _) as [c cc]. cbn [fst snd] in S1, S2.
  apply (CI_upd_cconf _ (fun _ => cc)); [|exact S2].
  apply (CI_upd_conf _ (fun _ => c)); [exact H3|apply cconf_conf_p, S1].
Qed.

Lemma P_api_start now n : P n (api_start now n).
Proof.
  unfold api_start. destruct (negb _); [apply P_refl|].
  match goal with |- P n (fold_left ?f ?l ?n2 <| n_contact := _ |> <| n_role := _ |>) =>
    apply P_trans with n2; [|apply P_trans with (fold_left f l n2); [apply P_new_followers|pcf]] end.
  intros H. apply (CI_upd_fol _ (fun _ => [])); [|constructor].
  apply (CI_upd_conf _ (fun _ => Some (conf_of n))); [exact H|].
  intros c E. injection E as <-. unfold conf_of. destruct (n_conf n) as [c|] eqn:Ec; [|left; reflexivity].
  apply (ci_conf _ H), Ec.
Qed.

Lemma P_restart now n : P n (restart_after_crash now n).
Proof.
  intros H. unfold restart_after_crash. apply P_api_start. apply P_new_opmanager.
  apply CI_restore; [apply CI_crash, H|]. exact cconf_p_None.
Qed.

(* Bootstrap with C itself *)
Lemma P_bootstrap n members :
  C = {| c_index := 1; c_members := fold_left (fun l id => put id true l) members [] |} ->
  P n (api_bootstrap n members).
Proof.
  intros EC. unfold api_bootstrap. destruct (n_conf n); [apply P_refl|].
  destruct (0 <? last_index (n_log n)); [apply P_refl|]. rewrite <- EC.
  eapply P_trans; [|apply P_append; constructor; [apply kconf_p|constructor]].
  intros H. apply (CI_upd_conf _ (fun _ => Some C)); [exact H|apply conf_p_C].
Qed.

Lemma CI_conf_of n : CI n -> conf_of n = config0 \/ conf_of n = C.
Proof.
  intros H. unfold conf_of. destruct (n_conf n) as [c|] eqn:E; [|left; reflexivity]. apply (ci_conf _ H), E.
Qed.

(* what a request of the world may carry *)
Definition req_p (q : request) : Prop :=
  match q with
  | ReqAE r => log_p (ae_entries r)
  | ReqIS r => is_conf r = C
  | ReqRV _ => True
  end.

End Conf.
