(* C16, cluster level, one step of any world: a vote request - prevote or real, of any term, from any candidate (a node
   that was isolated and has campaigned a thousand times, a removed node, a restarted one) - delivered, or delivered
   again, to a node that has heard from a leader within an election timeout (or that holds a valid lease) changes NO
   node of the cluster: not the destination's term, role, vote, in memory or on disk, and nobody else's.  The one
   effect is the response recorded on the call: refused, carrying the destination's unchanged term.  No hypothesis on
   the world (it need not be reachable), none on the request. *)
From RaftV Require Import Cluster.World Cluster.Statements Proofs.RVSpec Proofs.ReadSpec Proofs.Votes Proofs.ElectReply.
Open Scope N_scope.

Definition sticky (w : world) (n : node) : Prop :=
  n_frozen n = false /\ role_eqb (n_role n) Shutdown = false /\
  lease_valid (w_now w) n || recent_contact (w_now w) n = true.

Lemma get_set_same w n id : get_node w (n_id n) = Some n -> get_node (set_node w n) id = get_node w id.
Proof.
  intros G. rewrite get_set. destruct (get_node w id) as [x|] eqn:E; [|reflexivity]. cbn [option_map].
  destruct (N.eqb_spec (n_id x) (n_id n)) as [Ei|Ei]; [|reflexivity].
  destruct (get_node_in _ _ _ E) as [_ Ex]. rewrite <- Ex, Ei, G in E. exact E.
Qed.

Lemma sticky_deliver w c dup n q :
  get_node w (c_dst c) = Some n -> sticky w n -> c_req c = ReqRV q ->
  step_deliver w c dup =
    if dup then set_node w n
    else set_call (set_node w n)
           (c <| c_resp := Some (RespRV {| rvr_term := n_term n; rvr_granted := false |}) |> <| c_state := CAnswered |>).
Proof.
  intros G (F & Hup & Hs) Eq. unfold step_deliver. rewrite G, F. unfold run_handler. rewrite Eq.
  rewrite (rv_sticky (w_now w) n q Hup Hs). cbn [option_map]. destruct dup; [reflexivity|]. rewrite F. reflexivity.
Qed.

Theorem sticky_deliver_changes_no_node w c dup n q :
  get_node w (c_dst c) = Some n -> sticky w n -> c_req c = ReqRV q ->
  forall id, get_node (step_deliver w c dup) id = get_node w id.
Proof.
  intros G Hst Eq id. rewrite (sticky_deliver w c dup n q G Hst Eq).
  pose proof (get_node_id _ _ _ G) as G'.
  destruct dup; [|rewrite get_node_set_call]; apply get_set_same; exact G'.
Qed.

(* the same for the labels of the world: LDeliver (first delivery) and LDup (the network delivers the request again) *)
Theorem sticky_step_changes_no_node w cid c n q :
  get_call w cid = Some c -> get_node w (c_dst c) = Some n -> sticky w n -> c_req c = ReqRV q ->
  forall id, get_node (step w (LDeliver cid)) id = get_node w id /\ get_node (step w (LDup cid)) id = get_node w id.
Proof.
  intros Gc G Hst Eq id. cbn [step]. rewrite Gc. split.
  - destruct (c_state c); try reflexivity. apply (sticky_deliver_changes_no_node w c false n q G Hst Eq).
  - apply (sticky_deliver_changes_no_node w c true n q G Hst Eq).
Qed.

(* and the answer the candidate will see: refused, with the voter's own (unchanged) term *)
Theorem sticky_step_refuses w cid c n q :
  get_call w cid = Some c -> c_state c = CPending -> get_node w (c_dst c) = Some n -> sticky w n -> c_req c = ReqRV q ->
  step w (LDeliver cid) =
    set_call (set_node w n)
      (c <| c_resp := Some (RespRV {| rvr_term := n_term n; rvr_granted := false |}) |> <| c_state := CAnswered |>).
Proof.
  intros Gc Hp G Hst Eq. cbn [step]. rewrite Gc, Hp. apply (sticky_deliver w c false n q G Hst Eq).
Qed.

(* any number of such deliveries, to any sticky nodes, in any order: no node of the cluster changes.  [sticky_labels]
   checks every label against the world in which it is taken. *)
Fixpoint sticky_labels (w : world) (ls : list label) : Prop :=
  match ls with
  | [] => True
  | l :: r =>
      (exists cid c n q, (l = LDeliver cid \/ l = LDup cid) /\ get_call w cid = Some c /\
                         get_node w (c_dst c) = Some n /\ sticky w n /\ c_req c = ReqRV q) /\
      sticky_labels (step w l) r
  end.

Theorem sticky_run_changes_no_node ls : forall w, sticky_labels w ls ->
  forall id, get_node (run w ls) id = get_node w id.
Proof.
  induction ls as [|l r IH]; intros w H id; [reflexivity|].
  cbn [sticky_labels] in H. destruct H as [(cid & c & n & q & Hl & Gc & G & Hst & Eq) Hr].
  change (run w (l :: r)) with (run (step w l) r). rewrite (IH _ Hr id).
  destruct (sticky_step_changes_no_node w cid c n q Gc G Hst Eq id) as [H1 H2].
  destruct Hl as [->| ->]; assumption.
Qed.

Print Assumptions sticky_step_changes_no_node.
Print Assumptions sticky_run_changes_no_node.
Print Assumptions sticky_step_refuses.
