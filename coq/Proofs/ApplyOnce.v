(* C03 "every submission is applied at most once": within one incarnation (between two restores) a node applies
   each index at most once - a corollary of the strictly increasing apply order. *)
From RaftV Require Import Cluster.World Cluster.Statements Proofs.ConfStatic Proofs.ApplyOrder.
Open Scope N_scope.

Lemma increasing_above b l : increasing b l -> forall i t p, In (i, t, p) l -> b < i.
Proof.
  revert b. induction l as [|[[j tj] pj] l IH]; intros b H i t p Hin; [destruct Hin|].
  cbn [increasing] in H. destruct H as [Hb Hl]. destruct Hin as [E|Hin]; [injection E as <- _ _; exact Hb|].
  specialize (IH j Hl i t p Hin). lia.
Qed.

Lemma increasing_nodup b l : increasing b l -> NoDup (map (fun x : N * N * N => fst (fst x)) l).
Proof.
  revert b. induction l as [|[[j tj] pj] l IH]; intros b H; cbn [map]; [constructor|].
  cbn [increasing] in H. destruct H as [Hb Hl]. constructor; [|apply (IH j Hl)].
  cbn [fst]. intro Hin. apply in_map_iff in Hin. destruct Hin as ([[i t] p] & E & Hin). cbn [fst] in E. subst i.
  pose proof (increasing_above j l Hl j t p Hin). lia.
Qed.

Theorem applied_at_most_once ids boot et ld ls : static ls = true -> nosnap ls = true ->
  forall n, In n (w_nodes (run (init_world ids boot et ld) ls)) -> NoDup (map (fun x : N * N * N => fst (fst x)) (n_applies n)).
Proof.
  intros Hs Hn n Hin. destruct (apply_order ids boot et ld ls Hs Hn n Hin) as [H _]. apply (increasing_nodup 0 _ H).
Qed.
Print Assumptions applied_at_most_once.
