(* C16, the other half of stickiness at node level: what makes a voter sticky.  Handling an AppendEntries request of the
   node's own or a newer term - accepted or rejected, heartbeat or not - records the leader contact at the current time and
   nothing else in that handler moves it (sweep CT: the pair (n_contact, n_et) is untouched by every function the handler
   calls).  Hence, from that moment and for a whole election timeout, the node is within an election timeout of its last
   leader contact, which is the hypothesis of Proofs/StickyWorld.v. *)
From RaftV Require Import Cluster.World Cluster.Statements Proofs.Frame Proofs.AESpec Proofs.CommitSpec.
Open Scope N_scope.

Definition ctk (n : node) := (n_contact n, n_et n, n_id n).

(* CT: the state machine and the apply history are untouched *)
(* (an inductive wrapper: the kernel compares the two nodes of an CT statement, it never computes on them) *)
Inductive CT (n n' : node) : Prop := CT_intro : ctk n' = ctk n -> CT n n'.
Lemma CT_eq n n' : CT n n' -> ctk n' = ctk n. Proof. intros [H]. exact H. Qed.
Lemma CT_refl n : CT n n. Proof. constructor. reflexivity. Qed.
Lemma CT_trans a b c : CT a b -> CT b c -> CT a c.
Proof. intros [H1] [H2]. constructor. rewrite H2. exact H1. Qed.
Ltac ctf :=
  apply CT_intro;
  match goal with
  | |- ctk _ = ctk ?x => first [ is_var x; reflexivity
                             | let y := fresh "base" in generalize x; intro y; reflexivity
                             | reflexivity ]
  end.

(* ---------------- Handlers.v ---------------- *)
Lemma CT_tick n : CT n (snd (tick_write n)).
Proof.
  unfold tick_write. destruct (n_frozen n); [apply CT_refl|].
  destruct (n_budget n) as [k|]; [|apply CT_refl]. destruct (k =? 0); cbn [snd]; ctf.
Qed.

Lemma CT_write (f : node -> node) n :
  (forall m, CT m (f m)) -> CT n (let (ok, n1) := tick_write n in if ok then f n1 else n1).
Proof.
  intros Hf. pose proof (CT_tick n) as H. destruct (tick_write n) as [ok n1]. cbn [snd] in H.
  destruct ok; [|exact H]. eapply CT_trans; [exact H|apply Hf].
Qed.

Lemma CT_persist n : CT n (persist n).
Proof. unfold persist. apply CT_write. intros m. ctf. Qed.

Lemma CT_upd_log m f : CT m (m <| n_log ::= f |>). Proof. ctf. Qed.

Lemma CT_append es : forall n, CT n (append_entries n es).
Proof.
  induction es as [|e es IH]; intros n; cbn [append_entries]; [apply CT_refl|].
  pose proof (CT_tick n) as H. destruct (tick_write n) as [ok n1]. cbn [snd] in H.
  destruct ok; [|exact H]. eapply CT_trans; [exact H|]. eapply CT_trans; [|apply IH]. apply CT_upd_log.
Qed.

Lemma CT_truncate n i : CT n (truncate_log n i).
Proof. unfold truncate_log. apply CT_write. intros m. apply CT_upd_log. Qed.

Lemma CT_compact n i : CT n (compact_log n i).
Proof. unfold compact_log. apply CT_write. intros m. apply CT_upd_log. Qed.

Lemma CT_fail o n : CT n (fail o n).
Proof. unfold fail. destruct (n_out n); [ctf|apply CT_refl|apply CT_refl]. Qed.

Lemma CT_respond n f r : CT n (respond n f r).
Proof. unfold respond. destruct (n_frozen n); [apply CT_refl|]. destruct (existsb _ _); [apply CT_refl|ctf]. Qed.
Lemma CT_respond_all fids : forall n r, CT n (respond_all n fids r).
Proof.
  induction fids as [|f fids IH]; intros n r; [apply CT_refl|].
  cbn [respond_all fold_left]. fold (respond_all (respond n f r) fids r).
  eapply CT_trans; [apply CT_respond|apply IH].
Qed.
Lemma CT_new_opmanager now n : CT n (new_opmanager now n). Proof. ctf. Qed.
Lemma CT_notify n : CT n (notify_lost_leadership n).
Proof. unfold notify_lost_leadership. eapply CT_trans; apply CT_respond_all. Qed.
Lemma CT_cancel n : CT n (cancel_conf_change n).
Proof.
  unfold cancel_conf_change. destruct (n_cfg_fid n); [|apply CT_refl].
  eapply CT_trans; [apply CT_respond|ctf].
Qed.

Lemma CT_new_follower n id nx : CT n (new_follower n id nx).
Proof. unfold new_follower. ctf. Qed.

Lemma CT_new_followers nx ids : forall n, CT n (fold_left (fun m id => new_follower m id nx) ids n).
Proof.
  induction ids as [|id ids IH]; intros n; cbn [fold_left]; [apply CT_refl|].
  eapply CT_trans; [apply CT_new_follower|apply IH].
Qed.

Lemma CT_reset n : CT n (reset_snapshot_files n).
Proof. unfold reset_snapshot_files. ctf. Qed.

Lemma CT_become_follower now n l t : CT n (become_follower now n l t).
Proof.
  unfold become_follower.
  eapply CT_trans; [|apply CT_cancel]. eapply CT_trans; [|apply CT_new_opmanager].
  eapply CT_trans; [|apply CT_notify]. eapply CT_trans; [|apply CT_reset].
  eapply CT_trans; [|apply CT_persist]. ctf.
Qed.

Lemma CT_stepdown now n : CT n (stepdown now n).
Proof.
  unfold stepdown. eapply CT_trans; [|apply CT_cancel]. eapply CT_trans; [|apply CT_new_opmanager].
  eapply CT_trans; [|apply CT_notify]. ctf.
Qed.

Lemma CT_next_configuration now n next : CT n (next_configuration now n next).
Proof.
  unfold next_configuration. destruct next as [nx|]; [|apply CT_fail].
  set (n1 := if is_member nx (n_id n) then n else _).
  assert (H1 : CT n n1).
  { subst n1. destruct (is_member nx (n_id n)); [apply CT_refl|].
    eapply CT_trans; [|apply CT_reset]. destruct (role_eqb (n_role n) Leader); [apply CT_stepdown|apply CT_refl]. }
  clearbody n1. eapply CT_trans; [exact H1|].
  match goal with |- CT n1 (fold_left ?f ?l ?n2 <| n_conf := ?c |>) =>
    apply CT_trans with n2; [|apply CT_trans with (fold_left f l n2); [apply CT_new_followers|]] end.
  - ctf.
  - ctf.
Qed.

Lemma CT_apply_configuration now n c : CT n (apply_configuration now n c).
Proof.
  unfold apply_configuration.
  assert (H : CT n (next_configuration now n (Some c) <| n_cconf := Some c |>)).
  { eapply CT_trans; [apply CT_next_configuration|]. ctf. }
  destruct (n_cconf n) as [cc|]; [|exact H]. destruct (c_index c <=? c_index cc); [apply CT_refl|exact H].
Qed.

(* ---- AppendEntries ---- *)
Lemma CT_ae_scan now es : forall n n4 l, ae_scan now n es = Some (n4, l) -> CT n n4.
Proof.
  induction es as [|e es IH]; intros n n4 l H; cbn [ae_scan] in H.
  - injection H as <- <-. apply CT_refl.
  - destruct (last_index (n_log n) <? e_index e); [injection H as <- <-; apply CT_refl|].
    destruct (log_get (n_log n) (e_index e)) as [ex|] eqn:G; [|discriminate].
    destruct ((e_index ex =? e_index e) && negb (e_term ex =? e_term e)).
    + injection H as <- <-.
      destruct (e_index e <=? c_index (conf_of (truncate_log n (e_index e)))); [|apply CT_truncate].
      eapply CT_trans; [apply CT_truncate|apply CT_next_configuration].
    + eapply IH; eassumption.
Qed.

Lemma CT_signal_apply n : CT n (signal_apply n). Proof. unfold signal_apply. ctf. Qed.
Lemma CT_append_entries now n q :
  role_eqb (n_role n) Shutdown = false -> (ae_term q <? n_term n) = false ->
  CT (n <| n_contact := now |> <| n_leader := Some (ae_leader q) |>) (fst (h_append_entries now n q)).
Proof.
  intros Hup Ht. unfold h_append_entries. rewrite Hup, Ht.
  set (n1 := n <| n_contact := now |> <| n_leader := Some (ae_leader q) |>).
  set (n2 := if n_term n1 <? ae_term q then become_follower now n1 (ae_leader q) (ae_term q) else n1).
  assert (H2 : CT n1 n2).
  { subst n2. destruct (n_term n1 <? ae_term q); [apply CT_become_follower|apply CT_refl]. }
  set (n3 := if (ae_term q =? n_term n2) && _ then become_follower now n2 (ae_leader q) (ae_term q) else n2).
  assert (H3 : CT n2 n3).
  { subst n3. destruct ((ae_term q =? n_term n2) && _); [apply CT_become_follower|apply CT_refl]. }
  assert (H03 : CT n1 n3) by (eapply CT_trans; eassumption).
  clearbody n3. clear H2 H3 n2. clearbody n1.
  destruct (ae_prev_index q <? n_lii n3); [exact H03|].
  destruct (next_index (n_log n3) <=? ae_prev_index q); [exact H03|].
  destruct ((n_lii n3 =? ae_prev_index q) && negb (n_lit n3 =? ae_prev_term q)); [exact H03|].
  match goal with |- CT n1 (fst (match ?c with _ => _ end)) => destruct c as [[idx|]|] end.
  - exact H03.
  - cbn [fst]. eapply CT_trans; [exact H03|apply CT_fail].
  - destruct (ae_scan now n3 (ae_entries q)) as [[n4 to_append]|] eqn:Es.
    + cbn [fst]. eapply CT_trans; [exact H03|].
      pose proof (CT_ae_scan _ _ _ _ _ Es) as H4.
      eapply CT_trans; [exact H4|]. eapply CT_trans; [apply CT_append|].
      match goal with |- CT _ (if ?c then _ else _) => destruct c end; [|apply CT_refl].
      eapply CT_trans; [|apply CT_signal_apply]. ctf.
    + cbn [fst]. eapply CT_trans; [exact H03|apply CT_fail].
Qed.

(* the statement *)
Theorem ae_records_contact now n q :
  role_eqb (n_role n) Shutdown = false -> (ae_term q <? n_term n) = false ->
  let n' := fst (h_append_entries now n q) in n_contact n' = now /\ n_et n' = n_et n /\ n_id n' = n_id n.
Proof.
  intros Hup Ht. cbn zeta. pose proof (CT_eq _ _ (CT_append_entries now n q Hup Ht)) as H.
  unfold ctk in H. injection H as H1 H2 H3. split; [exact H1|]. split; [exact H2|exact H3].
Qed.

(* the handler never changes the identity of the node, whatever the request *)
Lemma ae_keeps_id now n q : n_id (fst (h_append_entries now n q)) = n_id n.
Proof.
  destruct (role_eqb (n_role n) Shutdown) eqn:Hup; [unfold h_append_entries; rewrite Hup; reflexivity|].
  destruct (ae_term q <? n_term n) eqn:Ht; [unfold h_append_entries; rewrite Hup, Ht; reflexivity|].
  exact (proj2 (proj2 (ae_records_contact now n q Hup Ht))).
Qed.

(* ... hence the voter is within an election timeout of its last leader contact at every instant of the following
   election timeout *)
Theorem ae_makes_recent_contact now n q later :
  role_eqb (n_role n) Shutdown = false -> (ae_term q <? n_term n) = false ->
  now <= later -> later < now + n_et n ->
  recent_contact later (fst (h_append_entries now n q)) = true.
Proof.
  intros Hup Ht H1 H2. destruct (ae_records_contact now n q Hup Ht) as (Hc & He & _). cbn zeta in Hc, He.
  unfold recent_contact. rewrite Hc, He. apply N.ltb_lt. lia.
Qed.

(* a request of an older term changes nothing at all (so it cannot refresh the contact either) *)
Theorem ae_stale_term_changes_nothing now n q :
  (ae_term q <? n_term n) = true -> fst (h_append_entries now n q) = n.
Proof.
  intros Ht. unfold h_append_entries. destruct (role_eqb (n_role n) Shutdown); [reflexivity|]. rewrite Ht. reflexivity.
Qed.

Print Assumptions ae_records_contact.
Print Assumptions ae_makes_recent_contact.
Print Assumptions ae_stale_term_changes_nothing.
