(* Leader completeness (C07): the entries carried by an AppendEntries request of term T lie on the chain of
   every live entry of a term up to T (so a follower never finds a conflict below an acknowledged entry). *)
From Coq Require Import Classical.
From RaftV Require Import Cluster.World Cluster.Statements Proofs.Frame Proofs.RVSpec Proofs.AESpec Proofs.AELog Proofs.AEFull.
From RaftV Require Import Proofs.ConfNode Proofs.ConfStatic Proofs.ConfSticky.
From RaftV Require Import Proofs.Votes Proofs.VoteRecords Proofs.Names Proofs.ElectSpec.
From RaftV Require Import Proofs.ElectDefs Proofs.RoleFrame Proofs.ElectBook Proofs.ElectWorld Proofs.ElectRun Proofs.ElectSafety.
From RaftV Require Import Proofs.Tails1 Proofs.LogDefs Proofs.LogSeg Proofs.LogUni Proofs.LogInv Proofs.LogAccept Proofs.LogFrame Proofs.NoSnap Proofs.TaePeer
                          Proofs.LogWorld Proofs.LogRun Proofs.LogMatching Proofs.StepCases Proofs.NewCalls Proofs.LeaderLog Proofs.SortedTerms Proofs.ReachInd Proofs.ReqTerm
                          Proofs.LCDefs Proofs.LCHist Proofs.LCCore Proofs.LCStep Proofs.LCStep2 Proofs.LCCtx Proofs.LCtt Proofs.LCClauses Proofs.LCReach
                          Proofs.LCPersist Proofs.LCChain.
Open Scope N_scope.

Definition RQI (C : config) (w : world) : Prop :=
  forall ej k q i e2, is_entry w ej -> ~ dead C w ej -> In k (w_calls w) -> c_req k = ReqAE q -> e_term ej <= ae_term q ->
    eget (seg_of_req q) i = Some e2 -> i <= e_index ej -> chain_at w ej i e2.

Section Req.
Variables (C : config) (w : world) (l : label).
Hypothesis HC : CTX C w l.
Hypothesis HQ : RQI C w.
Let w' := step w l.
Let HCnd := cx_nd C w l HC.
Let Hst := cx_st C w l HC.
Let Hns := cx_ns C w l HC.
Let HF := cx_f C w l HC.
Let HF' := cx_f' C w l HC.
Let HA := f_all C w HF.
Let HA' := f_all C w' HF'.
Let HI := cx_i C w l HC.
Let HI' : LCI C w' := step_LCI C w l HC.
Let HL' := a_lm C w' HA'.
Let HU' := a_uni C w' HA'.
Let HX' := a_x C w' HA'.

(* a leader of the new world, of a term at least the entry's, holds the entry *)
Lemma leader_holds ej m' : is_entry w' ej -> ~ dead C w' ej -> In m' (w_nodes w') -> n_role m' = Leader -> e_term ej <= n_term m' ->
  holds (seg_of_log (n_log m')) ej.
Proof.
  intros He Hnd Hm Hrole HT. destruct (N.eq_dec (e_term ej) (n_term m')) as [Heq|Hne].
  - apply (lc_a C w' HI' ej m' He Hnd Hm). right. rewrite Heq. apply (leader_facts C w l HC m' Hm Hrole).
  - apply (lc_ic C w' HI' ej m' He Hnd Hm Hrole). lia.
Qed.

Theorem step_RQI : RQI C w'.
Proof.
  intros ej k' q i e2 He Hnd' Hk' Eq HT E2 Hi.
  assert (Hi1 : 1 <= i) by (destruct (eget_range _ _ _ E2); lia).
  destruct (new_ae_sender C w l HCnd Hst Hns HA k' q Hk' Eq) as [(k & Hk & Ek)|(m' & Hm' & Eid & Hrole & Et & _ & Hsub & _)].
  2:{ (* a new request: its sender is a leader that holds the entry *)
      assert (Hh : holds (seg_of_log (n_log m')) ej) by (apply leader_holds; auto; lia).
      apply (chain_of_holder C w' HF' ej m' i e2 Hm' Hh (Hsub _ _ E2) Hi). }
  pose proof (key_fields _ _ Ek) as (_ & Esrc & _ & _ & Er). rewrite Eq in Er. symmetry in Er.
  destruct (entry_cases C HCnd w l Hst Hns HA ej He) as [Hold|Hnew].
  - assert (Hnd : ~ dead C w ej) by (intro H; apply Hnd'; apply (dead_mono C HCnd w l Hst Hns HA HA' ej Hold H)).
    apply (chain_persists C w l HC ej i e2 Hold Hnd' Hi1 Hi). apply (HQ ej k q i e2); assumption.
  - (* a brand-new entry and an old request *)
    destruct (f_rte C w' HF' k' q Hk' Eq) as (a & Ha & Eida & Hle).
    destruct (lm_ae C w' HL' k' q Hk' Eq) as [Hl _]. rewrite <- Eida in Hl.
    destruct (N.eq_dec (e_term ej) (ae_term q)) as [Heq|Hne].
    2:{ exfalso. apply Hnd'. apply (newe_dead C w l HC ej a (ae_term q) Hnew ltac:(lia) Ha Hl Hle). }
    pose proof Hnew as (n & n' & r & Hn & Hn' & Eidn & Er0 & Er' & Ei & Etn & Erole & Efr & Ept & Hp & Hl0 & Hi2).
    assert (a = n').
    { apply HU'; [exact Ha|exact Hn'|]. rewrite Eidn.
      apply (lead_unique C w' (n_id a) (n_id n) (ae_term q) n' n' HX' Hn' Hn'); [exact Hl|]. rewrite <- Heq, Etn. exact Hl0. }
    subst a.
    assert (Hsq : is_seg w' (seg_of_req q)) by (right; exists k', q; auto).
    assert (Hsn : is_seg w' (seg_of_log (n_log n'))) by (left; exists n'; auto).
    assert (Hhn : holds (seg_of_log (n_log n')) ej).
    { unfold holds. rewrite Er', Ei. apply eget_app_new. }
    assert (Htop : top (seg_of_req q) <= e_index ej).
    { pose proof (f_rt C w' HF' k' q n' Hk' Eq Hn' Eida ltac:(lia)) as H. rewrite Er' in H. rewrite top_log in H.
      rewrite app_length in H. cbn [length] in H. lia. }
    apply (chain_of_holder C w' HF' ej n' i e2 Hn' Hhn); [|exact Hi].
    destruct (eget_range _ _ _ E2) as [Hb Hit].
    (* the last position of the request is of the request's term, hence on the appender's log *)
    pose proof (f_rq C w' HF' k' Hk' q Eq) as Hlast.
    destruct (tget_pos _ _ _ Hlast ltac:(lia)) as (et & Eet & Ett).
    destruct (N.le_gt_cases 2 (top (seg_of_req q))) as [H2|H2].
    + assert (Hent : is_entry w' et).
      { exists (seg_of_req q). split; [exact Hsq|]. pose proof (eget_index _ _ _ (lm_wf C w' HL' _ Hsq) Eet) as Eti.
        unfold holds. rewrite Eti. split; [exact Eet|lia]. }
      pose proof (eget_index _ _ _ (lm_wf C w' HL' _ Hsq) Eet) as Eti.
      destruct (lc_tt C w' HI' et (seg_of_log (n_log n')) (e_index ej) Hent Hsn ltac:(lia)) as [A _].
      { rewrite (tget_entry _ _ _ Hhn). congruence. }
      specialize (A ltac:(cbn; lia)). unfold holds in A. rewrite Eti in A.
      rewrite <- E2. symmetry.
      apply (pm_agree _ _ (top (seg_of_req q)) i (lm_pm C w' HL' _ _ Hsq Hsn)); [exists et; auto|exact Hb|cbn; lia|exact Hit].
    + assert (i = 1) by lia. subst i.
      pose proof (lm_one C w' HL' _ e2 Hsq E2) as ->.
      destruct (eget_defined (seg_of_log (n_log n')) 1) as (e1 & E1); [cbn; lia|destruct (eget_range _ _ _ Hhn); lia|].
      rewrite E1. f_equal. apply (lm_one C w' HL' _ e1 Hsn E1).
Qed.

End Req.

Lemma RQI_init ids boot et ld : RQI (bootconf boot) (init_world ids boot et ld).
Proof. intros ej k q i e2 He. exfalso. eapply no_entry_init; eassumption. Qed.

Lemma ctx_reach ids boot et ld ls l : static (ls ++ [l]) = true -> nosnap (ls ++ [l]) = true ->
  CTX (bootconf boot) (run (init_world ids boot et ld) ls) l /\
  run (init_world ids boot et ld) (ls ++ [l]) = step (run (init_world ids boot et ld) ls) l.
Proof.
  intros Hs Hn. destruct (static_snoc _ _ Hs) as [S1 S2]. destruct (nosnap_snoc _ _ Hn) as [N1 N2].
  assert (E : run (init_world ids boot et ld) (ls ++ [l]) = step (run (init_world ids boot et ld) ls) l).
  { unfold run. rewrite fold_left_app. reflexivity. }
  split; [|exact E]. constructor; auto.
  - apply bootconf_nodup.
  - apply facts_reach; assumption.
  - rewrite <- E. apply facts_reach; assumption.
  - apply LCI_reach; assumption.
Qed.

Theorem RQI_reach ids boot et ld ls : static ls = true -> nosnap ls = true ->
  RQI (bootconf boot) (run (init_world ids boot et ld) ls).
Proof.
  induction ls as [|l ls IH] using rev_ind; intros Hs Hn; [apply RQI_init|].
  destruct (static_snoc _ _ Hs) as [S1 S2]. destruct (nosnap_snoc _ _ Hn) as [N1 N2].
  destruct (ctx_reach ids boot et ld ls l Hs Hn) as [HC E]. rewrite E. apply step_RQI; auto.
Qed.

Print Assumptions RQI_reach.
