(* Tails, part 1: node-level facts.  LT: what a section that is not the AppendEntries handler does to
   "a working leader's log ends with an entry of its term". *)
From RaftV Require Import Cluster.World Cluster.Statements Proofs.Frame Proofs.RVSpec Proofs.AESpec Proofs.AELog.
From RaftV Require Import Proofs.ConfNode Proofs.ConfStatic Proofs.ConfSticky.
From RaftV Require Import Proofs.Votes Proofs.VoteRecords Proofs.Names Proofs.ElectSpec.
From RaftV Require Import Proofs.ElectDefs Proofs.EFrame Proofs.RoleFrame Proofs.ElectBook Proofs.ElectNode Proofs.ElectSteps
                          Proofs.ElectWorld Proofs.ElectReply Proofs.ElectStep Proofs.ElectRun Proofs.ElectSafety.
From RaftV Require Import Proofs.LogDefs Proofs.LogSeg Proofs.LogUni Proofs.LogInv Proofs.LogAccept Proofs.LogSend Proofs.LogFrame
                          Proofs.NoSnap Proofs.TaePeer Proofs.LogWorld Proofs.LogRun Proofs.LogMatching Proofs.StepCases
                          Proofs.LeaderLog Proofs.LCDefs.
Open Scope N_scope.

(* ---------------- the last entry of a log ---------------- *)
Lemma last_term_app l e : last_term (l ++ [e]) = e_term e.
Proof. unfold last_term, last_entry. rewrite last_last. reflexivity. Qed.

Lemma log_tail r : wf_seg (seg_of_log (entry0 :: r)) ->
  last_index (entry0 :: r) = N.of_nat (length r) /\
  tget (seg_of_log (entry0 :: r)) (N.of_nat (length r)) = Some (last_term (entry0 :: r)).
Proof.
  intros Hwf. split.
  - rewrite (last_index_consecutive _ (wf_log_seg r Hwf)). cbn [first_index hd e_index entry0 length]. lia.
  - destruct r as [|x r0]; [reflexivity|].
    destruct (@exists_last _ (x :: r0)) as (r' & e & E); [discriminate|]. rewrite E in *.
    replace (entry0 :: r' ++ [e]) with ((entry0 :: r') ++ [e]) by reflexivity. rewrite last_term_app.
    rewrite app_length. cbn [length]. replace (N.of_nat (length r' + 1)) with (N.of_nat (length r') + 1) by lia.
    cbn [app]. rewrite (tget_entry _ _ _ (eget_app_new r' e)). reflexivity.
Qed.

(* ---------------- LT: sections and the tail of a working leader ---------------- *)
Definition LT (n n' : node) : Prop :=
  n_role n' = Leader -> n_frozen n' = false ->
  (n_role n = Leader /\ n_frozen n = false /\ n_term n' = n_term n /\ n_log n' = n_log n) \/
  last_term (n_log n') = n_term n'.

Lemma LT_ln n n' : LT n n' -> ln_node n -> ln_node n'.
Proof.
  intros H Hn Hr Hf. destruct (H Hr Hf) as [(A & B & D & E)|H1]; [|exact H1].
  rewrite E, D. apply Hn; assumption.
Qed.

Lemma LT_refl n : LT n n.
Proof. intros Hr Hf. left. auto. Qed.

Lemma U_fields n n' : U n n' -> n_log n' = n_log n /\ n_term n' = n_term n /\ n_role n' = n_role n /\ n_frozen n' = n_frozen n.
Proof. unfold U, ltrf. intros H. injection H as H1 H2 H3 H4. auto. Qed.

Lemma LT_U n n' : U n n' -> LT n n'.
Proof. intros H. destruct (U_fields _ _ H) as (H1 & H2 & H3 & H4). intros Hr Hf. left. rewrite <- H1, <- H2, <- H3, <- H4. auto. Qed.

Lemma LT_not_leader n n' : n_role n' <> Leader -> LT n n'.
Proof. intros H Hr. contradiction. Qed.

(* a section that makes nobody leader, does not unfreeze, and appends at most one entry of the leader's term *)
Lemma LT_KLG n n' : K n n' -> (n_frozen n' = false -> n_frozen n = false) -> LG n n' -> LT n n'.
Proof.
  intros [K1 _] HF HLG Hr Hf. destruct HLG as [E|(e & E & _ & Et & _)].
  - left. destruct (K1 Hr) as [A B]. auto.
  - right. rewrite E, last_term_app. exact Et.
Qed.

Lemma LT_QLK n n' : Q n n' -> LG n n' -> K n n' -> LT n n'.
Proof. intros HQ HLG HK. apply LT_KLG; [exact HK|apply (q_frozen _ _ HQ)|exact HLG]. Qed.

Lemma LT_RLK n n' : R n n' -> LG n n' -> K n n' -> LT n n'.
Proof. intros HR HLG HK. apply LT_KLG; [exact HK|apply (Votes.r_frozen _ _ HR)|exact HLG]. Qed.

(* becomeLeader: the no-op of the node's term is the last entry, unless the write was refused *)
Lemma append1_tail n e : e_term e = n_term n ->
  n_frozen (append_entries n [e]) = false ->
  last_term (n_log (append_entries n [e])) = n_term (append_entries n [e]).
Proof.
  intros Ht. cbn [append_entries].
  pose proof (tick_write_core n) as HC. cbn zeta in HC. destruct HC as (T & _ & _ & _ & L & _).
  pose proof (tick_false_frozen n) as HF.
  destruct (tick_write n) as [ok n1]. cbn [fst snd] in *. destruct ok.
  - intros _. change (last_term (n_log n1 ++ [e]) = n_term n1). rewrite last_term_app, T. exact Ht.
  - intros F. rewrite (HF eq_refl) in F. discriminate.
Qed.

Lemma become_leader_tail now n :
  n_frozen (become_leader now n) = false -> last_term (n_log (become_leader now n)) = n_term (become_leader now n).
Proof.
  unfold become_leader.
  match goal with |- context [send_ae_to_peers now ?x] => pose proof (U_send_ae_to_peers now x) as HU; set (n4 := x) in * end.
  destruct (U_fields _ _ HU) as (H1 & H2 & _ & H4). rewrite H1, H2, H4. subst n4.
  apply append1_tail. reflexivity.
Qed.

Lemma LT_become_leader now n m : LT m (become_leader now n).
Proof. intros _ Hf. right. apply become_leader_tail, Hf. Qed.

Lemma LT_l_rv_reply now m rid peer pv q p : LT m (l_rv_reply now m rid peer pv q p).
Proof.
  unfold l_rv_reply.
  destruct (role_eqb (n_role m) Shutdown); [apply LT_refl|].
  destruct (rv_term q <? n_term m); [apply LT_refl|].
  set (n1 := if rvr_granted p then bump_round m rid else m).
  assert (H1 : U m n1) by (subst n1; destruct (rvr_granted p); [unfold bump_round; utv|apply U_refl]).
  destruct (rv_term q <? rvr_term p).
  - apply LT_not_leader. rewrite role_become_follower. discriminate.
  - set (n2 := if _ && role_eqb (n_role n1) PreCandidate then _ else n1).
    assert (H2 : LT m n2).
    { subst n2. match goal with |- LT _ (if ?c then _ else _) => destruct c end; [|apply LT_U, H1].
      apply LT_not_leader. unfold signal_election. cbn [n_role set]. discriminate. }
    match goal with |- LT _ (if ?c then _ else _) => destruct c end; [apply LT_become_leader|exact H2].
Qed.

Lemma LT_send_rv_to_peers now n m : n_role n <> Leader -> LT m (send_rv_to_peers now n).
Proof.
  intros Hn. unfold send_rv_to_peers. destruct (is_single (conf_of n) (n_id n)); [apply LT_become_leader|].
  apply LT_not_leader. unfold new_round. cbn [n_role set fst snd]. exact Hn.
Qed.

Lemma LT_l_election now m : LT m (l_election now m).
Proof.
  unfold l_election.
  set (n0 := m <| n_cv ::= _ |>).
  assert (H0 : U m n0) by utv.
  assert (R0 : n_role n0 = n_role m) by reflexivity.
  clearbody n0.
  destruct (role_eqb (n_role n0) Leader) eqn:EL; cbn [orb]; [apply LT_U, H0|].
  match goal with |- LT m (if ?c then _ else _) => destruct c end; [apply LT_U, H0|].
  apply LT_send_rv_to_peers.
  set (n1 := if role_eqb (n_role n0) Follower then n0 <| n_role := PreCandidate |> else n0).
  assert (R1 : n_role n1 <> Leader).
  { subst n1. destruct (role_eqb (n_role n0) Follower); [cbn [n_role set]; discriminate|].
    intros E. rewrite E in EL. discriminate. }
  clearbody n1.
  destruct (role_eqb (n_role n1) Candidate); [|exact R1].
  pose proof (persist_core (n1 <| n_term ::= N.succ |> <| n_vote := Some (n_id n1) |>)) as HP. cbn zeta in HP.
  destruct HP as (_ & _ & _ & PR & _). rewrite PR. exact R1.
Qed.

Section Tails1.
Variable C : config.
Hypothesis HCnd : NoDup (member_ids C).

Lemma lead_of_leader w m : XInv C w -> In m (w_nodes w) -> n_role m = Leader -> lead C (w_calls w) (n_id m) (n_term m).
Proof.
  intros HX Hm Hr. assert (Hact : active (n_role m)) by (rewrite Hr; unfold active; auto).
  destruct (x_l0 C w HX m Hm Hact) as [_ Hv]. split; [exact Hv|]. intros Hmany. apply (x_l C w HX m Hm Hr Hmany).
Qed.

(* the AppendEntries handler on a working leader *)
Lemma ln_accept w n k q :
  ALL C w -> In n (w_nodes w) -> In k (w_calls w) -> c_req k = ReqAE q -> c_dst k = n_id n -> n_frozen n = false ->
  ln_node n -> ln_node (fst (h_append_entries (w_now w) n q)).
Proof.
  intros [HW HX HU HNS HTA HL] Hn Hk Eq Ed F Hln Hr' Hf'.
  pose proof (vi_coh w (x_v C w HX) n Hn) as Hcoh.
  pose proof (R_append_entries (w_now w) n q Hcoh) as HR.
  destruct (K_h_append_entries (w_now w) n q) as [K1 _]. destruct (K1 Hr') as [Hr Ht].
  destruct (list_eq_dec entry_eq_dec (n_log (fst (h_append_entries (w_now w) n q))) (n_log n)) as [El|El].
  { rewrite El, Ht. apply Hln; assumption. }
  exfalso.
  destruct (ns_nodes w HNS n Hn) as (Hlii & _ & _ & _ & _ & (r & Er)).
  assert (Hsn : is_seg w (seg_of_log (n_log n))) by (left; exists n; auto).
  assert (Hsq : is_seg w (seg_of_req q)) by (right; exists k, q; auto).
  pose proof (lm_wf C w HL _ Hsn) as Hwfn. pose proof (lm_wf C w HL _ Hsq) as Hwfq. rewrite Er in Hwfn.
  destruct (ae_log_general (w_now w) n q) as [Esame|(a & ta & m & _ & _ & _ & Hterm & _)];
    [rewrite Er; apply wf_log_seg, Hwfn|rewrite Er, Hlii; reflexivity|exact Hwfq|contradiction|].
  destruct (N.eq_dec (ae_term q) (n_term n)) as [Et|Et].
  - destruct (lm_ae C w HL k q Hk Eq) as [Hlk Hne]. apply Hne. rewrite Ed. symmetry.
    apply (lead_unique C w (c_src k) (n_id n) (n_term n) n n HX Hn Hn); [rewrite <- Et; exact Hlk|].
    apply lead_of_leader; assumption.
  - assert (Hlt : n_term n < ae_term q) by lia. pose proof (ae_higher_term_log (w_now w) n q Hlt El) as Hp'.
    destruct (Votes.r_coh _ _ HR Hcoh Hf') as [Ec' _]. lia.
Qed.

(* ---------------- every step, nodes ---------------- *)
Definition PN (w w' : world) : Prop :=
  forall n', In n' (w_nodes w') -> exists n, In n (w_nodes w) /\ (ln_node n -> ln_node n').

Lemma PN_same_nodes w w' : w_nodes w' = w_nodes w -> PN w w'.
Proof. intros E n' Hn'. rewrite E in Hn'. exists n'. auto. Qed.

Lemma PN_set_node w w1 m m' : w_nodes w1 = w_nodes w -> In m (w_nodes w) -> (ln_node m -> ln_node m') -> PN w (set_node w1 m').
Proof.
  intros E Hm H n' Hn'. destruct (in_set_node _ _ _ Hn') as [->|[Hi _]]; [exists m; auto|]. rewrite E in Hi. exists n'. auto.
Qed.

Lemma PN_nodes_eq w w1 w2 : PN w w1 -> w_nodes w2 = w_nodes w1 -> PN w w2.
Proof. intros H E n' Hn'. rewrite E in Hn'. apply H, Hn'. Qed.

Lemma PN_on_node w w1 id f : w_nodes w1 = w_nodes w -> (forall m, In m (w_nodes w) -> LT m (f m)) -> PN w (on_node w1 id f).
Proof.
  intros E H. unfold on_node. destruct (get_node w1 id) as [m|] eqn:G; [|apply PN_same_nodes, E].
  destruct (Votes.get_node_in _ _ _ G) as [Hm _]. rewrite E in Hm.
  apply PN_set_node with (m := m); [exact E|exact Hm|apply LT_ln, H, Hm].
Qed.

Lemma PN_cond w id (b : node -> bool) g :
  (forall m, In m (w_nodes w) -> LT m (g m)) -> PN w (on_node w id (fun m => if b m then g m else m)).
Proof. intros H. apply PN_on_node; [reflexivity|]. intros m Hm. destruct (b m); [apply H, Hm|apply LT_refl]. Qed.

Lemma PN_step_deliver w c dup : ALL C w -> In c (w_calls w) -> PN w (step_deliver w c dup).
Proof.
  intros HA Hc. pose proof HA as [HW HX HU HNS HTA HL]. pose proof (x_v C w HX) as HV.
  assert (Hsame : forall w1, w_nodes w1 = w_nodes w -> PN w w1) by (intros w1 E; apply PN_same_nodes, E).
  unfold step_deliver. destruct (get_node w (c_dst c)) as [n|] eqn:G.
  2:{ destruct dup; apply Hsame; reflexivity. }
  destruct (Votes.get_node_in _ _ _ G) as [Hn Eid]. pose proof (vi_coh w HV n Hn) as Hcoh.
  destruct (n_frozen n) eqn:F; [destruct dup; apply Hsame; reflexivity|].
  assert (H1 : PN w (set_node w (fst (fst (run_handler (w_now w) n (c_req c)))))).
  { pose proof (ns_calls w HNS c Hc) as Hq. unfold ns_call in Hq.
    destruct (c_req c) as [q|q|q] eqn:Eq; [| |contradiction].
    - unfold run_handler. destruct (h_append_entries (w_now w) n q) as [n1 p] eqn:EH. cbn [fst].
      replace n1 with (fst (h_append_entries (w_now w) n q)) by (rewrite EH; reflexivity).
      apply PN_set_node with (m := n); [reflexivity|exact Hn|].
      apply ln_accept with (k := c); auto.
    - unfold run_handler. destruct (h_request_vote (w_now w) n q) as [n1 p] eqn:EH. cbn [fst].
      replace n1 with (fst (h_request_vote (w_now w) n q)) by (rewrite EH; reflexivity).
      apply PN_set_node with (m := n); [reflexivity|exact Hn|]. apply LT_ln.
      apply LT_RLK; [apply R_request_vote, Hcoh|apply LG_h_request_vote|apply K_h_request_vote]. }
  destruct (run_handler (w_now w) n (c_req c)) as [[n1 resp] parked]. cbn [fst] in H1.
  destruct dup; [exact H1|].
  destruct (n_frozen n1); [eapply PN_nodes_eq; [exact H1|reflexivity]|].
  destruct resp as [p|]; (eapply PN_nodes_eq; [exact H1|reflexivity]).
Qed.

Lemma PN_step_reply w c failed : ALL C w -> In c (w_calls w) -> PN w (step_reply w c failed).
Proof.
  intros HA Hc. pose proof HA as [HW HX HU HNS HTA HL]. pose proof (x_v C w HX) as HV. unfold step_reply.
  set (c0 := c <| c_state := CDone |>). set (w0 := set_call w c0).
  assert (H0 : PN w w0) by (apply PN_same_nodes; reflexivity).
  destruct (get_node w (c_src c)) as [n|] eqn:G; [|exact H0].
  destruct (Votes.get_node_in _ _ _ G) as [Hn Eid]. pose proof (vi_coh w HV n Hn) as Hcoh.
  destruct (n_frozen n) eqn:F; [exact H0|].
  pose proof (ns_calls w HNS c Hc) as Hq. unfold ns_call in Hq.
  destruct (c_req c) as [q|q|q] eqn:Eq; [| |contradiction].
  - destruct (if failed then None else c_resp c) as [[p|p|p]|]; try exact H0.
    destruct (ae_reply_ns (w_now w) n (c_round c) (c_dst c) (c_fgen c) q p (ns_nodes w HNS n Hn)) as [_ Hnone].
    pose proof (LG_l_ae_reply (w_now w) n (c_round c) (c_dst c) (c_fgen c) q p) as HLG.
    pose proof (K_ae_reply (w_now w) n (c_round c) (c_dst c) (c_fgen c) q p) as HK.
    pose proof (R_ae_reply (w_now w) n (c_round c) (c_dst c) (c_fgen c) q p Hcoh) as HR.
    destruct (l_ae_reply (w_now w) n (c_round c) (c_dst c) (c_fgen c) q p) as [n1 o]. cbn [fst snd] in *. subst o.
    apply PN_set_node with (m := n); [reflexivity|exact Hn|]. apply LT_ln, LT_RLK; assumption.
  - destruct (if failed then None else c_resp c) as [[p|p|p]|]; try exact H0.
    apply PN_set_node with (m := n); [reflexivity|exact Hn|]. apply LT_ln, LT_l_rv_reply.
Qed.

Lemma PN_step_task w m : In m (w_nodes w) -> PN w (step_task w m).
Proof.
  intros Hm. unfold step_task. destruct (n_tasks m) as [|t rest] eqn:Et; [apply PN_same_nodes; reflexivity|].
  set (n0 := m <| n_tasks := rest |>).
  assert (U0 : U m n0) by utv.
  assert (H0 : PN w (set_node w n0)) by (apply PN_set_node with (m := m); [reflexivity|exact Hm|apply LT_ln, LT_U, U0]).
  destruct t as [rid peer pv|rid peer].
  - destruct (l_rv_send n0 rid peer pv) as [q|]; [|exact H0]. eapply PN_nodes_eq; [exact H0|reflexivity].
  - pose proof (SL_l_ae_send n0 peer) as HSL. pose proof (Q_ae_send n0 peer) as HQ. pose proof (K_l_ae_send n0 peer) as HK.
    destruct (l_ae_send n0 peer) as [n1 sn]. cbn [fst] in *.
    assert (H1 : PN w (set_node w n1)).
    { apply PN_set_node with (m := m); [reflexivity|exact Hm|]. intros Hl. apply (LT_ln n0 n1); [|apply (LT_ln m n0); [apply LT_U, U0|exact Hl]].
      apply LT_QLK; [exact HQ|apply LG_SL, HSL|exact HK]. }
    destruct sn as [|q|q]; [exact H1| |]; (eapply PN_nodes_eq; [exact H1|reflexivity]).
Qed.

Theorem step_PN w l : static_label l = true -> nosnap_label l = true -> ALL C w -> PN w (step w l).
Proof.
  intros Hst Hns HA. pose proof HA as [HW HX HU HNS HTA HL]. pose proof (x_v C w HX) as HV.
  destruct l; cbn [step]; try discriminate Hst; try discriminate Hns.
  - apply PN_same_nodes. reflexivity.
  - apply PN_cond. intros m _. apply LT_QLK; [apply Q_signal_election|apply LG_signal_election|apply K_of_rt; reflexivity].
  - apply PN_cond. intros m _. apply LT_QLK; [apply Q_heartbeat|apply LG_l_heartbeat|apply K_l_heartbeat].
  - destruct (get_call w c) as [cl|] eqn:G; [|apply PN_same_nodes; reflexivity]. destruct (VoteRecords.get_call_in _ _ _ G) as [Hin _].
    destruct (c_state cl) eqn:Es; try (apply PN_same_nodes; reflexivity). apply PN_step_deliver; auto.
  - destruct (get_call w c) as [cl|] eqn:G; [|apply PN_same_nodes; reflexivity]. destruct (VoteRecords.get_call_in _ _ _ G) as [Hin _].
    apply PN_step_deliver; auto.
  - destruct (get_call w c) as [cl|] eqn:G; [|apply PN_same_nodes; reflexivity]. destruct (VoteRecords.get_call_in _ _ _ G) as [Hin _].
    destruct (c_state cl) eqn:Es; try (apply PN_same_nodes; reflexivity). apply PN_step_reply; auto.
  - destruct (get_call w c) as [cl|] eqn:G; [|apply PN_same_nodes; reflexivity]. destruct (VoteRecords.get_call_in _ _ _ G) as [Hin _].
    destruct (c_state cl) eqn:Es; try (apply PN_same_nodes; reflexivity); apply PN_step_reply; auto.
  - unfold fresh_fid. apply PN_on_node; [reflexivity|]. intros m _.
    destruct (n_frozen m); [apply LT_refl|apply LT_QLK; [apply Q_submit|apply LG_api_submit|apply K_api_submit]].
  - (* LCrash *) eapply PN_nodes_eq; [|reflexivity]. apply PN_on_node; [reflexivity|]. intros m _.
    apply LT_not_leader. rewrite role_crash. discriminate.
  - (* LRestart *) apply PN_cond. intros m _. apply LT_not_leader. rewrite role_restart. discriminate.
  - apply PN_on_node; [reflexivity|]. intros m _. apply LT_U. utv.
  - apply PN_on_node; [reflexivity|]. intros m _. apply LT_U. utv.
  - apply PN_on_node; [reflexivity|]. intros m _. apply LT_U. utv.
  - apply PN_on_node; [reflexivity|]. intros m _. apply LT_U. utv.
  - destruct (get_node w n) as [m|] eqn:G; [|apply PN_same_nodes; reflexivity]. destruct (is_up m) eqn:Hup; [|apply PN_same_nodes; reflexivity].
    destruct (Votes.get_node_in _ _ _ G) as [Hm _]. apply PN_step_task; auto.
  - (* LElectionRun *) apply PN_cond. intros m _. apply LT_l_election.
  - apply PN_cond. intros m _. apply LT_QLK; [apply Q_commit|apply LG_lp_commit|apply K_lp_commit].
  - apply PN_cond. intros m _. apply LT_QLK; [apply Q_apply|apply LG_lp_apply|apply K_lp_apply].
  - apply PN_cond. intros m _. apply LT_QLK; [apply Q_ro|apply LG_lp_ro|apply K_lp_ro].
  - destruct (get_node w n) as [m|] eqn:G; [|apply PN_same_nodes; reflexivity].
    destruct (Votes.get_node_in _ _ _ G) as [Hm _]. rewrite (install_resume_ns m (ns_nodes w HNS m Hm)). apply PN_same_nodes. reflexivity.
Qed.

End Tails1.
