(* The term of an AppendEntries request never exceeds the persistent term of its sender. *)
From RaftV Require Import Cluster.World Cluster.Statements Proofs.Frame Proofs.AESpec.
From RaftV Require Import Proofs.ConfNode Proofs.ConfStatic Proofs.Votes Proofs.VoteRecords.
From RaftV Require Import Proofs.ElectBook Proofs.ElectWorld Proofs.ElectRun Proofs.ElectSafety.
From RaftV Require Import Proofs.LogDefs Proofs.LogSeg Proofs.LogUni Proofs.LogInv Proofs.NoSnap Proofs.TaePeer Proofs.LogRun Proofs.LogMatching
                          Proofs.StepCases Proofs.SortedTerms Proofs.ReachInd.
Open Scope N_scope.

Definition RTL (w : world) : Prop :=
  forall k q a, In k (w_calls w) -> c_req k = ReqAE q -> In a (w_nodes w) -> n_id a = c_src k -> ae_term q <= n_pterm a.

Lemma step_RTL C w l : NoDup (member_ids C) -> static_label l = true -> nosnap_label l = true -> ALL C w -> RTL w -> RTL (step w l).
Proof.
  intros HC Hst Hns HA H k' q a' Hk' Eq Ha' Eid.
  pose proof (a_x C w HA) as HX. pose proof (x_v C w HX) as HV.
  destruct (step_NT C HC w l Hst Hns HA a' Ha') as (a & Ha & Eida & HT).
  assert (Hp : n_pterm a <= n_pterm a').
  { destruct HT as [->|HS _ _|k0 q0 _ _ _ _ ->]; [lia| |].
    - destruct (HS (vi_coh w HV a Ha)) as (_ & [Hp _] & _). exact Hp.
    - destruct (Votes.r_tv _ _ (R_append_entries (w_now w) a q0 (vi_coh w HV a Ha))) as [Hp _]. exact Hp. }
  destruct (step_NC C w l Hst Hns HA k' Hk') as [(k & Hk & Ek)|(m & Hm & Es & Hreq)].
  - pose proof (key_fields _ _ Ek) as (_ & Esrc & _ & _ & Er). specialize (H k q a Hk). rewrite <- Er in H. specialize (H Eq Ha). lia || (assert (ae_term q <= n_pterm a) by (apply H; congruence); lia).
  - destruct (step_UP w l Hst Hns (a_ns C w HA) k' Hk') as [(k & Hk & Ek)|(m2 & Hm2 & Es2 & F2)].
    + pose proof (key_fields _ _ Ek) as (_ & Esrc & _ & _ & Er). assert (ae_term q <= n_pterm a) by (apply (H k q a Hk); congruence). lia.
    + assert (m2 = m) by (apply (a_uni C w HA); congruence). subst m2.
      assert (a = m) by (apply (a_uni C w HA); congruence). subst a.
      rewrite Eq in Hreq. destruct Hreq as (_ & Et & _). destruct (vi_coh w HV m Hm F2) as [Ec _]. lia.
Qed.

Theorem RTL_reach ids boot et ld ls : static ls = true -> nosnap ls = true -> RTL (run (init_world ids boot et ld) ls).
Proof.
  intros Hs Hn. apply (reach_init (bootconf boot) RTL ids boot et ld eq_refl); auto.
  - intros w l S1 N1 HA _ _ _ H. apply (step_RTL (bootconf boot)); auto. apply bootconf_nodup.
  - intros k q a [].
Qed.

(* ... and the sender is a node of the world *)
From RaftV Require Import Proofs.LCDefs Proofs.LCHist.
Definition RTE (w : world) : Prop :=
  forall k q, In k (w_calls w) -> c_req k = ReqAE q -> exists a, In a (w_nodes w) /\ n_id a = c_src k /\ ae_term q <= n_pterm a.

Lemma step_RTE C w l : NoDup (member_ids C) -> static_label l = true -> nosnap_label l = true -> ALL C w -> RTE w -> RTE (step w l).
Proof.
  intros HC Hst Hns HA H k' q Hk' Eq.
  pose proof (a_x C w HA) as HX. pose proof (x_v C w HX) as HV.
  assert (Hfw : forall a, In a (w_nodes w) -> exists a', In a' (w_nodes (step w l)) /\ n_id a' = n_id a /\ n_pterm a <= n_pterm a').
  { intros a Ha. destruct (IDS_forward w (step w l) a (step_IDS w l) Ha) as (a' & Ha' & Eid).
    destruct (step_NT C HC w l Hst Hns HA a' Ha') as (a0 & Ha0 & Eid0 & HT).
    assert (a0 = a) by (apply (a_uni C w HA); congruence). subst a0. exists a'. split; [exact Ha'|]. split; [exact Eid|].
    destruct HT as [->|HS _ _|k0 q0 _ _ _ _ ->]; [lia| |].
    - destruct (HS (vi_coh w HV a Ha)) as (_ & [Hp _] & _). exact Hp.
    - destruct (Votes.r_tv _ _ (R_append_entries (w_now w) a q0 (vi_coh w HV a Ha))) as [Hp _]. exact Hp. }
  destruct (step_NC C w l Hst Hns HA k' Hk') as [(k & Hk & Ek)|(m & Hm & Es & Hreq)].
  - pose proof (key_fields _ _ Ek) as (_ & Esrc & _ & _ & Er). rewrite Eq in Er.
    destruct (H k q Hk (eq_sym Er)) as (a & Ha & Eid & Hle). destruct (Hfw a Ha) as (a' & Ha' & Eid' & Hp).
    exists a'. split; [exact Ha'|]. split; [congruence|lia].
  - destruct (step_UP w l Hst Hns (a_ns C w HA) k' Hk') as [(k & Hk & Ek)|(m2 & Hm2 & Es2 & F2)].
    + pose proof (key_fields _ _ Ek) as (_ & Esrc & _ & _ & Er). rewrite Eq in Er.
      destruct (H k q Hk (eq_sym Er)) as (a & Ha & Eid & Hle). destruct (Hfw a Ha) as (a' & Ha' & Eid' & Hp).
      exists a'. split; [exact Ha'|]. split; [congruence|lia].
    + assert (m2 = m) by (apply (a_uni C w HA); congruence). subst m2.
      rewrite Eq in Hreq. destruct Hreq as (_ & Et & _). destruct (vi_coh w HV m Hm F2) as [Ec _].
      destruct (Hfw m Hm) as (m' & Hm' & Eid' & Hp). exists m'. split; [exact Hm'|]. split; [congruence|lia].
Qed.

Theorem RTE_reach ids boot et ld ls : static ls = true -> nosnap ls = true -> RTE (run (init_world ids boot et ld) ls).
Proof.
  intros Hs Hn. apply (reach_init (bootconf boot) RTE ids boot et ld eq_refl); auto.
  - intros w l S1 N1 HA _ _ _ H. apply (step_RTE (bootconf boot)); auto. apply bootconf_nodup.
  - intros k q [].
Qed.
