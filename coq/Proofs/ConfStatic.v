(* Without membership-change requests, the only configuration any node ever uses is the
   bootstrap configuration (or the empty one of a node that was never bootstrapped) - over
   every schedule: any delivery order, duplicates, drops, crashes at any storage write,
   restarts, snapshots taken, sent in chunks and installed.
   The inductive invariant WI covers every place a configuration lives in: the nodes
   (CI of Proofs/ConfNode.v) and the requests of the RPC records of the world. *)
From RaftV Require Import Cluster.World Cluster.Statements Proofs.ConfNode.
Open Scope N_scope.

Definition bootconf (boot : list nid) : config :=
  {| c_index := 1; c_members := fold_left (fun l id => put id true l) boot [] |}.
Definition conf_ok (C : config) (n : node) : Prop := conf_of n = config0 \/ conf_of n = C.

Section World.
Variable C : config.

Local Notation req_p := (req_p C).

Record WI (w : world) : Prop := {
  wi_nodes : forall n, In n (w_nodes w) -> CI C n;
  wi_calls : forall c, In c (w_calls w) -> req_p (c_req c) }.

Lemma get_node_in w id n : get_node w id = Some n -> In n (w_nodes w).
Proof. unfold get_node. intros H. apply find_some in H. apply H. Qed.
Lemma get_call_in w id c : get_call w id = Some c -> In c (w_calls w).
Proof. unfold get_call. intros H. apply find_some in H. apply H. Qed.

(* -- primitives -- *)
Lemma WI_same w w' : w_nodes w' = w_nodes w -> w_calls w' = w_calls w -> WI w -> WI w'.
Proof. intros En Ec [Hn Hc]. constructor; rewrite ?En, ?Ec; assumption. Qed.

Lemma WI_set_node w m : WI w -> CI C m -> WI (set_node w m).
Proof.
  intros [Hn Hc] Hm. constructor; [|exact Hc].
  intros x Hx. unfold set_node in Hx. cbn [w_nodes set] in Hx. apply in_map_iff in Hx.
  destruct Hx as (y & <- & Hy). destruct (n_id y =? n_id m); [exact Hm|apply Hn, Hy].
Qed.

Lemma WI_set_call w c0 : WI w -> req_p (c_req c0) -> WI (set_call w c0).
Proof.
  intros [Hn Hc] H0. constructor; [exact Hn|].
  intros x Hx. unfold set_call in Hx. cbn [w_calls set] in Hx. apply in_map_iff in Hx.
  destruct Hx as (y & <- & Hy). destruct (c_id y =? c_id c0); [exact H0|apply Hc, Hy].
Qed.

Lemma WI_new_call w src dst rid g q : WI w -> req_p q -> WI (new_call w src dst rid g q).
Proof.
  intros [Hn Hc] Hq. constructor; [exact Hn|].
  intros x Hx. unfold new_call in Hx. cbn [w_calls set] in Hx. apply in_app_or in Hx.
  destruct Hx as [Hx|[<-|[]]]; [apply Hc, Hx|exact Hq].
Qed.

Lemma WI_drop w id : WI w -> WI (drop_calls_of w id).
Proof.
  intros [Hn Hc]. constructor; [exact Hn|].
  intros x Hx. unfold drop_calls_of in Hx. cbn [w_calls set] in Hx. apply in_map_iff in Hx.
  destruct Hx as (y & <- & Hy). destruct (c_src y =? id); apply (Hc y Hy).
Qed.

Lemma WI_on_node w id f : (forall m, P C m (f m)) -> WI w -> WI (on_node w id f).
Proof.
  intros Hf HW. unfold on_node. destruct (get_node w id) as [m|] eqn:G; [|exact HW].
  apply WI_set_node; [exact HW|]. apply Hf. apply (wi_nodes _ HW), (get_node_in _ _ _ G).
Qed.

(* -- the composite steps -- *)
Lemma WI_step_task w m : In m (w_nodes w) -> WI w -> WI (step_task w m).
Proof.
  intros Hin HW. pose proof (wi_nodes _ HW m Hin) as Hm.
  unfold step_task. destruct (n_tasks m) as [|t rest]; [exact HW|].
  set (n0 := m <| n_tasks := rest |>).
  assert (H0 : CI C n0) by (revert Hm; apply P_of_cf; reflexivity).
  clearbody n0. destruct t as [rid peer pv|rid peer].
  - destruct (l_rv_send n0 rid peer pv); [apply WI_new_call; [|exact I]|]; apply WI_set_node; assumption.
  - pose proof (ae_send_ok C n0 peer H0) as [H1 H2].
    destruct (l_ae_send n0 peer) as [n1 [|q|q]]; cbn [fst snd] in H1, H2.
    + apply WI_set_node; assumption.
    + apply WI_new_call; [apply WI_set_node; assumption|exact H2].
    + apply WI_new_call; [apply WI_set_node; assumption|exact H2].
Qed.

Lemma CI_run_handler now n q : CI C n -> req_p q -> CI C (fst (fst (run_handler now n q))).
Proof.
  intros H Hq. unfold run_handler. destruct q as [r|r|r].
  - pose proof (P_append_entries C now n r Hq H) as H1. destruct (h_append_entries now n r). exact H1.
  - pose proof (P_request_vote C now n r H) as H1. destruct (h_request_vote now n r). exact H1.
  - pose proof (P_install_snapshot C now n r Hq H) as H1. destruct (h_install_snapshot now n r). exact H1.
Qed.

Lemma WI_step_deliver w c dup : WI w -> In c (w_calls w) -> WI (step_deliver w c dup).
Proof.
  intros HW Hin. pose proof (wi_calls _ HW c Hin) as Hq.
  unfold step_deliver. destruct (get_node w (c_dst c)) as [n|] eqn:G;
    [|destruct dup; [exact HW|apply WI_set_call; [exact HW|exact Hq]]].
  destruct (n_frozen n); [destruct dup; [exact HW|apply WI_set_call; [exact HW|exact Hq]]|].
  pose proof (CI_run_handler (w_now w) n (c_req c) (wi_nodes _ HW n (get_node_in _ _ _ G)) Hq) as H1.
  destruct (run_handler (w_now w) n (c_req c)) as [[n1 resp] parked]. cbn [fst] in H1.
  pose proof (WI_set_node w n1 HW H1) as HW1.
  destruct dup; [exact HW1|].
  destruct (n_frozen n1); [apply WI_set_call; [exact HW1|exact Hq]|].
  destruct resp; apply WI_set_call; try exact HW1; exact Hq.
Qed.

Lemma WI_step_reply w c failed : WI w -> In c (w_calls w) -> WI (step_reply w c failed).
Proof.
  intros HW Hin. pose proof (wi_calls _ HW c Hin) as Hq. unfold step_reply.
  set (w0 := set_call w (c <| c_state := CDone |>)).
  assert (H0 : WI w0) by (apply WI_set_call; [exact HW|exact Hq]).
  destruct (get_node w (c_src c)) as [n|] eqn:G; [|exact H0].
  pose proof (wi_nodes _ HW n (get_node_in _ _ _ G)) as Hn.
  destruct (n_frozen n); [exact H0|].
  destruct (c_req c) as [q|q|q]; destruct (if failed then None else c_resp c) as [[p|p|p]|];
    try exact H0;
    try (apply WI_set_node; [exact H0|]);
    try (apply P_rv_reply; exact Hn);
    try (apply is_reply_ok; exact Hn).
  pose proof (ae_reply_ok C (w_now w) n (c_round c) (c_dst c) (c_fgen c) q p Hn) as [H1 H2].
  destruct (l_ae_reply (w_now w) n (c_round c) (c_dst c) (c_fgen c) q p) as [n1 [isq|]]; cbn [fst snd] in H1, H2.
  - apply WI_new_call; [apply WI_set_node; assumption|exact H2].
  - apply WI_set_node; assumption.
Qed.

Definition static_label (l : label) : bool :=
  match l with LAddServer _ _ _ | LRemoveServer _ _ => false | _ => true end.

Lemma P_upd_budget m k : P C m (m <| n_budget := k |>). Proof. apply P_of_cf. reflexivity. Qed.
Lemma P_upd_pad m k : P C m (m <| n_pad := k |>). Proof. apply P_of_cf. reflexivity. Qed.
Lemma P_upd_tasks m k : P C m (m <| n_tasks := k |>). Proof. apply P_of_cf. reflexivity. Qed.
Lemma P_upd_cv m f : P C m (m <| n_cv ::= f |>). Proof. apply P_of_cf. reflexivity. Qed.
Lemma P_upd_snap_every m k : P C m (m <| n_snap_every := k |>). Proof. apply P_of_cf. reflexivity. Qed.

Theorem step_WI w l : static_label l = true -> WI w -> WI (step w l).
Proof.
  intros Hs HW. destruct l; try discriminate Hs; cbn [step].
  - eapply WI_same; [| |exact HW]; reflexivity.
  - apply WI_on_node; [|exact HW]. intros m. destruct (is_up m); [apply P_signal_election|apply P_refl].
  - apply WI_on_node; [|exact HW]. intros m. destruct (is_up m); [apply P_heartbeat|apply P_refl].
  - destruct (get_call w c) as [cl|] eqn:G; [|exact HW]. apply get_call_in in G.
    destruct (c_state cl); try exact HW. apply WI_step_deliver; assumption.
  - destruct (get_call w c) as [cl|] eqn:G; [|exact HW]. apply get_call_in in G. apply WI_step_deliver; assumption.
  - destruct (get_call w c) as [cl|] eqn:G; [|exact HW]. apply get_call_in in G.
    destruct (c_state cl); try exact HW. apply WI_step_reply; assumption.
  - destruct (get_call w c) as [cl|] eqn:G; [|exact HW]. apply get_call_in in G.
    destruct (c_state cl); try exact HW; apply WI_step_reply; assumption.
  - unfold fresh_fid. apply WI_on_node; [|eapply WI_same; [| |exact HW]; reflexivity].
    intros m. destruct (n_frozen m); [apply P_refl|apply P_submit].
  - apply WI_on_node; [|exact HW]. intros m. destruct (is_up m); [|apply P_refl].
    apply P_trans with (lp_snapshot (m <| n_snap_every := 1 |>)); [|apply P_upd_snap_every].
    eapply P_trans; [|apply P_snapshot]. apply P_upd_snap_every.
  - apply WI_drop. apply WI_on_node; [|exact HW]. intros m. exact (CI_crash C m).
  - apply WI_on_node; [|exact HW]. intros m. destruct (role_eqb (n_role m) Shutdown); [apply P_restart|apply P_refl].
  - apply WI_on_node; [|exact HW]. intros m. apply P_upd_budget.
  - apply WI_on_node; [|exact HW]. intros m. apply P_upd_pad.
  - apply WI_on_node; [|exact HW]. intros m. apply P_upd_tasks.
  - apply WI_on_node; [|exact HW]. intros m. apply P_upd_cv.
  - destruct (get_node w n) as [m|] eqn:G; [|exact HW]. destruct (is_up m); [|exact HW].
    apply WI_step_task; [eapply get_node_in; exact G|exact HW].
  - apply WI_on_node; [|exact HW]. intros m. destruct (is_up m && cv_election (n_cv m)); [apply P_election|apply P_refl].
  - apply WI_on_node; [|exact HW]. intros m. destruct (is_up m && cv_commit (n_cv m)); [apply P_commit|apply P_refl].
  - apply WI_on_node; [|exact HW]. intros m. destruct (is_up m && cv_apply (n_cv m)); [apply P_apply|apply P_refl].
  - apply WI_on_node; [|exact HW]. intros m. destruct (is_up m && cv_ro (n_cv m)); [apply P_ro|apply P_refl].
  - destruct (get_node w n) as [m|] eqn:G; [|exact HW]. apply get_node_in in G.
    pose proof (install_resume_ok C m (wi_nodes _ HW m G)) as [H1 _].
    destruct (lp_install_resume m) as [m1 [q|]]; cbn [fst] in H1; [|exact HW].
    pose proof (WI_set_node w m1 HW H1) as HW1.
    match goal with |- WI (match ?x with _ => _ end) => destruct x as [c|] eqn:Ef end; [|exact HW1].
    apply find_some in Ef. destruct Ef as [Hin _].
    apply WI_set_call; [exact HW1|]. exact (wi_calls _ HW1 c Hin).
Qed.

Lemma static_cons l ls : static (l :: ls) = true -> static_label l = true /\ static ls = true.
Proof. destruct l; cbn [static static_label]; intros H; try discriminate H; split; auto. Qed.

Lemma WI_node w n : WI w -> In n (w_nodes w) -> CI C n.
Proof. intros H. apply (wi_nodes _ H). Qed.
Lemma WI_call w c : WI w -> In c (w_calls w) -> req_p (c_req c).
Proof. intros H. apply (wi_calls _ H). Qed.

Lemma WI_run ls : forall w, static ls = true -> WI w -> WI (run w ls).
Proof.
  induction ls as [|l ls IH]; intros w Hs HW; [exact HW|].
  apply static_cons in Hs. destruct Hs as [Hl Hs].
  cbn [run fold_left]. apply IH; [exact Hs|]. apply step_WI; assumption.
Qed.

End World.

Lemma CI_mk_node C id et ld : CI C (mk_node id et ld).
Proof.
  apply (CI_of_cf C (mk_node id et ld) None None [entry0] [] None [] [] [] eq_refl).
  - apply conf_p_None.
  - apply cconf_p_None.
  - constructor; [apply noop_p|constructor].
  - constructor.
  - apply osnap_p_None.
  - constructor.
  - constructor.
  - constructor.
Qed.

Lemma WI_init ids boot et ld : WI (bootconf boot) (init_world ids boot et ld).
Proof.
  constructor; [|intros c []].
  unfold init_world. cbn [w_nodes]. intros n Hin. apply in_map_iff in Hin. destruct Hin as (id & <- & _).
  apply P_api_start. apply P_new_opmanager.
  destruct (existsb (N.eqb id) boot); [|apply CI_mk_node].
  apply P_bootstrap; [reflexivity|apply CI_mk_node].
Qed.

Lemma WI_reach ids boot et ld ls :
  static ls = true -> WI (bootconf boot) (run (init_world ids boot et ld) ls).
Proof. intros Hs. apply WI_run; [exact Hs|apply WI_init]. Qed.

Theorem conf_static ids boot et ld ls :
  static ls = true ->
  forall n, In n (w_nodes (run (init_world ids boot et ld) ls)) -> conf_ok (bootconf boot) n.
Proof.
  intros Hs n Hin. unfold conf_ok. apply CI_conf_of.
  apply (wi_nodes _ _ (WI_run (bootconf boot) ls _ Hs (WI_init ids boot et ld)) n Hin).
Qed.

(* ---------------- the bootstrap configuration has no duplicate member ---------------- *)
Fixpoint ssorted {V} (l : list (N * V)) : Prop :=
  match l with
  | [] => True
  | (k, _) :: r => (forall k', In k' (map fst r) -> k < k') /\ ssorted r
  end.

Lemma put_keys {V} k (v : V) : forall l x, In x (map fst (put k v l)) -> x = k \/ In x (map fst l).
Proof.
  induction l as [|[k' v'] l IH]; intros x H; cbn [put] in H.
  - destruct H as [<-|[]]. left; reflexivity.
  - destruct (N.eqb_spec k k') as [->|Hne].
    + right. exact H.
    + destruct (k <? k').
      * destruct H as [<-|H]; [left; reflexivity|right; exact H].
      * cbn [map fst In] in *. destruct H as [<-|H]; [right; left; reflexivity|].
        destruct (IH x H) as [->|H']; [left; reflexivity|right; right; exact H'].
Qed.

Lemma put_ssorted {V} k (v : V) : forall l, ssorted l -> ssorted (put k v l).
Proof.
  induction l as [|[k' v'] l IH]; intros H; cbn [put].
  - split; [intros k' []|exact I].
  - destruct H as [H1 H2]. destruct (N.eqb_spec k k') as [->|Hne]; [split; assumption|].
    destruct (N.ltb_spec k k') as [Hlt|Hge].
    + split; [|split; assumption]. intros x Hx. cbn [map fst In] in Hx.
      destruct Hx as [<-|Hx]; [exact Hlt|]. specialize (H1 x Hx). lia.
    + split; [|apply IH, H2]. intros x Hx. destruct (put_keys _ _ _ _ Hx) as [->|Hx']; [lia|apply H1, Hx'].
Qed.

Lemma ssorted_nodup {V} (l : list (N * V)) : ssorted l -> NoDup (map fst l).
Proof.
  induction l as [|[k v] l IH]; intros H; cbn [map fst]; [constructor|].
  destruct H as [H1 H2]. constructor; [|apply IH, H2]. intro Hin. specialize (H1 k Hin). lia.
Qed.

Lemma fold_put_ssorted boot : forall l : list (N * bool), ssorted l -> ssorted (fold_left (fun l id => put id true l) boot l).
Proof.
  induction boot as [|id boot IH]; intros l H; cbn [fold_left]; [exact H|]. apply IH, put_ssorted, H.
Qed.

Lemma bootconf_nodup boot : NoDup (member_ids (bootconf boot)).
Proof. unfold member_ids, bootconf. cbn [c_members]. apply ssorted_nodup, fold_put_ssorted. exact I. Qed.

Print Assumptions conf_static.
Print Assumptions bootconf_nodup.
