(* Election safety (C02), frame sweep for the relation K of ElectDefs: a lock-held section that is neither an
   election timeout nor the processing of a RequestVote response makes nobody leader or candidate, and a
   leader that stays leader stays in its term. *)
From RaftV Require Import Cluster.World Proofs.Frame Proofs.ElectDefs.
Open Scope N_scope.

Lemma K_refl m : K m m.
Proof. constructor; auto. Qed.

Lemma K_trans a b c : K a b -> K b c -> K a c.
Proof.
  intros [L1 A1] [L2 A2]. constructor.
  - intros H. destruct (L2 H) as [H1 H2]. destruct (L1 H1) as [H3 H4]. split; [exact H3|congruence].
  - auto.
Qed.

Definition rtf (n : node) := (n_role n, n_term n).

Lemma K_of_rt m m' : (n_role m', n_term m') = (n_role m, n_term m) -> K m m'.
Proof.
  intros H. injection H as H1 H2. constructor.
  - intros H. rewrite <- H1, <- H2. split; [exact H|reflexivity].
  - rewrite H1. auto.
Qed.

Lemma K_of_rtf m m' : rtf m' = rtf m -> K m m'.
Proof. exact (K_of_rt m m'). Qed.

(* the base node is abstracted first: conversion on large node terms is slow *)
Ltac ktv :=
  match goal with
  | |- K ?x _ => first [ is_var x; apply K_of_rt; reflexivity
                       | let y := fresh "base" in generalize x; intro y; apply K_of_rt; reflexivity
                       | apply K_of_rt; reflexivity ]
  end.

(* a section that ends as follower (or shut down) satisfies K whatever it did to the term *)
Lemma K_to_follower m m' : n_role m' = Follower -> K m m'.
Proof.
  intros H. constructor; rewrite H.
  - discriminate.
  - intros [H1|[H1|H1]]; discriminate.
Qed.

Lemma K_to_shutdown m m' : n_role m' = Shutdown -> K m m'.
Proof.
  intros H. constructor; rewrite H.
  - discriminate.
  - intros [H1|[H1|H1]]; discriminate.
Qed.

(* ---- storage writes ---- *)
Lemma K_tick_write n : K n (snd (tick_write n)).
Proof.
  unfold tick_write. destruct (n_frozen n) eqn:F; [apply K_refl|].
  destruct (n_budget n) as [k|]; [|apply K_refl].
  destruct (k =? 0); cbn [snd]; ktv.
Qed.

Lemma K_write (f : node -> node) n :
  (forall m, rtf (f m) = rtf m) ->
  K n (let (ok, n1) := tick_write n in if ok then f n1 else n1).
Proof.
  intros Hf. pose proof (K_tick_write n) as H. destruct (tick_write n) as [ok n1]. cbn [snd] in H.
  destruct ok; [|exact H]. eapply K_trans; [exact H|]. apply K_of_rtf, Hf.
Qed.

Lemma K_persist n : K n (persist n). Proof. apply K_write. reflexivity. Qed.
Lemma K_truncate_log n i : K n (truncate_log n i). Proof. apply K_write. reflexivity. Qed.
Lemma K_compact_log n i : K n (compact_log n i). Proof. apply K_write. reflexivity. Qed.
Lemma K_discard_log n i t : K n (discard_log n i t). Proof. apply K_write. reflexivity. Qed.
Lemma K_close_snapshot n s : K n (close_snapshot n s). Proof. apply K_write. reflexivity. Qed.
Lemma K_append_entries es : forall n, K n (append_entries n es).
Proof.
  induction es as [|e es IH]; intros n; cbn [append_entries]; [apply K_refl|].
  pose proof (K_tick_write n) as H. destruct (tick_write n) as [ok n1]. cbn [snd] in H.
  destruct ok; [|exact H]. eapply K_trans; [exact H|]. eapply K_trans; [|apply IH]. ktv.
Qed.

(* ---- futures, small transitions ---- *)
Lemma K_fail o n : K n (fail o n). Proof. unfold fail. destruct (n_out n); [ktv|apply K_refl|apply K_refl]. Qed.

Lemma K_respond n f r : K n (respond n f r).
Proof.
  unfold respond. destruct (n_frozen n); [apply K_refl|].
  destruct (existsb _ _); [apply K_refl|ktv].
Qed.
Lemma K_respond_all fs : forall n r, K n (respond_all n fs r).
Proof.
  induction fs as [|f fs IH]; intros n r; [apply K_refl|].
  cbn [respond_all fold_left]. fold (respond_all (respond n f r) fs r).
  eapply K_trans; [apply K_respond|apply IH].
Qed.
Lemma K_new_opmanager now n : K n (new_opmanager now n). Proof. ktv. Qed.
Lemma K_reset_snapshot_files n : K n (reset_snapshot_files n). Proof. ktv. Qed.
Lemma K_notify_lost_leadership n : K n (notify_lost_leadership n).
Proof. unfold notify_lost_leadership. eapply K_trans; [apply K_respond_all|apply K_respond_all]. Qed.
Lemma K_cancel_conf_change n : K n (cancel_conf_change n).
Proof.
  unfold cancel_conf_change. destruct (n_cfg_fid n) as [f|]; [|apply K_refl].
  eapply K_trans; [apply K_respond|]. ktv.
Qed.

Lemma K_signal_apply n : K n (signal_apply n). Proof. ktv. Qed.
Lemma K_signal_commit n : K n (signal_commit n). Proof. ktv. Qed.
Lemma K_signal_ro n : K n (signal_ro n). Proof. ktv. Qed.
Lemma K_signal_election n : K n (signal_election n). Proof. ktv. Qed.
Lemma K_signal_snapshot n : K n (signal_snapshot n). Proof. ktv. Qed.

Lemma K_upd_budget m k : K m (m <| n_budget := k |>). Proof. ktv. Qed.
Lemma K_upd_pad m k : K m (m <| n_pad := k |>). Proof. ktv. Qed.
Lemma K_upd_cv m f : K m (m <| n_cv ::= f |>). Proof. ktv. Qed.

Lemma role_become_follower now n l t : n_role (become_follower now n l t) = Follower.
Proof. pose proof (become_follower_fields now n l t) as H. cbn zeta in H. tauto. Qed.

Lemma K_become_follower now n l t : K n (become_follower now n l t).
Proof. apply K_to_follower, role_become_follower. Qed.

Lemma role_stepdown now n : n_role (stepdown now n) = Follower.
Proof.
  unfold stepdown.
  rewrite (sc_role _ _ (sc_cancel _)), (sc_role _ _ (sc_new_opmanager _ _)), (sc_role _ _ (sc_notify _)).
  reflexivity.
Qed.

Lemma K_stepdown now n : K n (stepdown now n).
Proof. apply K_to_follower, role_stepdown. Qed.

Lemma K_new_follower n id nx : K n (new_follower n id nx). Proof. unfold new_follower. ktv. Qed.
Lemma K_new_followers nx ids : forall n, K n (fold_left (fun m id => new_follower m id nx) ids n).
Proof.
  induction ids as [|id ids IH]; intros n; cbn [fold_left]; [apply K_refl|].
  eapply K_trans; [apply K_new_follower|apply IH].
Qed.

Lemma K_next_configuration now n c : K n (next_configuration now n c).
Proof.
  unfold next_configuration. destruct c as [nx|]; [|apply K_fail].
  set (n1 := if is_member nx (n_id n) then n else _).
  assert (H1 : K n n1).
  { subst n1. destruct (is_member nx (n_id n)); [apply K_refl|].
    eapply K_trans; [|apply K_reset_snapshot_files].
    destruct (role_eqb (n_role n) Leader); [apply K_stepdown|apply K_refl]. }
  clearbody n1. eapply K_trans; [exact H1|].
  match goal with |- K n1 (fold_left ?f ?l ?n2 <| n_conf := ?c |>) =>
    apply K_trans with n2; [ktv|]; apply K_trans with (fold_left f l n2); [apply K_new_followers|ktv] end.
Qed.

Lemma K_apply_configuration now n c : K n (apply_configuration now n c).
Proof.
  unfold apply_configuration. destruct (n_cconf n) as [cc|].
  - destruct (c_index c <=? c_index cc); [apply K_refl|].
    eapply K_trans; [apply K_next_configuration|]. ktv.
  - eapply K_trans; [apply K_next_configuration|]. ktv.
Qed.

(* ---- RequestVote ---- *)
Lemma K_h_request_vote now n q : K n (fst (h_request_vote now n q)).
Proof.
  unfold h_request_vote.
  destruct (role_eqb (n_role n) Shutdown); [apply K_refl|].
  destruct (lease_valid now n || recent_contact now n); [apply K_refl|].
  destruct (rv_term q <? n_term n); [apply K_refl|].
  set (n1 := if negb (rv_prevote q) && (n_term n <? rv_term q) then become_follower now n (rv_cand q) (rv_term q) else n).
  assert (H1 : K n n1).
  { subst n1. destruct (negb (rv_prevote q) && (n_term n <? rv_term q)); [|apply K_refl].
    apply K_become_follower. }
  clearbody n1.
  destruct (negb (rv_prevote q) && match n_vote n1 with Some v => negb (v =? rv_cand q) | None => false end);
    [exact H1|].
  destruct ((rv_last_term q <? last_term (n_log n1)) || _); [exact H1|].
  cbn [fst]. destruct (rv_prevote q); [exact H1|].
  eapply K_trans; [exact H1|]. eapply K_trans; [|apply K_persist]. ktv.
Qed.

(* ---- AppendEntries ---- *)
Lemma K_ae_scan now es : forall n n4 l, ae_scan now n es = Some (n4, l) -> K n n4.
Proof.
  induction es as [|e es IH]; intros n n4 l H; cbn [ae_scan] in H.
  - injection H as <- _. apply K_refl.
  - destruct (last_index (n_log n) <? e_index e); [injection H as <- _; apply K_refl|].
    destruct (log_get (n_log n) (e_index e)) as [ex|]; [|discriminate].
    destruct ((e_index ex =? e_index e) && negb (e_term ex =? e_term e)).
    + injection H as <- _.
      destruct (e_index e <=? c_index (conf_of (truncate_log n (e_index e)))).
      * eapply K_trans; [apply K_truncate_log|apply K_next_configuration].
      * apply K_truncate_log.
    + eapply IH; exact H.
Qed.

Lemma K_h_append_entries now n q : K n (fst (h_append_entries now n q)).
Proof.
  unfold h_append_entries.
  destruct (role_eqb (n_role n) Shutdown); [apply K_refl|].
  destruct (ae_term q <? n_term n); [apply K_refl|].
  set (n1 := n <| n_contact := now |> <| n_leader := Some (ae_leader q) |>).
  assert (H1 : K n n1) by ktv.
  clearbody n1.
  set (n2 := if n_term n1 <? ae_term q then become_follower now n1 (ae_leader q) (ae_term q) else n1).
  assert (H2 : K n1 n2).
  { subst n2. destruct (n_term n1 <? ae_term q); [|apply K_refl]. apply K_become_follower. }
  clearbody n2.
  set (n3 := if (ae_term q =? n_term n2) && _ then become_follower now n2 (ae_leader q) (ae_term q) else n2).
  assert (H3 : K n2 n3).
  { subst n3. destruct ((ae_term q =? n_term n2) && _); [|apply K_refl]. apply K_become_follower. }
  clearbody n3.
  assert (H03 : K n n3) by (eapply K_trans; [exact H1|eapply K_trans; eassumption]).
  destruct (ae_prev_index q <? n_lii n3); [exact H03|].
  destruct (next_index (n_log n3) <=? ae_prev_index q); [exact H03|].
  destruct ((n_lii n3 =? ae_prev_index q) && negb (n_lit n3 =? ae_prev_term q)); [exact H03|].
  match goal with |- K n (fst (match ?c with _ => _ end)) => destruct c as [[idx|]|] end.
  - exact H03.
  - cbn [fst]. eapply K_trans; [exact H03|apply K_fail].
  - destruct (ae_scan now n3 (ae_entries q)) as [[n4 to_append]|] eqn:Es.
    + cbn [fst]. eapply K_trans; [exact H03|].
      eapply K_trans; [eapply K_ae_scan; exact Es|].
      eapply K_trans; [apply K_append_entries|].
      match goal with |- K _ (if ?c then _ else _) => destruct c end; [|apply K_refl].
      unfold signal_apply. ktv.
    + cbn [fst]. eapply K_trans; [exact H03|apply K_fail].
Qed.

(* ---- InstallSnapshot ---- *)
Lemma K_h_install_compact n q : K n (h_install_compact n q).
Proof. unfold h_install_compact. destruct (_ || _); [apply K_refl|apply K_compact_log]. Qed.

Lemma K_h_install_restore now n q : K n (h_install_restore now n q).
Proof.
  unfold h_install_restore. destruct (last (map Some (n_snaps n)) None) as [s|]; [|apply K_fail].
  destruct (role_eqb _ Shutdown); [ktv|].
  eapply K_trans; [|apply K_apply_configuration]. eapply K_trans; [|apply K_discard_log]. ktv.
Qed.

Lemma K_h_install_snapshot now n q : K n (fst (h_install_snapshot now n q)).
Proof.
  unfold h_install_snapshot.
  destruct (role_eqb (n_role n) Shutdown); [apply K_refl|].
  destruct (is_term q <? n_term n); [apply K_refl|].
  set (n1 := if n_term n <? is_term q then become_follower now n (is_leader q) (is_term q) else n).
  assert (H1 : K n n1).
  { subst n1. destruct (n_term n <? is_term q); [|apply K_refl]. apply K_become_follower. }
  clearbody n1.
  set (n2 := if (is_term q =? n_term n1) && _ then become_follower now n1 (is_leader q) (is_term q) else n1).
  assert (H2 : K n1 n2).
  { subst n2. destruct ((is_term q =? n_term n1) && _); [|apply K_refl]. apply K_become_follower. }
  clearbody n2.
  set (n3 := n2 <| n_contact := now |>).
  assert (H03 : K n n3).
  { eapply K_trans; [exact H1|]. eapply K_trans; [exact H2|]. ktv. }
  clearbody n3.
  destruct ((is_lii q <=? n_lii n3) || (is_lii q <=? n_applied n3)); [exact H03|].
  set (n4 := match n_partial n3 with Some p => if s_index p <? is_lii q then n3 <| n_partial := None |> else n3 | None => n3 end).
  assert (H4 : K n3 n4).
  { subst n4. destruct (n_partial n3) as [p|]; [|apply K_refl]. destruct (s_index p <? is_lii q); [ktv|apply K_refl]. }
  assert (H04 : K n n4) by (eapply K_trans; [exact H03|exact H4]).
  clearbody n4.
  match goal with |- K n (fst (if ?c then _ else _)) => destruct c end.
  - cbn [fst]. eapply K_trans; [exact H04|]. ktv.
  - match goal with |- K n (fst (if ?c then _ else _)) => destruct c end.
    + cbn [fst]. eapply K_trans; [exact H04|]. ktv.
    + match goal with |- K n (fst (if ?c then _ else _)) => destruct c end.
      * match goal with |- K n (fst (if ?c then _ else _)) => destruct c end; cbn [fst];
          (eapply K_trans; [exact H04|]).
        -- eapply K_trans; [apply K_close_snapshot|]. ktv.
        -- eapply K_trans; [|apply K_h_install_compact]. eapply K_trans; [apply K_close_snapshot|]. ktv.
      * cbn [fst]. eapply K_trans; [exact H04|].
        eapply K_trans; [|apply K_h_install_restore]. eapply K_trans; [apply K_close_snapshot|]. ktv.
Qed.

Lemma K_run_handler now m q : K m (fst (fst (run_handler now m q))).
Proof.
  unfold run_handler. destruct q as [r|r|r].
  - pose proof (K_h_append_entries now m r) as H. destruct (h_append_entries now m r) as [n1 p]. exact H.
  - pose proof (K_h_request_vote now m r) as H. destruct (h_request_vote now m r) as [n1 p]. exact H.
  - pose proof (K_h_install_snapshot now m r) as H. destruct (h_install_snapshot now m r) as [n1 p]. exact H.
Qed.

(* ---- sender side, loops, API ---- *)
Lemma K_new_round n stamp : K n (fst (new_round n stamp)).
Proof. unfold new_round. cbn [fst]. ktv. Qed.

Lemma K_try_apply_ro now n s : K n (try_apply_ro now n s). Proof. unfold try_apply_ro, signal_ro. ktv. Qed.

Lemma K_send_ae_to_peers now n : K n (send_ae_to_peers now n).
Proof.
  unfold send_ae_to_peers.
  set (n0 := n <| n_hb_rounds ::= N.succ |>).
  assert (H0 : K n n0) by ktv.
  set (n1 := if is_single (conf_of n) (n_id n) then _ else n0).
  assert (H1 : K n0 n1).
  { subst n1. destruct (is_single (conf_of n) (n_id n)); [|apply K_refl].
    eapply K_trans; [|apply K_try_apply_ro].
    destruct (n_commit n0 <? last_index (n_log n0)); [apply K_signal_commit|apply K_refl]. }
  eapply K_trans; [exact H0|]. eapply K_trans; [exact H1|].
  generalize (n_hb_rounds n0). intros stamp. clearbody n1.
  unfold new_round. cbn [fst snd]. ktv.
Qed.

Lemma K_upd_followers n f : K n (n <| n_followers ::= f |>). Proof. ktv. Qed.

Lemma K_set_follower n id f : K n (set_follower n id f). Proof. unfold set_follower. ktv. Qed.
Lemma K_set_fobj n id g f : K n (set_fobj n id g f).
Proof. unfold set_fobj. destruct (_ =? g); [apply K_set_follower|ktv]. Qed.

Lemma K_l_is_send n peer : K n (fst (l_is_send n peer)).
Proof.
  unfold l_is_send. destruct (negb (role_eqb (n_role n) Leader)); [apply K_refl|].
  destruct (n_lii n =? 0); [apply K_refl|].
  match goal with |- K n (fst (match ?c with _ => _ end)) => destruct c as [[s o]|] end; cbn [fst];
    [apply K_set_follower|apply K_fail].
Qed.

Lemma K_l_ae_send n peer : K n (fst (l_ae_send n peer)).
Proof.
  unfold l_ae_send. destruct (_ || _); [apply K_refl|].
  destruct (f_next (get_follower n peer) <=? n_lii n).
  - pose proof (K_l_is_send n peer) as H. destruct (l_is_send n peer) as [n1 [q|]]; exact H.
  - destruct (next_index (n_log n) <? f_next (get_follower n peer)); cbn [fst]; [apply K_fail|apply K_refl].
Qed.

Lemma K_l_is_reply now n peer g q resp : K n (l_is_reply now n peer g q resp).
Proof.
  unfold l_is_reply.
  destruct (f_snap (fobj n peer g)) as [[s o]|]; [|apply K_refl].
  destruct resp as [p|]; [|apply K_refl].
  destruct (n_term n <? isr_term p); [apply K_become_follower|].
  destruct (negb (isr_written p =? is_offset q)); [apply K_set_fobj|].
  destruct (negb (is_done q)); [apply K_refl|apply K_set_fobj].
Qed.

Lemma K_lp_commit now n : K n (lp_commit now n).
Proof.
  unfold lp_commit. set (n0 := n <| n_cv ::= _ |>). assert (H0 : K n n0) by ktv.
  destruct (negb (role_eqb (n_role n0) Leader)); [exact H0|].
  match goal with |- K n (if ?c then _ else _) => destruct c end; [|exact H0].
  eapply K_trans; [exact H0|]. eapply K_trans; [|apply K_send_ae_to_peers]. unfold signal_apply. ktv.
Qed.

Lemma K_upd_cfg m v : K m (m <| n_cfg_fid := v |>). Proof. ktv. Qed.
Lemma K_upd_pending m f : K m (m <| n_pending ::= f |>). Proof. ktv. Qed.
Lemma K_upd_applied m f : K m (m <| n_applied ::= f |>). Proof. ktv. Qed.
Lemma K_upd_fsm m a f : K m (m <| n_fsm := a |> <| n_applies ::= f |>). Proof. ktv. Qed.

Lemma K_lp_apply_one now n : K n (lp_apply_one now n).
Proof.
  unfold lp_apply_one. destruct (log_get (n_log n) (n_applied n + 1)) as [e|]; [|apply K_fail].
  set (n1 := match e_kind e with KNoop => n | _ => _ end).
  assert (H1 : K n n1).
  { subst n1. destruct (e_kind e) as [|p|c].
    - apply K_refl.
    - match goal with |- K n (match ?x with _ => _ end) => destruct x end.
      + eapply K_trans; [|apply K_respond]. eapply K_trans; [|apply K_upd_pending]. apply K_upd_fsm.
      + apply K_upd_fsm.
    - match goal with |- K n (match ?x with _ => _ end) => destruct x end.
      + eapply K_trans; [|apply K_upd_cfg]. eapply K_trans; [|apply K_respond]. apply K_apply_configuration.
      + apply K_apply_configuration. }
  match goal with |- K n (if ?c then _ else _) => destruct c end.
  - eapply K_trans; [|apply K_signal_snapshot]. eapply K_trans; [|apply K_upd_applied]. exact H1.
  - eapply K_trans; [|apply K_upd_applied]. exact H1.
Qed.

Lemma K_lp_apply_run now fuel : forall n, K n (lp_apply_run fuel now n).
Proof.
  induction fuel as [|f IH]; intros n; cbn [lp_apply_run]; [apply K_refl|].
  match goal with |- K n (if ?c then _ else _) => destruct c end; [|apply K_refl].
  eapply K_trans; [apply K_lp_apply_one|apply IH].
Qed.

Lemma K_lp_apply now n : K n (lp_apply now n).
Proof.
  unfold lp_apply. set (n0 := n <| n_cv ::= _ |>). assert (H0 : K n n0) by ktv.
  eapply K_trans; [exact H0|].
  match goal with |- K _ (if ?c then _ else _) => destruct c end;
    [eapply K_trans; [apply K_lp_apply_run|apply K_signal_ro]|apply K_lp_apply_run].
Qed.

Lemma K_fold_respond (f : node -> rop -> node) ops : (forall m o, K m (f m o)) -> forall n, K n (fold_left f ops n).
Proof.
  intros Hf. induction ops as [|o ops IH]; intros n; cbn [fold_left]; [apply K_refl|].
  eapply K_trans; [apply Hf|apply IH].
Qed.

Lemma K_lp_ro now n : K n (lp_ro now n).
Proof.
  unfold lp_ro. set (n0 := n <| n_cv ::= _ |>). assert (H0 : K n n0) by ktv.
  destruct (_ || _); [exact H0|].
  eapply K_trans; [exact H0|]. eapply K_trans; [|apply K_fold_respond].
  - ktv.
  - intros m o. destruct (ro_type o); [apply K_respond|apply K_respond|].
    destruct (lease_valid now m); apply K_respond.
Qed.

Lemma K_lp_snapshot n : K n (lp_snapshot n).
Proof.
  unfold lp_snapshot. set (n0 := n <| n_cv ::= _ |>). assert (H0 : K n n0) by ktv.
  destruct (_ || _); [exact H0|]. destruct (n_applied n0 <=? n_lii n0); [exact H0|].
  destruct (n_cconf n0) as [cc|]; [|exact H0]. destruct (n_applied n0 <? c_index cc); [exact H0|].
  destruct (log_get (n_log n0) (n_applied n0)) as [e|]; [|eapply K_trans; [exact H0|apply K_fail]].
  eapply K_trans; [exact H0|].
  match goal with |- K _ (if ?c then _ else _) => destruct c end; [apply K_refl|].
  eapply K_trans; [apply K_close_snapshot|]. eapply K_trans; [|apply K_reset_snapshot_files].
  eapply K_trans; [|apply K_compact_log]. ktv.
Qed.

Lemma K_lp_snapshot_every m : K m ((lp_snapshot (m <| n_snap_every := 1 |>)) <| n_snap_every := 0 |>).
Proof.
  apply K_trans with (m <| n_snap_every := 1 |>); [ktv|].
  eapply K_trans; [apply K_lp_snapshot|]. ktv.
Qed.

Lemma K_lp_install_resume n : K n (fst (lp_install_resume n)).
Proof.
  unfold lp_install_resume. destruct (n_iswait n) as [|q r]; [apply K_refl|].
  destruct (install_can_resume n q); cbn [fst]; [|apply K_refl].
  eapply K_trans; [|apply K_h_install_compact]. ktv.
Qed.

Lemma K_upd_sv m v : K m (m <| n_should_verify := v |>). Proof. ktv. Qed.
Lemma K_upd_ro m f : K m (m <| n_ro ::= f |>). Proof. ktv. Qed.

Lemma K_api_submit now n fid ty p : K n (api_submit now n fid ty p).
Proof.
  unfold api_submit. destruct (negb (role_eqb (n_role n) Leader)); [apply K_respond|].
  destruct ty.
  - eapply K_trans; [|apply K_send_ae_to_peers]. eapply K_trans; [|apply K_upd_pending]. apply K_append_entries.
  - match goal with |- K n (if ?c then _ else _) => destruct c end; [|apply K_upd_ro].
    eapply K_trans; [|apply K_upd_sv]. eapply K_trans; [|apply K_send_ae_to_peers]. apply K_upd_ro.
  - match goal with |- K n (if ?c then _ else _) => destruct c end; [|apply K_upd_ro].
    eapply K_trans; [|apply K_signal_ro]. apply K_upd_ro.
Qed.

Lemma K_append_configuration n c : K n (fst (append_configuration n c)).
Proof. unfold append_configuration. cbn [fst]. apply K_append_entries. Qed.

Lemma K_upd_conf_cfg m c f : K m (m <| n_conf := c |> <| n_cfg_fid := f |>). Proof. ktv. Qed.

Lemma K_api_add_server now n fid id v : K n (api_add_server now n fid id v).
Proof.
  unfold api_add_server. destruct (negb (role_eqb (n_role n) Leader)); [apply K_respond|].
  destruct (negb (committed_this_term n)); [apply K_respond|].
  destruct (pending_conf_change n); [apply K_respond|].
  destruct (_ && _); [apply K_respond|].
  pose proof (K_append_configuration n {| c_index := 0; c_members := put id v (c_members (conf_of n)) |}) as H.
  destruct (append_configuration n _) as [n1 c']. cbn [fst] in H.
  eapply K_trans; [|apply K_send_ae_to_peers]. eapply K_trans; [|apply K_new_follower].
  eapply K_trans; [|apply K_upd_conf_cfg]. exact H.
Qed.

Lemma K_api_remove_server now n fid id : K n (api_remove_server now n fid id).
Proof.
  unfold api_remove_server. destruct (negb (role_eqb (n_role n) Leader)); [apply K_respond|].
  destruct (negb (committed_this_term n)); [apply K_respond|].
  destruct (pending_conf_change n); [apply K_respond|].
  destruct (negb (is_member (conf_of n) id)); [apply K_respond|].
  pose proof (K_append_configuration n {| c_index := 0; c_members := remove_key id (c_members (conf_of n)) |}) as H.
  destruct (append_configuration n _) as [n1 c']. cbn [fst] in H.
  eapply K_trans; [|apply K_send_ae_to_peers]. eapply K_trans; [|apply K_upd_cfg]. exact H.
Qed.

Lemma K_l_heartbeat now n : K n (l_heartbeat now n).
Proof. unfold l_heartbeat. destruct (_ || _); [apply K_refl|apply K_send_ae_to_peers]. Qed.

Lemma K_api_start now n : K n (api_start now n).
Proof.
  unfold api_start. destruct (negb _); [apply K_refl|].
  apply K_to_follower.
  match goal with |- n_role (?x <| n_contact := _ |> <| n_role := _ |>) = _ => generalize x; intros base; reflexivity end.
Qed.

Lemma K_start now m : K m (api_start now m).
Proof. apply K_api_start. Qed.

(* ---- the reply to an AppendEntries request: no role is gained ---- *)
Lemma K_bump_round n r : K n (bump_round n r). Proof. unfold bump_round. ktv. Qed.

Lemma K_ae_reply now m rid peer gen q p : K m (fst (l_ae_reply now m rid peer gen q p)).
Proof.
  unfold l_ae_reply.
  destruct (_ || _); [apply K_refl|].
  destruct (n_term m <? aer_term p); [cbn [fst]; apply K_become_follower|].
  destruct (negb (ae_term q =? n_term m)); [apply K_refl|].
  set (n1 := if is_voter (conf_of m) peer then bump_round m rid else m).
  set (n2 := if is_voter (conf_of m) peer && has_quorum (conf_of n1) (round_count n1 rid)
             then try_apply_ro now n1 (round_stamp n1 rid) else n1).
  assert (H1 : K m n1) by (subst n1; destruct (is_voter (conf_of m) peer); [apply K_bump_round|apply K_refl]).
  assert (H2 : K m n2).
  { eapply K_trans; [exact H1|]. subst n2.
    destruct (is_voter (conf_of m) peer && has_quorum (conf_of n1) (round_count n1 rid)); [apply K_try_apply_ro|apply K_refl]. }
  clearbody n2. clear H1. clear n1.
  destruct (negb (aer_success p)).
  - destruct (aer_index p <=? n_lii _).
    + eapply K_trans; [exact H2|]. eapply K_trans; [apply K_set_fobj|]. apply K_l_is_send.
    + cbn [fst]. eapply K_trans; [exact H2|apply K_set_fobj].
  - match goal with |- K m (fst (if ?c then _ else _)) => destruct c end; cbn [fst]; [|exact H2].
    eapply K_trans; [exact H2|]. eapply K_trans; [apply K_set_fobj|].
    match goal with |- K _ (if ?c then _ else _) => destruct c end; [apply K_signal_commit|apply K_refl].
Qed.

(* ---- crash, restart ---- *)
Lemma role_crash m : n_role (crash m) = Shutdown.
Proof. reflexivity. Qed.

Lemma role_restore m : n_role (restore m) = n_role m.
Proof.
  unfold restore.
  set (n1 := m <| n_open := true |> <| n_term := n_pterm m |> <| n_vote := n_pvote m |>).
  assert (H1 : n_role n1 = n_role m) by reflexivity.
  clearbody n1.
  set (n2 := match last (map Some (n_snaps n1)) None with Some s => _ | None => n1 end).
  assert (H2 : n_role n2 = n_role n1) by (subst n2; destruct (last (map Some (n_snaps n1)) None); reflexivity).
  clearbody n2.
  set (n3 := match last (map Some (n_snaps n1)) None with Some s => _ | None => n2 end).
  assert (H2' : n_role n3 = n_role n2).
  { subst n3. destruct (last (map Some (n_snaps n1)) None) as [s|]; [|reflexivity].
    destruct (_ || _); reflexivity. }
  clearbody n3. destruct (conf_scan _ _ _) as [c cc].
  assert (H3 : n_role (n3 <| n_conf := c |> <| n_cconf := cc |>) = n_role n3) by reflexivity.
  rewrite H3, H2', H2. exact H1.
Qed.

Lemma role_new_opmanager now n : n_role (new_opmanager now n) = n_role n. Proof. reflexivity. Qed.

Lemma role_api_start_shutdown now n : n_role n = Shutdown -> n_role (api_start now n) = Follower.
Proof.
  intros H. unfold api_start. rewrite H. cbn [role_eqb negb].
  match goal with |- n_role (?x <| n_contact := _ |> <| n_role := _ |>) = _ => generalize x; intros base; reflexivity end.
Qed.

Lemma role_restart now m : n_role (restart_after_crash now m) = Follower.
Proof.
  unfold restart_after_crash. cbv zeta. apply role_api_start_shutdown.
  rewrite role_new_opmanager, role_restore. apply role_crash.
Qed.

Print Assumptions K_run_handler.
Print Assumptions K_ae_reply.
