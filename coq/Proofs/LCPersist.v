(* Leader completeness (C07): what persists over a step for an acknowledged (committed) entry: it stays
   committed, stays an entry of the world, its holders keep the prefix below it, and all holders agree. *)
From Coq Require Import Classical.
From RaftV Require Import Cluster.World Cluster.Statements Proofs.Frame Proofs.RVSpec Proofs.AESpec Proofs.AELog Proofs.AEFull.
From RaftV Require Import Proofs.ConfNode Proofs.ConfStatic Proofs.ConfSticky.
From RaftV Require Import Proofs.Votes Proofs.VoteRecords Proofs.Names Proofs.ElectSpec.
From RaftV Require Import Proofs.ElectDefs Proofs.RoleFrame Proofs.ElectBook Proofs.ElectWorld Proofs.ElectRun Proofs.ElectSafety.
From RaftV Require Import Proofs.Tails1 Proofs.LogDefs Proofs.LogSeg Proofs.LogUni Proofs.LogInv Proofs.LogAccept Proofs.LogFrame Proofs.NoSnap Proofs.TaePeer
                          Proofs.LogWorld Proofs.LogRun Proofs.LogMatching Proofs.StepCases Proofs.LeaderLog Proofs.SortedTerms Proofs.ReachInd Proofs.ReqTerm
                          Proofs.LCDefs Proofs.LCHist Proofs.LCCore Proofs.LCStep Proofs.LCStep2 Proofs.LCCtx Proofs.LCtt Proofs.LCClauses.
Open Scope N_scope.

(* every log holding ej has ec at index i *)
Definition chain_at (w : world) (ej : entry) (i : N) (ec : entry) : Prop :=
  forall v, In v (w_nodes w) -> holds (seg_of_log (n_log v)) ej -> eget (seg_of_log (n_log v)) i = Some ec.

Section Persist.
Variables (C : config) (w : world) (l : label).
Hypothesis HC : CTX C w l.
Let w' := step w l.
Let HCnd := cx_nd C w l HC.
Let Hst := cx_st C w l HC.
Let Hns := cx_ns C w l HC.
Let HF := cx_f C w l HC.
Let HF' := cx_f' C w l HC.
Let HA := f_all C w HF.
Let HA' := f_all C w' HF'.
Let HI := cx_i C w l HC.
Let HL := a_lm C w HA.
Let HL' := a_lm C w' HA'.
Let HX := a_x C w HA.
Let HV := x_v C w HX.
Let HU := a_uni C w HA.
Let HU' := a_uni C w' HA'.

Lemma committed_mono ej : committed C (w_calls w) ej -> committed C (w_calls w') ej.
Proof.
  intros (V & A & B & D & E). exists V. repeat split; auto. intros v Hv. apply (member_mono C w l HA), E, Hv.
Qed.

(* a node that holds a live entry as a member still holds it after the step *)
Lemma member_keeps ej v v' : is_entry w ej -> ~ dead C w ej -> In v (w_nodes w) -> member C (w_calls w) ej (n_id v) ->
  NK C w l v v' -> holds (seg_of_log (n_log v')) ej.
Proof.
  intros He Hnd Hv Hm HK. pose proof (lc_a C w HI ej v He Hnd Hv Hm) as Hh.
  destruct HK as [El|r e0 Er Er' Ei Ete Erole Efr Ept Hlead Hi2|k q x F Hk Eq Ed Ev' Hterm Hsp].
  - rewrite El. exact Hh.
  - rewrite Er in Hh. rewrite Er'. unfold holds in *. destruct (eget_range _ _ _ Hh) as [_ Hjr]. rewrite top_log in Hjr.
    rewrite eget_app_old by exact Hjr. exact Hh.
  - pose proof (cut_above C w l HC ej v q k x _ He Hnd Hv F Hm Hk Eq Hterm Hsp) as Hjx.
    destruct Hsp as (_ & _ & _ & F1 & _). unfold holds. rewrite F1 by exact Hjx. exact Hh.
Qed.

(* a live entry stays an entry: its creator keeps it *)
Lemma entry_persists ej : is_entry w ej -> ~ dead C w' ej -> is_entry w' ej.
Proof.
  intros He Hnd'. assert (Hnd : ~ dead C w ej) by (intro H; apply Hnd'; apply (dead_mono C HCnd w l Hst Hns HA HA' ej He H)).
  pose proof He as (s & Hs & Hh & Hi). destruct (lm_src C w HL s _ ej Hs Hh Hi) as (a0 & Ha0 & Hl0 & _).
  destruct (IDS_forward w w' a0 (step_IDS w l) Ha0) as (a0' & Ha0' & Eid).
  destruct (node_cases C HCnd w l Hst Hns HA a0' Ha0') as (a1 & Ha1 & Eid1 & _ & _ & HK).
  assert (a1 = a0) by (apply HU; congruence). subst a1.
  exists (seg_of_log (n_log a0')). split; [left; exists a0'; auto|]. split; [|exact Hi].
  apply (member_keeps ej a0 a0' He Hnd Ha0); [right; exact Hl0|exact HK].
Qed.

(* a node that holds ej before and after the step has the same entries up to ej *)
Lemma holder_prefix ej v v' i : In v (w_nodes w) -> NK C w l v v' ->
  holds (seg_of_log (n_log v)) ej -> holds (seg_of_log (n_log v')) ej -> i <= e_index ej ->
  eget (seg_of_log (n_log v')) i = eget (seg_of_log (n_log v)) i.
Proof.
  intros Hv HK Hh Hh' Hi.
  destruct HK as [El|r e0 Er Er' Ei Ete Erole Efr Ept Hlead Hi2|k q x F Hk Eq Ed Ev' Hterm (Hx1 & Hbx & F0 & F1 & F2 & F3 & F4 & F6 & F7)].
  - rewrite El. reflexivity.
  - rewrite Er in *. rewrite Er'. destruct (eget_range _ _ _ Hh) as [_ Hjr]. rewrite top_log in Hjr. apply eget_app_old. lia.
  - destruct (N.lt_ge_cases i x) as [Hlt|Hge]; [apply F1, Hlt|].
    set (sl := seg_of_log (n_log v)) in *. set (sq := seg_of_req q) in *. set (s1 := seg_of_log (n_log v')) in *.
    assert (Hsl : is_seg w sl) by (left; exists v; auto). assert (Hsq : is_seg w sq) by (right; exists k, q; auto).
    assert (Hjq : eget sq (e_index ej) = Some ej).
    { destruct (F3 (e_index ej)) as [N0|E0]; [lia|unfold holds in Hh'; congruence|]. rewrite <- E0. exact Hh'. }
    destruct (eget_range _ _ _ Hh') as [_ Htop'].
    destruct (eget_defined s1 i) as (e & Ee); [cbn; lia|lia|].
    destruct (F3 i Hge) as [N0|E0]; [congruence|]. rewrite E0. symmetry.
    apply (pm_agree sl sq (e_index ej) i (lm_pm C w HL sl sq Hsl Hsq)); [exists ej; auto|cbn; lia|lia|exact Hi].
Qed.

(* the value of the chain of a live entry at an index below it does not change *)
Lemma chain_persists ej i ec : is_entry w ej -> ~ dead C w' ej -> 1 <= i -> i <= e_index ej -> chain_at w ej i ec -> chain_at w' ej i ec.
Proof.
  intros He Hnd' Hi1 Hi Hch.
  assert (Hnd : ~ dead C w ej) by (intro H; apply Hnd'; apply (dead_mono C HCnd w l Hst Hns HA HA' ej He H)).
  (* the creator is a holder before and after *)
  pose proof He as (s & Hs & Hh & Hi2). destruct (lm_src C w HL s _ ej Hs Hh Hi2) as (a0 & Ha0 & Hl0 & _).
  destruct (IDS_forward w w' a0 (step_IDS w l) Ha0) as (a0' & Ha0' & Eid).
  destruct (node_cases C HCnd w l Hst Hns HA a0' Ha0') as (a1 & Ha1 & Eid1 & _ & _ & HK0).
  assert (a1 = a0) by (apply HU; congruence). subst a1.
  assert (Hh0 : holds (seg_of_log (n_log a0)) ej) by (apply (lc_a C w HI ej a0 He Hnd Ha0); right; exact Hl0).
  assert (Hh0' : holds (seg_of_log (n_log a0')) ej) by (apply (member_keeps ej a0 a0' He Hnd Ha0); [right; exact Hl0|exact HK0]).
  assert (Hc0 : eget (seg_of_log (n_log a0')) i = Some ec).
  { rewrite (holder_prefix ej a0 a0' i Ha0 HK0 Hh0 Hh0' Hi). apply Hch; assumption. }
  intros v' Hv' Hh'.
  assert (Hs0 : is_seg w' (seg_of_log (n_log a0'))) by (left; exists a0'; auto).
  assert (Hsv : is_seg w' (seg_of_log (n_log v'))) by (left; exists v'; auto).
  rewrite <- Hc0. apply (pm_agree _ _ (e_index ej) i (lm_pm C w' HL' _ _ Hsv Hs0)); [exists ej; auto|cbn; lia|cbn; lia|exact Hi].
Qed.

End Persist.
