(* Log matching (C06), part 5: every step preserves the invariant; it holds initially; the classical
   statement for executions without snapshots and membership changes. *)
From RaftV Require Import Cluster.World Cluster.Statements Proofs.Frame Proofs.RVSpec Proofs.AESpec Proofs.AELog.
From RaftV Require Import Proofs.ConfNode Proofs.ConfStatic Proofs.ConfSticky.
From RaftV Require Import Proofs.Votes Proofs.VoteRecords Proofs.Names Proofs.ElectSpec.
From RaftV Require Import Proofs.ElectDefs Proofs.EFrame Proofs.RoleFrame Proofs.ElectBook Proofs.ElectNode Proofs.ElectSteps
                          Proofs.ElectWorld Proofs.ElectReply Proofs.ElectStep Proofs.ElectRun Proofs.ElectSafety.
From RaftV Require Import Proofs.LogDefs Proofs.LogSeg Proofs.LogUni Proofs.LogInv Proofs.LogAccept Proofs.LogSend Proofs.LogFrame
                          Proofs.NoSnap Proofs.TaePeer Proofs.LogWorld.
Open Scope N_scope.

Section LogRun.
Variable C : config.
Hypothesis HCnd : NoDup (member_ids C).

(* ---------------- one node, log untouched ---------------- *)
Lemma LMI_node_same w m m' :
  UNI w -> In m (w_nodes w) -> n_id m' = n_id m -> n_log m' = n_log m -> n_pterm m <= n_pterm m' ->
  LMI C w -> LMI C (set_node w m').
Proof.
  intros HU Hm Eid El Hp. apply (LMI_frame C w); [apply CP_refl| | |].
  - intros k q Hk Eq. exists k. auto.
  - intros n' Hn'. destruct (in_set_node _ _ _ Hn') as [->|[H _]]; [exists m; auto|exists n'; auto].
  - intros n Hn. destruct (N.eq_dec (n_id n) (n_id m)) as [E|E].
    + assert (n = m) by (apply HU; assumption). subst n. exists m'.
      split; [apply in_set_node_self with (m := m); assumption|]. auto.
    + exists n. split; [apply in_set_node_other; [exact Hn|rewrite Eid; exact E]|]. split; [reflexivity|split; [reflexivity|lia]].
Qed.

(* ---------------- one node runs a section ---------------- *)
Lemma lead_of_K w m m' : XInv C w -> In m (w_nodes w) -> K m m' ->
  n_role m' = Leader -> lead C (w_calls w) (n_id m) (n_term m').
Proof.
  intros HX Hm [K1 _] Hl. destruct (K1 Hl) as [A1 A2]. rewrite A2.
  assert (Hact : active (n_role m)) by (rewrite A1; unfold active; auto).
  destruct (x_l0 C w HX m Hm Hact) as [_ Hv]. split; [exact Hv|]. intros Hmany. apply (x_l C w HX m Hm A1 Hmany).
Qed.

Lemma lead_of_post w m m' : XInv C (set_node w m') -> In m (w_nodes w) -> n_id m' = n_id m ->
  n_role m' = Leader -> lead C (w_calls w) (n_id m) (n_term m').
Proof.
  intros HX' Hm Eid Hl. assert (Hm' : In m' (w_nodes (set_node w m'))) by (apply in_set_node_self with (m := m); assumption).
  assert (Hact : active (n_role m')) by (rewrite Hl; unfold active; auto).
  destruct (x_l0 C _ HX' m' Hm' Hact) as [_ Hv]. rewrite <- Eid. split; [exact Hv|]. intros Hmany. apply (x_l C _ HX' m' Hm' Hl Hmany).
Qed.

Lemma LMI_section w m m' :
  XInv C w -> UNI w -> NSW w -> LMI C w -> In m (w_nodes w) -> (coh m -> R m m') -> LG m m' ->
  (n_role m' = Leader -> lead C (w_calls w) (n_id m) (n_term m')) ->
  LMI C (set_node w m').
Proof.
  intros HX HU HNS HL Hm HR HLG Hlead. pose proof (vi_coh w (x_v C w HX) m Hm) as Hc. specialize (HR Hc).
  apply LMI_node_LG with (m := m); auto. apply (Votes.r_coh _ _ HR Hc).
Qed.

Lemma LMI_on_node_K w id f :
  XInv C w -> UNI w -> NSW w -> LMI C w ->
  (forall m, coh m -> R m (f m)) -> (forall m, LG m (f m)) -> (forall m, K m (f m)) ->
  LMI C (on_node w id f).
Proof.
  intros HX HU HNS HL HR HLG HK. unfold on_node. destruct (get_node w id) as [m|] eqn:G; [|exact HL].
  destruct (Votes.get_node_in _ _ _ G) as [Hm _].
  apply LMI_section with (m := m); auto. apply lead_of_K; auto.
Qed.

Lemma LMI_cond_K w id (b : node -> bool) (g : node -> node) :
  XInv C w -> UNI w -> NSW w -> LMI C w ->
  (forall m, coh m -> R m (g m)) -> (forall m, LG m (g m)) -> (forall m, K m (g m)) ->
  LMI C (on_node w id (fun m => if b m then g m else m)).
Proof.
  intros HX HU HNS HL HR HLG HK. apply LMI_on_node_K; auto; intros m; destruct (b m); auto using R_refl, LG_refl, K_refl.
Qed.

Lemma LMI_on_node_same w id f :
  UNI w -> LMI C w -> (forall m, n_id (f m) = n_id m /\ n_log (f m) = n_log m /\ n_pterm m <= n_pterm (f m)) ->
  LMI C (on_node w id f).
Proof.
  intros HU HL Hf. unfold on_node. destruct (get_node w id) as [m|] eqn:G; [|exact HL].
  destruct (Votes.get_node_in _ _ _ G) as [Hm _]. destruct (Hf m) as (A & B & D). apply LMI_node_same with (m := m); auto.
Qed.

(* ---------------- delivery ---------------- *)
Lemma LMI_set_call_nd w c c0 :
  NoDup (map c_id (w_calls w)) -> In c (w_calls w) -> call_key c0 = call_key c -> (c_resp c0 = c_resp c \/ c_resp c = None) ->
  LMI C w -> LMI C (set_call w c0).
Proof.
  intros ND Hc Ek Hr. apply LMI_calls; [reflexivity| |].
  - change (w_calls (set_call w c0)) with (upd_call c0 (w_calls w)). apply CP_set with (c := c); auto.
  - intros k q Hk Eq. change (w_calls (set_call w c0)) with (upd_call c0 (w_calls w)) in Hk.
    apply in_upd_call in Hk. destruct Hk as [Hk|[-> _]]; [exists k; auto|].
    pose proof (key_fields _ _ Ek) as (_ & Es & Ed & _ & Er). exists c. rewrite <- Er. auto.
Qed.

Lemma LMI_step_deliver w c dup :
  XInv C w -> UNI w -> NSW w -> LMI C w -> In c (w_calls w) -> (dup = false -> c_state c = CPending) ->
  LMI C (step_deliver w c dup).
Proof.
  intros HX HU HNS HL Hc Hst. pose proof (x_v C w HX) as HV. pose proof (vi_nodup w HV) as ND.
  assert (Hstate : forall w1 s, w_calls w1 = w_calls w -> LMI C w1 -> LMI C (set_call w1 (c <| c_state := s |>))).
  { intros w1 s E H1. apply LMI_set_call_nd with (c := c); auto; rewrite E; auto. }
  unfold step_deliver. destruct (get_node w (c_dst c)) as [n|] eqn:G.
  2:{ destruct dup; [exact HL|apply Hstate; [reflexivity|exact HL]]. }
  destruct (Votes.get_node_in _ _ _ G) as [Hn Eid]. pose proof (vi_coh w HV n Hn) as Hcoh.
  destruct (n_frozen n) eqn:F; [destruct dup; [exact HL|apply Hstate; [reflexivity|exact HL]]|].
  assert (HL1 : LMI C (set_node w (fst (fst (run_handler (w_now w) n (c_req c)))))).
  { pose proof (ns_calls w HNS c Hc) as Hq. unfold ns_call in Hq.
    destruct (c_req c) as [q|q|q] eqn:Eq; [| |contradiction].
    - unfold run_handler. destruct (h_append_entries (w_now w) n q) as [n1 p] eqn:EH. cbn [fst].
      replace n1 with (fst (h_append_entries (w_now w) n q)) by (rewrite EH; reflexivity).
      apply LMI_ae_accept with (k := c); auto.
    - unfold run_handler. destruct (h_request_vote (w_now w) n q) as [n1 p] eqn:EH. cbn [fst].
      replace n1 with (fst (h_request_vote (w_now w) n q)) by (rewrite EH; reflexivity).
      apply LMI_section with (m := n); auto; [intros Hc0; apply R_request_vote, Hc0|apply LG_h_request_vote|].
      apply lead_of_K; auto. apply K_h_request_vote. }
  destruct (run_handler (w_now w) n (c_req c)) as [[n1 resp] parked]. cbn [fst] in HL1.
  destruct dup; [exact HL1|]. specialize (Hst eq_refl).
  destruct (n_frozen n1); [apply Hstate; [reflexivity|exact HL1]|].
  destruct resp as [p|]; [|apply Hstate; [reflexivity|exact HL1]].
  apply LMI_set_call_nd with (c := c); auto. right. apply (vi_pend w HV c Hc Hst).
Qed.

(* ---------------- responses ---------------- *)
Lemma LMI_step_reply w c failed :
  XInv C w -> WI C w -> UNI w -> NSW w -> LMI C w -> In c (w_calls w) -> c_state c <> CDone -> (failed = false -> c_state c = CAnswered) ->
  LMI C (step_reply w c failed).
Proof.
  intros HX HW HU HNS HL Hc Hnd Hst. pose proof (x_v C w HX) as HV. unfold step_reply.
  set (c0 := c <| c_state := CDone |>). set (w0 := set_call w c0).
  assert (HL0 : LMI C w0) by (apply LMI_set_call_nd with (c := c); auto; apply (vi_nodup w HV)).
  assert (HX0 : XInv C w0) by (apply XInv_set_state; [exact HX|exact Hc|discriminate|right; reflexivity]).
  assert (HU0 : UNI w0) by (eapply UNI_nodes; [|exact HU]; reflexivity).
  assert (HNS0 : NSW w0).
  { apply NSW_set_call; [exact HNS|]. pose proof (ns_calls w HNS c Hc) as Hq. exact Hq. }
  destruct (get_node w (c_src c)) as [n|] eqn:G; [|exact HL0].
  destruct (Votes.get_node_in _ _ _ G) as [Hn Eid]. pose proof (vi_coh w HV n Hn) as Hcoh.
  assert (Hn0 : In n (w_nodes w0)) by exact Hn.
  destruct (n_frozen n) eqn:F; [exact HL0|].
  pose proof (ns_calls w HNS c Hc) as Hq. unfold ns_call in Hq.
  destruct (c_req c) as [q|q|q] eqn:Eq; [| |contradiction].
  - destruct (if failed then None else c_resp c) as [[p|p|p]|]; try exact HL0.
    destruct (ae_reply_ns (w_now w) n (c_round c) (c_dst c) (c_fgen c) q p (ns_nodes w HNS n Hn)) as [_ Hnone].
    pose proof (LG_l_ae_reply (w_now w) n (c_round c) (c_dst c) (c_fgen c) q p) as HLG.
    pose proof (K_ae_reply (w_now w) n (c_round c) (c_dst c) (c_fgen c) q p) as HK.
    pose proof (R_ae_reply (w_now w) n (c_round c) (c_dst c) (c_fgen c) q p) as HR.
    destruct (l_ae_reply (w_now w) n (c_round c) (c_dst c) (c_fgen c) q p) as [n1 o]. cbn [fst snd] in *. subst o.
    apply LMI_section with (m := n); auto. apply lead_of_K; auto.
  - destruct failed; [exact HL0|]. specialize (Hst eq_refl).
    destruct (c_resp c) as [[p|p|p]|] eqn:Ep; try exact HL0.
    assert (HXp : XInv C (set_node w0 (l_rv_reply (w_now w) n (c_round c) (c_dst c) (rv_prevote q) q p))).
    { apply XInv_rv_reply; auto. }
    apply LMI_section with (m := n); auto; [intros Hc0; apply R_rv_reply, Hc0|apply LG_l_rv_reply|].
    apply lead_of_post; auto. apply (Votes.r_id _ _ (R_rv_reply _ _ _ _ _ _ _ Hcoh)).
Qed.

(* ---------------- a goroutine reaches its RPC ---------------- *)
Lemma LMI_step_task w m :
  XInv C w -> UNI w -> NSW w -> TAEW w -> LMI C w -> In m (w_nodes w) -> is_up m = true -> LMI C (step_task w m).
Proof.
  intros HX HU HNS HTA HL Hm Hup. unfold step_task. destruct (n_tasks m) as [|t rest] eqn:Et; [exact HL|].
  set (n0 := m <| n_tasks := rest |>).
  assert (HL0 : LMI C (set_node w n0)) by (apply LMI_node_same with (m := m); auto; reflexivity || lia).
  destruct t as [rid peer pv|rid peer].
  - destruct (l_rv_send n0 rid peer pv) as [q|]; [|exact HL0].
    apply LMI_new_call_other; [intros qa; discriminate|exact HL0].
  - assert (Hns0 : ns_node n0) by (apply (ns_nf n0 m); [reflexivity|apply (ns_nodes w HNS m Hm)]).
    destruct (ae_send_ns n0 peer Hns0) as [_ Hsent].
    pose proof (SL_l_ae_send n0 peer) as HSL. pose proof (Q_ae_send n0 peer) as HQ.
    pose proof (ae_send_named n0 peer) as Hnamed. pose proof (ae_send_term n0 peer) as Hterm.
    pose proof (ae_send_seg n0 peer) as Hseg.
    destruct (l_ae_send n0 peer) as [n1 sn]. cbn [fst snd] in *. unfold SL in HSL.
    assert (HL1 : LMI C (set_node w n1)).
    { apply LMI_node_same with (m := m); auto; [apply (q_id _ _ HQ)|rewrite (q_pterm _ _ HQ); change (n_pterm n0) with (n_pterm m); lia]. }
    destruct sn as [|q|q]; [exact HL1| |contradiction].
    destruct (Hnamed n1 (SentAE q) eq_refl) as [Hld Hrole]. specialize (Hterm n1 (SentAE q) eq_refl). cbn in Hterm.
    assert (Hwf0 : wf_seg (seg_of_log (n_log n0))).
    { apply (lm_wf C w HL). left. exists m. auto. }
    destruct (Hseg n1 q Hns0 Hwf0 eq_refl) as (S1 & S2 & S3).
    assert (Hn1 : In n1 (w_nodes (set_node w n1))) by (apply in_set_node_self with (m := m); [exact Hm|apply (q_id _ _ HQ)]).
    replace (n_id m) with (n_id n1) by apply (q_id _ _ HQ).
    apply LMI_new_ae_lead; auto.
    + (* the sender is the leader of its term *)
      change (w_calls (set_node w n1)) with (w_calls w). rewrite (q_id _ _ HQ). change (n_id n0) with (n_id m).
      assert (Hr : n_role m = Leader) by exact Hrole.
      assert (Hact : active (n_role m)) by (rewrite Hr; unfold active; auto).
      destruct (x_l0 C w HX m Hm Hact) as [_ Hv]. split; [exact Hv|]. intros Hmany.
      rewrite Hterm. change (n_term n0) with (n_term m). apply (x_l C w HX m Hm Hr Hmany).
    + rewrite (q_id _ _ HQ). change (n_id n0) with (n_id m). apply (HTA m Hm rid peer). rewrite Et. left. reflexivity.
    + rewrite HSL. exact S2.
    + rewrite HSL. exact S3.
Qed.

(* ---------------- every step ---------------- *)
Lemma same_fields (f : node -> node) :
  (forall m, (n_id (f m), n_log (f m), n_pterm (f m)) = (n_id m, n_log m, n_pterm m)) ->
  forall m, n_id (f m) = n_id m /\ n_log (f m) = n_log m /\ n_pterm m <= n_pterm (f m).
Proof. intros H m. specialize (H m). injection H as A B D. rewrite D. repeat split; auto. lia. Qed.

Theorem step_LMI w l :
  static_label l = true -> nosnap_label l = true ->
  WI C w -> XInv C w -> UNI w -> NSW w -> TAEW w -> LMI C w -> LMI C (step w l).
Proof.
  intros Hst Hns HW HX HU HNS HTA HL. pose proof (x_v C w HX) as HV.
  destruct l; cbn [step]; try discriminate Hst; try discriminate Hns.
  - (* LTick *) apply (LMI_calls C w); [reflexivity|apply CP_refl| |exact HL]. intros k q Hk Eq. exists k. auto.
  - (* LElection *) apply LMI_cond_K; auto.
    + intros m _. apply Q_R, Q_signal_election.
    + apply LG_signal_election.
    + intros m. apply K_of_rt. reflexivity.
  - (* LHeartbeat *) apply LMI_cond_K; auto.
    + intros m _. apply Q_R, Q_heartbeat.
    + apply LG_l_heartbeat.
    + apply K_l_heartbeat.
  - (* LDeliver *) destruct (get_call w c) as [cl|] eqn:G; [|exact HL]. destruct (VoteRecords.get_call_in _ _ _ G) as [Hin _].
    destruct (c_state cl) eqn:Es; try exact HL. apply LMI_step_deliver; auto.
  - (* LDup *) destruct (get_call w c) as [cl|] eqn:G; [|exact HL]. destruct (VoteRecords.get_call_in _ _ _ G) as [Hin _].
    apply LMI_step_deliver; auto. discriminate.
  - (* LReply *) destruct (get_call w c) as [cl|] eqn:G; [|exact HL]. destruct (VoteRecords.get_call_in _ _ _ G) as [Hin _].
    destruct (c_state cl) eqn:Es; try exact HL. apply LMI_step_reply; auto; rewrite Es; discriminate.
  - (* LFail *) destruct (get_call w c) as [cl|] eqn:G; [|exact HL]. destruct (VoteRecords.get_call_in _ _ _ G) as [Hin _].
    destruct (c_state cl) eqn:Es; try exact HL; apply LMI_step_reply; auto; try (rewrite Es; discriminate); discriminate.
  - (* LSubmit *) unfold fresh_fid.
    assert (HX1 : XInv C (w <| w_next_fid ::= N.succ |>)) by (eapply XInv_same; [| | |exact HX]; reflexivity).
    assert (HL1 : LMI C (w <| w_next_fid ::= N.succ |>)).
    { apply (LMI_calls C w); [reflexivity|apply CP_refl| |exact HL]. intros k q Hk Eq. exists k. auto. }
    apply LMI_on_node_K; [exact HX1| | |exact HL1| | |].
    + eapply UNI_nodes; [|exact HU]; reflexivity.
    + eapply NSW_same; [| |exact HNS]; reflexivity.
    + intros m _. destruct (n_frozen m); [apply R_refl|apply Q_R, Q_submit].
    + intros m. destruct (n_frozen m); [apply LG_refl|apply LG_api_submit].
    + intros m. destruct (n_frozen m); [apply K_refl|apply K_api_submit].
  - (* LCrash *) apply LMI_drop. apply LMI_on_node_same; auto. apply same_fields. intros m. reflexivity.
  - (* LRestart *) unfold on_node. destruct (get_node w n) as [m|] eqn:G; [|exact HL].
    destruct (Votes.get_node_in _ _ _ G) as [Hm _].
    destruct (role_eqb (n_role m) Shutdown); [|apply LMI_node_same with (m := m); auto; lia].
    destruct (ns_nodes w HNS m Hm) as (_ & _ & Hsn & _). pose proof (S_restart (w_now w) m) as HS. unfold Votes.S, tv_le in HS. destruct HS as (A & [B _] & _).
    apply LMI_node_same with (m := m); auto. apply (SL_restart_after_crash (w_now w) m Hsn).
  - (* LBudget *) apply LMI_on_node_same; auto. apply same_fields. intros m. reflexivity.
  - (* LPad *) apply LMI_on_node_same; auto. apply same_fields. intros m. reflexivity.
  - (* LDefer *) apply LMI_on_node_same; auto. apply same_fields. intros m. reflexivity.
  - (* LRoMissed *) apply LMI_on_node_same; auto. apply same_fields. intros m. reflexivity.
  - (* LTask *) destruct (get_node w n) as [m|] eqn:G; [|exact HL]. destruct (is_up m) eqn:Hup; [|exact HL].
    destruct (Votes.get_node_in _ _ _ G) as [Hm _]. apply LMI_step_task; auto.
  - (* LElectionRun *) unfold on_node. destruct (get_node w n) as [m|] eqn:G; [|exact HL].
    destruct (Votes.get_node_in _ _ _ G) as [Hm _]. pose proof (vi_coh w HV m Hm) as Hc.
    destruct (is_up m && cv_election (n_cv m)); [|apply LMI_node_same with (m := m); auto; lia].
    assert (HXp : XInv C (set_node w (l_election (w_now w) m))) by (apply XInv_election; auto; eapply get_node_id; exact G).
    apply LMI_section with (m := m); auto; [intros Hc0; apply R_election, Hc0|apply LG_l_election|].
    apply lead_of_post; auto. apply (Votes.r_id _ _ (R_election (w_now w) m Hc)).
  - (* LCommit *) apply LMI_cond_K; auto.
    + intros m _. apply Q_R, Q_commit.
    + apply LG_lp_commit.
    + apply K_lp_commit.
  - (* LApply *) apply LMI_cond_K; auto.
    + intros m _. apply Q_R, Q_apply.
    + apply LG_lp_apply.
    + apply K_lp_apply.
  - (* LRo *) apply LMI_cond_K; auto.
    + intros m _. apply Q_R, Q_ro.
    + apply LG_lp_ro.
    + apply K_lp_ro.
  - (* LInstallResume *) destruct (get_node w n) as [m|] eqn:G; [|exact HL].
    destruct (Votes.get_node_in _ _ _ G) as [Hm _]. rewrite (install_resume_ns m (ns_nodes w HNS m Hm)). exact HL.
Qed.

End LogRun.
