(* C01, second sentence: between two restores a state machine instance is handed operations in strictly
   increasing index order.  Cluster level, executions without membership changes and without snapshots.
   Node level: a sweep of the pair (n_applies, n_applied) over every function of the node reachable from
   [step] with a label other than LSnapshot and a request other than InstallSnapshot (relation AP: the pair
   is untouched); the apply loop (the only writer besides crash) appends the index lastApplied + 1 - this is
   where the shape of the log (indices are positions) is needed; crash resets both.
   World level: AOW, preserved by every step from a world whose node logs are positional (LWF, a consequence
   of the log-matching invariant LMI) and have no snapshot (NSW). *)
From RaftV Require Import Cluster.World Cluster.Statements Proofs.Frame Proofs.AESpec Proofs.CommitSpec.
From RaftV Require Import Proofs.ConfStatic Proofs.LogDefs Proofs.LogSeg Proofs.LogInv Proofs.LogFrame Proofs.NoSnap
                          Proofs.LogMatching.
Open Scope N_scope.

(* ================= the statement ================= *)
(* indices strictly increasing, all above b *)
Fixpoint increasing (b : N) (l : list (N * N * N)) : Prop :=
  match l with [] => True | (i, _, _) :: r => b < i /\ increasing i r end.

Definition ao_node (n : node) : Prop :=
  increasing 0 (n_applies n) /\ (forall i t p, In (i, t, p) (n_applies n) -> i <= n_applied n).

Lemma increasing_snoc l : forall b i t p,
  increasing b l -> b < i -> (forall j t' p', In (j, t', p') l -> j < i) -> increasing b (l ++ [(i, t, p)]).
Proof.
  induction l as [|[[j tj] pj] l IH]; intros b i t p H Hb Hl; cbn [app increasing].
  - split; [exact Hb|exact I].
  - destruct H as [H1 H2]. split; [exact H1|].
    apply IH; [exact H2|apply (Hl j tj pj); left; reflexivity|].
    intros j' t' p' Hin. apply (Hl j' t' p'). right. exact Hin.
Qed.

(* ================= node level ================= *)
Definition af (n : node) := (n_applies n, n_applied n).

(* AP: the apply history and the applied index are untouched *)
(* (an inductive wrapper: the kernel compares the two nodes of an AP statement, it never computes on them) *)
Inductive AP (n n' : node) : Prop := AP_intro : af n' = af n -> AP n n'.
Lemma AP_eq n n' : AP n n' -> af n' = af n. Proof. intros [H]. exact H. Qed.
Lemma AP_refl n : AP n n. Proof. constructor. reflexivity. Qed.
Lemma AP_trans a b c : AP a b -> AP b c -> AP a c.
Proof. intros [H1] [H2]. constructor. rewrite H2. exact H1. Qed.

Lemma ao_AP n n' : AP n n' -> ao_node n -> ao_node n'.
Proof.
  intros [H]. unfold af, ao_node in *. injection H as H1 H2. rewrite H1, H2. exact (fun x => x).
Qed.

(* the base node is abstracted first: conversion on large node terms is slow *)
Ltac apf :=
  apply AP_intro;
  match goal with
  | |- af _ = af ?x => first [ is_var x; reflexivity
                             | let y := fresh "base" in generalize x; intro y; reflexivity
                             | reflexivity ]
  end.

(* ---------------- Handlers.v ---------------- *)
Lemma AP_tick n : AP n (snd (tick_write n)).
Proof.
  unfold tick_write. destruct (n_frozen n); [apply AP_refl|].
  destruct (n_budget n) as [k|]; [|apply AP_refl]. destruct (k =? 0); cbn [snd]; apf.
Qed.

Lemma AP_write (f : node -> node) n :
  (forall m, AP m (f m)) -> AP n (let (ok, n1) := tick_write n in if ok then f n1 else n1).
Proof.
  intros Hf. pose proof (AP_tick n) as H. destruct (tick_write n) as [ok n1]. cbn [snd] in H.
  destruct ok; [|exact H]. eapply AP_trans; [exact H|apply Hf].
Qed.

Lemma AP_persist n : AP n (persist n).
Proof. unfold persist. apply AP_write. intros m. apf. Qed.

Lemma AP_upd_log m f : AP m (m <| n_log ::= f |>). Proof. apf. Qed.

Lemma AP_append es : forall n, AP n (append_entries n es).
Proof.
  induction es as [|e es IH]; intros n; cbn [append_entries]; [apply AP_refl|].
  pose proof (AP_tick n) as H. destruct (tick_write n) as [ok n1]. cbn [snd] in H.
  destruct ok; [|exact H]. eapply AP_trans; [exact H|]. eapply AP_trans; [|apply IH]. apply AP_upd_log.
Qed.

Lemma AP_truncate n i : AP n (truncate_log n i).
Proof. unfold truncate_log. apply AP_write. intros m. apply AP_upd_log. Qed.

Lemma AP_compact n i : AP n (compact_log n i).
Proof. unfold compact_log. apply AP_write. intros m. apply AP_upd_log. Qed.

Lemma AP_fail o n : AP n (fail o n).
Proof. unfold fail. destruct (n_out n); [apf|apply AP_refl|apply AP_refl]. Qed.

Lemma AP_respond n f r : AP n (respond n f r).
Proof. unfold respond. destruct (n_frozen n); [apply AP_refl|]. destruct (existsb _ _); [apply AP_refl|apf]. Qed.
Lemma AP_respond_all fids : forall n r, AP n (respond_all n fids r).
Proof.
  induction fids as [|f fids IH]; intros n r; [apply AP_refl|].
  cbn [respond_all fold_left]. fold (respond_all (respond n f r) fids r).
  eapply AP_trans; [apply AP_respond|apply IH].
Qed.
Lemma AP_new_opmanager now n : AP n (new_opmanager now n). Proof. apf. Qed.
Lemma AP_notify n : AP n (notify_lost_leadership n).
Proof. unfold notify_lost_leadership. eapply AP_trans; apply AP_respond_all. Qed.
Lemma AP_cancel n : AP n (cancel_conf_change n).
Proof.
  unfold cancel_conf_change. destruct (n_cfg_fid n); [|apply AP_refl].
  eapply AP_trans; [apply AP_respond|apf].
Qed.

Lemma AP_new_follower n id nx : AP n (new_follower n id nx).
Proof. unfold new_follower. apf. Qed.

Lemma AP_new_followers nx ids : forall n, AP n (fold_left (fun m id => new_follower m id nx) ids n).
Proof.
  induction ids as [|id ids IH]; intros n; cbn [fold_left]; [apply AP_refl|].
  eapply AP_trans; [apply AP_new_follower|apply IH].
Qed.

Lemma AP_reset n : AP n (reset_snapshot_files n).
Proof. unfold reset_snapshot_files. apf. Qed.

Lemma AP_become_follower now n l t : AP n (become_follower now n l t).
Proof.
  unfold become_follower.
  eapply AP_trans; [|apply AP_cancel]. eapply AP_trans; [|apply AP_new_opmanager].
  eapply AP_trans; [|apply AP_notify]. eapply AP_trans; [|apply AP_reset].
  eapply AP_trans; [|apply AP_persist]. apf.
Qed.

Lemma AP_stepdown now n : AP n (stepdown now n).
Proof.
  unfold stepdown. eapply AP_trans; [|apply AP_cancel]. eapply AP_trans; [|apply AP_new_opmanager].
  eapply AP_trans; [|apply AP_notify]. apf.
Qed.

Lemma AP_next_configuration now n next : AP n (next_configuration now n next).
Proof.
  unfold next_configuration. destruct next as [nx|]; [|apply AP_fail].
  set (n1 := if is_member nx (n_id n) then n else _).
  assert (H1 : AP n n1).
  { subst n1. destruct (is_member nx (n_id n)); [apply AP_refl|].
    eapply AP_trans; [|apply AP_reset]. destruct (role_eqb (n_role n) Leader); [apply AP_stepdown|apply AP_refl]. }
  clearbody n1. eapply AP_trans; [exact H1|].
  match goal with |- AP n1 (fold_left ?f ?l ?n2 <| n_conf := ?c |>) =>
    apply AP_trans with n2; [|apply AP_trans with (fold_left f l n2); [apply AP_new_followers|]] end.
  - apf.
  - apf.
Qed.

Lemma AP_apply_configuration now n c : AP n (apply_configuration now n c).
Proof.
  unfold apply_configuration.
  assert (H : AP n (next_configuration now n (Some c) <| n_cconf := Some c |>)).
  { eapply AP_trans; [apply AP_next_configuration|]. apf. }
  destruct (n_cconf n) as [cc|]; [|exact H]. destruct (c_index c <=? c_index cc); [apply AP_refl|exact H].
Qed.

(* ---- AppendEntries ---- *)
Lemma AP_ae_scan now es : forall n n4 l, ae_scan now n es = Some (n4, l) -> AP n n4.
Proof.
  induction es as [|e es IH]; intros n n4 l H; cbn [ae_scan] in H.
  - injection H as <- <-. apply AP_refl.
  - destruct (last_index (n_log n) <? e_index e); [injection H as <- <-; apply AP_refl|].
    destruct (log_get (n_log n) (e_index e)) as [ex|] eqn:G; [|discriminate].
    destruct ((e_index ex =? e_index e) && negb (e_term ex =? e_term e)).
    + injection H as <- <-.
      destruct (e_index e <=? c_index (conf_of (truncate_log n (e_index e)))); [|apply AP_truncate].
      eapply AP_trans; [apply AP_truncate|apply AP_next_configuration].
    + eapply IH; eassumption.
Qed.

Lemma AP_signal_apply n : AP n (signal_apply n). Proof. unfold signal_apply. apf. Qed.

Lemma AP_append_entries now n q : AP n (fst (h_append_entries now n q)).
Proof.
  unfold h_append_entries.
  destruct (role_eqb (n_role n) Shutdown); [apply AP_refl|].
  destruct (ae_term q <? n_term n); [apply AP_refl|].
  set (n1 := n <| n_contact := now |> <| n_leader := Some (ae_leader q) |>).
  assert (H1 : AP n n1) by apf.
  set (n2 := if n_term n1 <? ae_term q then become_follower now n1 (ae_leader q) (ae_term q) else n1).
  assert (H2 : AP n1 n2).
  { subst n2. destruct (n_term n1 <? ae_term q); [apply AP_become_follower|apply AP_refl]. }
  set (n3 := if (ae_term q =? n_term n2) && _ then become_follower now n2 (ae_leader q) (ae_term q) else n2).
  assert (H3 : AP n2 n3).
  { subst n3. destruct ((ae_term q =? n_term n2) && _); [apply AP_become_follower|apply AP_refl]. }
  assert (H03 : AP n n3) by (eapply AP_trans; [exact H1|eapply AP_trans; eassumption]).
  clearbody n3. clear H1 H2 H3 n2 n1.
  destruct (ae_prev_index q <? n_lii n3); [exact H03|].
  destruct (next_index (n_log n3) <=? ae_prev_index q); [exact H03|].
  destruct ((n_lii n3 =? ae_prev_index q) && negb (n_lit n3 =? ae_prev_term q)); [exact H03|].
  match goal with |- AP n (fst (match ?c with _ => _ end)) => destruct c as [[idx|]|] end.
  - exact H03.
  - cbn [fst]. eapply AP_trans; [exact H03|apply AP_fail].
  - destruct (ae_scan now n3 (ae_entries q)) as [[n4 to_append]|] eqn:Es.
    + cbn [fst]. eapply AP_trans; [exact H03|].
      pose proof (AP_ae_scan _ _ _ _ _ Es) as H4.
      eapply AP_trans; [exact H4|]. eapply AP_trans; [apply AP_append|].
      match goal with |- AP _ (if ?c then _ else _) => destruct c end; [|apply AP_refl].
      eapply AP_trans; [|apply AP_signal_apply]. apf.
    + cbn [fst]. eapply AP_trans; [exact H03|apply AP_fail].
Qed.

(* ---- RequestVote ---- *)
Lemma AP_request_vote now n q : AP n (fst (h_request_vote now n q)).
Proof.
  unfold h_request_vote.
  destruct (role_eqb (n_role n) Shutdown); [apply AP_refl|].
  destruct (lease_valid now n || recent_contact now n); [apply AP_refl|].
  destruct (rv_term q <? n_term n); [apply AP_refl|].
  set (n1 := if negb (rv_prevote q) && (n_term n <? rv_term q) then become_follower now n (rv_cand q) (rv_term q) else n).
  assert (H1 : AP n n1).
  { subst n1. destruct (negb (rv_prevote q) && (n_term n <? rv_term q)); [apply AP_become_follower|apply AP_refl]. }
  clearbody n1.
  destruct (negb (rv_prevote q) && match n_vote n1 with Some v => negb (v =? rv_cand q) | None => false end); [exact H1|].
  destruct ((rv_last_term q <? last_term (n_log n1)) || _); [exact H1|].
  cbn [fst]. destruct (rv_prevote q); [exact H1|].
  eapply AP_trans; [exact H1|]. eapply AP_trans; [|apply AP_persist]. apf.
Qed.

(* ---------------- Leader.v ---------------- *)
Lemma AP_set_follower n id f : AP n (set_follower n id f).
Proof. unfold set_follower. apf. Qed.

Lemma AP_set_fobj n id g f : AP n (set_fobj n id g f).
Proof. unfold set_fobj. destruct (_ =? g); [apply AP_set_follower|apf]. Qed.

Lemma AP_bump n r : AP n (bump_round n r). Proof. unfold bump_round. apf. Qed.
Lemma AP_try_apply_ro now n s : AP n (try_apply_ro now n s). Proof. unfold try_apply_ro, signal_ro. apf. Qed.
Lemma AP_signal_commit n : AP n (signal_commit n). Proof. unfold signal_commit. apf. Qed.
Lemma AP_signal_ro n : AP n (signal_ro n). Proof. unfold signal_ro. apf. Qed.
Lemma AP_signal_election n : AP n (signal_election n). Proof. unfold signal_election. apf. Qed.
Lemma AP_signal_snapshot n : AP n (signal_snapshot n). Proof. unfold signal_snapshot. apf. Qed.

Lemma AP_send_ae_to_peers now n : AP n (send_ae_to_peers now n).
Proof.
  unfold send_ae_to_peers.
  set (n0 := n <| n_hb_rounds ::= N.succ |>).
  assert (H0 : AP n n0) by apf.
  set (n1 := if is_single (conf_of n) (n_id n) then _ else n0).
  assert (H1 : AP n0 n1).
  { subst n1. destruct (is_single (conf_of n) (n_id n)); [|apply AP_refl].
    eapply AP_trans; [|apply AP_try_apply_ro].
    destruct (n_commit n0 <? last_index (n_log n0)); [apply AP_signal_commit|apply AP_refl]. }
  clearbody n1. clearbody n0.
  unfold new_round. cbn [fst snd].
  eapply AP_trans; [exact H0|]. eapply AP_trans; [exact H1|]. apf.
Qed.

Lemma AP_upd_followers m f : AP m (m <| n_followers ::= f |>). Proof. apf. Qed.
Lemma AP_upd_role m r : AP m (m <| n_role := r |>). Proof. apf. Qed.

Lemma AP_become_leader now n : AP n (become_leader now n).
Proof.
  unfold become_leader.
  eapply AP_trans; [|apply AP_send_ae_to_peers].
  eapply AP_trans; [|apply AP_append].
  eapply AP_trans; [|apply AP_reset].
  eapply AP_trans; [|apply AP_upd_followers].
  eapply AP_trans; [|apply AP_new_opmanager].
  apply AP_upd_role.
Qed.

Lemma AP_send_rv_to_peers now n : AP n (send_rv_to_peers now n).
Proof.
  unfold send_rv_to_peers. destruct (is_single (conf_of n) (n_id n)).
  - eapply AP_trans; [|apply AP_become_leader].
    destruct (role_eqb (n_role n) PreCandidate); [|apply AP_refl].
    eapply AP_trans; [|apply AP_persist]. apf.
  - unfold new_round. apf.
Qed.

Lemma AP_election now n : AP n (l_election now n).
Proof.
  unfold l_election.
  set (n0 := n <| n_cv ::= _ |>).
  assert (H0 : AP n n0) by apf. clearbody n0.
  match goal with |- AP n (if ?c then _ else _) => destruct c end; [exact H0|].
  set (n1 := if role_eqb (n_role n0) Follower then n0 <| n_role := PreCandidate |> else n0).
  assert (H1 : AP n0 n1) by (subst n1; destruct (role_eqb (n_role n0) Follower); [apf|apply AP_refl]).
  clearbody n1.
  eapply AP_trans; [exact H0|]. eapply AP_trans; [exact H1|]. eapply AP_trans; [|apply AP_send_rv_to_peers].
  destruct (role_eqb (n_role n1) Candidate); [|apply AP_refl].
  eapply AP_trans; [|apply AP_persist]. apf.
Qed.

Lemma AP_rv_reply now n rid peer pv q p : AP n (l_rv_reply now n rid peer pv q p).
Proof.
  unfold l_rv_reply.
  destruct (role_eqb (n_role n) Shutdown); [apply AP_refl|].
  destruct (rv_term q <? n_term n); [apply AP_refl|].
  set (n1 := if rvr_granted p then bump_round n rid else n).
  assert (H1 : AP n n1) by (subst n1; destruct (rvr_granted p); [apply AP_bump|apply AP_refl]).
  clearbody n1.
  destruct (rv_term q <? rvr_term p).
  - eapply AP_trans; [exact H1|apply AP_become_follower].
  - eapply AP_trans; [exact H1|].
    set (n2 := if _ && role_eqb (n_role n1) PreCandidate then _ else n1).
    assert (H2 : AP n1 n2).
    { subst n2. match goal with |- AP _ (if ?c then _ else _) => destruct c end; [|apply AP_refl].
      eapply AP_trans; [|apply AP_signal_election]. apf. }
    match goal with |- AP _ (if ?c then _ else _) => destruct c end; [|exact H2].
    eapply AP_trans; [exact H2|apply AP_become_leader].
Qed.

(* ---- replication, sender side ---- *)
Lemma AP_is_send n peer : AP n (fst (l_is_send n peer)).
Proof.
  unfold l_is_send. destruct (negb (role_eqb (n_role n) Leader)); [apply AP_refl|].
  destruct (n_lii n =? 0); [apply AP_refl|].
  match goal with |- AP n (fst (match ?c with _ => _ end)) => destruct c as [[s o]|] end; cbn [fst].
  - apply AP_set_follower.
  - apply AP_fail.
Qed.

Lemma AP_is_reply now n peer g q resp : AP n (l_is_reply now n peer g q resp).
Proof.
  unfold l_is_reply. set (f := fobj n peer g). clearbody f.
  destruct (f_snap f) as [[s o]|]; [|apply AP_refl].
  destruct resp as [p|]; [|apply AP_refl].
  destruct (n_term n <? isr_term p); [apply AP_become_follower|].
  destruct (negb (isr_written p =? is_offset q)); [apply AP_set_fobj|].
  destruct (negb (is_done q)); [apply AP_refl|apply AP_set_fobj].
Qed.

Lemma AP_ae_send n peer : AP n (fst (l_ae_send n peer)).
Proof.
  unfold l_ae_send. destruct (_ || _); [apply AP_refl|].
  destruct (f_next (get_follower n peer) <=? n_lii n).
  - pose proof (AP_is_send n peer) as H. destruct (l_is_send n peer) as [n1 [q|]]; exact H.
  - destruct (next_index (n_log n) <? f_next (get_follower n peer)); cbn [fst]; [apply AP_fail|apply AP_refl].
Qed.

Lemma AP_ae_reply now n rid peer g q p : AP n (fst (l_ae_reply now n rid peer g q p)).
Proof.
  unfold l_ae_reply.
  destruct (_ || _); [apply AP_refl|].
  destruct (n_term n <? aer_term p); [apply AP_become_follower|].
  destruct (negb (ae_term q =? n_term n)); [apply AP_refl|].
  set (n1 := if is_voter (conf_of n) peer then bump_round n rid else n).
  set (n2 := if is_voter (conf_of n) peer && has_quorum (conf_of n1) (round_count n1 rid)
             then try_apply_ro now n1 (round_stamp n1 rid) else n1).
  assert (H1 : AP n n1) by (subst n1; destruct (is_voter (conf_of n) peer); [apply AP_bump|apply AP_refl]).
  assert (H2 : AP n n2).
  { subst n2. destruct (is_voter (conf_of n) peer && has_quorum (conf_of n1) (round_count n1 rid));
      [eapply AP_trans; [exact H1|apply AP_try_apply_ro]|exact H1]. }
  clearbody n2. clear H1 n1.
  set (f := fobj n2 peer g). clearbody f.
  destruct (negb (aer_success p)).
  - pose proof (AP_set_fobj n2 peer g (f <| f_next := aer_index p |>)) as H3.
    set (n3 := set_fobj n2 peer g _) in *. clearbody n3.
    destruct (aer_index p <=? n_lii n3); [|cbn [fst]; eapply AP_trans; eassumption].
    eapply AP_trans; [exact H2|]. eapply AP_trans; [exact H3|apply AP_is_send].
  - match goal with |- AP n (fst (if ?c then _ else _)) => destruct c end; cbn [fst]; [|exact H2].
    eapply AP_trans; [exact H2|].
    match goal with |- AP n2 (if ?c then signal_commit ?x else _) =>
      pose proof (AP_set_fobj n2 peer g _ : AP n2 x) as H3; destruct c end;
      [eapply AP_trans; [exact H3|apply AP_signal_commit]|exact H3].
Qed.

(* ---- loops other than the apply loop ---- *)
Lemma AP_commit now n : AP n (lp_commit now n).
Proof.
  unfold lp_commit. set (n0 := n <| n_cv ::= _ |>). assert (H0 : AP n n0) by apf. clearbody n0.
  destruct (negb (role_eqb (n_role n0) Leader)); [exact H0|].
  match goal with |- AP n (if ?c then _ else _) => destruct c end; [|exact H0].
  eapply AP_trans; [exact H0|]. eapply AP_trans; [|apply AP_send_ae_to_peers].
  eapply AP_trans; [|apply AP_signal_apply]. apf.
Qed.

Lemma AP_fold_respond (f : node -> rop -> node) ops : (forall m o, AP m (f m o)) -> forall n, AP n (fold_left f ops n).
Proof.
  intros Hf. induction ops as [|o ops IH]; intros n; cbn [fold_left]; [apply AP_refl|].
  eapply AP_trans; [apply Hf|apply IH].
Qed.

Lemma AP_ro now n : AP n (lp_ro now n).
Proof.
  unfold lp_ro. set (n0 := n <| n_cv ::= _ |>). assert (H0 : AP n n0) by apf. clearbody n0.
  destruct (_ || _); [exact H0|].
  eapply AP_trans; [exact H0|]. eapply AP_trans; [|apply AP_fold_respond].
  - apf.
  - intros m o. destruct (ro_type o); [apply AP_respond|apply AP_respond|].
    destruct (lease_valid now m); apply AP_respond.
Qed.

(* ---- client API, AddServer / RemoveServer included ---- *)
Lemma AP_upd_pending m f : AP m (m <| n_pending ::= f |>). Proof. apf. Qed.
Lemma AP_upd_sv m v : AP m (m <| n_should_verify := v |>). Proof. apf. Qed.
Lemma AP_upd_ro m f : AP m (m <| n_ro ::= f |>). Proof. apf. Qed.

Lemma AP_submit now n fid ty p : AP n (api_submit now n fid ty p).
Proof.
  unfold api_submit. destruct (negb (role_eqb (n_role n) Leader)); [apply AP_respond|].
  destruct ty.
  - eapply AP_trans; [|apply AP_send_ae_to_peers]. eapply AP_trans; [|apply AP_upd_pending].
    apply AP_append.
  - match goal with |- AP n (if ?c then _ else _) => destruct c end; [|apply AP_upd_ro].
    eapply AP_trans; [|apply AP_upd_sv]. eapply AP_trans; [|apply AP_send_ae_to_peers]. apply AP_upd_ro.
  - match goal with |- AP n (if ?c then _ else _) => destruct c end; [|apply AP_upd_ro].
    eapply AP_trans; [|apply AP_signal_ro]. apply AP_upd_ro.
Qed.

Lemma AP_append_configuration n c : AP n (fst (append_configuration n c)).
Proof. unfold append_configuration. cbn [fst]. apply AP_append. Qed.

Lemma AP_add_server now n fid id v : AP n (api_add_server now n fid id v).
Proof.
  unfold api_add_server. destruct (negb (role_eqb (n_role n) Leader)); [apply AP_respond|].
  destruct (negb (committed_this_term n)); [apply AP_respond|].
  destruct (pending_conf_change n); [apply AP_respond|].
  destruct (_ && _); [apply AP_respond|].
  match goal with |- AP n (let (n1, c') := append_configuration n ?c in _) =>
    pose proof (AP_append_configuration n c) as H1; destruct (append_configuration n c) as [n1 c'] end.
  cbn [fst] in H1. eapply AP_trans; [exact H1|]. eapply AP_trans; [|apply AP_send_ae_to_peers].
  eapply AP_trans; [|apply AP_new_follower]. apf.
Qed.

Lemma AP_remove_server now n fid id : AP n (api_remove_server now n fid id).
Proof.
  unfold api_remove_server. destruct (negb (role_eqb (n_role n) Leader)); [apply AP_respond|].
  destruct (negb (committed_this_term n)); [apply AP_respond|].
  destruct (pending_conf_change n); [apply AP_respond|].
  destruct (negb (is_member (conf_of n) id)); [apply AP_respond|].
  match goal with |- AP n (let (n1, _) := append_configuration n ?c in _) =>
    pose proof (AP_append_configuration n c) as H1; destruct (append_configuration n c) as [n1 c'] end.
  cbn [fst] in H1. eapply AP_trans; [exact H1|]. eapply AP_trans; [|apply AP_send_ae_to_peers]. apf.
Qed.

Lemma AP_heartbeat now n : AP n (l_heartbeat now n).
Proof. unfold l_heartbeat. destruct (_ || _); [apply AP_refl|apply AP_send_ae_to_peers]. Qed.

(* ---- lifecycle ---- *)
Lemma AP_api_start now n : AP n (api_start now n).
Proof.
  unfold api_start. destruct (negb _); [apply AP_refl|].
  match goal with |- AP n (fold_left ?f ?l ?n2 <| n_contact := _ |> <| n_role := _ |>) =>
    apply AP_trans with n2; [|apply AP_trans with (fold_left f l n2); [apply AP_new_followers|apf]] end.
  apf.
Qed.

Lemma AP_bootstrap n members : AP n (api_bootstrap n members).
Proof.
  unfold api_bootstrap. destruct (n_conf n); [apply AP_refl|].
  destruct (0 <? last_index (n_log n)); [apply AP_refl|].
  eapply AP_trans; [|apply AP_append]. apf.
Qed.

(* crash: the state machine instance is gone, a new one starts from nothing *)
Lemma crash_af n : af (crash n) = ([], 0).
Proof. reflexivity. Qed.

Lemma crash_snaps n : n_snaps (crash n) = n_snaps n.
Proof. reflexivity. Qed.

Lemma ao_empty n : af n = ([], 0) -> ao_node n.
Proof.
  unfold af, ao_node. intros H. injection H as H1 H2. rewrite H1. split; [exact I|]. intros i t p [].
Qed.

Lemma ao_crash n : ao_node (crash n).
Proof. apply ao_empty. apply crash_af. Qed.

(* restore() without a snapshot file: only the configuration scan *)
Lemma AP_restore n : n_snaps n = [] -> AP n (restore n).
Proof.
  intros Hs. unfold restore.
  set (n1 := n <| n_open := true |> <| n_term := n_pterm n |> <| n_vote := n_pvote n |>).
  assert (H1 : AP n n1) by apf.
  assert (S1 : n_snaps n1 = []) by exact Hs.
  clearbody n1.
  assert (E : last (map Some (n_snaps n1)) None = None) by (rewrite S1; reflexivity).
  rewrite E.
  destruct (conf_scan _ _ _) as [c cc].
  eapply AP_trans; [exact H1|]. apf.
Qed.

Lemma ao_restart now n : n_snaps n = [] -> ao_node (restart_after_crash now n).
Proof.
  intros Hs. unfold restart_after_crash.
  pose proof (crash_af n) as Ha. pose proof (crash_snaps n) as Hc. rewrite Hs in Hc.
  set (m := crash n) in *. clearbody m.
  apply (ao_AP (new_opmanager now (restore m))); [apply AP_api_start|].
  apply (ao_AP (restore m)); [apply AP_new_opmanager|].
  apply (ao_AP m); [apply AP_restore, Hc|]. apply ao_empty, Ha.
Qed.

(* ---------------- the apply loop ---------------- *)
(* the log is positional: the entry read at index i carries index i *)
Definition lwf (n : node) : Prop := forall i e, log_get (n_log n) i = Some e -> e_index e = i.

Lemma lwf_SL n n' : SL n n' -> lwf n -> lwf n'.
Proof. unfold SL, lwf. intros H. rewrite H. exact (fun x => x). Qed.

Lemma ao_apply_one now n : lwf n -> ao_node n -> ao_node (lp_apply_one now n).
Proof.
  intros Hw Ha. destruct (log_get (n_log n) (n_applied n + 1)) as [e|] eqn:G.
  - pose proof (Hw _ _ G) as Ei.
    pose proof (lp_apply_one_spec now n e G) as HS. cbn zeta in HS. destruct HS as [HA HK].
    set (n' := lp_apply_one now n) in *. clearbody n'.
    destruct Ha as [Hinc Hle]. unfold ao_node. rewrite HA.
    destruct (e_kind e) as [|p|c].
    + destruct HK as [_ ->]. split; [exact Hinc|]. intros i t p Hin. specialize (Hle i t p Hin). lia.
    + destruct HK as [_ ->]. split.
      * apply increasing_snoc; [exact Hinc|lia|]. intros j t' p' Hin. specialize (Hle j t' p' Hin). lia.
      * intros i t p' Hin. apply in_app_or in Hin. destruct Hin as [Hin|[Hin|[]]].
        -- specialize (Hle i t p' Hin). lia.
        -- injection Hin as <- _ _. lia.
    + destruct HK as [_ ->]. split; [exact Hinc|]. intros i t p Hin. specialize (Hle i t p Hin). lia.
  - assert (E : forall m, m = lp_apply_one now n -> AP n m).
    { intros m ->. unfold lp_apply_one. rewrite G. apply AP_fail. }
    exact (ao_AP _ _ (E _ eq_refl) Ha).
Qed.

Lemma ao_apply_run now fuel : forall n, lwf n -> ao_node n -> ao_node (lp_apply_run fuel now n).
Proof.
  induction fuel as [|f IH]; intros n Hw Ha; cbn [lp_apply_run]; [exact Ha|].
  match goal with |- ao_node (if ?c then _ else _) => destruct c end; [|exact Ha].
  apply IH; [|apply ao_apply_one; assumption].
  exact (lwf_SL _ _ (SL_lp_apply_one now n) Hw).
Qed.

Lemma ao_apply now n : lwf n -> ao_node n -> ao_node (lp_apply now n).
Proof.
  intros Hw Ha. unfold lp_apply. set (n0 := n <| n_cv ::= _ |>).
  assert (H0 : AP n n0) by apf. assert (L0 : SL n n0) by reflexivity. clearbody n0.
  pose proof (ao_apply_run now (N.to_nat (n_commit n0 - n_applied n0)) n0 (lwf_SL _ _ L0 Hw) (ao_AP _ _ H0 Ha)) as H1.
  set (n1 := lp_apply_run _ now n0) in *. clearbody n1.
  destruct (role_eqb (n_role n1) Leader); [|exact H1].
  exact (ao_AP _ _ (AP_signal_ro n1) H1).
Qed.

(* ================= world level ================= *)
Definition AOW (w : world) : Prop := forall n, In n (w_nodes w) -> ao_node n.
Definition LWF (w : world) : Prop := forall n, In n (w_nodes w) -> lwf n.

Lemma AOW_same w w' : w_nodes w' = w_nodes w -> AOW w -> AOW w'.
Proof. intros E H n Hn. rewrite E in Hn. apply H, Hn. Qed.

Lemma AOW_set_node w m : AOW w -> ao_node m -> AOW (set_node w m).
Proof.
  intros H Hm x Hx. unfold set_node in Hx. cbn [w_nodes set] in Hx. apply in_map_iff in Hx.
  destruct Hx as (y & <- & Hy). destruct (n_id y =? n_id m); [exact Hm|apply H, Hy].
Qed.

Lemma AOW_set_call w c0 : AOW w -> AOW (set_call w c0).
Proof. apply AOW_same. reflexivity. Qed.

Lemma AOW_new_call w src dst rid g q : AOW w -> AOW (new_call w src dst rid g q).
Proof. apply AOW_same. reflexivity. Qed.

Lemma AOW_drop w id : AOW w -> AOW (drop_calls_of w id).
Proof. apply AOW_same. reflexivity. Qed.

(* the section run by one node: what it may assume is that node's membership in the pre-world *)
Lemma AOW_on_node w id f : (forall m, In m (w_nodes w) -> ao_node m -> ao_node (f m)) -> AOW w -> AOW (on_node w id f).
Proof.
  intros Hf HW. unfold on_node. destruct (get_node w id) as [m|] eqn:G; [|exact HW].
  apply NoSnap.get_node_in in G. apply AOW_set_node; [exact HW|]. apply Hf; [exact G|apply HW, G].
Qed.

Lemma AOW_on_node_AP w id f : (forall m, AP m (f m)) -> AOW w -> AOW (on_node w id f).
Proof. intros Hf. apply AOW_on_node. intros m _. apply ao_AP, Hf. Qed.

Lemma AOW_step_task w m : In m (w_nodes w) -> AOW w -> AOW (step_task w m).
Proof.
  intros Hin HW. pose proof (HW m Hin) as Hm.
  unfold step_task. destruct (n_tasks m) as [|t rest]; [exact HW|].
  set (n0 := m <| n_tasks := rest |>).
  assert (H0 : ao_node n0) by (revert Hm; apply ao_AP; apf).
  clearbody n0. destruct t as [rid peer pv|rid peer].
  - destruct (l_rv_send n0 rid peer pv); [apply AOW_new_call|]; apply AOW_set_node; assumption.
  - pose proof (ao_AP _ _ (AP_ae_send n0 peer) H0) as H1.
    destruct (l_ae_send n0 peer) as [n1 [|q|q]]; cbn [fst] in H1;
      [|apply AOW_new_call|apply AOW_new_call]; apply AOW_set_node; assumption.
Qed.

(* the handler of a request that is not InstallSnapshot *)
Lemma ao_run_handler now n q : ao_node n -> req_ns q -> ao_node (fst (fst (run_handler now n q))).
Proof.
  intros H Hq. unfold run_handler. destruct q as [r|r|r].
  - pose proof (ao_AP _ _ (AP_append_entries now n r) H) as H1. destruct (h_append_entries now n r). exact H1.
  - pose proof (ao_AP _ _ (AP_request_vote now n r) H) as H1. destruct (h_request_vote now n r). exact H1.
  - destruct Hq.
Qed.

Lemma AOW_step_deliver w c dup : NSW w -> AOW w -> In c (w_calls w) -> AOW (step_deliver w c dup).
Proof.
  intros HN HW Hin. pose proof (ns_calls _ HN c Hin) as Hq. change (req_ns (c_req c)) in Hq.
  unfold step_deliver. destruct (get_node w (c_dst c)) as [n|] eqn:G;
    [|destruct dup; [exact HW|apply AOW_set_call; exact HW]].
  destruct (n_frozen n); [destruct dup; [exact HW|apply AOW_set_call; exact HW]|].
  pose proof (ao_run_handler (w_now w) n (c_req c) (HW n (NoSnap.get_node_in _ _ _ G)) Hq) as H1.
  destruct (run_handler (w_now w) n (c_req c)) as [[n1 resp] parked]. cbn [fst] in H1.
  pose proof (AOW_set_node w n1 HW H1) as HW1.
  destruct dup; [exact HW1|].
  destruct (n_frozen n1); [apply AOW_set_call; exact HW1|].
  destruct resp; apply AOW_set_call; exact HW1.
Qed.

Lemma AOW_step_reply w c failed : AOW w -> AOW (step_reply w c failed).
Proof.
  intros HW. unfold step_reply.
  set (w0 := set_call w (c <| c_state := CDone |>)).
  assert (H0 : AOW w0) by (apply AOW_set_call; exact HW).
  destruct (get_node w (c_src c)) as [n|] eqn:G; [|exact H0].
  pose proof (HW n (NoSnap.get_node_in _ _ _ G)) as Hn.
  destruct (n_frozen n); [exact H0|].
  destruct (c_req c) as [q|q|q];
    destruct (if failed then None else c_resp c) as [[p|p|p]|];
    try exact H0;
    try (apply AOW_set_node; [exact H0|exact (ao_AP _ _ (AP_rv_reply _ _ _ _ _ _ _) Hn)]);
    try (apply AOW_set_node; [exact H0|exact (ao_AP _ _ (AP_is_reply _ _ _ _ _ _) Hn)]).
  pose proof (ao_AP _ _ (AP_ae_reply (w_now w) n (c_round c) (c_dst c) (c_fgen c) q p) Hn) as H1.
  destruct (l_ae_reply (w_now w) n (c_round c) (c_dst c) (c_fgen c) q p) as [n1 [isq|]]; cbn [fst] in H1;
    [apply AOW_new_call|]; apply AOW_set_node; assumption.
Qed.

Lemma AP_upd_budget m k : AP m (m <| n_budget := k |>). Proof. apf. Qed.
Lemma AP_upd_pad m k : AP m (m <| n_pad := k |>). Proof. apf. Qed.
Lemma AP_upd_tasks m k : AP m (m <| n_tasks := k |>). Proof. apf. Qed.
Lemma AP_upd_cv m f : AP m (m <| n_cv ::= f |>). Proof. apf. Qed.

(* one step: membership changes are allowed here; the shape of the logs is a hypothesis on the pre-world *)
Theorem step_AOW w l : nosnap_label l = true -> NSW w -> LWF w -> AOW w -> AOW (step w l).
Proof.
  intros Hs HN HL HW. destruct l; try discriminate Hs; cbn [step].
  - (* LTick *) eapply AOW_same; [|exact HW]; reflexivity.
  - (* LElection *) apply AOW_on_node_AP; [|exact HW]. intros m. destruct (is_up m); [apply AP_signal_election|apply AP_refl].
  - (* LHeartbeat *) apply AOW_on_node_AP; [|exact HW]. intros m. destruct (is_up m); [apply AP_heartbeat|apply AP_refl].
  - (* LDeliver *) destruct (get_call w c) as [cl|] eqn:G; [|exact HW]. apply NoSnap.get_call_in in G.
    destruct (c_state cl); try exact HW. apply AOW_step_deliver; assumption.
  - (* LDup *) destruct (get_call w c) as [cl|] eqn:G; [|exact HW]. apply NoSnap.get_call_in in G. apply AOW_step_deliver; assumption.
  - (* LReply *) destruct (get_call w c) as [cl|] eqn:G; [|exact HW].
    destruct (c_state cl); try exact HW. apply AOW_step_reply; assumption.
  - (* LFail *) destruct (get_call w c) as [cl|] eqn:G; [|exact HW].
    destruct (c_state cl); try exact HW; apply AOW_step_reply; assumption.
  - (* LSubmit *) unfold fresh_fid. apply AOW_on_node_AP; [|eapply AOW_same; [|exact HW]; reflexivity].
    intros m. destruct (n_frozen m); [apply AP_refl|apply AP_submit].
  - (* LAddServer *) unfold fresh_fid. apply AOW_on_node_AP; [|eapply AOW_same; [|exact HW]; reflexivity].
    intros m. destruct (n_frozen m); [apply AP_refl|apply AP_add_server].
  - (* LRemoveServer *) unfold fresh_fid. apply AOW_on_node_AP; [|eapply AOW_same; [|exact HW]; reflexivity].
    intros m. destruct (n_frozen m); [apply AP_refl|apply AP_remove_server].
  - (* LCrash *) apply AOW_drop. apply AOW_on_node; [|exact HW]. intros m _ _. exact (ao_crash m).
  - (* LRestart *) apply AOW_on_node; [|exact HW]. intros m Hin Hm.
    destruct (role_eqb (n_role m) Shutdown); [|exact Hm].
    apply ao_restart. destruct (ns_nodes _ HN m Hin) as (_ & _ & H3 & _). exact H3.
  - (* LBudget *) apply AOW_on_node_AP; [|exact HW]. intros m. apply AP_upd_budget.
  - (* LPad *) apply AOW_on_node_AP; [|exact HW]. intros m. apply AP_upd_pad.
  - (* LDefer *) apply AOW_on_node_AP; [|exact HW]. intros m. apply AP_upd_tasks.
  - (* LRoMissed *) apply AOW_on_node_AP; [|exact HW]. intros m. apply AP_upd_cv.
  - (* LTask *) destruct (get_node w n) as [m|] eqn:G; [|exact HW]. destruct (is_up m); [|exact HW].
    apply AOW_step_task; [eapply NoSnap.get_node_in; exact G|exact HW].
  - (* LElectionRun *) apply AOW_on_node_AP; [|exact HW]. intros m. destruct (is_up m && cv_election (n_cv m)); [apply AP_election|apply AP_refl].
  - (* LCommit *) apply AOW_on_node_AP; [|exact HW]. intros m. destruct (is_up m && cv_commit (n_cv m)); [apply AP_commit|apply AP_refl].
  - (* LApply *) apply AOW_on_node; [|exact HW]. intros m Hin Hm.
    destruct (is_up m && cv_apply (n_cv m)); [|exact Hm]. apply ao_apply; [apply HL, Hin|exact Hm].
  - (* LRo *) apply AOW_on_node_AP; [|exact HW]. intros m. destruct (is_up m && cv_ro (n_cv m)); [apply AP_ro|apply AP_refl].
  - (* LInstallResume: no parked handler *)
    destruct (get_node w n) as [m|] eqn:G; [|exact HW]. apply NoSnap.get_node_in in G.
    rewrite (install_resume_ns m (ns_nodes _ HN m G)). exact HW.
Qed.

(* ---------------- the initial world ---------------- *)
Lemma mk_node_af id et ld : af (mk_node id et ld) = ([], 0).
Proof. reflexivity. Qed.

Lemma AOW_init ids boot et ld : AOW (init_world ids boot et ld).
Proof.
  unfold init_world. intros n Hin. cbn [w_nodes] in Hin. apply in_map_iff in Hin. destruct Hin as (id & <- & _).
  pose proof (mk_node_af id et ld) as Hm. set (m := mk_node id et ld) in *. clearbody m.
  apply ao_empty.
  rewrite (AP_eq _ _ (AP_api_start 0 _)), (AP_eq _ _ (AP_new_opmanager 0 _)).
  destruct (existsb (N.eqb id) boot); [|exact Hm].
  rewrite (AP_eq _ _ (AP_bootstrap m boot)). exact Hm.
Qed.

(* ---------------- the shape of the logs, from the log-matching invariant ---------------- *)
Lemma LWF_ALL C w : ALL C w -> LWF w.
Proof.
  intros [_ _ _ HN _ HL] n Hin i e G.
  destruct (ns_nodes _ HN n Hin) as (_ & _ & _ & _ & _ & Hr).
  assert (Hs : is_seg w (seg_of_log (n_log n))) by (left; exists n; auto).
  pose proof (lm_wf C w HL _ Hs) as Hwf.
  rewrite <- (eget_log (n_log n) i Hr) in G. exact (eget_index _ _ _ Hwf G).
Qed.

(* ---------------- every reachable world ---------------- *)
Lemma AOW_run C : NoDup (member_ids C) -> forall ls w,
  static ls = true -> nosnap ls = true -> ALL C w -> AOW w -> AOW (run w ls).
Proof.
  intros HC. induction ls as [|l ls IH]; intros w Hs Hn HA HW; [exact HW|].
  destruct (static_cons _ _ Hs) as [S1 S2]. destruct (nosnap_cons _ _ Hn) as [N1 N2].
  cbn [run fold_left]. apply IH; [exact S2|exact N2| |].
  - assert (Hs' : static [l] = true) by (destruct l; cbn [static] in Hs |- *; try discriminate Hs; reflexivity).
    assert (Hn' : nosnap [l] = true) by (destruct l; cbn [nosnap] in Hn |- *; try discriminate Hn; reflexivity).
    exact (ALL_run C [l] HC w Hs' Hn' HA).
  - apply step_AOW; [exact N1|exact (a_ns _ _ HA)|exact (LWF_ALL C w HA)|exact HW].
Qed.

Theorem apply_order ids boot et ld ls :
  static ls = true -> nosnap ls = true ->
  forall n, In n (w_nodes (run (init_world ids boot et ld) ls)) -> ao_node n.
Proof.
  intros Hs Hn.
  exact (AOW_run (bootconf boot) (bootconf_nodup boot) ls _ Hs Hn (ALL_init ids boot et ld) (AOW_init ids boot et ld)).
Qed.

Print Assumptions apply_order.
