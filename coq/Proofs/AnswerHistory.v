(* Every future resolves at most once; the first answer wins; answers are never retracted.
   Cluster level, executions without membership changes and without snapshots (crashes, restarts and
   storage-failure freezes included): along every step the answer history n_results of every node only
   grows at its end (grows), and it never holds two answers for the same future (once).
   The sweep over the node functions is the one of ResultSteps.v, with the relation G. *)
From RaftV Require Import Cluster.World Cluster.Statements Proofs.Frame Proofs.RVSpec Proofs.AESpec Proofs.AELog.
From RaftV Require Import Proofs.CommitSpec Proofs.ReadSpec.
From RaftV Require Import Proofs.ConfNode Proofs.ConfStatic Proofs.ConfSticky.
From RaftV Require Import Proofs.Votes Proofs.VoteRecords Proofs.Names Proofs.ElectSpec.
From RaftV Require Import Proofs.ElectDefs Proofs.EFrame Proofs.RoleFrame Proofs.ElectBook Proofs.ElectNode Proofs.ElectSteps
                          Proofs.ElectWorld Proofs.ElectReply Proofs.ElectStep Proofs.ElectRun Proofs.ElectSafety.
From RaftV Require Import Proofs.LogDefs Proofs.LogSeg Proofs.LogUni Proofs.LogInv Proofs.LogAccept Proofs.LogSend Proofs.LogFrame
                          Proofs.NoSnap Proofs.TaePeer Proofs.LogWorld Proofs.LogRun Proofs.LogMatching.
From RaftV Require Import Proofs.AEFull Proofs.CommitSteps Proofs.ResultSteps Proofs.ApplyOrder.
Open Scope N_scope.

(* ================= node level ================= *)
Definition grows (n n' : node) : Prop := exists more, n_results n' = n_results n ++ more.
Definition once (n : node) : Prop := NoDup (map fst (n_results n)).
Definition G (n n' : node) : Prop := grows n n' /\ (once n -> once n').

Lemma G_refl m : G m m.
Proof. split; [exists []; symmetry; apply app_nil_r|auto]. Qed.
Lemma G_trans a b c : G a b -> G b c -> G a c.
Proof.
  intros [[m1 E1] O1] [[m2 E2] O2]. split; [|auto].
  exists (m1 ++ m2). rewrite E2, E1. symmetry. apply app_assoc.
Qed.
Lemma RE_G m m' : RE m m' -> G m m'.
Proof. unfold RE. intros E. split; [exists []; rewrite E; symmetry; apply app_nil_r|unfold once; rewrite E; auto]. Qed.

Ltac gtv := apply RE_G; retv.

Lemma NoDup_snoc (A : Type) (l : list A) (a : A) : NoDup l -> ~ In a l -> NoDup (l ++ [a]).
Proof.
  induction l as [|b l IH]; intros Hn Ha; cbn [app]; [constructor; [intros []|constructor]|].
  inversion Hn as [|? ? Hb Hl]; subst. constructor.
  - intros Hin. apply in_app_or in Hin. destruct Hin as [Hin|[->|[]]]; [exact (Hb Hin)|]. apply Ha. left. reflexivity.
  - apply IH; [exact Hl|]. intros Hin. apply Ha. right. exact Hin.
Qed.

Lemma existsb_fid_false fid (l : list (N * fresult)) :
  existsb (fun p => fst p =? fid) l = false -> ~ In fid (map fst l).
Proof.
  intros He Hin. apply in_map_iff in Hin. destruct Hin as (p & Ep & Hp).
  assert (Ht : existsb (fun p => fst p =? fid) l = true).
  { apply existsb_exists. exists p. split; [exact Hp|]. apply N.eqb_eq. exact Ep. }
  congruence.
Qed.

(* the three cases of respond: frozen, already answered (the first answer wins), a new answer at the end *)
Lemma G_respond n fid r : G n (respond n fid r).
Proof.
  unfold respond. destruct (n_frozen n); [apply G_refl|].
  destruct (existsb (fun p => fst p =? fid) (n_results n)) eqn:Ex; [apply G_refl|].
  generalize dependent n. intros n Ex.
  assert (E : n_results (n <| n_results ::= fun l => l ++ [(fid, r)] |>) = n_results n ++ [(fid, r)]) by reflexivity.
  set (n' := n <| n_results ::= fun l => l ++ [(fid, r)] |>) in *. clearbody n'.
  split; [exists [(fid, r)]; exact E|].
  unfold once. intros Ho. rewrite E, map_app. cbn [map fst]. apply NoDup_snoc; [exact Ho|].
  apply existsb_fid_false, Ex.
Qed.

Lemma G_respond_all fids r : forall n, G n (respond_all n fids r).
Proof.
  unfold respond_all. induction fids as [|f fids IH]; intros n; cbn [fold_left]; [apply G_refl|].
  eapply G_trans; [apply G_respond|apply IH].
Qed.

Lemma G_tick n : G n (snd (tick_write n)).
Proof.
  unfold tick_write. destruct (n_frozen n); [apply G_refl|]. destruct (n_budget n) as [k|]; [|apply G_refl].
  destruct (k =? 0); cbn [snd]; gtv.
Qed.

Lemma G_write (f : node -> node) n :
  (forall m, G m (f m)) ->
  G n (let (ok, n1) := tick_write n in if ok then f n1 else n1).
Proof.
  intros Hf. pose proof (G_tick n) as H. destruct (tick_write n) as [ok n1]. cbn [snd] in H.
  destruct ok; [|exact H]. eapply G_trans; [exact H|]. apply Hf.
Qed.

Lemma G_persist n : G n (persist n). Proof. apply G_write. intros m. gtv. Qed.
Lemma G_truncate n i : G n (truncate_log n i). Proof. apply G_write. intros m. gtv. Qed.
Lemma G_append es : forall n, G n (append_entries n es).
Proof.
  induction es as [|e es IH]; intros n; cbn [append_entries]; [apply G_refl|].
  pose proof (G_tick n) as H. destruct (tick_write n) as [ok n1]. cbn [snd] in H.
  destruct ok; [|exact H]. eapply G_trans; [exact H|]. eapply G_trans; [|apply IH]. gtv.
Qed.

Lemma G_new_opmanager now n : G n (new_opmanager now n). Proof. gtv. Qed.
Lemma G_reset n : G n (reset_snapshot_files n). Proof. gtv. Qed.
Lemma G_notify n : G n (notify_lost_leadership n).
Proof. unfold notify_lost_leadership. eapply G_trans; [|apply G_respond_all]. apply G_respond_all. Qed.
Lemma G_cancel n : G n (cancel_conf_change n).
Proof.
  unfold cancel_conf_change. destruct (n_cfg_fid n) as [f|]; [|apply G_refl].
  apply G_trans with (respond n f FNotLeader); [apply G_respond|gtv].
Qed.
Lemma G_fail o n : G n (fail o n).
Proof. unfold fail. destruct (n_out n); [gtv|apply G_refl|apply G_refl]. Qed.

Lemma G_become_follower now n l t : G n (become_follower now n l t).
Proof.
  unfold become_follower. cbv zeta.
  eapply G_trans; [|apply G_cancel]. eapply G_trans; [|apply G_new_opmanager].
  eapply G_trans; [|apply G_notify]. eapply G_trans; [|apply G_reset].
  eapply G_trans; [|apply G_persist]. gtv.
Qed.

Lemma G_stepdown now n : G n (stepdown now n).
Proof.
  unfold stepdown. eapply G_trans; [|apply G_cancel]. eapply G_trans; [|apply G_new_opmanager].
  eapply G_trans; [|apply G_notify]. gtv.
Qed.

Lemma G_new_followers nx ids n : G n (fold_left (fun m id => new_follower m id nx) ids n).
Proof. apply RE_G. unfold RE. apply (proj_new_followers n_results nx ids). intros m id. apply RE_new_follower. Qed.

Lemma G_next_configuration now n c : G n (next_configuration now n c).
Proof.
  unfold next_configuration. destruct c as [nx|]; [|apply G_fail].
  set (n1 := if is_member nx (n_id n) then n else _).
  assert (H1 : G n n1).
  { subst n1. destruct (is_member nx (n_id n)); [apply G_refl|].
    eapply G_trans; [|apply G_reset]. destruct (role_eqb (n_role n) Leader); [apply G_stepdown|apply G_refl]. }
  clearbody n1. eapply G_trans; [exact H1|].
  match goal with |- G n1 (fold_left ?f ?l ?n2 <| n_conf := ?c |>) =>
    apply G_trans with n2; [gtv|]; apply G_trans with (fold_left f l n2); [apply G_new_followers|gtv] end.
Qed.

Lemma G_apply_configuration now n c : G n (apply_configuration now n c).
Proof.
  unfold apply_configuration. destruct (n_cconf n) as [cc|].
  - destruct (c_index c <=? c_index cc); [apply G_refl|].
    eapply G_trans; [apply G_next_configuration|]. gtv.
  - eapply G_trans; [apply G_next_configuration|]. gtv.
Qed.

Lemma G_ae_scan now es : forall n n4 l, ae_scan now n es = Some (n4, l) -> G n n4.
Proof.
  induction es as [|e es IH]; intros n n4 l H; cbn [ae_scan] in H.
  - injection H as <- _. apply G_refl.
  - destruct (last_index (n_log n) <? e_index e); [injection H as <- _; apply G_refl|].
    destruct (log_get (n_log n) (e_index e)) as [ex|]; [|discriminate].
    destruct ((e_index ex =? e_index e) && negb (e_term ex =? e_term e)).
    + injection H as <- _.
      destruct (e_index e <=? c_index (conf_of (truncate_log n (e_index e)))).
      * eapply G_trans; [apply G_truncate|apply G_next_configuration].
      * apply G_truncate.
    + eapply IH; exact H.
Qed.

Lemma G_signal_apply n : G n (signal_apply n). Proof. gtv. Qed.
Lemma G_signal_commit n : G n (signal_commit n). Proof. gtv. Qed.
Lemma G_signal_ro n : G n (signal_ro n). Proof. gtv. Qed.
Lemma G_signal_election n : G n (signal_election n). Proof. gtv. Qed.
Lemma G_signal_snapshot n : G n (signal_snapshot n). Proof. gtv. Qed.

Lemma G_upd_tasks m ts : G m (m <| n_tasks := ts |>). Proof. gtv. Qed.
Lemma G_upd_budget m k : G m (m <| n_budget := k |>). Proof. gtv. Qed.
Lemma G_upd_pad m k : G m (m <| n_pad := k |>). Proof. gtv. Qed.
Lemma G_upd_cv m f : G m (m <| n_cv ::= f |>). Proof. gtv. Qed.
Lemma G_upd_pending m f : G m (m <| n_pending ::= f |>). Proof. gtv. Qed.
Lemma G_upd_sv m v : G m (m <| n_should_verify := v |>). Proof. gtv. Qed.
Lemma G_upd_ro m f : G m (m <| n_ro ::= f |>). Proof. gtv. Qed.
Lemma G_upd_followers m f : G m (m <| n_followers ::= f |>). Proof. gtv. Qed.
Lemma G_upd_role m r : G m (m <| n_role := r |>). Proof. gtv. Qed.

Lemma G_set_follower n id f : G n (set_follower n id f). Proof. unfold set_follower. gtv. Qed.
Lemma G_set_fobj n id g f : G n (set_fobj n id g f).
Proof. unfold set_fobj. destruct (_ =? g); [apply G_set_follower|gtv]. Qed.
Lemma G_bump_round n r : G n (bump_round n r). Proof. unfold bump_round. gtv. Qed.
Lemma G_try_apply_ro now n s : G n (try_apply_ro now n s). Proof. unfold try_apply_ro, signal_ro. gtv. Qed.

Lemma G_send_ae_to_peers now n : G n (send_ae_to_peers now n).
Proof.
  unfold send_ae_to_peers.
  set (n0 := n <| n_hb_rounds ::= N.succ |>).
  assert (H0 : G n n0) by gtv.
  set (n1 := if is_single (conf_of n) (n_id n) then _ else n0).
  assert (H1 : G n0 n1).
  { subst n1. destruct (is_single (conf_of n) (n_id n)); [|apply G_refl].
    eapply G_trans; [|apply G_try_apply_ro].
    destruct (n_commit n0 <? last_index (n_log n0)); [apply G_signal_commit|apply G_refl]. }
  clearbody n1. clearbody n0.
  unfold new_round. cbn [fst snd].
  eapply G_trans; [exact H0|]. eapply G_trans; [exact H1|]. gtv.
Qed.

Lemma G_become_leader now n : G n (become_leader now n).
Proof.
  unfold become_leader.
  eapply G_trans; [|apply G_send_ae_to_peers]. eapply G_trans; [|apply G_append].
  eapply G_trans; [|apply G_reset].
  eapply G_trans; [|apply G_upd_followers].
  eapply G_trans; [|apply G_new_opmanager]. apply G_upd_role.
Qed.

Lemma G_send_rv_to_peers now n : G n (send_rv_to_peers now n).
Proof.
  unfold send_rv_to_peers. destruct (is_single (conf_of n) (n_id n)).
  - eapply G_trans; [|apply G_become_leader].
    destruct (role_eqb (n_role n) PreCandidate); [|apply G_refl].
    eapply G_trans; [|apply G_persist]. gtv.
  - unfold new_round. gtv.
Qed.

Lemma G_l_election now m : G m (l_election now m).
Proof.
  unfold l_election.
  set (n0 := m <| n_cv ::= _ |>).
  assert (H0 : G m n0) by gtv.
  match goal with |- G m (if ?c then _ else _) => destruct c end; [exact H0|].
  set (n1 := if role_eqb (n_role n0) Follower then n0 <| n_role := PreCandidate |> else n0).
  assert (H1 : G n0 n1) by (subst n1; destruct (role_eqb (n_role n0) Follower); [gtv|apply G_refl]).
  set (n2 := if role_eqb (n_role n1) Candidate then _ else n1).
  assert (H2 : G n1 n2).
  { subst n2. destruct (role_eqb (n_role n1) Candidate); [|apply G_refl].
    eapply G_trans; [|apply G_persist]. gtv. }
  eapply G_trans; [eapply G_trans; [exact H0|eapply G_trans; [exact H1|exact H2]]|].
  apply G_send_rv_to_peers.
Qed.

Lemma G_l_heartbeat now m : G m (l_heartbeat now m).
Proof. unfold l_heartbeat. destruct (_ || _); [apply G_refl|apply G_send_ae_to_peers]. Qed.

Lemma G_l_is_send n peer : G n (fst (l_is_send n peer)).
Proof.
  unfold l_is_send. destruct (negb (role_eqb (n_role n) Leader)); [apply G_refl|].
  destruct (n_lii n =? 0); [apply G_refl|].
  match goal with |- G n (fst (match ?c with _ => _ end)) => destruct c as [[s o]|] end; cbn [fst];
    [apply G_set_follower|apply G_fail].
Qed.

Lemma G_l_ae_send n peer : G n (fst (l_ae_send n peer)).
Proof.
  unfold l_ae_send. destruct (_ || _); [apply G_refl|].
  destruct (f_next (get_follower n peer) <=? n_lii n).
  - pose proof (G_l_is_send n peer) as H. destruct (l_is_send n peer) as [n1 [q|]]; exact H.
  - destruct (next_index (n_log n) <? f_next (get_follower n peer)); cbn [fst]; [apply G_fail|apply G_refl].
Qed.

Lemma G_h_request_vote now n q : G n (fst (h_request_vote now n q)).
Proof.
  unfold h_request_vote.
  destruct (role_eqb (n_role n) Shutdown); [apply G_refl|].
  destruct (lease_valid now n || recent_contact now n); [apply G_refl|].
  destruct (rv_term q <? n_term n); [apply G_refl|].
  set (n1 := if negb (rv_prevote q) && (n_term n <? rv_term q) then become_follower now n (rv_cand q) (rv_term q) else n).
  assert (H1 : G n n1).
  { subst n1. destruct (negb (rv_prevote q) && (n_term n <? rv_term q)); [apply G_become_follower|apply G_refl]. }
  destruct (negb (rv_prevote q) && match n_vote n1 with Some v => negb (v =? rv_cand q) | None => false end);
    [exact H1|].
  destruct ((rv_last_term q <? last_term (n_log n1)) || _); [exact H1|].
  cbn [fst]. destruct (rv_prevote q); [exact H1|].
  eapply G_trans; [exact H1|]. eapply G_trans; [|apply G_persist]. gtv.
Qed.

Lemma G_l_rv_reply now m rid peer pv q p : G m (l_rv_reply now m rid peer pv q p).
Proof.
  unfold l_rv_reply.
  destruct (role_eqb (n_role m) Shutdown); [apply G_refl|].
  destruct (rv_term q <? n_term m); [apply G_refl|].
  set (n1 := if rvr_granted p then bump_round m rid else m).
  assert (H1 : G m n1) by (subst n1; destruct (rvr_granted p); [apply G_bump_round|apply G_refl]).
  destruct (rv_term q <? rvr_term p).
  - eapply G_trans; [exact H1|apply G_become_follower].
  - set (n2 := if _ && role_eqb (n_role n1) PreCandidate then _ else n1).
    assert (H2 : G n1 n2).
    { subst n2. match goal with |- G _ (if ?c then _ else _) => destruct c end;
        [unfold signal_election; gtv|apply G_refl]. }
    eapply G_trans; [eapply G_trans; [exact H1|exact H2]|].
    match goal with |- G _ (if ?c then _ else _) => destruct c end; [apply G_become_leader|apply G_refl].
Qed.

Lemma G_l_ae_reply now n rid peer g q p : G n (fst (l_ae_reply now n rid peer g q p)).
Proof.
  unfold l_ae_reply.
  destruct (_ || _); [apply G_refl|].
  destruct (n_term n <? aer_term p); [cbn [fst]; apply G_become_follower|].
  destruct (negb (ae_term q =? n_term n)); [apply G_refl|].
  set (n1 := if is_voter (conf_of n) peer then bump_round n rid else n).
  set (n2 := if is_voter (conf_of n) peer && has_quorum (conf_of n1) (round_count n1 rid)
             then try_apply_ro now n1 (round_stamp n1 rid) else n1).
  assert (H1 : G n n1) by (subst n1; destruct (is_voter (conf_of n) peer); [apply G_bump_round|apply G_refl]).
  assert (H2 : G n n2).
  { eapply G_trans; [exact H1|]. subst n2.
    destruct (is_voter (conf_of n) peer && has_quorum (conf_of n1) (round_count n1 rid));
      [apply G_try_apply_ro|apply G_refl]. }
  destruct (negb (aer_success p)).
  - destruct (aer_index p <=? n_lii _).
    + eapply G_trans; [exact H2|]. eapply G_trans; [apply G_set_fobj|]. apply G_l_is_send.
    + cbn [fst]. eapply G_trans; [exact H2|apply G_set_fobj].
  - match goal with |- G n (fst (if ?c then _ else _)) => destruct c end; cbn [fst]; [|exact H2].
    eapply G_trans; [exact H2|]. eapply G_trans; [apply G_set_fobj|].
    match goal with |- G _ (if ?c then _ else _) => destruct c end; [apply G_signal_commit|apply G_refl].
Qed.

Lemma G_fold (f : node -> rop -> node) ops : (forall m o, G m (f m o)) -> forall n, G n (fold_left f ops n).
Proof.
  intros Hf. induction ops as [|o ops IH]; intros n; cbn [fold_left]; [apply G_refl|].
  eapply G_trans; [apply Hf|apply IH].
Qed.

(* the read-only loop answers with FRead or FInvalidLease *)
Lemma G_lp_ro now n : G n (lp_ro now n).
Proof.
  unfold lp_ro. set (n0 := n <| n_cv ::= _ |>). assert (H0 : G n n0) by gtv.
  destruct (_ || _); [exact H0|].
  eapply G_trans; [exact H0|]. eapply G_trans; [|apply G_fold].
  - apply G_upd_ro.
  - intros m o. destruct (ro_type o); [apply G_respond|apply G_respond|].
    destruct (lease_valid now m); apply G_respond.
Qed.

(* Submit on a node that is not the leader answers FNotLeader; on the leader nothing is answered yet *)
Lemma G_api_submit now m fid ty p : G m (api_submit now m fid ty p).
Proof.
  unfold api_submit. destruct (negb (role_eqb (n_role m) Leader)); [apply G_respond|].
  destruct ty.
  - eapply G_trans; [|apply G_send_ae_to_peers]. eapply G_trans; [|apply G_upd_pending]. apply G_append.
  - match goal with |- G m (if ?c then _ else _) => destruct c end; [|apply G_upd_ro].
    eapply G_trans; [|apply G_upd_sv]. eapply G_trans; [|apply G_send_ae_to_peers]. apply G_upd_ro.
  - match goal with |- G m (if ?c then _ else _) => destruct c end; [|apply G_upd_ro].
    eapply G_trans; [|apply G_signal_ro]. apply G_upd_ro.
Qed.

Lemma G_api_start now n : G n (api_start now n).
Proof.
  unfold api_start. destruct (negb _); [apply G_refl|].
  match goal with |- G n (fold_left ?f ?l ?n2 <| n_contact := _ |> <| n_role := _ |>) =>
    apply G_trans with n2; [gtv|]; apply G_trans with (fold_left f l n2); [apply G_new_followers|gtv] end.
Qed.

Lemma G_lp_commit now n : G n (lp_commit now n).
Proof.
  unfold lp_commit. set (n0 := n <| n_cv ::= _ |>). assert (H0 : G n n0) by gtv.
  clearbody n0. destruct (negb (role_eqb (n_role n0) Leader)); [exact H0|].
  match goal with |- G n (if ?c then _ else _) => destruct c end; [|exact H0].
  eapply G_trans; [exact H0|]. eapply G_trans; [|apply G_send_ae_to_peers].
  eapply G_trans; [|apply G_signal_apply]. gtv.
Qed.

(* ---- AppendEntries handler ---- *)
Lemma G_ae_pre now n q : G n (ae_pre now n q).
Proof.
  unfold ae_pre.
  set (n1 := n <| n_contact := now |> <| n_leader := Some (ae_leader q) |>).
  assert (H1 : G n n1) by gtv.
  set (n2 := if n_term n1 <? ae_term q then _ else n1).
  assert (H2 : G n1 n2) by (subst n2; destruct (n_term n1 <? ae_term q); [apply G_become_follower|apply G_refl]).
  eapply G_trans; [exact H1|]. eapply G_trans; [exact H2|].
  destruct (_ && _); [apply G_become_follower|apply G_refl].
Qed.

Lemma G_h_append_entries now n q : G n (fst (h_append_entries now n q)).
Proof.
  destruct (role_eqb (n_role n) Shutdown) eqn:E1; [unfold h_append_entries; rewrite E1; apply G_refl|].
  destruct (ae_term q <? n_term n) eqn:E2; [unfold h_append_entries; rewrite E1, E2; apply G_refl|].
  rewrite (ae_unfold now n q E1 E2). cbv zeta.
  pose proof (G_ae_pre now n q) as H3. set (n3 := ae_pre now n q) in *. clearbody n3.
  assert (Hfail : G n (fail Fatal n3)) by (eapply G_trans; [exact H3|apply G_fail]).
  destruct (ae_prev_index q <? n_lii n3); [exact H3|].
  destruct (next_index (n_log n3) <=? ae_prev_index q); [exact H3|].
  destruct ((n_lii n3 =? ae_prev_index q) && negb (n_lit n3 =? ae_prev_term q)); [exact H3|].
  match goal with |- context [fst (match ?c with _ => _ end)] => destruct c as [[idx|]|] end.
  - exact H3.
  - exact Hfail.
  - destruct (ae_scan now n3 (ae_entries q)) as [[n4 ta]|] eqn:Es; [|exact Hfail].
    cbn [fst].
    pose proof (G_ae_scan _ _ _ _ _ Es) as H4. pose proof (G_append ta n4) as H5.
    set (n5 := append_entries n4 ta) in *. clearbody n5.
    assert (H : G n n5) by (eapply G_trans; [exact H3|eapply G_trans; [exact H4|exact H5]]).
    match goal with |- G n (if ?c then _ else _) => destruct c end; [|exact H].
    eapply G_trans; [exact H|]. eapply G_trans; [|apply G_signal_apply]. gtv.
Qed.

(* ---- crash and restart: the answers already given stay (RE_crash, RE_restore) ---- *)
Lemma G_restart now m : G m (restart_after_crash now m).
Proof.
  unfold restart_after_crash.
  pose proof (RE_crash m) as HC. set (x := crash m) in *. clearbody x.
  pose proof (RE_restore x) as H1. set (y := restore x) in *. clearbody y.
  eapply G_trans; [|apply G_api_start]. eapply G_trans; [|apply G_new_opmanager].
  eapply G_trans; apply RE_G; eassumption.
Qed.

(* ================= node level: the apply loop ================= *)
Lemma G_lp_apply_one now n : G n (lp_apply_one now n).
Proof.
  unfold lp_apply_one. destruct (log_get (n_log n) (n_applied n + 1)) as [e|]; [|apply G_fail].
  cbv zeta.
  set (n1 := match e_kind e with KNoop => n | _ => _ end).
  assert (H1 : G n n1).
  { subst n1. destruct (e_kind e) as [|p|c].
    - apply G_refl.
    - set (m := n <| n_fsm := n_fsm n ++ [p] |> <| n_applies ::= fun l => l ++ [(e_index e, e_term e, p)] |>).
      assert (Hm : G n m) by gtv. clearbody m.
      destruct (lookup (e_index e) (n_pending m)) as [fid|]; [|exact Hm].
      eapply G_trans; [exact Hm|]. eapply G_trans; [|apply G_respond]. apply G_upd_pending.
    - pose proof (G_apply_configuration now n c) as HA.
      set (a := apply_configuration now n c) in *. clearbody a.
      destruct (n_cfg_fid a) as [f|]; [|exact HA].
      eapply G_trans; [exact HA|]. apply G_trans with (respond a f (FConf (conf_of a))); [apply G_respond|gtv]. }
  clearbody n1. eapply G_trans; [exact H1|].
  set (n2 := n1 <| n_applied ::= N.succ |>). assert (H2 : G n1 n2) by gtv. clearbody n2.
  eapply G_trans; [exact H2|]. destruct (need_snapshot n2); [apply G_signal_snapshot|apply G_refl].
Qed.

Lemma G_lp_apply_run now fuel : forall n, G n (lp_apply_run fuel now n).
Proof.
  induction fuel as [|f IH]; intros n; cbn [lp_apply_run]; [apply G_refl|].
  match goal with |- G n (if ?c then _ else _) => destruct c end; [|apply G_refl].
  eapply G_trans; [apply G_lp_apply_one|apply IH].
Qed.

Lemma G_lp_apply now n : G n (lp_apply now n).
Proof.
  unfold lp_apply. set (n0 := n <| n_cv ::= _ |>).
  assert (H0 : G n n0) by gtv. clearbody n0.
  eapply G_trans; [exact H0|].
  pose proof (G_lp_apply_run now (N.to_nat (n_commit n0 - n_applied n0)) n0) as H1.
  set (n1 := lp_apply_run _ now n0) in *. clearbody n1.
  eapply G_trans; [exact H1|].
  destruct (role_eqb (n_role n1) Leader); [apply G_signal_ro|apply G_refl].
Qed.

(* ================= world level ================= *)
Definition GR (w : world) (ns' : list node) : Prop :=
  forall n', In n' ns' -> exists n, In n (w_nodes w) /\ n_id n' = n_id n /\ G n n'.

Lemma GR_same w : GR w (w_nodes w).
Proof. intros n' Hn'. exists n'. split; [exact Hn'|]. split; [reflexivity|apply G_refl]. Qed.

Lemma GR_set_node w w1 m m' : w_nodes w1 = w_nodes w -> In m (w_nodes w) -> n_id m' = n_id m -> G m m' ->
  GR w (w_nodes (set_node w1 m')).
Proof.
  intros E Hm Eid HT n' Hn'. destruct (in_set_node _ _ _ Hn') as [->|[H _]]; [exists m; auto|].
  rewrite E in H. exists n'. split; [exact H|]. split; [reflexivity|apply G_refl].
Qed.

Lemma GR_on_node w w1 id f : w_nodes w1 = w_nodes w ->
  (forall m, In m (w_nodes w) -> n_id (f m) = n_id m /\ G m (f m)) -> GR w (w_nodes (on_node w1 id f)).
Proof.
  intros E Hf. unfold on_node. destruct (get_node w1 id) as [m|] eqn:Gn; [|rewrite E; apply GR_same].
  destruct (Votes.get_node_in _ _ _ Gn) as [Hm _]. rewrite E in Hm. destruct (Hf m Hm) as [Eid HT].
  apply GR_set_node with (m := m); assumption.
Qed.

Lemma gq m m' : Q m m' -> G m m' -> n_id m' = n_id m /\ G m m'.
Proof. intros HQ HF. split; [apply (q_id _ _ HQ)|exact HF]. Qed.

Lemma gq_cond (b : bool) m m' : Q m m' -> G m m' -> n_id (if b then m' else m) = n_id m /\ G m (if b then m' else m).
Proof. intros HQ HF. destruct b; [apply gq; assumption|split; [reflexivity|apply G_refl]]. Qed.

Ltac gsame := match goal with |- GR ?w _ => exact (GR_same w) end.

Section Steps.
Variable C : config.

Lemma GR_step_deliver w c dup : VInv w -> NSW w -> In c (w_calls w) -> GR w (w_nodes (step_deliver w c dup)).
Proof.
  intros HV HNS Hc. unfold step_deliver. destruct (get_node w (c_dst c)) as [n|] eqn:Gn.
  2:{ destruct dup; gsame. }
  destruct (Votes.get_node_in _ _ _ Gn) as [Hn Eid]. pose proof (vi_coh w HV n Hn) as Hcoh.
  destruct (n_frozen n) eqn:Fz; [destruct dup; gsame|].
  assert (H1 : GR w (w_nodes (set_node w (fst (fst (run_handler (w_now w) n (c_req c))))))).
  { pose proof (ns_calls w HNS c Hc) as Hq. unfold ns_call in Hq.
    destruct (c_req c) as [q|q|q] eqn:Eq; [| |contradiction].
    - unfold run_handler. destruct (h_append_entries (w_now w) n q) as [n1 p] eqn:EH. cbn [fst].
      replace n1 with (fst (h_append_entries (w_now w) n q)) by (rewrite EH; reflexivity).
      apply GR_set_node with (m := n); [reflexivity|exact Hn|apply (Votes.r_id _ _ (R_append_entries (w_now w) n q Hcoh))|].
      apply G_h_append_entries.
    - unfold run_handler. destruct (h_request_vote (w_now w) n q) as [n1 p] eqn:EH. cbn [fst].
      replace n1 with (fst (h_request_vote (w_now w) n q)) by (rewrite EH; reflexivity).
      apply GR_set_node with (m := n); [reflexivity|exact Hn|apply (Votes.r_id _ _ (R_request_vote (w_now w) n q Hcoh))|].
      apply G_h_request_vote. }
  destruct (run_handler (w_now w) n (c_req c)) as [[n1 resp] parked]. cbn [fst] in H1.
  destruct dup; [exact H1|].
  destruct (n_frozen n1); [exact H1|].
  destruct resp as [p|]; exact H1.
Qed.

Lemma GR_step_reply w c failed : VInv w -> NSW w -> In c (w_calls w) -> GR w (w_nodes (step_reply w c failed)).
Proof.
  intros HV HNS Hc. unfold step_reply.
  set (w0 := set_call w (c <| c_state := CDone |>)).
  assert (E0 : w_nodes w0 = w_nodes w) by reflexivity.
  assert (H0 : GR w (w_nodes w0)) by (rewrite E0; gsame).
  destruct (get_node w (c_src c)) as [n|] eqn:Gn; [|exact H0].
  destruct (Votes.get_node_in _ _ _ Gn) as [Hn Eid]. pose proof (vi_coh w HV n Hn) as Hcoh.
  destruct (n_frozen n) eqn:Fz; [exact H0|].
  pose proof (ns_calls w HNS c Hc) as Hq. unfold ns_call in Hq.
  destruct (c_req c) as [q|q|q] eqn:Eq; [| |contradiction].
  - destruct (if failed then None else c_resp c) as [[p|p|p]|]; try exact H0.
    pose proof (G_l_ae_reply (w_now w) n (c_round c) (c_dst c) (c_fgen c) q p) as HF.
    pose proof (R_ae_reply (w_now w) n (c_round c) (c_dst c) (c_fgen c) q p Hcoh) as HR.
    destruct (l_ae_reply (w_now w) n (c_round c) (c_dst c) (c_fgen c) q p) as [n1 o]. cbn [fst snd] in *.
    assert (H1 : GR w (w_nodes (set_node w0 n1))).
    { apply GR_set_node with (m := n); [exact E0|exact Hn|apply (Votes.r_id _ _ HR)|exact HF]. }
    destruct o; exact H1.
  - destruct (if failed then None else c_resp c) as [[p|p|p]|]; try exact H0.
    apply GR_set_node with (m := n); [exact E0|exact Hn|apply (Votes.r_id _ _ (R_rv_reply _ _ _ _ _ _ _ Hcoh))|].
    apply G_l_rv_reply.
Qed.

Lemma GR_step_task w m : In m (w_nodes w) -> GR w (w_nodes (step_task w m)).
Proof.
  intros Hm. unfold step_task. destruct (n_tasks m) as [|t rest] eqn:Et; [gsame|].
  set (n0 := m <| n_tasks := rest |>).
  assert (Q0 : Q m n0) by qtv. assert (F0 : G m n0) by gtv.
  assert (Hsec : forall m', Q m m' -> G m m' -> GR w (w_nodes (set_node w m'))).
  { intros m' HQ HF. destruct (gq m m' HQ HF) as [Eid HT]. apply GR_set_node with (m := m); auto. }
  destruct t as [rid peer pv|rid peer].
  - destruct (l_rv_send n0 rid peer pv) as [q|]; apply (Hsec n0 Q0 F0).
  - pose proof (G_l_ae_send n0 peer) as HF. pose proof (Q_ae_send n0 peer) as HQ.
    destruct (l_ae_send n0 peer) as [n1 sn]. cbn [fst] in *.
    assert (H1 : GR w (w_nodes (set_node w n1))).
    { apply Hsec; [apply Q_trans with n0; assumption|apply G_trans with n0; assumption]. }
    destruct sn as [|q|q]; exact H1.
Qed.

Theorem step_GR w l : static_label l = true -> nosnap_label l = true -> ALL C w -> GR w (w_nodes (step w l)).
Proof.
  intros Hst Hns [HW HX HU HNS HTA HL]. pose proof (x_v C w HX) as HV.
  destruct l; cbn [step]; try discriminate Hst; try discriminate Hns.
  - (* LTick *) gsame.
  - (* LElection *) apply GR_on_node; [reflexivity|]. intros m _. apply gq_cond; [apply Q_signal_election|apply G_signal_election].
  - (* LHeartbeat *) apply GR_on_node; [reflexivity|]. intros m _. apply gq_cond; [apply Q_heartbeat|apply G_l_heartbeat].
  - (* LDeliver *) destruct (get_call w c) as [cl|] eqn:Gn; [|gsame]. destruct (VoteRecords.get_call_in _ _ _ Gn) as [Hin _].
    destruct (c_state cl) eqn:Es; try gsame. apply GR_step_deliver; auto.
  - (* LDup *) destruct (get_call w c) as [cl|] eqn:Gn; [|gsame]. destruct (VoteRecords.get_call_in _ _ _ Gn) as [Hin _].
    apply GR_step_deliver; auto.
  - (* LReply *) destruct (get_call w c) as [cl|] eqn:Gn; [|gsame]. destruct (VoteRecords.get_call_in _ _ _ Gn) as [Hin _].
    destruct (c_state cl) eqn:Es; try gsame. apply GR_step_reply; auto.
  - (* LFail *) destruct (get_call w c) as [cl|] eqn:Gn; [|gsame]. destruct (VoteRecords.get_call_in _ _ _ Gn) as [Hin _].
    destruct (c_state cl) eqn:Es; try gsame; apply GR_step_reply; auto.
  - (* LSubmit *) unfold fresh_fid. apply GR_on_node; [reflexivity|]. intros m _.
    destruct (n_frozen m); [split; [reflexivity|apply G_refl]|apply gq; [apply Q_submit|apply G_api_submit]].
  - (* LCrash: the answers stay *) change (GR w (w_nodes (on_node w n crash))). apply GR_on_node; [reflexivity|]. intros m _.
    split; [reflexivity|apply RE_G, RE_crash].
  - (* LRestart *) apply GR_on_node; [reflexivity|]. intros m Hm.
    destruct (role_eqb (n_role m) Shutdown); [|split; [reflexivity|apply G_refl]].
    destruct (S_restart (w_now w) m) as (Eid & _).
    split; [exact Eid|apply G_restart].
  - (* LBudget *) apply GR_on_node; [reflexivity|]. intros m _. apply gq; [apply Q_upd_budget|apply G_upd_budget].
  - (* LPad *) apply GR_on_node; [reflexivity|]. intros m _. apply gq; [qtv|apply G_upd_pad].
  - (* LDefer *) apply GR_on_node; [reflexivity|]. intros m _. apply gq; [qtv|apply G_upd_tasks].
  - (* LRoMissed *) apply GR_on_node; [reflexivity|]. intros m _. apply gq; [qtv|apply G_upd_cv].
  - (* LTask *) destruct (get_node w n) as [m|] eqn:Gn; [|gsame]. destruct (is_up m) eqn:Hup; [|gsame].
    destruct (Votes.get_node_in _ _ _ Gn) as [Hm _]. apply GR_step_task; auto.
  - (* LElectionRun *) apply GR_on_node; [reflexivity|]. intros m Hm. pose proof (vi_coh w HV m Hm) as Hc.
    destruct (is_up m && cv_election (n_cv m)); [|split; [reflexivity|apply G_refl]].
    split; [apply (Votes.r_id _ _ (R_election (w_now w) m Hc))|apply G_l_election].
  - (* LCommit *) apply GR_on_node; [reflexivity|]. intros m _. apply gq_cond; [apply Q_commit|apply G_lp_commit].
  - (* LApply: the only step that answers FOp *) apply GR_on_node; [reflexivity|]. intros m _.
    destruct (is_up m && cv_apply (n_cv m)); [|split; [reflexivity|apply G_refl]].
    split; [apply (q_id _ _ (Q_apply (w_now w) m))|apply (G_lp_apply (w_now w) m)].
  - (* LRo *) apply GR_on_node; [reflexivity|]. intros m _. apply gq_cond; [apply Q_ro|apply G_lp_ro].
  - (* LInstallResume *) destruct (get_node w n) as [m|] eqn:Gn; [|gsame].
    destruct (Votes.get_node_in _ _ _ Gn) as [Hm _]. rewrite (install_resume_ns m (ns_nodes w HNS m Hm)). gsame.
Qed.

End Steps.

(* ================= the theorems ================= *)
Theorem step_answers C w l : NoDup (member_ids C) -> static_label l = true -> nosnap_label l = true -> ALL C w ->
  forall n', In n' (w_nodes (step w l)) -> exists n, In n (w_nodes w) /\ n_id n' = n_id n /\ G n n'.
Proof. intros _ Hst Hns HA n' Hn'. exact (step_GR C w l Hst Hns HA n' Hn'). Qed.

Definition onceW (w : world) : Prop := forall n, In n (w_nodes w) -> once n.

Lemma onceW_run C : NoDup (member_ids C) -> forall ls w,
  static ls = true -> nosnap ls = true -> ALL C w -> onceW w -> onceW (run w ls).
Proof.
  intros HC. induction ls as [|l ls IH]; intros w Hs Hn HA HW; [exact HW|].
  destruct (static_cons _ _ Hs) as [S1 S2]. destruct (nosnap_cons _ _ Hn) as [N1 N2].
  cbn [run fold_left]. apply IH; [exact S2|exact N2| |].
  - assert (Hs' : static [l] = true) by (destruct l; cbn [static] in Hs |- *; try discriminate Hs; reflexivity).
    assert (Hn' : nosnap [l] = true) by (destruct l; cbn [nosnap] in Hn |- *; try discriminate Hn; reflexivity).
    exact (ALL_run C [l] HC w Hs' Hn' HA).
  - intros n' Hn'. destruct (step_answers C w l HC S1 N1 HA n' Hn') as (n & Hin & _ & _ & Ho).
    apply Ho, HW, Hin.
Qed.

Theorem answers_once ids boot et ld ls : static ls = true -> nosnap ls = true ->
  forall n, In n (w_nodes (run (init_world ids boot et ld) ls)) -> once n.
Proof.
  intros Hs Hn.
  apply (onceW_run (bootconf boot) (bootconf_nodup boot) ls _ Hs Hn (ALL_init ids boot et ld)).
  intros n Hin. unfold once. rewrite (init_results ids boot et ld n Hin). constructor.
Qed.

(* the history of a node along a run only grows: nothing answered is ever retracted or changed *)
Print Assumptions step_answers.
Print Assumptions answers_once.
