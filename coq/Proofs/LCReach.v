(* Leader completeness (C07): the invariant holds in every reachable world of an execution without membership
   changes and snapshots; hence an entry acknowledged by a majority in its own term is held by every leader of
   a later term. *)
From Coq Require Import Classical.
From RaftV Require Import Cluster.World Cluster.Statements Proofs.Frame Proofs.RVSpec Proofs.AESpec.
From RaftV Require Import Proofs.ConfNode Proofs.ConfStatic Proofs.Votes Proofs.VoteRecords Proofs.Names.
From RaftV Require Import Proofs.ElectBook Proofs.ElectWorld Proofs.ElectRun Proofs.ElectSafety.
From RaftV Require Import Proofs.LogDefs Proofs.LogSeg Proofs.LogUni Proofs.LogInv Proofs.NoSnap Proofs.TaePeer Proofs.LogRun Proofs.LogMatching
                          Proofs.StepCases Proofs.SortedTerms Proofs.ReachInd Proofs.ReqTerm Proofs.TermLe Proofs.MatchAck Proofs.Tails
                          Proofs.LCDefs Proofs.LCHist Proofs.LCCore Proofs.LCStep Proofs.LCStep2 Proofs.LCCtx Proofs.LCtt Proofs.LCClauses.
Open Scope N_scope.

Lemma facts_reach ids boot et ld ls : static ls = true -> nosnap ls = true ->
  FACTS (bootconf boot) (run (init_world ids boot et ld) ls).
Proof.
  intros Hs Hn. destruct (tails_reachable ids boot et ld ls Hs Hn) as (HLN & [HRT _] & [HCD HRV]). cbn zeta in *.
  destruct (leader_tail ids boot et ld ls Hs Hn) as [Hln Hrq].
  constructor.
  - apply (ALL_run (bootconf boot) ls (bootconf_nodup boot) _ Hs Hn (ALL_init ids boot et ld)).
  - apply SRT_reach; assumption.
  - apply RTL_reach; assumption.
  - apply RTE_reach; assumption.
  - exact HRT.
  - exact HCD.
  - intros n Hin. apply (ptle_run ids boot et ld ls n Hin).
  - exact HRV.
  - exact Hln.
  - exact Hrq.
  - intros a Ha. apply (match_backed ids boot et ld ls Hs Hn a Ha).
Qed.

Lemma no_entry_init ids boot et ld ej : ~ is_entry (init_world ids boot et ld) ej.
Proof.
  intros (s & Hs & Hh & Hi). destruct Hs as [(n & Hn & ->)|(k & q & [] & _)].
  unfold init_world in Hn. cbn [w_nodes] in Hn. apply in_map_iff in Hn. destruct Hn as (id & <- & _).
  destruct (init_node_log id boot et ld) as [_ El]. cbn zeta in El. unfold holds in Hh. rewrite El in Hh.
  destruct (eget_range _ _ _ Hh) as [_ Ht]. unfold top in Ht. destruct (existsb (N.eqb id) boot); cbn in Ht; lia.
Qed.

Lemma LCI_init ids boot et ld : LCI (bootconf boot) (init_world ids boot et ld).
Proof.
  constructor; try (intros ej; intros; exfalso; eapply no_entry_init; eassumption).
  intros k q [].
Qed.

Lemma static_snoc ls l : static (ls ++ [l]) = true -> static ls = true /\ static_label l = true.
Proof.
  intros H. destruct (static_app _ _ H) as [A B]. split; [exact A|]. destruct (static_cons _ _ B) as [D _]. exact D.
Qed.

Lemma nosnap_app a b : nosnap (a ++ b) = true -> nosnap a = true /\ nosnap b = true.
Proof.
  induction a as [|l a IH]; cbn [app]; intros H; [split; [reflexivity|exact H]|].
  destruct (nosnap_cons _ _ H) as [H1 H2]. destruct (IH H2) as [A B]. split; [|exact B].
  destruct l; cbn [nosnap] in *; try exact A; discriminate H1.
Qed.

Lemma nosnap_snoc ls l : nosnap (ls ++ [l]) = true -> nosnap ls = true /\ nosnap_label l = true.
Proof.
  intros H. destruct (nosnap_app _ _ H) as [A B]. split; [exact A|]. destruct (nosnap_cons _ _ B) as [D _]. exact D.
Qed.

Theorem LCI_reach ids boot et ld ls : static ls = true -> nosnap ls = true ->
  LCI (bootconf boot) (run (init_world ids boot et ld) ls).
Proof.
  induction ls as [|l ls IH] using rev_ind; intros Hs Hn; [apply LCI_init|].
  destruct (static_snoc _ _ Hs) as [S1 S2]. destruct (nosnap_snoc _ _ Hn) as [N1 N2].
  unfold run. rewrite fold_left_app. cbn [fold_left]. fold (run (init_world ids boot et ld) ls).
  apply step_LCI. constructor; auto.
  - apply bootconf_nodup.
  - apply facts_reach; assumption.
  - assert (E : step (run (init_world ids boot et ld) ls) l = run (init_world ids boot et ld) (ls ++ [l])).
    { unfold run. rewrite fold_left_app. reflexivity. }
    rewrite E. apply facts_reach; assumption.
Qed.

(* ---------------- Leader completeness for acknowledged entries ---------------- *)
Theorem committed_in_later_leaders ids boot et ld ls ej L :
  static ls = true -> nosnap ls = true ->
  let w := run (init_world ids boot et ld) ls in
  is_entry w ej -> committed (bootconf boot) (w_calls w) ej ->
  In L (w_nodes w) -> n_role L = Leader -> e_term ej < n_term L ->
  In ej (n_log L).
Proof.
  intros Hs Hn. cbn zeta. intros He Hc HL Hrole HT.
  pose proof (LCI_reach ids boot et ld ls Hs Hn) as HI.
  pose proof (lc_ic _ _ HI ej L He (committed_not_dead _ _ ej Hc) HL Hrole HT) as Hh.
  destruct (ns_nodes _ (a_ns _ _ (f_all _ _ (facts_reach ids boot et ld ls Hs Hn))) L HL) as (_ & _ & _ & _ & _ & (r & Er)).
  rewrite Er in *. right. apply (eget_in_log r _ ej Hh).
Qed.

Print Assumptions committed_in_later_leaders.
