(* Log matching (C06): the AppendEntries request a leader builds is a piece of its own log. *)
From RaftV Require Import Cluster.World Proofs.Frame Proofs.AESpec Proofs.LogDefs Proofs.LogSeg Proofs.LogAccept.
Open Scope N_scope.

Lemma consecutive_skipn k : forall i es, consecutive i es -> consecutive (i + N.of_nat k) (skipn k es).
Proof.
  induction k as [|k IH]; intros i es H.
  - cbn [skipn]. replace (i + N.of_nat 0) with i by lia. exact H.
  - destruct es as [|e es]; [exact I|]. cbn [skipn]. destruct H as [_ H].
    replace (i + N.of_nat (S k)) with (i + 1 + N.of_nat k) by lia. apply IH, H.
Qed.

Lemma nth_error_skipn_add {A} k : forall (l : list A) j, nth_error (skipn k l) j = nth_error l (k + j).
Proof.
  induction k as [|k IH]; intros l j; [reflexivity|].
  destruct l as [|x l]; [destruct j; reflexivity|]. cbn [skipn Nat.add nth_error]. apply IH.
Qed.

Lemma log_from_shape r nx : 1 <= nx ->
  log_from (entry0 :: r) 0 nx = skipn (N.to_nat (nx - 1)) r \/ log_from (entry0 :: r) 0 nx = [].
Proof.
  intros H. unfold log_from, first_index. cbn [hd e_index entry0].
  destruct ((0 <? nx) && (nx <? next_index (entry0 :: r))); [left|right; reflexivity].
  replace (N.to_nat (nx - 0)) with (S (N.to_nat (nx - 1))) by lia. reflexivity.
Qed.

Lemma ae_send_seg n peer n1 q :
  ns_node n -> wf_seg (seg_of_log (n_log n)) -> l_ae_send n peer = (n1, SentAE q) ->
  wf_seg (seg_of_req q) /\
  (forall i e, eget (seg_of_req q) i = Some e -> eget (seg_of_log (n_log n)) i = Some e) /\
  tget (seg_of_log (n_log n)) (ae_prev_index q) = Some (ae_prev_term q).
Proof.
  intros (Hlii & Hlit & _ & _ & _ & r & Hr) Hwf H. rewrite Hr in *.
  unfold l_ae_send in H. rewrite Hlii, Hlit, Hr in H.
  destruct (negb (role_eqb (n_role n) Leader) || negb (is_member (conf_of n) peer)) eqn:E0; [discriminate|].
  remember (f_next (get_follower n peer)) as nx eqn:Enx.
  destruct (N.leb_spec nx 0) as [H1|H1].
  { destruct (l_is_send n peer) as [n2 [q2|]]; discriminate. }
  rewrite (next_index_log r Hwf) in H.
  destruct (N.ltb_spec (N.of_nat (length r) + 1) nx) as [H2|H2]; [discriminate|].
  injection H as _ <-.
  replace (N.max (nx - 1) 0) with (nx - 1) by lia.
  unfold seg_of_req. cbn [ae_prev_index ae_prev_term ae_entries].
  pose proof Hwf as Hc. unfold wf_seg, seg_of_log in Hc. cbn [sg_base sg_es tl] in Hc.
  split; [|split].
  - unfold wf_seg. cbn [sg_base sg_es].
    destruct (log_from_shape r nx) as [-> | ->]; [lia| |exact I].
    replace (nx - 1 + 1) with (0 + 1 + N.of_nat (N.to_nat (nx - 1))) by lia.
    apply consecutive_skipn, Hc.
  - intros i e. unfold eget. cbn [sg_base sg_es seg_of_log tl].
    destruct (N.ltb_spec (nx - 1) i) as [Hi|Hi]; [|discriminate].
    destruct (N.ltb_spec 0 i); [|lia].
    destruct (log_from_shape r nx) as [-> | ->]; [lia| |].
    + rewrite nth_error_skipn_add. intros <-. f_equal. lia.
    + destruct (N.to_nat (i - (nx - 1) - 1)); discriminate.
  - destruct (N.ltb_spec 0 (nx - 1)) as [Hp|Hp]; cbn [andb].
    + destruct (N.ltb_spec (nx - 1) (N.of_nat (length r) + 1)) as [Hq|Hq]; [|lia].
      destruct (eget_defined (seg_of_log (entry0 :: r)) (nx - 1)) as (e & Ee).
      { cbn [seg_of_log sg_base]. exact Hp. }
      { rewrite top_log. lia. }
      rewrite (tget_entry _ _ _ Ee). rewrite eget_log in Ee by (exists r; reflexivity).
      rewrite Ee. reflexivity.
    + replace (nx - 1) with 0 by lia. reflexivity.
Qed.

Print Assumptions ae_send_seg.
