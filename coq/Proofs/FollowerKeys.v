(* The leader's table r.followers never holds the same peer twice: over EVERY step of
   EVERY node - handlers, timers, replies, client calls, membership changes, snapshots,
   crashes at any storage write, restarts - the keys of n_followers are pairwise distinct.
   The invariant carried is the stronger "the keys are strictly increasing" (ssorted of
   Proofs/ConfStatic.v): the table is only ever written by [put] (sorted insert / replace),
   [filter], maps that keep the keys, and [] (crash, start).
   Same sweep as Proofs/MatchAck.v / Proofs/Votes.v / Proofs/TermLe.v. *)
From RaftV Require Import Cluster.World Proofs.Frame Proofs.ConfStatic Proofs.Votes.
Open Scope N_scope.

Definition fk_ok (n : node) : Prop := NoDup (map fst (n_followers n)).

(* ================= association lists ================= *)
Lemma ssorted_filter {V} (k : N * V -> bool) : forall l, ssorted l -> ssorted (filter k l).
Proof.
  induction l as [|[a v] l IH]; intros H; cbn [filter]; [exact I|].
  destruct H as [H1 H2]. destruct (k (a, v)); [|apply IH, H2].
  split; [|apply IH, H2]. intros x Hx. apply H1.
  apply in_map_iff in Hx. destruct Hx as (y & E & Hy). apply filter_In in Hy.
  apply in_map_iff. exists y. split; [exact E|apply Hy].
Qed.

Lemma ssorted_map_fst {V} (f : N * V -> N * V) :
  (forall p, fst (f p) = fst p) -> forall l, ssorted l -> ssorted (map f l).
Proof.
  intros Hf. induction l as [|[a v] l IH]; intros H; cbn [map]; [exact I|].
  destruct H as [H1 H2]. pose proof (Hf (a, v)) as E.
  destruct (f (a, v)) as [a' v']. cbn [fst] in E. subst a'.
  split; [|apply IH, H2]. intros x Hx. apply H1.
  rewrite map_map in Hx. apply in_map_iff in Hx. destruct Hx as (y & E & Hy).
  rewrite Hf in E. apply in_map_iff. exists y. split; [exact E|exact Hy].
Qed.

(* ================= node level ================= *)
Definition FS (n : node) : Prop := ssorted (n_followers n).
Definition FP (m m' : node) : Prop := FS m -> FS m'.

Lemma FS_fk n : FS n -> fk_ok n.
Proof. apply ssorted_nodup. Qed.

Lemma FP_refl m : FP m m. Proof. intros H; exact H. Qed.
Lemma FP_trans a b c : FP a b -> FP b c -> FP a c.
Proof. unfold FP. auto. Qed.
Lemma FP_of_eq m m' : n_followers m' = n_followers m -> FP m m'.
Proof. intros E H. unfold FS in *. rewrite E. exact H. Qed.

(* the base node is abstracted first: conversion on large node terms is slow *)
Ltac fpf :=
  match goal with
  | |- FP ?x _ => first [ is_var x; apply FP_of_eq; reflexivity
                        | let y := fresh "base" in generalize x; intro y; apply FP_of_eq; reflexivity
                        | apply FP_of_eq; reflexivity ]
  end.

Lemma FP_of_map m m' (f : nid * fstate -> nid * fstate) :
  n_followers m' = map f (n_followers m) -> (forall p, fst (f p) = fst p) -> FP m m'.
Proof. intros E Hf H. unfold FS in *. rewrite E. apply ssorted_map_fst; assumption. Qed.

Lemma FP_of_put m m' id f : n_followers m' = put id f (n_followers m) -> FP m m'.
Proof. intros E H. unfold FS in *. rewrite E. apply put_ssorted, H. Qed.

Lemma FP_of_filter m m' k : n_followers m' = filter k (n_followers m) -> FP m m'.
Proof. intros E H. unfold FS in *. rewrite E. apply ssorted_filter, H. Qed.

Lemma FS_of_nil m : n_followers m = [] -> FS m.
Proof. intros E. unfold FS. rewrite E. exact I. Qed.
Lemma FP_of_nil m m' : n_followers m' = [] -> FP m m'.
Proof. intros E _. apply FS_of_nil, E. Qed.

(* ---------------- Handlers.v ---------------- *)
Lemma FP_tick n : FP n (snd (tick_write n)).
Proof.
  unfold tick_write. destruct (n_frozen n); [apply FP_refl|].
  destruct (n_budget n) as [k|]; [|apply FP_refl]. destruct (k =? 0); cbn [snd]; fpf.
Qed.

Lemma FP_write (f : node -> node) n :
  (forall m, FP m (f m)) -> FP n (let (ok, n1) := tick_write n in if ok then f n1 else n1).
Proof.
  intros Hf. pose proof (FP_tick n) as H. destruct (tick_write n) as [ok n1]. cbn [snd] in H.
  destruct ok; [|exact H]. eapply FP_trans; [exact H|apply Hf].
Qed.

Lemma FP_persist n : FP n (persist n).
Proof. unfold persist. apply FP_write. intros m. fpf. Qed.
Lemma FP_truncate n i : FP n (truncate_log n i).
Proof. unfold truncate_log. apply FP_write. intros m. fpf. Qed.
Lemma FP_compact n i : FP n (compact_log n i).
Proof. unfold compact_log. apply FP_write. intros m. fpf. Qed.
Lemma FP_discard n i t : FP n (discard_log n i t).
Proof. unfold discard_log. apply FP_write. intros m. fpf. Qed.
Lemma FP_close_snapshot n s : FP n (close_snapshot n s).
Proof. unfold close_snapshot. apply FP_write. intros m. fpf. Qed.

Lemma FP_append es : forall n, FP n (append_entries n es).
Proof.
  induction es as [|e es IH]; intros n; cbn [append_entries]; [apply FP_refl|].
  pose proof (FP_tick n) as H. destruct (tick_write n) as [ok n1]. cbn [snd] in H.
  destruct ok; [|exact H]. eapply FP_trans; [exact H|]. eapply FP_trans; [|apply IH]. fpf.
Qed.

Lemma FP_fail o n : FP n (fail o n).
Proof. unfold fail. destruct (n_out n); [fpf|apply FP_refl|apply FP_refl]. Qed.

Lemma FP_respond n f r : FP n (respond n f r).
Proof. unfold respond. destruct (n_frozen n); [apply FP_refl|]. destruct (existsb _ _); [apply FP_refl|fpf]. Qed.
Lemma FP_respond_all fids : forall n r, FP n (respond_all n fids r).
Proof.
  induction fids as [|f fids IH]; intros n r; [apply FP_refl|].
  cbn [respond_all fold_left]. fold (respond_all (respond n f r) fids r).
  eapply FP_trans; [apply FP_respond|apply IH].
Qed.
Lemma FP_new_opmanager now n : FP n (new_opmanager now n). Proof. fpf. Qed.
Lemma FP_notify n : FP n (notify_lost_leadership n).
Proof. unfold notify_lost_leadership. eapply FP_trans; apply FP_respond_all. Qed.
Lemma FP_cancel n : FP n (cancel_conf_change n).
Proof.
  unfold cancel_conf_change. destruct (n_cfg_fid n); [|apply FP_refl].
  eapply FP_trans; [apply FP_respond|fpf].
Qed.

Lemma FP_new_follower n id nx : FP n (new_follower n id nx).
Proof.
  apply (FP_of_put n _ id {| f_next := nx; f_match := 0; f_snap := None; f_gen := n_fgen n |}). reflexivity.
Qed.

Lemma FP_new_followers nx ids : forall n, FP n (fold_left (fun m id => new_follower m id nx) ids n).
Proof.
  induction ids as [|id ids IH]; intros n; cbn [fold_left]; [apply FP_refl|].
  eapply FP_trans; [apply FP_new_follower|apply IH].
Qed.

Lemma FP_reset n : FP n (reset_snapshot_files n).
Proof.
  apply (FP_of_map n _ (fun p => (fst p, snd p <| f_snap := None |>))); [reflexivity|]. intros p. reflexivity.
Qed.

Lemma FP_become_follower now n l t : FP n (become_follower now n l t).
Proof.
  unfold become_follower.
  eapply FP_trans; [|apply FP_cancel]. eapply FP_trans; [|apply FP_new_opmanager].
  eapply FP_trans; [|apply FP_notify]. eapply FP_trans; [|apply FP_reset].
  eapply FP_trans; [|apply FP_persist]. fpf.
Qed.

Lemma FP_stepdown now n : FP n (stepdown now n).
Proof.
  unfold stepdown. eapply FP_trans; [|apply FP_cancel]. eapply FP_trans; [|apply FP_new_opmanager].
  eapply FP_trans; [|apply FP_notify]. fpf.
Qed.

Lemma FP_next_configuration now n next : FP n (next_configuration now n next).
Proof.
  unfold next_configuration. destruct next as [nx|]; [|apply FP_fail].
  set (n1 := if is_member nx (n_id n) then n else _).
  assert (H1 : FP n n1).
  { subst n1. destruct (is_member nx (n_id n)); [apply FP_refl|].
    eapply FP_trans; [|apply FP_reset]. destruct (role_eqb (n_role n) Leader); [apply FP_stepdown|apply FP_refl]. }
  clearbody n1. eapply FP_trans; [exact H1|].
  match goal with |- FP n1 (fold_left ?f ?l ?n2 <| n_conf := ?c |>) =>
    apply FP_trans with n2; [|apply FP_trans with (fold_left f l n2); [apply FP_new_followers|]] end.
  - eapply FP_of_filter. reflexivity.
  - fpf.
Qed.

Lemma FP_apply_configuration now n c : FP n (apply_configuration now n c).
Proof.
  unfold apply_configuration.
  assert (H : FP n (next_configuration now n (Some c) <| n_cconf := Some c |>)).
  { eapply FP_trans; [apply FP_next_configuration|]. fpf. }
  destruct (n_cconf n) as [cc|]; [|exact H]. destruct (c_index c <=? c_index cc); [apply FP_refl|exact H].
Qed.

(* ---- AppendEntries ---- *)
Lemma FP_ae_scan now es : forall n n4 l, ae_scan now n es = Some (n4, l) -> FP n n4.
Proof.
  induction es as [|e es IH]; intros n n4 l H; cbn [ae_scan] in H.
  - injection H as <- _. apply FP_refl.
  - destruct (last_index (n_log n) <? e_index e); [injection H as <- _; apply FP_refl|].
    destruct (log_get (n_log n) (e_index e)) as [ex|]; [|discriminate].
    destruct ((e_index ex =? e_index e) && negb (e_term ex =? e_term e)).
    + injection H as <- _.
      destruct (e_index e <=? c_index (conf_of (truncate_log n (e_index e)))).
      * eapply FP_trans; [apply FP_truncate|apply FP_next_configuration].
      * apply FP_truncate.
    + eapply IH; exact H.
Qed.

Lemma FP_h_append_entries now n q : FP n (fst (h_append_entries now n q)).
Proof.
  unfold h_append_entries.
  destruct (role_eqb (n_role n) Shutdown); [apply FP_refl|].
  destruct (ae_term q <? n_term n); [apply FP_refl|].
  set (n1 := n <| n_contact := now |> <| n_leader := Some (ae_leader q) |>).
  assert (H1 : FP n n1) by fpf.
  clearbody n1.
  set (n2 := if n_term n1 <? ae_term q then become_follower now n1 (ae_leader q) (ae_term q) else n1).
  assert (H2 : FP n1 n2).
  { subst n2. destruct (n_term n1 <? ae_term q); [|apply FP_refl]. apply FP_become_follower. }
  clearbody n2.
  set (n3 := if (ae_term q =? n_term n2) && _ then become_follower now n2 (ae_leader q) (ae_term q) else n2).
  assert (H3 : FP n2 n3).
  { subst n3. destruct ((ae_term q =? n_term n2) && _); [|apply FP_refl]. apply FP_become_follower. }
  clearbody n3.
  assert (H03 : FP n n3) by (eapply FP_trans; [exact H1|eapply FP_trans; eassumption]).
  destruct (ae_prev_index q <? n_lii n3); [exact H03|].
  destruct (next_index (n_log n3) <=? ae_prev_index q); [exact H03|].
  destruct ((n_lii n3 =? ae_prev_index q) && negb (n_lit n3 =? ae_prev_term q)); [exact H03|].
  match goal with |- FP n (fst (match ?c with _ => _ end)) => destruct c as [[idx|]|] end.
  - exact H03.
  - cbn [fst]. eapply FP_trans; [exact H03|apply FP_fail].
  - destruct (ae_scan now n3 (ae_entries q)) as [[n4 to_append]|] eqn:Es.
    + cbn [fst]. eapply FP_trans; [exact H03|].
      eapply FP_trans; [eapply FP_ae_scan; exact Es|].
      eapply FP_trans; [apply FP_append|].
      match goal with |- FP _ (if ?c then _ else _) => destruct c end; [|apply FP_refl].
      unfold signal_apply. fpf.
    + cbn [fst]. eapply FP_trans; [exact H03|apply FP_fail].
Qed.

(* ---- RequestVote ---- *)
Lemma FP_h_request_vote now n q : FP n (fst (h_request_vote now n q)).
Proof.
  unfold h_request_vote.
  destruct (role_eqb (n_role n) Shutdown); [apply FP_refl|].
  destruct (lease_valid now n || recent_contact now n); [apply FP_refl|].
  destruct (rv_term q <? n_term n); [apply FP_refl|].
  set (n1 := if negb (rv_prevote q) && (n_term n <? rv_term q) then become_follower now n (rv_cand q) (rv_term q) else n).
  assert (H1 : FP n n1).
  { subst n1. destruct (negb (rv_prevote q) && (n_term n <? rv_term q)); [|apply FP_refl].
    apply FP_become_follower. }
  clearbody n1.
  destruct (negb (rv_prevote q) && match n_vote n1 with Some v => negb (v =? rv_cand q) | None => false end);
    [exact H1|].
  destruct ((rv_last_term q <? last_term (n_log n1)) || _); [exact H1|].
  cbn [fst]. destruct (rv_prevote q); [exact H1|].
  eapply FP_trans; [exact H1|]. eapply FP_trans; [|apply FP_persist]. fpf.
Qed.

(* ---- InstallSnapshot ---- *)
Lemma FP_install_compact n q : FP n (h_install_compact n q).
Proof. unfold h_install_compact. destruct (_ || _); [apply FP_refl|apply FP_compact]. Qed.

Lemma FP_install_restore now n q : FP n (h_install_restore now n q).
Proof.
  unfold h_install_restore. destruct (last (map Some (n_snaps n)) None) as [s|]; [|apply FP_fail].
  destruct (role_eqb _ Shutdown); [fpf|].
  eapply FP_trans; [|apply FP_apply_configuration]. eapply FP_trans; [|apply FP_discard]. fpf.
Qed.

Lemma FP_h_install_snapshot now n q : FP n (fst (h_install_snapshot now n q)).
Proof.
  unfold h_install_snapshot.
  destruct (role_eqb (n_role n) Shutdown); [apply FP_refl|].
  destruct (is_term q <? n_term n); [apply FP_refl|].
  set (n1 := if n_term n <? is_term q then become_follower now n (is_leader q) (is_term q) else n).
  assert (H1 : FP n n1).
  { subst n1. destruct (n_term n <? is_term q); [|apply FP_refl]. apply FP_become_follower. }
  set (n2 := if (is_term q =? n_term n1) && _ then become_follower now n1 (is_leader q) (is_term q) else n1).
  assert (H2 : FP n1 n2).
  { subst n2. destruct ((is_term q =? n_term n1) && _); [|apply FP_refl]. apply FP_become_follower. }
  set (n3 := n2 <| n_contact := now |>).
  assert (H03 : FP n n3).
  { eapply FP_trans; [exact H1|]. eapply FP_trans; [exact H2|]. fpf. }
  destruct ((is_lii q <=? n_lii n3) || (is_lii q <=? n_applied n3)); [exact H03|].
  set (n4 := match n_partial n3 with Some p => if s_index p <? is_lii q then n3 <| n_partial := None |> else n3 | None => n3 end).
  assert (H4 : FP n3 n4).
  { subst n4. destruct (n_partial n3) as [p|]; [|apply FP_refl]. destruct (s_index p <? is_lii q); [fpf|apply FP_refl]. }
  assert (H04 : FP n n4) by (eapply FP_trans; [exact H03|exact H4]).
  match goal with |- FP n (fst (if ?c then _ else _)) => destruct c end.
  - cbn [fst]. eapply FP_trans; [exact H04|]. fpf.
  - match goal with |- FP n (fst (if ?c then _ else _)) => destruct c end.
    + cbn [fst]. eapply FP_trans; [exact H04|]. fpf.
    + match goal with |- FP n (fst (if ?c then _ else _)) => destruct c end.
      * match goal with |- FP n (fst (if ?c then _ else _)) => destruct c end; cbn [fst];
          (eapply FP_trans; [exact H04|]).
        -- eapply FP_trans; [apply FP_close_snapshot|]. fpf.
        -- eapply FP_trans; [|apply FP_install_compact]. eapply FP_trans; [apply FP_close_snapshot|]. fpf.
      * cbn [fst]. eapply FP_trans; [exact H04|].
        eapply FP_trans; [|apply FP_install_restore]. eapply FP_trans; [apply FP_close_snapshot|]. fpf.
Qed.

(* ---------------- Leader.v ---------------- *)
Lemma FP_set_follower n id f : FP n (set_follower n id f).
Proof. apply (FP_of_put n _ id f). reflexivity. Qed.

Lemma FP_set_fobj n id g f : FP n (set_fobj n id g f).
Proof. unfold set_fobj. destruct (f_gen (get_follower n id) =? g); [apply FP_set_follower|fpf]. Qed.

Lemma FP_bump n r : FP n (bump_round n r). Proof. unfold bump_round. fpf. Qed.
Lemma FP_try_apply_ro now n s : FP n (try_apply_ro now n s). Proof. unfold try_apply_ro, signal_ro. fpf. Qed.
Lemma FP_signal_commit n : FP n (signal_commit n). Proof. unfold signal_commit. fpf. Qed.
Lemma FP_signal_ro n : FP n (signal_ro n). Proof. unfold signal_ro. fpf. Qed.
Lemma FP_signal_election n : FP n (signal_election n). Proof. unfold signal_election. fpf. Qed.
Lemma FP_signal_snapshot n : FP n (signal_snapshot n). Proof. unfold signal_snapshot. fpf. Qed.

Lemma FP_send_ae_to_peers now n : FP n (send_ae_to_peers now n).
Proof.
  unfold send_ae_to_peers.
  set (n0 := n <| n_hb_rounds ::= N.succ |>).
  assert (H0 : FP n n0) by fpf.
  set (n1 := if is_single (conf_of n) (n_id n) then _ else n0).
  assert (H1 : FP n0 n1).
  { subst n1. destruct (is_single (conf_of n) (n_id n)); [|apply FP_refl].
    eapply FP_trans; [|apply FP_try_apply_ro].
    destruct (n_commit n0 <? last_index (n_log n0)); [apply FP_signal_commit|apply FP_refl]. }
  eapply FP_trans; [exact H0|]. eapply FP_trans; [exact H1|].
  generalize (n_hb_rounds n0). intros stamp. clearbody n1.
  unfold new_round. cbn [fst snd]. fpf.
Qed.

Lemma FP_become_leader now n : FP n (become_leader now n).
Proof.
  unfold become_leader.
  set (n1 := new_opmanager now (n <| n_role := Leader |>)).
  assert (H1 : FP n n1) by (subst n1; eapply FP_trans; [|apply FP_new_opmanager]; fpf).
  clearbody n1. eapply FP_trans; [exact H1|].
  set (n2 := n1 <| n_followers ::= map (fun p => (fst p, snd p <| f_next := last_index (n_log n1) + 1 |> <| f_match := 0 |>)) |>).
  assert (H2 : FP n1 n2).
  { apply (FP_of_map n1 n2 (fun p => (fst p, snd p <| f_next := last_index (n_log n1) + 1 |> <| f_match := 0 |>)));
      [reflexivity|intros p; reflexivity]. }
  clearbody n2. eapply FP_trans; [exact H2|].
  eapply FP_trans; [|apply FP_send_ae_to_peers]. eapply FP_trans; [|apply FP_append]. apply FP_reset.
Qed.

Lemma FP_send_rv_to_peers now n : FP n (send_rv_to_peers now n).
Proof.
  unfold send_rv_to_peers. destruct (is_single (conf_of n) (n_id n)).
  - eapply FP_trans; [|apply FP_become_leader].
    destruct (role_eqb (n_role n) PreCandidate); [|apply FP_refl].
    eapply FP_trans; [|apply FP_persist]. fpf.
  - unfold new_round. fpf.
Qed.

Lemma FP_election now n : FP n (l_election now n).
Proof.
  unfold l_election.
  set (n0 := n <| n_cv ::= _ |>).
  assert (H0 : FP n n0) by fpf. clearbody n0.
  match goal with |- FP n (if ?c then _ else _) => destruct c end; [exact H0|].
  set (n1 := if role_eqb (n_role n0) Follower then n0 <| n_role := PreCandidate |> else n0).
  assert (H1 : FP n0 n1) by (subst n1; destruct (role_eqb (n_role n0) Follower); [fpf|apply FP_refl]).
  clearbody n1.
  eapply FP_trans; [exact H0|]. eapply FP_trans; [exact H1|]. eapply FP_trans; [|apply FP_send_rv_to_peers].
  destruct (role_eqb (n_role n1) Candidate); [|apply FP_refl].
  eapply FP_trans; [|apply FP_persist]. fpf.
Qed.

Lemma FP_rv_reply now n rid peer pv q p : FP n (l_rv_reply now n rid peer pv q p).
Proof.
  unfold l_rv_reply.
  destruct (role_eqb (n_role n) Shutdown); [apply FP_refl|].
  destruct (rv_term q <? n_term n); [apply FP_refl|].
  set (n1 := if rvr_granted p then bump_round n rid else n).
  assert (H1 : FP n n1) by (subst n1; destruct (rvr_granted p); [apply FP_bump|apply FP_refl]).
  clearbody n1.
  destruct (rv_term q <? rvr_term p).
  - eapply FP_trans; [exact H1|apply FP_become_follower].
  - eapply FP_trans; [exact H1|].
    set (n2 := if _ && role_eqb (n_role n1) PreCandidate then _ else n1).
    assert (H2 : FP n1 n2).
    { subst n2. match goal with |- FP _ (if ?c then _ else _) => destruct c end; [|apply FP_refl].
      eapply FP_trans; [|apply FP_signal_election]. fpf. }
    match goal with |- FP _ (if ?c then _ else _) => destruct c end; [|exact H2].
    eapply FP_trans; [exact H2|apply FP_become_leader].
Qed.

(* ---- replication, sender side ---- *)
Lemma FP_is_send n peer : FP n (fst (l_is_send n peer)).
Proof.
  unfold l_is_send. destruct (negb (role_eqb (n_role n) Leader)); [apply FP_refl|].
  destruct (n_lii n =? 0); [apply FP_refl|].
  match goal with |- FP n (fst (match ?c with _ => _ end)) => destruct c as [[s o]|] end; cbn [fst];
    [apply FP_set_follower|apply FP_fail].
Qed.

Lemma FP_ae_send n peer : FP n (fst (l_ae_send n peer)).
Proof.
  unfold l_ae_send. destruct (_ || _); [apply FP_refl|].
  destruct (f_next (get_follower n peer) <=? n_lii n).
  - pose proof (FP_is_send n peer) as H. destruct (l_is_send n peer) as [n1 [q|]]; exact H.
  - destruct (next_index (n_log n) <? f_next (get_follower n peer)); cbn [fst]; [apply FP_fail|apply FP_refl].
Qed.

Lemma FP_ae_reply now n rid peer g q p : FP n (fst (l_ae_reply now n rid peer g q p)).
Proof.
  unfold l_ae_reply.
  destruct (_ || _); [apply FP_refl|].
  destruct (n_term n <? aer_term p); [cbn [fst]; apply FP_become_follower|].
  destruct (negb (ae_term q =? n_term n)); [apply FP_refl|].
  set (n1 := if is_voter (conf_of n) peer then bump_round n rid else n).
  set (n2 := if is_voter (conf_of n) peer && has_quorum (conf_of n1) (round_count n1 rid)
             then try_apply_ro now n1 (round_stamp n1 rid) else n1).
  assert (H1 : FP n n1) by (subst n1; destruct (is_voter (conf_of n) peer); [apply FP_bump|apply FP_refl]).
  assert (H2 : FP n n2).
  { eapply FP_trans; [exact H1|]. subst n2.
    destruct (is_voter (conf_of n) peer && has_quorum (conf_of n1) (round_count n1 rid)); [apply FP_try_apply_ro|apply FP_refl]. }
  destruct (negb (aer_success p)).
  - destruct (aer_index p <=? n_lii _).
    + eapply FP_trans; [exact H2|]. eapply FP_trans; [apply FP_set_fobj|]. apply FP_is_send.
    + cbn [fst]. eapply FP_trans; [exact H2|apply FP_set_fobj].
  - match goal with |- FP n (fst (if ?c then _ else _)) => destruct c end; cbn [fst]; [|exact H2].
    eapply FP_trans; [exact H2|]. eapply FP_trans; [apply FP_set_fobj|].
    match goal with |- FP _ (if ?c then _ else _) => destruct c end; [apply FP_signal_commit|apply FP_refl].
Qed.

Lemma FP_is_reply now n peer g q resp : FP n (l_is_reply now n peer g q resp).
Proof.
  unfold l_is_reply.
  destruct (f_snap (fobj n peer g)) as [[s o]|]; [|apply FP_refl].
  destruct resp as [p|]; [|apply FP_refl].
  destruct (n_term n <? isr_term p); [apply FP_become_follower|].
  destruct (negb (isr_written p =? is_offset q)); [apply FP_set_fobj|].
  destruct (negb (is_done q)); [apply FP_refl|apply FP_set_fobj].
Qed.

(* ---- loops ---- *)
Lemma FP_commit now n : FP n (lp_commit now n).
Proof.
  unfold lp_commit. set (n0 := n <| n_cv ::= _ |>). assert (H0 : FP n n0) by fpf.
  destruct (negb (role_eqb (n_role n0) Leader)); [exact H0|].
  match goal with |- FP n (if ?c then _ else _) => destruct c end; [|exact H0].
  eapply FP_trans; [exact H0|]. eapply FP_trans; [|apply FP_send_ae_to_peers]. unfold signal_apply. fpf.
Qed.

Lemma FP_upd_cfg m v : FP m (m <| n_cfg_fid := v |>). Proof. fpf. Qed.
Lemma FP_upd_pending m f : FP m (m <| n_pending ::= f |>). Proof. fpf. Qed.
Lemma FP_upd_applied m f : FP m (m <| n_applied ::= f |>). Proof. fpf. Qed.
Lemma FP_upd_fsm m a f : FP m (m <| n_fsm := a |> <| n_applies ::= f |>). Proof. fpf. Qed.

Lemma FP_apply_one now n : FP n (lp_apply_one now n).
Proof.
  unfold lp_apply_one. destruct (log_get (n_log n) (n_applied n + 1)) as [e|]; [|apply FP_fail].
  set (n1 := match e_kind e with KNoop => n | _ => _ end).
  assert (H1 : FP n n1).
  { subst n1. destruct (e_kind e) as [|p|c].
    - apply FP_refl.
    - match goal with |- FP n (match ?x with _ => _ end) => destruct x end.
      + eapply FP_trans; [|apply FP_respond]. eapply FP_trans; [|apply FP_upd_pending]. apply FP_upd_fsm.
      + apply FP_upd_fsm.
    - match goal with |- FP n (match ?x with _ => _ end) => destruct x end.
      + eapply FP_trans; [|apply FP_upd_cfg]. eapply FP_trans; [|apply FP_respond]. apply FP_apply_configuration.
      + apply FP_apply_configuration. }
  match goal with |- FP n (if ?c then _ else _) => destruct c end.
  - eapply FP_trans; [|apply FP_signal_snapshot]. eapply FP_trans; [|apply FP_upd_applied]. exact H1.
  - eapply FP_trans; [|apply FP_upd_applied]. exact H1.
Qed.

Lemma FP_apply_run now fuel : forall n, FP n (lp_apply_run fuel now n).
Proof.
  induction fuel as [|f IH]; intros n; cbn [lp_apply_run]; [apply FP_refl|].
  match goal with |- FP n (if ?c then _ else _) => destruct c end; [|apply FP_refl].
  eapply FP_trans; [apply FP_apply_one|apply IH].
Qed.

Lemma FP_apply now n : FP n (lp_apply now n).
Proof.
  unfold lp_apply. set (n0 := n <| n_cv ::= _ |>). assert (H0 : FP n n0) by fpf.
  eapply FP_trans; [exact H0|].
  match goal with |- FP _ (if ?c then _ else _) => destruct c end;
    [eapply FP_trans; [apply FP_apply_run|apply FP_signal_ro]|apply FP_apply_run].
Qed.

Lemma FP_fold_respond (f : node -> rop -> node) ops : (forall m o, FP m (f m o)) -> forall n, FP n (fold_left f ops n).
Proof.
  intros Hf. induction ops as [|o ops IH]; intros n; cbn [fold_left]; [apply FP_refl|].
  eapply FP_trans; [apply Hf|apply IH].
Qed.

Lemma FP_ro now n : FP n (lp_ro now n).
Proof.
  unfold lp_ro. set (n0 := n <| n_cv ::= _ |>). assert (H0 : FP n n0) by fpf.
  destruct (_ || _); [exact H0|].
  eapply FP_trans; [exact H0|]. eapply FP_trans; [|apply FP_fold_respond].
  - fpf.
  - intros m o. destruct (ro_type o); [apply FP_respond|apply FP_respond|].
    destruct (lease_valid now m); apply FP_respond.
Qed.

Lemma FP_snapshot n : FP n (lp_snapshot n).
Proof.
  unfold lp_snapshot. set (n0 := n <| n_cv ::= _ |>). assert (H0 : FP n n0) by fpf.
  destruct (_ || _); [exact H0|]. destruct (n_applied n0 <=? n_lii n0); [exact H0|].
  destruct (n_cconf n0) as [cc|]; [|exact H0]. destruct (n_applied n0 <? c_index cc); [exact H0|].
  destruct (log_get (n_log n0) (n_applied n0)) as [e|]; [|eapply FP_trans; [exact H0|apply FP_fail]].
  eapply FP_trans; [exact H0|].
  match goal with |- FP _ (if ?c then _ else _) => destruct c end; [apply FP_refl|].
  eapply FP_trans; [apply FP_close_snapshot|]. eapply FP_trans; [|apply FP_reset].
  eapply FP_trans; [|apply FP_compact]. fpf.
Qed.

Lemma FP_install_resume n : FP n (fst (lp_install_resume n)).
Proof.
  unfold lp_install_resume. destruct (n_iswait n) as [|q r]; [apply FP_refl|].
  destruct (install_can_resume n q); cbn [fst]; [|apply FP_refl].
  eapply FP_trans; [|apply FP_install_compact]. fpf.
Qed.

(* ---- client API ---- *)
Lemma FP_upd_sv m v : FP m (m <| n_should_verify := v |>). Proof. fpf. Qed.
Lemma FP_upd_ro m f : FP m (m <| n_ro ::= f |>). Proof. fpf. Qed.

Lemma FP_submit now n fid ty p : FP n (api_submit now n fid ty p).
Proof.
  unfold api_submit. destruct (negb (role_eqb (n_role n) Leader)); [apply FP_respond|].
  destruct ty.
  - eapply FP_trans; [|apply FP_send_ae_to_peers]. eapply FP_trans; [|apply FP_upd_pending]. apply FP_append.
  - match goal with |- FP n (if ?c then _ else _) => destruct c end; [|apply FP_upd_ro].
    eapply FP_trans; [|apply FP_upd_sv]. eapply FP_trans; [|apply FP_send_ae_to_peers]. apply FP_upd_ro.
  - match goal with |- FP n (if ?c then _ else _) => destruct c end; [|apply FP_upd_ro].
    eapply FP_trans; [|apply FP_signal_ro]. apply FP_upd_ro.
Qed.

Lemma FP_append_configuration n c : FP n (fst (append_configuration n c)).
Proof. unfold append_configuration. cbn [fst]. apply FP_append. Qed.

Lemma FP_upd_conf_cfg m c f : FP m (m <| n_conf := c |> <| n_cfg_fid := f |>). Proof. fpf. Qed.

Lemma FP_add_server now n fid id v : FP n (api_add_server now n fid id v).
Proof.
  unfold api_add_server. destruct (negb (role_eqb (n_role n) Leader)); [apply FP_respond|].
  destruct (negb (committed_this_term n)); [apply FP_respond|].
  destruct (pending_conf_change n); [apply FP_respond|].
  destruct (_ && _); [apply FP_respond|].
  pose proof (FP_append_configuration n {| c_index := 0; c_members := put id v (c_members (conf_of n)) |}) as H.
  destruct (append_configuration n _) as [n1 c']. cbn [fst] in H.
  eapply FP_trans; [|apply FP_send_ae_to_peers]. eapply FP_trans; [|apply FP_new_follower].
  eapply FP_trans; [|apply FP_upd_conf_cfg]. exact H.
Qed.

Lemma FP_remove_server now n fid id : FP n (api_remove_server now n fid id).
Proof.
  unfold api_remove_server. destruct (negb (role_eqb (n_role n) Leader)); [apply FP_respond|].
  destruct (negb (committed_this_term n)); [apply FP_respond|].
  destruct (pending_conf_change n); [apply FP_respond|].
  destruct (negb (is_member (conf_of n) id)); [apply FP_respond|].
  pose proof (FP_append_configuration n {| c_index := 0; c_members := remove_key id (c_members (conf_of n)) |}) as H.
  destruct (append_configuration n _) as [n1 c']. cbn [fst] in H.
  eapply FP_trans; [|apply FP_send_ae_to_peers]. eapply FP_trans; [|apply FP_upd_cfg]. exact H.
Qed.

Lemma FP_heartbeat now n : FP n (l_heartbeat now n).
Proof. unfold l_heartbeat. destruct (_ || _); [apply FP_refl|apply FP_send_ae_to_peers]. Qed.

(* ---- lifecycle: start builds the table from [], a crash empties it, restore keeps it ---- *)
Lemma FP_api_start now n : FP n (api_start now n).
Proof.
  unfold api_start. destruct (negb _); [apply FP_refl|].
  match goal with |- FP n (fold_left ?f ?l ?n2 <| n_contact := _ |> <| n_role := _ |>) =>
    apply FP_trans with n2; [apply FP_of_nil; reflexivity|];
    apply FP_trans with (fold_left f l n2); [apply FP_new_followers|fpf] end.
Qed.

Lemma FP_api_bootstrap n boot : FP n (api_bootstrap n boot).
Proof.
  unfold api_bootstrap. destruct (n_conf n); [apply FP_refl|]. destruct (0 <? last_index (n_log n)); [apply FP_refl|].
  eapply FP_trans; [|apply FP_append]. fpf.
Qed.

Lemma crash_followers n : n_followers (crash n) = [].
Proof. reflexivity. Qed.

Lemma FS_crash n : FS (crash n).
Proof. apply FS_of_nil, crash_followers. Qed.

Lemma restore_followers m : n_followers (restore m) = n_followers m.
Proof.
  unfold restore.
  set (n1 := m <| n_open := true |> <| n_term := n_pterm m |> <| n_vote := n_pvote m |>).
  assert (H1 : n_followers n1 = n_followers m) by reflexivity.
  clearbody n1.
  set (n2 := match last (map Some (n_snaps n1)) None with Some s => _ | None => n1 end).
  assert (H2 : n_followers n2 = n_followers n1) by (subst n2; destruct (last (map Some (n_snaps n1)) None); reflexivity).
  clearbody n2.
  set (n3 := match last (map Some (n_snaps n1)) None with Some s => _ | None => n2 end).
  assert (H2' : n_followers n3 = n_followers n2).
  { subst n3. destruct (last (map Some (n_snaps n1)) None) as [s|]; [|reflexivity].
    destruct (_ || _); reflexivity. }
  clearbody n3. destruct (conf_scan _ _ _) as [c cc].
  assert (H3 : n_followers (n3 <| n_conf := c |> <| n_cconf := cc |>) = n_followers n3) by reflexivity.
  rewrite H3, H2', H2. exact H1.
Qed.

Lemma FS_restart now n : FS (restart_after_crash now n).
Proof.
  unfold restart_after_crash.
  pose proof (FS_crash n) as H. set (m := crash n) in *. clearbody m.
  assert (Hr : FS (restore m)) by (unfold FS in *; rewrite restore_followers; exact H).
  set (r := restore m) in *. clearbody r.
  revert Hr. eapply FP_trans; [apply FP_new_opmanager|apply FP_api_start].
Qed.

Lemma FP_upd_budget m k : FP m (m <| n_budget := k |>). Proof. fpf. Qed.

(* ================= world level ================= *)
Definition InvP (w : world) : Prop := forall n, In n (w_nodes w) -> FS n.

Lemma IP_same_nodes w w' : w_nodes w' = w_nodes w -> InvP w -> InvP w'.
Proof. unfold InvP. intros E H. rewrite E. exact H. Qed.

Lemma IP_set_node w m m' : get_node w (n_id m) = Some m -> FP m m' -> InvP w -> InvP (set_node w m').
Proof.
  intros G HP HI. destruct (Votes.get_node_in _ _ _ G) as [Hin _].
  intros x Hx. unfold set_node in Hx. cbn [w_nodes set] in Hx. apply in_map_iff in Hx.
  destruct Hx as (y & <- & Hy). destruct (n_id y =? n_id m'); [apply HP, HI, Hin|apply HI, Hy].
Qed.

Lemma IP_on_node w id f : (forall m, FP m (f m)) -> InvP w -> InvP (on_node w id f).
Proof.
  intros Hf HI. unfold on_node. destruct (get_node w id) as [m|] eqn:G; [|exact HI].
  apply IP_set_node with (m := m); [eapply get_node_id; exact G|apply Hf|exact HI].
Qed.

Lemma IP_step_task w m : get_node w (n_id m) = Some m -> InvP w -> InvP (step_task w m).
Proof.
  intros G HI. unfold step_task. destruct (n_tasks m) as [|t rest]; [exact HI|].
  set (n0 := m <| n_tasks := rest |>). assert (H0 : FP m n0) by fpf.
  destruct t as [rid peer pv|rid peer].
  - destruct (l_rv_send n0 rid peer pv).
    + eapply IP_same_nodes; [|apply (IP_set_node w m n0 G H0 HI)]. reflexivity.
    + apply (IP_set_node w m n0 G H0 HI).
  - pose proof (FP_ae_send n0 peer) as H1. destruct (l_ae_send n0 peer) as [n1 [|q|q]]; cbn [fst] in H1.
    + apply (IP_set_node w m n1 G (FP_trans _ _ _ H0 H1) HI).
    + eapply IP_same_nodes; [|apply (IP_set_node w m n1 G (FP_trans _ _ _ H0 H1) HI)]. reflexivity.
    + eapply IP_same_nodes; [|apply (IP_set_node w m n1 G (FP_trans _ _ _ H0 H1) HI)]. reflexivity.
Qed.

Lemma FP_run_handler now n q : FP n (fst (fst (run_handler now n q))).
Proof.
  unfold run_handler. destruct q as [r|r|r].
  - pose proof (FP_h_append_entries now n r) as H. destruct (h_append_entries now n r). exact H.
  - pose proof (FP_h_request_vote now n r) as H. destruct (h_request_vote now n r). exact H.
  - pose proof (FP_h_install_snapshot now n r) as H. destruct (h_install_snapshot now n r). exact H.
Qed.

Lemma IP_step_deliver w c dup : InvP w -> InvP (step_deliver w c dup).
Proof.
  intros HI. unfold step_deliver. destruct (get_node w (c_dst c)) as [n|] eqn:G;
    [|destruct dup; [exact HI|eapply IP_same_nodes; [|exact HI]; reflexivity]].
  apply get_node_id in G.
  destruct (n_frozen n); [destruct dup; [exact HI|eapply IP_same_nodes; [|exact HI]; reflexivity]|].
  pose proof (FP_run_handler (w_now w) n (c_req c)) as HR.
  destruct (run_handler (w_now w) n (c_req c)) as [[n1 resp] parked]. cbn [fst] in HR.
  pose proof (IP_set_node w n n1 G HR HI) as H1.
  destruct dup; [exact H1|].
  destruct (n_frozen n1); [eapply IP_same_nodes; [|exact H1]; reflexivity|].
  destruct resp; (eapply IP_same_nodes; [|exact H1]); reflexivity.
Qed.

Lemma IP_step_reply w c failed : InvP w -> InvP (step_reply w c failed).
Proof.
  intros HI. unfold step_reply.
  set (w0 := set_call w (c <| c_state := CDone |>)).
  assert (E0 : w_nodes w0 = w_nodes w) by reflexivity.
  assert (HI0 : InvP w0) by (eapply IP_same_nodes; [exact E0|exact HI]).
  destruct (get_node w (c_src c)) as [n|] eqn:G; [|exact HI0].
  apply get_node_id in G.
  assert (G0 : get_node w0 (n_id n) = Some n) by (unfold get_node in *; rewrite E0; exact G).
  destruct (n_frozen n); [exact HI0|].
  destruct (c_req c) as [q|q|q]; destruct (if failed then None else c_resp c) as [[p|p|p]|];
    try exact HI0;
    try (match goal with
         | |- InvP (set_node w0 (l_rv_reply _ _ _ _ _ _ _)) =>
             apply (IP_set_node w0 n _ G0); [apply FP_rv_reply|exact HI0]
         | |- InvP (set_node w0 (l_is_reply _ _ _ _ _ _)) =>
             apply (IP_set_node w0 n _ G0); [apply FP_is_reply|exact HI0]
         end).
  pose proof (FP_ae_reply (w_now w) n (c_round c) (c_dst c) (c_fgen c) q p) as HR.
  destruct (l_ae_reply (w_now w) n (c_round c) (c_dst c) (c_fgen c) q p) as [n1 [isq|]]; cbn [fst] in HR.
  - eapply IP_same_nodes; [|apply (IP_set_node w0 n n1 G0 HR HI0)]. reflexivity.
  - apply (IP_set_node w0 n n1 G0 HR HI0).
Qed.

Theorem step_IP w l : InvP w -> InvP (step w l).
Proof.
  intros HI. destruct l; cbn [step].
  - eapply IP_same_nodes; [|exact HI]. reflexivity.
  - apply IP_on_node; [|exact HI]. intros m. destruct (is_up m); [apply FP_signal_election|apply FP_refl].
  - apply IP_on_node; [|exact HI]. intros m. destruct (is_up m); [apply FP_heartbeat|apply FP_refl].
  - destruct (get_call w c) as [cl|]; [|exact HI]. destruct (c_state cl); try exact HI.
    apply IP_step_deliver; exact HI.
  - destruct (get_call w c) as [cl|]; [|exact HI]. apply IP_step_deliver; exact HI.
  - destruct (get_call w c) as [cl|]; [|exact HI]. destruct (c_state cl); try exact HI.
    apply IP_step_reply; exact HI.
  - destruct (get_call w c) as [cl|]; [|exact HI]. destruct (c_state cl); try exact HI;
      apply IP_step_reply; exact HI.
  - unfold fresh_fid. set (w1 := w <| w_next_fid ::= N.succ |>).
    apply IP_on_node; [|unfold InvP; exact HI]. intros m. destruct (n_frozen m); [apply FP_refl|apply FP_submit].
  - unfold fresh_fid. set (w1 := w <| w_next_fid ::= N.succ |>).
    apply IP_on_node; [|unfold InvP; exact HI]. intros m. destruct (n_frozen m); [apply FP_refl|apply FP_add_server].
  - unfold fresh_fid. set (w1 := w <| w_next_fid ::= N.succ |>).
    apply IP_on_node; [|unfold InvP; exact HI]. intros m. destruct (n_frozen m); [apply FP_refl|apply FP_remove_server].
  - apply IP_on_node; [|exact HI]. intros m. destruct (is_up m); [|apply FP_refl].
    apply FP_trans with (lp_snapshot (m <| n_snap_every := 1 |>)); [|fpf].
    eapply FP_trans; [|apply FP_snapshot]. fpf.
  - eapply IP_same_nodes; [|apply IP_on_node; [|exact HI]; intros m _; apply FS_crash]. reflexivity.
  - apply IP_on_node; [|exact HI]. intros m. destruct (role_eqb (n_role m) Shutdown); [intros _; apply FS_restart|apply FP_refl].
  - apply IP_on_node; [|exact HI]. intros m. apply FP_upd_budget.
  - apply IP_on_node; [|exact HI]. intros m. fpf.
  - apply IP_on_node; [|exact HI]. intros m. fpf.
  - apply IP_on_node; [|exact HI]. intros m. fpf.
  - destruct (get_node w n) as [m|] eqn:G; [|exact HI]. destruct (is_up m); [|exact HI].
    apply IP_step_task; [eapply get_node_id; exact G|exact HI].
  - apply IP_on_node; [|exact HI]. intros m. destruct (is_up m && cv_election (n_cv m)); [apply FP_election|apply FP_refl].
  - apply IP_on_node; [|exact HI]. intros m. destruct (is_up m && cv_commit (n_cv m)); [apply FP_commit|apply FP_refl].
  - apply IP_on_node; [|exact HI]. intros m. destruct (is_up m && cv_apply (n_cv m)); [apply FP_apply|apply FP_refl].
  - apply IP_on_node; [|exact HI]. intros m. destruct (is_up m && cv_ro (n_cv m)); [apply FP_ro|apply FP_refl].
  - destruct (get_node w n) as [m|] eqn:G; [|exact HI]. apply get_node_id in G.
    pose proof (FP_install_resume m) as HQ. destruct (lp_install_resume m) as [m1 [q|]]; cbn [fst] in HQ; [|exact HI].
    pose proof (IP_set_node w m m1 G HQ HI) as H1.
    match goal with |- InvP (match ?x with _ => _ end) => destruct x end;
      [eapply IP_same_nodes; [|exact H1]; reflexivity|exact H1].
Qed.

Lemma IP_init ids boot et ld : InvP (init_world ids boot et ld).
Proof.
  unfold InvP, init_world. cbn [w_nodes]. intros n Hin. apply in_map_iff in Hin. destruct Hin as (id & <- & _).
  set (m := mk_node id et ld).
  assert (Hm : FS m) by (apply FS_of_nil; reflexivity).
  clearbody m.
  set (m1 := if existsb (N.eqb id) boot then api_bootstrap m boot else m).
  assert (H1 : FP m m1).
  { subst m1. destruct (existsb (N.eqb id) boot); [|apply FP_refl]. apply FP_api_bootstrap. }
  clearbody m1.
  revert Hm. eapply FP_trans; [exact H1|].
  eapply FP_trans; [apply FP_new_opmanager|apply FP_api_start].
Qed.

Lemma IP_run ls : forall w, InvP w -> InvP (run w ls).
Proof.
  induction ls as [|l ls IH]; intros w HI; [exact HI|].
  cbn [run fold_left]. apply IH. apply step_IP. exact HI.
Qed.

(* the keys of r.followers are strictly increasing in every node of every reachable world *)
Theorem fs_run ids boot et ld ls :
  forall n, In n (w_nodes (run (init_world ids boot et ld) ls)) -> ssorted (n_followers n).
Proof. exact (IP_run ls _ (IP_init ids boot et ld)). Qed.

Theorem fk_run ids boot et ld ls :
  forall n, In n (w_nodes (run (init_world ids boot et ld) ls)) -> fk_ok n.
Proof. intros n Hin. apply FS_fk. exact (fs_run ids boot et ld ls n Hin). Qed.

Print Assumptions fk_run.
