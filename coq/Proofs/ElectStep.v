(* Election safety (C02), part 6: every step of the cluster preserves the invariant. *)
From RaftV Require Import Cluster.World Cluster.Statements Proofs.Frame Proofs.RVSpec.
From RaftV Require Import Proofs.ConfNode Proofs.ConfStatic Proofs.ConfSticky.
From RaftV Require Import Proofs.Votes Proofs.VoteRecords Proofs.Names Proofs.ElectSpec.
From RaftV Require Import Proofs.ElectDefs Proofs.EFrame Proofs.RoleFrame Proofs.ElectBook Proofs.ElectNode Proofs.ElectSteps
                          Proofs.ElectWorld Proofs.ElectReply.
From Coq Require Import Permutation.
Open Scope N_scope.

Section Step.
Variable C : config.
Hypothesis HCnd : NoDup (member_ids C).

Lemma conf_cases w n : WI C w -> In n (w_nodes w) -> conf_of n = config0 \/ conf_of n = C.
Proof. intros HW Hn. apply CI_conf_of, (WI_node C w n HW Hn). Qed.

Lemma voter_conf w n x : WI C w -> In n (w_nodes w) -> is_voter (conf_of n) x = true -> conf_of n = C.
Proof. intros HW Hn H. destruct (conf_cases w n HW Hn) as [E|E]; [rewrite E in H; discriminate|exact E]. Qed.

Lemma XInv_set_same w m : XInv C w -> WI C w -> get_node w (n_id m) = Some m -> XInv C (set_node w m).
Proof.
  intros HX HW G. apply XInv_node_section with (m := m); auto using R_refl, K_refl.
Qed.

(* ---------------- election timeout ---------------- *)
Lemma XInv_election w m now :
  XInv C w -> WI C w -> get_node w (n_id m) = Some m -> XInv C (set_node w (l_election now m)).
Proof.
  intros HX HW G. destruct (Votes.get_node_in _ _ _ G) as [Hn _].
  pose proof (vi_coh w (x_v C w HX) m Hn) as Hcoh. pose proof (WI_node C w m HW Hn) as HCI.
  apply XInv_node_gen with (m := m); [exact HX|exact G|intros _; apply R_election, Hcoh| | |].
  - intros HB. pose proof (election_shape now m) as HS. cbn zeta in HS.
    destruct HS as [HE|(pv & (c0 & A1 & A2 & A3 & A4) & Hv)].
    + apply (BN_node_E C _ m); [apply R_election, Hcoh|exact Hcoh|exact HE|exact HB].
    + apply (BN_new_rv_round C _ m _ pv (rv_peers m) c0); try assumption; [apply R_election, Hcoh| |].
      * unfold rv_peers. apply NoDup_filter. destruct (conf_cases w m HW Hn) as [E|E]; rewrite E; [constructor|exact HCnd].
      * intros p Hp. unfold rv_peers in Hp. apply filter_In in Hp. destruct Hp as [_ Hp]. apply andb_prop in Hp.
        destruct Hp as [Hp _]. intro E. subst p. rewrite N.eqb_refl in Hp. discriminate.
  - intros Hl Hm. destruct (election_K now m) as [K1 _]. cbn zeta in K1. destruct (K1 Hl) as [A|A]; [left; exact A|].
    exfalso. unfold is_single in A. apply andb_prop in A. destruct A as [A1 A2].
    rewrite (voter_conf w m _ HW Hn A2) in A1. unfold many in Hm. rewrite A1 in Hm. discriminate.
  - intros Ha. destruct (election_K now m) as [_ K2]. cbn zeta in K2. destruct (K2 Ha) as [A|A].
    + left. split; [exact A|apply (sticky_l_election C), HCI].
    + right. pose proof (voter_conf w m _ HW Hn A) as EC. split; [apply (sticky_l_election C); assumption|rewrite <- EC; exact A].
Qed.

(* ---------------- a new RPC record ---------------- *)
Lemma XInv_new_call w src dst rid g q :
  let k := {| c_id := w_next_call w; c_src := src; c_dst := dst; c_round := rid; c_fgen := g; c_req := q;
              c_resp := None; c_state := CPending |} in
  XInv C w -> named k ->
  (forall n, In n (w_nodes w) -> n_id n = src -> BN C (w_calls w ++ [k]) n) ->
  (forall t n, real_rv k t -> In n (w_nodes w) -> n_id n = src -> voted n t src) ->
  (forall t k2 x, real_rv k t -> In k2 (w_calls w) -> granted_real k2 t x -> c_dst k2 = src -> x = src) ->
  XInv C (new_call w src dst rid g q).
Proof.
  cbn zeta. set (k := {| c_id := w_next_call w; c_src := src; c_dst := dst; c_round := rid; c_fgen := g; c_req := q;
                         c_resp := None; c_state := CPending |}).
  intros [HV HN HB S1 S2 L0 HL] Hnamed HBk HS1 HS2.
  assert (Hcalls : w_calls (new_call w src dst rid g q) = w_calls w ++ [k]) by reflexivity.
  assert (Hin : forall k', In k' (w_calls w ++ [k]) -> In k' (w_calls w) \/ k' = k).
  { intros k' H. apply in_app_or in H. destruct H as [H|[H|[]]]; auto. }
  assert (Hng : forall t x, ~ granted_real k t x) by (intros t x (q0 & p & _ & _ & _ & _ & H & _); discriminate H).
  constructor.
  - apply VInv_new_call, HV.
  - apply NInv_new_call; assumption.
  - intros n Hn. change (w_nodes (new_call w src dst rid g q)) with (w_nodes w) in Hn. rewrite Hcalls.
    destruct (N.eq_dec (n_id n) src) as [E|E]; [apply HBk; assumption|].
    apply (BN_calls_sim C (w_calls w)); [| |apply HB, Hn].
    + intros k' Hk' Es. destruct (Hin k' Hk') as [H| ->]; [exists k'; auto|]. cbn in Es. congruence.
    + intros r. rewrite cnt_app. lia.
  - intros k' t n Hk' Hr Hn En. rewrite Hcalls in Hk'. change (w_nodes (new_call w src dst rid g q)) with (w_nodes w) in Hn.
    destruct (Hin k' Hk') as [H| ->]; [apply S1; assumption|]. apply HS1; assumption.
  - intros k1 k2 t x H1 H2 Hr Hg Ed. rewrite Hcalls in H1, H2.
    destruct (Hin k2 H2) as [B| ->]; [|destruct (Hng _ _ Hg)].
    destruct (Hin k1 H1) as [A| ->]; [apply (S2 k1 k2 t x); assumption|]. apply (HS2 t k2 x); assumption.
  - exact L0.
  - intros n Hn Hl Hm. rewrite Hcalls. eapply won_persist; [|apply HL; assumption].
    intros k0 H0. exists k0. split; [apply in_or_app; left; exact H0|]. split; [reflexivity|auto].
Qed.

Lemma set_node_twice w a b : n_id b = n_id a -> w_nodes (set_node w b) = w_nodes (set_node (set_node w a) b).
Proof.
  intros E.
  change (map (fun m => if n_id m =? n_id b then b else m) (w_nodes w) =
          map (fun m => if n_id m =? n_id b then b else m) (map (fun m => if n_id m =? n_id a then a else m) (w_nodes w))).
  rewrite map_map. apply map_ext. intros y.
  rewrite E. destruct (N.eqb_spec (n_id y) (n_id a)) as [H|H]; [rewrite N.eqb_refl; reflexivity|].
  destruct (N.eqb_spec (n_id y) (n_id a)); [contradiction|reflexivity].
Qed.

(* ---------------- a goroutine reaches its RPC ---------------- *)
Lemma popped_tasks m t rest : n_tasks m = t :: rest -> popped m (m <| n_tasks := rest |>) t.
Proof. intros E. unfold popped. cbn. repeat split; try reflexivity. exact E. Qed.

Lemma XInv_pop w m t rest :
  XInv C w -> WI C w -> get_node w (n_id m) = Some m -> n_tasks m = t :: rest ->
  XInv C (set_node w (m <| n_tasks := rest |>)).
Proof.
  intros HX HW G Et. apply XInv_node_section with (m := m); try assumption.
  - intros _. apply Q_R. qtv.
  - apply (BN_pop C _ m _ t), popped_tasks, Et.
  - apply K_of_rt. reflexivity.
  - intros E. exact E.
Qed.

Lemma find_round_term n rid r : wf_rounds n -> In r (n_rounds n) -> rd_id r = rid -> round_term n rid = r_term r.
Proof. intros [WF _] Hr <-. unfold round_term. rewrite (find_round_nodup _ r WF Hr). reflexivity. Qed.

Lemma XInv_step_task w m : XInv C w -> WI C w -> get_node w (n_id m) = Some m -> is_up m = true -> XInv C (step_task w m).
Proof.
  intros HX HW G Hup. unfold step_task. destruct (n_tasks m) as [|t rest] eqn:Et; [exact HX|].
  destruct (Votes.get_node_in _ _ _ G) as [Hn _].
  pose proof (vi_coh w (x_v C w HX) m Hn) as Hcoh. pose proof (x_b C w HX m Hn) as HB.
  assert (F : n_frozen m = false) by (unfold is_up in Hup; apply andb_prop in Hup; destruct Hup as [_ Hup]; destruct (n_frozen m); [discriminate|reflexivity]).
  set (n0 := m <| n_tasks := rest |>).
  pose proof (XInv_pop w m t rest HX HW G Et) as HX0. fold n0 in HX0.
  assert (Hnodes0 : forall n, In n (w_nodes (set_node w n0)) -> n_id n = n_id m -> n = n0).
  { intros n H E. destruct (in_set_node _ _ _ H) as [->|[_ H2]]; [reflexivity|]. exfalso. apply H2. exact E. }
  assert (Hhead : In t (n_tasks m)) by (rewrite Et; left; reflexivity).
  destruct t as [rid peer pv|rid peer].
  - (* sendRequestVote *)
    destruct (l_rv_send n0 rid peer pv) as [q|] eqn:Es; [|exact HX0].
    assert (Hq : n_term m = round_term m rid /\ is_voter (conf_of m) peer = true /\ rv_prevote q = pv /\
                 rv_term q = (if pv then n_term m + 1 else n_term m)).
    { unfold l_rv_send in Es. change (n_term n0) with (n_term m) in Es. change (round_term n0 rid) with (round_term m rid) in Es.
      change (conf_of n0) with (conf_of m) in Es.
      destruct (N.eqb_spec (n_term m) (round_term m rid)) as [ET|ET]; [|discriminate]. cbn [negb] in Es.
      destruct (is_voter (conf_of m) peer) eqn:Hvp; [|discriminate].
      destruct (is_voter (conf_of m) (n_id n0)); [|discriminate]. cbn [negb orb] in Es.
      injection Es as <-. cbn. auto. }
    destruct Hq as (ET & Hvp & Hqpv & Hqt).
    pose proof (voter_conf w m _ HW Hn Hvp) as EC.
    destruct (b_live _ _ _ HB rid peer pv Hhead) as (r & Hr & Er).
    pose proof (find_round_term m rid r (b_wf _ _ _ HB) Hr Er) as Ert.
    apply XInv_new_call.
    + exact HX0.
    + unfold named. cbn. apply (rv_send_named n0 rid peer pv q Es).
    + intros n Hin Eid. rewrite (Hnodes0 n Hin Eid). change (w_calls (set_node w n0)) with (w_calls w).
      apply (BN_rv_send C (w_calls w) m n0 rid peer pv q); try reflexivity; try assumption.
      * apply popped_tasks, Et.
      * rewrite <- EC. exact Hvp.
      * intros k' Hk'. pose proof (vi_fresh w (x_v C w HX) k' Hk'). cbn. lia.
    + (* S1: the node has voted for itself in that term *)
      intros t n (q0 & Eq0 & Ep0 & Et0) Hin Eid. cbn in Eq0. injection Eq0 as <-. rewrite Ep0 in Hqpv. subst pv. rewrite Hqt in Et0. subst t.
      rewrite (Hnodes0 n Hin Eid). destruct (Hcoh F) as [C1 C2].
      right. change (n_pterm n0) with (n_pterm m). change (n_pvote n0) with (n_pvote m). split; [exact C1|].
      rewrite C2. apply (b_selfvote _ _ _ HB rid peer r Hhead Hr Er); [congruence|exact F].
    + (* S2: nobody else got this node's vote in that term *)
      intros t k2 x (q0 & Eq0 & Ep0 & Et0) Hk2 Hg Ed. cbn in Eq0. injection Eq0 as <-. rewrite Ep0 in Hqpv. subst pv. rewrite Hqt in Et0. subst t.
      change (w_calls (set_node w n0)) with (w_calls w) in Hk2.
      destruct (vi_grant w (x_v C w HX) k2 _ x Hk2 Hg) as (v & Gv & Hv). rewrite Ed, G in Gv. injection Gv as <-.
      destruct (Hcoh F) as [C1 C2].
      assert (Hsv : n_vote m = Some (n_id m)) by (apply (b_selfvote _ _ _ HB rid peer r Hhead Hr Er); [congruence|exact F]).
      destruct Hv as [Hv|[_ Hv]]; [lia|]. rewrite C2, Hsv in Hv. injection Hv as ->. reflexivity.
  - (* sendAppendEntries *)
    assert (G0 : get_node (set_node w n0) (n_id n0) = Some n0) by exact (get_node_set_self w m n0 G eq_refl).
    assert (HW0 : WI C (set_node w n0)) by (apply WI_set_node; [exact HW|apply (P_upd_tasks C), (WI_node C w m HW Hn)]).
    assert (Hn0 : In n0 (w_nodes (set_node w n0))) by (apply (Votes.get_node_in _ _ _ G0)).
    pose proof (E_l_ae_send n0 peer) as HE. pose proof (Q_ae_send n0 peer) as HQ. pose proof (K_l_ae_send n0 peer) as HK.
    pose proof (sticky_l_ae_send C n0 peer (WI_node C _ n0 HW0 Hn0)) as HS.
    destruct (l_ae_send n0 peer) as [n1 sn] eqn:Eas. cbn [fst] in HE, HQ, HK, HS.
    assert (HX1 : XInv C (set_node (set_node w n0) n1)).
    { apply XInv_node_section with (m := n0); try assumption.
      - intros _. apply Q_R, HQ.
      - apply BN_node_E; [apply Q_R, HQ|apply (vi_coh _ (x_v C _ HX0) n0 Hn0)|exact HE]. }
    apply (XInv_same C _ (set_node w n1)) in HX1; [|apply set_node_twice, (q_id _ _ HQ)|reflexivity|reflexivity].
    assert (Hnodes1 : forall n, In n (w_nodes (set_node w n1)) -> n_id n = n_id m -> n = n1).
    { intros n H E. destruct (in_set_node _ _ _ H) as [->|[_ H2]]; [reflexivity|]. exfalso. apply H2.
      rewrite (q_id _ _ HQ). exact E. }
    assert (Hother : forall gen q, (is_rv {| c_id := w_next_call (set_node w n1); c_src := n_id m; c_dst := peer; c_round := rid; c_fgen := gen; c_req := q; c_resp := None; c_state := CPending |} = false) ->
              named {| c_id := w_next_call (set_node w n1); c_src := n_id m; c_dst := peer; c_round := rid; c_fgen := gen; c_req := q; c_resp := None; c_state := CPending |} ->
              XInv C (new_call (set_node w n1) (n_id m) peer rid gen q)).
    { intros gen q Hrv Hnm. apply XInv_new_call; [exact HX1|exact Hnm| | |].
      - intros n Hin Eid. rewrite (Hnodes1 n Hin Eid). change (w_calls (set_node w n1)) with (w_calls w).
        apply BN_add_call_other.
        + cbn. rewrite (q_id _ _ HQ). reflexivity.
        + cbn. pose proof (b_task_lt _ _ _ HB _ Hhead) as H1. cbn [task_round] in H1. pose proof (e_next _ _ HE). change (n_next_round n0) with (n_next_round m) in *. lia.
        + exact Hrv.
        + intros t Ht Ert. cbn in Ert. destruct (e_tae _ _ HE t Ht) as [A|(A & _)].
          * assert (Hm : In t (n_tasks m)) by (rewrite Et; right; exact A).
            apply (b_tt _ _ _ HB t (TAe rid peer) Hm Hhead). cbn [task_round]. exact Ert.
          * destruct t; [discriminate|reflexivity].
        + intros k' Hk' Es' Er'. cbn in Er'. rewrite (q_id _ _ HQ) in Es'. change (n_id n0) with (n_id m) in Es'.
          apply (b_tc _ _ _ HB (TAe rid peer) k' Hhead Hk' Es'). cbn [task_round]. exact Er'.
        + apply (x_b C _ HX1 n1). destruct (Votes.get_node_in _ _ _ (get_node_set_self w m n1 G (eq_trans (q_id _ _ HQ) eq_refl))) as [H _]. exact H.
      - intros t n (q0 & Eq0 & _) _ _. exfalso. unfold is_rv in Hrv. cbn in Hrv, Eq0. rewrite Eq0 in Hrv. discriminate.
      - intros t k2 x (q0 & Eq0 & _) _ _ _. exfalso. unfold is_rv in Hrv. cbn in Hrv, Eq0. rewrite Eq0 in Hrv. discriminate. }
    destruct sn as [|q|q].
    + exact HX1.
    + apply Hother; [reflexivity|]. unfold named. cbn. pose proof (ae_send_named n0 peer n1 (SentAE q) Eas) as Hnm. cbn in Hnm. apply Hnm.
    + apply Hother; [reflexivity|]. unfold named. cbn. pose proof (ae_send_named n0 peer n1 (SentIS q) Eas) as Hnm. cbn in Hnm. apply Hnm.
Qed.

End Step.
