(* What one step does to the answers given to client futures (executions without membership changes and
   without snapshots): an answer FOp i t p r - the success answer of a replicated operation - is only ever
   produced by the apply loop, in the iteration that hands (i, t, p) to the state machine.  Every other
   place that answers a future (lost leadership, cancelled configuration change, read-only loop, Submit on
   a node that is not the leader, a configuration entry being applied) answers with another constructor. *)
From RaftV Require Import Cluster.World Cluster.Statements Proofs.Frame Proofs.RVSpec Proofs.AESpec Proofs.AELog.
From RaftV Require Import Proofs.CommitSpec Proofs.ReadSpec.
From RaftV Require Import Proofs.ConfNode Proofs.ConfStatic Proofs.ConfSticky.
From RaftV Require Import Proofs.Votes Proofs.VoteRecords Proofs.Names Proofs.ElectSpec.
From RaftV Require Import Proofs.ElectDefs Proofs.EFrame Proofs.RoleFrame Proofs.ElectBook Proofs.ElectNode Proofs.ElectSteps
                          Proofs.ElectWorld Proofs.ElectReply Proofs.ElectStep Proofs.ElectRun Proofs.ElectSafety.
From RaftV Require Import Proofs.LogDefs Proofs.LogSeg Proofs.LogUni Proofs.LogInv Proofs.LogAccept Proofs.LogSend Proofs.LogFrame
                          Proofs.NoSnap Proofs.TaePeer Proofs.LogWorld Proofs.LogRun Proofs.LogMatching.
From RaftV Require Import Proofs.AEFull Proofs.CommitSteps.
Open Scope N_scope.

(* ================= node level: the frame ================= *)
(* RE: the answers untouched; RF: no new FOp answer *)
Definition RE (m m' : node) : Prop := n_results m' = n_results m.
Definition RF (n n' : node) : Prop :=
  forall fid i t p r, In (fid, FOp i t p r) (n_results n') -> In (fid, FOp i t p r) (n_results n).

Lemma RF_refl m : RF m m. Proof. intros fid i t p r H. exact H. Qed.
Lemma RF_trans a b c : RF a b -> RF b c -> RF a c.
Proof. intros H1 H2 fid i t p r H. apply H1, H2, H. Qed.
Lemma RE_RF m m' : RE m m' -> RF m m'.
Proof. unfold RE. intros E fid i t p r H. rewrite E in H. exact H. Qed.

(* the base node is abstracted first: conversion on large node terms is slow *)
Ltac retv :=
  unfold RE;
  match goal with
  | |- n_results _ = n_results ?x => first [ is_var x; reflexivity
                                           | let y := fresh "base" in generalize x; intro y; reflexivity
                                           | reflexivity ]
  end.
Ltac rtv := apply RE_RF; retv.

(* an answer that is not the success answer of a replicated operation *)
Definition nofop (r : fresult) : Prop := forall i t p x, r <> FOp i t p x.
Ltac nf := let i := fresh in let t := fresh in let p := fresh in let x := fresh in intros i t p x; discriminate.

Lemma RF_respond n fid r : nofop r -> RF n (respond n fid r).
Proof.
  intros Hr f i t p x H. apply respond_results in H. destruct H as [H|H]; [exact H|].
  exfalso. apply (Hr i t p x). congruence.
Qed.

Lemma RF_respond_all fids r : nofop r -> forall n, RF n (respond_all n fids r).
Proof.
  intros Hr. unfold respond_all. induction fids as [|f fids IH]; intros n; cbn [fold_left]; [apply RF_refl|].
  eapply RF_trans; [apply RF_respond, Hr|apply IH].
Qed.

Lemma RF_tick n : RF n (snd (tick_write n)).
Proof.
  unfold tick_write. destruct (n_frozen n); [apply RF_refl|]. destruct (n_budget n) as [k|]; [|apply RF_refl].
  destruct (k =? 0); cbn [snd]; rtv.
Qed.

Lemma RF_write (f : node -> node) n :
  (forall m, RF m (f m)) ->
  RF n (let (ok, n1) := tick_write n in if ok then f n1 else n1).
Proof.
  intros Hf. pose proof (RF_tick n) as H. destruct (tick_write n) as [ok n1]. cbn [snd] in H.
  destruct ok; [|exact H]. eapply RF_trans; [exact H|]. apply Hf.
Qed.

Lemma RF_persist n : RF n (persist n). Proof. apply RF_write. intros m. rtv. Qed.
Lemma RF_truncate n i : RF n (truncate_log n i). Proof. apply RF_write. intros m. rtv. Qed.
Lemma RF_append es : forall n, RF n (append_entries n es).
Proof.
  induction es as [|e es IH]; intros n; cbn [append_entries]; [apply RF_refl|].
  pose proof (RF_tick n) as H. destruct (tick_write n) as [ok n1]. cbn [snd] in H.
  destruct ok; [|exact H]. eapply RF_trans; [exact H|]. eapply RF_trans; [|apply IH]. rtv.
Qed.

Lemma RF_new_opmanager now n : RF n (new_opmanager now n). Proof. rtv. Qed.
Lemma RF_reset n : RF n (reset_snapshot_files n). Proof. rtv. Qed.
Lemma RF_notify n : RF n (notify_lost_leadership n).
Proof. unfold notify_lost_leadership. eapply RF_trans; [|apply RF_respond_all; nf]. apply RF_respond_all; nf. Qed.
Lemma RF_cancel n : RF n (cancel_conf_change n).
Proof.
  unfold cancel_conf_change. destruct (n_cfg_fid n) as [f|]; [|apply RF_refl].
  apply RF_trans with (respond n f FNotLeader); [apply RF_respond; nf|rtv].
Qed.
Lemma RF_fail o n : RF n (fail o n).
Proof. unfold fail. destruct (n_out n); [rtv|apply RF_refl|apply RF_refl]. Qed.

Lemma RF_become_follower now n l t : RF n (become_follower now n l t).
Proof.
  unfold become_follower. cbv zeta.
  eapply RF_trans; [|apply RF_cancel]. eapply RF_trans; [|apply RF_new_opmanager].
  eapply RF_trans; [|apply RF_notify]. eapply RF_trans; [|apply RF_reset].
  eapply RF_trans; [|apply RF_persist]. rtv.
Qed.

Lemma RF_stepdown now n : RF n (stepdown now n).
Proof.
  unfold stepdown. eapply RF_trans; [|apply RF_cancel]. eapply RF_trans; [|apply RF_new_opmanager].
  eapply RF_trans; [|apply RF_notify]. rtv.
Qed.

Lemma RE_new_follower n id nx : RE n (new_follower n id nx). Proof. unfold new_follower. retv. Qed.
Lemma RF_new_followers nx ids n : RF n (fold_left (fun m id => new_follower m id nx) ids n).
Proof. apply RE_RF. unfold RE. apply (proj_new_followers n_results nx ids). intros m id. apply RE_new_follower. Qed.

Lemma RF_next_configuration now n c : RF n (next_configuration now n c).
Proof.
  unfold next_configuration. destruct c as [nx|]; [|apply RF_fail].
  set (n1 := if is_member nx (n_id n) then n else _).
  assert (H1 : RF n n1).
  { subst n1. destruct (is_member nx (n_id n)); [apply RF_refl|].
    eapply RF_trans; [|apply RF_reset]. destruct (role_eqb (n_role n) Leader); [apply RF_stepdown|apply RF_refl]. }
  clearbody n1. eapply RF_trans; [exact H1|].
  match goal with |- RF n1 (fold_left ?f ?l ?n2 <| n_conf := ?c |>) =>
    apply RF_trans with n2; [rtv|]; apply RF_trans with (fold_left f l n2); [apply RF_new_followers|rtv] end.
Qed.

Lemma RF_apply_configuration now n c : RF n (apply_configuration now n c).
Proof.
  unfold apply_configuration. destruct (n_cconf n) as [cc|].
  - destruct (c_index c <=? c_index cc); [apply RF_refl|].
    eapply RF_trans; [apply RF_next_configuration|]. rtv.
  - eapply RF_trans; [apply RF_next_configuration|]. rtv.
Qed.

Lemma RF_ae_scan now es : forall n n4 l, ae_scan now n es = Some (n4, l) -> RF n n4.
Proof.
  induction es as [|e es IH]; intros n n4 l H; cbn [ae_scan] in H.
  - injection H as <- _. apply RF_refl.
  - destruct (last_index (n_log n) <? e_index e); [injection H as <- _; apply RF_refl|].
    destruct (log_get (n_log n) (e_index e)) as [ex|]; [|discriminate].
    destruct ((e_index ex =? e_index e) && negb (e_term ex =? e_term e)).
    + injection H as <- _.
      destruct (e_index e <=? c_index (conf_of (truncate_log n (e_index e)))).
      * eapply RF_trans; [apply RF_truncate|apply RF_next_configuration].
      * apply RF_truncate.
    + eapply IH; exact H.
Qed.

Lemma RF_signal_apply n : RF n (signal_apply n). Proof. rtv. Qed.
Lemma RF_signal_commit n : RF n (signal_commit n). Proof. rtv. Qed.
Lemma RF_signal_ro n : RF n (signal_ro n). Proof. rtv. Qed.
Lemma RF_signal_election n : RF n (signal_election n). Proof. rtv. Qed.
Lemma RF_signal_snapshot n : RF n (signal_snapshot n). Proof. rtv. Qed.

Lemma RF_upd_tasks m ts : RF m (m <| n_tasks := ts |>). Proof. rtv. Qed.
Lemma RF_upd_budget m k : RF m (m <| n_budget := k |>). Proof. rtv. Qed.
Lemma RF_upd_pad m k : RF m (m <| n_pad := k |>). Proof. rtv. Qed.
Lemma RF_upd_cv m f : RF m (m <| n_cv ::= f |>). Proof. rtv. Qed.
Lemma RF_upd_pending m f : RF m (m <| n_pending ::= f |>). Proof. rtv. Qed.
Lemma RF_upd_sv m v : RF m (m <| n_should_verify := v |>). Proof. rtv. Qed.
Lemma RF_upd_ro m f : RF m (m <| n_ro ::= f |>). Proof. rtv. Qed.
Lemma RF_upd_followers m f : RF m (m <| n_followers ::= f |>). Proof. rtv. Qed.
Lemma RF_upd_role m r : RF m (m <| n_role := r |>). Proof. rtv. Qed.

Lemma RF_set_follower n id f : RF n (set_follower n id f). Proof. unfold set_follower. rtv. Qed.
Lemma RF_set_fobj n id g f : RF n (set_fobj n id g f).
Proof. unfold set_fobj. destruct (_ =? g); [apply RF_set_follower|rtv]. Qed.
Lemma RF_bump_round n r : RF n (bump_round n r). Proof. unfold bump_round. rtv. Qed.
Lemma RF_try_apply_ro now n s : RF n (try_apply_ro now n s). Proof. unfold try_apply_ro, signal_ro. rtv. Qed.

Lemma RF_send_ae_to_peers now n : RF n (send_ae_to_peers now n).
Proof.
  unfold send_ae_to_peers.
  set (n0 := n <| n_hb_rounds ::= N.succ |>).
  assert (H0 : RF n n0) by rtv.
  set (n1 := if is_single (conf_of n) (n_id n) then _ else n0).
  assert (H1 : RF n0 n1).
  { subst n1. destruct (is_single (conf_of n) (n_id n)); [|apply RF_refl].
    eapply RF_trans; [|apply RF_try_apply_ro].
    destruct (n_commit n0 <? last_index (n_log n0)); [apply RF_signal_commit|apply RF_refl]. }
  clearbody n1. clearbody n0.
  unfold new_round. cbn [fst snd].
  eapply RF_trans; [exact H0|]. eapply RF_trans; [exact H1|]. rtv.
Qed.

Lemma RF_become_leader now n : RF n (become_leader now n).
Proof.
  unfold become_leader.
  eapply RF_trans; [|apply RF_send_ae_to_peers]. eapply RF_trans; [|apply RF_append].
  eapply RF_trans; [|apply RF_reset].
  eapply RF_trans; [|apply RF_upd_followers].
  eapply RF_trans; [|apply RF_new_opmanager]. apply RF_upd_role.
Qed.

Lemma RF_send_rv_to_peers now n : RF n (send_rv_to_peers now n).
Proof.
  unfold send_rv_to_peers. destruct (is_single (conf_of n) (n_id n)).
  - eapply RF_trans; [|apply RF_become_leader].
    destruct (role_eqb (n_role n) PreCandidate); [|apply RF_refl].
    eapply RF_trans; [|apply RF_persist]. rtv.
  - unfold new_round. rtv.
Qed.

Lemma RF_l_election now m : RF m (l_election now m).
Proof.
  unfold l_election.
  set (n0 := m <| n_cv ::= _ |>).
  assert (H0 : RF m n0) by rtv.
  match goal with |- RF m (if ?c then _ else _) => destruct c end; [exact H0|].
  set (n1 := if role_eqb (n_role n0) Follower then n0 <| n_role := PreCandidate |> else n0).
  assert (H1 : RF n0 n1) by (subst n1; destruct (role_eqb (n_role n0) Follower); [rtv|apply RF_refl]).
  set (n2 := if role_eqb (n_role n1) Candidate then _ else n1).
  assert (H2 : RF n1 n2).
  { subst n2. destruct (role_eqb (n_role n1) Candidate); [|apply RF_refl].
    eapply RF_trans; [|apply RF_persist]. rtv. }
  eapply RF_trans; [eapply RF_trans; [exact H0|eapply RF_trans; [exact H1|exact H2]]|].
  apply RF_send_rv_to_peers.
Qed.

Lemma RF_l_heartbeat now m : RF m (l_heartbeat now m).
Proof. unfold l_heartbeat. destruct (_ || _); [apply RF_refl|apply RF_send_ae_to_peers]. Qed.

Lemma RF_l_is_send n peer : RF n (fst (l_is_send n peer)).
Proof.
  unfold l_is_send. destruct (negb (role_eqb (n_role n) Leader)); [apply RF_refl|].
  destruct (n_lii n =? 0); [apply RF_refl|].
  match goal with |- RF n (fst (match ?c with _ => _ end)) => destruct c as [[s o]|] end; cbn [fst];
    [apply RF_set_follower|apply RF_fail].
Qed.

Lemma RF_l_ae_send n peer : RF n (fst (l_ae_send n peer)).
Proof.
  unfold l_ae_send. destruct (_ || _); [apply RF_refl|].
  destruct (f_next (get_follower n peer) <=? n_lii n).
  - pose proof (RF_l_is_send n peer) as H. destruct (l_is_send n peer) as [n1 [q|]]; exact H.
  - destruct (next_index (n_log n) <? f_next (get_follower n peer)); cbn [fst]; [apply RF_fail|apply RF_refl].
Qed.

Lemma RF_h_request_vote now n q : RF n (fst (h_request_vote now n q)).
Proof.
  unfold h_request_vote.
  destruct (role_eqb (n_role n) Shutdown); [apply RF_refl|].
  destruct (lease_valid now n || recent_contact now n); [apply RF_refl|].
  destruct (rv_term q <? n_term n); [apply RF_refl|].
  set (n1 := if negb (rv_prevote q) && (n_term n <? rv_term q) then become_follower now n (rv_cand q) (rv_term q) else n).
  assert (H1 : RF n n1).
  { subst n1. destruct (negb (rv_prevote q) && (n_term n <? rv_term q)); [apply RF_become_follower|apply RF_refl]. }
  destruct (negb (rv_prevote q) && match n_vote n1 with Some v => negb (v =? rv_cand q) | None => false end);
    [exact H1|].
  destruct ((rv_last_term q <? last_term (n_log n1)) || _); [exact H1|].
  cbn [fst]. destruct (rv_prevote q); [exact H1|].
  eapply RF_trans; [exact H1|]. eapply RF_trans; [|apply RF_persist]. rtv.
Qed.

Lemma RF_l_rv_reply now m rid peer pv q p : RF m (l_rv_reply now m rid peer pv q p).
Proof.
  unfold l_rv_reply.
  destruct (role_eqb (n_role m) Shutdown); [apply RF_refl|].
  destruct (rv_term q <? n_term m); [apply RF_refl|].
  set (n1 := if rvr_granted p then bump_round m rid else m).
  assert (H1 : RF m n1) by (subst n1; destruct (rvr_granted p); [apply RF_bump_round|apply RF_refl]).
  destruct (rv_term q <? rvr_term p).
  - eapply RF_trans; [exact H1|apply RF_become_follower].
  - set (n2 := if _ && role_eqb (n_role n1) PreCandidate then _ else n1).
    assert (H2 : RF n1 n2).
    { subst n2. match goal with |- RF _ (if ?c then _ else _) => destruct c end;
        [unfold signal_election; rtv|apply RF_refl]. }
    eapply RF_trans; [eapply RF_trans; [exact H1|exact H2]|].
    match goal with |- RF _ (if ?c then _ else _) => destruct c end; [apply RF_become_leader|apply RF_refl].
Qed.

Lemma RF_l_ae_reply now n rid peer g q p : RF n (fst (l_ae_reply now n rid peer g q p)).
Proof.
  unfold l_ae_reply.
  destruct (_ || _); [apply RF_refl|].
  destruct (n_term n <? aer_term p); [cbn [fst]; apply RF_become_follower|].
  destruct (negb (ae_term q =? n_term n)); [apply RF_refl|].
  set (n1 := if is_voter (conf_of n) peer then bump_round n rid else n).
  set (n2 := if is_voter (conf_of n) peer && has_quorum (conf_of n1) (round_count n1 rid)
             then try_apply_ro now n1 (round_stamp n1 rid) else n1).
  assert (H1 : RF n n1) by (subst n1; destruct (is_voter (conf_of n) peer); [apply RF_bump_round|apply RF_refl]).
  assert (H2 : RF n n2).
  { eapply RF_trans; [exact H1|]. subst n2.
    destruct (is_voter (conf_of n) peer && has_quorum (conf_of n1) (round_count n1 rid));
      [apply RF_try_apply_ro|apply RF_refl]. }
  destruct (negb (aer_success p)).
  - destruct (aer_index p <=? n_lii _).
    + eapply RF_trans; [exact H2|]. eapply RF_trans; [apply RF_set_fobj|]. apply RF_l_is_send.
    + cbn [fst]. eapply RF_trans; [exact H2|apply RF_set_fobj].
  - match goal with |- RF n (fst (if ?c then _ else _)) => destruct c end; cbn [fst]; [|exact H2].
    eapply RF_trans; [exact H2|]. eapply RF_trans; [apply RF_set_fobj|].
    match goal with |- RF _ (if ?c then _ else _) => destruct c end; [apply RF_signal_commit|apply RF_refl].
Qed.

Lemma RF_fold (f : node -> rop -> node) ops : (forall m o, RF m (f m o)) -> forall n, RF n (fold_left f ops n).
Proof.
  intros Hf. induction ops as [|o ops IH]; intros n; cbn [fold_left]; [apply RF_refl|].
  eapply RF_trans; [apply Hf|apply IH].
Qed.

(* the read-only loop answers with FRead or FInvalidLease *)
Lemma RF_lp_ro now n : RF n (lp_ro now n).
Proof.
  unfold lp_ro. set (n0 := n <| n_cv ::= _ |>). assert (H0 : RF n n0) by rtv.
  destruct (_ || _); [exact H0|].
  eapply RF_trans; [exact H0|]. eapply RF_trans; [|apply RF_fold].
  - apply RF_upd_ro.
  - intros m o. destruct (ro_type o); [apply RF_respond; nf|apply RF_respond; nf|].
    destruct (lease_valid now m); apply RF_respond; nf.
Qed.

(* Submit on a node that is not the leader answers FNotLeader; on the leader nothing is answered yet *)
Lemma RF_api_submit now m fid ty p : RF m (api_submit now m fid ty p).
Proof.
  unfold api_submit. destruct (negb (role_eqb (n_role m) Leader)); [apply RF_respond; nf|].
  destruct ty.
  - eapply RF_trans; [|apply RF_send_ae_to_peers]. eapply RF_trans; [|apply RF_upd_pending]. apply RF_append.
  - match goal with |- RF m (if ?c then _ else _) => destruct c end; [|apply RF_upd_ro].
    eapply RF_trans; [|apply RF_upd_sv]. eapply RF_trans; [|apply RF_send_ae_to_peers]. apply RF_upd_ro.
  - match goal with |- RF m (if ?c then _ else _) => destruct c end; [|apply RF_upd_ro].
    eapply RF_trans; [|apply RF_signal_ro]. apply RF_upd_ro.
Qed.

Lemma RF_api_start now n : RF n (api_start now n).
Proof.
  unfold api_start. destruct (negb _); [apply RF_refl|].
  match goal with |- RF n (fold_left ?f ?l ?n2 <| n_contact := _ |> <| n_role := _ |>) =>
    apply RF_trans with n2; [rtv|]; apply RF_trans with (fold_left f l n2); [apply RF_new_followers|rtv] end.
Qed.

Lemma RF_lp_commit now n : RF n (lp_commit now n).
Proof.
  unfold lp_commit. set (n0 := n <| n_cv ::= _ |>). assert (H0 : RF n n0) by rtv.
  clearbody n0. destruct (negb (role_eqb (n_role n0) Leader)); [exact H0|].
  match goal with |- RF n (if ?c then _ else _) => destruct c end; [|exact H0].
  eapply RF_trans; [exact H0|]. eapply RF_trans; [|apply RF_send_ae_to_peers].
  eapply RF_trans; [|apply RF_signal_apply]. rtv.
Qed.

(* ---- AppendEntries handler ---- *)
Lemma RF_ae_pre now n q : RF n (ae_pre now n q).
Proof.
  unfold ae_pre.
  set (n1 := n <| n_contact := now |> <| n_leader := Some (ae_leader q) |>).
  assert (H1 : RF n n1) by rtv.
  set (n2 := if n_term n1 <? ae_term q then _ else n1).
  assert (H2 : RF n1 n2) by (subst n2; destruct (n_term n1 <? ae_term q); [apply RF_become_follower|apply RF_refl]).
  eapply RF_trans; [exact H1|]. eapply RF_trans; [exact H2|].
  destruct (_ && _); [apply RF_become_follower|apply RF_refl].
Qed.

Lemma RF_h_append_entries now n q : RF n (fst (h_append_entries now n q)).
Proof.
  destruct (role_eqb (n_role n) Shutdown) eqn:E1; [unfold h_append_entries; rewrite E1; apply RF_refl|].
  destruct (ae_term q <? n_term n) eqn:E2; [unfold h_append_entries; rewrite E1, E2; apply RF_refl|].
  rewrite (ae_unfold now n q E1 E2). cbv zeta.
  pose proof (RF_ae_pre now n q) as H3. set (n3 := ae_pre now n q) in *. clearbody n3.
  assert (Hfail : RF n (fail Fatal n3)) by (eapply RF_trans; [exact H3|apply RF_fail]).
  destruct (ae_prev_index q <? n_lii n3); [exact H3|].
  destruct (next_index (n_log n3) <=? ae_prev_index q); [exact H3|].
  destruct ((n_lii n3 =? ae_prev_index q) && negb (n_lit n3 =? ae_prev_term q)); [exact H3|].
  match goal with |- context [fst (match ?c with _ => _ end)] => destruct c as [[idx|]|] end.
  - exact H3.
  - exact Hfail.
  - destruct (ae_scan now n3 (ae_entries q)) as [[n4 ta]|] eqn:Es; [|exact Hfail].
    cbn [fst].
    pose proof (RF_ae_scan _ _ _ _ _ Es) as H4. pose proof (RF_append ta n4) as H5.
    set (n5 := append_entries n4 ta) in *. clearbody n5.
    assert (H : RF n n5) by (eapply RF_trans; [exact H3|eapply RF_trans; [exact H4|exact H5]]).
    match goal with |- RF n (if ?c then _ else _) => destruct c end; [|exact H].
    eapply RF_trans; [exact H|]. eapply RF_trans; [|apply RF_signal_apply]. rtv.
Qed.

(* ---- crash and restart: the answers already given stay (they are outputs, not state) ---- *)
Lemma results_conf_tail (n2 : node) es a b :
  n_results (let (c, cc) := conf_scan es a b in n2 <| n_conf := c |> <| n_cconf := cc |>) = n_results n2.
Proof. destruct (conf_scan es a b); reflexivity. Qed.

Lemma RE_restore x : RE x (restore x).
Proof.
  unfold RE, restore.
  set (n1 := x <| n_open := true |> <| n_term := n_pterm x |> <| n_vote := n_pvote x |>).
  assert (L1 : n_results n1 = n_results x) by reflexivity.
  clearbody n1. cbv zeta. rewrite results_conf_tail.
  destruct (last (map Some (n_snaps n1)) None) as [s|]; [|exact L1].
  destruct (_ || _); exact L1.
Qed.

Lemma RE_crash m : RE m (crash m).
Proof. unfold RE. reflexivity. Qed.

Lemma RF_restart now m : RF m (restart_after_crash now m).
Proof.
  unfold restart_after_crash.
  pose proof (RE_crash m) as HC. set (x := crash m) in *. clearbody x.
  pose proof (RE_restore x) as H1. set (y := restore x) in *. clearbody y.
  eapply RF_trans; [|apply RF_api_start]. eapply RF_trans; [|apply RF_new_opmanager].
  eapply RF_trans; apply RE_RF; eassumption.
Qed.

(* ================= node level: the apply loop ================= *)
(* RA: the applications only grow, and every new FOp answer comes with its application *)
Definition WS (n n' : node) : Prop :=
  forall fid i t p r, In (fid, FOp i t p r) (n_results n') ->
    In (fid, FOp i t p r) (n_results n) \/ In (i, t, p) (n_applies n').
Definition RA (n n' : node) : Prop :=
  (forall x, In x (n_applies n) -> In x (n_applies n')) /\ WS n n'.

Lemma RF_WS n n' : RF n n' -> WS n n'.
Proof. intros H fid i t p r Hin. left. apply H, Hin. Qed.
Lemma WS_refl n : WS n n. Proof. apply RF_WS, RF_refl. Qed.

Lemma RA_refl n : RA n n.
Proof. split; [auto|apply WS_refl]. Qed.
Lemma RA_trans a b c : RA a b -> RA b c -> RA a c.
Proof.
  intros [A1 W1] [A2 W2]. split; [auto|]. intros fid i t p r H.
  destruct (W2 _ _ _ _ _ H) as [H'|H']; [|right; exact H'].
  destruct (W1 _ _ _ _ _ H') as [H''|H'']; [left; exact H''|right; apply A2, H''].
Qed.
Lemma RA_of n n' : n_applies n' = n_applies n -> RF n n' -> RA n n'.
Proof. intros E H. split; [rewrite E; auto|apply RF_WS, H]. Qed.

(* one iteration: the only place that answers FOp, together with the application of the same triple *)
Lemma RA_lp_apply_one now n : RA n (lp_apply_one now n).
Proof.
  destruct (log_get (n_log n) (n_applied n + 1)) as [e|] eqn:Eg.
  2:{ unfold lp_apply_one. rewrite Eg. apply RA_of; [|apply RF_fail].
      pose proof (afl_fail Fatal n) as HF. unfold afl in HF. injection HF as A1 _ _ _. exact A1. }
  pose proof (lp_apply_one_spec now n e Eg) as HS. cbn zeta in HS. destruct HS as [_ HK].
  destruct (e_kind e) as [|p|c] eqn:Ek.
  - destruct HK as [_ HK]. apply RA_of; [exact HK|].
    unfold lp_apply_one. rewrite Eg, Ek.
    match goal with |- RF n (if ?c then _ else _) => destruct c end; rtv.
  - destruct HK as [_ HK]. split; [intros x Hx; rewrite HK; apply in_or_app; left; exact Hx|].
    intros fid i t p0 r Hin.
    destruct (lp_apply_one_results now n e p _ Eg Ek Hin) as [H|(fid' & _ & H)]; [left; exact H|].
    right. rewrite HK. apply in_or_app. right. left. congruence.
  - destruct HK as [_ HK]. apply RA_of; [exact HK|].
    unfold lp_apply_one. rewrite Eg, Ek.
    set (n1 := match n_cfg_fid (apply_configuration now n c) with Some f => _ | None => _ end).
    assert (H1 : RF n n1).
    { subst n1. pose proof (RF_apply_configuration now n c) as HA.
      set (a := apply_configuration now n c) in *. clearbody a.
      destruct (n_cfg_fid a) as [f|]; [|exact HA].
      eapply RF_trans; [exact HA|]. apply RF_trans with (respond a f (FConf (conf_of a))); [apply RF_respond; nf|rtv]. }
    clearbody n1. eapply RF_trans; [exact H1|].
    match goal with |- RF n1 (if ?c then _ else _) => destruct c end; rtv.
Qed.

Lemma RA_lp_apply_run now fuel : forall n, RA n (lp_apply_run fuel now n).
Proof.
  induction fuel as [|f IH]; intros n; cbn [lp_apply_run]; [apply RA_refl|].
  match goal with |- RA n (if ?c then _ else _) => destruct c end; [|apply RA_refl].
  eapply RA_trans; [apply RA_lp_apply_one|apply IH].
Qed.

Lemma RA_lp_apply now n : RA n (lp_apply now n).
Proof.
  unfold lp_apply. set (n0 := n <| n_cv ::= _ |>).
  assert (H0 : RA n n0) by (apply RA_of; [reflexivity|rtv]). clearbody n0.
  eapply RA_trans; [exact H0|].
  pose proof (RA_lp_apply_run now (N.to_nat (n_commit n0 - n_applied n0)) n0) as H1.
  set (n1 := lp_apply_run _ now n0) in *. clearbody n1.
  eapply RA_trans; [exact H1|].
  destruct (role_eqb (n_role n1) Leader); [|apply RA_refl].
  apply RA_of; [reflexivity|apply RF_signal_ro].
Qed.

(* ================= world level ================= *)
Definition NR (w : world) (ns' : list node) : Prop :=
  forall n', In n' ns' -> exists n, In n (w_nodes w) /\ n_id n' = n_id n /\ WS n n'.

Lemma NR_same w : NR w (w_nodes w).
Proof. intros n' Hn'. exists n'. split; [exact Hn'|]. split; [reflexivity|apply WS_refl]. Qed.

Lemma NR_set_node w w1 m m' : w_nodes w1 = w_nodes w -> In m (w_nodes w) -> n_id m' = n_id m -> WS m m' ->
  NR w (w_nodes (set_node w1 m')).
Proof.
  intros E Hm Eid HT n' Hn'. destruct (in_set_node _ _ _ Hn') as [->|[H _]]; [exists m; auto|].
  rewrite E in H. exists n'. split; [exact H|]. split; [reflexivity|apply WS_refl].
Qed.

Lemma NR_on_node w w1 id f : w_nodes w1 = w_nodes w ->
  (forall m, In m (w_nodes w) -> n_id (f m) = n_id m /\ WS m (f m)) -> NR w (w_nodes (on_node w1 id f)).
Proof.
  intros E Hf. unfold on_node. destruct (get_node w1 id) as [m|] eqn:G; [|rewrite E; apply NR_same].
  destruct (Votes.get_node_in _ _ _ G) as [Hm _]. rewrite E in Hm. destruct (Hf m Hm) as [Eid HT].
  apply NR_set_node with (m := m); assumption.
Qed.

Lemma rq m m' : Q m m' -> RF m m' -> n_id m' = n_id m /\ WS m m'.
Proof. intros HQ HF. split; [apply (q_id _ _ HQ)|apply RF_WS, HF]. Qed.

Lemma rq_cond (b : bool) m m' : Q m m' -> RF m m' -> n_id (if b then m' else m) = n_id m /\ WS m (if b then m' else m).
Proof. intros HQ HF. destruct b; [apply rq; assumption|split; [reflexivity|apply WS_refl]]. Qed.

Ltac rsame := match goal with |- NR ?w _ => exact (NR_same w) end.

Section Steps.
Variable C : config.

Lemma NR_step_deliver w c dup : VInv w -> NSW w -> In c (w_calls w) -> NR w (w_nodes (step_deliver w c dup)).
Proof.
  intros HV HNS Hc. unfold step_deliver. destruct (get_node w (c_dst c)) as [n|] eqn:G.
  2:{ destruct dup; rsame. }
  destruct (Votes.get_node_in _ _ _ G) as [Hn Eid]. pose proof (vi_coh w HV n Hn) as Hcoh.
  destruct (n_frozen n) eqn:Fz; [destruct dup; rsame|].
  assert (H1 : NR w (w_nodes (set_node w (fst (fst (run_handler (w_now w) n (c_req c))))))).
  { pose proof (ns_calls w HNS c Hc) as Hq. unfold ns_call in Hq.
    destruct (c_req c) as [q|q|q] eqn:Eq; [| |contradiction].
    - unfold run_handler. destruct (h_append_entries (w_now w) n q) as [n1 p] eqn:EH. cbn [fst].
      replace n1 with (fst (h_append_entries (w_now w) n q)) by (rewrite EH; reflexivity).
      apply NR_set_node with (m := n); [reflexivity|exact Hn|apply (Votes.r_id _ _ (R_append_entries (w_now w) n q Hcoh))|].
      apply RF_WS, RF_h_append_entries.
    - unfold run_handler. destruct (h_request_vote (w_now w) n q) as [n1 p] eqn:EH. cbn [fst].
      replace n1 with (fst (h_request_vote (w_now w) n q)) by (rewrite EH; reflexivity).
      apply NR_set_node with (m := n); [reflexivity|exact Hn|apply (Votes.r_id _ _ (R_request_vote (w_now w) n q Hcoh))|].
      apply RF_WS, RF_h_request_vote. }
  destruct (run_handler (w_now w) n (c_req c)) as [[n1 resp] parked]. cbn [fst] in H1.
  destruct dup; [exact H1|].
  destruct (n_frozen n1); [exact H1|].
  destruct resp as [p|]; exact H1.
Qed.

Lemma NR_step_reply w c failed : VInv w -> NSW w -> In c (w_calls w) -> NR w (w_nodes (step_reply w c failed)).
Proof.
  intros HV HNS Hc. unfold step_reply.
  set (w0 := set_call w (c <| c_state := CDone |>)).
  assert (E0 : w_nodes w0 = w_nodes w) by reflexivity.
  assert (H0 : NR w (w_nodes w0)) by (rewrite E0; rsame).
  destruct (get_node w (c_src c)) as [n|] eqn:G; [|exact H0].
  destruct (Votes.get_node_in _ _ _ G) as [Hn Eid]. pose proof (vi_coh w HV n Hn) as Hcoh.
  destruct (n_frozen n) eqn:Fz; [exact H0|].
  pose proof (ns_calls w HNS c Hc) as Hq. unfold ns_call in Hq.
  destruct (c_req c) as [q|q|q] eqn:Eq; [| |contradiction].
  - destruct (if failed then None else c_resp c) as [[p|p|p]|]; try exact H0.
    pose proof (RF_l_ae_reply (w_now w) n (c_round c) (c_dst c) (c_fgen c) q p) as HF.
    pose proof (R_ae_reply (w_now w) n (c_round c) (c_dst c) (c_fgen c) q p Hcoh) as HR.
    destruct (l_ae_reply (w_now w) n (c_round c) (c_dst c) (c_fgen c) q p) as [n1 o]. cbn [fst snd] in *.
    assert (H1 : NR w (w_nodes (set_node w0 n1))).
    { apply NR_set_node with (m := n); [exact E0|exact Hn|apply (Votes.r_id _ _ HR)|apply RF_WS, HF]. }
    destruct o; exact H1.
  - destruct (if failed then None else c_resp c) as [[p|p|p]|]; try exact H0.
    apply NR_set_node with (m := n); [exact E0|exact Hn|apply (Votes.r_id _ _ (R_rv_reply _ _ _ _ _ _ _ Hcoh))|].
    apply RF_WS, RF_l_rv_reply.
Qed.

Lemma NR_step_task w m : In m (w_nodes w) -> NR w (w_nodes (step_task w m)).
Proof.
  intros Hm. unfold step_task. destruct (n_tasks m) as [|t rest] eqn:Et; [rsame|].
  set (n0 := m <| n_tasks := rest |>).
  assert (Q0 : Q m n0) by qtv. assert (F0 : RF m n0) by rtv.
  assert (Hsec : forall m', Q m m' -> RF m m' -> NR w (w_nodes (set_node w m'))).
  { intros m' HQ HF. destruct (rq m m' HQ HF) as [Eid HT]. apply NR_set_node with (m := m); auto. }
  destruct t as [rid peer pv|rid peer].
  - destruct (l_rv_send n0 rid peer pv) as [q|]; apply (Hsec n0 Q0 F0).
  - pose proof (RF_l_ae_send n0 peer) as HF. pose proof (Q_ae_send n0 peer) as HQ.
    destruct (l_ae_send n0 peer) as [n1 sn]. cbn [fst] in *.
    assert (H1 : NR w (w_nodes (set_node w n1))).
    { apply Hsec; [apply Q_trans with n0; assumption|apply RF_trans with n0; assumption]. }
    destruct sn as [|q|q]; exact H1.
Qed.

Theorem step_NR w l : static_label l = true -> nosnap_label l = true -> ALL C w -> NR w (w_nodes (step w l)).
Proof.
  intros Hst Hns [HW HX HU HNS HTA HL]. pose proof (x_v C w HX) as HV.
  destruct l; cbn [step]; try discriminate Hst; try discriminate Hns.
  - (* LTick *) rsame.
  - (* LElection *) apply NR_on_node; [reflexivity|]. intros m _. apply rq_cond; [apply Q_signal_election|apply RF_signal_election].
  - (* LHeartbeat *) apply NR_on_node; [reflexivity|]. intros m _. apply rq_cond; [apply Q_heartbeat|apply RF_l_heartbeat].
  - (* LDeliver *) destruct (get_call w c) as [cl|] eqn:G; [|rsame]. destruct (VoteRecords.get_call_in _ _ _ G) as [Hin _].
    destruct (c_state cl) eqn:Es; try rsame. apply NR_step_deliver; auto.
  - (* LDup *) destruct (get_call w c) as [cl|] eqn:G; [|rsame]. destruct (VoteRecords.get_call_in _ _ _ G) as [Hin _].
    apply NR_step_deliver; auto.
  - (* LReply *) destruct (get_call w c) as [cl|] eqn:G; [|rsame]. destruct (VoteRecords.get_call_in _ _ _ G) as [Hin _].
    destruct (c_state cl) eqn:Es; try rsame. apply NR_step_reply; auto.
  - (* LFail *) destruct (get_call w c) as [cl|] eqn:G; [|rsame]. destruct (VoteRecords.get_call_in _ _ _ G) as [Hin _].
    destruct (c_state cl) eqn:Es; try rsame; apply NR_step_reply; auto.
  - (* LSubmit *) unfold fresh_fid. apply NR_on_node; [reflexivity|]. intros m _.
    destruct (n_frozen m); [split; [reflexivity|apply WS_refl]|apply rq; [apply Q_submit|apply RF_api_submit]].
  - (* LCrash: the answers stay *) change (NR w (w_nodes (on_node w n crash))). apply NR_on_node; [reflexivity|]. intros m _.
    split; [reflexivity|apply RF_WS, RE_RF, RE_crash].
  - (* LRestart *) apply NR_on_node; [reflexivity|]. intros m Hm.
    destruct (role_eqb (n_role m) Shutdown); [|split; [reflexivity|apply WS_refl]].
    destruct (S_restart (w_now w) m) as (Eid & _).
    split; [exact Eid|apply RF_WS, RF_restart].
  - (* LBudget *) apply NR_on_node; [reflexivity|]. intros m _. apply rq; [apply Q_upd_budget|apply RF_upd_budget].
  - (* LPad *) apply NR_on_node; [reflexivity|]. intros m _. apply rq; [qtv|apply RF_upd_pad].
  - (* LDefer *) apply NR_on_node; [reflexivity|]. intros m _. apply rq; [qtv|apply RF_upd_tasks].
  - (* LRoMissed *) apply NR_on_node; [reflexivity|]. intros m _. apply rq; [qtv|apply RF_upd_cv].
  - (* LTask *) destruct (get_node w n) as [m|] eqn:G; [|rsame]. destruct (is_up m) eqn:Hup; [|rsame].
    destruct (Votes.get_node_in _ _ _ G) as [Hm _]. apply NR_step_task; auto.
  - (* LElectionRun *) apply NR_on_node; [reflexivity|]. intros m Hm. pose proof (vi_coh w HV m Hm) as Hc.
    destruct (is_up m && cv_election (n_cv m)); [|split; [reflexivity|apply WS_refl]].
    split; [apply (Votes.r_id _ _ (R_election (w_now w) m Hc))|apply RF_WS, RF_l_election].
  - (* LCommit *) apply NR_on_node; [reflexivity|]. intros m _. apply rq_cond; [apply Q_commit|apply RF_lp_commit].
  - (* LApply: the only step that answers FOp *) apply NR_on_node; [reflexivity|]. intros m _.
    destruct (is_up m && cv_apply (n_cv m)); [|split; [reflexivity|apply WS_refl]].
    split; [apply (q_id _ _ (Q_apply (w_now w) m))|apply (RA_lp_apply (w_now w) m)].
  - (* LRo *) apply NR_on_node; [reflexivity|]. intros m _. apply rq_cond; [apply Q_ro|apply RF_lp_ro].
  - (* LInstallResume *) destruct (get_node w n) as [m|] eqn:G; [|rsame].
    destruct (Votes.get_node_in _ _ _ G) as [Hm _]. rewrite (install_resume_ns m (ns_nodes w HNS m Hm)). rsame.
Qed.

End Steps.

(* ================= the theorem ================= *)
Theorem step_results C w l : NoDup (member_ids C) -> static_label l = true -> nosnap_label l = true -> ALL C w ->
  forall n', In n' (w_nodes (step w l)) -> exists n, In n (w_nodes w) /\ n_id n' = n_id n /\
    forall fid i t p r, In (fid, FOp i t p r) (n_results n') ->
      In (fid, FOp i t p r) (n_results n) \/ In (i, t, p) (n_applies n').
Proof. intros _ Hst Hns HA n' Hn'. exact (step_NR C w l Hst Hns HA n' Hn'). Qed.

(* ================= the initial world ================= *)
Lemma results_tick n : n_results (snd (tick_write n)) = n_results n.
Proof.
  unfold tick_write. destruct (n_frozen n); [reflexivity|]. destruct (n_budget n) as [k|]; [|reflexivity].
  destruct (k =? 0); reflexivity.
Qed.

Lemma results_append es : forall n, n_results (append_entries n es) = n_results n.
Proof.
  induction es as [|e es IH]; intros n; cbn [append_entries]; [reflexivity|].
  pose proof (results_tick n) as H. destruct (tick_write n) as [ok n1]. cbn [snd] in H.
  destruct ok; [|exact H]. rewrite IH. exact H.
Qed.

Lemma results_bootstrap n members : n_results (api_bootstrap n members) = n_results n.
Proof.
  unfold api_bootstrap. destruct (n_conf n); [reflexivity|].
  destruct (0 <? last_index (n_log n)); [reflexivity|]. rewrite results_append. reflexivity.
Qed.

Lemma results_api_start now n : n_results (api_start now n) = n_results n.
Proof.
  unfold api_start. destruct (negb _); [reflexivity|].
  match goal with |- n_results (fold_left ?f ?l ?n2 <| n_contact := _ |> <| n_role := _ |>) = _ =>
    change (n_results (fold_left f l n2) = n_results n); rewrite (proj_new_followers n_results 0 l); [reflexivity|] end.
  intros m id. apply RE_new_follower.
Qed.

Lemma init_results ids boot et ld n : In n (w_nodes (init_world ids boot et ld)) -> n_results n = [].
Proof.
  unfold init_world. cbn [w_nodes]. intros Hin. apply in_map_iff in Hin. destruct Hin as (id & <- & _).
  set (m := mk_node id et ld).
  assert (Hm : n_results m = []) by reflexivity.
  set (m1 := if existsb (N.eqb id) boot then api_bootstrap m boot else m).
  assert (H1 : n_results m1 = n_results m) by (subst m1; destruct (existsb (N.eqb id) boot); [apply results_bootstrap|reflexivity]).
  clearbody m1. clearbody m.
  rewrite results_api_start. change (n_results m1 = []). congruence.
Qed.

Print Assumptions step_results.
Print Assumptions init_results.
