(* Handler specification of RequestVote (C08), for every node state and every
   request. *)
From RaftV Require Import Node.Leader.
Open Scope N_scope.

(* ---- frame lemmas: which fields the helper transitions touch ---- *)
Lemma tick_write_fields n :
  let n' := snd (tick_write n) in
  n_term n' = n_term n /\ n_vote n' = n_vote n /\ n_pterm n' = n_pterm n /\ n_pvote n' = n_pvote n /\
  n_log n' = n_log n /\ n_role n' = n_role n /\ n_id n' = n_id n.
Proof.
  cbn zeta. unfold tick_write. destruct (n_frozen n); [cbn; repeat split; auto|].
  destruct (n_budget n) as [k|]; [|cbn; repeat split; auto].
  destruct (k =? 0); cbn; repeat split; auto.
Qed.

Lemma persist_fields n :
  let n' := persist n in
  n_term n' = n_term n /\ n_vote n' = n_vote n /\ n_log n' = n_log n /\ n_role n' = n_role n /\
  n_pterm n' = (if fst (tick_write n) then n_term n else n_pterm n) /\
  n_pvote n' = (if fst (tick_write n) then n_vote n else n_pvote n).
Proof.
  unfold persist. pose proof (tick_write_fields n) as H. destruct (tick_write n) as [ok n1]. cbn [snd fst] in *.
  destruct H as (H1 & H2 & H3 & H4 & H5 & H6 & H7).
  destruct ok; cbn; repeat split; congruence.
Qed.

Lemma respond_fields n fid r :
  let n' := respond n fid r in
  n_term n' = n_term n /\ n_vote n' = n_vote n /\ n_pterm n' = n_pterm n /\ n_pvote n' = n_pvote n /\
  n_log n' = n_log n /\ n_role n' = n_role n /\ n_frozen n' = n_frozen n /\ n_budget n' = n_budget n.
Proof.
  cbn zeta. unfold respond. destruct (n_frozen n) eqn:E; [repeat split; auto|].
  destruct (existsb _ _); cbn; repeat split; auto.
Qed.

Lemma respond_all_fields fids : forall n r,
  let n' := respond_all n fids r in
  n_term n' = n_term n /\ n_vote n' = n_vote n /\ n_pterm n' = n_pterm n /\ n_pvote n' = n_pvote n /\
  n_log n' = n_log n /\ n_role n' = n_role n /\ n_frozen n' = n_frozen n /\ n_budget n' = n_budget n.
Proof.
  induction fids as [|f fids IH]; intros n r; cbn [respond_all fold_left]; [cbn zeta; repeat split; auto|].
  fold (respond_all (respond n f r) fids r).
  specialize (IH (respond n f r) r). pose proof (respond_fields n f r) as H. cbn zeta in *.
  destruct IH as (A1 & A2 & A3 & A4 & A5 & A6 & A7 & A8). destruct H as (B1 & B2 & B3 & B4 & B5 & B6 & B7 & B8).
  repeat split; congruence.
Qed.

(* becomeFollower: term becomes [term]; the vote survives iff the term is unchanged;
   the log is untouched; the persistent pair follows if the write is allowed. *)
Lemma become_follower_fields now n leader term :
  let n' := become_follower now n leader term in
  n_term n' = term /\ n_vote n' = (if term =? n_term n then n_vote n else None) /\
  n_log n' = n_log n /\ n_role n' = Follower /\
  (n_pterm n' = term /\ n_pvote n' = n_vote n' \/ n_pterm n' = n_pterm n /\ n_pvote n' = n_pvote n).
Proof.
  cbn zeta. unfold become_follower, notify_lost_leadership.
  set (n1 := n <| n_role := Follower |> <| n_term := term |> <| n_leader := Some leader |>
               <| n_vote := if term =? n_term n then n_vote n else None |>).
  pose proof (persist_fields n1) as HP. cbn zeta in HP. destruct HP as (P1 & P2 & P3 & P4 & P5 & P6).
  set (n2 := reset_snapshot_files (persist n1)).
  assert (E2 : n_term n2 = n_term (persist n1) /\ n_vote n2 = n_vote (persist n1) /\ n_log n2 = n_log (persist n1) /\
               n_role n2 = n_role (persist n1) /\ n_pterm n2 = n_pterm (persist n1) /\ n_pvote n2 = n_pvote (persist n1))
    by (subst n2; unfold reset_snapshot_files; cbn; repeat split; reflexivity).
  destruct E2 as (Q1 & Q2 & Q3 & Q4 & Q5 & Q6).
  set (n3 := respond_all n2 (map ro_fid (n_ro n2)) FNotLeader).
  pose proof (respond_all_fields (map ro_fid (n_ro n2)) n2 FNotLeader) as R1. cbn zeta in R1. fold n3 in R1.
  set (n4 := respond_all n3 (map snd (n_pending n2)) FNotLeader).
  pose proof (respond_all_fields (map snd (n_pending n2)) n3 FNotLeader) as R2. cbn zeta in R2. fold n4 in R2.
  destruct R1 as (A1 & A2 & A3 & A4 & A5 & A6 & _). destruct R2 as (B1 & B2 & B3 & B4 & B5 & B6 & _).
  assert (E4 : forall m, n_term (new_opmanager now m) = n_term m /\ n_vote (new_opmanager now m) = n_vote m /\
                         n_log (new_opmanager now m) = n_log m /\ n_role (new_opmanager now m) = n_role m /\
                         n_pterm (new_opmanager now m) = n_pterm m /\ n_pvote (new_opmanager now m) = n_pvote m)
    by (intros m; unfold new_opmanager; cbn; repeat split; reflexivity).
  destruct (E4 n4) as (C1 & C2 & C3 & C4 & C5 & C6).
  rewrite C1, C2, C3, C4, C5, C6, B1, B2, B3, B4, B5, B6, A1, A2, A3, A4, A5, A6, Q1, Q2, Q3, Q4, Q5, Q6,
    P1, P2, P3, P4, P5, P6.
  subst n1. cbn. repeat split.
  destruct (fst (tick_write _)); [left|right]; split; reflexivity.
Qed.

(* ---- the handler ---- *)
Definition rv_granted (r : option rv_resp) : bool := match r with Some p => rvr_granted p | None => false end.

(* a prevote changes nothing at all *)
Theorem rv_prevote_pure now n q : rv_prevote q = true -> fst (h_request_vote now n q) = n.
Proof.
  intros Hp. unfold h_request_vote. rewrite Hp. cbn [negb andb].
  destruct (role_eqb (n_role n) Shutdown); [reflexivity|].
  destruct (lease_valid now n || recent_contact now n); [reflexivity|].
  destruct (rv_term q <? n_term n); [reflexivity|].
  destruct ((rv_last_term q <? last_term (n_log n)) || _); reflexivity.
Qed.

(* the term never decreases and the log never changes *)
Theorem rv_term_monotone now n q :
  let n' := fst (h_request_vote now n q) in n_term n <= n_term n' /\ n_log n' = n_log n.
Proof.
  cbn zeta. unfold h_request_vote.
  destruct (role_eqb (n_role n) Shutdown); [cbn [fst snd]; split; [lia|reflexivity]|].
  destruct (lease_valid now n || recent_contact now n); [cbn [fst snd]; split; [lia|reflexivity]|].
  destruct (N.ltb_spec (rv_term q) (n_term n)) as [Hlt|Hge]; [cbn [fst snd]; split; [lia|reflexivity]|].
  set (n1 := if negb (rv_prevote q) && (n_term n <? rv_term q) then become_follower now n (rv_cand q) (rv_term q) else n).
  assert (H1 : n_term n <= n_term n1 /\ n_log n1 = n_log n).
  { subst n1. destruct (negb (rv_prevote q) && (n_term n <? rv_term q)); [|split; [lia|reflexivity]].
    pose proof (become_follower_fields now n (rv_cand q) (rv_term q)) as H. cbn zeta in H.
    destruct H as (T & _ & L & _). rewrite T, L. split; [lia|reflexivity]. }
  destruct H1 as [HT HL].
  destruct (negb (rv_prevote q) && match n_vote n1 with Some v => negb (v =? rv_cand q) | None => false end); [cbn [fst snd]; split; assumption|].
  destruct ((rv_last_term q <? last_term (n_log n1)) || _); [cbn [fst snd]; split; assumption|].
  cbn [fst]. destruct (rv_prevote q); [split; assumption|].
  pose proof (persist_fields (n1 <| n_contact := now |> <| n_vote := Some (rv_cand q) |>)) as H. cbn zeta in H.
  destruct H as (P1 & _ & P3 & _). rewrite P1, P3. cbn [n_term n_log set]. split; assumption.
Qed.

(* a vote (real or pre-) is granted only to a candidate whose log is at least as up to date *)
Theorem rv_grant_up_to_date now n q :
  rv_granted (snd (h_request_vote now n q)) = true ->
  last_term (n_log n) < rv_last_term q \/
  (last_term (n_log n) = rv_last_term q /\ last_index (n_log n) <= rv_last_index q).
Proof.
  unfold h_request_vote.
  destruct (role_eqb (n_role n) Shutdown); [cbn [fst snd rv_granted rvr_granted]; discriminate|].
  destruct (lease_valid now n || recent_contact now n); [cbn [fst snd rv_granted rvr_granted]; discriminate|].
  destruct (rv_term q <? n_term n); [cbn [fst snd rv_granted rvr_granted]; discriminate|].
  set (n1 := if negb (rv_prevote q) && (n_term n <? rv_term q) then become_follower now n (rv_cand q) (rv_term q) else n).
  assert (HL : n_log n1 = n_log n).
  { subst n1. destruct (negb (rv_prevote q) && (n_term n <? rv_term q)); [|reflexivity].
    pose proof (become_follower_fields now n (rv_cand q) (rv_term q)) as H. cbn zeta in H. tauto. }
  destruct (negb (rv_prevote q) && match n_vote n1 with Some v => negb (v =? rv_cand q) | None => false end); [cbn [fst snd rv_granted rvr_granted]; discriminate|].
  rewrite HL.
  destruct (N.ltb_spec (rv_last_term q) (last_term (n_log n))) as [H1|H1]; [cbn [fst snd rv_granted rvr_granted]; discriminate|].
  destruct (N.eqb_spec (rv_last_term q) (last_term (n_log n))) as [H2|H2];
    destruct (N.ltb_spec (rv_last_index q) (last_index (n_log n))) as [H3|H3]; cbn; try discriminate; intros _; lia.
Qed.

(* a node that has voted for somebody else in the request's term refuses a real vote *)
Theorem rv_already_voted now n q v :
  rv_prevote q = false -> rv_term q = n_term n -> n_vote n = Some v -> v <> rv_cand q ->
  rv_granted (snd (h_request_vote now n q)) = false /\ n_vote (fst (h_request_vote now n q)) = Some v.
Proof.
  intros Hp Ht Hv Hne. unfold h_request_vote. rewrite Hp, Ht. cbn [negb andb].
  destruct (role_eqb (n_role n) Shutdown); [cbn; tauto|].
  destruct (lease_valid now n || recent_contact now n); [cbn; tauto|].
  rewrite N.ltb_irrefl. rewrite Hv.
  destruct (N.eqb_spec v (rv_cand q)); [contradiction|]. cbn. tauto.
Qed.

