(* Handler specification of RequestVote (C08), for every node state and every
   request. *)
From RaftV Require Import Node.Leader.
From RaftV Require Export Proofs.Frame.
Open Scope N_scope.

(* ---- the handler ---- *)
Definition rv_granted (r : option rv_resp) : bool := match r with Some p => rvr_granted p | None => false end.

(* a prevote changes nothing at all *)
Theorem rv_prevote_pure now n q : rv_prevote q = true -> fst (h_request_vote now n q) = n.
Proof.
  intros Hp. unfold h_request_vote. rewrite Hp. cbn [negb andb].
  destruct (role_eqb (n_role n) Shutdown); [reflexivity|].
  destruct (lease_valid now n || recent_contact now n); [reflexivity|].
  destruct (rv_term q <? n_term n); [reflexivity|].
  destruct ((rv_last_term q <? last_term (n_log n)) || _); reflexivity.
Qed.

(* the term never decreases and the log never changes *)
Theorem rv_term_monotone now n q :
  let n' := fst (h_request_vote now n q) in n_term n <= n_term n' /\ n_log n' = n_log n.
Proof.
  cbn zeta. unfold h_request_vote.
  destruct (role_eqb (n_role n) Shutdown); [cbn [fst snd]; split; [lia|reflexivity]|].
  destruct (lease_valid now n || recent_contact now n); [cbn [fst snd]; split; [lia|reflexivity]|].
  destruct (N.ltb_spec (rv_term q) (n_term n)) as [Hlt|Hge]; [cbn [fst snd]; split; [lia|reflexivity]|].
  set (n1 := if negb (rv_prevote q) && (n_term n <? rv_term q) then become_follower now n (rv_cand q) (rv_term q) else n).
  assert (H1 : n_term n <= n_term n1 /\ n_log n1 = n_log n).
  { subst n1. destruct (negb (rv_prevote q) && (n_term n <? rv_term q)); [|split; [lia|reflexivity]].
    pose proof (become_follower_fields now n (rv_cand q) (rv_term q)) as H. cbn zeta in H.
    destruct H as (T & _ & L & _). rewrite T, L. split; [lia|reflexivity]. }
  destruct H1 as [HT HL].
  destruct (negb (rv_prevote q) && match n_vote n1 with Some v => negb (v =? rv_cand q) | None => false end); [cbn [fst snd]; split; assumption|].
  destruct ((rv_last_term q <? last_term (n_log n1)) || _); [cbn [fst snd]; split; assumption|].
  cbn [fst]. destruct (rv_prevote q); [split; assumption|].
  pose proof (persist_core (n1 <| n_contact := now |> <| n_vote := Some (rv_cand q) |>)) as H. cbn zeta in H.
  destruct H as (P1 & _ & P3 & _). rewrite P1, P3. cbn [n_term n_log set]. split; assumption.
Qed.

(* a vote (real or pre-) is granted only to a candidate whose log is at least as up to date *)
Theorem rv_grant_up_to_date now n q :
  rv_granted (snd (h_request_vote now n q)) = true ->
  last_term (n_log n) < rv_last_term q \/
  (last_term (n_log n) = rv_last_term q /\ last_index (n_log n) <= rv_last_index q).
Proof.
  unfold h_request_vote.
  destruct (role_eqb (n_role n) Shutdown); [cbn [fst snd rv_granted rvr_granted]; discriminate|].
  destruct (lease_valid now n || recent_contact now n); [cbn [fst snd rv_granted rvr_granted]; discriminate|].
  destruct (rv_term q <? n_term n); [cbn [fst snd rv_granted rvr_granted]; discriminate|].
  set (n1 := if negb (rv_prevote q) && (n_term n <? rv_term q) then become_follower now n (rv_cand q) (rv_term q) else n).
  assert (HL : n_log n1 = n_log n).
  { subst n1. destruct (negb (rv_prevote q) && (n_term n <? rv_term q)); [|reflexivity].
    pose proof (become_follower_fields now n (rv_cand q) (rv_term q)) as H. cbn zeta in H. tauto. }
  destruct (negb (rv_prevote q) && match n_vote n1 with Some v => negb (v =? rv_cand q) | None => false end); [cbn [fst snd rv_granted rvr_granted]; discriminate|].
  rewrite HL.
  destruct (N.ltb_spec (rv_last_term q) (last_term (n_log n))) as [H1|H1]; [cbn [fst snd rv_granted rvr_granted]; discriminate|].
  destruct (N.eqb_spec (rv_last_term q) (last_term (n_log n))) as [H2|H2];
    destruct (N.ltb_spec (rv_last_index q) (last_index (n_log n))) as [H3|H3]; cbn; try discriminate; intros _; lia.
Qed.

(* a node that has voted for somebody else in the request's term refuses a real vote *)
Theorem rv_already_voted now n q v :
  rv_prevote q = false -> rv_term q = n_term n -> n_vote n = Some v -> v <> rv_cand q ->
  rv_granted (snd (h_request_vote now n q)) = false /\ n_vote (fst (h_request_vote now n q)) = Some v.
Proof.
  intros Hp Ht Hv Hne. unfold h_request_vote. rewrite Hp, Ht. cbn [negb andb].
  destruct (role_eqb (n_role n) Shutdown); [cbn; tauto|].
  destruct (lease_valid now n || recent_contact now n); [cbn; tauto|].
  rewrite N.ltb_irrefl. rewrite Hv.
  destruct (N.eqb_spec v (rv_cand q)); [contradiction|]. cbn. tauto.
Qed.

