(* C07_statement (Cluster/Statements.v) from the general form proved in LCFinal. *)
From RaftV Require Import Cluster.World Cluster.Statements Proofs.LCFinal.
Open Scope N_scope.

Theorem leader_completeness : C07_statement.
Proof.
  intros ids boot et ld ls1 ls2 Hs Hn w1 w2 e T L (n1 & Hn1 & Hfz & Hin & Hidx & Hterm) HL Hrole HT.
  exact (leader_completeness_gen ids boot et ld ls1 ls2 Hs Hn e T n1 L Hn1 Hfz Hin Hidx Hterm HL Hrole HT).
Qed.

Print Assumptions leader_completeness.
