(* Leader completeness (C07), one step: what the step does to entries, members and dead entries. *)
From Coq Require Import Classical.
From RaftV Require Import Cluster.World Cluster.Statements Proofs.Frame Proofs.RVSpec Proofs.AESpec Proofs.AELog Proofs.AEFull.
From RaftV Require Import Proofs.ConfNode Proofs.ConfStatic Proofs.ConfSticky.
From RaftV Require Import Proofs.Votes Proofs.VoteRecords Proofs.Names Proofs.ElectSpec.
From RaftV Require Import Proofs.ElectDefs Proofs.ElectBook Proofs.ElectWorld Proofs.ElectRun Proofs.ElectSafety.
From RaftV Require Import Proofs.LogDefs Proofs.LogSeg Proofs.LogUni Proofs.LogInv Proofs.LogAccept Proofs.LogFrame Proofs.NoSnap Proofs.TaePeer
                          Proofs.LogWorld Proofs.LogRun Proofs.LogMatching Proofs.StepCases Proofs.SortedTerms
                          Proofs.LCDefs Proofs.LCHist Proofs.LCCore.
Open Scope N_scope.

Section LCStep.
Variable C : config.
Hypothesis HCnd : NoDup (member_ids C).
Variables (w : world) (l : label).
Hypothesis Hst : static_label l = true.
Hypothesis Hns : nosnap_label l = true.
Hypothesis HA : ALL C w.
Hypothesis HA' : ALL C (step w l).
Let w' := step w l.

Let HX := a_x C w HA.
Let HV := x_v C w HX.
Let HX' := a_x C w' HA'.
Let HL := a_lm C w HA.
Let HL' := a_lm C w' HA'.

Lemma hCPR : CPR (w_calls w) (w_calls w').
Proof. apply CPR_step, HV. Qed.
Lemma hCP : CP (w_calls w) (w_calls w').
Proof. apply CPR_CP, hCPR. Qed.
Lemma hNT : NT C w w'.
Proof. apply step_NT; assumption. Qed.
Lemma hNC : NC w w'.
Proof. apply (step_NC C); assumption. Qed.
Lemma hRS : RS w w'.
Proof. apply (step_RS C); assumption. Qed.

(* every node of the old world has its successor *)
Lemma node_forward n : In n (w_nodes w) -> exists n', In n' (w_nodes w') /\ n_id n' = n_id n /\ TR C w w' n n'.
Proof.
  intros Hn. destruct (IDS_forward w w' n (step_IDS w l) Hn) as (n' & Hn' & Eid).
  destruct (hNT n' Hn') as (n0 & Hn0 & Eid0 & HT). assert (n0 = n) by (apply (a_uni C w HA); [exact Hn0|exact Hn|congruence]). subst n0.
  exists n'. auto.
Qed.

Lemma TR_pterm n n' : In n (w_nodes w) -> TR C w w' n n' -> n_pterm n <= n_pterm n'.
Proof.
  intros Hn [->|HS _ _|k q _ _ _ _ ->]; [lia| |].
  - destruct (HS (vi_coh w HV n Hn)) as (_ & [Hp _] & _). exact Hp.
  - destruct (Votes.r_tv _ _ (R_append_entries (w_now w) n q (vi_coh w HV n Hn))) as [Hp _]. exact Hp.
Qed.

(* ---------------- membership only grows ---------------- *)
Lemma member_mono ej v : member C (w_calls w) ej v -> member C (w_calls w') ej v.
Proof. intros [H|H]; [left; eapply acked_CPR; [apply hCPR|exact H]|right; eapply lead_persist; [apply hCP|exact H]]. Qed.

(* a new acknowledgement comes from a node whose term was not above the request's *)
Lemma acked_back T v j : acked (w_calls w') T v j ->
  acked (w_calls w) T v j \/
  exists k q n, In k (w_calls w) /\ c_req k = ReqAE q /\ ae_term q = T /\ c_dst k = v /\ In n (w_nodes w) /\ n_id n = v /\
                n_frozen n = false /\ j <= ae_prev_index q + N.of_nat (length (ae_entries q)) /\
                ae_success (snd (h_append_entries (w_now w) n q)) = true /\
                n_frozen (fst (h_append_entries (w_now w) n q)) = false /\
                In (fst (h_append_entries (w_now w) n q)) (w_nodes w').
Proof.
  intros (k' & tp & Hk' & (q & p & A1 & A2 & A3 & A4 & A5 & A6) & Hj).
  destruct (hRS k' (RespAE p) Hk' A4) as [(k & Hk & Ek & Er)|(k & n & Hk & Ek & Er & Hn & Eid & F & Hr & F' & Hin')].
  - left. pose proof (key_fields _ _ Ek) as (_ & _ & Ed & _ & Eq). exists k, tp. split; [exact Hk|]. split; [|exact Hj].
    exists q, p. rewrite <- Eq, <- Ed. auto 10.
  - right. pose proof (key_fields _ _ Ek) as (_ & _ & Ed & _ & Eq). rewrite Eq in A1. exists k, q, n.
    rewrite A1 in Hr, F', Hin'. unfold run_handler in Hr, F', Hin'. destruct (h_append_entries (w_now w) n q) as [n1 pr] eqn:EH. cbn [fst snd] in *.
    destruct pr as [pr|]; [|discriminate]. cbn [option_map] in Hr. injection Hr as ->.
    repeat split; auto; try congruence.
Qed.

(* ---------------- what the step does to the log of a node ---------------- *)
Definition spliced (sl sq s' : seg) (x : N) : Prop :=
  1 <= x /\ sg_base sq < x /\ tget sl (sg_base sq) = Some (sg_bterm sq) /\
  (forall i, i < x -> eget s' i = eget sl i) /\ (forall i, i < x -> tget s' i = tget sl i) /\
  (forall i, x <= i -> eget s' i = None \/ eget s' i = eget sq i) /\
  (forall i, x <= i -> eget s' i <> None -> tget s' (i - 1) = tget sq (i - 1)) /\
  (top sl < x \/ exists ex eq, eget sl x = Some ex /\ eget sq x = Some eq /\ e_term ex <> e_term eq) /\
  (forall i, sg_base sq < i -> i < x -> exists e1 e2, eget sl i = Some e1 /\ eget sq i = Some e2 /\ e_term e1 = e_term e2).

Inductive NK (n n' : node) : Prop :=
| nk_same : n_log n' = n_log n -> NK n n'
| nk_app r e : n_log n = entry0 :: r -> n_log n' = entry0 :: r ++ [e] -> e_index e = N.of_nat (length r) + 1 ->
               e_term e = n_term n' -> n_role n' = Leader -> n_frozen n' = false -> n_pterm n' = n_term n' ->
               lead C (w_calls w') (n_id n) (n_term n') -> 2 <= e_index e -> NK n n'
| nk_acc k q x : n_frozen n = false -> In k (w_calls w) -> c_req k = ReqAE q -> c_dst k = n_id n ->
               n' = fst (h_append_entries (w_now w) n q) -> n_term n <= ae_term q ->
               spliced (seg_of_log (n_log n)) (seg_of_req q) (seg_of_log (n_log n')) x -> NK n n'.

Lemma node_cases n' : In n' (w_nodes w') ->
  exists n, In n (w_nodes w) /\ n_id n' = n_id n /\ n_pterm n <= n_pterm n' /\ TR C w w' n n' /\ NK n n'.
Proof.
  intros Hn'. destruct (hNT n' Hn') as (n & Hn & Eid & HT). exists n. split; [exact Hn|]. split; [exact Eid|].
  split; [apply TR_pterm; assumption|]. split; [exact HT|].
  pose proof (vi_coh w HV n Hn) as Hcoh.
  destruct (ns_nodes w (a_ns C w HA) n Hn) as (Hlii & Hlit & _ & _ & _ & (r & Er)).
  assert (Hsn : is_seg w (seg_of_log (n_log n))) by (left; exists n; auto).
  pose proof (lm_wf C w HL _ Hsn) as Hwfn. rewrite Er in Hwfn.
  destruct HT as [->|HS HLG Hlead|k q Hk Eq Ed F ->].
  - apply nk_same. reflexivity.
  - destruct HLG as [E|(e & E & Ei & Et & Erole & Efr & _)]; [apply nk_same; exact E|].
    rewrite Er in E, Ei. cbn [app] in E. rewrite (next_index_wf r Hwfn) in Ei.
    destruct (HS Hcoh) as (_ & _ & Hc'). destruct (Hc' Hcoh Efr) as [Ept _].
    specialize (Hlead Erole). pose proof Hlead as [Hvoter _].
    destruct (lm_boot C w HL n Hn Hvoter) as (r' & Er'). rewrite Er in Er'. injection Er' as Er'.
    apply (nk_app n n' r e); auto. rewrite Ei, Er'. cbn [length]. lia.
  - destruct (ae_log_general (w_now w) n q) as [Esame|(a & ta & m & Hes & Hta & Hm & Hterm & Hlo & Hprev & Hchk & Hain & Hhead & Elog)].
    { rewrite Er. apply wf_log_seg, Hwfn. } { rewrite Er, Hlii. reflexivity. }
    { change (wf_seg (seg_of_req q)). apply (lm_wf C w HL). right. exists k, q. auto. }
    { apply nk_same. exact Esame. }
    assert (Hwfq : wf_seg (seg_of_req q)) by (apply (lm_wf C w HL); right; exists k, q; auto).
    rewrite Er in Elog, Hprev, Hain, Hchk.
    assert (Hcheck : tget (seg_of_log (entry0 :: r)) (ae_prev_index q) = Some (ae_prev_term q)).
    { destruct Hchk as [[E1 E2]|(_ & pe & Hpe & Ept)].
      - rewrite E1, Hlii, E2, Hlit. reflexivity.
      - rewrite <- eget_log in Hpe by (exists r; reflexivity). rewrite (tget_entry _ _ _ Hpe), Ept. reflexivity. }
    destruct (splice_facts r q a ta m Hwfn Hwfq Hes Hprev Hcheck Hain) as (Hx & F1 & F2 & F3 & F4 & F5).
    change (log_truncate (entry0 :: r) (ae_prev_index q + 1 + N.of_nat (length a)) ++ firstn m ta)
      with (splice r (ae_prev_index q + 1 + N.of_nat (length a)) (firstn m ta)) in Elog.
    rewrite <- Elog in F1, F2, F3, F4. rewrite <- Er in F1, F2.
    apply (nk_acc n _ k q (ae_prev_index q + 1 + N.of_nat (length a))); auto.
    assert (F0 : tget (seg_of_log (n_log n)) (ae_prev_index q) = Some (ae_prev_term q)) by (rewrite Er; exact Hcheck).
    assert (F6 : top (seg_of_log (n_log n)) < ae_prev_index q + 1 + N.of_nat (length a) \/
                 exists ex eq, eget (seg_of_log (n_log n)) (ae_prev_index q + 1 + N.of_nat (length a)) = Some ex /\
                               eget (seg_of_req q) (ae_prev_index q + 1 + N.of_nat (length a)) = Some eq /\ e_term ex <> e_term eq).
    { destruct ta as [|t0 r0]; [contradiction|].
      assert (Et0 : eget (seg_of_req q) (ae_prev_index q + 1 + N.of_nat (length a)) = Some t0).
      { rewrite (eget_req_tail q a (t0 :: r0) _ Hes) by lia. replace (N.to_nat _) with 0%nat by lia. reflexivity. }
      pose proof (eget_index _ _ _ Hwfq Et0) as Ei0.
      destruct (Hhead t0 r0 eq_refl) as [Hmiss|(x0 & Hx0 & Hne)].
      - left. rewrite Er, top_log. rewrite Er in Hmiss. pose proof (next_index_wf r Hwfn) as Hn0. unfold next_index in Hn0. lia.
      - right. rewrite Er in Hx0. rewrite <- eget_log in Hx0 by (exists r; reflexivity). rewrite Ei0 in Hx0.
        exists x0, t0. rewrite Er. auto. }
    assert (F7 : forall i, ae_prev_index q < i -> i < ae_prev_index q + 1 + N.of_nat (length a) ->
                 exists e1 e2, eget (seg_of_log (n_log n)) i = Some e1 /\ eget (seg_of_req q) i = Some e2 /\ e_term e1 = e_term e2).
    { intros i Hi1 Hi2.
      assert (Hka : (N.to_nat (i - ae_prev_index q - 1) < length a)%nat) by lia.
      destruct (nth_error a (N.to_nat (i - ae_prev_index q - 1))) as [e2|] eqn:E2; [|apply nth_error_None in E2; lia].
      pose proof (nth_error_In _ _ E2) as Hin2.
      assert (Eq2 : eget (seg_of_req q) i = Some e2).
      { unfold eget, seg_of_req. cbn [sg_base sg_es]. destruct (N.ltb_spec (ae_prev_index q) i); [|lia].
        rewrite Hes, nth_error_app1 by exact Hka. exact E2. }
      destruct (Hain e2 Hin2) as (x0 & Hx0 & Ht0). rewrite <- eget_log in Hx0 by (exists r; reflexivity).
      rewrite (eget_index _ _ _ Hwfq Eq2) in Hx0. exists x0, e2. rewrite Er. auto. }
    unfold spliced. cbn [sg_base sg_bterm seg_of_req]. repeat split; auto; lia.
Qed.

(* ---------------- what the step does to the segments ---------------- *)
Inductive SK (s' : seg) : Prop :=
| sk_old : is_seg w s' -> SK s'
| sk_node n n' : In n (w_nodes w) -> In n' (w_nodes w') -> n_id n' = n_id n -> n_pterm n <= n_pterm n' ->
                 s' = seg_of_log (n_log n') -> NK n n' -> SK s'
| sk_req m k' q : In k' (w_calls w') -> c_req k' = ReqAE q -> c_src k' = n_id m -> In m (w_nodes w) -> n_role m = Leader ->
                 ae_term q = n_term m -> c_dst k' <> n_id m ->
                 (forall i e, eget (seg_of_req q) i = Some e -> eget (seg_of_log (n_log m)) i = Some e) ->
                 tget (seg_of_log (n_log m)) (ae_prev_index q) = Some (ae_prev_term q) ->
                 s' = seg_of_req q -> SK s'.

Lemma seg_cases s' : is_seg w' s' -> SK s'.
Proof.
  intros [(n' & Hn' & ->)|(k' & q & Hk' & Eq & ->)].
  - destruct (node_cases n' Hn') as (n & Hn & Eid & Hp & _ & HK). eapply sk_node; eauto.
  - destruct (hNC k' Hk') as [(k & Hk & Ek)|(m & Hm & Es & Hreq)].
    + apply sk_old. pose proof (key_fields _ _ Ek) as (_ & _ & _ & _ & Er). right. exists k, q. rewrite <- Er. auto.
    + rewrite Eq in Hreq. destruct Hreq as (R1 & R2 & R3 & R4 & R5 & R6). eapply sk_req; eauto.
Qed.

End LCStep.
