(* "A live node whose configuration is C keeps C": for every step-level function f of a node
   (handlers, loops, reply continuations, Submit - not AddServer / RemoveServer / crash /
   restart), CI C m -> conf_of m = C -> conf_of (f m) = C.
   n_conf is written only by nextConfiguration (in these sections), with the n_cconf value, the
   KConf of a log entry or the configuration of an InstallSnapshot request: all C by CI.
   CE: the function leaves n_conf and n_cconf alone (most of them);
   CK: the function keeps conf_of = C. *)
From RaftV Require Import Cluster.World Proofs.ConfNode.
Open Scope N_scope.

(* ---------------- CE: n_conf and n_cconf untouched ---------------- *)
Definition CE (n n' : node) : Prop := n_conf n' = n_conf n /\ n_cconf n' = n_cconf n.
Lemma CE_refl n : CE n n. Proof. split; reflexivity. Qed.
Lemma CE_trans a b c : CE a b -> CE b c -> CE a c.
Proof. intros [H1 H2] [H3 H4]. split; congruence. Qed.

Ltac ecf :=
  match goal with
  | |- CE ?x _ => first [ is_var x; split; reflexivity
                       | let y := fresh "base" in generalize x; intro y; split; reflexivity
                       | split; reflexivity ]
  end.

Lemma conf_of_eq n n' : n_conf n' = n_conf n -> conf_of n' = conf_of n.
Proof. unfold conf_of. intros ->. reflexivity. Qed.
Lemma conf_of_E n n' : CE n n' -> conf_of n' = conf_of n.
Proof. intros [H _]. apply conf_of_eq, H. Qed.

Lemma CE_tick n : CE n (snd (tick_write n)).
Proof.
  unfold tick_write. destruct (n_frozen n); [apply CE_refl|].
  destruct (n_budget n) as [k|]; [|apply CE_refl]. destruct (k =? 0); split; reflexivity.
Qed.
Lemma CE_write (f : node -> node) n :
  (forall m, CE m (f m)) -> CE n (let (ok, n1) := tick_write n in if ok then f n1 else n1).
Proof.
  intros Hf. pose proof (CE_tick n) as H. destruct (tick_write n) as [ok n1]. cbn [snd] in H.
  destruct ok; [|exact H]. eapply CE_trans; [exact H|apply Hf].
Qed.
Lemma CE_persist n : CE n (persist n). Proof. unfold persist. apply CE_write. intros m. ecf. Qed.
Lemma CE_truncate n i : CE n (truncate_log n i). Proof. unfold truncate_log. apply CE_write. intros m. ecf. Qed.
Lemma CE_compact n i : CE n (compact_log n i). Proof. unfold compact_log. apply CE_write. intros m. ecf. Qed.
Lemma CE_discard n i t : CE n (discard_log n i t). Proof. unfold discard_log. apply CE_write. intros m. ecf. Qed.
Lemma CE_close_snapshot n s : CE n (close_snapshot n s). Proof. unfold close_snapshot. apply CE_write. intros m. ecf. Qed.
Lemma CE_append es : forall n, CE n (append_entries n es).
Proof.
  induction es as [|e es IH]; intros n; cbn [append_entries]; [apply CE_refl|].
  pose proof (CE_tick n) as H. destruct (tick_write n) as [ok n1]. cbn [snd] in H.
  destruct ok; [|exact H]. eapply CE_trans; [exact H|]. eapply CE_trans; [|apply IH]. ecf.
Qed.
Lemma CE_fail o n : CE n (fail o n).
Proof. unfold fail. destruct (n_out n); [ecf|apply CE_refl|apply CE_refl]. Qed.
Lemma CE_respond n f r : CE n (respond n f r).
Proof. unfold respond. destruct (n_frozen n); [apply CE_refl|]. destruct (existsb _ _); [apply CE_refl|ecf]. Qed.
Lemma CE_respond_all fids : forall n r, CE n (respond_all n fids r).
Proof.
  induction fids as [|f fids IH]; intros n r; [apply CE_refl|].
  cbn [respond_all fold_left]. fold (respond_all (respond n f r) fids r).
  eapply CE_trans; [apply CE_respond|apply IH].
Qed.
Lemma CE_new_opmanager now n : CE n (new_opmanager now n). Proof. ecf. Qed.
Lemma CE_notify n : CE n (notify_lost_leadership n).
Proof. unfold notify_lost_leadership. eapply CE_trans; apply CE_respond_all. Qed.
Lemma CE_cancel n : CE n (cancel_conf_change n).
Proof.
  unfold cancel_conf_change. destruct (n_cfg_fid n); [|apply CE_refl].
  eapply CE_trans; [apply CE_respond|ecf].
Qed.
Lemma CE_reset n : CE n (reset_snapshot_files n). Proof. ecf. Qed.
Lemma CE_become_follower now n l t : CE n (become_follower now n l t).
Proof.
  unfold become_follower.
  eapply CE_trans; [|apply CE_cancel]. eapply CE_trans; [|apply CE_new_opmanager].
  eapply CE_trans; [|apply CE_notify]. eapply CE_trans; [|apply CE_reset].
  eapply CE_trans; [|apply CE_persist]. ecf.
Qed.

Lemma CE_signal_apply n : CE n (signal_apply n). Proof. unfold signal_apply. ecf. Qed.
Lemma CE_signal_commit n : CE n (signal_commit n). Proof. unfold signal_commit. ecf. Qed.
Lemma CE_signal_ro n : CE n (signal_ro n). Proof. unfold signal_ro. ecf. Qed.
Lemma CE_signal_election n : CE n (signal_election n). Proof. unfold signal_election. ecf. Qed.
Lemma CE_signal_snapshot n : CE n (signal_snapshot n). Proof. unfold signal_snapshot. ecf. Qed.

Lemma CE_request_vote now n q : CE n (fst (h_request_vote now n q)).
Proof.
  unfold h_request_vote.
  destruct (role_eqb (n_role n) Shutdown); [apply CE_refl|].
  destruct (lease_valid now n || recent_contact now n); [apply CE_refl|].
  destruct (rv_term q <? n_term n); [apply CE_refl|].
  set (n1 := if negb (rv_prevote q) && (n_term n <? rv_term q) then become_follower now n (rv_cand q) (rv_term q) else n).
  assert (H1 : CE n n1).
  { subst n1. destruct (negb (rv_prevote q) && (n_term n <? rv_term q)); [apply CE_become_follower|apply CE_refl]. }
  clearbody n1.
  destruct (negb (rv_prevote q) && match n_vote n1 with Some v => negb (v =? rv_cand q) | None => false end); [exact H1|].
  destruct ((rv_last_term q <? last_term (n_log n1)) || _); [exact H1|].
  cbn [fst]. destruct (rv_prevote q); [exact H1|].
  eapply CE_trans; [exact H1|]. eapply CE_trans; [|apply CE_persist]. ecf.
Qed.

Lemma CE_install_compact n q : CE n (h_install_compact n q).
Proof. unfold h_install_compact. destruct (_ || _); [apply CE_refl|apply CE_compact]. Qed.

Lemma CE_set_follower n id f : CE n (set_follower n id f). Proof. unfold set_follower. ecf. Qed.
Lemma CE_set_fobj n id g f : CE n (set_fobj n id g f).
Proof. unfold set_fobj. destruct (_ =? g); [apply CE_set_follower|ecf]. Qed.
Lemma CE_bump n r : CE n (bump_round n r). Proof. unfold bump_round. ecf. Qed.
Lemma CE_try_apply_ro now n s : CE n (try_apply_ro now n s). Proof. unfold try_apply_ro, signal_ro. ecf. Qed.

Lemma CE_send_ae_to_peers now n : CE n (send_ae_to_peers now n).
Proof.
  unfold send_ae_to_peers.
  set (n0 := n <| n_hb_rounds ::= N.succ |>).
  assert (H0 : CE n n0) by ecf.
  set (n1 := if is_single (conf_of n) (n_id n) then _ else n0).
  assert (H1 : CE n0 n1).
  { subst n1. destruct (is_single (conf_of n) (n_id n)); [|apply CE_refl].
    eapply CE_trans; [|apply CE_try_apply_ro].
    destruct (n_commit n0 <? last_index (n_log n0)); [apply CE_signal_commit|apply CE_refl]. }
  unfold new_round. cbn [fst snd].
  eapply CE_trans; [exact H0|]. eapply CE_trans; [exact H1|]. ecf.
Qed.

Lemma CE_upd_followers n f : CE n (n <| n_followers ::= f |>). Proof. ecf. Qed.

Lemma CE_become_leader now n : CE n (become_leader now n).
Proof.
  unfold become_leader.
  eapply CE_trans; [|apply CE_send_ae_to_peers]. eapply CE_trans; [|apply CE_append].
  eapply CE_trans; [|apply CE_reset].
  apply CE_trans with (new_opmanager now (n <| n_role := Leader |>)); [|apply CE_upd_followers].
  eapply CE_trans; [|apply CE_new_opmanager]. ecf.
Qed.

Lemma CE_send_rv_to_peers now n : CE n (send_rv_to_peers now n).
Proof.
  unfold send_rv_to_peers. destruct (is_single (conf_of n) (n_id n)).
  - eapply CE_trans; [|apply CE_become_leader].
    destruct (role_eqb (n_role n) PreCandidate); [|apply CE_refl].
    eapply CE_trans; [|apply CE_persist]. ecf.
  - unfold new_round. ecf.
Qed.

Lemma CE_election now n : CE n (l_election now n).
Proof.
  unfold l_election.
  set (n0 := n <| n_cv ::= _ |>).
  assert (H0 : CE n n0) by ecf. clearbody n0.
  match goal with |- CE n (if ?c then _ else _) => destruct c end; [exact H0|].
  set (n1 := if role_eqb (n_role n0) Follower then n0 <| n_role := PreCandidate |> else n0).
  assert (H1 : CE n0 n1) by (subst n1; destruct (role_eqb (n_role n0) Follower); [ecf|apply CE_refl]).
  clearbody n1.
  eapply CE_trans; [exact H0|]. eapply CE_trans; [exact H1|]. eapply CE_trans; [|apply CE_send_rv_to_peers].
  destruct (role_eqb (n_role n1) Candidate); [|apply CE_refl].
  eapply CE_trans; [|apply CE_persist]. ecf.
Qed.

Lemma CE_rv_reply now n rid peer pv q p : CE n (l_rv_reply now n rid peer pv q p).
Proof.
  unfold l_rv_reply.
  destruct (role_eqb (n_role n) Shutdown); [apply CE_refl|].
  destruct (rv_term q <? n_term n); [apply CE_refl|].
  set (n1 := if rvr_granted p then bump_round n rid else n).
  assert (H1 : CE n n1) by (subst n1; destruct (rvr_granted p); [apply CE_bump|apply CE_refl]).
  clearbody n1.
  destruct (rv_term q <? rvr_term p).
  - eapply CE_trans; [exact H1|apply CE_become_follower].
  - eapply CE_trans; [exact H1|].
    set (n2 := if _ && role_eqb (n_role n1) PreCandidate then _ else n1).
    assert (H2 : CE n1 n2).
    { subst n2. match goal with |- CE _ (if ?c then _ else _) => destruct c end; [|apply CE_refl].
      eapply CE_trans; [|apply CE_signal_election]. ecf. }
    match goal with |- CE _ (if ?c then _ else _) => destruct c end; [|exact H2].
    eapply CE_trans; [exact H2|apply CE_become_leader].
Qed.

Lemma CE_is_send n peer : CE n (fst (l_is_send n peer)).
Proof.
  unfold l_is_send. destruct (negb (role_eqb (n_role n) Leader)); [apply CE_refl|].
  destruct (n_lii n =? 0); [apply CE_refl|].
  match goal with |- CE n (fst (match ?c with _ => _ end)) => destruct c as [[s o]|] end; cbn [fst];
    [apply CE_set_follower|apply CE_fail].
Qed.

Lemma CE_ae_send n peer : CE n (fst (l_ae_send n peer)).
Proof.
  unfold l_ae_send. destruct (_ || _); [apply CE_refl|].
  destruct (f_next (get_follower n peer) <=? n_lii n).
  - pose proof (CE_is_send n peer) as H. destruct (l_is_send n peer) as [n1 [q|]]; exact H.
  - destruct (next_index (n_log n) <? f_next (get_follower n peer)); cbn [fst]; [apply CE_fail|apply CE_refl].
Qed.

Lemma CE_ae_reply now n rid peer g q p : CE n (fst (l_ae_reply now n rid peer g q p)).
Proof.
  unfold l_ae_reply.
  destruct (_ || _); [apply CE_refl|].
  destruct (n_term n <? aer_term p); [cbn [fst]; apply CE_become_follower|].
  destruct (negb (ae_term q =? n_term n)); [apply CE_refl|].
  set (n1 := if is_voter (conf_of n) peer then bump_round n rid else n).
  set (n2 := if is_voter (conf_of n) peer && has_quorum (conf_of n1) (round_count n1 rid)
             then try_apply_ro now n1 (round_stamp n1 rid) else n1).
  assert (H1 : CE n n1) by (subst n1; destruct (is_voter (conf_of n) peer); [apply CE_bump|apply CE_refl]).
  assert (H2 : CE n n2).
  { eapply CE_trans; [exact H1|]. subst n2.
    destruct (is_voter (conf_of n) peer && has_quorum (conf_of n1) (round_count n1 rid)); [apply CE_try_apply_ro|apply CE_refl]. }
  clearbody n2. clear H1 n1.
  destruct (negb (aer_success p)).
  - destruct (aer_index p <=? n_lii _).
    + eapply CE_trans; [exact H2|]. eapply CE_trans; [apply CE_set_fobj|]. apply CE_is_send.
    + cbn [fst]. eapply CE_trans; [exact H2|apply CE_set_fobj].
  - match goal with |- CE n (fst (if ?c then _ else _)) => destruct c end; cbn [fst]; [|exact H2].
    eapply CE_trans; [exact H2|]. eapply CE_trans; [apply CE_set_fobj|].
    match goal with |- CE _ (if ?c then _ else _) => destruct c end; [apply CE_signal_commit|apply CE_refl].
Qed.

Lemma CE_is_reply now n peer g q resp : CE n (l_is_reply now n peer g q resp).
Proof.
  unfold l_is_reply.
  destruct (f_snap (fobj n peer g)) as [[s o]|]; [|apply CE_refl].
  destruct resp as [p|]; [|apply CE_refl].
  destruct (n_term n <? isr_term p); [apply CE_become_follower|].
  destruct (negb (isr_written p =? is_offset q)); [apply CE_set_fobj|].
  destruct (negb (is_done q)); [apply CE_refl|apply CE_set_fobj].
Qed.

Lemma CE_commit now n : CE n (lp_commit now n).
Proof.
  unfold lp_commit. set (n0 := n <| n_cv ::= _ |>). assert (H0 : CE n n0) by ecf. clearbody n0.
  destruct (negb (role_eqb (n_role n0) Leader)); [exact H0|].
  match goal with |- CE n (if ?c then _ else _) => destruct c end; [|exact H0].
  eapply CE_trans; [exact H0|]. eapply CE_trans; [|apply CE_send_ae_to_peers].
  eapply CE_trans; [|apply CE_signal_apply]. ecf.
Qed.

Lemma CE_fold_respond (f : node -> rop -> node) ops : (forall m o, CE m (f m o)) -> forall n, CE n (fold_left f ops n).
Proof.
  intros Hf. induction ops as [|o ops IH]; intros n; cbn [fold_left]; [apply CE_refl|].
  eapply CE_trans; [apply Hf|apply IH].
Qed.

Lemma CE_ro now n : CE n (lp_ro now n).
Proof.
  unfold lp_ro. set (n0 := n <| n_cv ::= _ |>). assert (H0 : CE n n0) by ecf. clearbody n0.
  destruct (_ || _); [exact H0|].
  eapply CE_trans; [exact H0|]. eapply CE_trans; [|apply CE_fold_respond].
  - ecf.
  - intros m o. destruct (ro_type o); [apply CE_respond|apply CE_respond|].
    destruct (lease_valid now m); apply CE_respond.
Qed.

Lemma CE_snapshot n : CE n (lp_snapshot n).
Proof.
  unfold lp_snapshot. set (n0 := n <| n_cv ::= _ |>). assert (H0 : CE n n0) by ecf. clearbody n0.
  destruct (_ || _); [exact H0|]. destruct (n_applied n0 <=? n_lii n0); [exact H0|].
  destruct (n_cconf n0) as [cc|]; [|exact H0]. destruct (n_applied n0 <? c_index cc); [exact H0|].
  destruct (log_get (n_log n0) (n_applied n0)) as [e|]; [|eapply CE_trans; [exact H0|apply CE_fail]].
  eapply CE_trans; [exact H0|].
  match goal with |- CE _ (if ?c then _ else _) => destruct c end; [apply CE_refl|].
  eapply CE_trans; [apply CE_close_snapshot|]. eapply CE_trans; [|apply CE_reset].
  eapply CE_trans; [|apply CE_compact]. ecf.
Qed.

Lemma CE_install_resume n : CE n (fst (lp_install_resume n)).
Proof.
  unfold lp_install_resume. destruct (n_iswait n) as [|q r]; [apply CE_refl|].
  destruct (install_can_resume n q); cbn [fst]; [|apply CE_refl].
  eapply CE_trans; [|apply CE_install_compact]. ecf.
Qed.

Lemma CE_upd_pending m f : CE m (m <| n_pending ::= f |>). Proof. ecf. Qed.
Lemma CE_upd_sv m v : CE m (m <| n_should_verify := v |>). Proof. ecf. Qed.
Lemma CE_upd_ro m f : CE m (m <| n_ro ::= f |>). Proof. ecf. Qed.
Lemma CE_upd_cfg m v : CE m (m <| n_cfg_fid := v |>). Proof. ecf. Qed.
Lemma CE_upd_applied m f : CE m (m <| n_applied ::= f |>). Proof. ecf. Qed.
Lemma CE_upd_fsm m a f : CE m (m <| n_fsm := a |> <| n_applies ::= f |>). Proof. ecf. Qed.

Lemma CE_submit now n fid ty p : CE n (api_submit now n fid ty p).
Proof.
  unfold api_submit. destruct (negb (role_eqb (n_role n) Leader)); [apply CE_respond|].
  destruct ty.
  - eapply CE_trans; [|apply CE_send_ae_to_peers]. eapply CE_trans; [|apply CE_upd_pending]. apply CE_append.
  - match goal with |- CE n (if ?c then _ else _) => destruct c end; [|apply CE_upd_ro].
    eapply CE_trans; [|apply CE_upd_sv]. eapply CE_trans; [|apply CE_send_ae_to_peers]. apply CE_upd_ro.
  - match goal with |- CE n (if ?c then _ else _) => destruct c end; [|apply CE_upd_ro].
    eapply CE_trans; [|apply CE_signal_ro]. apply CE_upd_ro.
Qed.

Lemma CE_heartbeat now n : CE n (l_heartbeat now n).
Proof. unfold l_heartbeat. destruct (_ || _); [apply CE_refl|apply CE_send_ae_to_peers]. Qed.

(* ---------------- CK: conf_of stays C ---------------- *)
Section Sticky.
Variable C : config.

Definition CK (n n' : node) : Prop := conf_of n = C -> conf_of n' = C.
Lemma CK_refl n : CK n n. Proof. intros H; exact H. Qed.
Lemma CK_trans a b c : CK a b -> CK b c -> CK a c. Proof. unfold CK. auto. Qed.
Lemma CK_E n n' : CE n n' -> CK n n'.
Proof. intros H Hc. rewrite (conf_of_E _ _ H). exact Hc. Qed.

Lemma sticky_of_conf m m' : n_conf m' = n_conf m -> conf_of m = C -> conf_of m' = C.
Proof. intros H Hc. rewrite (conf_of_eq _ _ H). exact Hc. Qed.

Lemma conf_of_upd_cconf m v : conf_of (m <| n_cconf := v |>) = conf_of m. Proof. reflexivity. Qed.
Lemma conf_of_set_conf m c : conf_of (m <| n_conf := Some c |>) = c. Proof. reflexivity. Qed.

Lemma CK_next_configuration now n next : cconf_p C next -> CK n (next_configuration now n next).
Proof.
  intros Hn. unfold next_configuration. destruct next as [nx|]; [|apply CK_E, CE_fail].
  assert (Enx : nx = C) by (apply Hn; reflexivity). intros _. cbv zeta.
  match goal with |- conf_of (?x <| n_conf := Some nx |>) = C => generalize x end.
  intros y. rewrite conf_of_set_conf. exact Enx.
Qed.

Lemma CK_apply_configuration now n c : c = C -> CK n (apply_configuration now n c).
Proof.
  intros ->. unfold apply_configuration.
  assert (H : CK n (next_configuration now n (Some C) <| n_cconf := Some C |>)).
  { intros Hc. rewrite conf_of_upd_cconf. apply (CK_next_configuration now n (Some C)); [apply cconf_p_C|exact Hc]. }
  destruct (n_cconf n) as [cc|]; [|exact H]. destruct (c_index C <=? c_index cc); [apply CK_refl|exact H].
Qed.

(* ---- AppendEntries: nextConfiguration(r.committedConfiguration) after a truncation ---- *)
Lemma CK_ae_scan now es : forall n n4 l,
  cconf_p C (n_cconf n) -> ae_scan now n es = Some (n4, l) -> CK n n4.
Proof.
  induction es as [|e es IH]; intros n n4 l Hcc H; cbn [ae_scan] in H.
  - injection H as <- _. apply CK_refl.
  - destruct (last_index (n_log n) <? e_index e); [injection H as <- _; apply CK_refl|].
    destruct (log_get (n_log n) (e_index e)) as [ex|]; [|discriminate].
    destruct ((e_index ex =? e_index e) && negb (e_term ex =? e_term e)).
    + injection H as <- _. pose proof (CE_truncate n (e_index e)) as HE.
      destruct (e_index e <=? c_index (conf_of (truncate_log n (e_index e)))); [|apply CK_E, HE].
      eapply CK_trans; [apply CK_E, HE|]. apply CK_next_configuration.
      destruct HE as [_ HE]. rewrite HE. exact Hcc.
    + eapply IH; eassumption.
Qed.

Lemma CK_append_entries now n q : cconf_p C (n_cconf n) -> CK n (fst (h_append_entries now n q)).
Proof.
  intros Hcc. unfold h_append_entries.
  destruct (role_eqb (n_role n) Shutdown); [apply CK_refl|].
  destruct (ae_term q <? n_term n); [apply CK_refl|].
  set (n1 := n <| n_contact := now |> <| n_leader := Some (ae_leader q) |>).
  assert (H1 : CE n n1) by ecf.
  set (n2 := if n_term n1 <? ae_term q then become_follower now n1 (ae_leader q) (ae_term q) else n1).
  assert (H2 : CE n1 n2).
  { subst n2. destruct (n_term n1 <? ae_term q); [apply CE_become_follower|apply CE_refl]. }
  set (n3 := if (ae_term q =? n_term n2) && _ then become_follower now n2 (ae_leader q) (ae_term q) else n2).
  assert (H3 : CE n2 n3).
  { subst n3. destruct ((ae_term q =? n_term n2) && _); [apply CE_become_follower|apply CE_refl]. }
  assert (H03 : CE n n3) by (eapply CE_trans; [exact H1|eapply CE_trans; eassumption]).
  clearbody n3. clear H1 H2 H3 n2 n1.
  assert (Hcc3 : cconf_p C (n_cconf n3)) by (destruct H03 as [_ H]; rewrite H; exact Hcc).
  apply CK_E in H03.
  destruct (ae_prev_index q <? n_lii n3); [exact H03|].
  destruct (next_index (n_log n3) <=? ae_prev_index q); [exact H03|].
  destruct ((n_lii n3 =? ae_prev_index q) && negb (n_lit n3 =? ae_prev_term q)); [exact H03|].
  match goal with |- CK n (fst (match ?c with _ => _ end)) => destruct c as [[idx|]|] end.
  - exact H03.
  - cbn [fst]. eapply CK_trans; [exact H03|apply CK_E, CE_fail].
  - destruct (ae_scan now n3 (ae_entries q)) as [[n4 to_append]|] eqn:Es.
    + cbn [fst]. eapply CK_trans; [exact H03|].
      eapply CK_trans; [eapply CK_ae_scan; [exact Hcc3|exact Es]|]. apply CK_E.
      eapply CE_trans; [apply CE_append|].
      match goal with |- CE _ (if ?c then _ else _) => destruct c end; [|apply CE_refl].
      eapply CE_trans; [|apply CE_signal_apply]. ecf.
    + cbn [fst]. eapply CK_trans; [exact H03|apply CK_E, CE_fail].
Qed.

(* ---- InstallSnapshot ---- *)
Lemma CK_install_restore now n q : is_conf q = C -> CK n (h_install_restore now n q).
Proof.
  intros Hq. unfold h_install_restore. destruct (last (map Some (n_snaps n)) None) as [s|]; [|apply CK_E, CE_fail].
  destruct (role_eqb _ Shutdown); [apply CK_E; ecf|].
  eapply CK_trans; [|apply CK_apply_configuration; exact Hq]. apply CK_E.
  eapply CE_trans; [|apply CE_discard]. ecf.
Qed.

Lemma CK_install_snapshot now n q : is_conf q = C -> CK n (fst (h_install_snapshot now n q)).
Proof.
  intros Hq. unfold h_install_snapshot.
  destruct (role_eqb (n_role n) Shutdown); [apply CK_refl|].
  destruct (is_term q <? n_term n); [apply CK_refl|].
  set (n1 := if n_term n <? is_term q then become_follower now n (is_leader q) (is_term q) else n).
  assert (H1 : CE n n1).
  { subst n1. destruct (n_term n <? is_term q); [apply CE_become_follower|apply CE_refl]. }
  set (n2 := if (is_term q =? n_term n1) && _ then become_follower now n1 (is_leader q) (is_term q) else n1).
  assert (H2 : CE n1 n2).
  { subst n2. destruct ((is_term q =? n_term n1) && _); [apply CE_become_follower|apply CE_refl]. }
  set (n3 := n2 <| n_contact := now |>).
  assert (H03 : CE n n3).
  { eapply CE_trans; [exact H1|]. eapply CE_trans; [exact H2|]. ecf. }
  clearbody n3. clear H1 H2 n1 n2.
  destruct ((is_lii q <=? n_lii n3) || (is_lii q <=? n_applied n3)); [apply CK_E; exact H03|].
  set (n4 := match n_partial n3 with Some p => if s_index p <? is_lii q then n3 <| n_partial := None |> else n3 | None => n3 end).
  assert (H4 : CE n3 n4).
  { subst n4. destruct (n_partial n3) as [p|]; [|apply CE_refl]. destruct (s_index p <? is_lii q); [ecf|apply CE_refl]. }
  assert (H04 : CE n n4) by (eapply CE_trans; eassumption).
  clearbody n4. clear H4 H03 n3.
  match goal with |- CK n (fst (if ?c then _ else _)) => destruct c end.
  { cbn [fst]. apply CK_E. eapply CE_trans; [exact H04|]. ecf. }
  match goal with |- CK n (fst (if ?c then _ else _)) => destruct c end.
  { cbn [fst]. apply CK_E. eapply CE_trans; [exact H04|]. ecf. }
  match goal with |- CK n (fst (if ?c then _ else _)) => destruct c end.
  - match goal with |- CK n (fst (if ?c then _ else _)) => destruct c end; cbn [fst]; apply CK_E;
      (eapply CE_trans; [exact H04|]).
    + eapply CE_trans; [apply CE_close_snapshot|]. ecf.
    + eapply CE_trans; [|apply CE_install_compact]. eapply CE_trans; [apply CE_close_snapshot|]. ecf.
  - cbn [fst]. eapply CK_trans; [apply CK_E; exact H04|].
    eapply CK_trans; [|apply CK_install_restore; exact Hq]. apply CK_E.
    eapply CE_trans; [apply CE_close_snapshot|]. ecf.
Qed.

(* ---- applyLoop: applyConfiguration(the KConf of a log entry) ---- *)
Lemma sticky_lp_apply_one now n : CI C n -> conf_of n = C -> conf_of (lp_apply_one now n) = C.
Proof.
  intros H Hc. unfold lp_apply_one. destruct (log_get (n_log n) (n_applied n + 1)) as [e|] eqn:G;
    [|apply (CK_E _ _ (CE_fail Fatal n) Hc)].
  pose proof (log_p_get C _ _ _ (ci_log _ _ H) G) as He.
  set (n1 := match e_kind e with KNoop => n | _ => _ end).
  assert (H1 : conf_of n1 = C).
  { subst n1. destruct (e_kind e) as [|p|c] eqn:Ek.
    - exact Hc.
    - match goal with |- conf_of (match ?x with _ => _ end) = C => destruct x end.
      + revert Hc. apply CK_E. eapply CE_trans; [|apply CE_respond]. eapply CE_trans; [|apply CE_upd_pending]. apply CE_upd_fsm.
      + revert Hc. apply CK_E. apply CE_upd_fsm.
    - assert (Ec : c = C) by (apply He; exact Ek).
      pose proof (CK_apply_configuration now n c Ec Hc) as H'.
      match goal with |- conf_of (match ?x with _ => _ end) = C => destruct x end; [|exact H'].
      revert H'. apply CK_E. eapply CE_trans; [|apply CE_upd_cfg]. apply CE_respond. }
  clearbody n1. revert H1. apply CK_E.
  match goal with |- CE _ (if ?c then _ else _) => destruct c end;
    [eapply CE_trans; [|apply CE_signal_snapshot]|]; apply CE_upd_applied.
Qed.

Lemma sticky_lp_apply_run now fuel : forall n, CI C n -> conf_of n = C -> conf_of (lp_apply_run fuel now n) = C.
Proof.
  induction fuel as [|f IH]; intros n H Hc; cbn [lp_apply_run]; [exact Hc|].
  match goal with |- conf_of (if ?c then _ else _) = C => destruct c end; [|exact Hc].
  apply IH; [apply P_apply_one, H|apply sticky_lp_apply_one; assumption].
Qed.

(* ---------------- the step-level functions ---------------- *)
Lemma sticky_signal_election m : CI C m -> conf_of m = C -> conf_of (signal_election m) = C.
Proof. intros _. apply CK_E, CE_signal_election. Qed.

Lemma sticky_l_election now m : CI C m -> conf_of m = C -> conf_of (l_election now m) = C.
Proof. intros _. apply CK_E, CE_election. Qed.

Lemma sticky_l_heartbeat now m : CI C m -> conf_of m = C -> conf_of (l_heartbeat now m) = C.
Proof. intros _. apply CK_E, CE_heartbeat. Qed.

Lemma sticky_l_ae_send m peer : CI C m -> conf_of m = C -> conf_of (fst (l_ae_send m peer)) = C.
Proof. intros _. apply CK_E, CE_ae_send. Qed.

Lemma sticky_lp_commit now m : CI C m -> conf_of m = C -> conf_of (lp_commit now m) = C.
Proof. intros _. apply CK_E, CE_commit. Qed.

Lemma sticky_lp_apply now m : CI C m -> conf_of m = C -> conf_of (lp_apply now m) = C.
Proof.
  intros H Hc. unfold lp_apply. set (n0 := m <| n_cv ::= _ |>).
  assert (H0 : CI C n0) by (revert H; apply P_of_cf; reflexivity).
  assert (Hc0 : conf_of n0 = C) by exact Hc.
  clearbody n0.
  pose proof (sticky_lp_apply_run now (N.to_nat (n_commit n0 - n_applied n0)) n0 H0 Hc0) as H1.
  match goal with |- conf_of (if ?c then _ else _) = C => destruct c end; [|exact H1].
  revert H1. apply CK_E, CE_signal_ro.
Qed.

Lemma sticky_lp_ro now m : CI C m -> conf_of m = C -> conf_of (lp_ro now m) = C.
Proof. intros _. apply CK_E, CE_ro. Qed.

Lemma sticky_lp_snapshot m :
  CI C m -> conf_of m = C -> conf_of ((lp_snapshot (m <| n_snap_every := 1 |>)) <| n_snap_every := 0 |>) = C.
Proof.
  intros _. apply CK_E. apply CE_trans with (lp_snapshot (m <| n_snap_every := 1 |>)); [|ecf].
  eapply CE_trans; [|apply CE_snapshot]. ecf.
Qed.

Lemma sticky_lp_install_resume m : CI C m -> conf_of m = C -> conf_of (fst (lp_install_resume m)) = C.
Proof. intros _. apply CK_E, CE_install_resume. Qed.

Lemma sticky_h_append_entries now m q : CI C m -> conf_of m = C -> conf_of (fst (h_append_entries now m q)) = C.
Proof. intros H. apply CK_append_entries, (ci_cconf _ _ H). Qed.
Lemma sticky_h_request_vote now m q : CI C m -> conf_of m = C -> conf_of (fst (h_request_vote now m q)) = C.
Proof. intros _. apply CK_E, CE_request_vote. Qed.
Lemma sticky_h_install_snapshot now m q :
  is_conf q = C -> CI C m -> conf_of m = C -> conf_of (fst (h_install_snapshot now m q)) = C.
Proof. intros Hq _. apply CK_install_snapshot, Hq. Qed.

Lemma sticky_run_handler now m q :
  CI C m -> conf_of m = C -> req_p C q -> conf_of (fst (fst (run_handler now m q))) = C.
Proof.
  intros H Hc Hq. unfold run_handler. destruct q as [r|r|r].
  - pose proof (sticky_h_append_entries now m r H Hc) as H1. destruct (h_append_entries now m r). exact H1.
  - pose proof (sticky_h_request_vote now m r H Hc) as H1. destruct (h_request_vote now m r). exact H1.
  - pose proof (sticky_h_install_snapshot now m r Hq H Hc) as H1. destruct (h_install_snapshot now m r). exact H1.
Qed.

Lemma sticky_l_rv_reply now m rid peer pv q p :
  CI C m -> conf_of m = C -> conf_of (l_rv_reply now m rid peer pv q p) = C.
Proof. intros _. apply CK_E, CE_rv_reply. Qed.

Lemma sticky_l_ae_reply now m rid peer gen q p :
  CI C m -> conf_of m = C -> conf_of (fst (l_ae_reply now m rid peer gen q p)) = C.
Proof. intros _. apply CK_E, CE_ae_reply. Qed.

Lemma sticky_l_is_reply now m peer gen q resp :
  CI C m -> conf_of m = C -> conf_of (l_is_reply now m peer gen q resp) = C.
Proof. intros _. apply CK_E, CE_is_reply. Qed.

Lemma sticky_api_submit now m fid ty p :
  CI C m -> conf_of m = C -> conf_of (api_submit now m fid ty p) = C.
Proof. intros _. apply CK_E, CE_submit. Qed.

End Sticky.

Print Assumptions sticky_run_handler.
