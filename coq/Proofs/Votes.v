(* C08, cluster form: over EVERY step of EVERY node - handlers, timers, replies,
   client calls, crashes at any storage write, restarts - the persistent term never
   decreases and a persistent vote, once cast in a term, stays as long as the
   term does.  (The same-term becomeFollower of the unrepaired code broke the
   second part: defect D2.) *)
From RaftV Require Import Cluster.World Proofs.Frame.
Open Scope N_scope.

(* memory agrees with disk unless the node is frozen at a refused write *)
Definition coh (n : node) : Prop := n_frozen n = false -> n_pterm n = n_term n /\ n_pvote n = n_vote n.

Definition tv_le (a b : node) : Prop :=
  n_pterm a <= n_pterm b /\ (n_pterm b = n_pterm a -> forall c, n_pvote a = Some c -> n_pvote b = Some c).

(* Q: term/vote (memory and disk) untouched, frozen only ever switches on *)
Record Q (n n' : node) : Prop := {
  q_id : n_id n' = n_id n; q_term : n_term n' = n_term n; q_vote : n_vote n' = n_vote n;
  q_pterm : n_pterm n' = n_pterm n; q_pvote : n_pvote n' = n_pvote n;
  q_frozen : n_frozen n' = false -> n_frozen n = false }.

(* R: what every step guarantees *)
Record R (n n' : node) : Prop := {
  r_id : n_id n' = n_id n;
  r_frozen : n_frozen n' = false -> n_frozen n = false;
  r_tv : tv_le n n';
  r_coh : coh n -> coh n' }.

Lemma Q_refl n : Q n n. Proof. constructor; auto. Qed.
Lemma Q_trans a b c : Q a b -> Q b c -> Q a c.
Proof. intros [] []; constructor; try congruence; auto. Qed.

Lemma tv_le_refl n : tv_le n n. Proof. split; [lia|auto]. Qed.
Lemma tv_le_trans a b c : tv_le a b -> tv_le b c -> tv_le a c.
Proof.
  intros [H1 H2] [H3 H4]. split; [lia|].
  intros E v Hv. assert (n_pterm b = n_pterm a) by lia. apply H4; [lia|]. apply H2; assumption.
Qed.

Lemma R_refl n : R n n. Proof. constructor; auto using tv_le_refl. Qed.
Lemma R_trans a b c : R a b -> R b c -> R a c.
Proof.
  intros [] []. constructor; try congruence; auto.
  eapply tv_le_trans; eassumption.
Qed.

Lemma Q_R n n' : Q n n' -> R n n'.
Proof.
  intros [Hid Ht Hv Hpt Hpv Hf]. constructor; auto.
  - split; [lia|]. intros _ c Hc. congruence.
  - unfold coh. intros H F. rewrite Hpt, Hpv, Ht, Hv. apply H. auto.
Qed.

(* plain updates of other fields *)
Definition tvf (n : node) := (n_id n, n_term n, n_vote n, n_pterm n, n_pvote n, n_frozen n).
Lemma Q_of_tvf n n' : tvf n' = tvf n -> Q n n'.
Proof. unfold tvf. intros H. injection H as H1 H2 H3 H4 H5 H6. constructor; auto. intros; congruence. Qed.

(* the base node is abstracted first: conversion on large node terms is slow *)
Ltac qtv :=
  match goal with
  | |- Q ?x _ => first [ is_var x; apply Q_of_tvf; reflexivity
                       | let y := fresh "base" in generalize x; intro y; apply Q_of_tvf; reflexivity
                       | apply Q_of_tvf; reflexivity ]
  end.

Lemma Q_same_core n n' : same_core n' n -> Q n n'.
Proof. intros []. constructor; auto. intros; congruence. Qed.

Lemma Q_tick n : Q n (snd (tick_write n)).
Proof.
  unfold tick_write. destruct (n_frozen n) eqn:F; [apply Q_refl|].
  destruct (n_budget n) as [k|]; [|apply Q_refl].
  destruct (k =? 0); constructor; cbn; auto.
Qed.

Lemma tick_false_frozen n : fst (tick_write n) = false -> n_frozen (snd (tick_write n)) = true.
Proof.
  unfold tick_write. destruct (n_frozen n) eqn:F; [auto|].
  destruct (n_budget n) as [k|]; [|discriminate]. destruct (k =? 0); [reflexivity|discriminate].
Qed.
Lemma tick_true_unfrozen n : fst (tick_write n) = true -> n_frozen n = false /\ n_frozen (snd (tick_write n)) = false.
Proof.
  unfold tick_write. destruct (n_frozen n) eqn:F; [discriminate|].
  destruct (n_budget n) as [k|]; [|auto]. destruct (k =? 0); [discriminate|auto].
Qed.

Lemma Q_respond n f r : Q n (respond n f r). Proof. apply Q_same_core, sc_respond. Qed.
Lemma Q_respond_all n fs r : Q n (respond_all n fs r). Proof. apply Q_same_core, sc_respond_all. Qed.
Lemma Q_new_opmanager now n : Q n (new_opmanager now n). Proof. qtv. Qed.
Lemma Q_reset n : Q n (reset_snapshot_files n). Proof. qtv. Qed.
Lemma Q_notify n : Q n (notify_lost_leadership n). Proof. apply Q_same_core, sc_notify. Qed.
Lemma Q_cancel n : Q n (cancel_conf_change n). Proof. apply Q_same_core, sc_cancel. Qed.
Lemma Q_fail o n : Q n (fail o n). Proof. unfold fail. destruct (n_out n); [qtv|apply Q_refl|apply Q_refl]. Qed.
Lemma Q_stepdown now n : Q n (stepdown now n).
Proof.
  unfold stepdown. eapply Q_trans; [|apply Q_cancel]. eapply Q_trans; [|apply Q_new_opmanager].
  eapply Q_trans; [|apply Q_notify]. qtv.
Qed.

Lemma Q_write (f : node -> node) n :
  (forall m, tvf (f m) = tvf m) ->
  Q n (let (ok, n1) := tick_write n in if ok then f n1 else n1).
Proof.
  intros Hf. pose proof (Q_tick n) as H. destruct (tick_write n) as [ok n1]. cbn [snd] in H.
  destruct ok; [|exact H]. eapply Q_trans; [exact H|]. apply Q_of_tvf, Hf.
Qed.

Lemma Q_truncate n i : Q n (truncate_log n i). Proof. apply Q_write. reflexivity. Qed.
Lemma Q_compact n i : Q n (compact_log n i). Proof. apply Q_write. reflexivity. Qed.
Lemma Q_discard n i t : Q n (discard_log n i t). Proof. apply Q_write. reflexivity. Qed.
Lemma Q_close_snapshot n s : Q n (close_snapshot n s). Proof. apply Q_write. reflexivity. Qed.
Lemma Q_append es : forall n, Q n (append_entries n es).
Proof.
  induction es as [|e es IH]; intros n; cbn [append_entries]; [apply Q_refl|].
  pose proof (Q_tick n) as H. destruct (tick_write n) as [ok n1]. cbn [snd] in H.
  destruct ok; [|exact H]. eapply Q_trans; [exact H|]. eapply Q_trans; [|apply IH]. qtv.
Qed.

Lemma Q_new_follower n id nx : Q n (new_follower n id nx). Proof. unfold new_follower. qtv. Qed.
Lemma Q_new_followers nx ids : forall n, Q n (fold_left (fun m id => new_follower m id nx) ids n).
Proof.
  induction ids as [|id ids IH]; intros n; cbn [fold_left]; [apply Q_refl|].
  eapply Q_trans; [apply Q_new_follower|apply IH].
Qed.

Lemma Q_next_configuration now n c : Q n (next_configuration now n c).
Proof.
  unfold next_configuration. destruct c as [nx|]; [|apply Q_fail].
  set (n1 := if is_member nx (n_id n) then n else _).
  assert (H1 : Q n n1).
  { subst n1. destruct (is_member nx (n_id n)); [apply Q_refl|].
    eapply Q_trans; [|apply Q_reset]. destruct (role_eqb (n_role n) Leader); [apply Q_stepdown|apply Q_refl]. }
  clearbody n1. eapply Q_trans; [exact H1|].
  match goal with |- Q n1 (fold_left ?f ?l ?n2 <| n_conf := ?c |>) =>
    apply Q_trans with n2; [qtv|]; apply Q_trans with (fold_left f l n2); [apply Q_new_followers|qtv] end.
Qed.

Lemma Q_apply_configuration now n c : Q n (apply_configuration now n c).
Proof.
  unfold apply_configuration. destruct (n_cconf n) as [cc|].
  - destruct (c_index c <=? c_index cc); [apply Q_refl|].
    eapply Q_trans; [apply Q_next_configuration|]. qtv.
  - eapply Q_trans; [apply Q_next_configuration|]. qtv.
Qed.

(* ---- the transitions that do change term / vote ---- *)
Lemma persist_frozen m : n_frozen (persist m) = n_frozen (snd (tick_write m)).
Proof. unfold persist. destruct (tick_write m) as [ok m1]. destruct ok; reflexivity. Qed.

Lemma R_set_persist n t v :
  coh n -> n_term n <= t ->
  (t = n_term n -> forall c, n_vote n = Some c -> v = Some c) ->
  R n (persist (n <| n_term := t |> <| n_vote := v |>)).
Proof.
  intros Hc Ht Hv. set (m := n <| n_term := t |> <| n_vote := v |>).
  pose proof (persist_core m) as HP. cbn zeta in HP. destruct HP as (P1 & P2 & _ & _ & Pid & _ & P5 & P6).
  pose proof (persist_frozen m) as PF.
  assert (Mid : n_id m = n_id n) by reflexivity.
  assert (Mt : n_term m = t) by reflexivity. assert (Mv : n_vote m = v) by reflexivity.
  assert (Mpt : n_pterm m = n_pterm n) by reflexivity. assert (Mpv : n_pvote m = n_pvote n) by reflexivity.
  assert (Mf : n_frozen m = n_frozen n) by reflexivity.
  destruct (fst (tick_write m)) eqn:E.
  - destruct (tick_true_unfrozen m E) as [F0 F1]. rewrite Mf in F0.
    destruct (Hc F0) as [C1 C2].
    constructor.
    + congruence.
    + intros _. exact F0.
    + split; [rewrite P5, Mt, C1; exact Ht|].
      rewrite P5, P6, Mt, Mv. intros E' c Hcv. apply Hv; [lia|]. rewrite <- C2. exact Hcv.
    + intros _ _. rewrite P5, P6, P1, P2. split; reflexivity.
  - pose proof (tick_false_frozen m E) as F1.
    constructor.
    + congruence.
    + intros F. rewrite PF, F1 in F. discriminate.
    + unfold tv_le. rewrite P5, P6, Mpt, Mpv. split; [lia|auto].
    + intros _ F. rewrite PF, F1 in F. discriminate.
Qed.

Lemma R_become_follower now n l t : coh n -> n_term n <= t -> R n (become_follower now n l t).
Proof.
  intros Hc Ht.
  assert (H1 : R n (persist (bf_pre n l t))).
  { unfold bf_pre.
    replace (n <| n_role := Follower |> <| n_term := t |> <| n_leader := Some l |>
               <| n_vote := if t =? n_term n then n_vote n else None |>)
      with ((n <| n_role := Follower |> <| n_leader := Some l |>) <| n_term := t |>
               <| n_vote := if t =? n_term n then n_vote n else None |>) by reflexivity.
    eapply R_trans; [apply Q_R; instantiate (1 := n <| n_role := Follower |> <| n_leader := Some l |>); qtv|].
    apply R_set_persist.
    - exact Hc.
    - exact Ht.
    - intros E c Hcv. cbn in *. subst t. rewrite N.eqb_refl. exact Hcv. }
  eapply R_trans; [exact H1|]. apply Q_R, Q_same_core, become_follower_core.
Qed.

(* ---- RequestVote ---- *)
Lemma R_request_vote now n q : coh n -> R n (fst (h_request_vote now n q)).
Proof.
  intros Hc. unfold h_request_vote.
  destruct (role_eqb (n_role n) Shutdown); [apply R_refl|].
  destruct (lease_valid now n || recent_contact now n); [apply R_refl|].
  destruct (N.ltb_spec (rv_term q) (n_term n)) as [Hlt|Hge]; [apply R_refl|].
  set (n1 := if negb (rv_prevote q) && (n_term n <? rv_term q) then become_follower now n (rv_cand q) (rv_term q) else n).
  assert (H1 : R n n1).
  { subst n1. destruct (negb (rv_prevote q) && (n_term n <? rv_term q)); [|apply R_refl].
    apply R_become_follower; assumption. }
  destruct (negb (rv_prevote q) && match n_vote n1 with Some v => negb (v =? rv_cand q) | None => false end) eqn:Ev;
    [exact H1|].
  destruct ((rv_last_term q <? last_term (n_log n1)) || _); [exact H1|].
  cbn [fst]. destruct (rv_prevote q) eqn:Ep; [exact H1|].
  eapply R_trans; [exact H1|].
  replace (n1 <| n_contact := now |> <| n_vote := Some (rv_cand q) |>)
    with ((n1 <| n_contact := now |>) <| n_term := n_term (n1 <| n_contact := now |>) |> <| n_vote := Some (rv_cand q) |>)
    by (destruct n1; reflexivity).
  eapply R_trans; [apply Q_R; instantiate (1 := n1 <| n_contact := now |>); qtv|].
  apply R_set_persist.
  - destruct H1 as [_ _ _ C]. specialize (C Hc). unfold coh in *. exact C.
  - apply N.le_refl.
  - intros _ c Hcv. change (n_vote (n1 <| n_contact := now |>)) with (n_vote n1) in Hcv.
    cbn [negb andb] in Ev. rewrite Hcv in Ev.
    destruct (N.eqb_spec c (rv_cand q)); [subst; reflexivity|discriminate].
Qed.

(* ---- AppendEntries ---- *)
Lemma Q_ae_scan now es : forall n n4 l, ae_scan now n es = Some (n4, l) -> Q n n4.
Proof.
  induction es as [|e es IH]; intros n n4 l H; cbn [ae_scan] in H.
  - injection H as <- _. apply Q_refl.
  - destruct (last_index (n_log n) <? e_index e); [injection H as <- _; apply Q_refl|].
    destruct (log_get (n_log n) (e_index e)) as [ex|]; [|discriminate].
    destruct ((e_index ex =? e_index e) && negb (e_term ex =? e_term e)).
    + injection H as <- _.
      destruct (e_index e <=? c_index (conf_of (truncate_log n (e_index e)))).
      * eapply Q_trans; [apply Q_truncate|apply Q_next_configuration].
      * apply Q_truncate.
    + eapply IH; exact H.
Qed.

Lemma coh_R n n' : R n n' -> coh n -> coh n'. Proof. intros [_ _ _ C]; exact C. Qed.

Lemma R_append_entries now n q : coh n -> R n (fst (h_append_entries now n q)).
Proof.
  intros Hc. unfold h_append_entries.
  destruct (role_eqb (n_role n) Shutdown); [apply R_refl|].
  destruct (N.ltb_spec (ae_term q) (n_term n)) as [Hlt|Hge]; [apply R_refl|].
  set (n1 := n <| n_contact := now |> <| n_leader := Some (ae_leader q) |>).
  assert (H1 : R n n1) by (apply Q_R; qtv).
  assert (T1 : n_term n1 = n_term n) by reflexivity.
  set (n2 := if n_term n1 <? ae_term q then become_follower now n1 (ae_leader q) (ae_term q) else n1).
  assert (H2 : R n1 n2).
  { subst n2. destruct (N.ltb_spec (n_term n1) (ae_term q)); [|apply R_refl].
    apply R_become_follower; [eapply coh_R; eassumption|lia]. }
  set (n3 := if (ae_term q =? n_term n2) && _ then become_follower now n2 (ae_leader q) (ae_term q) else n2).
  assert (H3 : R n2 n3).
  { subst n3. destruct (N.eqb_spec (ae_term q) (n_term n2)) as [E|E]; cbn [andb]; [|apply R_refl].
    destruct (role_eqb (n_role n2) Candidate || role_eqb (n_role n2) PreCandidate); [|apply R_refl].
    apply R_become_follower; [eapply coh_R; [exact H2|eapply coh_R; eassumption]|lia]. }
  assert (H03 : R n n3) by (eapply R_trans; [exact H1|eapply R_trans; eassumption]).
  destruct (ae_prev_index q <? n_lii n3); [exact H03|].
  destruct (next_index (n_log n3) <=? ae_prev_index q); [exact H03|].
  destruct ((n_lii n3 =? ae_prev_index q) && negb (n_lit n3 =? ae_prev_term q)); [exact H03|].
  match goal with |- R n (fst (match ?c with _ => _ end)) => destruct c as [[idx|]|] end.
  - exact H03.
  - cbn [fst]. eapply R_trans; [exact H03|apply Q_R, Q_fail].
  - destruct (ae_scan now n3 (ae_entries q)) as [[n4 to_append]|] eqn:Es.
    + cbn [fst]. eapply R_trans; [exact H03|]. apply Q_R.
      eapply Q_trans; [eapply Q_ae_scan; exact Es|].
      eapply Q_trans; [apply Q_append|].
      match goal with |- Q _ (if ?c then _ else _) => destruct c end; [|apply Q_refl].
      unfold signal_apply. qtv.
    + cbn [fst]. eapply R_trans; [exact H03|apply Q_R, Q_fail].
Qed.

(* ---- InstallSnapshot ---- *)
Lemma Q_install_compact n q : Q n (h_install_compact n q).
Proof. unfold h_install_compact. destruct (_ || _); [apply Q_refl|apply Q_compact]. Qed.

Lemma Q_install_restore now n q : Q n (h_install_restore now n q).
Proof.
  unfold h_install_restore. destruct (last (map Some (n_snaps n)) None) as [s|]; [|apply Q_fail].
  destruct (role_eqb _ Shutdown); [qtv|].
  eapply Q_trans; [|apply Q_apply_configuration]. eapply Q_trans; [|apply Q_discard]. qtv.
Qed.

Lemma R_install_snapshot now n q : coh n -> R n (fst (h_install_snapshot now n q)).
Proof.
  intros Hc. unfold h_install_snapshot.
  destruct (role_eqb (n_role n) Shutdown); [apply R_refl|].
  destruct (N.ltb_spec (is_term q) (n_term n)) as [Hlt|Hge]; [apply R_refl|].
  set (n1 := if n_term n <? is_term q then become_follower now n (is_leader q) (is_term q) else n).
  assert (H1 : R n n1).
  { subst n1. destruct (N.ltb_spec (n_term n) (is_term q)); [|apply R_refl]. apply R_become_follower; [exact Hc|lia]. }
  set (n2 := if (is_term q =? n_term n1) && _ then become_follower now n1 (is_leader q) (is_term q) else n1).
  assert (H2 : R n1 n2).
  { subst n2. destruct (N.eqb_spec (is_term q) (n_term n1)) as [E|E]; cbn [andb]; [|apply R_refl].
    destruct (role_eqb (n_role n1) Candidate || role_eqb (n_role n1) PreCandidate); [|apply R_refl].
    apply R_become_follower; [eapply coh_R; eassumption|lia]. }
  set (n3 := n2 <| n_contact := now |>).
  assert (H03 : R n n3).
  { eapply R_trans; [exact H1|]. eapply R_trans; [exact H2|]. apply Q_R. qtv. }
  destruct ((is_lii q <=? n_lii n3) || (is_lii q <=? n_applied n3)); [exact H03|].
  set (n4 := match n_partial n3 with Some p => if s_index p <? is_lii q then n3 <| n_partial := None |> else n3 | None => n3 end).
  assert (H4 : Q n3 n4).
  { subst n4. destruct (n_partial n3) as [p|]; [|apply Q_refl]. destruct (s_index p <? is_lii q); [qtv|apply Q_refl]. }
  assert (H04 : R n n4) by (eapply R_trans; [exact H03|apply Q_R; exact H4]).
  match goal with |- R n (fst (if ?c then _ else _)) => destruct c end.
  - cbn [fst]. eapply R_trans; [exact H04|]. apply Q_R. qtv.
  - match goal with |- R n (fst (if ?c then _ else _)) => destruct c end.
    + cbn [fst]. eapply R_trans; [exact H04|]. apply Q_R. qtv.
    + match goal with |- R n (fst (if ?c then _ else _)) => destruct c end.
      * match goal with |- R n (fst (if ?c then _ else _)) => destruct c end; cbn [fst];
          (eapply R_trans; [exact H04|]); apply Q_R.
        -- eapply Q_trans; [apply Q_close_snapshot|]. qtv.
        -- eapply Q_trans; [|apply Q_install_compact]. eapply Q_trans; [apply Q_close_snapshot|]. qtv.
      * cbn [fst]. eapply R_trans; [exact H04|]. apply Q_R.
        eapply Q_trans; [|apply Q_install_restore]. eapply Q_trans; [apply Q_close_snapshot|]. qtv.
Qed.

(* ---- sender side, loops, API: everything except becomeFollower / becomeCandidate is Q ---- *)
Lemma Q_try_apply_ro now n s : Q n (try_apply_ro now n s). Proof. unfold try_apply_ro, signal_ro. qtv. Qed.

Lemma Q_send_ae_to_peers now n : Q n (send_ae_to_peers now n).
Proof.
  unfold send_ae_to_peers.
  set (n0 := n <| n_hb_rounds ::= N.succ |>).
  assert (H0 : Q n n0) by qtv.
  set (n1 := if is_single (conf_of n) (n_id n) then _ else n0).
  assert (H1 : Q n0 n1).
  { subst n1. destruct (is_single (conf_of n) (n_id n)); [|apply Q_refl].
    eapply Q_trans; [|apply Q_try_apply_ro].
    destruct (n_commit n0 <? last_index (n_log n0)); [unfold signal_commit; qtv|apply Q_refl]. }
  unfold new_round. cbn [fst snd].
  eapply Q_trans; [exact H0|]. eapply Q_trans; [exact H1|]. qtv.
Qed.

Lemma Q_upd_followers n f : Q n (n <| n_followers ::= f |>). Proof. qtv. Qed.

Lemma Q_become_leader now n : Q n (become_leader now n).
Proof.
  unfold become_leader.
  eapply Q_trans; [|apply Q_send_ae_to_peers]. eapply Q_trans; [|apply Q_append].
  eapply Q_trans; [|apply Q_reset].
  apply Q_trans with (new_opmanager now (n <| n_role := Leader |>)); [|apply Q_upd_followers].
  eapply Q_trans; [|apply Q_new_opmanager]. qtv.
Qed.

Lemma R_send_rv_to_peers now n : coh n -> R n (send_rv_to_peers now n).
Proof.
  intros Hc. unfold send_rv_to_peers. destruct (is_single (conf_of n) (n_id n)).
  - eapply R_trans; [|apply Q_R, Q_become_leader].
    destruct (role_eqb (n_role n) PreCandidate); [|apply R_refl].
    set (n0 := n <| n_role := Candidate |>).
    assert (H0 : Q n n0) by qtv.
    assert (C0 : coh n0) by (eapply coh_R; [apply Q_R; exact H0|exact Hc]).
    clearbody n0. eapply R_trans; [apply Q_R; exact H0|].
    apply R_set_persist; [exact C0|lia|]. intros E. lia.
  - apply Q_R. unfold new_round. qtv.
Qed.

Lemma R_election now n : coh n -> R n (l_election now n).
Proof.
  intros Hc. unfold l_election.
  set (n0 := n <| n_cv ::= _ |>).
  assert (H0 : Q n n0) by qtv.
  assert (C0 : coh n0) by (eapply coh_R; [apply Q_R; exact H0|exact Hc]).
  match goal with |- R n (if ?c then _ else _) => destruct c end; [apply Q_R; exact H0|].
  set (n1 := if role_eqb (n_role n0) Follower then n0 <| n_role := PreCandidate |> else n0).
  assert (H1 : Q n0 n1) by (subst n1; destruct (role_eqb (n_role n0) Follower); [qtv|apply Q_refl]).
  assert (C1 : coh n1) by (eapply coh_R; [apply Q_R; exact H1|exact C0]).
  eapply R_trans; [apply Q_R; eapply Q_trans; [exact H0|exact H1]|].
  assert (H2 : R n1 (if role_eqb (n_role n1) Candidate
                     then persist (n1 <| n_term ::= N.succ |> <| n_vote := Some (n_id n1) |>) else n1)).
  { destruct (role_eqb (n_role n1) Candidate); [|apply R_refl].
    replace (n1 <| n_term ::= N.succ |> <| n_vote := Some (n_id n1) |>)
      with (n1 <| n_term := N.succ (n_term n1) |> <| n_vote := Some (n_id n1) |>) by reflexivity.
    apply R_set_persist; [exact C1|lia|]. intros E. lia. }
  eapply R_trans; [exact H2|]. apply R_send_rv_to_peers. eapply coh_R; [exact H2|exact C1].
Qed.

Lemma Q_bump n r : Q n (bump_round n r). Proof. unfold bump_round. qtv. Qed.

Lemma R_rv_reply now n rid peer pv q p : coh n -> R n (l_rv_reply now n rid peer pv q p).
Proof.
  intros Hc. unfold l_rv_reply.
  destruct (role_eqb (n_role n) Shutdown); [apply R_refl|].
  destruct (N.ltb_spec (rv_term q) (n_term n)) as [Hlt|Hge]; [apply R_refl|].
  set (n1 := if rvr_granted p then bump_round n rid else n).
  assert (H1 : Q n n1) by (subst n1; destruct (rvr_granted p); [apply Q_bump|apply Q_refl]).
  assert (C1 : coh n1) by (eapply coh_R; [apply Q_R; exact H1|exact Hc]).
  assert (T1 : n_term n1 = n_term n) by (destruct H1; assumption).
  destruct (N.ltb_spec (rv_term q) (rvr_term p)).
  - eapply R_trans; [apply Q_R; exact H1|]. apply R_become_follower; [exact C1|lia].
  - eapply R_trans; [apply Q_R; exact H1|]. apply Q_R.
    set (n2 := if _ && role_eqb (n_role n1) PreCandidate then _ else n1).
    assert (H2 : Q n1 n2).
    { subst n2. match goal with |- Q _ (if ?c then _ else _) => destruct c end; [unfold signal_election; qtv|apply Q_refl]. }
    match goal with |- Q _ (if ?c then _ else _) => destruct c end; [|exact H2].
    eapply Q_trans; [exact H2|apply Q_become_leader].
Qed.

Lemma Q_set_follower n id f : Q n (set_follower n id f). Proof. unfold set_follower. qtv. Qed.
Lemma Q_set_fobj n id g f : Q n (set_fobj n id g f).
Proof. unfold set_fobj. destruct (_ =? g); [apply Q_set_follower|qtv]. Qed.

Lemma Q_is_send n peer : Q n (fst (l_is_send n peer)).
Proof.
  unfold l_is_send. destruct (negb (role_eqb (n_role n) Leader)); [apply Q_refl|].
  destruct (n_lii n =? 0); [apply Q_refl|].
  match goal with |- Q n (fst (match ?c with _ => _ end)) => destruct c as [[s o]|] end; cbn [fst];
    [apply Q_set_follower|apply Q_fail].
Qed.

Lemma Q_ae_send n peer : Q n (fst (l_ae_send n peer)).
Proof.
  unfold l_ae_send. destruct (_ || _); [apply Q_refl|].
  destruct (f_next (get_follower n peer) <=? n_lii n).
  - pose proof (Q_is_send n peer) as H. destruct (l_is_send n peer) as [n1 [q|]]; exact H.
  - destruct (next_index (n_log n) <? f_next (get_follower n peer)); cbn [fst]; [apply Q_fail|apply Q_refl].
Qed.

Lemma R_ae_reply now n rid peer g q p : coh n -> R n (fst (l_ae_reply now n rid peer g q p)).
Proof.
  intros Hc. unfold l_ae_reply.
  destruct (_ || _); [apply R_refl|].
  destruct (N.ltb_spec (n_term n) (aer_term p)); [cbn [fst]; apply R_become_follower; [exact Hc|lia]|].
  destruct (negb (ae_term q =? n_term n)); [apply R_refl|].
  apply Q_R.
  set (n1 := if is_voter (conf_of n) peer then bump_round n rid else n).
  set (n2 := if is_voter (conf_of n) peer && has_quorum (conf_of n1) (round_count n1 rid)
             then try_apply_ro now n1 (round_stamp n1 rid) else n1).
  assert (H1 : Q n n1) by (subst n1; destruct (is_voter (conf_of n) peer); [apply Q_bump|apply Q_refl]).
  assert (H2 : Q n n2).
  { eapply Q_trans; [exact H1|]. subst n2.
    destruct (is_voter (conf_of n) peer && has_quorum (conf_of n1) (round_count n1 rid)); [apply Q_try_apply_ro|apply Q_refl]. }
  destruct (negb (aer_success p)).
  - destruct (aer_index p <=? n_lii _).
    + eapply Q_trans; [exact H2|]. eapply Q_trans; [apply Q_set_fobj|]. apply Q_is_send.
    + cbn [fst]. eapply Q_trans; [exact H2|apply Q_set_fobj].
  - match goal with |- Q n (fst (if ?c then _ else _)) => destruct c end; cbn [fst]; [|exact H2].
    eapply Q_trans; [exact H2|]. eapply Q_trans; [apply Q_set_fobj|].
    match goal with |- Q _ (if ?c then _ else _) => destruct c end; [unfold signal_commit; qtv|apply Q_refl].
Qed.

Lemma R_is_reply now n peer g q resp : coh n -> R n (l_is_reply now n peer g q resp).
Proof.
  intros Hc. unfold l_is_reply.
  destruct (f_snap (fobj n peer g)) as [[s o]|]; [|apply R_refl].
  destruct resp as [p|]; [|apply R_refl].
  destruct (N.ltb_spec (n_term n) (isr_term p)); [apply R_become_follower; [exact Hc|lia]|].
  apply Q_R. destruct (negb (isr_written p =? is_offset q)); [apply Q_set_fobj|].
  destruct (negb (is_done q)); [apply Q_refl|apply Q_set_fobj].
Qed.

Lemma Q_commit now n : Q n (lp_commit now n).
Proof.
  unfold lp_commit. set (n0 := n <| n_cv ::= _ |>). assert (H0 : Q n n0) by qtv.
  destruct (negb (role_eqb (n_role n0) Leader)); [exact H0|].
  match goal with |- Q n (if ?c then _ else _) => destruct c end; [|exact H0].
  eapply Q_trans; [exact H0|]. eapply Q_trans; [|apply Q_send_ae_to_peers]. unfold signal_apply. qtv.
Qed.

Lemma Q_upd_cfg m v : Q m (m <| n_cfg_fid := v |>). Proof. qtv. Qed.
Lemma Q_upd_pending m f : Q m (m <| n_pending ::= f |>). Proof. qtv. Qed.
Lemma Q_upd_applied m f : Q m (m <| n_applied ::= f |>). Proof. qtv. Qed.
Lemma Q_upd_fsm m a f : Q m (m <| n_fsm := a |> <| n_applies ::= f |>). Proof. qtv. Qed.
Lemma Q_signal_snapshot m : Q m (signal_snapshot m). Proof. unfold signal_snapshot. qtv. Qed.

Lemma Q_apply_one now n : Q n (lp_apply_one now n).
Proof.
  unfold lp_apply_one. destruct (log_get (n_log n) (n_applied n + 1)) as [e|]; [|apply Q_fail].
  set (n1 := match e_kind e with KNoop => n | _ => _ end).
  assert (H1 : Q n n1).
  { subst n1. destruct (e_kind e) as [|p|c].
    - apply Q_refl.
    - match goal with |- Q n (match ?x with _ => _ end) => destruct x end.
      + eapply Q_trans; [|apply Q_respond]. eapply Q_trans; [|apply Q_upd_pending]. apply Q_upd_fsm.
      + apply Q_upd_fsm.
    - match goal with |- Q n (match ?x with _ => _ end) => destruct x eqn:E end.
      + eapply Q_trans; [|apply Q_upd_cfg]. eapply Q_trans; [|apply Q_respond]. apply Q_apply_configuration.
      + apply Q_apply_configuration. }
  match goal with |- Q n (if ?c then _ else _) => destruct c end.
  - eapply Q_trans; [|apply Q_signal_snapshot]. eapply Q_trans; [|apply Q_upd_applied]. exact H1.
  - eapply Q_trans; [|apply Q_upd_applied]. exact H1.
Qed.

Lemma Q_apply_run now fuel : forall n, Q n (lp_apply_run fuel now n).
Proof.
  induction fuel as [|f IH]; intros n; cbn [lp_apply_run]; [apply Q_refl|].
  match goal with |- Q n (if ?c then _ else _) => destruct c end; [|apply Q_refl].
  eapply Q_trans; [apply Q_apply_one|apply IH].
Qed.

Lemma Q_apply now n : Q n (lp_apply now n).
Proof.
  unfold lp_apply. set (n0 := n <| n_cv ::= _ |>). assert (H0 : Q n n0) by qtv.
  eapply Q_trans; [exact H0|].
  match goal with |- Q _ (if ?c then _ else _) => destruct c end;
    [eapply Q_trans; [apply Q_apply_run|unfold signal_ro; qtv]|apply Q_apply_run].
Qed.

Lemma Q_fold_respond (f : node -> rop -> node) ops : (forall m o, Q m (f m o)) -> forall n, Q n (fold_left f ops n).
Proof.
  intros Hf. induction ops as [|o ops IH]; intros n; cbn [fold_left]; [apply Q_refl|].
  eapply Q_trans; [apply Hf|apply IH].
Qed.

Lemma Q_ro now n : Q n (lp_ro now n).
Proof.
  unfold lp_ro. set (n0 := n <| n_cv ::= _ |>). assert (H0 : Q n n0) by qtv.
  destruct (_ || _); [exact H0|].
  eapply Q_trans; [exact H0|]. eapply Q_trans; [|apply Q_fold_respond].
  - qtv.
  - intros m o. destruct (ro_type o); [apply Q_respond|apply Q_respond|].
    destruct (lease_valid now m); apply Q_respond.
Qed.

Lemma Q_snapshot n : Q n (lp_snapshot n).
Proof.
  unfold lp_snapshot. set (n0 := n <| n_cv ::= _ |>). assert (H0 : Q n n0) by qtv.
  destruct (_ || _); [exact H0|]. destruct (n_applied n0 <=? n_lii n0); [exact H0|].
  destruct (n_cconf n0) as [cc|]; [|exact H0]. destruct (n_applied n0 <? c_index cc); [exact H0|].
  destruct (log_get (n_log n0) (n_applied n0)) as [e|]; [|eapply Q_trans; [exact H0|apply Q_fail]].
  eapply Q_trans; [exact H0|].
  match goal with |- Q _ (if ?c then _ else _) => destruct c end; [apply Q_refl|].
  eapply Q_trans; [apply Q_close_snapshot|]. eapply Q_trans; [|apply Q_reset].
  eapply Q_trans; [|apply Q_compact]. qtv.
Qed.

Lemma Q_install_resume n : Q n (fst (lp_install_resume n)).
Proof.
  unfold lp_install_resume. destruct (n_iswait n) as [|q r]; [apply Q_refl|].
  destruct (install_can_resume n q); cbn [fst]; [|apply Q_refl].
  eapply Q_trans; [|apply Q_install_compact]. qtv.
Qed.

Lemma Q_upd_sv m v : Q m (m <| n_should_verify := v |>). Proof. qtv. Qed.
Lemma Q_upd_ro m f : Q m (m <| n_ro ::= f |>). Proof. qtv. Qed.
Lemma Q_signal_ro m : Q m (signal_ro m). Proof. unfold signal_ro. qtv. Qed.

Lemma Q_submit now n fid ty p : Q n (api_submit now n fid ty p).
Proof.
  unfold api_submit. destruct (negb (role_eqb (n_role n) Leader)); [apply Q_respond|].
  destruct ty.
  - eapply Q_trans; [|apply Q_send_ae_to_peers]. eapply Q_trans; [|apply Q_upd_pending]. apply Q_append.
  - match goal with |- Q n (if ?c then _ else _) => destruct c end; [|apply Q_upd_ro].
    eapply Q_trans; [|apply Q_upd_sv]. eapply Q_trans; [|apply Q_send_ae_to_peers]. apply Q_upd_ro.
  - match goal with |- Q n (if ?c then _ else _) => destruct c end; [|apply Q_upd_ro].
    eapply Q_trans; [|apply Q_signal_ro]. apply Q_upd_ro.
Qed.

Lemma Q_append_configuration n c : Q n (fst (append_configuration n c)).
Proof. unfold append_configuration. cbn [fst]. apply Q_append. Qed.

Lemma Q_upd_conf_cfg m c f : Q m (m <| n_conf := c |> <| n_cfg_fid := f |>). Proof. qtv. Qed.

Lemma Q_add_server now n fid id v : Q n (api_add_server now n fid id v).
Proof.
  unfold api_add_server. destruct (negb (role_eqb (n_role n) Leader)); [apply Q_respond|].
  destruct (negb (committed_this_term n)); [apply Q_respond|].
  destruct (pending_conf_change n); [apply Q_respond|].
  destruct (_ && _); [apply Q_respond|].
  pose proof (Q_append_configuration n {| c_index := 0; c_members := put id v (c_members (conf_of n)) |}) as H.
  destruct (append_configuration n _) as [n1 c']. cbn [fst] in H.
  eapply Q_trans; [|apply Q_send_ae_to_peers]. eapply Q_trans; [|apply Q_new_follower].
  eapply Q_trans; [|apply Q_upd_conf_cfg]. exact H.
Qed.

Lemma Q_remove_server now n fid id : Q n (api_remove_server now n fid id).
Proof.
  unfold api_remove_server. destruct (negb (role_eqb (n_role n) Leader)); [apply Q_respond|].
  destruct (negb (committed_this_term n)); [apply Q_respond|].
  destruct (pending_conf_change n); [apply Q_respond|].
  destruct (negb (is_member (conf_of n) id)); [apply Q_respond|].
  pose proof (Q_append_configuration n {| c_index := 0; c_members := remove_key id (c_members (conf_of n)) |}) as H.
  destruct (append_configuration n _) as [n1 c']. cbn [fst] in H.
  eapply Q_trans; [|apply Q_send_ae_to_peers]. eapply Q_trans; [|apply Q_upd_cfg]. exact H.
Qed.

Lemma Q_heartbeat now n : Q n (l_heartbeat now n).
Proof. unfold l_heartbeat. destruct (_ || _); [apply Q_refl|apply Q_send_ae_to_peers]. Qed.

(* ---------------- world level ---------------- *)
Definition S (n n' : node) : Prop := n_id n' = n_id n /\ tv_le n n' /\ (coh n -> coh n').
Lemma S_refl n : S n n. Proof. split; [reflexivity|split; [apply tv_le_refl|auto]]. Qed.
Lemma S_trans a b c : S a b -> S b c -> S a c.
Proof. intros (I1 & T1 & C1) (I2 & T2 & C2). split; [congruence|split; [eapply tv_le_trans; eassumption|auto]]. Qed.
Lemma R_S n n' : R n n' -> S n n'. Proof. intros [I _ T C]. split; [exact I|split; [exact T|exact C]]. Qed.
Lemma Q_S n n' : Q n n' -> S n n'. Proof. intros H. apply R_S, Q_R, H. Qed.

Lemma S_crash n : S n (crash n).
Proof.
  split; [reflexivity|]. split.
  - split; [cbn; lia|]. intros _ c H. exact H.
  - intros _ _. unfold crash. cbn. split; reflexivity.
Qed.

Lemma Q_api_start now n : Q n (api_start now n).
Proof.
  unfold api_start. destruct (negb _); [apply Q_refl|].
  match goal with |- Q n (fold_left ?f ?l ?n2 <| n_contact := _ |> <| n_role := _ |>) =>
    apply Q_trans with n2; [qtv|]; apply Q_trans with (fold_left f l n2); [apply Q_new_followers|qtv] end.
Qed.

Lemma restore_tvf m : tvf (restore m) = (n_id m, n_pterm m, n_pvote m, n_pterm m, n_pvote m, n_frozen m).
Proof.
  unfold restore.
  set (n1 := m <| n_open := true |> <| n_term := n_pterm m |> <| n_vote := n_pvote m |>).
  assert (H1 : tvf n1 = (n_id m, n_pterm m, n_pvote m, n_pterm m, n_pvote m, n_frozen m)) by reflexivity.
  clearbody n1.
  set (n2 := match last (map Some (n_snaps n1)) None with Some s => _ | None => n1 end).
  assert (H2 : tvf n2 = tvf n1) by (subst n2; destruct (last (map Some (n_snaps n1)) None); reflexivity).
  clearbody n2.
  set (n3 := match last (map Some (n_snaps n1)) None with Some s => _ | None => n2 end).
  assert (H2' : tvf n3 = tvf n2).
  { subst n3. destruct (last (map Some (n_snaps n1)) None) as [s|]; [|reflexivity].
    destruct (_ || _); reflexivity. }
  clearbody n3. destruct (conf_scan _ _ _) as [c cc].
  assert (H3 : tvf (n3 <| n_conf := c |> <| n_cconf := cc |>) = tvf n3) by reflexivity.
  rewrite H3, H2', H2. exact H1.
Qed.

Lemma S_restart now n : S n (restart_after_crash now n).
Proof.
  unfold restart_after_crash. eapply S_trans; [apply S_crash|].
  set (m := crash n).
  assert (Hf : n_frozen m = false) by reflexivity.
  clearbody m.
  eapply S_trans; [|apply Q_S, Q_api_start]. eapply S_trans; [|apply Q_S, Q_new_opmanager].
  pose proof (restore_tvf m) as H. unfold tvf in H. injection H as H1 H2 H3 H4 H5 H6.
  split; [exact H1|]. split.
  - split; [rewrite H4; apply N.le_refl|]. intros _ c Hc. rewrite H5. exact Hc.
  - intros _ _. rewrite H2, H3, H4, H5. split; reflexivity.
Qed.

Definition Inv (w : world) : Prop := forall n, In n (w_nodes w) -> coh n.

Lemma get_node_in w id n : get_node w id = Some n -> In n (w_nodes w) /\ n_id n = id.
Proof.
  unfold get_node. intros H. apply find_some in H. destruct H as [H1 H2]. split; [exact H1|].
  apply N.eqb_eq. exact H2.
Qed.

Lemma get_set w m id :
  get_node (set_node w m) id = option_map (fun x => if n_id x =? n_id m then m else x) (get_node w id).
Proof.
  unfold get_node, set_node. cbn [w_nodes set]. induction (w_nodes w) as [|x l IH]; [reflexivity|].
  cbn [map find].
  assert (Hid : n_id (if n_id x =? n_id m then m else x) = n_id x).
  { destruct (N.eqb_spec (n_id x) (n_id m)) as [E|E]; [symmetry; exact E|reflexivity]. }
  rewrite Hid. destruct (n_id x =? id); [reflexivity|exact IH].
Qed.

(* relation between a world and its successor *)
Definition WS (w w' : world) : Prop :=
  (forall id n', get_node w' id = Some n' -> exists n, get_node w id = Some n /\ S n n') /\
  (Inv w -> Inv w').

Lemma WS_refl w : WS w w.
Proof. split; [|auto]. intros id n' H. exists n'. split; [exact H|apply S_refl]. Qed.
Lemma WS_trans a b c : WS a b -> WS b c -> WS a c.
Proof.
  intros [H1 I1] [H2 I2]. split; [|auto]. intros id n'' H.
  destruct (H2 _ _ H) as (n' & G' & S'). destruct (H1 _ _ G') as (n & G & S0).
  exists n. split; [exact G|eapply S_trans; eassumption].
Qed.

Lemma WS_same_nodes w w' : w_nodes w' = w_nodes w -> WS w w'.
Proof.
  intros E. split.
  - intros id n' H. exists n'. unfold get_node in *. rewrite E in H. split; [exact H|apply S_refl].
  - unfold Inv. rewrite E. auto.
Qed.

Lemma WS_set_node w m m' : get_node w (n_id m) = Some m -> (coh m -> S m m') -> Inv w -> WS w (set_node w m').
Proof.
  intros G HS HI.
  destruct (get_node_in _ _ _ G) as [Hin _].
  pose proof (HS (HI _ Hin)) as (Eid & T & C).
  split.
  - intros id n' H. rewrite get_set in H. destruct (get_node w id) as [x|] eqn:Gx; [|discriminate].
    cbn [option_map] in H. exists x. split; [reflexivity|].
    destruct (N.eqb_spec (n_id x) (n_id m')) as [E|E]; injection H as <-; [|apply S_refl].
    assert (x = m).
    { destruct (get_node_in _ _ _ Gx) as [_ Ex]. rewrite <- Ex, E, Eid in Gx. congruence. }
    subst x. split; [exact Eid|split; [exact T|exact C]].
  - intros _ x Hx. unfold set_node in Hx. cbn [w_nodes set] in Hx. apply in_map_iff in Hx.
    destruct Hx as (y & <- & Hy). destruct (n_id y =? n_id m'); [apply C, HI, Hin|apply HI, Hy].
Qed.

Lemma WS_on_node w id f : (forall m, coh m -> S m (f m)) -> Inv w -> WS w (on_node w id f).
Proof.
  intros Hf HI. unfold on_node. destruct (get_node w id) as [m|] eqn:G; [|apply WS_refl].
  destruct (get_node_in _ _ _ G) as [_ E]. apply WS_set_node with (m := m); [rewrite E; exact G|apply Hf|exact HI].
Qed.

Lemma WS_nodes_eq w w1 w2 : WS w w1 -> w_nodes w2 = w_nodes w1 -> WS w w2.
Proof. intros H E. eapply WS_trans; [exact H|apply WS_same_nodes; exact E]. Qed.

Lemma WS_set_Q w m m' : get_node w (n_id m) = Some m -> Q m m' -> Inv w -> WS w (set_node w m').
Proof. intros G HQ HI. apply WS_set_node with (m := m); [exact G|intros _; apply Q_S, HQ|exact HI]. Qed.

Lemma WS_set_R w m m' : get_node w (n_id m) = Some m -> (coh m -> R m m') -> Inv w -> WS w (set_node w m').
Proof. intros G HR HI. apply WS_set_node with (m := m); [exact G|intros C; apply R_S, HR, C|exact HI]. Qed.

Lemma get_node_id w id m : get_node w id = Some m -> get_node w (n_id m) = Some m.
Proof. intros G. destruct (get_node_in _ _ _ G) as [_ E]. rewrite E. exact G. Qed.

Lemma WS_step_task w m : get_node w (n_id m) = Some m -> Inv w -> WS w (step_task w m).
Proof.
  intros G HI. unfold step_task. destruct (n_tasks m) as [|t rest]; [apply WS_refl|].
  set (n0 := m <| n_tasks := rest |>). assert (H0 : Q m n0) by qtv.
  destruct t as [rid peer pv|rid peer].
  - destruct (l_rv_send n0 rid peer pv).
    + eapply WS_nodes_eq; [apply (WS_set_Q w m n0 G H0 HI)|reflexivity].
    + apply (WS_set_Q w m n0 G H0 HI).
  - pose proof (Q_ae_send n0 peer) as H1. destruct (l_ae_send n0 peer) as [n1 [|q|q]]; cbn [fst] in H1.
    + apply (WS_set_Q w m n1 G (Q_trans _ _ _ H0 H1) HI).
    + eapply WS_nodes_eq; [apply (WS_set_Q w m n1 G (Q_trans _ _ _ H0 H1) HI)|reflexivity].
    + eapply WS_nodes_eq; [apply (WS_set_Q w m n1 G (Q_trans _ _ _ H0 H1) HI)|reflexivity].
Qed.

Lemma R_run_handler now n q : coh n -> R n (fst (fst (run_handler now n q))).
Proof.
  intros Hc. unfold run_handler. destruct q as [r|r|r].
  - pose proof (R_append_entries now n r Hc) as H. destruct (h_append_entries now n r). exact H.
  - pose proof (R_request_vote now n r Hc) as H. destruct (h_request_vote now n r). exact H.
  - pose proof (R_install_snapshot now n r Hc) as H. destruct (h_install_snapshot now n r). exact H.
Qed.

Lemma WS_step_deliver w c dup : Inv w -> WS w (step_deliver w c dup).
Proof.
  intros HI. unfold step_deliver. destruct (get_node w (c_dst c)) as [n|] eqn:G;
    [|destruct dup; [apply WS_refl|apply WS_same_nodes; reflexivity]].
  apply get_node_id in G.
  destruct (n_frozen n); [destruct dup; [apply WS_refl|apply WS_same_nodes; reflexivity]|].
  pose proof (fun C => R_run_handler (w_now w) n (c_req c) C) as HR.
  destruct (run_handler (w_now w) n (c_req c)) as [[n1 resp] parked]. cbn [fst] in HR.
  pose proof (WS_set_R w n n1 G HR HI) as H1.
  destruct dup; [exact H1|].
  destruct (n_frozen n1); [eapply WS_nodes_eq; [exact H1|reflexivity]|].
  destruct resp; eapply WS_nodes_eq; try exact H1; reflexivity.
Qed.

Lemma WS_step_reply w c failed : Inv w -> WS w (step_reply w c failed).
Proof.
  intros HI. unfold step_reply.
  set (w0 := set_call w (c <| c_state := CDone |>)).
  assert (E0 : w_nodes w0 = w_nodes w) by reflexivity.
  assert (H0 : WS w w0) by (apply WS_same_nodes; exact E0).
  destruct (get_node w (c_src c)) as [n|] eqn:G; [|exact H0].
  apply get_node_id in G.
  assert (G0 : get_node w0 (n_id n) = Some n) by (unfold get_node in *; rewrite E0; exact G).
  assert (HI0 : Inv w0) by (unfold Inv; rewrite E0; exact HI).
  destruct (n_frozen n); [exact H0|].
  destruct (c_req c) as [q|q|q]; destruct (if failed then None else c_resp c) as [[p|p|p]|];
    try exact H0;
    try (eapply WS_trans; [exact H0|];
         match goal with
         | |- WS w0 (set_node w0 (l_rv_reply _ _ _ _ _ _ _)) =>
             apply (WS_set_R w0 n _ G0); [intros C; apply R_rv_reply; exact C|exact HI0]
         | |- WS w0 (set_node w0 (l_is_reply _ _ _ _ _ _)) =>
             apply (WS_set_R w0 n _ G0); [intros C; apply R_is_reply; exact C|exact HI0]
         end).
  pose proof (fun C => R_ae_reply (w_now w) n (c_round c) (c_dst c) (c_fgen c) q p C) as HR.
  destruct (l_ae_reply (w_now w) n (c_round c) (c_dst c) (c_fgen c) q p) as [n1 [isq|]]; cbn [fst] in HR;
    (eapply WS_trans; [exact H0|]).
  - eapply WS_nodes_eq; [apply (WS_set_R w0 n n1 G0 HR HI0)|reflexivity].
  - apply (WS_set_R w0 n n1 G0 HR HI0).
Qed.

Lemma Q_upd_budget m k : Q m (m <| n_budget := k |>). Proof. qtv. Qed.
Lemma Q_signal_election m : Q m (signal_election m). Proof. unfold signal_election. qtv. Qed.

Theorem step_WS w l : Inv w -> WS w (step w l).
Proof.
  intros HI. destruct l; cbn [step].
  - apply WS_same_nodes. reflexivity.
  - apply WS_on_node; [|exact HI]. intros m _. destruct (is_up m); [apply Q_S, Q_signal_election|apply S_refl].
  - apply WS_on_node; [|exact HI]. intros m _. destruct (is_up m); [apply Q_S, Q_heartbeat|apply S_refl].
  - destruct (get_call w c) as [cl|]; [|apply WS_refl]. destruct (c_state cl); try apply WS_refl.
    apply WS_step_deliver; exact HI.
  - destruct (get_call w c) as [cl|]; [|apply WS_refl]. apply WS_step_deliver; exact HI.
  - destruct (get_call w c) as [cl|]; [|apply WS_refl]. destruct (c_state cl); try apply WS_refl.
    apply WS_step_reply; exact HI.
  - destruct (get_call w c) as [cl|]; [|apply WS_refl]. destruct (c_state cl); try apply WS_refl;
      apply WS_step_reply; exact HI.
  - unfold fresh_fid. set (w1 := w <| w_next_fid ::= N.succ |>).
    eapply WS_trans; [apply (WS_same_nodes w w1); reflexivity|].
    apply WS_on_node; [|unfold Inv; exact HI]. intros m _. destruct (n_frozen m); [apply S_refl|apply Q_S, Q_submit].
  - unfold fresh_fid. set (w1 := w <| w_next_fid ::= N.succ |>).
    eapply WS_trans; [apply (WS_same_nodes w w1); reflexivity|].
    apply WS_on_node; [|unfold Inv; exact HI]. intros m _. destruct (n_frozen m); [apply S_refl|apply Q_S, Q_add_server].
  - unfold fresh_fid. set (w1 := w <| w_next_fid ::= N.succ |>).
    eapply WS_trans; [apply (WS_same_nodes w w1); reflexivity|].
    apply WS_on_node; [|unfold Inv; exact HI]. intros m _. destruct (n_frozen m); [apply S_refl|apply Q_S, Q_remove_server].
  - apply WS_on_node; [|exact HI]. intros m _. destruct (is_up m); [|apply S_refl].
    apply Q_S. apply Q_trans with (lp_snapshot (m <| n_snap_every := 1 |>)); [|qtv].
    eapply Q_trans; [|apply Q_snapshot]. qtv.
  - eapply WS_nodes_eq; [apply WS_on_node; [|exact HI]; intros m _; apply S_crash|reflexivity].
  - apply WS_on_node; [|exact HI]. intros m _. destruct (role_eqb (n_role m) Shutdown); [apply S_restart|apply S_refl].
  - apply WS_on_node; [|exact HI]. intros m _. apply Q_S, Q_upd_budget.
  - apply WS_on_node; [|exact HI]. intros m _. apply Q_S. qtv.
  - apply WS_on_node; [|exact HI]. intros m _. apply Q_S. qtv.
  - apply WS_on_node; [|exact HI]. intros m _. apply Q_S. qtv.
  - destruct (get_node w n) as [m|] eqn:G; [|apply WS_refl]. destruct (is_up m); [|apply WS_refl].
    apply WS_step_task; [eapply get_node_id; exact G|exact HI].
  - apply WS_on_node; [|exact HI]. intros m C. destruct (is_up m && cv_election (n_cv m)); [apply R_S, R_election, C|apply S_refl].
  - apply WS_on_node; [|exact HI]. intros m _. destruct (is_up m && cv_commit (n_cv m)); [apply Q_S, Q_commit|apply S_refl].
  - apply WS_on_node; [|exact HI]. intros m _. destruct (is_up m && cv_apply (n_cv m)); [apply Q_S, Q_apply|apply S_refl].
  - apply WS_on_node; [|exact HI]. intros m _. destruct (is_up m && cv_ro (n_cv m)); [apply Q_S, Q_ro|apply S_refl].
  - destruct (get_node w n) as [m|] eqn:G; [|apply WS_refl]. apply get_node_id in G.
    pose proof (Q_install_resume m) as HQ. destruct (lp_install_resume m) as [m1 [q|]]; cbn [fst] in HQ; [|apply WS_refl].
    pose proof (WS_set_Q w m m1 G HQ HI) as H1.
    match goal with |- WS w (match ?x with _ => _ end) => destruct x end;
      [eapply WS_nodes_eq; [exact H1|reflexivity]|exact H1].
Qed.

(* every node's persistent term and vote, over every step of every schedule *)
Theorem C08_cluster : forall w l id n n',
  Inv w -> get_node w id = Some n -> get_node (step w l) id = Some n' ->
  n_pterm n <= n_pterm n' /\
  (n_pterm n' = n_pterm n -> forall c, n_pvote n = Some c -> n_pvote n' = Some c).
Proof.
  intros w l id n n' HI G G'. destruct (step_WS w l HI) as [H _].
  destruct (H _ _ G') as (m & Gm & (_ & T & _)). rewrite G in Gm. injection Gm as <-. exact T.
Qed.

(* the invariant holds initially and is preserved: it holds in every reachable world *)
Lemma Inv_init ids boot et ld : Inv (init_world ids boot et ld).
Proof.
  unfold Inv, init_world. cbn [w_nodes]. intros n Hin. apply in_map_iff in Hin. destruct Hin as (id & <- & _).
  set (m := mk_node id et ld).
  assert (Hm : coh m) by (unfold coh; intros _; split; reflexivity).
  set (m1 := if existsb (N.eqb id) boot then api_bootstrap m boot else m).
  assert (H1 : Q m m1).
  { subst m1. destruct (existsb (N.eqb id) boot); [|apply Q_refl].
    unfold api_bootstrap. destruct (n_conf m); [apply Q_refl|]. destruct (0 <? last_index (n_log m)); [apply Q_refl|].
    eapply Q_trans; [|apply Q_append]. qtv. }
  eapply coh_R; [|exact Hm]. apply Q_R. eapply Q_trans; [exact H1|].
  eapply Q_trans; [apply Q_new_opmanager|apply Q_api_start].
Qed.

Lemma Inv_run ls : forall w, Inv w -> Inv (run w ls).
Proof.
  induction ls as [|l ls IH]; intros w HI; [exact HI|].
  cbn [run fold_left]. apply IH. destruct (step_WS w l HI) as [_ H]. exact (H HI).
Qed.

Theorem C08_statement_holds : forall ids boot et ld ls l id n n',
  let w := run (init_world ids boot et ld) ls in
  get_node w id = Some n -> get_node (step w l) id = Some n' ->
  n_pterm n <= n_pterm n' /\
  (n_pterm n' = n_pterm n -> forall c, n_pvote n = Some c -> n_pvote n' = Some c).
Proof.
  intros ids boot et ld ls l id n n' w G G'. eapply C08_cluster; [|exact G|exact G'].
  apply Inv_run, Inv_init.
Qed.
