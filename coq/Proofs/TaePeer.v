(* "A node never spawns a sendAppendEntries goroutine addressed to itself": every TAe task of every
   node of every reachable world (membership changes, snapshots, crashes included) names a peer other
   than the node.  Node level: the relation TA (the identity is kept, every new task is either an old
   one or not a TAe to the node itself), swept over every function of the node reachable from [step];
   world level: TAEW. *)
From RaftV Require Import Cluster.World Cluster.Statements Proofs.Frame Proofs.ElectDefs Proofs.EFrame.
Open Scope N_scope.

Definition tae_ok (n : node) : Prop := forall rid p, In (TAe rid p) (n_tasks n) -> p <> n_id n.
Definition TAEW (w : world) : Prop := forall n, In n (w_nodes w) -> tae_ok n.

(* ================= node level ================= *)
Definition TA (m m' : node) : Prop :=
  n_id m' = n_id m /\
  forall t, In t (n_tasks m') -> In t (n_tasks m) \/ (forall rid p, t = TAe rid p -> p <> n_id m).

(* the fields TA talks about *)
Definition itf (n : node) := (n_id n, n_tasks n).

Lemma TA_refl m : TA m m.
Proof. split; [reflexivity|]. intros t H. left. exact H. Qed.

Lemma TA_trans a b c : TA a b -> TA b c -> TA a c.
Proof.
  intros [I1 T1] [I2 T2]. split; [congruence|].
  intros t H. destruct (T2 t H) as [H1|H1].
  - exact (T1 t H1).
  - right. rewrite <- I1. exact H1.
Qed.

Lemma TA_of_it m m' : itf m' = itf m -> TA m m'.
Proof.
  unfold itf. intros H. injection H as H1 H2. split; [exact H1|].
  intros t Ht. left. rewrite <- H2. exact Ht.
Qed.

Lemma tae_ok_TA m m' : tae_ok m -> TA m m' -> tae_ok m'.
Proof.
  intros Hm [I T] rid p Hin. rewrite I. destruct (T _ Hin) as [H|H].
  - exact (Hm rid p H).
  - exact (H rid p eq_refl).
Qed.

(* the base node is abstracted first: conversion on large node terms is slow *)
Ltac tav :=
  match goal with
  | |- TA ?x _ => first [ is_var x; apply TA_of_it; reflexivity
                        | let y := fresh "base" in generalize x; intro y; apply TA_of_it; reflexivity
                        | apply TA_of_it; reflexivity ]
  end.

(* tasks are only appended: the new ones are not TAe tasks to the node itself *)
Lemma TA_add_tasks m m' ts :
  n_id m' = n_id m -> n_tasks m' = n_tasks m ++ ts ->
  (forall rid p, In (TAe rid p) ts -> p <> n_id m) -> TA m m'.
Proof.
  intros HI HT Hts. split; [exact HI|].
  intros t H. rewrite HT in H. apply in_app_or in H. destruct H as [H|H]; [left; exact H|right].
  intros rid p ->. exact (Hts rid p H).
Qed.

(* ---- storage writes ---- *)
Lemma TA_tick_write n : TA n (snd (tick_write n)).
Proof.
  unfold tick_write. destruct (n_frozen n) eqn:F; [apply TA_refl|].
  destruct (n_budget n) as [k|]; [|apply TA_refl].
  destruct (k =? 0); cbn [snd]; tav.
Qed.

Lemma TA_write (f : node -> node) n :
  (forall m, itf (f m) = itf m) ->
  TA n (let (ok, n1) := tick_write n in if ok then f n1 else n1).
Proof.
  intros Hf. pose proof (TA_tick_write n) as H. destruct (tick_write n) as [ok n1]. cbn [snd] in H.
  destruct ok; [|exact H]. eapply TA_trans; [exact H|]. apply TA_of_it, Hf.
Qed.

Lemma TA_persist n : TA n (persist n). Proof. apply TA_write. reflexivity. Qed.
Lemma TA_truncate_log n i : TA n (truncate_log n i). Proof. apply TA_write. reflexivity. Qed.
Lemma TA_compact_log n i : TA n (compact_log n i). Proof. apply TA_write. reflexivity. Qed.
Lemma TA_discard_log n i t : TA n (discard_log n i t). Proof. apply TA_write. reflexivity. Qed.
Lemma TA_close_snapshot n s : TA n (close_snapshot n s). Proof. apply TA_write. reflexivity. Qed.
Lemma TA_append_entries es : forall n, TA n (append_entries n es).
Proof.
  induction es as [|e es IH]; intros n; cbn [append_entries]; [apply TA_refl|].
  pose proof (TA_tick_write n) as H. destruct (tick_write n) as [ok n1]. cbn [snd] in H.
  destruct ok; [|exact H]. eapply TA_trans; [exact H|]. eapply TA_trans; [|apply IH]. tav.
Qed.

(* ---- futures, small transitions ---- *)
Lemma TA_fail o n : TA n (fail o n). Proof. unfold fail. destruct (n_out n); [tav|apply TA_refl|apply TA_refl]. Qed.

Lemma TA_respond n f r : TA n (respond n f r).
Proof.
  unfold respond. destruct (n_frozen n); [apply TA_refl|].
  destruct (existsb _ _); [apply TA_refl|tav].
Qed.
Lemma TA_respond_all fs : forall n r, TA n (respond_all n fs r).
Proof.
  induction fs as [|f fs IH]; intros n r; [apply TA_refl|].
  cbn [respond_all fold_left]. fold (respond_all (respond n f r) fs r).
  eapply TA_trans; [apply TA_respond|apply IH].
Qed.
Lemma TA_new_opmanager now n : TA n (new_opmanager now n). Proof. tav. Qed.
Lemma TA_reset_snapshot_files n : TA n (reset_snapshot_files n). Proof. tav. Qed.
Lemma TA_notify_lost_leadership n : TA n (notify_lost_leadership n).
Proof. unfold notify_lost_leadership. eapply TA_trans; [apply TA_respond_all|apply TA_respond_all]. Qed.
Lemma TA_cancel_conf_change n : TA n (cancel_conf_change n).
Proof.
  unfold cancel_conf_change. destruct (n_cfg_fid n) as [f|]; [|apply TA_refl].
  eapply TA_trans; [apply TA_respond|]. tav.
Qed.

Lemma TA_signal_apply n : TA n (signal_apply n). Proof. tav. Qed.
Lemma TA_signal_commit n : TA n (signal_commit n). Proof. tav. Qed.
Lemma TA_signal_ro n : TA n (signal_ro n). Proof. tav. Qed.
Lemma TA_signal_election n : TA n (signal_election n). Proof. tav. Qed.
Lemma TA_signal_snapshot n : TA n (signal_snapshot n). Proof. tav. Qed.

Lemma TA_upd_budget m k : TA m (m <| n_budget := k |>). Proof. tav. Qed.
Lemma TA_upd_pad m k : TA m (m <| n_pad := k |>). Proof. tav. Qed.
Lemma TA_upd_cv m f : TA m (m <| n_cv ::= f |>). Proof. tav. Qed.

Lemma TA_become_follower now n l t : TA n (become_follower now n l t).
Proof.
  unfold become_follower.
  eapply TA_trans; [|apply TA_cancel_conf_change]. eapply TA_trans; [|apply TA_new_opmanager].
  eapply TA_trans; [|apply TA_notify_lost_leadership]. eapply TA_trans; [|apply TA_reset_snapshot_files].
  eapply TA_trans; [|apply TA_persist]. tav.
Qed.

Lemma TA_stepdown now n : TA n (stepdown now n).
Proof.
  unfold stepdown. eapply TA_trans; [|apply TA_cancel_conf_change]. eapply TA_trans; [|apply TA_new_opmanager].
  eapply TA_trans; [|apply TA_notify_lost_leadership]. tav.
Qed.

Lemma TA_new_follower n id nx : TA n (new_follower n id nx). Proof. unfold new_follower. tav. Qed.
Lemma TA_new_followers nx ids : forall n, TA n (fold_left (fun m id => new_follower m id nx) ids n).
Proof.
  induction ids as [|id ids IH]; intros n; cbn [fold_left]; [apply TA_refl|].
  eapply TA_trans; [apply TA_new_follower|apply IH].
Qed.

Lemma TA_next_configuration now n c : TA n (next_configuration now n c).
Proof.
  unfold next_configuration. destruct c as [nx|]; [|apply TA_fail].
  set (n1 := if is_member nx (n_id n) then n else _).
  assert (H1 : TA n n1).
  { subst n1. destruct (is_member nx (n_id n)); [apply TA_refl|].
    eapply TA_trans; [|apply TA_reset_snapshot_files].
    destruct (role_eqb (n_role n) Leader); [apply TA_stepdown|apply TA_refl]. }
  clearbody n1. eapply TA_trans; [exact H1|].
  match goal with |- TA n1 (fold_left ?f ?l ?n2 <| n_conf := ?c |>) =>
    apply TA_trans with n2; [tav|]; apply TA_trans with (fold_left f l n2); [apply TA_new_followers|tav] end.
Qed.

Lemma TA_apply_configuration now n c : TA n (apply_configuration now n c).
Proof.
  unfold apply_configuration. destruct (n_cconf n) as [cc|].
  - destruct (c_index c <=? c_index cc); [apply TA_refl|].
    eapply TA_trans; [apply TA_next_configuration|]. tav.
  - eapply TA_trans; [apply TA_next_configuration|]. tav.
Qed.

(* ---- RequestVote ---- *)
Lemma TA_h_request_vote now n q : TA n (fst (h_request_vote now n q)).
Proof.
  unfold h_request_vote.
  destruct (role_eqb (n_role n) Shutdown); [apply TA_refl|].
  destruct (lease_valid now n || recent_contact now n); [apply TA_refl|].
  destruct (rv_term q <? n_term n); [apply TA_refl|].
  set (n1 := if negb (rv_prevote q) && (n_term n <? rv_term q) then become_follower now n (rv_cand q) (rv_term q) else n).
  assert (H1 : TA n n1).
  { subst n1. destruct (negb (rv_prevote q) && (n_term n <? rv_term q)); [|apply TA_refl].
    apply TA_become_follower. }
  clearbody n1.
  destruct (negb (rv_prevote q) && match n_vote n1 with Some v => negb (v =? rv_cand q) | None => false end);
    [exact H1|].
  destruct ((rv_last_term q <? last_term (n_log n1)) || _); [exact H1|].
  cbn [fst]. destruct (rv_prevote q); [exact H1|].
  eapply TA_trans; [exact H1|]. eapply TA_trans; [|apply TA_persist]. tav.
Qed.

(* ---- AppendEntries ---- *)
Lemma TA_ae_scan now es : forall n n4 l, ae_scan now n es = Some (n4, l) -> TA n n4.
Proof.
  induction es as [|e es IH]; intros n n4 l H; cbn [ae_scan] in H.
  - injection H as <- _. apply TA_refl.
  - destruct (last_index (n_log n) <? e_index e); [injection H as <- _; apply TA_refl|].
    destruct (log_get (n_log n) (e_index e)) as [ex|]; [|discriminate].
    destruct ((e_index ex =? e_index e) && negb (e_term ex =? e_term e)).
    + injection H as <- _.
      destruct (e_index e <=? c_index (conf_of (truncate_log n (e_index e)))).
      * eapply TA_trans; [apply TA_truncate_log|apply TA_next_configuration].
      * apply TA_truncate_log.
    + eapply IH; exact H.
Qed.

Lemma TA_h_append_entries now n q : TA n (fst (h_append_entries now n q)).
Proof.
  unfold h_append_entries.
  destruct (role_eqb (n_role n) Shutdown); [apply TA_refl|].
  destruct (ae_term q <? n_term n); [apply TA_refl|].
  set (n1 := n <| n_contact := now |> <| n_leader := Some (ae_leader q) |>).
  assert (H1 : TA n n1) by tav.
  clearbody n1.
  set (n2 := if n_term n1 <? ae_term q then become_follower now n1 (ae_leader q) (ae_term q) else n1).
  assert (H2 : TA n1 n2).
  { subst n2. destruct (n_term n1 <? ae_term q); [|apply TA_refl]. apply TA_become_follower. }
  clearbody n2.
  set (n3 := if (ae_term q =? n_term n2) && _ then become_follower now n2 (ae_leader q) (ae_term q) else n2).
  assert (H3 : TA n2 n3).
  { subst n3. destruct ((ae_term q =? n_term n2) && _); [|apply TA_refl]. apply TA_become_follower. }
  clearbody n3.
  assert (H03 : TA n n3) by (eapply TA_trans; [exact H1|eapply TA_trans; eassumption]).
  destruct (ae_prev_index q <? n_lii n3); [exact H03|].
  destruct (next_index (n_log n3) <=? ae_prev_index q); [exact H03|].
  destruct ((n_lii n3 =? ae_prev_index q) && negb (n_lit n3 =? ae_prev_term q)); [exact H03|].
  match goal with |- TA n (fst (match ?c with _ => _ end)) => destruct c as [[idx|]|] end.
  - exact H03.
  - cbn [fst]. eapply TA_trans; [exact H03|apply TA_fail].
  - destruct (ae_scan now n3 (ae_entries q)) as [[n4 to_append]|] eqn:Es.
    + cbn [fst]. eapply TA_trans; [exact H03|].
      eapply TA_trans; [eapply TA_ae_scan; exact Es|].
      eapply TA_trans; [apply TA_append_entries|].
      match goal with |- TA _ (if ?c then _ else _) => destruct c end; [|apply TA_refl].
      unfold signal_apply. tav.
    + cbn [fst]. eapply TA_trans; [exact H03|apply TA_fail].
Qed.

(* ---- InstallSnapshot ---- *)
Lemma TA_h_install_compact n q : TA n (h_install_compact n q).
Proof. unfold h_install_compact. destruct (_ || _); [apply TA_refl|apply TA_compact_log]. Qed.

Lemma TA_h_install_restore now n q : TA n (h_install_restore now n q).
Proof.
  unfold h_install_restore. destruct (last (map Some (n_snaps n)) None) as [s|]; [|apply TA_fail].
  destruct (role_eqb _ Shutdown); [tav|].
  eapply TA_trans; [|apply TA_apply_configuration]. eapply TA_trans; [|apply TA_discard_log]. tav.
Qed.

Lemma TA_h_install_snapshot now n q : TA n (fst (h_install_snapshot now n q)).
Proof.
  unfold h_install_snapshot.
  destruct (role_eqb (n_role n) Shutdown); [apply TA_refl|].
  destruct (is_term q <? n_term n); [apply TA_refl|].
  set (n1 := if n_term n <? is_term q then become_follower now n (is_leader q) (is_term q) else n).
  assert (H1 : TA n n1).
  { subst n1. destruct (n_term n <? is_term q); [|apply TA_refl]. apply TA_become_follower. }
  clearbody n1.
  set (n2 := if (is_term q =? n_term n1) && _ then become_follower now n1 (is_leader q) (is_term q) else n1).
  assert (H2 : TA n1 n2).
  { subst n2. destruct ((is_term q =? n_term n1) && _); [|apply TA_refl]. apply TA_become_follower. }
  clearbody n2.
  set (n3 := n2 <| n_contact := now |>).
  assert (H03 : TA n n3).
  { eapply TA_trans; [exact H1|]. eapply TA_trans; [exact H2|]. tav. }
  clearbody n3.
  destruct ((is_lii q <=? n_lii n3) || (is_lii q <=? n_applied n3)); [exact H03|].
  set (n4 := match n_partial n3 with Some p => if s_index p <? is_lii q then n3 <| n_partial := None |> else n3 | None => n3 end).
  assert (H4 : TA n3 n4).
  { subst n4. destruct (n_partial n3) as [p|]; [|apply TA_refl]. destruct (s_index p <? is_lii q); [tav|apply TA_refl]. }
  assert (H04 : TA n n4) by (eapply TA_trans; [exact H03|exact H4]).
  clearbody n4.
  match goal with |- TA n (fst (if ?c then _ else _)) => destruct c end.
  - cbn [fst]. eapply TA_trans; [exact H04|]. tav.
  - match goal with |- TA n (fst (if ?c then _ else _)) => destruct c end.
    + cbn [fst]. eapply TA_trans; [exact H04|]. tav.
    + match goal with |- TA n (fst (if ?c then _ else _)) => destruct c end.
      * match goal with |- TA n (fst (if ?c then _ else _)) => destruct c end; cbn [fst];
          (eapply TA_trans; [exact H04|]).
        -- eapply TA_trans; [apply TA_close_snapshot|]. tav.
        -- eapply TA_trans; [|apply TA_h_install_compact]. eapply TA_trans; [apply TA_close_snapshot|]. tav.
      * cbn [fst]. eapply TA_trans; [exact H04|].
        eapply TA_trans; [|apply TA_h_install_restore]. eapply TA_trans; [apply TA_close_snapshot|]. tav.
Qed.

Lemma TA_run_handler now m q : TA m (fst (fst (run_handler now m q))).
Proof.
  unfold run_handler. destruct q as [r|r|r].
  - pose proof (TA_h_append_entries now m r) as H. destruct (h_append_entries now m r) as [n1 p]. exact H.
  - pose proof (TA_h_request_vote now m r) as H. destruct (h_request_vote now m r) as [n1 p]. exact H.
  - pose proof (TA_h_install_snapshot now m r) as H. destruct (h_install_snapshot now m r) as [n1 p]. exact H.
Qed.

Lemma TA_new_round n stamp : TA n (fst (new_round n stamp)).
Proof. unfold new_round. cbn [fst]. tav. Qed.

(* ---- sender side, loops, API ---- *)
Lemma TA_try_apply_ro now n s : TA n (try_apply_ro now n s). Proof. unfold try_apply_ro, signal_ro. tav. Qed.

Lemma TA_send_ae_to_peers now n : TA n (send_ae_to_peers now n).
Proof.
  unfold send_ae_to_peers.
  set (n0 := n <| n_hb_rounds ::= N.succ |>).
  assert (H0 : TA n n0) by tav.
  set (n1 := if is_single (conf_of n) (n_id n) then _ else n0).
  assert (H1 : TA n0 n1).
  { subst n1. destruct (is_single (conf_of n) (n_id n)); [|apply TA_refl].
    eapply TA_trans; [|apply TA_try_apply_ro].
    destruct (n_commit n0 <? last_index (n_log n0)); [apply TA_signal_commit|apply TA_refl]. }
  assert (H01 : TA n n1) by (apply TA_trans with n0; [exact H0|exact H1]).
  eapply TA_trans; [exact H01|].
  generalize (n_hb_rounds n0). intros stamp.
  assert (HI : n_id n1 = n_id n) by apply H01.
  clearbody n1. clear H0 H1 H01. clearbody n0.
  generalize dependent (conf_of n). intros c.
  unfold new_round.
  eapply TA_add_tasks.
  - reflexivity.
  - reflexivity.
  - intros rid p H. apply in_map_iff in H. destruct H as (id & H & Hf). injection H as _ ->.
    apply filter_In in Hf. destruct Hf as [_ Hf]. rewrite HI.
    destruct (p =? n_id n) eqn:EQ; [discriminate Hf|]. apply N.eqb_neq. exact EQ.
Qed.

Lemma TA_upd_followers n f : TA n (n <| n_followers ::= f |>). Proof. tav. Qed.

Lemma TA_become_leader now n : TA n (become_leader now n).
Proof.
  unfold become_leader.
  eapply TA_trans; [|apply TA_send_ae_to_peers]. eapply TA_trans; [|apply TA_append_entries].
  eapply TA_trans; [|apply TA_reset_snapshot_files].
  apply TA_trans with (new_opmanager now (n <| n_role := Leader |>)); [|apply TA_upd_followers].
  eapply TA_trans; [|apply TA_new_opmanager]. tav.
Qed.

Lemma TA_set_follower n id f : TA n (set_follower n id f). Proof. unfold set_follower. tav. Qed.
Lemma TA_set_fobj n id g f : TA n (set_fobj n id g f).
Proof. unfold set_fobj. destruct (_ =? g); [apply TA_set_follower|tav]. Qed.

Lemma TA_l_is_send n peer : TA n (fst (l_is_send n peer)).
Proof.
  unfold l_is_send. destruct (negb (role_eqb (n_role n) Leader)); [apply TA_refl|].
  destruct (n_lii n =? 0); [apply TA_refl|].
  match goal with |- TA n (fst (match ?c with _ => _ end)) => destruct c as [[s o]|] end; cbn [fst];
    [apply TA_set_follower|apply TA_fail].
Qed.

Lemma TA_l_ae_send n peer : TA n (fst (l_ae_send n peer)).
Proof.
  unfold l_ae_send. destruct (_ || _); [apply TA_refl|].
  destruct (f_next (get_follower n peer) <=? n_lii n).
  - pose proof (TA_l_is_send n peer) as H. destruct (l_is_send n peer) as [n1 [q|]]; exact H.
  - destruct (next_index (n_log n) <? f_next (get_follower n peer)); cbn [fst]; [apply TA_fail|apply TA_refl].
Qed.

Lemma TA_l_is_reply now n peer g q resp : TA n (l_is_reply now n peer g q resp).
Proof.
  unfold l_is_reply.
  destruct (f_snap (fobj n peer g)) as [[s o]|]; [|apply TA_refl].
  destruct resp as [p|]; [|apply TA_refl].
  destruct (n_term n <? isr_term p); [apply TA_become_follower|].
  destruct (negb (isr_written p =? is_offset q)); [apply TA_set_fobj|].
  destruct (negb (is_done q)); [apply TA_refl|apply TA_set_fobj].
Qed.

Lemma TA_lp_commit now n : TA n (lp_commit now n).
Proof.
  unfold lp_commit. set (n0 := n <| n_cv ::= _ |>). assert (H0 : TA n n0) by tav.
  destruct (negb (role_eqb (n_role n0) Leader)); [exact H0|].
  match goal with |- TA n (if ?c then _ else _) => destruct c end; [|exact H0].
  eapply TA_trans; [exact H0|]. eapply TA_trans; [|apply TA_send_ae_to_peers]. unfold signal_apply. tav.
Qed.

Lemma TA_upd_cfg m v : TA m (m <| n_cfg_fid := v |>). Proof. tav. Qed.
Lemma TA_upd_pending m f : TA m (m <| n_pending ::= f |>). Proof. tav. Qed.
Lemma TA_upd_applied m f : TA m (m <| n_applied ::= f |>). Proof. tav. Qed.
Lemma TA_upd_fsm m a f : TA m (m <| n_fsm := a |> <| n_applies ::= f |>). Proof. tav. Qed.

Lemma TA_lp_apply_one now n : TA n (lp_apply_one now n).
Proof.
  unfold lp_apply_one. destruct (log_get (n_log n) (n_applied n + 1)) as [e|]; [|apply TA_fail].
  set (n1 := match e_kind e with KNoop => n | _ => _ end).
  assert (H1 : TA n n1).
  { subst n1. destruct (e_kind e) as [|p|c].
    - apply TA_refl.
    - match goal with |- TA n (match ?x with _ => _ end) => destruct x end.
      + eapply TA_trans; [|apply TA_respond]. eapply TA_trans; [|apply TA_upd_pending]. apply TA_upd_fsm.
      + apply TA_upd_fsm.
    - match goal with |- TA n (match ?x with _ => _ end) => destruct x end.
      + eapply TA_trans; [|apply TA_upd_cfg]. eapply TA_trans; [|apply TA_respond]. apply TA_apply_configuration.
      + apply TA_apply_configuration. }
  match goal with |- TA n (if ?c then _ else _) => destruct c end.
  - eapply TA_trans; [|apply TA_signal_snapshot]. eapply TA_trans; [|apply TA_upd_applied]. exact H1.
  - eapply TA_trans; [|apply TA_upd_applied]. exact H1.
Qed.

Lemma TA_lp_apply_run now fuel : forall n, TA n (lp_apply_run fuel now n).
Proof.
  induction fuel as [|f IH]; intros n; cbn [lp_apply_run]; [apply TA_refl|].
  match goal with |- TA n (if ?c then _ else _) => destruct c end; [|apply TA_refl].
  eapply TA_trans; [apply TA_lp_apply_one|apply IH].
Qed.

Lemma TA_lp_apply now n : TA n (lp_apply now n).
Proof.
  unfold lp_apply. set (n0 := n <| n_cv ::= _ |>). assert (H0 : TA n n0) by tav.
  eapply TA_trans; [exact H0|].
  match goal with |- TA _ (if ?c then _ else _) => destruct c end;
    [eapply TA_trans; [apply TA_lp_apply_run|apply TA_signal_ro]|apply TA_lp_apply_run].
Qed.

Lemma TA_fold_respond (f : node -> rop -> node) ops : (forall m o, TA m (f m o)) -> forall n, TA n (fold_left f ops n).
Proof.
  intros Hf. induction ops as [|o ops IH]; intros n; cbn [fold_left]; [apply TA_refl|].
  eapply TA_trans; [apply Hf|apply IH].
Qed.

Lemma TA_lp_ro now n : TA n (lp_ro now n).
Proof.
  unfold lp_ro. set (n0 := n <| n_cv ::= _ |>). assert (H0 : TA n n0) by tav.
  destruct (_ || _); [exact H0|].
  eapply TA_trans; [exact H0|]. eapply TA_trans; [|apply TA_fold_respond].
  - tav.
  - intros m o. destruct (ro_type o); [apply TA_respond|apply TA_respond|].
    destruct (lease_valid now m); apply TA_respond.
Qed.

Lemma TA_lp_snapshot n : TA n (lp_snapshot n).
Proof.
  unfold lp_snapshot. set (n0 := n <| n_cv ::= _ |>). assert (H0 : TA n n0) by tav.
  destruct (_ || _); [exact H0|]. destruct (n_applied n0 <=? n_lii n0); [exact H0|].
  destruct (n_cconf n0) as [cc|]; [|exact H0]. destruct (n_applied n0 <? c_index cc); [exact H0|].
  destruct (log_get (n_log n0) (n_applied n0)) as [e|]; [|eapply TA_trans; [exact H0|apply TA_fail]].
  eapply TA_trans; [exact H0|].
  match goal with |- TA _ (if ?c then _ else _) => destruct c end; [apply TA_refl|].
  eapply TA_trans; [apply TA_close_snapshot|]. eapply TA_trans; [|apply TA_reset_snapshot_files].
  eapply TA_trans; [|apply TA_compact_log]. tav.
Qed.

Lemma TA_lp_snapshot_every m : TA m ((lp_snapshot (m <| n_snap_every := 1 |>)) <| n_snap_every := 0 |>).
Proof.
  apply TA_trans with (m <| n_snap_every := 1 |>); [tav|].
  eapply TA_trans; [apply TA_lp_snapshot|]. tav.
Qed.

Lemma TA_lp_install_resume n : TA n (fst (lp_install_resume n)).
Proof.
  unfold lp_install_resume. destruct (n_iswait n) as [|q r]; [apply TA_refl|].
  destruct (install_can_resume n q); cbn [fst]; [|apply TA_refl].
  eapply TA_trans; [|apply TA_h_install_compact]. tav.
Qed.

Lemma TA_upd_sv m v : TA m (m <| n_should_verify := v |>). Proof. tav. Qed.
Lemma TA_upd_ro m f : TA m (m <| n_ro ::= f |>). Proof. tav. Qed.

Lemma TA_api_submit now n fid ty p : TA n (api_submit now n fid ty p).
Proof.
  unfold api_submit. destruct (negb (role_eqb (n_role n) Leader)); [apply TA_respond|].
  destruct ty.
  - eapply TA_trans; [|apply TA_send_ae_to_peers]. eapply TA_trans; [|apply TA_upd_pending]. apply TA_append_entries.
  - match goal with |- TA n (if ?c then _ else _) => destruct c end; [|apply TA_upd_ro].
    eapply TA_trans; [|apply TA_upd_sv]. eapply TA_trans; [|apply TA_send_ae_to_peers]. apply TA_upd_ro.
  - match goal with |- TA n (if ?c then _ else _) => destruct c end; [|apply TA_upd_ro].
    eapply TA_trans; [|apply TA_signal_ro]. apply TA_upd_ro.
Qed.

Lemma TA_append_configuration n c : TA n (fst (append_configuration n c)).
Proof. unfold append_configuration. cbn [fst]. apply TA_append_entries. Qed.

Lemma TA_upd_conf_cfg m c f : TA m (m <| n_conf := c |> <| n_cfg_fid := f |>). Proof. tav. Qed.

Lemma TA_api_add_server now n fid id v : TA n (api_add_server now n fid id v).
Proof.
  unfold api_add_server. destruct (negb (role_eqb (n_role n) Leader)); [apply TA_respond|].
  destruct (negb (committed_this_term n)); [apply TA_respond|].
  destruct (pending_conf_change n); [apply TA_respond|].
  destruct (_ && _); [apply TA_respond|].
  pose proof (TA_append_configuration n {| c_index := 0; c_members := put id v (c_members (conf_of n)) |}) as H.
  destruct (append_configuration n _) as [n1 c']. cbn [fst] in H.
  eapply TA_trans; [|apply TA_send_ae_to_peers]. eapply TA_trans; [|apply TA_new_follower].
  eapply TA_trans; [|apply TA_upd_conf_cfg]. exact H.
Qed.

Lemma TA_api_remove_server now n fid id : TA n (api_remove_server now n fid id).
Proof.
  unfold api_remove_server. destruct (negb (role_eqb (n_role n) Leader)); [apply TA_respond|].
  destruct (negb (committed_this_term n)); [apply TA_respond|].
  destruct (pending_conf_change n); [apply TA_respond|].
  destruct (negb (is_member (conf_of n) id)); [apply TA_respond|].
  pose proof (TA_append_configuration n {| c_index := 0; c_members := remove_key id (c_members (conf_of n)) |}) as H.
  destruct (append_configuration n _) as [n1 c']. cbn [fst] in H.
  eapply TA_trans; [|apply TA_send_ae_to_peers]. eapply TA_trans; [|apply TA_upd_cfg]. exact H.
Qed.

Lemma TA_l_heartbeat now n : TA n (l_heartbeat now n).
Proof. unfold l_heartbeat. destruct (_ || _); [apply TA_refl|apply TA_send_ae_to_peers]. Qed.

Lemma TA_api_start now n : TA n (api_start now n).
Proof.
  unfold api_start. destruct (negb _); [apply TA_refl|].
  match goal with |- TA n (fold_left ?f ?l ?n2 <| n_contact := _ |> <| n_role := _ |>) =>
    apply TA_trans with n2; [tav|]; apply TA_trans with (fold_left f l n2); [apply TA_new_followers|tav] end.
Qed.

Lemma TA_api_bootstrap n members : TA n (api_bootstrap n members).
Proof.
  unfold api_bootstrap. destruct (n_conf n); [apply TA_refl|].
  destruct (0 <? last_index (n_log n)); [apply TA_refl|].
  eapply TA_trans; [|apply TA_append_entries]. tav.
Qed.

(* ---- elections, RPC responses ---- *)
Lemma TA_bump_round n r : TA n (bump_round n r). Proof. unfold bump_round. tav. Qed.

(* sendRequestVoteToPeers spawns sendRequestVote goroutines only (or, alone in its configuration, becomes leader) *)
Lemma TA_send_rv_to_peers now n : TA n (send_rv_to_peers now n).
Proof.
  unfold send_rv_to_peers. destruct (is_single (conf_of n) (n_id n)).
  - eapply TA_trans; [|apply TA_become_leader].
    destruct (role_eqb (n_role n) PreCandidate); [|apply TA_refl].
    eapply TA_trans; [|apply TA_persist]. tav.
  - unfold new_round. eapply TA_add_tasks.
    + reflexivity.
    + reflexivity.
    + intros rid p H. apply in_map_iff in H. destruct H as (id & H & _). discriminate H.
Qed.

Lemma TA_l_election now n : TA n (l_election now n).
Proof.
  unfold l_election.
  set (n0 := n <| n_cv ::= _ |>).
  assert (H0 : TA n n0) by tav. clearbody n0.
  match goal with |- TA n (if ?c then _ else _) => destruct c end; [exact H0|].
  set (n1 := if role_eqb (n_role n0) Follower then n0 <| n_role := PreCandidate |> else n0).
  assert (H1 : TA n0 n1) by (subst n1; destruct (role_eqb (n_role n0) Follower); [tav|apply TA_refl]).
  clearbody n1.
  eapply TA_trans; [exact H0|]. eapply TA_trans; [exact H1|]. eapply TA_trans; [|apply TA_send_rv_to_peers].
  destruct (role_eqb (n_role n1) Candidate); [|apply TA_refl].
  eapply TA_trans; [|apply TA_persist]. tav.
Qed.

Lemma TA_l_rv_reply now n rid peer pv q p : TA n (l_rv_reply now n rid peer pv q p).
Proof.
  unfold l_rv_reply.
  destruct (role_eqb (n_role n) Shutdown); [apply TA_refl|].
  destruct (rv_term q <? n_term n); [apply TA_refl|].
  set (n1 := if rvr_granted p then bump_round n rid else n).
  assert (H1 : TA n n1) by (subst n1; destruct (rvr_granted p); [apply TA_bump_round|apply TA_refl]).
  clearbody n1.
  destruct (rv_term q <? rvr_term p).
  - eapply TA_trans; [exact H1|apply TA_become_follower].
  - eapply TA_trans; [exact H1|].
    set (n2 := if _ && role_eqb (n_role n1) PreCandidate then _ else n1).
    assert (H2 : TA n1 n2).
    { subst n2. match goal with |- TA _ (if ?c then _ else _) => destruct c end; [|apply TA_refl].
      eapply TA_trans; [|apply TA_signal_election]. tav. }
    match goal with |- TA _ (if ?c then _ else _) => destruct c end; [|exact H2].
    eapply TA_trans; [exact H2|apply TA_become_leader].
Qed.

Lemma TA_l_ae_reply now m rid peer gen q p : TA m (fst (l_ae_reply now m rid peer gen q p)).
Proof.
  unfold l_ae_reply.
  destruct (_ || _); [apply TA_refl|].
  destruct (n_term m <? aer_term p); [cbn [fst]; apply TA_become_follower|].
  destruct (negb (ae_term q =? n_term m)); [apply TA_refl|].
  set (n1 := if is_voter (conf_of m) peer then bump_round m rid else m).
  set (n2 := if is_voter (conf_of m) peer && has_quorum (conf_of n1) (round_count n1 rid)
             then try_apply_ro now n1 (round_stamp n1 rid) else n1).
  assert (H1 : TA m n1) by (subst n1; destruct (is_voter (conf_of m) peer); [apply TA_bump_round|apply TA_refl]).
  assert (H2 : TA m n2).
  { eapply TA_trans; [exact H1|]. subst n2.
    destruct (is_voter (conf_of m) peer && has_quorum (conf_of n1) (round_count n1 rid)); [apply TA_try_apply_ro|apply TA_refl]. }
  clearbody n2. clear H1. clear n1.
  destruct (negb (aer_success p)).
  - destruct (aer_index p <=? n_lii _).
    + eapply TA_trans; [exact H2|]. eapply TA_trans; [apply TA_set_fobj|]. apply TA_l_is_send.
    + cbn [fst]. eapply TA_trans; [exact H2|apply TA_set_fobj].
  - match goal with |- TA m (fst (if ?c then _ else _)) => destruct c end; cbn [fst]; [|exact H2].
    eapply TA_trans; [exact H2|]. eapply TA_trans; [apply TA_set_fobj|].
    match goal with |- TA _ (if ?c then _ else _) => destruct c end; [apply TA_signal_commit|apply TA_refl].
Qed.

(* ---- crash, restart: every goroutine is gone ---- *)
Lemma TA_of_nil m m' : itf m' = (n_id m, []) -> TA m m'.
Proof.
  unfold itf. intros H. injection H as H1 H2. split; [exact H1|]. rewrite H2. intros t [].
Qed.

Lemma itf_crash m : itf (crash m) = (n_id m, []).
Proof. reflexivity. Qed.

Lemma TA_crash m : TA m (crash m).
Proof. apply TA_of_nil, itf_crash. Qed.

Lemma itf_restore m : itf (restore m) = itf m.
Proof.
  unfold restore.
  set (n1 := m <| n_open := true |> <| n_term := n_pterm m |> <| n_vote := n_pvote m |>).
  assert (H1 : itf n1 = itf m) by reflexivity.
  clearbody n1.
  set (n2 := match last (map Some (n_snaps n1)) None with Some s => _ | None => n1 end).
  assert (H2 : itf n2 = itf n1) by (subst n2; destruct (last (map Some (n_snaps n1)) None); reflexivity).
  clearbody n2.
  set (n3 := match last (map Some (n_snaps n1)) None with Some s => _ | None => n2 end).
  assert (H2' : itf n3 = itf n2).
  { subst n3. destruct (last (map Some (n_snaps n1)) None) as [s|]; [|reflexivity].
    destruct (_ || _); reflexivity. }
  clearbody n3. destruct (conf_scan _ _ _) as [c cc].
  assert (H3 : itf (n3 <| n_conf := c |> <| n_cconf := cc |>) = itf n3) by reflexivity.
  rewrite H3, H2', H2. exact H1.
Qed.

Lemma itf_new_follower n id nx : itf (new_follower n id nx) = itf n. Proof. reflexivity. Qed.
Lemma itf_new_followers nx ids : forall n, itf (fold_left (fun m id => new_follower m id nx) ids n) = itf n.
Proof.
  induction ids as [|id ids IH]; intros n; cbn [fold_left]; [reflexivity|].
  rewrite IH. apply itf_new_follower.
Qed.

Lemma itf_api_start now n : itf (api_start now n) = itf n.
Proof.
  unfold api_start. destruct (negb _); [reflexivity|].
  match goal with |- itf (fold_left ?f ?l ?n2 <| n_contact := _ |> <| n_role := _ |>) = _ =>
    transitivity (itf (fold_left f l n2)); [generalize (fold_left f l n2); intros base; reflexivity|];
    rewrite itf_new_followers; reflexivity end.
Qed.

Lemma itf_new_opmanager now n : itf (new_opmanager now n) = itf n. Proof. reflexivity. Qed.

Lemma itf_restart now m : itf (restart_after_crash now m) = (n_id m, []).
Proof.
  unfold restart_after_crash. cbv zeta.
  rewrite itf_api_start, itf_new_opmanager, itf_restore. apply itf_crash.
Qed.

Lemma TA_restart_after_crash now m : TA m (restart_after_crash now m).
Proof. apply TA_of_nil, itf_restart. Qed.

(* ---- scheduler: the run queue loses its head, or is rotated ---- *)
Lemma TA_sub_tasks m ts : (forall t, In t ts -> In t (n_tasks m)) -> TA m (m <| n_tasks := ts |>).
Proof.
  intros H. split; [reflexivity|]. intros t Ht. left. apply H. exact Ht.
Qed.

Lemma in_rotate {A} (l : list A) t : In t (tl l ++ firstn 1 l) -> In t l.
Proof.
  destruct l as [|a l]; cbn [tl firstn app]; [intros []|].
  intros H. apply in_app_or in H. destruct H as [H|[H|[]]]; [right; exact H|left; exact H].
Qed.

Lemma TA_defer m : TA m (m <| n_tasks := tl (n_tasks m) ++ firstn 1 (n_tasks m) |>).
Proof. apply TA_sub_tasks. intros t. apply in_rotate. Qed.

(* ================= world level ================= *)
Lemma get_node_in w id n : get_node w id = Some n -> In n (w_nodes w).
Proof. unfold get_node. intros H. apply find_some in H. apply H. Qed.

Lemma TAEW_same w w' : w_nodes w' = w_nodes w -> TAEW w -> TAEW w'.
Proof. intros En H n Hn. rewrite En in Hn. exact (H n Hn). Qed.

Lemma TAEW_set_node w m : TAEW w -> tae_ok m -> TAEW (set_node w m).
Proof.
  intros HW Hm x Hx. unfold set_node in Hx. cbn [w_nodes set] in Hx. apply in_map_iff in Hx.
  destruct Hx as (y & <- & Hy). destruct (n_id y =? n_id m); [exact Hm|apply HW, Hy].
Qed.

Lemma TAEW_set_call w c : TAEW w -> TAEW (set_call w c).
Proof. apply TAEW_same. reflexivity. Qed.

Lemma TAEW_new_call w src dst rid g q : TAEW w -> TAEW (new_call w src dst rid g q).
Proof. apply TAEW_same. reflexivity. Qed.

Lemma TAEW_drop w id : TAEW w -> TAEW (drop_calls_of w id).
Proof. apply TAEW_same. reflexivity. Qed.

Lemma TAEW_upd_node w m m' : TAEW w -> In m (w_nodes w) -> TA m m' -> TAEW (set_node w m').
Proof. intros HW Hin HT. apply TAEW_set_node; [exact HW|]. eapply tae_ok_TA; [apply HW, Hin|exact HT]. Qed.

Lemma TAEW_on_node w id f : (forall m, TA m (f m)) -> TAEW w -> TAEW (on_node w id f).
Proof.
  intros Hf HW. unfold on_node. destruct (get_node w id) as [m|] eqn:G; [|exact HW].
  eapply TAEW_upd_node; [exact HW|exact (get_node_in _ _ _ G)|apply Hf].
Qed.

Lemma TAEW_step_task w m : In m (w_nodes w) -> TAEW w -> TAEW (step_task w m).
Proof.
  intros Hin HW. unfold step_task. destruct (n_tasks m) as [|t rest] eqn:ET; [exact HW|].
  set (n0 := m <| n_tasks := rest |>).
  assert (H0 : TA m n0).
  { subst n0. apply TA_sub_tasks. intros x Hx. rewrite ET. right. exact Hx. }
  clearbody n0. destruct t as [rid peer pv|rid peer].
  - destruct (l_rv_send n0 rid peer pv); [apply TAEW_new_call|]; eapply TAEW_upd_node; eassumption.
  - pose proof (TA_l_ae_send n0 peer) as H1.
    destruct (l_ae_send n0 peer) as [n1 s]. cbn [fst] in H1.
    assert (HW1 : TAEW (set_node w n1)).
    { eapply TAEW_upd_node; [exact HW|exact Hin|]. eapply TA_trans; eassumption. }
    destruct s; [exact HW1|apply TAEW_new_call; exact HW1|apply TAEW_new_call; exact HW1].
Qed.

Lemma TAEW_step_deliver w c dup : TAEW w -> TAEW (step_deliver w c dup).
Proof.
  intros HW. unfold step_deliver. destruct (get_node w (c_dst c)) as [n|] eqn:G;
    [|destruct dup; [exact HW|apply TAEW_set_call; exact HW]].
  destruct (n_frozen n); [destruct dup; [exact HW|apply TAEW_set_call; exact HW]|].
  pose proof (TA_run_handler (w_now w) n (c_req c)) as H1.
  destruct (run_handler (w_now w) n (c_req c)) as [[n1 resp] parked]. cbn [fst] in H1.
  assert (HW1 : TAEW (set_node w n1)).
  { eapply TAEW_upd_node; [exact HW|exact (get_node_in _ _ _ G)|exact H1]. }
  destruct dup; [exact HW1|].
  destruct (n_frozen n1); [apply TAEW_set_call; exact HW1|].
  destruct resp; apply TAEW_set_call; exact HW1.
Qed.

Lemma TAEW_step_reply w c failed : TAEW w -> TAEW (step_reply w c failed).
Proof.
  intros HW. unfold step_reply.
  set (w0 := set_call w (c <| c_state := CDone |>)).
  assert (H0 : TAEW w0) by (apply TAEW_set_call; exact HW).
  destruct (get_node w (c_src c)) as [n|] eqn:G; [|exact H0].
  assert (Hin : In n (w_nodes w0)) by exact (get_node_in _ _ _ G).
  clearbody w0.
  destruct (n_frozen n); [exact H0|].
  destruct (c_req c) as [q|q|q];
    destruct (if failed then None else c_resp c) as [[p|p|p]|];
    try exact H0;
    try (eapply TAEW_upd_node; [exact H0|exact Hin|]; first [apply TA_l_rv_reply|apply TA_l_is_reply]).
  pose proof (TA_l_ae_reply (w_now w) n (c_round c) (c_dst c) (c_fgen c) q p) as H1.
  destruct (l_ae_reply (w_now w) n (c_round c) (c_dst c) (c_fgen c) q p) as [n1 [isq|]]; cbn [fst] in H1.
  - apply TAEW_new_call. eapply TAEW_upd_node; eassumption.
  - eapply TAEW_upd_node; eassumption.
Qed.

Theorem step_TAEW w l : TAEW w -> TAEW (step w l).
Proof.
  intros HW. destruct l; cbn [step].
  - (* LTick *) eapply TAEW_same; [|exact HW]. reflexivity.
  - (* LElection *) apply TAEW_on_node; [|exact HW]. intros m. destruct (is_up m); [apply TA_signal_election|apply TA_refl].
  - (* LHeartbeat *) apply TAEW_on_node; [|exact HW]. intros m. destruct (is_up m); [apply TA_l_heartbeat|apply TA_refl].
  - (* LDeliver *) destruct (get_call w c) as [cl|]; [|exact HW].
    destruct (c_state cl); try exact HW. apply TAEW_step_deliver; assumption.
  - (* LDup *) destruct (get_call w c) as [cl|]; [|exact HW]. apply TAEW_step_deliver; assumption.
  - (* LReply *) destruct (get_call w c) as [cl|]; [|exact HW].
    destruct (c_state cl); try exact HW. apply TAEW_step_reply; assumption.
  - (* LFail *) destruct (get_call w c) as [cl|]; [|exact HW].
    destruct (c_state cl); try exact HW; apply TAEW_step_reply; assumption.
  - (* LSubmit *) unfold fresh_fid. apply TAEW_on_node; [|eapply TAEW_same; [|exact HW]; reflexivity].
    intros m. destruct (n_frozen m); [apply TA_refl|apply TA_api_submit].
  - (* LAddServer *) unfold fresh_fid. apply TAEW_on_node; [|eapply TAEW_same; [|exact HW]; reflexivity].
    intros m. destruct (n_frozen m); [apply TA_refl|apply TA_api_add_server].
  - (* LRemoveServer *) unfold fresh_fid. apply TAEW_on_node; [|eapply TAEW_same; [|exact HW]; reflexivity].
    intros m. destruct (n_frozen m); [apply TA_refl|apply TA_api_remove_server].
  - (* LSnapshot *) apply TAEW_on_node; [|exact HW]. intros m. destruct (is_up m); [apply TA_lp_snapshot_every|apply TA_refl].
  - (* LCrash *) apply TAEW_drop. apply TAEW_on_node; [|exact HW]. intros m. apply TA_crash.
  - (* LRestart *) apply TAEW_on_node; [|exact HW]. intros m.
    destruct (role_eqb (n_role m) Shutdown); [apply TA_restart_after_crash|apply TA_refl].
  - (* LBudget *) apply TAEW_on_node; [|exact HW]. intros m. apply TA_upd_budget.
  - (* LPad *) apply TAEW_on_node; [|exact HW]. intros m. apply TA_upd_pad.
  - (* LDefer *) apply TAEW_on_node; [|exact HW]. intros m. apply TA_defer.
  - (* LRoMissed *) apply TAEW_on_node; [|exact HW]. intros m. apply TA_upd_cv.
  - (* LTask *) destruct (get_node w n) as [m|] eqn:G; [|exact HW]. destruct (is_up m); [|exact HW].
    apply TAEW_step_task; [eapply get_node_in; exact G|exact HW].
  - (* LElectionRun *) apply TAEW_on_node; [|exact HW]. intros m. destruct (is_up m && cv_election (n_cv m)); [apply TA_l_election|apply TA_refl].
  - (* LCommit *) apply TAEW_on_node; [|exact HW]. intros m. destruct (is_up m && cv_commit (n_cv m)); [apply TA_lp_commit|apply TA_refl].
  - (* LApply *) apply TAEW_on_node; [|exact HW]. intros m. destruct (is_up m && cv_apply (n_cv m)); [apply TA_lp_apply|apply TA_refl].
  - (* LRo *) apply TAEW_on_node; [|exact HW]. intros m. destruct (is_up m && cv_ro (n_cv m)); [apply TA_lp_ro|apply TA_refl].
  - (* LInstallResume *)
    destruct (get_node w n) as [m|] eqn:G; [|exact HW]. apply get_node_in in G.
    pose proof (TA_lp_install_resume m) as H1.
    destruct (lp_install_resume m) as [m1 [q|]]; [|exact HW]. cbn [fst] in H1. cbv zeta.
    assert (HW1 : TAEW (set_node w m1)) by (eapply TAEW_upd_node; eassumption).
    destruct (find _ _) as [c|]; [apply TAEW_set_call|]; exact HW1.
Qed.

Lemma tae_ok_mk_node id et ld : tae_ok (mk_node id et ld).
Proof. intros rid p []. Qed.

Lemma TAEW_init ids boot et ld : TAEW (init_world ids boot et ld).
Proof.
  unfold init_world. intros n Hin. cbn [w_nodes] in Hin. apply in_map_iff in Hin. destruct Hin as (id & <- & _).
  cbv zeta. apply tae_ok_TA with (mk_node id et ld); [apply tae_ok_mk_node|].
  eapply TA_trans; [|apply TA_api_start]. eapply TA_trans; [|apply TA_new_opmanager].
  destruct (existsb (N.eqb id) boot); [apply TA_api_bootstrap|apply TA_refl].
Qed.

Theorem TAEW_run ls : forall w, TAEW w -> TAEW (run w ls).
Proof.
  induction ls as [|l ls IH]; intros w HW; [exact HW|].
  cbn [run fold_left]. apply IH. apply step_TAEW. exact HW.
Qed.

Theorem TAEW_reach ids boot et ld ls : TAEW (run (init_world ids boot et ld) ls).
Proof. apply TAEW_run, TAEW_init. Qed.

Print Assumptions TAEW_reach.
