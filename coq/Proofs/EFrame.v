(* Election safety (C02), frame sweep for the relation E of ElectDefs: every lock-held section that is
   neither an election timeout nor the processing of an RPC response leaves the vote counters it finds
   untouched, creates only fresh counters, keeps the pending sendRequestVote goroutines and spawns
   only sendAppendEntries goroutines of fresh counters. *)
From RaftV Require Import Cluster.World Proofs.Frame Proofs.ElectDefs.
Open Scope N_scope.

Lemma E_refl m : E m m.
Proof.
  constructor; [apply N.le_refl|auto|intros r H; left; exact H|auto|reflexivity|intros t H; left; exact H].
Qed.

Lemma E_trans a b c : E a b -> E b c -> E a c.
Proof.
  intros [N1 O1 R1 W1 T1 A1] [N2 O2 R2 W2 T2 A2]. constructor.
  - lia.
  - auto.
  - intros r H. destruct (R2 r H) as [H1|H1].
    + destruct (R1 r H1) as [H2|H2]; [left; exact H2|right; exact H2].
    + right. lia.
  - auto.
  - congruence.
  - intros t H. destruct (A2 t H) as [H1|(H1 & H2 & H3)].
    + destruct (A1 t H1) as [H2|(H2 & H3 & H4)]; [left; exact H2|right].
      split; [exact H2|]. split; [exact H3|lia].
    + right. split; [exact H1|]. split; [lia|exact H3].
Qed.

Lemma E_of_erf m m' : erf m' = erf m -> E m m'.
Proof.
  unfold erf. intros H. injection H as H1 H2 H3. constructor.
  - rewrite H2. apply N.le_refl.
  - intros r Hr. rewrite H1. exact Hr.
  - intros r Hr. left. rewrite <- H1. exact Hr.
  - unfold wf_rounds. rewrite H1, H2. auto.
  - rewrite H3. reflexivity.
  - intros t Ht. left. rewrite <- H3. exact Ht.
Qed.

(* the base node is abstracted first: conversion on large node terms is slow *)
Ltac etv :=
  match goal with
  | |- E ?x _ => first [ is_var x; apply E_of_erf; reflexivity
                       | let y := fresh "base" in generalize x; intro y; apply E_of_erf; reflexivity
                       | apply E_of_erf; reflexivity ]
  end.

(* ---- E and EB ---- *)
Lemma bumped_refl rid r : bumped rid r r.
Proof. split; [reflexivity|]. split; [reflexivity|]. left. reflexivity. Qed.

Lemma E_EB rid m m' : E m m' -> EB rid m m'.
Proof.
  intros [N1 O1 R1 W1 T1 A1]. constructor; auto.
  - intros r H. exists r. split; [apply O1; exact H|reflexivity].
  - intros r' H. destruct (R1 r' H) as [H1|H1]; [left|right; exact H1].
    exists r'. split; [exact H1|apply bumped_refl].
Qed.

Lemma EB_E_trans rid a b c : EB rid a b -> E b c -> EB rid a c.
Proof.
  intros [N1 O1 R1 W1 T1 A1] [N2 O2 R2 W2 T2 A2]. constructor.
  - lia.
  - intros r H. destruct (O1 r H) as (r' & H1 & H2). exists r'. split; [apply O2; exact H1|exact H2].
  - intros r' H. destruct (R2 r' H) as [H1|H1].
    + exact (R1 r' H1).
    + right. lia.
  - auto.
  - congruence.
  - intros t H. destruct (A2 t H) as [H1|(H1 & H2 & H3)].
    + destruct (A1 t H1) as [H2|(H2 & H3 & H4)]; [left; exact H2|right].
      split; [exact H2|]. split; [exact H3|lia].
    + right. split; [exact H1|]. split; [lia|exact H3].
Qed.

Lemma E_EB_trans rid a b c : E a b -> EB rid b c -> EB rid a c.
Proof.
  intros [N1 O1 R1 W1 T1 A1] [N2 O2 R2 W2 T2 A2]. constructor.
  - lia.
  - intros r H. apply O2, O1, H.
  - intros r' H. destruct (R2 r' H) as [(r & H1 & HB)|H1].
    + destruct (R1 r H1) as [H2|H2].
      * left. exists r. split; [exact H2|exact HB].
      * right. destruct HB as (HB & _). rewrite HB. exact H2.
    + right. lia.
  - auto.
  - congruence.
  - intros t H. destruct (A2 t H) as [H1|(H1 & H2 & H3)].
    + destruct (A1 t H1) as [H2|(H2 & H3 & H4)]; [left; exact H2|right].
      split; [exact H2|]. split; [exact H3|lia].
    + right. split; [exact H1|]. split; [lia|exact H3].
Qed.

(* ---- storage writes ---- *)
Lemma E_tick_write n : E n (snd (tick_write n)).
Proof.
  unfold tick_write. destruct (n_frozen n) eqn:F; [apply E_refl|].
  destruct (n_budget n) as [k|]; [|apply E_refl].
  destruct (k =? 0); cbn [snd]; etv.
Qed.

Lemma E_write (f : node -> node) n :
  (forall m, erf (f m) = erf m) ->
  E n (let (ok, n1) := tick_write n in if ok then f n1 else n1).
Proof.
  intros Hf. pose proof (E_tick_write n) as H. destruct (tick_write n) as [ok n1]. cbn [snd] in H.
  destruct ok; [|exact H]. eapply E_trans; [exact H|]. apply E_of_erf, Hf.
Qed.

Lemma E_persist n : E n (persist n). Proof. apply E_write. reflexivity. Qed.
Lemma E_truncate_log n i : E n (truncate_log n i). Proof. apply E_write. reflexivity. Qed.
Lemma E_compact_log n i : E n (compact_log n i). Proof. apply E_write. reflexivity. Qed.
Lemma E_discard_log n i t : E n (discard_log n i t). Proof. apply E_write. reflexivity. Qed.
Lemma E_close_snapshot n s : E n (close_snapshot n s). Proof. apply E_write. reflexivity. Qed.
Lemma E_append_entries es : forall n, E n (append_entries n es).
Proof.
  induction es as [|e es IH]; intros n; cbn [append_entries]; [apply E_refl|].
  pose proof (E_tick_write n) as H. destruct (tick_write n) as [ok n1]. cbn [snd] in H.
  destruct ok; [|exact H]. eapply E_trans; [exact H|]. eapply E_trans; [|apply IH]. etv.
Qed.

(* ---- futures, small transitions ---- *)
Lemma E_fail o n : E n (fail o n). Proof. unfold fail. destruct (n_out n); [etv|apply E_refl|apply E_refl]. Qed.

Lemma E_respond n f r : E n (respond n f r).
Proof.
  unfold respond. destruct (n_frozen n); [apply E_refl|].
  destruct (existsb _ _); [apply E_refl|etv].
Qed.
Lemma E_respond_all fs : forall n r, E n (respond_all n fs r).
Proof.
  induction fs as [|f fs IH]; intros n r; [apply E_refl|].
  cbn [respond_all fold_left]. fold (respond_all (respond n f r) fs r).
  eapply E_trans; [apply E_respond|apply IH].
Qed.
Lemma E_new_opmanager now n : E n (new_opmanager now n). Proof. etv. Qed.
Lemma E_reset_snapshot_files n : E n (reset_snapshot_files n). Proof. etv. Qed.
Lemma E_notify_lost_leadership n : E n (notify_lost_leadership n).
Proof. unfold notify_lost_leadership. eapply E_trans; [apply E_respond_all|apply E_respond_all]. Qed.
Lemma E_cancel_conf_change n : E n (cancel_conf_change n).
Proof.
  unfold cancel_conf_change. destruct (n_cfg_fid n) as [f|]; [|apply E_refl].
  eapply E_trans; [apply E_respond|]. etv.
Qed.

Lemma E_signal_apply n : E n (signal_apply n). Proof. etv. Qed.
Lemma E_signal_commit n : E n (signal_commit n). Proof. etv. Qed.
Lemma E_signal_ro n : E n (signal_ro n). Proof. etv. Qed.
Lemma E_signal_election n : E n (signal_election n). Proof. etv. Qed.
Lemma E_signal_snapshot n : E n (signal_snapshot n). Proof. etv. Qed.

Lemma E_upd_budget m k : E m (m <| n_budget := k |>). Proof. etv. Qed.
Lemma E_upd_pad m k : E m (m <| n_pad := k |>). Proof. etv. Qed.
Lemma E_upd_cv m f : E m (m <| n_cv ::= f |>). Proof. etv. Qed.

Lemma E_become_follower now n l t : E n (become_follower now n l t).
Proof.
  unfold become_follower.
  eapply E_trans; [|apply E_cancel_conf_change]. eapply E_trans; [|apply E_new_opmanager].
  eapply E_trans; [|apply E_notify_lost_leadership]. eapply E_trans; [|apply E_reset_snapshot_files].
  eapply E_trans; [|apply E_persist]. etv.
Qed.

Lemma E_stepdown now n : E n (stepdown now n).
Proof.
  unfold stepdown. eapply E_trans; [|apply E_cancel_conf_change]. eapply E_trans; [|apply E_new_opmanager].
  eapply E_trans; [|apply E_notify_lost_leadership]. etv.
Qed.

Lemma E_new_follower n id nx : E n (new_follower n id nx). Proof. unfold new_follower. etv. Qed.
Lemma E_new_followers nx ids : forall n, E n (fold_left (fun m id => new_follower m id nx) ids n).
Proof.
  induction ids as [|id ids IH]; intros n; cbn [fold_left]; [apply E_refl|].
  eapply E_trans; [apply E_new_follower|apply IH].
Qed.

Lemma E_next_configuration now n c : E n (next_configuration now n c).
Proof.
  unfold next_configuration. destruct c as [nx|]; [|apply E_fail].
  set (n1 := if is_member nx (n_id n) then n else _).
  assert (H1 : E n n1).
  { subst n1. destruct (is_member nx (n_id n)); [apply E_refl|].
    eapply E_trans; [|apply E_reset_snapshot_files].
    destruct (role_eqb (n_role n) Leader); [apply E_stepdown|apply E_refl]. }
  clearbody n1. eapply E_trans; [exact H1|].
  match goal with |- E n1 (fold_left ?f ?l ?n2 <| n_conf := ?c |>) =>
    apply E_trans with n2; [etv|]; apply E_trans with (fold_left f l n2); [apply E_new_followers|etv] end.
Qed.

Lemma E_apply_configuration now n c : E n (apply_configuration now n c).
Proof.
  unfold apply_configuration. destruct (n_cconf n) as [cc|].
  - destruct (c_index c <=? c_index cc); [apply E_refl|].
    eapply E_trans; [apply E_next_configuration|]. etv.
  - eapply E_trans; [apply E_next_configuration|]. etv.
Qed.

(* ---- RequestVote ---- *)
Lemma E_h_request_vote now n q : E n (fst (h_request_vote now n q)).
Proof.
  unfold h_request_vote.
  destruct (role_eqb (n_role n) Shutdown); [apply E_refl|].
  destruct (lease_valid now n || recent_contact now n); [apply E_refl|].
  destruct (rv_term q <? n_term n); [apply E_refl|].
  set (n1 := if negb (rv_prevote q) && (n_term n <? rv_term q) then become_follower now n (rv_cand q) (rv_term q) else n).
  assert (H1 : E n n1).
  { subst n1. destruct (negb (rv_prevote q) && (n_term n <? rv_term q)); [|apply E_refl].
    apply E_become_follower. }
  clearbody n1.
  destruct (negb (rv_prevote q) && match n_vote n1 with Some v => negb (v =? rv_cand q) | None => false end);
    [exact H1|].
  destruct ((rv_last_term q <? last_term (n_log n1)) || _); [exact H1|].
  cbn [fst]. destruct (rv_prevote q); [exact H1|].
  eapply E_trans; [exact H1|]. eapply E_trans; [|apply E_persist]. etv.
Qed.

(* ---- AppendEntries ---- *)
Lemma E_ae_scan now es : forall n n4 l, ae_scan now n es = Some (n4, l) -> E n n4.
Proof.
  induction es as [|e es IH]; intros n n4 l H; cbn [ae_scan] in H.
  - injection H as <- _. apply E_refl.
  - destruct (last_index (n_log n) <? e_index e); [injection H as <- _; apply E_refl|].
    destruct (log_get (n_log n) (e_index e)) as [ex|]; [|discriminate].
    destruct ((e_index ex =? e_index e) && negb (e_term ex =? e_term e)).
    + injection H as <- _.
      destruct (e_index e <=? c_index (conf_of (truncate_log n (e_index e)))).
      * eapply E_trans; [apply E_truncate_log|apply E_next_configuration].
      * apply E_truncate_log.
    + eapply IH; exact H.
Qed.

Lemma E_h_append_entries now n q : E n (fst (h_append_entries now n q)).
Proof.
  unfold h_append_entries.
  destruct (role_eqb (n_role n) Shutdown); [apply E_refl|].
  destruct (ae_term q <? n_term n); [apply E_refl|].
  set (n1 := n <| n_contact := now |> <| n_leader := Some (ae_leader q) |>).
  assert (H1 : E n n1) by etv.
  clearbody n1.
  set (n2 := if n_term n1 <? ae_term q then become_follower now n1 (ae_leader q) (ae_term q) else n1).
  assert (H2 : E n1 n2).
  { subst n2. destruct (n_term n1 <? ae_term q); [|apply E_refl]. apply E_become_follower. }
  clearbody n2.
  set (n3 := if (ae_term q =? n_term n2) && _ then become_follower now n2 (ae_leader q) (ae_term q) else n2).
  assert (H3 : E n2 n3).
  { subst n3. destruct ((ae_term q =? n_term n2) && _); [|apply E_refl]. apply E_become_follower. }
  clearbody n3.
  assert (H03 : E n n3) by (eapply E_trans; [exact H1|eapply E_trans; eassumption]).
  destruct (ae_prev_index q <? n_lii n3); [exact H03|].
  destruct (next_index (n_log n3) <=? ae_prev_index q); [exact H03|].
  destruct ((n_lii n3 =? ae_prev_index q) && negb (n_lit n3 =? ae_prev_term q)); [exact H03|].
  match goal with |- E n (fst (match ?c with _ => _ end)) => destruct c as [[idx|]|] end.
  - exact H03.
  - cbn [fst]. eapply E_trans; [exact H03|apply E_fail].
  - destruct (ae_scan now n3 (ae_entries q)) as [[n4 to_append]|] eqn:Es.
    + cbn [fst]. eapply E_trans; [exact H03|].
      eapply E_trans; [eapply E_ae_scan; exact Es|].
      eapply E_trans; [apply E_append_entries|].
      match goal with |- E _ (if ?c then _ else _) => destruct c end; [|apply E_refl].
      unfold signal_apply. etv.
    + cbn [fst]. eapply E_trans; [exact H03|apply E_fail].
Qed.

(* ---- InstallSnapshot ---- *)
Lemma E_h_install_compact n q : E n (h_install_compact n q).
Proof. unfold h_install_compact. destruct (_ || _); [apply E_refl|apply E_compact_log]. Qed.

Lemma E_h_install_restore now n q : E n (h_install_restore now n q).
Proof.
  unfold h_install_restore. destruct (last (map Some (n_snaps n)) None) as [s|]; [|apply E_fail].
  destruct (role_eqb _ Shutdown); [etv|].
  eapply E_trans; [|apply E_apply_configuration]. eapply E_trans; [|apply E_discard_log]. etv.
Qed.

Lemma E_h_install_snapshot now n q : E n (fst (h_install_snapshot now n q)).
Proof.
  unfold h_install_snapshot.
  destruct (role_eqb (n_role n) Shutdown); [apply E_refl|].
  destruct (is_term q <? n_term n); [apply E_refl|].
  set (n1 := if n_term n <? is_term q then become_follower now n (is_leader q) (is_term q) else n).
  assert (H1 : E n n1).
  { subst n1. destruct (n_term n <? is_term q); [|apply E_refl]. apply E_become_follower. }
  clearbody n1.
  set (n2 := if (is_term q =? n_term n1) && _ then become_follower now n1 (is_leader q) (is_term q) else n1).
  assert (H2 : E n1 n2).
  { subst n2. destruct ((is_term q =? n_term n1) && _); [|apply E_refl]. apply E_become_follower. }
  clearbody n2.
  set (n3 := n2 <| n_contact := now |>).
  assert (H03 : E n n3).
  { eapply E_trans; [exact H1|]. eapply E_trans; [exact H2|]. etv. }
  clearbody n3.
  destruct ((is_lii q <=? n_lii n3) || (is_lii q <=? n_applied n3)); [exact H03|].
  set (n4 := match n_partial n3 with Some p => if s_index p <? is_lii q then n3 <| n_partial := None |> else n3 | None => n3 end).
  assert (H4 : E n3 n4).
  { subst n4. destruct (n_partial n3) as [p|]; [|apply E_refl]. destruct (s_index p <? is_lii q); [etv|apply E_refl]. }
  assert (H04 : E n n4) by (eapply E_trans; [exact H03|exact H4]).
  clearbody n4.
  match goal with |- E n (fst (if ?c then _ else _)) => destruct c end.
  - cbn [fst]. eapply E_trans; [exact H04|]. etv.
  - match goal with |- E n (fst (if ?c then _ else _)) => destruct c end.
    + cbn [fst]. eapply E_trans; [exact H04|]. etv.
    + match goal with |- E n (fst (if ?c then _ else _)) => destruct c end.
      * match goal with |- E n (fst (if ?c then _ else _)) => destruct c end; cbn [fst];
          (eapply E_trans; [exact H04|]).
        -- eapply E_trans; [apply E_close_snapshot|]. etv.
        -- eapply E_trans; [|apply E_h_install_compact]. eapply E_trans; [apply E_close_snapshot|]. etv.
      * cbn [fst]. eapply E_trans; [exact H04|].
        eapply E_trans; [|apply E_h_install_restore]. eapply E_trans; [apply E_close_snapshot|]. etv.
Qed.

Lemma E_run_handler now m q : E m (fst (fst (run_handler now m q))).
Proof.
  unfold run_handler. destruct q as [r|r|r].
  - pose proof (E_h_append_entries now m r) as H. destruct (h_append_entries now m r) as [n1 p]. exact H.
  - pose proof (E_h_request_vote now m r) as H. destruct (h_request_vote now m r) as [n1 p]. exact H.
  - pose proof (E_h_install_snapshot now m r) as H. destruct (h_install_snapshot now m r) as [n1 p]. exact H.
Qed.

(* ---- new counters, new goroutines ---- *)
Lemma NoDup_snoc {A} (l : list A) x : NoDup l -> ~ In x l -> NoDup (l ++ [x]).
Proof.
  induction l as [|a l IH]; intros Hd Hx; cbn [app].
  - constructor; [intros []|constructor].
  - inversion Hd as [|a' l' Ha Hl]; subst. constructor.
    + intros Hin. apply in_app_or in Hin. destruct Hin as [Hin|[Hin|[]]]; [exact (Ha Hin)|].
      subst. apply Hx. left. reflexivity.
    + apply IH; [exact Hl|]. intros Hin. apply Hx. right. exact Hin.
Qed.

Lemma filter_none {A} (f : A -> bool) l : (forall x, In x l -> f x = false) -> filter f l = [].
Proof.
  induction l as [|a l IH]; intros H; cbn [filter]; [reflexivity|].
  rewrite (H a (or_introl eq_refl)). apply IH. intros x Hx. apply H. right. exact Hx.
Qed.

(* one fresh counter, goroutines of that counter *)
Lemma E_round_tasks m m' r ts :
  n_rounds m' = n_rounds m ++ [r] -> rd_id r = n_next_round m ->
  n_next_round m' = n_next_round m + 1 ->
  n_tasks m' = n_tasks m ++ ts ->
  (forall t, In t ts -> is_trv t = false /\ task_round t = n_next_round m) ->
  E m m'.
Proof.
  intros HR Hid HN HT Hts. constructor.
  - lia.
  - intros r0 H. rewrite HR. apply in_or_app. left. exact H.
  - intros r0 H. rewrite HR in H. apply in_app_or in H. destruct H as [H|[H|[]]]; [left; exact H|right].
    subst r0. rewrite Hid. apply N.le_refl.
  - unfold wf_rounds. intros [Hd Hlt]. rewrite HR, HN. split.
    + rewrite map_app. cbn [map]. apply NoDup_snoc; [exact Hd|].
      intros Hin. apply in_map_iff in Hin. destruct Hin as (r0 & H1 & H2).
      specialize (Hlt r0 H2). lia.
    + intros r0 H. apply in_app_or in H. destruct H as [H|[H|[]]].
      * specialize (Hlt r0 H). lia.
      * subst r0. lia.
  - rewrite HT, filter_app. rewrite (filter_none is_trv ts); [apply app_nil_r|].
    intros t Ht. apply Hts. exact Ht.
  - intros t H. rewrite HT in H. apply in_app_or in H. destruct H as [H|H]; [left; exact H|right].
    destruct (Hts t H) as [H1 H2]. split; [exact H1|]. lia.
Qed.

Lemma E_new_round n stamp : E n (fst (new_round n stamp)).
Proof.
  unfold new_round. cbn [fst].
  eapply E_round_tasks with (ts := []).
  - reflexivity.
  - reflexivity.
  - reflexivity.
  - rewrite app_nil_r. reflexivity.
  - intros t [].
Qed.

(* ---- sender side, loops, API ---- *)
Lemma E_try_apply_ro now n s : E n (try_apply_ro now n s). Proof. unfold try_apply_ro, signal_ro. etv. Qed.

Lemma E_send_ae_to_peers now n : E n (send_ae_to_peers now n).
Proof.
  unfold send_ae_to_peers.
  set (n0 := n <| n_hb_rounds ::= N.succ |>).
  assert (H0 : E n n0) by etv.
  set (n1 := if is_single (conf_of n) (n_id n) then _ else n0).
  assert (H1 : E n0 n1).
  { subst n1. destruct (is_single (conf_of n) (n_id n)); [|apply E_refl].
    eapply E_trans; [|apply E_try_apply_ro].
    destruct (n_commit n0 <? last_index (n_log n0)); [apply E_signal_commit|apply E_refl]. }
  eapply E_trans; [exact H0|]. eapply E_trans; [exact H1|].
  generalize (n_hb_rounds n0). intros stamp. clearbody n1.
  unfold new_round. cbn [fst snd].
  eapply E_round_tasks.
  - reflexivity.
  - reflexivity.
  - reflexivity.
  - reflexivity.
  - intros t Ht. apply in_map_iff in Ht. destruct Ht as (id & <- & _). split; reflexivity.
Qed.

Lemma E_upd_followers n f : E n (n <| n_followers ::= f |>). Proof. etv. Qed.

Lemma E_become_leader now n : E n (become_leader now n).
Proof.
  unfold become_leader.
  eapply E_trans; [|apply E_send_ae_to_peers]. eapply E_trans; [|apply E_append_entries].
  eapply E_trans; [|apply E_reset_snapshot_files].
  apply E_trans with (new_opmanager now (n <| n_role := Leader |>)); [|apply E_upd_followers].
  eapply E_trans; [|apply E_new_opmanager]. etv.
Qed.

Lemma E_set_follower n id f : E n (set_follower n id f). Proof. unfold set_follower. etv. Qed.
Lemma E_set_fobj n id g f : E n (set_fobj n id g f).
Proof. unfold set_fobj. destruct (_ =? g); [apply E_set_follower|etv]. Qed.

Lemma E_l_is_send n peer : E n (fst (l_is_send n peer)).
Proof.
  unfold l_is_send. destruct (negb (role_eqb (n_role n) Leader)); [apply E_refl|].
  destruct (n_lii n =? 0); [apply E_refl|].
  match goal with |- E n (fst (match ?c with _ => _ end)) => destruct c as [[s o]|] end; cbn [fst];
    [apply E_set_follower|apply E_fail].
Qed.

Lemma E_l_ae_send n peer : E n (fst (l_ae_send n peer)).
Proof.
  unfold l_ae_send. destruct (_ || _); [apply E_refl|].
  destruct (f_next (get_follower n peer) <=? n_lii n).
  - pose proof (E_l_is_send n peer) as H. destruct (l_is_send n peer) as [n1 [q|]]; exact H.
  - destruct (next_index (n_log n) <? f_next (get_follower n peer)); cbn [fst]; [apply E_fail|apply E_refl].
Qed.

Lemma E_l_is_reply now n peer g q resp : E n (l_is_reply now n peer g q resp).
Proof.
  unfold l_is_reply.
  destruct (f_snap (fobj n peer g)) as [[s o]|]; [|apply E_refl].
  destruct resp as [p|]; [|apply E_refl].
  destruct (n_term n <? isr_term p); [apply E_become_follower|].
  destruct (negb (isr_written p =? is_offset q)); [apply E_set_fobj|].
  destruct (negb (is_done q)); [apply E_refl|apply E_set_fobj].
Qed.

Lemma E_lp_commit now n : E n (lp_commit now n).
Proof.
  unfold lp_commit. set (n0 := n <| n_cv ::= _ |>). assert (H0 : E n n0) by etv.
  destruct (negb (role_eqb (n_role n0) Leader)); [exact H0|].
  match goal with |- E n (if ?c then _ else _) => destruct c end; [|exact H0].
  eapply E_trans; [exact H0|]. eapply E_trans; [|apply E_send_ae_to_peers]. unfold signal_apply. etv.
Qed.

Lemma E_upd_cfg m v : E m (m <| n_cfg_fid := v |>). Proof. etv. Qed.
Lemma E_upd_pending m f : E m (m <| n_pending ::= f |>). Proof. etv. Qed.
Lemma E_upd_applied m f : E m (m <| n_applied ::= f |>). Proof. etv. Qed.
Lemma E_upd_fsm m a f : E m (m <| n_fsm := a |> <| n_applies ::= f |>). Proof. etv. Qed.

Lemma E_lp_apply_one now n : E n (lp_apply_one now n).
Proof.
  unfold lp_apply_one. destruct (log_get (n_log n) (n_applied n + 1)) as [e|]; [|apply E_fail].
  set (n1 := match e_kind e with KNoop => n | _ => _ end).
  assert (H1 : E n n1).
  { subst n1. destruct (e_kind e) as [|p|c].
    - apply E_refl.
    - match goal with |- E n (match ?x with _ => _ end) => destruct x end.
      + eapply E_trans; [|apply E_respond]. eapply E_trans; [|apply E_upd_pending]. apply E_upd_fsm.
      + apply E_upd_fsm.
    - match goal with |- E n (match ?x with _ => _ end) => destruct x end.
      + eapply E_trans; [|apply E_upd_cfg]. eapply E_trans; [|apply E_respond]. apply E_apply_configuration.
      + apply E_apply_configuration. }
  match goal with |- E n (if ?c then _ else _) => destruct c end.
  - eapply E_trans; [|apply E_signal_snapshot]. eapply E_trans; [|apply E_upd_applied]. exact H1.
  - eapply E_trans; [|apply E_upd_applied]. exact H1.
Qed.

Lemma E_lp_apply_run now fuel : forall n, E n (lp_apply_run fuel now n).
Proof.
  induction fuel as [|f IH]; intros n; cbn [lp_apply_run]; [apply E_refl|].
  match goal with |- E n (if ?c then _ else _) => destruct c end; [|apply E_refl].
  eapply E_trans; [apply E_lp_apply_one|apply IH].
Qed.

Lemma E_lp_apply now n : E n (lp_apply now n).
Proof.
  unfold lp_apply. set (n0 := n <| n_cv ::= _ |>). assert (H0 : E n n0) by etv.
  eapply E_trans; [exact H0|].
  match goal with |- E _ (if ?c then _ else _) => destruct c end;
    [eapply E_trans; [apply E_lp_apply_run|apply E_signal_ro]|apply E_lp_apply_run].
Qed.

Lemma E_fold_respond (f : node -> rop -> node) ops : (forall m o, E m (f m o)) -> forall n, E n (fold_left f ops n).
Proof.
  intros Hf. induction ops as [|o ops IH]; intros n; cbn [fold_left]; [apply E_refl|].
  eapply E_trans; [apply Hf|apply IH].
Qed.

Lemma E_lp_ro now n : E n (lp_ro now n).
Proof.
  unfold lp_ro. set (n0 := n <| n_cv ::= _ |>). assert (H0 : E n n0) by etv.
  destruct (_ || _); [exact H0|].
  eapply E_trans; [exact H0|]. eapply E_trans; [|apply E_fold_respond].
  - etv.
  - intros m o. destruct (ro_type o); [apply E_respond|apply E_respond|].
    destruct (lease_valid now m); apply E_respond.
Qed.

Lemma E_lp_snapshot n : E n (lp_snapshot n).
Proof.
  unfold lp_snapshot. set (n0 := n <| n_cv ::= _ |>). assert (H0 : E n n0) by etv.
  destruct (_ || _); [exact H0|]. destruct (n_applied n0 <=? n_lii n0); [exact H0|].
  destruct (n_cconf n0) as [cc|]; [|exact H0]. destruct (n_applied n0 <? c_index cc); [exact H0|].
  destruct (log_get (n_log n0) (n_applied n0)) as [e|]; [|eapply E_trans; [exact H0|apply E_fail]].
  eapply E_trans; [exact H0|].
  match goal with |- E _ (if ?c then _ else _) => destruct c end; [apply E_refl|].
  eapply E_trans; [apply E_close_snapshot|]. eapply E_trans; [|apply E_reset_snapshot_files].
  eapply E_trans; [|apply E_compact_log]. etv.
Qed.

Lemma E_lp_snapshot_every m : E m ((lp_snapshot (m <| n_snap_every := 1 |>)) <| n_snap_every := 0 |>).
Proof.
  apply E_trans with (m <| n_snap_every := 1 |>); [etv|].
  eapply E_trans; [apply E_lp_snapshot|]. etv.
Qed.

Lemma E_lp_install_resume n : E n (fst (lp_install_resume n)).
Proof.
  unfold lp_install_resume. destruct (n_iswait n) as [|q r]; [apply E_refl|].
  destruct (install_can_resume n q); cbn [fst]; [|apply E_refl].
  eapply E_trans; [|apply E_h_install_compact]. etv.
Qed.

Lemma E_upd_sv m v : E m (m <| n_should_verify := v |>). Proof. etv. Qed.
Lemma E_upd_ro m f : E m (m <| n_ro ::= f |>). Proof. etv. Qed.

Lemma E_api_submit now n fid ty p : E n (api_submit now n fid ty p).
Proof.
  unfold api_submit. destruct (negb (role_eqb (n_role n) Leader)); [apply E_respond|].
  destruct ty.
  - eapply E_trans; [|apply E_send_ae_to_peers]. eapply E_trans; [|apply E_upd_pending]. apply E_append_entries.
  - match goal with |- E n (if ?c then _ else _) => destruct c end; [|apply E_upd_ro].
    eapply E_trans; [|apply E_upd_sv]. eapply E_trans; [|apply E_send_ae_to_peers]. apply E_upd_ro.
  - match goal with |- E n (if ?c then _ else _) => destruct c end; [|apply E_upd_ro].
    eapply E_trans; [|apply E_signal_ro]. apply E_upd_ro.
Qed.

Lemma E_append_configuration n c : E n (fst (append_configuration n c)).
Proof. unfold append_configuration. cbn [fst]. apply E_append_entries. Qed.

Lemma E_upd_conf_cfg m c f : E m (m <| n_conf := c |> <| n_cfg_fid := f |>). Proof. etv. Qed.

Lemma E_api_add_server now n fid id v : E n (api_add_server now n fid id v).
Proof.
  unfold api_add_server. destruct (negb (role_eqb (n_role n) Leader)); [apply E_respond|].
  destruct (negb (committed_this_term n)); [apply E_respond|].
  destruct (pending_conf_change n); [apply E_respond|].
  destruct (_ && _); [apply E_respond|].
  pose proof (E_append_configuration n {| c_index := 0; c_members := put id v (c_members (conf_of n)) |}) as H.
  destruct (append_configuration n _) as [n1 c']. cbn [fst] in H.
  eapply E_trans; [|apply E_send_ae_to_peers]. eapply E_trans; [|apply E_new_follower].
  eapply E_trans; [|apply E_upd_conf_cfg]. exact H.
Qed.

Lemma E_api_remove_server now n fid id : E n (api_remove_server now n fid id).
Proof.
  unfold api_remove_server. destruct (negb (role_eqb (n_role n) Leader)); [apply E_respond|].
  destruct (negb (committed_this_term n)); [apply E_respond|].
  destruct (pending_conf_change n); [apply E_respond|].
  destruct (negb (is_member (conf_of n) id)); [apply E_respond|].
  pose proof (E_append_configuration n {| c_index := 0; c_members := remove_key id (c_members (conf_of n)) |}) as H.
  destruct (append_configuration n _) as [n1 c']. cbn [fst] in H.
  eapply E_trans; [|apply E_send_ae_to_peers]. eapply E_trans; [|apply E_upd_cfg]. exact H.
Qed.

Lemma E_l_heartbeat now n : E n (l_heartbeat now n).
Proof. unfold l_heartbeat. destruct (_ || _); [apply E_refl|apply E_send_ae_to_peers]. Qed.

Lemma E_api_start now n : E n (api_start now n).
Proof.
  unfold api_start. destruct (negb _); [apply E_refl|].
  match goal with |- E n (fold_left ?f ?l ?n2 <| n_contact := _ |> <| n_role := _ |>) =>
    apply E_trans with n2; [etv|]; apply E_trans with (fold_left f l n2); [apply E_new_followers|etv] end.
Qed.

(* ---- crash, restart: all counters and goroutines are gone ---- *)
Lemma erf_crash m : erf (crash m) = ([], n_next_round m, []).
Proof. reflexivity. Qed.

Lemma erf_restore m : erf (restore m) = erf m.
Proof.
  unfold restore.
  set (n1 := m <| n_open := true |> <| n_term := n_pterm m |> <| n_vote := n_pvote m |>).
  assert (H1 : erf n1 = erf m) by reflexivity.
  clearbody n1.
  set (n2 := match last (map Some (n_snaps n1)) None with Some s => _ | None => n1 end).
  assert (H2 : erf n2 = erf n1) by (subst n2; destruct (last (map Some (n_snaps n1)) None); reflexivity).
  clearbody n2.
  set (n3 := match last (map Some (n_snaps n1)) None with Some s => _ | None => n2 end).
  assert (H2' : erf n3 = erf n2).
  { subst n3. destruct (last (map Some (n_snaps n1)) None) as [s|]; [|reflexivity].
    destruct (_ || _); reflexivity. }
  clearbody n3. destruct (conf_scan _ _ _) as [c cc].
  assert (H3 : erf (n3 <| n_conf := c |> <| n_cconf := cc |>) = erf n3) by reflexivity.
  rewrite H3, H2', H2. exact H1.
Qed.

Lemma erf_new_follower n id nx : erf (new_follower n id nx) = erf n. Proof. reflexivity. Qed.
Lemma erf_new_followers nx ids : forall n, erf (fold_left (fun m id => new_follower m id nx) ids n) = erf n.
Proof.
  induction ids as [|id ids IH]; intros n; cbn [fold_left]; [reflexivity|].
  rewrite IH. apply erf_new_follower.
Qed.

Lemma erf_api_start now n : erf (api_start now n) = erf n.
Proof.
  unfold api_start. destruct (negb _); [reflexivity|].
  match goal with |- erf (fold_left ?f ?l ?n2 <| n_contact := _ |> <| n_role := _ |>) = _ =>
    transitivity (erf (fold_left f l n2)); [generalize (fold_left f l n2); intros base; reflexivity|];
    rewrite erf_new_followers; reflexivity end.
Qed.

Lemma erf_new_opmanager now n : erf (new_opmanager now n) = erf n. Proof. reflexivity. Qed.

Lemma erf_restart now m : erf (restart_after_crash now m) = ([], n_next_round m, []).
Proof.
  unfold restart_after_crash. cbv zeta.
  rewrite erf_api_start, erf_new_opmanager, erf_restore. apply erf_crash.
Qed.

Print Assumptions E_run_handler.
