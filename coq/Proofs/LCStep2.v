(* Leader completeness (C07), one step, part 2: entries of the new world, dead entries stay dead. *)
From Coq Require Import Classical.
From RaftV Require Import Cluster.World Cluster.Statements Proofs.Frame Proofs.RVSpec Proofs.AESpec Proofs.AELog Proofs.AEFull.
From RaftV Require Import Proofs.ConfNode Proofs.ConfStatic Proofs.ConfSticky.
From RaftV Require Import Proofs.Votes Proofs.VoteRecords Proofs.Names Proofs.ElectSpec.
From RaftV Require Import Proofs.ElectDefs Proofs.ElectBook Proofs.ElectWorld Proofs.ElectRun Proofs.ElectSafety.
From RaftV Require Import Proofs.LogDefs Proofs.LogSeg Proofs.LogUni Proofs.LogInv Proofs.LogAccept Proofs.LogFrame Proofs.NoSnap Proofs.TaePeer
                          Proofs.LogWorld Proofs.LogRun Proofs.LogMatching Proofs.StepCases Proofs.SortedTerms Proofs.ReachInd Proofs.ReqTerm
                          Proofs.LCDefs Proofs.LCHist Proofs.LCCore Proofs.LCStep.
Open Scope N_scope.

Section LCStep2.
Variable C : config.
Hypothesis HCnd : NoDup (member_ids C).
Variables (w : world) (l : label).
Hypothesis Hst : static_label l = true.
Hypothesis Hns : nosnap_label l = true.
Hypothesis HA : ALL C w.
Hypothesis HA' : ALL C (step w l).
Hypothesis HS : SRT w.
Hypothesis HS' : SRT (step w l).
Hypothesis HR : RTL w.
Hypothesis HRT : rt_ok w.
Let w' := step w l.

Let HX := a_x C w HA.
Let HV := x_v C w HX.
Let HX' := a_x C w' HA'.
Let HL := a_lm C w HA.
Let HL' := a_lm C w' HA'.
Let HU := a_uni C w HA.
Let HU' := a_uni C w' HA'.

(* a brand-new entry: appended in this step by an unfrozen leader, of its term *)
Definition NEWE (ej : entry) : Prop :=
  exists n n' r, In n (w_nodes w) /\ In n' (w_nodes w') /\ n_id n' = n_id n /\ n_log n = entry0 :: r /\
    n_log n' = entry0 :: r ++ [ej] /\ e_index ej = N.of_nat (length r) + 1 /\ e_term ej = n_term n' /\
    n_role n' = Leader /\ n_frozen n' = false /\ n_pterm n' = n_term n' /\ n_pterm n <= n_pterm n' /\
    lead C (w_calls w') (n_id n) (n_term n') /\ 2 <= e_index ej.

(* where the entry at an index of a new segment comes from *)
Lemma eget_origin s' i e : is_seg w' s' -> eget s' i = Some e ->
  (exists s, is_seg w s /\ eget s i = Some e) \/ (NEWE e /\ i = e_index e).
Proof.
  intros Hs E. destruct (seg_cases C HCnd w l Hst Hns HA s' Hs) as [Hold|n n' Hn Hn' Eid Hp -> HK|m k' q Hk' Eq Es Hm Hrole Ht Hd Hsub Hb ->].
  - left. exists s'. auto.
  - destruct HK as [El|r e0 Er Er' Ei Et Erole Efr Ept Hlead Hi2|k q x F Hk Eq Ed -> Hterm (Hx1 & Hbx & F0 & F1 & F2 & F3 & F4 & F6 & F7)].
    + left. exists (seg_of_log (n_log n)). split; [left; exists n; auto|]. rewrite <- El. exact E.
    + rewrite Er' in E. destruct (N.le_gt_cases i (N.of_nat (length r))) as [Hi|Hi].
      * left. exists (seg_of_log (n_log n)). split; [left; exists n; auto|]. rewrite Er. rewrite eget_app_old in E by exact Hi. exact E.
      * destruct (N.eq_dec i (N.of_nat (length r) + 1)) as [->|Hne]; [|rewrite eget_app_beyond in E by lia; discriminate].
        rewrite eget_app_new in E. injection E as <-. right. split; [|symmetry; exact Ei].
        exists n, n', r. destruct Hlead as [L1 L2]. repeat split; auto.
    + destruct (N.lt_ge_cases i x) as [Hi|Hi].
      * left. exists (seg_of_log (n_log n)). split; [left; exists n; auto|]. rewrite <- (F1 i Hi). exact E.
      * left. exists (seg_of_req q). split; [right; exists k, q; auto|]. destruct (F3 i Hi) as [N0|Eq0]; [congruence|]. rewrite <- Eq0. exact E.
  - left. exists (seg_of_log (n_log m)). split; [left; exists m; auto|]. apply Hsub, E.
Qed.

Lemma entry_cases ej : is_entry w' ej -> is_entry w ej \/ NEWE ej.
Proof.
  intros (s' & Hs & Hh & Hi). destruct (eget_origin s' _ ej Hs Hh) as [(s & A & B)|[A _]]; [left; exists s; auto|right; exact A].
Qed.

Hypothesis HI : LCI C w.

(* ---------------- dead entries stay dead ---------------- *)
Lemma success_term n q : In n (w_nodes w) -> forall k, In k (w_calls w) -> c_req k = ReqAE q ->
  ae_success (snd (h_append_entries (w_now w) n q)) = true -> n_frozen (fst (h_append_entries (w_now w) n q)) = false ->
  n_term n <= ae_term q.
Proof.
  intros Hn k Hk Eq Hsucc Hfr.
  destruct (ns_nodes w (a_ns C w HA) n Hn) as (Hlii & Hlit & _ & _ & _ & (r & Er)).
  assert (Hsn : is_seg w (seg_of_log (n_log n))) by (left; exists n; auto).
  assert (Hsq : is_seg w (seg_of_req q)) by (right; exists k, q; auto).
  destruct (ae_success_full (w_now w) n q r Er Hlii Hlit (lm_wf C w HL _ Hsn) (lm_wf C w HL _ Hsq) Hsucc Hfr) as (_ & _ & _ & H). exact H.
Qed.

Lemma not_member_stable ej d nd : is_entry w ej -> ~ member C (w_calls w) ej d -> In nd (w_nodes w) -> n_id nd = d ->
  e_term ej < n_pterm nd -> ~ member C (w_calls w') ej d.
Proof.
  intros (s & Hs & Hh & Hi) Hnm Hnd Eid Hp [Hack|Hlead].
  - destruct (acked_back C w l Hst Hns HA _ _ _ Hack) as [Hold|(k & q & n & Hk & Eq & Et & Ed & Hn & Ein & F & _ & Hsucc & Hfr & _)].
    + apply Hnm. left. exact Hold.
    + assert (n = nd) by (apply HU; congruence). subst n.
      pose proof (success_term nd q Hnd k Hk Eq Hsucc Hfr) as Hle. destruct (vi_coh w HV nd Hnd F) as [Ec _]. lia.
  - destruct (lm_src C w HL s _ ej Hs Hh Hi) as (a0 & Ha0 & Hl0 & _).
    assert (Hl0' : lead C (w_calls w') (n_id a0) (e_term ej)) by (eapply lead_persist; [apply (hCP C w l HA)|exact Hl0]).
    destruct (node_forward C HCnd w l Hst Hns HA a0 Ha0) as (a0' & Ha0' & _).
    assert (E : d = n_id a0) by (apply (lead_unique C w' d (n_id a0) (e_term ej) a0' a0' HX' Ha0' Ha0' Hlead Hl0')).
    apply Hnm. right. rewrite E. exact Hl0.
Qed.

Lemma dead_mono ej : is_entry w ej -> dead C w ej -> dead C w' ej.
Proof.
  intros He (D & ND & ID & LD & HD). exists D. repeat split; auto.
  - destruct (HD d H) as [Hnm (nd & Hnd & Eid & Hp)]. apply (not_member_stable ej d nd); auto.
  - destruct (HD d H) as [Hnm (nd & Hnd & Eid & Hp)].
    destruct (node_forward C HCnd w l Hst Hns HA nd Hnd) as (nd' & Hnd' & Eid' & HT).
    exists nd'. split; [exact Hnd'|]. split; [congruence|]. pose proof (TR_pterm C w l HA nd nd' Hnd HT). lia.
Qed.

(* ---------------- facts about a brand-new entry ---------------- *)
Hypothesis HR' : RTL w'.
Hypothesis HRQ : forall k, In k (w_calls w) -> rq_call k.

(* the appender of a new entry is the winner of its term in the old world's eyes too, if its persistent term was already that term *)
Lemma newe_unique ej n n' r a0 T : NEWE ej ->
  In n (w_nodes w) -> In n' (w_nodes w') -> n_id n' = n_id n -> n_log n' = entry0 :: r ++ [ej] ->
  n_role n' = Leader -> e_term ej = n_term n' -> lead C (w_calls w') (n_id n) (n_term n') ->
  In a0 (w_nodes w) -> lead C (w_calls w) (n_id a0) T -> T = e_term ej -> a0 = n.
Proof.
  intros _ Hn Hn' Eid _ _ Et Hl Ha0 Hl0 ->. apply HU; [exact Ha0|exact Hn|].
  apply (lead_unique C w' (n_id a0) (n_id n) (e_term ej) n' n' HX' Hn' Hn'); [|rewrite Et; exact Hl].
  eapply lead_persist; [apply (hCP C w l HA)|exact Hl0].
Qed.

(* no old segment has the new entry's term at or beyond the new entry's index *)
Lemma newe_above ej s i2 : NEWE ej -> is_seg w s -> e_index ej <= i2 -> tget s i2 = Some (e_term ej) -> False.
Proof.
  intros (n & n' & r & Hn & Hn' & Eid & Er & Er' & Ei & Et & Erole & Efr & Ept & Hp & Hl & Hi2) Hs Hi Ht.
  assert (Hsn : is_seg w (seg_of_log (n_log n))) by (left; exists n; auto).
  assert (Hcase : (sg_base s < i2 /\ exists e2, eget s i2 = Some e2 /\ e_term e2 = e_term ej) \/ i2 = sg_base s).
  { destruct (tget_some _ _ _ Ht) as (Hb & _ & He). destruct (N.eq_dec i2 (sg_base s)) as [E|E]; [right; exact E|left].
    split; [lia|]. apply He. lia. }
  destruct Hcase as [(Hb & e2 & E2 & Et2)|Eb].
  - destruct (lm_src C w HL s i2 e2 Hs E2) as (a0 & Ha0 & Hl0 & Hle0 & Hown0); [lia|].
    assert (a0 = n).
    { apply HU; [exact Ha0|exact Hn|]. apply (lead_unique C w' (n_id a0) (n_id n) (e_term e2) n' n' HX' Hn' Hn').
      - eapply lead_persist; [apply (hCP C w l HA)|exact Hl0].
      - rewrite Et2, Et. exact Hl. }
    subst a0. assert (Epn : n_pterm n = e_term e2) by lia. specialize (Hown0 Epn). rewrite Er in Hown0.
    destruct (eget_range _ _ _ Hown0) as [_ Hj]. rewrite top_log in Hj. lia.
  - (* the base of a request *)
    destruct Hs as [(m & Hm & ->)|(k & q & Hk & Eq & ->)]; [cbn [sg_base seg_of_log] in Eb; lia|].
    cbn [sg_base seg_of_req] in Eb. subst i2. rewrite tget_base in Ht. cbn [sg_bterm seg_of_req] in Ht. injection Ht as Ht.
    destruct (lc_bs C w HI k q Hk Eq) as (a0 & Ha0 & Hl0 & Hle0 & Hown0); [lia|].
    assert (a0 = n).
    { apply HU; [exact Ha0|exact Hn|]. apply (lead_unique C w' (n_id a0) (n_id n) (ae_prev_term q) n' n' HX' Hn' Hn').
      - eapply lead_persist; [apply (hCP C w l HA)|exact Hl0].
      - rewrite Ht, Et. exact Hl. }
    subst a0. assert (Epn : n_pterm n = ae_prev_term q) by lia. destruct (Hown0 Epn) as [_ Hown]. rewrite Er in Hown.
    destruct (tget_some _ _ _ Hown) as (_ & Hj & _). rewrite top_log in Hj. lia.
Qed.

(* nobody has acknowledged a new entry *)
Lemma newe_no_ack ej v : NEWE ej -> ~ acked (w_calls w') (e_term ej) v (e_index ej).
Proof.
  intros HN Hack.
  assert (Hreq : exists k q, In k (w_calls w) /\ c_req k = ReqAE q /\ ae_term q = e_term ej /\
                             e_index ej <= ae_prev_index q + N.of_nat (length (ae_entries q))).
  { destruct (acked_back C w l Hst Hns HA _ _ _ Hack) as [(k & tp & Hk & (q & p & A1 & A2 & _ & _ & _ & A6) & Hj)|(k & q & n0 & Hk & Eq & Et & _ & _ & _ & _ & Hj & _)].
    - exists k, q. subst tp. auto.
    - exists k, q. auto. }
  destruct Hreq as (k & q & Hk & Eq & Etq & Hj).
  assert (Hsq : is_seg w (seg_of_req q)) by (right; exists k, q; auto).
  (* the last position of the request has the request's term and lies at or beyond the new index *)
  apply (newe_above ej (seg_of_req q) (top (seg_of_req q)) HN Hsq); [unfold top; cbn [sg_base sg_es seg_of_req]; exact Hj|].
  rewrite <- Etq. apply (HRQ k Hk q Eq).
Qed.

End LCStep2.
