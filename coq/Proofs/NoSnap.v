(* Executions without local snapshots (no LSnapshot label): no node ever has a snapshot
   boundary, a snapshot file, a partial snapshot or a parked InstallSnapshot handler, every
   log keeps the placeholder entry0 at its head, and no InstallSnapshot request is ever
   created.  Membership changes (LAddServer / LRemoveServer) are allowed.
   Node level: a sweep of [ns_node] over every function of the node reachable from [step]
   with a label other than LSnapshot and a request other than ReqIS; world level: NSW. *)
From RaftV Require Import Cluster.World Cluster.Statements Proofs.LogDefs.
Open Scope N_scope.

(* ================= node level ================= *)
(* the fields ns_node is about *)
Definition nf (n : node) := (n_lii n, n_lit n, n_snaps n, n_partial n, n_iswait n, n_log n).

Lemma ns_nf n n' : nf n' = nf n -> ns_node n -> ns_node n'.
Proof.
  unfold nf, ns_node. intros H. injection H as H1 H2 H3 H4 H5 H6.
  rewrite H1, H2, H3, H4, H5, H6. exact (fun x => x).
Qed.

(* NP: the step from n to n' preserves ns_node *)
Definition NP (n n' : node) : Prop := ns_node n -> ns_node n'.
Lemma NP_refl n : NP n n. Proof. intros H; exact H. Qed.
Lemma NP_trans a b c : NP a b -> NP b c -> NP a c. Proof. unfold NP. auto. Qed.
Lemma NP_of_nf n n' : nf n' = nf n -> NP n n'. Proof. intros E H. eapply ns_nf; eassumption. Qed.

(* the base node is abstracted first: conversion on large node terms is slow *)
Ltac npf :=
  match goal with
  | |- NP ?x _ => first [ is_var x; apply NP_of_nf; reflexivity
                        | let y := fresh "base" in generalize x; intro y; apply NP_of_nf; reflexivity
                        | apply NP_of_nf; reflexivity ]
  end.

Lemma ns_upd_log n f : ns_node n -> (forall r, exists r', f (entry0 :: r) = entry0 :: r') -> ns_node (n <| n_log ::= f |>).
Proof.
  intros (H1 & H2 & H3 & H4 & H5 & r & H6) Hf. unfold ns_node.
  change (n_lii n = 0 /\ n_lit n = 0 /\ n_snaps n = [] /\ n_partial n = None /\ n_iswait n = [] /\
          exists r0, f (n_log n) = entry0 :: r0).
  rewrite H6. repeat (split; [assumption|]). apply Hf.
Qed.

Lemma ns_upd_partial n : ns_node n -> ns_node (n <| n_partial := None |>).
Proof.
  intros (H1 & H2 & H3 & H4 & H5 & H6). unfold ns_node.
  change (n_lii n = 0 /\ n_lit n = 0 /\ n_snaps n = [] /\ @None snap = None /\ n_iswait n = [] /\
          exists r0, n_log n = entry0 :: r0).
  repeat (split; [assumption || reflexivity|]). exact H6.
Qed.

(* ---------------- Handlers.v ---------------- *)
Lemma NP_tick n : NP n (snd (tick_write n)).
Proof.
  unfold tick_write. destruct (n_frozen n); [apply NP_refl|].
  destruct (n_budget n) as [k|]; [|apply NP_refl]. destruct (k =? 0); cbn [snd]; npf.
Qed.

Lemma NP_write (f : node -> node) n :
  (forall m, NP m (f m)) -> NP n (let (ok, n1) := tick_write n in if ok then f n1 else n1).
Proof.
  intros Hf. pose proof (NP_tick n) as H. destruct (tick_write n) as [ok n1]. cbn [snd] in H.
  destruct ok; [|exact H]. eapply NP_trans; [exact H|apply Hf].
Qed.

Lemma NP_persist n : NP n (persist n).
Proof. unfold persist. apply NP_write. intros m. npf. Qed.

Lemma NP_append es : forall n, NP n (append_entries n es).
Proof.
  induction es as [|e es IH]; intros n; cbn [append_entries]; [apply NP_refl|].
  pose proof (NP_tick n) as H. destruct (tick_write n) as [ok n1]. cbn [snd] in H.
  destruct ok; [|exact H]. eapply NP_trans; [exact H|]. eapply NP_trans; [|apply IH].
  intros HC. apply ns_upd_log; [exact HC|]. intros r. exists (r ++ [e]). reflexivity.
Qed.

(* the log keeps its head: only an index above the placeholder is truncated at *)
Lemma NP_truncate n i : 0 < i -> NP n (truncate_log n i).
Proof.
  intros Hi. unfold truncate_log. apply NP_write. intros m H. apply ns_upd_log; [exact H|].
  intros r. unfold log_truncate, first_index. cbn [hd entry0 e_index]. rewrite N.sub_0_r.
  destruct (N.to_nat i) as [|k] eqn:E; [lia|]. exists (firstn k r). reflexivity.
Qed.

Lemma log_get_pos l i e : log_get l i = Some e -> 0 < i.
Proof.
  unfold log_get, log_contains. destruct (i - first_index l <=? 0) eqn:E; [discriminate|].
  intros _. apply N.leb_gt in E. lia.
Qed.

Lemma NP_fail o n : NP n (fail o n).
Proof. unfold fail. destruct (n_out n); [npf|apply NP_refl|apply NP_refl]. Qed.

Lemma NP_respond n f r : NP n (respond n f r).
Proof. unfold respond. destruct (n_frozen n); [apply NP_refl|]. destruct (existsb _ _); [apply NP_refl|npf]. Qed.
Lemma NP_respond_all fids : forall n r, NP n (respond_all n fids r).
Proof.
  induction fids as [|f fids IH]; intros n r; [apply NP_refl|].
  cbn [respond_all fold_left]. fold (respond_all (respond n f r) fids r).
  eapply NP_trans; [apply NP_respond|apply IH].
Qed.
Lemma NP_new_opmanager now n : NP n (new_opmanager now n). Proof. npf. Qed.
Lemma NP_notify n : NP n (notify_lost_leadership n).
Proof. unfold notify_lost_leadership. eapply NP_trans; apply NP_respond_all. Qed.
Lemma NP_cancel n : NP n (cancel_conf_change n).
Proof.
  unfold cancel_conf_change. destruct (n_cfg_fid n); [|apply NP_refl].
  eapply NP_trans; [apply NP_respond|npf].
Qed.

Lemma NP_new_follower n id nx : NP n (new_follower n id nx).
Proof. unfold new_follower. npf. Qed.

Lemma NP_new_followers nx ids : forall n, NP n (fold_left (fun m id => new_follower m id nx) ids n).
Proof.
  induction ids as [|id ids IH]; intros n; cbn [fold_left]; [apply NP_refl|].
  eapply NP_trans; [apply NP_new_follower|apply IH].
Qed.

Lemma NP_reset n : NP n (reset_snapshot_files n).
Proof.
  unfold reset_snapshot_files. intros H.
  apply ns_upd_partial. revert H. apply NP_of_nf. reflexivity.
Qed.

Lemma NP_become_follower now n l t : NP n (become_follower now n l t).
Proof.
  unfold become_follower.
  eapply NP_trans; [|apply NP_cancel]. eapply NP_trans; [|apply NP_new_opmanager].
  eapply NP_trans; [|apply NP_notify]. eapply NP_trans; [|apply NP_reset].
  eapply NP_trans; [|apply NP_persist]. npf.
Qed.

Lemma NP_stepdown now n : NP n (stepdown now n).
Proof.
  unfold stepdown. eapply NP_trans; [|apply NP_cancel]. eapply NP_trans; [|apply NP_new_opmanager].
  eapply NP_trans; [|apply NP_notify]. npf.
Qed.

Lemma NP_next_configuration now n next : NP n (next_configuration now n next).
Proof.
  unfold next_configuration. destruct next as [nx|]; [|apply NP_fail].
  set (n1 := if is_member nx (n_id n) then n else _).
  assert (H1 : NP n n1).
  { subst n1. destruct (is_member nx (n_id n)); [apply NP_refl|].
    eapply NP_trans; [|apply NP_reset]. destruct (role_eqb (n_role n) Leader); [apply NP_stepdown|apply NP_refl]. }
  clearbody n1. eapply NP_trans; [exact H1|].
  match goal with |- NP n1 (fold_left ?f ?l ?n2 <| n_conf := ?c |>) =>
    apply NP_trans with n2; [|apply NP_trans with (fold_left f l n2); [apply NP_new_followers|]] end.
  - npf.
  - npf.
Qed.

Lemma NP_apply_configuration now n c : NP n (apply_configuration now n c).
Proof.
  unfold apply_configuration.
  assert (H : NP n (next_configuration now n (Some c) <| n_cconf := Some c |>)).
  { eapply NP_trans; [apply NP_next_configuration|]. npf. }
  destruct (n_cconf n) as [cc|]; [|exact H]. destruct (c_index c <=? c_index cc); [apply NP_refl|exact H].
Qed.

(* ---- AppendEntries ---- *)
Lemma NP_ae_scan now es : forall n n4 l, ae_scan now n es = Some (n4, l) -> NP n n4.
Proof.
  induction es as [|e es IH]; intros n n4 l H; cbn [ae_scan] in H.
  - injection H as <- <-. apply NP_refl.
  - destruct (last_index (n_log n) <? e_index e); [injection H as <- <-; apply NP_refl|].
    destruct (log_get (n_log n) (e_index e)) as [ex|] eqn:G; [|discriminate].
    apply log_get_pos in G.
    destruct ((e_index ex =? e_index e) && negb (e_term ex =? e_term e)).
    + injection H as <- <-.
      destruct (e_index e <=? c_index (conf_of (truncate_log n (e_index e)))); [|apply NP_truncate, G].
      eapply NP_trans; [apply NP_truncate, G|apply NP_next_configuration].
    + eapply IH; eassumption.
Qed.

Lemma NP_signal_apply n : NP n (signal_apply n). Proof. unfold signal_apply. npf. Qed.

Lemma NP_append_entries now n q : NP n (fst (h_append_entries now n q)).
Proof.
  unfold h_append_entries.
  destruct (role_eqb (n_role n) Shutdown); [apply NP_refl|].
  destruct (ae_term q <? n_term n); [apply NP_refl|].
  set (n1 := n <| n_contact := now |> <| n_leader := Some (ae_leader q) |>).
  assert (H1 : NP n n1) by npf.
  set (n2 := if n_term n1 <? ae_term q then become_follower now n1 (ae_leader q) (ae_term q) else n1).
  assert (H2 : NP n1 n2).
  { subst n2. destruct (n_term n1 <? ae_term q); [apply NP_become_follower|apply NP_refl]. }
  set (n3 := if (ae_term q =? n_term n2) && _ then become_follower now n2 (ae_leader q) (ae_term q) else n2).
  assert (H3 : NP n2 n3).
  { subst n3. destruct ((ae_term q =? n_term n2) && _); [apply NP_become_follower|apply NP_refl]. }
  assert (H03 : NP n n3) by (eapply NP_trans; [exact H1|eapply NP_trans; eassumption]).
  clearbody n3. clear H1 H2 H3 n2 n1.
  destruct (ae_prev_index q <? n_lii n3); [exact H03|].
  destruct (next_index (n_log n3) <=? ae_prev_index q); [exact H03|].
  destruct ((n_lii n3 =? ae_prev_index q) && negb (n_lit n3 =? ae_prev_term q)); [exact H03|].
  match goal with |- NP n (fst (match ?c with _ => _ end)) => destruct c as [[idx|]|] end.
  - exact H03.
  - cbn [fst]. eapply NP_trans; [exact H03|apply NP_fail].
  - destruct (ae_scan now n3 (ae_entries q)) as [[n4 to_append]|] eqn:Es.
    + cbn [fst]. eapply NP_trans; [exact H03|].
      pose proof (NP_ae_scan _ _ _ _ _ Es) as H4.
      eapply NP_trans; [exact H4|]. eapply NP_trans; [apply NP_append|].
      match goal with |- NP _ (if ?c then _ else _) => destruct c end; [|apply NP_refl].
      eapply NP_trans; [|apply NP_signal_apply]. npf.
    + cbn [fst]. eapply NP_trans; [exact H03|apply NP_fail].
Qed.

(* ---- RequestVote ---- *)
Lemma NP_request_vote now n q : NP n (fst (h_request_vote now n q)).
Proof.
  unfold h_request_vote.
  destruct (role_eqb (n_role n) Shutdown); [apply NP_refl|].
  destruct (lease_valid now n || recent_contact now n); [apply NP_refl|].
  destruct (rv_term q <? n_term n); [apply NP_refl|].
  set (n1 := if negb (rv_prevote q) && (n_term n <? rv_term q) then become_follower now n (rv_cand q) (rv_term q) else n).
  assert (H1 : NP n n1).
  { subst n1. destruct (negb (rv_prevote q) && (n_term n <? rv_term q)); [apply NP_become_follower|apply NP_refl]. }
  clearbody n1.
  destruct (negb (rv_prevote q) && match n_vote n1 with Some v => negb (v =? rv_cand q) | None => false end); [exact H1|].
  destruct ((rv_last_term q <? last_term (n_log n1)) || _); [exact H1|].
  cbn [fst]. destruct (rv_prevote q); [exact H1|].
  eapply NP_trans; [exact H1|]. eapply NP_trans; [|apply NP_persist]. npf.
Qed.

(* ---------------- Leader.v ---------------- *)
Lemma NP_set_follower n id f : NP n (set_follower n id f).
Proof. unfold set_follower. npf. Qed.

Lemma NP_set_fobj n id g f : NP n (set_fobj n id g f).
Proof. unfold set_fobj. destruct (_ =? g); [apply NP_set_follower|npf]. Qed.

Lemma NP_bump n r : NP n (bump_round n r). Proof. unfold bump_round. npf. Qed.
Lemma NP_try_apply_ro now n s : NP n (try_apply_ro now n s). Proof. unfold try_apply_ro, signal_ro. npf. Qed.
Lemma NP_signal_commit n : NP n (signal_commit n). Proof. unfold signal_commit. npf. Qed.
Lemma NP_signal_ro n : NP n (signal_ro n). Proof. unfold signal_ro. npf. Qed.
Lemma NP_signal_election n : NP n (signal_election n). Proof. unfold signal_election. npf. Qed.
Lemma NP_signal_snapshot n : NP n (signal_snapshot n). Proof. unfold signal_snapshot. npf. Qed.

Lemma NP_send_ae_to_peers now n : NP n (send_ae_to_peers now n).
Proof.
  unfold send_ae_to_peers.
  set (n0 := n <| n_hb_rounds ::= N.succ |>).
  assert (H0 : NP n n0) by npf.
  set (n1 := if is_single (conf_of n) (n_id n) then _ else n0).
  assert (H1 : NP n0 n1).
  { subst n1. destruct (is_single (conf_of n) (n_id n)); [|apply NP_refl].
    eapply NP_trans; [|apply NP_try_apply_ro].
    destruct (n_commit n0 <? last_index (n_log n0)); [apply NP_signal_commit|apply NP_refl]. }
  unfold new_round. cbn [fst snd].
  eapply NP_trans; [exact H0|]. eapply NP_trans; [exact H1|]. npf.
Qed.

Lemma NP_become_leader now n : NP n (become_leader now n).
Proof.
  unfold become_leader.
  eapply NP_trans; [|apply NP_send_ae_to_peers].
  eapply NP_trans; [|apply NP_append].
  eapply NP_trans; [|apply NP_reset].
  apply NP_trans with (new_opmanager now (n <| n_role := Leader |>)).
  - eapply NP_trans; [|apply NP_new_opmanager]. npf.
  - npf.
Qed.

Lemma NP_send_rv_to_peers now n : NP n (send_rv_to_peers now n).
Proof.
  unfold send_rv_to_peers. destruct (is_single (conf_of n) (n_id n)).
  - eapply NP_trans; [|apply NP_become_leader].
    destruct (role_eqb (n_role n) PreCandidate); [|apply NP_refl].
    eapply NP_trans; [|apply NP_persist]. npf.
  - unfold new_round. npf.
Qed.

Lemma NP_election now n : NP n (l_election now n).
Proof.
  unfold l_election.
  set (n0 := n <| n_cv ::= _ |>).
  assert (H0 : NP n n0) by npf. clearbody n0.
  match goal with |- NP n (if ?c then _ else _) => destruct c end; [exact H0|].
  set (n1 := if role_eqb (n_role n0) Follower then n0 <| n_role := PreCandidate |> else n0).
  assert (H1 : NP n0 n1) by (subst n1; destruct (role_eqb (n_role n0) Follower); [npf|apply NP_refl]).
  clearbody n1.
  eapply NP_trans; [exact H0|]. eapply NP_trans; [exact H1|]. eapply NP_trans; [|apply NP_send_rv_to_peers].
  destruct (role_eqb (n_role n1) Candidate); [|apply NP_refl].
  eapply NP_trans; [|apply NP_persist]. npf.
Qed.

Lemma NP_rv_reply now n rid peer pv q p : NP n (l_rv_reply now n rid peer pv q p).
Proof.
  unfold l_rv_reply.
  destruct (role_eqb (n_role n) Shutdown); [apply NP_refl|].
  destruct (rv_term q <? n_term n); [apply NP_refl|].
  set (n1 := if rvr_granted p then bump_round n rid else n).
  assert (H1 : NP n n1) by (subst n1; destruct (rvr_granted p); [apply NP_bump|apply NP_refl]).
  clearbody n1.
  destruct (rv_term q <? rvr_term p).
  - eapply NP_trans; [exact H1|apply NP_become_follower].
  - eapply NP_trans; [exact H1|].
    set (n2 := if _ && role_eqb (n_role n1) PreCandidate then _ else n1).
    assert (H2 : NP n1 n2).
    { subst n2. match goal with |- NP _ (if ?c then _ else _) => destruct c end; [|apply NP_refl].
      eapply NP_trans; [|apply NP_signal_election]. npf. }
    match goal with |- NP _ (if ?c then _ else _) => destruct c end; [|exact H2].
    eapply NP_trans; [exact H2|apply NP_become_leader].
Qed.

(* ---- replication, sender side: no InstallSnapshot request without a snapshot boundary ---- *)
Lemma is_send_none n peer : n_lii n = 0 -> l_is_send n peer = (n, None).
Proof.
  intros H. unfold l_is_send. destruct (negb (role_eqb (n_role n) Leader)); [reflexivity|].
  rewrite H. reflexivity.
Qed.

Lemma ns_lii n : ns_node n -> n_lii n = 0. Proof. intros H. apply H. Qed.

Lemma NP_is_reply now n peer g q resp : NP n (l_is_reply now n peer g q resp).
Proof.
  unfold l_is_reply. set (f := fobj n peer g). clearbody f.
  destruct (f_snap f) as [[s o]|]; [|apply NP_refl].
  destruct resp as [p|]; [|apply NP_refl].
  destruct (n_term n <? isr_term p); [apply NP_become_follower|].
  destruct (negb (isr_written p =? is_offset q)); [apply NP_set_fobj|].
  destruct (negb (is_done q)); [apply NP_refl|apply NP_set_fobj].
Qed.

Definition sent_ns (s : sent) : Prop := match s with SentIS _ => False | _ => True end.

Lemma ae_send_ns n peer : ns_node n -> ns_node (fst (l_ae_send n peer)) /\ sent_ns (snd (l_ae_send n peer)).
Proof.
  intros H. unfold l_ae_send. destruct (_ || _); [split; [exact H|exact I]|].
  destruct (f_next (get_follower n peer) <=? n_lii n).
  - rewrite (is_send_none n peer (ns_lii n H)). split; [exact H|exact I].
  - destruct (next_index (n_log n) <? f_next (get_follower n peer)); cbn [fst snd].
    + split; [apply NP_fail, H|exact I].
    + split; [exact H|exact I].
Qed.

Lemma ae_reply_ns now n rid peer g q p :
  ns_node n -> ns_node (fst (l_ae_reply now n rid peer g q p)) /\ snd (l_ae_reply now n rid peer g q p) = None.
Proof.
  intros H. unfold l_ae_reply.
  destruct (_ || _); [split; [exact H|reflexivity]|].
  destruct (n_term n <? aer_term p); [split; [apply NP_become_follower, H|reflexivity]|].
  destruct (negb (ae_term q =? n_term n)); [split; [exact H|reflexivity]|].
  set (n1 := if is_voter (conf_of n) peer then bump_round n rid else n).
  set (n2 := if is_voter (conf_of n) peer && has_quorum (conf_of n1) (round_count n1 rid)
             then try_apply_ro now n1 (round_stamp n1 rid) else n1).
  assert (H1 : NP n n1) by (subst n1; destruct (is_voter (conf_of n) peer); [apply NP_bump|apply NP_refl]).
  assert (H2 : ns_node n2).
  { subst n2. destruct (is_voter (conf_of n) peer && has_quorum (conf_of n1) (round_count n1 rid));
      [apply NP_try_apply_ro|]; apply H1, H. }
  clearbody n2. clear H1 n1.
  set (f := fobj n2 peer g). clearbody f.
  destruct (negb (aer_success p)).
  - pose proof (NP_set_fobj n2 peer g (f <| f_next := aer_index p |>) H2) as H3.
    set (n3 := set_fobj n2 peer g _) in *. clearbody n3.
    destruct (aer_index p <=? n_lii n3); [|split; [exact H3|reflexivity]].
    rewrite (is_send_none n3 peer (ns_lii n3 H3)). split; [exact H3|reflexivity].
  - match goal with |- ns_node (fst (if ?c then _ else _)) /\ _ => destruct c end; cbn [fst snd]; [|split; [exact H2|reflexivity]].
    split; [|reflexivity].
    match goal with |- ns_node (if ?c then signal_commit ?x else _) =>
      pose proof (NP_set_fobj n2 peer g _ H2 : ns_node x) as H3; destruct c end;
      [apply NP_signal_commit|]; exact H3.
Qed.

(* ---- loops ---- *)
Lemma NP_commit now n : NP n (lp_commit now n).
Proof.
  unfold lp_commit. set (n0 := n <| n_cv ::= _ |>). assert (H0 : NP n n0) by npf. clearbody n0.
  destruct (negb (role_eqb (n_role n0) Leader)); [exact H0|].
  match goal with |- NP n (if ?c then _ else _) => destruct c end; [|exact H0].
  eapply NP_trans; [exact H0|]. eapply NP_trans; [|apply NP_send_ae_to_peers].
  eapply NP_trans; [|apply NP_signal_apply]. npf.
Qed.

Lemma NP_upd_cfg m v : NP m (m <| n_cfg_fid := v |>). Proof. npf. Qed.
Lemma NP_upd_pending m f : NP m (m <| n_pending ::= f |>). Proof. npf. Qed.
Lemma NP_upd_applied m f : NP m (m <| n_applied ::= f |>). Proof. npf. Qed.
Lemma NP_upd_fsm m a f : NP m (m <| n_fsm := a |> <| n_applies ::= f |>). Proof. npf. Qed.

Lemma NP_apply_one now n : NP n (lp_apply_one now n).
Proof.
  intros H. unfold lp_apply_one. destruct (log_get (n_log n) (n_applied n + 1)) as [e|] eqn:G; [|apply NP_fail, H].
  set (n1 := match e_kind e with KNoop => n | _ => _ end).
  assert (H1 : ns_node n1).
  { subst n1. destruct (e_kind e) as [|p|c] eqn:Ek.
    - exact H.
    - match goal with |- ns_node (match ?x with _ => _ end) => destruct x end.
      + apply NP_respond. apply NP_upd_pending. apply NP_upd_fsm, H.
      + apply NP_upd_fsm, H.
    - pose proof (NP_apply_configuration now n c H) as H'.
      match goal with |- ns_node (match ?x with _ => _ end) => destruct x end; [|exact H'].
      apply NP_upd_cfg. apply NP_respond. exact H'. }
  clearbody n1.
  match goal with |- ns_node (if ?c then _ else _) => destruct c end;
    [apply NP_signal_snapshot|]; apply NP_upd_applied, H1.
Qed.

Lemma NP_apply_run now fuel : forall n, NP n (lp_apply_run fuel now n).
Proof.
  induction fuel as [|f IH]; intros n; cbn [lp_apply_run]; [apply NP_refl|].
  match goal with |- NP n (if ?c then _ else _) => destruct c end; [|apply NP_refl].
  eapply NP_trans; [apply NP_apply_one|apply IH].
Qed.

Lemma NP_apply now n : NP n (lp_apply now n).
Proof.
  unfold lp_apply. set (n0 := n <| n_cv ::= _ |>). assert (H0 : NP n n0) by npf. clearbody n0.
  eapply NP_trans; [exact H0|].
  match goal with |- NP _ (if ?c then _ else _) => destruct c end;
    [eapply NP_trans; [apply NP_apply_run|apply NP_signal_ro]|apply NP_apply_run].
Qed.

Lemma NP_fold_respond (f : node -> rop -> node) ops : (forall m o, NP m (f m o)) -> forall n, NP n (fold_left f ops n).
Proof.
  intros Hf. induction ops as [|o ops IH]; intros n; cbn [fold_left]; [apply NP_refl|].
  eapply NP_trans; [apply Hf|apply IH].
Qed.

Lemma NP_ro now n : NP n (lp_ro now n).
Proof.
  unfold lp_ro. set (n0 := n <| n_cv ::= _ |>). assert (H0 : NP n n0) by npf. clearbody n0.
  destruct (_ || _); [exact H0|].
  eapply NP_trans; [exact H0|]. eapply NP_trans; [|apply NP_fold_respond].
  - npf.
  - intros m o. destruct (ro_type o); [apply NP_respond|apply NP_respond|].
    destruct (lease_valid now m); apply NP_respond.
Qed.

(* no parked handler: nothing to resume *)
Lemma install_resume_ns n : ns_node n -> lp_install_resume n = (n, None).
Proof. intros (_ & _ & _ & _ & H & _). unfold lp_install_resume. rewrite H. reflexivity. Qed.

(* ---- client API, AddServer / RemoveServer included ---- *)
Lemma NP_upd_sv m v : NP m (m <| n_should_verify := v |>). Proof. npf. Qed.
Lemma NP_upd_ro m f : NP m (m <| n_ro ::= f |>). Proof. npf. Qed.

Lemma NP_submit now n fid ty p : NP n (api_submit now n fid ty p).
Proof.
  unfold api_submit. destruct (negb (role_eqb (n_role n) Leader)); [apply NP_respond|].
  destruct ty.
  - eapply NP_trans; [|apply NP_send_ae_to_peers]. eapply NP_trans; [|apply NP_upd_pending].
    apply NP_append.
  - match goal with |- NP n (if ?c then _ else _) => destruct c end; [|apply NP_upd_ro].
    eapply NP_trans; [|apply NP_upd_sv]. eapply NP_trans; [|apply NP_send_ae_to_peers]. apply NP_upd_ro.
  - match goal with |- NP n (if ?c then _ else _) => destruct c end; [|apply NP_upd_ro].
    eapply NP_trans; [|apply NP_signal_ro]. apply NP_upd_ro.
Qed.

Lemma NP_append_configuration n c : NP n (fst (append_configuration n c)).
Proof. unfold append_configuration. cbn [fst]. apply NP_append. Qed.

Lemma NP_add_server now n fid id v : NP n (api_add_server now n fid id v).
Proof.
  unfold api_add_server. destruct (negb (role_eqb (n_role n) Leader)); [apply NP_respond|].
  destruct (negb (committed_this_term n)); [apply NP_respond|].
  destruct (pending_conf_change n); [apply NP_respond|].
  destruct (_ && _); [apply NP_respond|].
  match goal with |- NP n (let (n1, c') := append_configuration n ?c in _) =>
    pose proof (NP_append_configuration n c) as H1; destruct (append_configuration n c) as [n1 c'] end.
  cbn [fst] in H1. eapply NP_trans; [exact H1|]. eapply NP_trans; [|apply NP_send_ae_to_peers].
  eapply NP_trans; [|apply NP_new_follower]. npf.
Qed.

Lemma NP_remove_server now n fid id : NP n (api_remove_server now n fid id).
Proof.
  unfold api_remove_server. destruct (negb (role_eqb (n_role n) Leader)); [apply NP_respond|].
  destruct (negb (committed_this_term n)); [apply NP_respond|].
  destruct (pending_conf_change n); [apply NP_respond|].
  destruct (negb (is_member (conf_of n) id)); [apply NP_respond|].
  match goal with |- NP n (let (n1, _) := append_configuration n ?c in _) =>
    pose proof (NP_append_configuration n c) as H1; destruct (append_configuration n c) as [n1 c'] end.
  cbn [fst] in H1. eapply NP_trans; [exact H1|]. eapply NP_trans; [|apply NP_send_ae_to_peers]. npf.
Qed.

Lemma NP_heartbeat now n : NP n (l_heartbeat now n).
Proof. unfold l_heartbeat. destruct (_ || _); [apply NP_refl|apply NP_send_ae_to_peers]. Qed.

(* ---- lifecycle ---- *)
Lemma ns_of_nf n r : nf n = (0, 0, [], None, [], entry0 :: r) -> ns_node n.
Proof.
  unfold nf, ns_node. intros H. injection H as -> -> -> -> -> ->.
  repeat (split; [reflexivity|]). exists r. reflexivity.
Qed.

Lemma crash_nf n : nf (crash n) = (0, 0, n_snaps n, None, [], n_log n).
Proof. reflexivity. Qed.

(* crash keeps the snapshot directory (empty) and the log *)
Lemma ns_crash n : ns_node n -> ns_node (crash n).
Proof.
  intros (_ & _ & H3 & _ & _ & r & H6). apply (ns_of_nf _ r). rewrite crash_nf, H3, H6. reflexivity.
Qed.

(* restore() without a snapshot file: only the configuration scan *)
Lemma ns_restore n : ns_node n -> ns_node (restore n).
Proof.
  intros H. unfold restore.
  set (n1 := n <| n_open := true |> <| n_term := n_pterm n |> <| n_vote := n_pvote n |>).
  assert (H1 : ns_node n1) by (revert H; apply NP_of_nf; reflexivity).
  clearbody n1. clear H.
  assert (E : last (map Some (n_snaps n1)) None = None).
  { destruct H1 as (_ & _ & -> & _). reflexivity. }
  rewrite E.
  destruct (conf_scan _ _ _) as [c cc].
  revert H1. apply NP_of_nf. reflexivity.
Qed.

Lemma NP_api_start now n : NP n (api_start now n).
Proof.
  unfold api_start. destruct (negb _); [apply NP_refl|].
  match goal with |- NP n (fold_left ?f ?l ?n2 <| n_contact := _ |> <| n_role := _ |>) =>
    apply NP_trans with n2; [|apply NP_trans with (fold_left f l n2); [apply NP_new_followers|npf]] end.
  npf.
Qed.

Lemma NP_restart now n : NP n (restart_after_crash now n).
Proof.
  intros H. unfold restart_after_crash. apply NP_api_start. apply NP_new_opmanager.
  apply ns_restore, ns_crash, H.
Qed.

Lemma NP_bootstrap n members : NP n (api_bootstrap n members).
Proof.
  unfold api_bootstrap. destruct (n_conf n); [apply NP_refl|].
  destruct (0 <? last_index (n_log n)); [apply NP_refl|].
  eapply NP_trans; [|apply NP_append]. npf.
Qed.

Lemma ns_mk_node id et ld : ns_node (mk_node id et ld).
Proof. apply (ns_of_nf _ []). reflexivity. Qed.

(* ================= world level ================= *)
Lemma get_node_in w id n : get_node w id = Some n -> In n (w_nodes w).
Proof. unfold get_node. intros H. apply find_some in H. apply H. Qed.
Lemma get_call_in w id c : get_call w id = Some c -> In c (w_calls w).
Proof. unfold get_call. intros H. apply find_some in H. apply H. Qed.

(* ns_call only looks at the request *)
Definition req_ns (q : request) : Prop := match q with ReqIS _ => False | _ => True end.
Lemma ns_call_req c : ns_call c <-> req_ns (c_req c).
Proof. reflexivity. Qed.

(* -- primitives -- *)
Lemma NSW_same w w' : w_nodes w' = w_nodes w -> w_calls w' = w_calls w -> NSW w -> NSW w'.
Proof. intros En Ec [Hn Hc]. constructor; rewrite ?En, ?Ec; assumption. Qed.

Lemma NSW_set_node w m : NSW w -> ns_node m -> NSW (set_node w m).
Proof.
  intros [Hn Hc] Hm. constructor; [|exact Hc].
  intros x Hx. unfold set_node in Hx. cbn [w_nodes set] in Hx. apply in_map_iff in Hx.
  destruct Hx as (y & <- & Hy). destruct (n_id y =? n_id m); [exact Hm|apply Hn, Hy].
Qed.

Lemma NSW_set_call w c0 : NSW w -> req_ns (c_req c0) -> NSW (set_call w c0).
Proof.
  intros [Hn Hc] H0. constructor; [exact Hn|].
  intros x Hx. unfold set_call in Hx. cbn [w_calls set] in Hx. apply in_map_iff in Hx.
  destruct Hx as (y & <- & Hy). destruct (c_id y =? c_id c0); [exact H0|apply Hc, Hy].
Qed.

Lemma NSW_new_call w src dst rid g q : NSW w -> req_ns q -> NSW (new_call w src dst rid g q).
Proof.
  intros [Hn Hc] Hq. constructor; [exact Hn|].
  intros x Hx. unfold new_call in Hx. cbn [w_calls set] in Hx. apply in_app_or in Hx.
  destruct Hx as [Hx|[<-|[]]]; [apply Hc, Hx|exact Hq].
Qed.

Lemma NSW_drop w id : NSW w -> NSW (drop_calls_of w id).
Proof.
  intros [Hn Hc]. constructor; [exact Hn|].
  intros x Hx. unfold drop_calls_of in Hx. cbn [w_calls set] in Hx. apply in_map_iff in Hx.
  destruct Hx as (y & <- & Hy). destruct (c_src y =? id); apply (Hc y Hy).
Qed.

Lemma NSW_on_node w id f : (forall m, NP m (f m)) -> NSW w -> NSW (on_node w id f).
Proof.
  intros Hf HW. unfold on_node. destruct (get_node w id) as [m|] eqn:G; [|exact HW].
  apply NSW_set_node; [exact HW|]. apply Hf. apply (ns_nodes _ HW), (get_node_in _ _ _ G).
Qed.

(* -- the composite steps -- *)
Lemma NSW_step_task w m : In m (w_nodes w) -> NSW w -> NSW (step_task w m).
Proof.
  intros Hin HW. pose proof (ns_nodes _ HW m Hin) as Hm.
  unfold step_task. destruct (n_tasks m) as [|t rest]; [exact HW|].
  set (n0 := m <| n_tasks := rest |>).
  assert (H0 : ns_node n0) by (revert Hm; apply NP_of_nf; reflexivity).
  clearbody n0. destruct t as [rid peer pv|rid peer].
  - destruct (l_rv_send n0 rid peer pv); [apply NSW_new_call; [|exact I]|]; apply NSW_set_node; assumption.
  - pose proof (ae_send_ns n0 peer H0) as [H1 H2].
    destruct (l_ae_send n0 peer) as [n1 [|q|q]]; cbn [fst snd] in H1, H2.
    + apply NSW_set_node; assumption.
    + apply NSW_new_call; [apply NSW_set_node; assumption|exact I].
    + destruct H2.
Qed.

(* the handler of a request that is not InstallSnapshot *)
Lemma ns_run_handler now n q : ns_node n -> req_ns q -> ns_node (fst (fst (run_handler now n q))).
Proof.
  intros H Hq. unfold run_handler. destruct q as [r|r|r].
  - pose proof (NP_append_entries now n r H) as H1. destruct (h_append_entries now n r). exact H1.
  - pose proof (NP_request_vote now n r H) as H1. destruct (h_request_vote now n r). exact H1.
  - destruct Hq.
Qed.

Lemma NSW_step_deliver w c dup : NSW w -> In c (w_calls w) -> NSW (step_deliver w c dup).
Proof.
  intros HW Hin. pose proof (ns_calls _ HW c Hin) as Hq. change (req_ns (c_req c)) in Hq.
  unfold step_deliver. destruct (get_node w (c_dst c)) as [n|] eqn:G;
    [|destruct dup; [exact HW|apply NSW_set_call; [exact HW|exact Hq]]].
  destruct (n_frozen n); [destruct dup; [exact HW|apply NSW_set_call; [exact HW|exact Hq]]|].
  pose proof (ns_run_handler (w_now w) n (c_req c) (ns_nodes _ HW n (get_node_in _ _ _ G)) Hq) as H1.
  destruct (run_handler (w_now w) n (c_req c)) as [[n1 resp] parked]. cbn [fst] in H1.
  pose proof (NSW_set_node w n1 HW H1) as HW1.
  destruct dup; [exact HW1|].
  destruct (n_frozen n1); [apply NSW_set_call; [exact HW1|exact Hq]|].
  destruct resp; apply NSW_set_call; try exact HW1; exact Hq.
Qed.

Lemma NSW_step_reply w c failed : NSW w -> In c (w_calls w) -> NSW (step_reply w c failed).
Proof.
  intros HW Hin. pose proof (ns_calls _ HW c Hin) as Hq. change (req_ns (c_req c)) in Hq. unfold step_reply.
  set (w0 := set_call w (c <| c_state := CDone |>)).
  assert (H0 : NSW w0) by (apply NSW_set_call; [exact HW|exact Hq]).
  destruct (get_node w (c_src c)) as [n|] eqn:G; [|exact H0].
  pose proof (ns_nodes _ HW n (get_node_in _ _ _ G)) as Hn.
  destruct (n_frozen n); [exact H0|].
  revert Hq; destruct (c_req c) as [q|q|q]; intros Hq; [| |destruct Hq];
    destruct (if failed then None else c_resp c) as [[p|p|p]|];
    try exact H0;
    try (apply NSW_set_node; [exact H0|apply NP_rv_reply; exact Hn]).
  pose proof (ae_reply_ns (w_now w) n (c_round c) (c_dst c) (c_fgen c) q p Hn) as [H1 H2].
  destruct (l_ae_reply (w_now w) n (c_round c) (c_dst c) (c_fgen c) q p) as [n1 [isq|]]; cbn [fst snd] in H1, H2.
  - discriminate H2.
  - apply NSW_set_node; assumption.
Qed.

Lemma NP_upd_budget m k : NP m (m <| n_budget := k |>). Proof. npf. Qed.
Lemma NP_upd_pad m k : NP m (m <| n_pad := k |>). Proof. npf. Qed.
Lemma NP_upd_tasks m k : NP m (m <| n_tasks := k |>). Proof. npf. Qed.
Lemma NP_upd_cv m f : NP m (m <| n_cv ::= f |>). Proof. npf. Qed.

Theorem step_NSW w l : nosnap_label l = true -> NSW w -> NSW (step w l).
Proof.
  intros Hs HW. destruct l; try discriminate Hs; cbn [step].
  - (* LTick *) eapply NSW_same; [| |exact HW]; reflexivity.
  - (* LElection *) apply NSW_on_node; [|exact HW]. intros m. destruct (is_up m); [apply NP_signal_election|apply NP_refl].
  - (* LHeartbeat *) apply NSW_on_node; [|exact HW]. intros m. destruct (is_up m); [apply NP_heartbeat|apply NP_refl].
  - (* LDeliver *) destruct (get_call w c) as [cl|] eqn:G; [|exact HW]. apply get_call_in in G.
    destruct (c_state cl); try exact HW. apply NSW_step_deliver; assumption.
  - (* LDup *) destruct (get_call w c) as [cl|] eqn:G; [|exact HW]. apply get_call_in in G. apply NSW_step_deliver; assumption.
  - (* LReply *) destruct (get_call w c) as [cl|] eqn:G; [|exact HW]. apply get_call_in in G.
    destruct (c_state cl); try exact HW. apply NSW_step_reply; assumption.
  - (* LFail *) destruct (get_call w c) as [cl|] eqn:G; [|exact HW]. apply get_call_in in G.
    destruct (c_state cl); try exact HW; apply NSW_step_reply; assumption.
  - (* LSubmit *) unfold fresh_fid. apply NSW_on_node; [|eapply NSW_same; [| |exact HW]; reflexivity].
    intros m. destruct (n_frozen m); [apply NP_refl|apply NP_submit].
  - (* LAddServer *) unfold fresh_fid. apply NSW_on_node; [|eapply NSW_same; [| |exact HW]; reflexivity].
    intros m. destruct (n_frozen m); [apply NP_refl|apply NP_add_server].
  - (* LRemoveServer *) unfold fresh_fid. apply NSW_on_node; [|eapply NSW_same; [| |exact HW]; reflexivity].
    intros m. destruct (n_frozen m); [apply NP_refl|apply NP_remove_server].
  - (* LCrash *) apply NSW_drop. apply NSW_on_node; [|exact HW]. intros m. exact (ns_crash m).
  - (* LRestart *) apply NSW_on_node; [|exact HW]. intros m. destruct (role_eqb (n_role m) Shutdown); [apply NP_restart|apply NP_refl].
  - (* LBudget *) apply NSW_on_node; [|exact HW]. intros m. apply NP_upd_budget.
  - (* LPad *) apply NSW_on_node; [|exact HW]. intros m. apply NP_upd_pad.
  - (* LDefer *) apply NSW_on_node; [|exact HW]. intros m. apply NP_upd_tasks.
  - (* LRoMissed *) apply NSW_on_node; [|exact HW]. intros m. apply NP_upd_cv.
  - (* LTask *) destruct (get_node w n) as [m|] eqn:G; [|exact HW]. destruct (is_up m); [|exact HW].
    apply NSW_step_task; [eapply get_node_in; exact G|exact HW].
  - (* LElectionRun *) apply NSW_on_node; [|exact HW]. intros m. destruct (is_up m && cv_election (n_cv m)); [apply NP_election|apply NP_refl].
  - (* LCommit *) apply NSW_on_node; [|exact HW]. intros m. destruct (is_up m && cv_commit (n_cv m)); [apply NP_commit|apply NP_refl].
  - (* LApply *) apply NSW_on_node; [|exact HW]. intros m. destruct (is_up m && cv_apply (n_cv m)); [apply NP_apply|apply NP_refl].
  - (* LRo *) apply NSW_on_node; [|exact HW]. intros m. destruct (is_up m && cv_ro (n_cv m)); [apply NP_ro|apply NP_refl].
  - (* LInstallResume: no parked handler *)
    destruct (get_node w n) as [m|] eqn:G; [|exact HW]. apply get_node_in in G.
    rewrite (install_resume_ns m (ns_nodes _ HW m G)). exact HW.
Qed.

Lemma NSW_init ids boot et ld : NSW (init_world ids boot et ld).
Proof.
  constructor; [|intros c []].
  unfold init_world. cbn [w_nodes]. intros n Hin. apply in_map_iff in Hin. destruct Hin as (id & <- & _).
  apply NP_api_start. apply NP_new_opmanager.
  destruct (existsb (N.eqb id) boot); [|apply ns_mk_node].
  apply NP_bootstrap. apply ns_mk_node.
Qed.

Lemma nosnap_cons l ls : nosnap (l :: ls) = true -> nosnap_label l = true /\ nosnap ls = true.
Proof. destruct l; cbn [nosnap nosnap_label]; intros H; try discriminate H; split; auto. Qed.

Theorem NSW_run ls : forall w, nosnap ls = true -> NSW w -> NSW (run w ls).
Proof.
  induction ls as [|l ls IH]; intros w Hs HW; [exact HW|].
  apply nosnap_cons in Hs. destruct Hs as [Hl Hs].
  cbn [run fold_left]. apply IH; [exact Hs|]. apply step_NSW; assumption.
Qed.

Theorem NSW_reach ids boot et ld ls : nosnap ls = true -> NSW (run (init_world ids boot et ld) ls).
Proof. intros Hs. apply NSW_run; [exact Hs|apply NSW_init]. Qed.

Print Assumptions NSW_reach.
