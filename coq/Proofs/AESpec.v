(* Handler specification of AppendEntries (C06), for EVERY node state and EVERY request:
   no bound on log length, terms, indices or the number of entries. *)
From RaftV Require Import Node.Leader Proofs.Frame.
Open Scope N_scope.

Definition ae_success (r : option ae_resp) : bool := match r with Some p => aer_success p | None => false end.

(* log and commit index untouched *)
Definition LC (n n' : node) : Prop := n_log n' = n_log n /\ n_commit n' = n_commit n /\ n_lii n' = n_lii n /\ n_lit n' = n_lit n.
Lemma LC_refl n : LC n n. Proof. repeat split. Qed.
Lemma LC_trans a b c : LC a b -> LC b c -> LC a c.
Proof. intros (A1 & A2 & A3 & A4) (B1 & B2 & B3 & B4). repeat split; congruence. Qed.

Lemma LC_become_follower now n l t : LC n (become_follower now n l t).
Proof.
  pose proof (vol_become_follower now n l t) as H. unfold vol in H. injection H as H1 H2 H3 H4 _ _ _ _ _.
  repeat split; [apply log_become_follower|assumption..].
Qed.

Lemma LC_fail o n : LC n (fail o n).
Proof. unfold fail. destruct (n_out n); repeat split. Qed.

(* the node just before the log checks of the handler *)
Definition ae_pre (now : N) (n : node) (q : ae_req) : node :=
  let n1 := n <| n_contact := now |> <| n_leader := Some (ae_leader q) |> in
  let n2 := if n_term n1 <? ae_term q then become_follower now n1 (ae_leader q) (ae_term q) else n1 in
  if (ae_term q =? n_term n2) && (role_eqb (n_role n2) Candidate || role_eqb (n_role n2) PreCandidate)
  then become_follower now n2 (ae_leader q) (ae_term q) else n2.

Lemma LC_ae_pre now n q : LC n (ae_pre now n q).
Proof.
  unfold ae_pre.
  set (n1 := n <| n_contact := now |> <| n_leader := Some (ae_leader q) |>).
  assert (H1 : LC n n1) by (repeat split).
  set (n2 := if n_term n1 <? ae_term q then _ else n1).
  assert (H2 : LC n1 n2) by (subst n2; destruct (n_term n1 <? ae_term q); [apply LC_become_follower|apply LC_refl]).
  eapply LC_trans; [exact H1|]. eapply LC_trans; [exact H2|].
  destruct (_ && _); [apply LC_become_follower|apply LC_refl].
Qed.

(* shape of the handler after the preamble *)
Lemma ae_unfold now n q :
  role_eqb (n_role n) Shutdown = false -> (ae_term q <? n_term n) = false ->
  h_append_entries now n q =
  let n3 := ae_pre now n q in
  let reject n' idx := (n', Some {| aer_term := n_term n'; aer_success := false; aer_index := idx |}) in
  let l := n_log n3 in
  if ae_prev_index q <? n_lii n3 then reject n3 (n_lii n3 + 1) else
  if next_index l <=? ae_prev_index q then reject n3 (next_index l) else
  if (n_lii n3 =? ae_prev_index q) && negb (n_lit n3 =? ae_prev_term q) then reject n3 (n_lii n3) else
  let conflict :=
    if n_lii n3 <? ae_prev_index q then
      match log_get l (ae_prev_index q) with
      | None => Some None
      | Some pe => if e_term pe =? ae_prev_term q then None
                   else Some (Some (conflict_scan (length l) l (n_lii n3) (ae_prev_index q - 1) (e_term pe) + 1))
      end
    else None in
  match conflict with
  | Some None => (fail Fatal n3, None)
  | Some (Some idx) => reject n3 idx
  | None =>
      match ae_scan now n3 (ae_entries q) with
      | None => (fail Fatal n3, None)
      | Some (n4, to_append) =>
          let n5 := append_entries n4 to_append in
          let verified := ae_prev_index q + N.of_nat (length (ae_entries q)) in
          let c := N.min (ae_commit q) verified in
          let n6 := if n_commit n5 <? c then signal_apply (n5 <| n_commit := c |>) else n5 in
          (n6, Some {| aer_term := n_term n6; aer_success := true; aer_index := 0 |})
      end
  end.
Proof. intros H1 H2. unfold h_append_entries. rewrite H1, H2. reflexivity. Qed.

(* C06: a rejected request (or one that ends in an error) leaves the log and the commit index as they were *)
Theorem ae_reject_unchanged now n q :
  ae_success (snd (h_append_entries now n q)) = false ->
  LC n (fst (h_append_entries now n q)).
Proof.
  intros Hs.
  destruct (role_eqb (n_role n) Shutdown) eqn:E1; [unfold h_append_entries; rewrite E1; apply LC_refl|].
  destruct (ae_term q <? n_term n) eqn:E2; [unfold h_append_entries; rewrite E1, E2; apply LC_refl|].
  rewrite (ae_unfold now n q E1 E2) in *. cbn zeta in *.
  pose proof (LC_ae_pre now n q) as H3. set (n3 := ae_pre now n q) in *.
  destruct (ae_prev_index q <? n_lii n3); [exact H3|].
  destruct (next_index (n_log n3) <=? ae_prev_index q); [exact H3|].
  destruct ((n_lii n3 =? ae_prev_index q) && negb (n_lit n3 =? ae_prev_term q)); [exact H3|].
  match goal with |- LC n (fst (match ?c with _ => _ end)) => destruct c as [[idx|]|] end.
  - exact H3.
  - cbn [fst]. eapply LC_trans; [exact H3|apply LC_fail].
  - destruct (ae_scan now n3 (ae_entries q)) as [[n4 ta]|].
    + cbn [snd ae_success aer_success] in Hs. discriminate.
    + cbn [fst]. eapply LC_trans; [exact H3|apply LC_fail].
Qed.

(* commit index: append_entries / truncate / next_configuration do not touch it *)
Lemma commit_tick n : n_commit (snd (tick_write n)) = n_commit n.
Proof. pose proof (tick_write_core n) as H. cbn zeta in H. destruct H as (_ & _ & _ & _ & _ & _ & _ & H). unfold vol in H. congruence. Qed.

Lemma commit_append es : forall n, n_commit (append_entries n es) = n_commit n.
Proof.
  induction es as [|e es IH]; intros n; cbn [append_entries]; [reflexivity|].
  pose proof (commit_tick n) as H. destruct (tick_write n) as [ok n1]. cbn [snd] in H.
  destruct ok; [rewrite IH; exact H|exact H].
Qed.

Lemma commit_truncate n i : n_commit (truncate_log n i) = n_commit n.
Proof.
  unfold truncate_log. pose proof (commit_tick n) as H. destruct (tick_write n) as [ok n1]. cbn [snd] in H.
  destruct ok; exact H.
Qed.

Lemma commit_stepdown now n : n_commit (stepdown now n) = n_commit n.
Proof.
  unfold stepdown.
  set (a := n <| n_role := Follower |>).
  assert (Ha : n_commit a = n_commit n) by reflexivity. clearbody a.
  destruct (sc_notify a) as [_ _ _ _ _ _ _ _ _ V2]. set (b := notify_lost_leadership a) in *. clearbody b.
  destruct (sc_new_opmanager now b) as [_ _ _ _ _ _ _ _ _ V3]. set (c := new_opmanager now b) in *. clearbody c.
  destruct (sc_cancel c) as [_ _ _ _ _ _ _ _ _ V1].
  unfold vol in *. injection V1 as V1 _ _ _ _ _ _ _ _. injection V2 as V2 _ _ _ _ _ _ _ _. injection V3 as V3 _ _ _ _ _ _ _ _.
  congruence.
Qed.

Lemma proj_new_followers {A} (P : node -> A) nx ids :
  (forall m id, P (new_follower m id nx) = P m) ->
  forall n, P (fold_left (fun m id => new_follower m id nx) ids n) = P n.
Proof.
  intros HP. induction ids as [|id ids IH]; intros n; cbn [fold_left]; [reflexivity|].
  rewrite IH. apply HP.
Qed.
Lemma commit_reset m : n_commit (reset_snapshot_files m) = n_commit m. Proof. reflexivity. Qed.

Lemma commit_next_configuration now n c : n_commit (next_configuration now n c) = n_commit n.
Proof.
  unfold next_configuration. destruct c as [nx|]; [|unfold fail; destruct (n_out n); reflexivity].
  set (n1 := if is_member nx (n_id n) then n else _).
  assert (H : n_commit n1 = n_commit n).
  { subst n1. destruct (is_member nx (n_id n)); [reflexivity|]. rewrite commit_reset.
    destruct (role_eqb (n_role n) Leader); [apply commit_stepdown|reflexivity]. }
  clearbody n1.
  match goal with |- n_commit (fold_left ?f ?l ?n2 <| n_conf := ?c |>) = _ =>
    change (n_commit (fold_left f l n2) = n_commit n); rewrite (proj_new_followers n_commit 0 l); [exact H|reflexivity] end.
Qed.

Lemma commit_ae_scan now es : forall n n4 l, ae_scan now n es = Some (n4, l) -> n_commit n4 = n_commit n.
Proof.
  induction es as [|e es IH]; intros n n4 l H; cbn [ae_scan] in H.
  - injection H as <- _. reflexivity.
  - destruct (last_index (n_log n) <? e_index e); [injection H as <- _; reflexivity|].
    destruct (log_get (n_log n) (e_index e)) as [ex|]; [|discriminate].
    destruct ((e_index ex =? e_index e) && negb (e_term ex =? e_term e)).
    + injection H as <- _.
      destruct (e_index e <=? c_index (conf_of (truncate_log n (e_index e))));
        [rewrite commit_next_configuration|]; apply commit_truncate.
    + eapply IH; exact H.
Qed.

(* C06: the commit index never moves backwards, and never past the last entry verified by the request *)
Theorem ae_commit_bounds now n q :
  let n' := fst (h_append_entries now n q) in
  n_commit n <= n_commit n' /\
  n_commit n' <= N.max (n_commit n) (N.min (ae_commit q) (ae_prev_index q + N.of_nat (length (ae_entries q)))).
Proof.
  cbn zeta.
  destruct (role_eqb (n_role n) Shutdown) eqn:E1; [unfold h_append_entries; rewrite E1; cbn [fst]; lia|].
  destruct (ae_term q <? n_term n) eqn:E2; [unfold h_append_entries; rewrite E1, E2; cbn [fst]; lia|].
  rewrite (ae_unfold now n q E1 E2). cbn zeta.
  pose proof (LC_ae_pre now n q) as (_ & H3 & _). set (n3 := ae_pre now n q) in *.
  destruct (ae_prev_index q <? n_lii n3); [cbn [fst]; lia|].
  destruct (next_index (n_log n3) <=? ae_prev_index q); [cbn [fst]; lia|].
  destruct ((n_lii n3 =? ae_prev_index q) && negb (n_lit n3 =? ae_prev_term q)); [cbn [fst]; lia|].
  match goal with |- context [fst (match ?c with _ => _ end)] => destruct c as [[idx|]|] end.
  - cbn [fst]. lia.
  - cbn [fst]. destruct (LC_fail Fatal n3) as (_ & H & _). lia.
  - destruct (ae_scan now n3 (ae_entries q)) as [[n4 ta]|] eqn:Es.
    + cbn [fst]. pose proof (commit_ae_scan _ _ _ _ _ Es) as H4. pose proof (commit_append ta n4) as H5.
      set (n5 := append_entries n4 ta) in *.
      destruct (N.ltb_spec (n_commit n5) (N.min (ae_commit q) (ae_prev_index q + N.of_nat (length (ae_entries q)))));
        cbn [signal_apply n_commit set]; change (n_commit (signal_apply ?x)) with (n_commit x); cbn; lia.
    + cbn [fst]. destruct (LC_fail Fatal n3) as (_ & H & _). lia.
Qed.

(* ---------- what a successful AppendEntries does to the log ---------- *)
(* a log: placeholder first, indices consecutive *)
Fixpoint consecutive (i : N) (es : list entry) : Prop :=
  match es with
  | [] => True
  | e :: r => e_index e = i /\ consecutive (i + 1) r
  end.
Definition wf_log (l : list entry) : Prop := l <> [] /\ consecutive (first_index l) l.

Lemma consecutive_app i a b : consecutive i (a ++ b) <-> consecutive i a /\ consecutive (i + N.of_nat (length a)) b.
Proof.
  revert i. induction a as [|x a IH]; intros i; cbn [app consecutive length].
  - replace (i + N.of_nat 0) with i by lia. tauto.
  - rewrite IH. replace (i + 1 + N.of_nat (length a)) with (i + N.of_nat (S (length a))) by lia. tauto.
Qed.

Lemma consecutive_nth i l : consecutive i l -> forall k d, (k < length l)%nat -> e_index (nth k l d) = i + N.of_nat k.
Proof.
  revert i. induction l as [|x l IH]; intros i H k d Hk; [cbn in Hk; lia|].
  destruct H as [Hx Hl]. destruct k as [|k]; cbn [nth]; [lia|].
  rewrite (IH _ Hl) by (cbn in Hk; lia). lia.
Qed.

Lemma last_consecutive l : forall i d, consecutive i l -> l <> [] -> e_index (last l d) = i + N.of_nat (length l) - 1.
Proof.
  induction l as [|x l IH]; intros i d Hc Hne; [congruence|].
  destruct Hc as [Hx Hl]. destruct l as [|y l'].
  - cbn. lia.
  - change (last (x :: y :: l') d) with (last (y :: l') d).
    rewrite (IH (i + 1) d Hl) by discriminate. cbn [length]. lia.
Qed.

Lemma last_index_consecutive l : wf_log l -> last_index l = first_index l + N.of_nat (length l) - 1.
Proof. intros [Hne Hc]. unfold last_index, last_entry. apply last_consecutive; assumption. Qed.

(* log_get on a well-formed log is positional *)
Lemma log_get_wf l i : wf_log l -> first_index l < i -> i < first_index l + N.of_nat (length l) ->
  exists e, log_get l i = Some e /\ e_index e = i /\ nth_error l (N.to_nat (i - first_index l)) = Some e.
Proof.
  intros [Hne Hc] H1 H2. unfold log_get, log_contains.
  destruct (N.leb_spec (i - first_index l) 0); [lia|].
  destruct (N.leb_spec (N.of_nat (length l)) (i - first_index l)); [lia|]. cbn [orb negb].
  destruct (nth_error l (N.to_nat (i - first_index l))) as [e|] eqn:E.
  - exists e. repeat split.
    apply nth_error_nth with (d := entry0) in E. rewrite <- E.
    rewrite (consecutive_nth _ _ Hc) by lia. lia.
  - apply nth_error_None in E. lia.
Qed.

Lemma log_get_beyond l i : first_index l + N.of_nat (length l) <= i -> log_get l i = None.
Proof.
  intros H. unfold log_get, log_contains.
  destruct (N.leb_spec (N.of_nat (length l)) (i - first_index l)); [|lia].
  rewrite orb_true_r. reflexivity.
Qed.

(* with unlimited budget the log operations are the plain list operations *)
Definition unlimited (n : node) : Prop := n_frozen n = false /\ n_budget n = None.

Lemma tick_unlimited n : unlimited n -> tick_write n = (true, n).
Proof. intros [F B]. unfold tick_write. rewrite F, B. reflexivity. Qed.

Lemma append_unlimited es : forall n, unlimited n ->
  n_log (append_entries n es) = n_log n ++ es /\ unlimited (append_entries n es).
Proof.
  induction es as [|e es IH]; intros n U; cbn [append_entries]; [rewrite app_nil_r; auto|].
  rewrite (tick_unlimited n U).
  destruct (IH (n <| n_log ::= fun l => l ++ [e] |>)) as [H1 H2]; [exact U|].
  split; [rewrite H1; cbn; rewrite <- app_assoc; reflexivity|exact H2].
Qed.

Lemma truncate_unlimited n i : unlimited n -> n_log (truncate_log n i) = log_truncate (n_log n) i /\ unlimited (truncate_log n i).
Proof. intros U. unfold truncate_log. rewrite (tick_unlimited n U). split; [reflexivity|exact U]. Qed.

Definition lfb (n : node) := (n_log n, n_frozen n, n_budget n).
Lemma lfb_same_core a b : same_core a b -> lfb a = lfb b.
Proof. intros []. unfold lfb. congruence. Qed.

Lemma lfb_stepdown now n : lfb (stepdown now n) = lfb n.
Proof.
  unfold stepdown. set (a := n <| n_role := Follower |>).
  assert (Ha : lfb a = lfb n) by reflexivity. clearbody a.
  rewrite (lfb_same_core _ _ (sc_cancel _)), (lfb_same_core _ _ (sc_new_opmanager _ _)), (lfb_same_core _ _ (sc_notify _)).
  exact Ha.
Qed.


Lemma lfb_next_configuration now n c : lfb (next_configuration now n c) = lfb n.
Proof.
  unfold next_configuration. destruct c as [nx|]; [|unfold fail; destruct (n_out n); reflexivity].
  set (n1 := if is_member nx (n_id n) then n else _).
  assert (H : lfb n1 = lfb n).
  { subst n1. destruct (is_member nx (n_id n)); [reflexivity|].
    rewrite (lfb_same_core _ _ (sc_reset_snapshot_files _)).
    destruct (role_eqb (n_role n) Leader); [apply lfb_stepdown|reflexivity]. }
  clearbody n1.
  match goal with |- lfb (fold_left ?f ?l ?n2 <| n_conf := ?c |>) = _ =>
    change (lfb (fold_left f l n2) = lfb n); rewrite (proj_new_followers lfb 0 l); [exact H|reflexivity] end.
Qed.

Lemma unlimited_lfb a b : lfb a = lfb b -> unlimited b -> unlimited a.
Proof. unfold lfb, unlimited. intros H [F B]. injection H as _ H2 H3. split; congruence. Qed.

(* The loop over the request's entries, on a well-formed log and consecutive entries that start inside or right
   after the log: it stops at the first entry that is missing or conflicting; everything before it is already in
   the log with the same term; the log is cut exactly there (a no-op cut when the entry is merely missing). *)
Lemma ae_scan_shape now es : forall n n4 ta i0,
  unlimited n -> wf_log (n_log n) -> consecutive i0 es ->
  first_index (n_log n) < i0 -> i0 <= next_index (n_log n) ->
  ae_scan now n es = Some (n4, ta) ->
  exists a, es = a ++ ta /\ unlimited n4 /\
    (forall k, (k < length a)%nat ->
       exists x, nth_error (n_log n) (N.to_nat (i0 + N.of_nat k - first_index (n_log n))) = Some x /\
                 e_index x = e_index (nth k a entry0) /\ e_term x = e_term (nth k a entry0)) /\
    n_log n4 = match ta with
               | [] => n_log n
               | _ => firstn (N.to_nat (i0 + N.of_nat (length a) - first_index (n_log n))) (n_log n)
               end.
Proof.
  induction es as [|e es IH]; intros n n4 ta i0 U Hwf Hc H1 H2 H; cbn [ae_scan] in H.
  - injection H as <- <-. exists []. split; [reflexivity|]. split; [exact U|].
    split; [intros k Hk; cbn in Hk; lia|reflexivity].
  - destruct Hc as [He Hc].
    pose proof (last_index_consecutive _ Hwf) as HL. unfold next_index in H2.
    assert (Hlen : (0 < length (n_log n))%nat) by (destruct Hwf as [Hne _]; destruct (n_log n); [congruence|cbn; lia]).
    destruct (N.ltb_spec (last_index (n_log n)) (e_index e)) as [Hb|Hb].
    + (* missing: append from here; the cut is at the end of the log *)
      injection H as <- <-. exists []. split; [reflexivity|]. split; [exact U|].
      split; [intros k Hk; cbn in Hk; lia|].
      cbn [length]. replace (N.to_nat (i0 + N.of_nat 0 - first_index (n_log n))) with (length (n_log n)) by lia.
      rewrite firstn_all. reflexivity.
    + destruct (log_get_wf (n_log n) (e_index e) Hwf) as (ex & Hg & Hi & Hn); [lia|lia|].
      rewrite Hg in H. rewrite Hi, N.eqb_refl in H. cbn [andb] in H.
      destruct (N.eqb_spec (e_term ex) (e_term e)) as [Et|Et]; cbn [negb] in H.
      * (* present with the same term: skip *)
        destruct (IH n n4 ta (i0 + 1) U Hwf Hc) as (a & Ea & U4 & Ha & Hl); [lia|unfold next_index; lia|exact H|].
        exists (e :: a). split; [cbn [app]; congruence|]. split; [exact U4|]. split.
        -- intros k Hk. destruct k as [|k]; cbn [nth].
           ++ exists ex. replace (i0 + N.of_nat 0) with (e_index e) by lia. auto.
           ++ destruct (Ha k) as (x & Hx & Hxi & Hxt); [cbn in Hk; lia|].
              exists x. replace (i0 + N.of_nat (S k)) with (i0 + 1 + N.of_nat k) by lia. auto.
        -- rewrite Hl. destruct ta; [reflexivity|]. cbn [length].
           replace (i0 + N.of_nat (S (length a))) with (i0 + 1 + N.of_nat (length a)) by lia. reflexivity.
      * (* conflict: cut here *)
        destruct (truncate_unlimited n (e_index e) U) as [HT UT].
        assert (HN : lfb (if e_index e <=? c_index (conf_of (truncate_log n (e_index e)))
                          then next_configuration now (truncate_log n (e_index e)) (n_cconf (truncate_log n (e_index e)))
                          else truncate_log n (e_index e)) = lfb (truncate_log n (e_index e))).
        { destruct (_ <=? _); [apply lfb_next_configuration|reflexivity]. }
        injection H as <- <-. exists []. split; [reflexivity|]. split; [eapply unlimited_lfb; eassumption|].
        split; [intros k Hk; cbn in Hk; lia|].
        unfold lfb in HN. injection HN as HN _ _. rewrite HN, HT. unfold log_truncate. cbn [length].
        replace (i0 + N.of_nat 0) with (e_index e) by lia. reflexivity.
Qed.

Lemma persist_unlimited m : unlimited m -> unlimited (persist m) /\ n_log (persist m) = n_log m.
Proof.
  intros U. unfold persist. rewrite (tick_unlimited m U). split; [exact U|reflexivity].
Qed.

Lemma become_follower_unlimited now n l t : unlimited n -> unlimited (become_follower now n l t).
Proof.
  intros U. eapply unlimited_lfb; [apply lfb_same_core, become_follower_core|].
  apply persist_unlimited. exact U.
Qed.

Lemma ae_pre_unlimited now n q : unlimited n -> unlimited (ae_pre now n q).
Proof.
  intros U. unfold ae_pre.
  set (n1 := n <| n_contact := now |> <| n_leader := Some (ae_leader q) |>).
  assert (U1 : unlimited n1) by exact U.
  set (n2 := if n_term n1 <? ae_term q then _ else n1).
  assert (U2 : unlimited n2) by (subst n2; destruct (n_term n1 <? ae_term q); [apply become_follower_unlimited|]; exact U1).
  destruct (_ && _); [apply become_follower_unlimited|]; exact U2.
Qed.

(* C06, the accepting case, for every well-formed follower log and every request whose entries are
   consecutive from prev+1: the request's entries split into a part [a] that the log already holds (same index,
   same term, at the same positions) and a rest [ta]; if the rest is empty the log is untouched; otherwise the
   log is cut immediately after [a] - removing nothing when the rest merely extends the log - and [ta] is
   appended.  In particular nothing at or before prev+|a| is ever removed, and a cut only happens at the first
   conflicting entry. *)
Theorem ae_success_log now n q :
  unlimited n -> wf_log (n_log n) -> first_index (n_log n) = n_lii n ->
  consecutive (ae_prev_index q + 1) (ae_entries q) ->
  ae_success (snd (h_append_entries now n q)) = true ->
  exists a ta,
    ae_entries q = a ++ ta /\
    (forall k, (k < length a)%nat ->
       exists x, nth_error (n_log n) (N.to_nat (ae_prev_index q + 1 + N.of_nat k - first_index (n_log n))) = Some x /\
                 e_index x = e_index (nth k a entry0) /\ e_term x = e_term (nth k a entry0)) /\
    n_log (fst (h_append_entries now n q)) =
      match ta with
      | [] => n_log n
      | _ => firstn (N.to_nat (ae_prev_index q + 1 + N.of_nat (length a) - first_index (n_log n))) (n_log n) ++ ta
      end.
Proof.
  intros U Hwf Hfi Hc Hs.
  destruct (role_eqb (n_role n) Shutdown) eqn:E1; [unfold h_append_entries in Hs; rewrite E1 in Hs; discriminate|].
  destruct (ae_term q <? n_term n) eqn:E2; [unfold h_append_entries in Hs; rewrite E1, E2 in Hs; discriminate|].
  rewrite (ae_unfold now n q E1 E2) in *. cbn zeta in *.
  pose proof (LC_ae_pre now n q) as (HL & _ & Hlii & _).
  pose proof (ae_pre_unlimited now n q U) as U3. set (n3 := ae_pre now n q) in *.
  destruct (N.ltb_spec (ae_prev_index q) (n_lii n3)); [discriminate|].
  destruct (N.leb_spec (next_index (n_log n3)) (ae_prev_index q)); [discriminate|].
  destruct ((n_lii n3 =? ae_prev_index q) && negb (n_lit n3 =? ae_prev_term q)); [discriminate|].
  match type of Hs with context [match ?c with _ => _ end] => destruct c as [[idx|]|] end; try discriminate.
  destruct (ae_scan now n3 (ae_entries q)) as [[n4 ta]|] eqn:Es; [|discriminate].
  destruct (ae_scan_shape now (ae_entries q) n3 n4 ta (ae_prev_index q + 1) U3) as (a & Ea & U4 & Ha & Hl4);
    [rewrite HL; exact Hwf|exact Hc|rewrite HL, Hfi, <- Hlii; lia|lia|exact Es|].
  exists a, ta. split; [exact Ea|]. split; [rewrite HL in Ha; exact Ha|].
  cbn [fst]. destruct (append_unlimited ta n4 U4) as [H5 _].
  match goal with |- n_log (if ?c then _ else _) = _ => destruct c end;
    change (n_log (signal_apply ?x)) with (n_log x); cbn [n_log set]; rewrite ?H5, Hl4, HL;
    destruct ta; [rewrite app_nil_r; reflexivity|reflexivity|rewrite app_nil_r; reflexivity|reflexivity].
Qed.

(* the part of the log up to the request's prev index is never touched by an accepted request *)
Corollary ae_success_prefix now n q :
  unlimited n -> wf_log (n_log n) -> first_index (n_log n) = n_lii n ->
  consecutive (ae_prev_index q + 1) (ae_entries q) ->
  ae_success (snd (h_append_entries now n q)) = true ->
  firstn (N.to_nat (ae_prev_index q + 1 - first_index (n_log n))) (n_log (fst (h_append_entries now n q)))
  = firstn (N.to_nat (ae_prev_index q + 1 - first_index (n_log n))) (n_log n).
Proof.
  intros U Hwf Hfi Hc Hs.
  destruct (ae_success_log now n q U Hwf Hfi Hc Hs) as (a & ta & _ & _ & Hl). rewrite Hl.
  destruct ta as [|t ta]; [reflexivity|].
  rewrite firstn_app, firstn_firstn.
  replace (Nat.min (N.to_nat (ae_prev_index q + 1 - first_index (n_log n)))
                   (N.to_nat (ae_prev_index q + 1 + N.of_nat (length a) - first_index (n_log n))))
    with (N.to_nat (ae_prev_index q + 1 - first_index (n_log n))) by lia.
  rewrite firstn_length.
  replace (N.to_nat (ae_prev_index q + 1 - first_index (n_log n)) -
           Nat.min (N.to_nat (ae_prev_index q + 1 + N.of_nat (length a) - first_index (n_log n))) (length (n_log n)))%nat
    with 0%nat.
  - rewrite firstn_O, app_nil_r. reflexivity.
  - (* the cut position is inside the log: prev < next_index *)
    destruct (role_eqb (n_role n) Shutdown) eqn:E1; [unfold h_append_entries in Hs; rewrite E1 in Hs; discriminate|].
    destruct (ae_term q <? n_term n) eqn:E2; [unfold h_append_entries in Hs; rewrite E1, E2 in Hs; discriminate|].
    rewrite (ae_unfold now n q E1 E2) in Hs. cbn zeta in Hs.
    pose proof (LC_ae_pre now n q) as (HL & _ & Hlii & _). set (n3 := ae_pre now n q) in *.
    destruct (N.ltb_spec (ae_prev_index q) (n_lii n3)); [discriminate|].
    destruct (N.leb_spec (next_index (n_log n3)) (ae_prev_index q)); [discriminate|].
    rewrite HL in *. unfold next_index in *. rewrite (last_index_consecutive _ Hwf) in *.
    assert ((0 < length (n_log n))%nat) by (destruct Hwf as [Hne _]; destruct (n_log n); [congruence|cbn; lia]).
    lia.
Qed.
