(* Handler specification of AppendEntries (C06), for every node state and every request. *)
From RaftV Require Import Node.Leader Proofs.RVSpec.
Open Scope N_scope.

Definition ae_success (r : option ae_resp) : bool := match r with Some p => aer_success p | None => false end.


(* A rejected request (success = false, or an error) leaves the log and the commit index as they were. *)
Theorem ae_reject_unchanged now n q :
  ae_success (snd (h_append_entries now n q)) = false -> n_out (fst (h_append_entries now n q)) = n_out n ->
  n_log (fst (h_append_entries now n q)) = n_log n /\ n_commit (fst (h_append_entries now n q)) = n_commit n.
Proof.
Abort.
