(* Handler specification of AppendEntries (C06), for every node state and every request. *)
From RaftV Require Import Node.Leader Proofs.RVSpec.
Open Scope N_scope.

(* the fields no bookkeeping helper touches *)
Definition vol (n : node) := (n_commit n, n_applied n, n_lii n, n_lit n, n_snaps n, n_fsm n, n_applies n, n_conf n, n_cconf n).

Lemma vol_respond n f r : vol (respond n f r) = vol n.
Proof. unfold respond. destruct (n_frozen n); [reflexivity|]. destruct (existsb _ _); reflexivity. Qed.
Lemma vol_respond_all fids : forall n r, vol (respond_all n fids r) = vol n.
Proof.
  induction fids as [|f fids IH]; intros n r; [reflexivity|].
  cbn [respond_all fold_left]. fold (respond_all (respond n f r) fids r). rewrite IH. apply vol_respond.
Qed.
Lemma vol_tick n : vol (snd (tick_write n)) = vol n.
Proof.
  unfold tick_write. destruct (n_frozen n); [reflexivity|]. destruct (n_budget n) as [k|]; [|reflexivity].
  destruct (k =? 0); reflexivity.
Qed.
Lemma vol_persist n : vol (persist n) = vol n.
Proof.
  unfold persist. pose proof (vol_tick n) as H. destruct (tick_write n) as [ok n1]. cbn [snd] in H.
  destruct ok; [|exact H]. rewrite <- H. reflexivity.
Qed.
Lemma vol_become_follower now n l t : vol (become_follower now n l t) = vol n.
Proof.
  unfold become_follower, notify_lost_leadership.
  set (n1 := n <| n_role := Follower |> <| n_term := t |> <| n_leader := Some l |> <| n_vote := _ |>).
  set (n2 := reset_snapshot_files (persist n1)).
  assert (E : vol n2 = vol n).
  { subst n2. unfold reset_snapshot_files.
    transitivity (vol (persist n1)); [reflexivity|]. rewrite vol_persist. reflexivity. }
  unfold new_opmanager.
  match goal with |- vol (?x <| n_pending := _ |> <| n_ro := _ |> <| n_should_verify := _ |> <| n_hb_rounds := _ |> <| n_lease := _ |>) = _ =>
    transitivity (vol x); [reflexivity|] end.
  rewrite !vol_respond_all. exact E.
Qed.

Definition ae_success (r : option ae_resp) : bool := match r with Some p => aer_success p | None => false end.

(* log-level frame of the helpers used before the log is touched *)
Lemma log_become_follower now n l t : n_log (become_follower now n l t) = n_log n.
Proof. pose proof (become_follower_fields now n l t) as H. cbn zeta in H. tauto. Qed.

(* A rejected request (success = false, or an error) leaves the log and the commit index as they were. *)
Theorem ae_reject_unchanged now n q :
  ae_success (snd (h_append_entries now n q)) = false -> n_out (fst (h_append_entries now n q)) = n_out n ->
  n_log (fst (h_append_entries now n q)) = n_log n /\ n_commit (fst (h_append_entries now n q)) = n_commit n.
Proof.
Abort.
