(* Log matching (C06), part 4: the invariant over the AppendEntries handler, over a new AppendEntries
   request and over changes of the RPC records. *)
From RaftV Require Import Cluster.World Cluster.Statements Proofs.Frame Proofs.RVSpec Proofs.AESpec Proofs.AELog.
From RaftV Require Import Proofs.ConfNode Proofs.ConfStatic Proofs.ConfSticky.
From RaftV Require Import Proofs.Votes Proofs.VoteRecords Proofs.Names Proofs.ElectSpec.
From RaftV Require Import Proofs.ElectDefs Proofs.RoleFrame Proofs.ElectBook Proofs.ElectWorld Proofs.ElectSafety.
From RaftV Require Import Proofs.LogDefs Proofs.LogSeg Proofs.LogUni Proofs.LogInv Proofs.LogAccept Proofs.LogSend Proofs.NoSnap.
Open Scope N_scope.

Section LogWorld.
Variable C : config.

(* ---------------- the RPC records change, nodes and AppendEntries requests do not ---------------- *)
Lemma LMI_calls w w' :
  w_nodes w' = w_nodes w -> CP (w_calls w) (w_calls w') ->
  (forall k q, In k (w_calls w') -> c_req k = ReqAE q ->
     exists k0, In k0 (w_calls w) /\ c_req k0 = ReqAE q /\ c_src k0 = c_src k /\ c_dst k0 = c_dst k) ->
  LMI C w -> LMI C w'.
Proof.
  intros En HCP Hae HL. apply (LMI_frame C w); try assumption.
  - intros n' Hn'. rewrite En in Hn'. exists n'. auto.
  - intros n Hn. exists n. rewrite En. repeat split; auto. lia.
Qed.

Lemma LMI_set_call w c c0 :
  VInv w -> In c (w_calls w) -> call_key c0 = call_key c -> (c_resp c0 = c_resp c \/ c_resp c = None) ->
  LMI C w -> LMI C (set_call w c0).
Proof.
  intros HV Hc Ek Hr. apply LMI_calls; [reflexivity| |].
  - change (w_calls (set_call w c0)) with (upd_call c0 (w_calls w)). apply CP_set with (c := c); auto. apply (vi_nodup w HV).
  - intros k q Hk Eq. change (w_calls (set_call w c0)) with (upd_call c0 (w_calls w)) in Hk.
    apply in_upd_call in Hk. destruct Hk as [Hk|[-> _]]; [exists k; auto|].
    pose proof (key_fields _ _ Ek) as (_ & Es & Ed & _ & Er). exists c. rewrite <- Er. auto.
Qed.

Lemma LMI_drop w id : LMI C w -> LMI C (drop_calls_of w id).
Proof.
  apply LMI_calls; [reflexivity| |].
  - unfold drop_calls_of. cbn [w_calls set]. apply CP_map. intros k. destruct (c_src k =? id); split; reflexivity.
  - intros k q Hk Eq. unfold drop_calls_of in Hk. cbn [w_calls set] in Hk. apply in_map_iff in Hk. destruct Hk as (d & <- & Hd).
    exists d. destruct (c_src d =? id); auto.
Qed.

Lemma LMI_new_call_other w src dst rid g q :
  (forall qa, q <> ReqAE qa) -> LMI C w -> LMI C (new_call w src dst rid g q).
Proof.
  intros Hq. apply LMI_calls; [reflexivity|apply CP_app|].
  intros k qa Hk Eq. unfold new_call in Hk. cbn [w_calls set] in Hk. apply in_app_or in Hk.
  destruct Hk as [Hk|[<-|[]]]; [exists k; auto|]. cbn in Eq. exfalso. exact (Hq qa Eq).
Qed.

(* ---------------- a new AppendEntries request ---------------- *)
Lemma LMI_new_ae_lead w a q dst rid gen :
  LMI C w -> In a (w_nodes w) -> lead C (w_calls w) (n_id a) (ae_term q) -> dst <> n_id a ->
  wf_seg (seg_of_req q) ->
  (forall i e, eget (seg_of_req q) i = Some e -> eget (seg_of_log (n_log a)) i = Some e) ->
  tget (seg_of_log (n_log a)) (ae_prev_index q) = Some (ae_prev_term q) ->
  LMI C (new_call w (n_id a) dst rid gen (ReqAE q)).
Proof.
  intros [WF PMM BT ONE SRC AE] Ha Hld Hdst Hwq Hsub Hbase.
  set (sq := seg_of_req q). set (sa := seg_of_log (n_log a)).
  assert (Hsa : is_seg w sa) by (left; exists a; auto).
  assert (Hcalls : w_calls (new_call w (n_id a) dst rid gen (ReqAE q)) = w_calls w ++
            [{| c_id := w_next_call w; c_src := n_id a; c_dst := dst; c_round := rid; c_fgen := gen; c_req := ReqAE q; c_resp := None; c_state := CPending |}]) by reflexivity.
  assert (Hseg : forall s, is_seg (new_call w (n_id a) dst rid gen (ReqAE q)) s -> s = sq \/ is_seg w s).
  { intros s [(n & Hn & ->)|(k & q0 & Hk & Eq & ->)]; [right; left; exists n; auto|].
    rewrite Hcalls in Hk. apply in_app_or in Hk. destruct Hk as [Hk|[<-|[]]]; [right; right; exists k, q0; auto|].
    cbn in Eq. injection Eq as <-. left. reflexivity. }
  (* the request reads like the sender's log *)
  assert (Hlow : forall i, 0 <= i -> eget sq i = None \/ eget sq i = eget sa i).
  { intros i _. destruct (eget sq i) as [e|] eqn:E; [right; symmetry; apply Hsub, E|left; reflexivity]. }
  assert (Hpred : forall i, 0 <= i -> eget sq i <> None -> tget sq (i - 1) = tget sa (i - 1)).
  { intros i _ Hne. destruct (eget sq i) as [e|] eqn:E; [|contradiction]. destruct (eget_range _ _ _ E) as [Hb _].
    destruct (N.eq_dec (i - 1) (sg_base sq)) as [Eb|Eb].
    - rewrite Eb, tget_base. symmetry. exact Hbase.
    - destruct (eget_defined sq (i - 1)) as (e' & E'); [lia|destruct (eget_range _ _ _ E); lia|].
      rewrite (tget_entry _ _ _ E'). unfold sa. rewrite (tget_entry _ _ _ (Hsub _ _ E')). reflexivity. }
  assert (Hpm1 : forall y, is_seg w y -> PM sq y).
  { intros y Hy. apply (PM_splice sq sa sa 0 y); auto; try (intros; lia); apply PMM; assumption. }
  assert (Hpm2 : forall y, is_seg w y -> PM y sq).
  { intros y Hy. apply (PM_sym_splice sq sa sa 0 y); auto; try (intros; lia); apply PMM; assumption. }
  assert (HCP : CP (w_calls w) (w_calls (new_call w (n_id a) dst rid gen (ReqAE q)))) by (rewrite Hcalls; apply CP_app).
  constructor.
  - intros s Hs. destruct (Hseg s Hs) as [->|H]; [exact Hwq|apply WF, H].
  - intros s1 s2 H1 H2. destruct (Hseg s1 H1) as [->|A], (Hseg s2 H2) as [->|B];
      [apply PM_self|apply Hpm1, B|apply Hpm2, A|apply PMM; assumption].
  - exact BT.
  - intros s e Hs E. destruct (Hseg s Hs) as [->|H]; [apply (ONE sa e Hsa), Hsub, E|apply (ONE s e H E)].
  - intros s i e Hs E Hi.
    assert (Hold : exists a0, In a0 (w_nodes w) /\ lead C (w_calls w) (n_id a0) (e_term e) /\ e_term e <= n_pterm a0 /\
                              (n_pterm a0 = e_term e -> eget (seg_of_log (n_log a0)) i = Some e)).
    { destruct (Hseg s Hs) as [->|H]; [apply (SRC sa i e Hsa (Hsub _ _ E) Hi)|apply (SRC s i e H E Hi)]. }
    destruct Hold as (a0 & A1 & A2 & A3 & A4). exists a0. split; [exact A1|]. split; [eapply lead_persist; eassumption|]. auto.
  - intros k q0 Hk Eq. rewrite Hcalls in Hk. apply in_app_or in Hk. destruct Hk as [Hk|[<-|[]]].
    + destruct (AE k q0 Hk Eq) as [B1 B2]. split; [eapply lead_persist; eassumption|exact B2].
    + cbn in Eq. injection Eq as <-. cbn [c_src c_dst]. split; [|exact Hdst]. eapply lead_persist; eassumption.
Qed.

(* ---------------- the AppendEntries handler ---------------- *)
Lemma config_eq_dec (a b : config) : {a = b} + {a <> b}.
Proof. decide equality; [apply (list_eq_dec (fun x y : nid * bool => ltac:(decide equality; [apply Bool.bool_dec|apply N.eq_dec])))|apply N.eq_dec]. Defined.
Lemma entry_eq_dec (a b : entry) : {a = b} + {a <> b}.
Proof. decide equality; [decide equality; [apply N.eq_dec|apply config_eq_dec]|apply N.eq_dec|apply N.eq_dec]. Defined.

Lemma LMI_ae_accept w b q k now :
  XInv C w -> UNI w -> NSW w -> LMI C w ->
  In k (w_calls w) -> c_req k = ReqAE q -> In b (w_nodes w) -> n_id b = c_dst k -> n_frozen b = false ->
  LMI C (set_node w (fst (h_append_entries now b q))).
Proof.
  intros HX HU HNS HL Hk Eq Hb Edst F.
  set (n' := fst (h_append_entries now b q)).
  pose proof (vi_coh w (x_v C w HX) b Hb) as Hcoh.
  pose proof (R_append_entries now b q Hcoh) as HR. fold n' in HR.
  pose proof (Votes.r_coh _ _ HR Hcoh) as Hcoh'. pose proof (Votes.r_id _ _ HR) as Eid. pose proof (Votes.r_tv _ _ HR) as [Hpt _].
  pose proof (K_h_append_entries now b q) as [K1 _]. fold n' in K1.
  assert (Hleadn : n_role n' = Leader -> lead C (w_calls w) (n_id b) (n_term n')).
  { intros Hl. destruct (K1 Hl) as [A1 A2]. rewrite A2.
    assert (Hact : active (n_role b)) by (rewrite A1; unfold active; auto).
    destruct (x_l0 C w HX b Hb Hact) as [_ Hv]. split; [exact Hv|]. intros Hm. apply (x_l C w HX b Hb A1 Hm). }
  destruct (ns_nodes w HNS b Hb) as (Hlii & Hlit & _ & _ & _ & (r & Er)).
  pose proof HL as [WF PMM BT ONE SRC AE].
  assert (Hsb : is_seg w (seg_of_log (n_log b))) by (left; exists b; auto).
  assert (Hsq : is_seg w (seg_of_req q)) by (right; exists k, q; auto).
  pose proof (WF _ Hsb) as Hwfb. pose proof (WF _ Hsq) as Hwfq. rewrite Er in Hwfb.
  destruct (ae_log_general now b q) as [Esame|(a & ta & m & Hes & Hta & Hm & Hterm & Hlo & Hprev & Hchk & Ha & Hhead & Elog)].
  { rewrite Er. apply wf_log_seg, Hwfb. } { rewrite Er, Hlii. reflexivity. } { exact Hwfq. }
  { apply LMI_node_LG with (m := b); auto. left. exact Esame. }
  fold n' in Elog. rewrite Er in Elog, Hprev, Ha, Hhead, Hchk.
  set (prev := ae_prev_index q) in *. set (x := prev + 1 + N.of_nat (length a)) in *.
  change (log_truncate (entry0 :: r) x ++ firstn m ta) with (splice r x (firstn m ta)) in Elog.
  assert (Hcheck : tget (seg_of_log (entry0 :: r)) prev = Some (ae_prev_term q)).
  { destruct Hchk as [[E1 E2]|(_ & pe & Hpe & Ept)].
    - rewrite E1, Hlii, E2, Hlit. reflexivity.
    - rewrite <- eget_log in Hpe by (exists r; reflexivity). rewrite (tget_entry _ _ _ Hpe), Ept. reflexivity. }
  destruct (splice_facts r q a ta m Hwfb Hwfq Hes Hprev Hcheck Ha) as (Hx & F1 & F2 & F3 & F4 & F5).
  fold prev in Hx, F1, F2, F3, F4, F5. fold x in Hx, F1, F2, F3, F4, F5. rewrite <- Elog in F1, F2, F3, F4, F5.
  set (s' := seg_of_log (n_log n')) in *. set (sl := seg_of_log (entry0 :: r)) in *. set (sq := seg_of_req q) in *.
  rewrite Er in Hsb. fold sl in Hsb.
  assert (Hx1 : 1 <= x) by (unfold x; lia).
  assert (Hseg : forall s, is_seg (set_node w n') s -> s = s' \/ is_seg w s) by (intros s Hs; apply is_seg_set_node, Hs).
  assert (Hn' : In n' (w_nodes (set_node w n'))) by (apply in_set_node_self with (m := b); assumption).
  (* entries of the new log are entries of old segments *)
  assert (Hfrom : forall i e, eget s' i = Some e -> (i < x /\ eget sl i = Some e) \/ (x <= i /\ eget sq i = Some e)).
  { intros i e E. destruct (N.lt_ge_cases i x) as [H|H]; [left; split; [exact H|rewrite <- (F1 i H); exact E]|right; split; [exact H|]].
    destruct (F3 i H) as [N0|Eq0]; [congruence|rewrite <- Eq0; exact E]. }
  constructor.
  - intros s Hs. destruct (Hseg s Hs) as [->|H]; [exact F5|apply WF, H].
  - intros s1 s2 H1 H2. destruct (Hseg s1 H1) as [->|A], (Hseg s2 H2) as [->|B].
    + apply PM_self.
    + apply (PM_splice s' sl sq x s2); auto.
    + apply (PM_sym_splice s' sl sq x s1); auto.
    + apply PMM; assumption.
  - intros n Hn Hv. destruct (in_set_node _ _ _ Hn) as [->|[H _]]; [|apply BT; assumption].
    rewrite Eid in Hv. destruct (BT b Hb Hv) as (r' & Er'). rewrite Er in Er'. injection Er' as Er'.
    assert (Hx2 : 2 <= x).
    { destruct (N.le_gt_cases 2 x) as [H|H]; [exact H|exfalso]. assert (x = 1) by lia.
      assert (Ea : a = []) by (destruct a; [reflexivity|unfold x in *; cbn [length] in *; lia]).
      assert (Ep : prev = 0) by (unfold x in *; rewrite Ea in *; cbn [length] in *; lia).
      destruct ta as [|t0 r0]; [contradiction|].
      assert (Et0 : eget sq 1 = Some t0).
      { unfold sq, eget, seg_of_req. cbn [sg_base sg_es]. fold prev. rewrite Ep, Hes, Ea. reflexivity. }
      pose proof (ONE sq t0 Hsq Et0) as Eb. pose proof (eget_index _ _ _ Hwfq Et0) as Ei0.
      destruct (Hhead t0 r0 eq_refl) as [Hmiss|(x0 & Hx0 & Hne)].
      - rewrite Ei0 in Hmiss. pose proof (next_index_log r Hwfb) as Hn0. unfold next_index in Hn0.
        assert (Hl1 : 1 <= N.of_nat (length r)) by (rewrite Er'; cbn [length]; lia). lia.
      - rewrite Ei0 in Hx0. rewrite <- eget_log in Hx0 by (exists r; reflexivity). rewrite Er' in Hx0.
        assert (Hb1 : eget (seg_of_log (entry0 :: bootentry C :: r')) 1 = Some (bootentry C)) by reflexivity.
        rewrite Hb1 in Hx0. injection Hx0 as <-. apply Hne. rewrite Eb. reflexivity. }
    rewrite Elog, splice_shape by assumption. rewrite Er'.
    replace (N.to_nat (x - 1)) with (Datatypes.S (N.to_nat (x - 2))) by lia. cbn [firstn app]. eexists. reflexivity.
  - intros s e Hs E. destruct (Hseg s Hs) as [->|H]; [|apply (ONE s e H E)].
    destruct (Hfrom 1 e E) as [[_ H]|[_ H]]; [apply (ONE sl e Hsb H)|apply (ONE sq e Hsq H)].
  - intros s i e Hs E Hi.
    assert (Hgen : forall s0, is_seg w s0 -> eget s0 i = Some e ->
              (n_pterm n' = e_term e -> lead C (w_calls w) (n_id b) (e_term e) -> n_pterm b = e_term e ->
               eget (seg_of_log (n_log b)) i = Some e -> eget s' i = Some e) ->
              exists a0, In a0 (w_nodes (set_node w n')) /\ lead C (w_calls (set_node w n')) (n_id a0) (e_term e) /\ e_term e <= n_pterm a0 /\
                         (n_pterm a0 = e_term e -> eget (seg_of_log (n_log a0)) i = Some e)).
    { intros s0 Hs0 E0 Hself. destruct (SRC s0 i e Hs0 E0 Hi) as (a0 & Ha0 & Hl0 & Hle0 & Hown0).
      destruct (N.eq_dec (n_id a0) (n_id b)) as [Eab|Eab].
      - assert (a0 = b) by (apply HU; assumption). subst a0. exists n'. split; [exact Hn'|]. rewrite Eid.
        split; [exact Hl0|]. split; [lia|]. intros Ep. assert (Epb : n_pterm b = e_term e) by lia.
        apply (Hself Ep Hl0 Epb (Hown0 Epb)).
      - exists a0. split; [apply in_set_node_other; [exact Ha0|rewrite Eid; exact Eab]|]. auto. }
    destruct (Hseg s Hs) as [->|H].
    + destruct (Hfrom i e E) as [[_ H0]|[_ H0]]; [apply (Hgen sl Hsb H0)|apply (Hgen sq Hsq H0)]; intros _ _ _ _; exact E.
    + apply (Hgen s H E). intros Ep Hl0 Epb Hown.
      (* the handler did not move the log of a creator in its own term *)
      destruct (Hcoh F) as [Ecoh _].
      destruct (list_eq_dec entry_eq_dec (n_log n') (n_log b)) as [El|El]; [unfold s'; rewrite El; exact Hown|exfalso].
      destruct (N.eq_dec (ae_term q) (n_term b)) as [Et|Et].
      * destruct (AE k q Hk Eq) as [Hlk Hne]. apply Hne. rewrite <- Edst. symmetry.
        apply (lead_unique C w (c_src k) (n_id b) (e_term e) b b HX Hb Hb); [|exact Hl0].
        rewrite <- Epb, Ecoh, <- Et. exact Hlk.
      * assert (Hlt : n_term b < ae_term q) by lia.
        pose proof (ae_higher_term_log now b q Hlt El) as Hp. fold n' in Hp. lia.
  - intros k0 q0 Hk0 Eq0. apply (AE k0 q0 Hk0 Eq0).
Qed.

End LogWorld.
