(* C11 at cluster level: one step never moves the applied index or the snapshot boundary of a node
   backwards, for EVERY label (snapshots, InstallSnapshot, membership changes included) and every world,
   except that a crash / restart of that node resets its volatile state.

   The commit index: the same, with ONE more exception.  The InstallSnapshot handler, when the entry at the
   snapshot's last included index is absent from the log or has another term, restores the state machine
   from the snapshot and sets commitIndex := lastApplied := LastIncludedIndex (h_install_restore).  The
   guard in front of it compares LastIncludedIndex with the node's snapshot boundary and its applied index
   only, not with its commit index.  From a state with  lastApplied < LastIncludedIndex < commitIndex  whose
   log disagrees with the snapshot at LastIncludedIndex the commit index therefore moves backwards
   ([commit_moves_backwards] is a concrete world).  In such a state a committed entry disagrees with a
   snapshot: excluding it is log matching with snapshots (not proved at cluster level), so it is kept as
   the explicit third case [install_jump] of [step_index_mono], and as the hypothesis [install_safe] of
   [step_index_mono_safe] / [run_index_mono].  With membership changes the case is REACHABLE in the model
   (open finding D6, two leaders committing with disjoint quorums): [index_mono_refuted_by_D6],
   [install_safe_not_invariant].  Without hypothesis: [step_index_mono_weak], [run_index_mono_weak],
   [run_applied_lii_mono]. *)
From RaftV Require Import Cluster.World Proofs.Frame Proofs.AESpec.
Open Scope N_scope.

(* ================= statements ================= *)
Definition mono3 (n n' : node) : Prop :=
  n_commit n <= n_commit n' /\ n_applied n <= n_applied n' /\ n_lii n <= n_lii n'.
Definition mono2 (n n' : node) : Prop := n_applied n <= n_applied n' /\ n_lii n <= n_lii n'.
(* what holds of the commit index without any hypothesis: it is not below where it was, or it is still
   above what the node had applied *)
Definition mono3w (n n' : node) : Prop :=
  (n_commit n <= n_commit n' \/ n_applied n < n_commit n') /\ n_applied n <= n_applied n' /\ n_lii n <= n_lii n'.
Definition reset_label (l : label) (id : nid) : Prop := l = LCrash id \/ l = LRestart id.

(* the boundary test of the InstallSnapshot handler: the log has the entry at the snapshot's index, with the
   snapshot's term *)
Definition is_match (n : node) (q : is_req) : bool :=
  match log_get (n_log n) (is_lii q) with Some e => e_term e =? is_lit q | None => false end.

(* the restore path of InstallSnapshot taken with the snapshot's index below the commit index *)
Definition jump3 (q : is_req) (n n' : node) : Prop :=
  n_id n' = n_id n /\ n_commit n' = is_lii q /\ n_applied n' = is_lii q /\ n_lii n' = is_lii q /\
  n_applied n < is_lii q /\ n_lii n < is_lii q /\ is_lii q < n_commit n /\ is_match n q = false.

Definition install_jump (w : world) (l : label) (n n' : node) : Prop :=
  exists c cl q, (l = LDeliver c \/ l = LDup c) /\ get_call w c = Some cl /\ c_req cl = ReqIS q /\
                 c_dst cl = n_id n /\ n_frozen n = false /\ jump3 q n n'.

(* every InstallSnapshot request in flight whose index lies strictly between the applied index and the commit
   index of its destination agrees with the destination's log there *)
Definition install_safe (w : world) : Prop :=
  forall cl q n, In cl (w_calls w) -> c_req cl = ReqIS q -> In n (w_nodes w) -> n_id n = c_dst cl ->
    n_frozen n = false -> n_applied n < is_lii q -> n_lii n < is_lii q -> is_lii q < n_commit n ->
    is_match n q = true.

Fixpoint safe_along (w : world) (ls : list label) : Prop :=
  match ls with
  | [] => True
  | l :: r => install_safe w /\ safe_along (step w l) r
  end.

Fixpoint no_reset (id : nid) (ls : list label) : bool :=
  match ls with
  | [] => true
  | LCrash j :: r => negb (j =? id) && no_reset id r
  | LRestart j :: r => negb (j =? id) && no_reset id r
  | _ :: r => no_reset id r
  end.

(* ================= node level: the frame ================= *)
(* E: identity, commit index, applied index and snapshot boundary untouched *)
Definition ix (n : node) := (n_id n, n_commit n, n_applied n, n_lii n).
Definition E (m m' : node) : Prop := ix m' = ix m.
Lemma E_refl m : E m m. Proof. reflexivity. Qed.
Lemma E_trans a b c : E a b -> E b c -> E a c.
Proof. unfold E. intros H1 H2. rewrite H2. exact H1. Qed.
Lemma E_fields m m' : E m m' ->
  n_id m' = n_id m /\ n_commit m' = n_commit m /\ n_applied m' = n_applied m /\ n_lii m' = n_lii m.
Proof. unfold E, ix. intros H. injection H as H1 H2 H3 H4. auto. Qed.
Lemma E_of m m' : n_id m' = n_id m -> n_commit m' = n_commit m -> n_applied m' = n_applied m -> n_lii m' = n_lii m -> E m m'.
Proof. unfold E, ix. intros -> -> -> ->. reflexivity. Qed.

(* the base node is abstracted first: conversion on large node terms is slow *)
Ltac etv :=
  unfold E;
  match goal with
  | |- ix _ = ix ?x => first [ is_var x; reflexivity
                             | let y := fresh "base" in generalize x; intro y; reflexivity
                             | reflexivity ]
  end.

Lemma E_vol a b : n_id b = n_id a -> vol b = vol a -> E a b.
Proof. unfold vol. intros Hi H. injection H as H1 H2 H3 _ _ _ _ _ _. apply E_of; assumption. Qed.

Lemma E_same_core n n' : same_core n' n -> E n n'.
Proof. intros H. apply E_vol; [exact (sc_id _ _ H)|exact (sc_vol _ _ H)]. Qed.

Lemma E_tick n : E n (snd (tick_write n)).
Proof. pose proof (tick_write_core n) as H. cbn zeta in H. apply E_vol; tauto. Qed.

Lemma E_write (f : node -> node) n :
  (forall m, ix (f m) = ix m) ->
  E n (let (ok, n1) := tick_write n in if ok then f n1 else n1).
Proof.
  intros Hf. pose proof (E_tick n) as H. destruct (tick_write n) as [ok n1]. cbn [snd] in H.
  destruct ok; [|exact H]. eapply E_trans; [exact H|]. apply Hf.
Qed.

Lemma E_persist n : E n (persist n). Proof. apply E_write. reflexivity. Qed.
Lemma E_truncate n i : E n (truncate_log n i). Proof. apply E_write. reflexivity. Qed.
Lemma E_compact n i : E n (compact_log n i). Proof. apply E_write. reflexivity. Qed.
Lemma E_discard n i t : E n (discard_log n i t). Proof. apply E_write. reflexivity. Qed.
Lemma E_close_snapshot n s : E n (close_snapshot n s). Proof. apply E_write. reflexivity. Qed.
Lemma E_append es : forall n, E n (append_entries n es).
Proof.
  induction es as [|e es IH]; intros n; cbn [append_entries]; [apply E_refl|].
  pose proof (E_tick n) as H. destruct (tick_write n) as [ok n1]. cbn [snd] in H.
  destruct ok; [|exact H]. eapply E_trans; [exact H|]. eapply E_trans; [|apply IH]. etv.
Qed.

Lemma E_respond n f r : E n (respond n f r). Proof. apply E_same_core, sc_respond. Qed.
Lemma E_new_opmanager now n : E n (new_opmanager now n). Proof. etv. Qed.
Lemma E_reset n : E n (reset_snapshot_files n). Proof. etv. Qed.
Lemma E_notify n : E n (notify_lost_leadership n). Proof. apply E_same_core, sc_notify. Qed.
Lemma E_cancel n : E n (cancel_conf_change n). Proof. apply E_same_core, sc_cancel. Qed.
Lemma E_fail o n : E n (fail o n).
Proof. unfold fail. destruct (n_out n); [etv|apply E_refl|apply E_refl]. Qed.

Lemma E_become_follower now n l t : E n (become_follower now n l t).
Proof.
  eapply E_trans; [|apply E_same_core, become_follower_core].
  eapply E_trans; [|apply E_persist]. unfold bf_pre. etv.
Qed.

Lemma E_stepdown now n : E n (stepdown now n).
Proof.
  unfold stepdown. eapply E_trans; [|apply E_cancel]. eapply E_trans; [|apply E_new_opmanager].
  eapply E_trans; [|apply E_notify]. etv.
Qed.

Lemma E_new_follower n id nx : E n (new_follower n id nx). Proof. unfold new_follower. etv. Qed.
Lemma E_new_followers nx ids n : E n (fold_left (fun m id => new_follower m id nx) ids n).
Proof. unfold E. apply (proj_new_followers ix nx ids). intros m id. apply E_new_follower. Qed.

Lemma E_next_configuration now n c : E n (next_configuration now n c).
Proof.
  unfold next_configuration. destruct c as [nx|]; [|apply E_fail].
  set (n1 := if is_member nx (n_id n) then n else _).
  assert (H1 : E n n1).
  { subst n1. destruct (is_member nx (n_id n)); [apply E_refl|].
    eapply E_trans; [|apply E_reset]. destruct (role_eqb (n_role n) Leader); [apply E_stepdown|apply E_refl]. }
  clearbody n1. eapply E_trans; [exact H1|].
  match goal with |- E n1 (fold_left ?f ?l ?n2 <| n_conf := ?c |>) =>
    apply E_trans with n2; [etv|]; apply E_trans with (fold_left f l n2); [apply E_new_followers|etv] end.
Qed.

Lemma E_apply_configuration now n c : E n (apply_configuration now n c).
Proof.
  unfold apply_configuration. destruct (n_cconf n) as [cc|].
  - destruct (c_index c <=? c_index cc); [apply E_refl|].
    eapply E_trans; [apply E_next_configuration|]. etv.
  - eapply E_trans; [apply E_next_configuration|]. etv.
Qed.

Lemma E_ae_scan now es : forall n n4 l, ae_scan now n es = Some (n4, l) -> E n n4.
Proof.
  induction es as [|e es IH]; intros n n4 l H; cbn [ae_scan] in H.
  - injection H as <- _. apply E_refl.
  - destruct (last_index (n_log n) <? e_index e); [injection H as <- _; apply E_refl|].
    destruct (log_get (n_log n) (e_index e)) as [ex|]; [|discriminate].
    destruct ((e_index ex =? e_index e) && negb (e_term ex =? e_term e)).
    + injection H as <- _.
      destruct (e_index e <=? c_index (conf_of (truncate_log n (e_index e)))).
      * eapply E_trans; [apply E_truncate|apply E_next_configuration].
      * apply E_truncate.
    + eapply IH; exact H.
Qed.

Lemma E_signal_apply n : E n (signal_apply n). Proof. etv. Qed.
Lemma E_signal_commit n : E n (signal_commit n). Proof. etv. Qed.
Lemma E_signal_ro n : E n (signal_ro n). Proof. etv. Qed.
Lemma E_signal_election n : E n (signal_election n). Proof. etv. Qed.
Lemma E_signal_snapshot n : E n (signal_snapshot n). Proof. etv. Qed.

Lemma E_upd_tasks m ts : E m (m <| n_tasks := ts |>). Proof. etv. Qed.
Lemma E_upd_budget m k : E m (m <| n_budget := k |>). Proof. etv. Qed.
Lemma E_upd_pad m k : E m (m <| n_pad := k |>). Proof. etv. Qed.
Lemma E_upd_cv m f : E m (m <| n_cv ::= f |>). Proof. etv. Qed.
Lemma E_upd_cfg m v : E m (m <| n_cfg_fid := v |>). Proof. etv. Qed.
Lemma E_upd_pending m f : E m (m <| n_pending ::= f |>). Proof. etv. Qed.
Lemma E_upd_sv m v : E m (m <| n_should_verify := v |>). Proof. etv. Qed.
Lemma E_upd_ro m f : E m (m <| n_ro ::= f |>). Proof. etv. Qed.
Lemma E_upd_followers m f : E m (m <| n_followers ::= f |>). Proof. etv. Qed.
Lemma E_upd_role m r : E m (m <| n_role := r |>). Proof. etv. Qed.
Lemma E_upd_snap_every m k : E m (m <| n_snap_every := k |>). Proof. etv. Qed.
Lemma E_upd_iswait m r : E m (m <| n_iswait := r |>). Proof. etv. Qed.
Lemma E_upd_conf_cfg m c f : E m (m <| n_conf := c |> <| n_cfg_fid := f |>). Proof. etv. Qed.

Lemma E_set_follower n id f : E n (set_follower n id f). Proof. unfold set_follower. etv. Qed.
Lemma E_set_fobj n id g f : E n (set_fobj n id g f).
Proof. unfold set_fobj. destruct (_ =? g); [apply E_set_follower|etv]. Qed.
Lemma E_bump_round n r : E n (bump_round n r). Proof. unfold bump_round. etv. Qed.
Lemma E_try_apply_ro now n s : E n (try_apply_ro now n s). Proof. unfold try_apply_ro, signal_ro. etv. Qed.

Lemma E_send_ae_to_peers now n : E n (send_ae_to_peers now n).
Proof.
  unfold send_ae_to_peers.
  set (n0 := n <| n_hb_rounds ::= N.succ |>).
  assert (H0 : E n n0) by etv.
  set (n1 := if is_single (conf_of n) (n_id n) then _ else n0).
  assert (H1 : E n0 n1).
  { subst n1. destruct (is_single (conf_of n) (n_id n)); [|apply E_refl].
    eapply E_trans; [|apply E_try_apply_ro].
    destruct (n_commit n0 <? last_index (n_log n0)); [apply E_signal_commit|apply E_refl]. }
  clearbody n1. clearbody n0.
  unfold new_round. cbn [fst snd].
  eapply E_trans; [exact H0|]. eapply E_trans; [exact H1|]. etv.
Qed.

Lemma E_become_leader now n : E n (become_leader now n).
Proof.
  unfold become_leader.
  eapply E_trans; [|apply E_send_ae_to_peers]. eapply E_trans; [|apply E_append].
  eapply E_trans; [|apply E_reset].
  eapply E_trans; [|apply E_upd_followers].
  eapply E_trans; [|apply E_new_opmanager]. apply E_upd_role.
Qed.

Lemma E_send_rv_to_peers now n : E n (send_rv_to_peers now n).
Proof.
  unfold send_rv_to_peers. destruct (is_single (conf_of n) (n_id n)).
  - eapply E_trans; [|apply E_become_leader].
    destruct (role_eqb (n_role n) PreCandidate); [|apply E_refl].
    eapply E_trans; [|apply E_persist]. etv.
  - unfold new_round. etv.
Qed.

Lemma E_l_election now m : E m (l_election now m).
Proof.
  unfold l_election.
  set (n0 := m <| n_cv ::= _ |>).
  assert (H0 : E m n0) by etv.
  match goal with |- E m (if ?c then _ else _) => destruct c end; [exact H0|].
  set (n1 := if role_eqb (n_role n0) Follower then n0 <| n_role := PreCandidate |> else n0).
  assert (H1 : E n0 n1) by (subst n1; destruct (role_eqb (n_role n0) Follower); [etv|apply E_refl]).
  set (n2 := if role_eqb (n_role n1) Candidate then _ else n1).
  assert (H2 : E n1 n2).
  { subst n2. destruct (role_eqb (n_role n1) Candidate); [|apply E_refl].
    eapply E_trans; [|apply E_persist]. etv. }
  eapply E_trans; [eapply E_trans; [exact H0|eapply E_trans; [exact H1|exact H2]]|].
  apply E_send_rv_to_peers.
Qed.

Lemma E_l_heartbeat now m : E m (l_heartbeat now m).
Proof. unfold l_heartbeat. destruct (_ || _); [apply E_refl|apply E_send_ae_to_peers]. Qed.

Lemma E_l_is_send n peer : E n (fst (l_is_send n peer)).
Proof.
  unfold l_is_send. destruct (negb (role_eqb (n_role n) Leader)); [apply E_refl|].
  destruct (n_lii n =? 0); [apply E_refl|].
  match goal with |- E n (fst (match ?c with _ => _ end)) => destruct c as [[s o]|] end; cbn [fst];
    [apply E_set_follower|apply E_fail].
Qed.

Lemma E_l_ae_send n peer : E n (fst (l_ae_send n peer)).
Proof.
  unfold l_ae_send. destruct (_ || _); [apply E_refl|].
  destruct (f_next (get_follower n peer) <=? n_lii n).
  - pose proof (E_l_is_send n peer) as H. destruct (l_is_send n peer) as [n1 [q|]]; exact H.
  - destruct (next_index (n_log n) <? f_next (get_follower n peer)); cbn [fst]; [apply E_fail|apply E_refl].
Qed.

Lemma E_h_request_vote now n q : E n (fst (h_request_vote now n q)).
Proof.
  unfold h_request_vote.
  destruct (role_eqb (n_role n) Shutdown); [apply E_refl|].
  destruct (lease_valid now n || recent_contact now n); [apply E_refl|].
  destruct (rv_term q <? n_term n); [apply E_refl|].
  set (n1 := if negb (rv_prevote q) && (n_term n <? rv_term q) then become_follower now n (rv_cand q) (rv_term q) else n).
  assert (H1 : E n n1).
  { subst n1. destruct (negb (rv_prevote q) && (n_term n <? rv_term q)); [apply E_become_follower|apply E_refl]. }
  destruct (negb (rv_prevote q) && match n_vote n1 with Some v => negb (v =? rv_cand q) | None => false end);
    [exact H1|].
  destruct ((rv_last_term q <? last_term (n_log n1)) || _); [exact H1|].
  cbn [fst]. destruct (rv_prevote q); [exact H1|].
  eapply E_trans; [exact H1|]. eapply E_trans; [|apply E_persist]. etv.
Qed.

Lemma E_l_rv_reply now m rid peer pv q p : E m (l_rv_reply now m rid peer pv q p).
Proof.
  unfold l_rv_reply.
  destruct (role_eqb (n_role m) Shutdown); [apply E_refl|].
  destruct (rv_term q <? n_term m); [apply E_refl|].
  set (n1 := if rvr_granted p then bump_round m rid else m).
  assert (H1 : E m n1) by (subst n1; destruct (rvr_granted p); [apply E_bump_round|apply E_refl]).
  destruct (rv_term q <? rvr_term p).
  - eapply E_trans; [exact H1|apply E_become_follower].
  - set (n2 := if _ && role_eqb (n_role n1) PreCandidate then _ else n1).
    assert (H2 : E n1 n2).
    { subst n2. match goal with |- E _ (if ?c then _ else _) => destruct c end;
        [unfold signal_election; etv|apply E_refl]. }
    eapply E_trans; [eapply E_trans; [exact H1|exact H2]|].
    match goal with |- E _ (if ?c then _ else _) => destruct c end; [apply E_become_leader|apply E_refl].
Qed.

Lemma E_l_ae_reply now n rid peer g q p : E n (fst (l_ae_reply now n rid peer g q p)).
Proof.
  unfold l_ae_reply.
  destruct (_ || _); [apply E_refl|].
  destruct (n_term n <? aer_term p); [cbn [fst]; apply E_become_follower|].
  destruct (negb (ae_term q =? n_term n)); [apply E_refl|].
  set (n1 := if is_voter (conf_of n) peer then bump_round n rid else n).
  set (n2 := if is_voter (conf_of n) peer && has_quorum (conf_of n1) (round_count n1 rid)
             then try_apply_ro now n1 (round_stamp n1 rid) else n1).
  assert (H1 : E n n1) by (subst n1; destruct (is_voter (conf_of n) peer); [apply E_bump_round|apply E_refl]).
  assert (H2 : E n n2).
  { eapply E_trans; [exact H1|]. subst n2.
    destruct (is_voter (conf_of n) peer && has_quorum (conf_of n1) (round_count n1 rid));
      [apply E_try_apply_ro|apply E_refl]. }
  destruct (negb (aer_success p)).
  - destruct (aer_index p <=? n_lii _).
    + eapply E_trans; [exact H2|]. eapply E_trans; [apply E_set_fobj|]. apply E_l_is_send.
    + cbn [fst]. eapply E_trans; [exact H2|apply E_set_fobj].
  - match goal with |- E n (fst (if ?c then _ else _)) => destruct c end; cbn [fst]; [|exact H2].
    eapply E_trans; [exact H2|]. eapply E_trans; [apply E_set_fobj|].
    match goal with |- E _ (if ?c then _ else _) => destruct c end; [apply E_signal_commit|apply E_refl].
Qed.

Lemma E_l_is_reply now n peer g q resp : E n (l_is_reply now n peer g q resp).
Proof.
  unfold l_is_reply. cbv zeta.
  destruct (f_snap (fobj n peer g)) as [[s o]|]; [|apply E_refl].
  destruct resp as [p|]; [|apply E_refl].
  destruct (n_term n <? isr_term p); [apply E_become_follower|].
  destruct (negb (isr_written p =? is_offset q)); [apply E_set_fobj|].
  destruct (negb (is_done q)); [apply E_refl|apply E_set_fobj].
Qed.

Lemma E_fold_respond (f : node -> rop -> node) ops : (forall m o, E m (f m o)) -> forall n, E n (fold_left f ops n).
Proof.
  intros Hf. induction ops as [|o ops IH]; intros n; cbn [fold_left]; [apply E_refl|].
  eapply E_trans; [apply Hf|apply IH].
Qed.

Lemma E_lp_ro now n : E n (lp_ro now n).
Proof.
  unfold lp_ro. set (n0 := n <| n_cv ::= _ |>). assert (H0 : E n n0) by etv.
  destruct (_ || _); [exact H0|].
  eapply E_trans; [exact H0|]. eapply E_trans; [|apply E_fold_respond].
  - apply E_upd_ro.
  - intros m o. destruct (ro_type o); [apply E_respond|apply E_respond|].
    destruct (lease_valid now m); apply E_respond.
Qed.

Lemma E_api_submit now m fid ty p : E m (api_submit now m fid ty p).
Proof.
  unfold api_submit. destruct (negb (role_eqb (n_role m) Leader)); [apply E_respond|].
  destruct ty.
  - eapply E_trans; [|apply E_send_ae_to_peers]. eapply E_trans; [|apply E_upd_pending]. apply E_append.
  - match goal with |- E m (if ?c then _ else _) => destruct c end; [|apply E_upd_ro].
    eapply E_trans; [|apply E_upd_sv]. eapply E_trans; [|apply E_send_ae_to_peers]. apply E_upd_ro.
  - match goal with |- E m (if ?c then _ else _) => destruct c end; [|apply E_upd_ro].
    eapply E_trans; [|apply E_signal_ro]. apply E_upd_ro.
Qed.

Lemma E_append_configuration n c : E n (fst (append_configuration n c)).
Proof. unfold append_configuration. cbn [fst]. apply E_append. Qed.

Lemma E_api_add_server now n fid id v : E n (api_add_server now n fid id v).
Proof.
  unfold api_add_server. destruct (negb (role_eqb (n_role n) Leader)); [apply E_respond|].
  destruct (negb (committed_this_term n)); [apply E_respond|].
  destruct (pending_conf_change n); [apply E_respond|].
  destruct (_ && _); [apply E_respond|].
  pose proof (E_append_configuration n {| c_index := 0; c_members := put id v (c_members (conf_of n)) |}) as H.
  destruct (append_configuration n _) as [n1 c']. cbn [fst] in H.
  eapply E_trans; [|apply E_send_ae_to_peers]. eapply E_trans; [|apply E_new_follower].
  eapply E_trans; [|apply E_upd_conf_cfg]. exact H.
Qed.

Lemma E_api_remove_server now n fid id : E n (api_remove_server now n fid id).
Proof.
  unfold api_remove_server. destruct (negb (role_eqb (n_role n) Leader)); [apply E_respond|].
  destruct (negb (committed_this_term n)); [apply E_respond|].
  destruct (pending_conf_change n); [apply E_respond|].
  destruct (negb (is_member (conf_of n) id)); [apply E_respond|].
  pose proof (E_append_configuration n {| c_index := 0; c_members := remove_key id (c_members (conf_of n)) |}) as H.
  destruct (append_configuration n _) as [n1 c']. cbn [fst] in H.
  eapply E_trans; [|apply E_send_ae_to_peers]. eapply E_trans; [|apply E_upd_cfg]. exact H.
Qed.

Lemma E_api_start now n : E n (api_start now n).
Proof.
  unfold api_start. destruct (negb _); [apply E_refl|].
  match goal with |- E n (fold_left ?f ?l ?n2 <| n_contact := _ |> <| n_role := _ |>) =>
    apply E_trans with n2; [etv|]; apply E_trans with (fold_left f l n2); [apply E_new_followers|etv] end.
Qed.

Lemma E_install_compact n q : E n (h_install_compact n q).
Proof. unfold h_install_compact. destruct (_ || _); [apply E_refl|apply E_compact]. Qed.

Lemma E_install_resume n : E n (fst (lp_install_resume n)).
Proof.
  unfold lp_install_resume. destruct (n_iswait n) as [|q r]; [apply E_refl|].
  destruct (install_can_resume n q); cbn [fst]; [|apply E_refl].
  eapply E_trans; [|apply E_install_compact]. apply E_upd_iswait.
Qed.

(* ---- crash and restart keep the name ---- *)
Lemma id_crash m : n_id (crash m) = n_id m.
Proof. reflexivity. Qed.

Lemma id_restore m : n_id (restore m) = n_id m.
Proof.
  unfold restore.
  set (n1 := m <| n_open := true |> <| n_term := n_pterm m |> <| n_vote := n_pvote m |>).
  assert (H1 : n_id n1 = n_id m) by reflexivity.
  clearbody n1.
  set (n2 := match last (map Some (n_snaps n1)) None with Some s => _ | None => n1 end).
  assert (H2 : n_id n2 = n_id n1) by (subst n2; destruct (last (map Some (n_snaps n1)) None); reflexivity).
  clearbody n2.
  set (n3 := match last (map Some (n_snaps n1)) None with Some s => _ | None => n2 end).
  assert (H2' : n_id n3 = n_id n2).
  { subst n3. destruct (last (map Some (n_snaps n1)) None) as [s|]; [|reflexivity].
    destruct (_ || _); reflexivity. }
  clearbody n3. destruct (conf_scan _ _ _) as [c cc].
  assert (H3 : n_id (n3 <| n_conf := c |> <| n_cconf := cc |>) = n_id n3) by reflexivity.
  rewrite H3, H2', H2. exact H1.
Qed.

Lemma id_restart now m : n_id (restart_after_crash now m) = n_id m.
Proof.
  unfold restart_after_crash.
  pose proof (id_crash m) as HC. set (x := crash m) in *. clearbody x.
  pose proof (id_restore x) as HR. set (y := restore x) in *. clearbody y.
  destruct (E_fields _ _ (E_new_opmanager now y)) as [H2 _].
  destruct (E_fields _ _ (E_api_start now (new_opmanager now y))) as [H3 _].
  congruence.
Qed.

(* ================= node level: the writers ================= *)
Definition M3 (n n' : node) : Prop := n_id n' = n_id n /\ mono3 n n'.
Lemma M3_refl n : M3 n n. Proof. unfold M3, mono3. repeat split; lia. Qed.
Lemma M3_trans a b c : M3 a b -> M3 b c -> M3 a c.
Proof. unfold M3, mono3. intros (I1 & A1 & A2 & A3) (I2 & B1 & B2 & B3). split; [congruence|]. repeat split; lia. Qed.
Lemma E_M3 n n' : E n n' -> M3 n n'.
Proof. intros H. destruct (E_fields _ _ H) as (H1 & H2 & H3 & H4). unfold M3, mono3. split; [exact H1|]. lia. Qed.
Lemma M3_of n n' : n_id n' = n_id n -> n_commit n <= n_commit n' -> n_applied n <= n_applied n' -> n_lii n <= n_lii n' -> M3 n n'.
Proof. unfold M3, mono3. auto. Qed.

(* ---- commitLoop ---- *)
Lemma M3_set_commit n c : n_commit n <= c -> M3 n (n <| n_commit := c |>).
Proof. intros H. apply M3_of; [reflexivity|exact H|apply N.le_refl|apply N.le_refl]. Qed.

Lemma M3_lp_commit now n : M3 n (lp_commit now n).
Proof.
  unfold lp_commit. set (n0 := n <| n_cv ::= _ |>). assert (H0 : E n n0) by etv. clearbody n0.
  destruct (negb (role_eqb (n_role n0) Leader)); [apply E_M3, H0|].
  set (c := commit_scan _ _ _). clearbody c.
  destruct (N.ltb_spec (n_commit n0) c) as [Hlt|Hge]; [|apply E_M3, H0].
  eapply M3_trans; [apply E_M3, H0|].
  eapply M3_trans; [|apply E_M3, E_send_ae_to_peers].
  eapply M3_trans; [|apply E_M3, E_signal_apply].
  apply M3_set_commit. lia.
Qed.

(* ---- applyLoop ---- *)
Lemma M3_succ_applied n : M3 n (n <| n_applied ::= N.succ |>).
Proof.
  apply M3_of; [reflexivity|apply N.le_refl| |apply N.le_refl].
  change (n_applied (n <| n_applied ::= N.succ |>)) with (N.succ (n_applied n)). lia.
Qed.

Lemma M3_lp_apply_one now n : M3 n (lp_apply_one now n).
Proof.
  unfold lp_apply_one. destruct (log_get (n_log n) (n_applied n + 1)) as [e|]; [|apply E_M3, E_fail].
  set (n1 := match e_kind e with KNoop => n | _ => _ end).
  assert (H1 : E n n1).
  { subst n1. destruct (e_kind e) as [|p|c].
    - apply E_refl.
    - cbv zeta. match goal with |- E _ (match ?x with _ => _ end) => destruct x end.
      + eapply E_trans; [|apply E_respond]. etv.
      + etv.
    - cbv zeta. match goal with |- E _ (match ?x with _ => _ end) => destruct x end.
      + eapply E_trans; [|apply E_upd_cfg]. eapply E_trans; [|apply E_respond]. apply E_apply_configuration.
      + apply E_apply_configuration. }
  clearbody n1. eapply M3_trans; [apply E_M3, H1|].
  destruct (need_snapshot _).
  - eapply M3_trans; [|apply E_M3, E_signal_snapshot]. apply M3_succ_applied.
  - apply M3_succ_applied.
Qed.

Lemma M3_lp_apply_run now fuel : forall n, M3 n (lp_apply_run fuel now n).
Proof.
  induction fuel as [|f IH]; intros n; cbn [lp_apply_run]; [apply M3_refl|].
  match goal with |- M3 n (if ?c then _ else _) => destruct c end; [|apply M3_refl].
  eapply M3_trans; [apply M3_lp_apply_one|apply IH].
Qed.

Lemma M3_lp_apply now n : M3 n (lp_apply now n).
Proof.
  unfold lp_apply. set (n0 := n <| n_cv ::= _ |>). assert (H0 : E n n0) by etv. clearbody n0.
  eapply M3_trans; [apply E_M3, H0|].
  pose proof (M3_lp_apply_run now (N.to_nat (n_commit n0 - n_applied n0)) n0) as H.
  set (n1 := lp_apply_run _ now n0) in *. clearbody n1.
  destruct (role_eqb (n_role n1) Leader); [|exact H].
  eapply M3_trans; [exact H|apply E_M3, E_signal_ro].
Qed.

(* ---- AppendEntries handler ---- *)
Lemma E_ae_pre now n q : E n (ae_pre now n q).
Proof.
  unfold ae_pre.
  set (n1 := n <| n_contact := now |> <| n_leader := Some (ae_leader q) |>).
  assert (H1 : E n n1) by etv.
  set (n2 := if n_term n1 <? ae_term q then _ else n1).
  assert (H2 : E n1 n2) by (subst n2; destruct (n_term n1 <? ae_term q); [apply E_become_follower|apply E_refl]).
  eapply E_trans; [exact H1|]. eapply E_trans; [exact H2|].
  destruct (_ && _); [apply E_become_follower|apply E_refl].
Qed.

Lemma M3_h_append_entries now n q : M3 n (fst (h_append_entries now n q)).
Proof.
  destruct (role_eqb (n_role n) Shutdown) eqn:E1; [unfold h_append_entries; rewrite E1; apply M3_refl|].
  destruct (ae_term q <? n_term n) eqn:E2; [unfold h_append_entries; rewrite E1, E2; apply M3_refl|].
  rewrite (ae_unfold now n q E1 E2). cbn zeta.
  pose proof (E_ae_pre now n q) as H3. set (n3 := ae_pre now n q) in *. clearbody n3.
  apply E_M3 in H3.
  destruct (ae_prev_index q <? n_lii n3); [exact H3|].
  destruct (next_index (n_log n3) <=? ae_prev_index q); [exact H3|].
  destruct ((n_lii n3 =? ae_prev_index q) && negb (n_lit n3 =? ae_prev_term q)); [exact H3|].
  match goal with |- context [fst (match ?c with _ => _ end)] => destruct c as [[idx|]|] end.
  - exact H3.
  - cbn [fst]. eapply M3_trans; [exact H3|apply E_M3, E_fail].
  - destruct (ae_scan now n3 (ae_entries q)) as [[n4 ta]|] eqn:Es; cbn [fst];
      [|eapply M3_trans; [exact H3|apply E_M3, E_fail]].
    pose proof (E_ae_scan _ _ _ _ _ Es) as H4. pose proof (E_append ta n4) as H5.
    set (n5 := append_entries n4 ta) in *. clearbody n5.
    eapply M3_trans; [exact H3|]. eapply M3_trans; [apply E_M3, H4|]. eapply M3_trans; [apply E_M3, H5|].
    set (c := N.min _ _). clearbody c.
    destruct (N.ltb_spec (n_commit n5) c) as [Hlt|Hge]; [|apply M3_refl].
    eapply M3_trans; [|apply E_M3, E_signal_apply]. apply M3_set_commit. lia.
Qed.

(* ---- takeSnapshot ---- *)
Lemma M3_set_lii n i t : n_lii n <= i -> M3 n (n <| n_lii := i |> <| n_lit := t |>).
Proof. intros H. apply M3_of; [reflexivity|apply N.le_refl|apply N.le_refl|exact H]. Qed.

Lemma M3_lp_snapshot n : M3 n (lp_snapshot n).
Proof.
  unfold lp_snapshot. set (n0 := n <| n_cv ::= _ |>). assert (H0 : E n n0) by etv. clearbody n0.
  apply E_M3 in H0.
  destruct (_ || _); [exact H0|]. destruct (n_applied n0 <=? n_lii n0); [exact H0|].
  destruct (n_cconf n0) as [cc|]; [|exact H0]. destruct (n_applied n0 <? c_index cc); [exact H0|].
  destruct (log_get (n_log n0) (n_applied n0)) as [e|]; [|eapply M3_trans; [exact H0|apply E_M3, E_fail]].
  eapply M3_trans; [exact H0|]. cbv zeta.
  destruct (N.leb_spec (e_index e) (n_lii n0)) as [Hle|Hgt]; [apply M3_refl|].
  set (s := {| s_index := e_index e; s_term := e_term e; s_conf := cc; s_data := _ |}). clearbody s.
  pose proof (E_close_snapshot n0 s) as H1. set (n1 := close_snapshot n0 s) in *. clearbody n1.
  destruct (E_fields _ _ H1) as (_ & _ & _ & L1).
  eapply M3_trans; [apply E_M3, H1|].
  eapply M3_trans; [|apply E_M3, E_reset]. eapply M3_trans; [|apply E_M3, E_compact].
  apply M3_set_lii. lia.
Qed.

(* ---- InstallSnapshot handler ---- *)
(* identity, the three indices and the log *)
Definition EL (m m' : node) : Prop := E m m' /\ n_log m' = n_log m.
Lemma EL_refl m : EL m m. Proof. split; reflexivity. Qed.
Lemma EL_trans a b c : EL a b -> EL b c -> EL a c.
Proof. intros [A1 A2] [B1 B2]. split; [eapply E_trans; eassumption|congruence]. Qed.
Lemma EL_become_follower now n l t : EL n (become_follower now n l t).
Proof. split; [apply E_become_follower|apply log_become_follower]. Qed.

Lemma log_close_snapshot n s : n_log (close_snapshot n s) = n_log n.
Proof.
  unfold close_snapshot. pose proof (tick_write_core n) as H. cbn zeta in H.
  destruct H as (_ & _ & _ & _ & H & _). destruct (tick_write n) as [ok n1]. cbn [snd] in H.
  destruct ok; exact H.
Qed.

Lemma IS_cases now n q :
  let n' := fst (h_install_snapshot now n q) in M3 n n' \/ jump3 q n n'.
Proof.
  cbn zeta. unfold h_install_snapshot.
  destruct (role_eqb (n_role n) Shutdown); [left; apply M3_refl|].
  destruct (is_term q <? n_term n); [left; apply M3_refl|].
  cbv zeta.
  set (n1 := if n_term n <? is_term q then become_follower now n (is_leader q) (is_term q) else n).
  assert (H1 : EL n n1) by (subst n1; destruct (n_term n <? is_term q); [apply EL_become_follower|apply EL_refl]).
  clearbody n1.
  set (n2 := if (is_term q =? n_term n1) && _ then become_follower now n1 (is_leader q) (is_term q) else n1).
  assert (H2 : EL n1 n2) by (subst n2; destruct (_ && _); [apply EL_become_follower|apply EL_refl]).
  clearbody n2.
  set (n3 := n2 <| n_contact := now |>).
  assert (H3 : EL n2 n3) by (split; [etv|reflexivity]).
  clearbody n3.
  assert (H : EL n n3) by (eapply EL_trans; [exact H1|eapply EL_trans; [exact H2|exact H3]]).
  clear H1 H2 H3 n1 n2. destruct H as [HE HL].
  destruct (N.leb_spec (is_lii q) (n_lii n3)) as [G1|G1]; [left; apply E_M3, HE|].
  destruct (N.leb_spec (is_lii q) (n_applied n3)) as [G2|G2]; [left; apply E_M3, HE|].
  cbn [orb].
  set (n4 := match n_partial n3 with Some p => if s_index p <? is_lii q then n3 <| n_partial := None |> else n3 | None => n3 end).
  assert (H4 : EL n3 n4).
  { subst n4. destruct (n_partial n3) as [p|]; [|apply EL_refl].
    destruct (s_index p <? is_lii q); [split; [etv|reflexivity]|apply EL_refl]. }
  clearbody n4. destruct H4 as [HE4 HL4].
  assert (HE' : E n n4) by (eapply E_trans; eassumption).
  assert (HL' : n_log n4 = n_log n) by congruence.
  destruct (E_fields _ _ HE4) as (_ & _ & A4 & L4). rewrite <- A4 in G2. rewrite <- L4 in G1.
  clear HE HL HE4 HL4 A4 L4 n3.
  set (p := match n_partial n4 with Some p => p | None => _ end). clearbody p.
  destruct (negb (is_offset q =? N.of_nat (length (s_data p)))).
  { left. cbn [fst]. eapply M3_trans; [apply E_M3, HE'|]. apply E_M3. etv. }
  destruct (negb (is_done q)).
  { left. cbn [fst]. eapply M3_trans; [apply E_M3, HE'|]. apply E_M3. etv. }
  set (p' := {| s_index := s_index p; s_term := s_term p; s_conf := s_conf p; s_data := s_data p ++ is_bytes q |}). clearbody p'.
  set (n5 := close_snapshot n4 p' <| n_partial := None |> <| n_lii := is_lii q |> <| n_lit := is_lit q |>).
  pose proof (E_close_snapshot n4 p') as HC. pose proof (log_close_snapshot n4 p') as HLC.
  destruct (E_fields _ _ HE') as (I4 & C4 & A4 & L4). destruct (E_fields _ _ HC) as (IC & CC & AC & LC').
  assert (I5 : n_id n5 = n_id n) by (transitivity (n_id (close_snapshot n4 p')); [reflexivity|congruence]).
  assert (C5 : n_commit n5 = n_commit n) by (transitivity (n_commit (close_snapshot n4 p')); [reflexivity|congruence]).
  assert (A5 : n_applied n5 = n_applied n) by (transitivity (n_applied (close_snapshot n4 p')); [reflexivity|congruence]).
  assert (L5 : n_lii n5 = is_lii q) by reflexivity.
  assert (G5 : n_log n5 = n_log n) by (transitivity (n_log (close_snapshot n4 p')); [reflexivity|congruence]).
  rewrite A4 in G2. rewrite L4 in G1.
  assert (M5 : M3 n n5) by (apply M3_of; [exact I5|rewrite C5; lia|rewrite A5; lia|rewrite L5; lia]).
  clearbody n5. clear HC HLC IC CC AC LC' HE' HL' I4 C4 A4 L4.
  rewrite G5. fold (is_match n q).
  destruct (is_match n q) eqn:Em.
  - left. destruct (n_applied n5 <? is_lii q); cbn [fst].
    + eapply M3_trans; [exact M5|]. apply E_M3. etv.
    + eapply M3_trans; [exact M5|]. apply E_M3, E_install_compact.
  - cbn [fst]. unfold h_install_restore.
    destruct (last (map Some (n_snaps n5)) None) as [s|]; [|left; eapply M3_trans; [exact M5|apply E_M3, E_fail]].
    set (m1 := n5 <| n_fsm := fsm_unsnap (s_data s) |> <| n_applies := [] |>).
    assert (E1 : E n5 m1) by etv. clearbody m1.
    destruct (role_eqb (n_role m1) Shutdown); [left; eapply M3_trans; [exact M5|apply E_M3, E1]|].
    set (m2 := m1 <| n_applied := is_lii q |> <| n_commit := is_lii q |>).
    assert (I2 : n_id m2 = n_id m1) by reflexivity.
    assert (C2 : n_commit m2 = is_lii q) by reflexivity.
    assert (A2 : n_applied m2 = is_lii q) by reflexivity.
    assert (L2 : n_lii m2 = n_lii m1) by reflexivity.
    clearbody m2.
    pose proof (E_trans _ _ _ (E_discard m2 (is_lii q) (is_lit q))
                  (E_apply_configuration now (discard_log m2 (is_lii q) (is_lit q)) (is_conf q))) as HR.
    set (r := apply_configuration now _ (is_conf q)) in *. clearbody r.
    destruct (E_fields _ _ HR) as (IR & CR & AR & LR). destruct (E_fields _ _ E1) as (I1 & _ & _ & L1).
    destruct (N.le_gt_cases (n_commit n) (is_lii q)) as [Hc|Hc].
    + left. apply M3_of; [congruence|rewrite CR, C2; exact Hc|rewrite AR, A2; lia|rewrite LR, L2, L1, L5; lia].
    + right. unfold jump3. split; [congruence|]. split; [congruence|]. split; [congruence|].
      split; [congruence|]. split; [exact G2|]. split; [exact G1|]. split; [exact Hc|exact Em].
Qed.

(* ================= world level ================= *)
Inductive WS (w : world) (l : label) (n n' : node) : Prop :=
| ws_mono : M3 n n' -> WS w l n n'
| ws_reset : n_id n' = n_id n -> reset_label l (n_id n) -> WS w l n n'
| ws_jump c cl q : (l = LDeliver c \/ l = LDup c) -> get_call w c = Some cl -> c_req cl = ReqIS q ->
                   c_dst cl = n_id n -> n_frozen n = false -> jump3 q n n' -> WS w l n n'.

Definition NS (w : world) (l : label) (ns' : list node) : Prop :=
  forall n', In n' ns' -> exists n, In n (w_nodes w) /\ WS w l n n'.

Lemma WS_refl w l n : WS w l n n. Proof. apply ws_mono, M3_refl. Qed.

Lemma NS_same w l : NS w l (w_nodes w).
Proof. intros n' Hn'. exists n'. split; [exact Hn'|apply WS_refl]. Qed.

Lemma node_in w id n : get_node w id = Some n -> In n (w_nodes w) /\ n_id n = id.
Proof.
  unfold get_node. intros H. apply find_some in H. destruct H as [H1 H2]. split; [exact H1|].
  apply N.eqb_eq. exact H2.
Qed.

Lemma call_in w id c : get_call w id = Some c -> In c (w_calls w).
Proof. unfold get_call. intros H. apply find_some in H. tauto. Qed.

Lemma in_set w m' n : In n (w_nodes (set_node w m')) -> n = m' \/ In n (w_nodes w).
Proof.
  unfold set_node. cbn [w_nodes set]. intros H. apply in_map_iff in H. destruct H as (x & Hx & Hin).
  destruct (n_id x =? n_id m'); [left; symmetry; exact Hx|right; rewrite <- Hx; exact Hin].
Qed.

Lemma NS_set_node w l w1 m m' : w_nodes w1 = w_nodes w -> In m (w_nodes w) -> WS w l m m' ->
  NS w l (w_nodes (set_node w1 m')).
Proof.
  intros Ew Hm HT n' Hn'. destruct (in_set _ _ _ Hn') as [->|H]; [exists m; auto|].
  rewrite Ew in H. exists n'. split; [exact H|apply WS_refl].
Qed.

Lemma NS_on_node w l w1 id f : w_nodes w1 = w_nodes w ->
  (forall m, In m (w_nodes w) -> n_id m = id -> WS w l m (f m)) -> NS w l (w_nodes (on_node w1 id f)).
Proof.
  intros Ew Hf. unfold on_node. destruct (get_node w1 id) as [m|] eqn:G; [|rewrite Ew; apply NS_same].
  destruct (node_in _ _ _ G) as [Hm Hid]. rewrite Ew in Hm.
  apply NS_set_node with (m := m); [exact Ew|exact Hm|apply Hf; assumption].
Qed.

Lemma ws_E w l m m' : E m m' -> WS w l m m'.
Proof. intros H. apply ws_mono, E_M3, H. Qed.
Lemma ws_E_cond w l (b : bool) m m' : E m m' -> WS w l m (if b then m' else m).
Proof. intros H. destruct b; [apply ws_E, H|apply WS_refl]. Qed.
Lemma ws_M_cond w l (b : bool) m m' : M3 m m' -> WS w l m (if b then m' else m).
Proof. intros H. destruct b; [apply ws_mono, H|apply WS_refl]. Qed.

Ltac nsame := match goal with |- NS ?w ?l _ => exact (NS_same w l) end.

Lemma NS_step_deliver w l k c dup : (l = LDeliver k \/ l = LDup k) -> get_call w k = Some c ->
  NS w l (w_nodes (step_deliver w c dup)).
Proof.
  intros Hl Hk. unfold step_deliver. destruct (get_node w (c_dst c)) as [n|] eqn:G.
  2:{ destruct dup; nsame. }
  destruct (node_in _ _ _ G) as [Hn Eid].
  destruct (n_frozen n) eqn:Fz; [destruct dup; nsame|].
  assert (H1 : NS w l (w_nodes (set_node w (fst (fst (run_handler (w_now w) n (c_req c))))))).
  { destruct (c_req c) as [q|q|q] eqn:Eq.
    - unfold run_handler. destruct (h_append_entries (w_now w) n q) as [n1 p] eqn:EH. cbn [fst].
      replace n1 with (fst (h_append_entries (w_now w) n q)) by (rewrite EH; reflexivity).
      apply NS_set_node with (m := n); [reflexivity|exact Hn|]. apply ws_mono, M3_h_append_entries.
    - unfold run_handler. destruct (h_request_vote (w_now w) n q) as [n1 p] eqn:EH. cbn [fst].
      replace n1 with (fst (h_request_vote (w_now w) n q)) by (rewrite EH; reflexivity).
      apply NS_set_node with (m := n); [reflexivity|exact Hn|]. apply ws_E, E_h_request_vote.
    - unfold run_handler. destruct (h_install_snapshot (w_now w) n q) as [n1 p] eqn:EH. cbn [fst].
      replace n1 with (fst (h_install_snapshot (w_now w) n q)) by (rewrite EH; reflexivity).
      apply NS_set_node with (m := n); [reflexivity|exact Hn|].
      pose proof (IS_cases (w_now w) n q) as HC. cbn zeta in HC. destruct HC as [HC|HC].
      + apply ws_mono, HC.
      + apply ws_jump with (c := k) (cl := c) (q := q); auto. }
  destruct (run_handler (w_now w) n (c_req c)) as [[n1 resp] parked]. cbn [fst] in H1.
  destruct dup; [exact H1|].
  destruct (n_frozen n1); [exact H1|].
  destruct resp as [p|]; exact H1.
Qed.

Lemma NS_step_reply w l c failed : NS w l (w_nodes (step_reply w c failed)).
Proof.
  unfold step_reply.
  set (w0 := set_call w (c <| c_state := CDone |>)).
  assert (E0 : w_nodes w0 = w_nodes w) by reflexivity.
  assert (H0 : NS w l (w_nodes w0)) by (rewrite E0; nsame).
  clearbody w0.
  destruct (get_node w (c_src c)) as [n|] eqn:G; [|exact H0].
  destruct (node_in _ _ _ G) as [Hn Eid].
  destruct (n_frozen n) eqn:Fz; [exact H0|].
  destruct (c_req c) as [q|q|q] eqn:Eq.
  - destruct (if failed then None else c_resp c) as [[p|p|p]|]; try exact H0.
    pose proof (E_l_ae_reply (w_now w) n (c_round c) (c_dst c) (c_fgen c) q p) as HF.
    destruct (l_ae_reply (w_now w) n (c_round c) (c_dst c) (c_fgen c) q p) as [n1 o]. cbn [fst snd] in *.
    assert (H1 : NS w l (w_nodes (set_node w0 n1))).
    { apply NS_set_node with (m := n); [exact E0|exact Hn|apply ws_E, HF]. }
    destruct o; exact H1.
  - destruct (if failed then None else c_resp c) as [[p|p|p]|]; try exact H0.
    apply NS_set_node with (m := n); [exact E0|exact Hn|apply ws_E, E_l_rv_reply].
  - destruct (if failed then None else c_resp c) as [[p|p|p]|];
      (apply NS_set_node with (m := n); [exact E0|exact Hn|apply ws_E, E_l_is_reply]).
Qed.

Lemma NS_step_task w l m : In m (w_nodes w) -> NS w l (w_nodes (step_task w m)).
Proof.
  intros Hm. unfold step_task. destruct (n_tasks m) as [|t rest] eqn:Et; [nsame|].
  set (n0 := m <| n_tasks := rest |>).
  assert (F0 : E m n0) by etv. clearbody n0.
  assert (Hsec : forall m', E m m' -> NS w l (w_nodes (set_node w m'))).
  { intros m' HF. apply NS_set_node with (m := m); [reflexivity|exact Hm|apply ws_E, HF]. }
  destruct t as [rid peer pv|rid peer].
  - destruct (l_rv_send n0 rid peer pv) as [q|]; apply (Hsec n0 F0).
  - pose proof (E_l_ae_send n0 peer) as HF.
    destruct (l_ae_send n0 peer) as [n1 sn]. cbn [fst] in *.
    assert (H1 : NS w l (w_nodes (set_node w n1))).
    { apply Hsec. apply E_trans with n0; assumption. }
    destruct sn as [|q|q]; exact H1.
Qed.

Theorem step_WS w l : NS w l (w_nodes (step w l)).
Proof.
  destruct l; cbn [step].
  - (* LTick *) nsame.
  - (* LElection *) apply NS_on_node; [reflexivity|]. intros m _ _. apply ws_E_cond, E_signal_election.
  - (* LHeartbeat *) apply NS_on_node; [reflexivity|]. intros m _ _. apply ws_E_cond, E_l_heartbeat.
  - (* LDeliver *) destruct (get_call w c) as [cl|] eqn:G; [|nsame].
    destruct (c_state cl) eqn:Es; try nsame. apply NS_step_deliver with (k := c); auto.
  - (* LDup *) destruct (get_call w c) as [cl|] eqn:G; [|nsame].
    apply NS_step_deliver with (k := c); auto.
  - (* LReply *) destruct (get_call w c) as [cl|] eqn:G; [|nsame].
    destruct (c_state cl) eqn:Es; try nsame. apply NS_step_reply.
  - (* LFail *) destruct (get_call w c) as [cl|] eqn:G; [|nsame].
    destruct (c_state cl) eqn:Es; try nsame; apply NS_step_reply.
  - (* LSubmit *) unfold fresh_fid. apply NS_on_node; [reflexivity|]. intros m _ _.
    destruct (n_frozen m); [apply WS_refl|apply ws_E, E_api_submit].
  - (* LAddServer *) unfold fresh_fid. apply NS_on_node; [reflexivity|]. intros m _ _.
    destruct (n_frozen m); [apply WS_refl|apply ws_E, E_api_add_server].
  - (* LRemoveServer *) unfold fresh_fid. apply NS_on_node; [reflexivity|]. intros m _ _.
    destruct (n_frozen m); [apply WS_refl|apply ws_E, E_api_remove_server].
  - (* LSnapshot *) apply NS_on_node; [reflexivity|]. intros m _ _. apply ws_M_cond.
    eapply M3_trans; [apply E_M3, E_upd_snap_every|]. eapply M3_trans; [apply M3_lp_snapshot|]. apply E_M3, E_upd_snap_every.
  - (* LCrash *) change (NS w (LCrash n) (w_nodes (on_node w n crash))). apply NS_on_node; [reflexivity|]. intros m _ Hid.
    apply ws_reset; [apply id_crash|left; rewrite Hid; reflexivity].
  - (* LRestart *) apply NS_on_node; [reflexivity|]. intros m _ Hid.
    destruct (role_eqb (n_role m) Shutdown); [|apply WS_refl].
    apply ws_reset; [apply id_restart|right; rewrite Hid; reflexivity].
  - (* LBudget *) apply NS_on_node; [reflexivity|]. intros m _ _. apply ws_E, E_upd_budget.
  - (* LPad *) apply NS_on_node; [reflexivity|]. intros m _ _. apply ws_E, E_upd_pad.
  - (* LDefer *) apply NS_on_node; [reflexivity|]. intros m _ _. apply ws_E, E_upd_tasks.
  - (* LRoMissed *) apply NS_on_node; [reflexivity|]. intros m _ _. apply ws_E, E_upd_cv.
  - (* LTask *) destruct (get_node w n) as [m|] eqn:G; [|nsame]. destruct (is_up m) eqn:Hup; [|nsame].
    destruct (node_in _ _ _ G) as [Hm _]. apply NS_step_task; auto.
  - (* LElectionRun *) apply NS_on_node; [reflexivity|]. intros m _ _. apply ws_E_cond, E_l_election.
  - (* LCommit *) apply NS_on_node; [reflexivity|]. intros m _ _. apply ws_M_cond, M3_lp_commit.
  - (* LApply *) apply NS_on_node; [reflexivity|]. intros m _ _. apply ws_M_cond, M3_lp_apply.
  - (* LRo *) apply NS_on_node; [reflexivity|]. intros m _ _. apply ws_E_cond, E_lp_ro.
  - (* LInstallResume *) destruct (get_node w n) as [m|] eqn:G; [|nsame].
    destruct (node_in _ _ _ G) as [Hm _].
    pose proof (E_install_resume m) as HE. destruct (lp_install_resume m) as [m1 [q|]]; cbn [fst] in HE; [|nsame].
    assert (H1 : NS w (LInstallResume n) (w_nodes (set_node w m1))).
    { apply NS_set_node with (m := m); [reflexivity|exact Hm|apply ws_E, HE]. }
    cbv zeta. destruct (find _ _); exact H1.
Qed.

(* ================= the theorems: one step ================= *)
Theorem step_index_mono w l : forall n', In n' (w_nodes (step w l)) ->
  exists n, In n (w_nodes w) /\ n_id n' = n_id n /\
            (mono3 n n' \/ reset_label l (n_id n) \/ install_jump w l n n').
Proof.
  intros n' Hn'. destruct (step_WS w l n' Hn') as (n & Hn & HW). exists n. split; [exact Hn|].
  destruct HW as [[Hid HM]|Hid HR|c cl q A1 A2 A3 A4 A5 HJ].
  - split; [exact Hid|left; exact HM].
  - split; [exact Hid|right; left; exact HR].
  - split; [apply HJ|]. right; right. exists c, cl, q. auto 10.
Qed.

Lemma mono3_mono2 n n' : mono3 n n' -> mono2 n n'.
Proof. unfold mono3, mono2. tauto. Qed.
Lemma mono3_mono3w n n' : mono3 n n' -> mono3w n n'.
Proof. unfold mono3, mono3w. tauto. Qed.
Lemma jump3_mono3w q n n' : jump3 q n n' -> mono3w n n'.
Proof. unfold jump3, mono3w. intros (_ & C & A & L & H1 & H2 & _). lia. Qed.

(* the applied index and the snapshot boundary: no exception besides crash / restart; the commit index is never
   at or below what the node had applied *)
Theorem step_index_mono_weak w l : forall n', In n' (w_nodes (step w l)) ->
  exists n, In n (w_nodes w) /\ n_id n' = n_id n /\ (mono3w n n' \/ reset_label l (n_id n)).
Proof.
  intros n' Hn'. destruct (step_index_mono w l n' Hn') as (n & Hn & Hid & [H|[H|H]]); exists n; split; auto; split; auto.
  - left. apply mono3_mono3w, H.
  - left. destruct H as (c & cl & q & _ & _ & _ & _ & _ & HJ). apply (jump3_mono3w q), HJ.
Qed.

Theorem step_applied_lii_mono w l : forall n', In n' (w_nodes (step w l)) ->
  exists n, In n (w_nodes w) /\ n_id n' = n_id n /\ (mono2 n n' \/ reset_label l (n_id n)).
Proof.
  intros n' Hn'. destruct (step_index_mono_weak w l n' Hn') as (n & Hn & Hid & [H|H]); exists n; split; auto; split; auto.
  left. unfold mono3w, mono2 in *. tauto.
Qed.

Lemma install_jump_unsafe w l n n' : In n (w_nodes w) -> install_jump w l n n' -> ~ install_safe w.
Proof.
  intros Hn (c & cl & q & _ & Hc & Hq & Hd & Hf & (_ & _ & _ & _ & J1 & J2 & J3 & J4)) HS.
  rewrite (HS cl q n (call_in _ _ _ Hc) Hq Hn (eq_sym Hd) Hf J1 J2 J3) in J4. discriminate.
Qed.

(* the statement asked for, under the hypothesis that excludes the third case *)
Theorem step_index_mono_safe w l : install_safe w -> forall n', In n' (w_nodes (step w l)) ->
  exists n, In n (w_nodes w) /\ n_id n' = n_id n /\ (mono3 n n' \/ reset_label l (n_id n)).
Proof.
  intros HS n' Hn'. destruct (step_index_mono w l n' Hn') as (n & Hn & Hid & [H|[H|H]]); exists n; split; auto; split; auto.
  exfalso. exact (install_jump_unsafe w l n n' Hn H HS).
Qed.

(* ================= runs ================= *)
Lemma no_reset_head id l r : no_reset id (l :: r) = true -> ~ reset_label l id /\ no_reset id r = true.
Proof.
  intros H. unfold reset_label.
  destruct l; cbn [no_reset] in H;
    try (split; [intros [X|X]; discriminate X|exact H]);
    apply andb_prop in H; destruct H as [H1 H2]; (split; [|exact H2]);
    apply Bool.negb_true_iff, N.eqb_neq in H1; intros [X|X]; try discriminate X; injection X as X; contradiction.
Qed.

Section Run.
Variable R : node -> node -> Prop.
Variable G : world -> Prop.
Hypothesis R_refl : forall n, R n n.
Hypothesis R_trans : forall a b c, R a b -> R b c -> R a c.
Hypothesis R_step : forall w l, G w -> forall n', In n' (w_nodes (step w l)) ->
  exists n, In n (w_nodes w) /\ n_id n' = n_id n /\ (R n n' \/ reset_label l (n_id n)).

Fixpoint along (w : world) (ls : list label) : Prop :=
  match ls with
  | [] => True
  | l :: r => G w /\ along (step w l) r
  end.

Lemma run_rel id : forall ls w, no_reset id ls = true -> along w ls ->
  forall n2, In n2 (w_nodes (run w ls)) -> n_id n2 = id -> exists n1, In n1 (w_nodes w) /\ n_id n1 = id /\ R n1 n2.
Proof.
  induction ls as [|l r IH]; intros w Hnr Hal n2 Hn2 Hid.
  - exists n2. cbn in Hn2. auto.
  - destruct (no_reset_head id l r Hnr) as [Hl Hr]. destruct Hal as [Hg Hal].
    change (run w (l :: r)) with (run (step w l) r) in Hn2.
    destruct (IH (step w l) Hr Hal n2 Hn2 Hid) as (m & Hm & Hidm & HR).
    destruct (R_step w l Hg m Hm) as (n1 & Hn1 & Hid1 & [H|H]).
    + exists n1. split; [exact Hn1|]. split; [congruence|]. eapply R_trans; eassumption.
    + exfalso. apply Hl. rewrite <- Hidm, Hid1. exact H.
Qed.
End Run.

Lemma mono3_refl n : mono3 n n. Proof. unfold mono3. lia. Qed.
Lemma mono3_trans a b c : mono3 a b -> mono3 b c -> mono3 a c. Proof. unfold mono3. lia. Qed.
Lemma mono3w_refl n : mono3w n n. Proof. unfold mono3w. lia. Qed.
Lemma mono3w_trans a b c : mono3w a b -> mono3w b c -> mono3w a c. Proof. unfold mono3w. lia. Qed.
Lemma mono2_refl n : mono2 n n. Proof. unfold mono2. lia. Qed.
Lemma mono2_trans a b c : mono2 a b -> mono2 b c -> mono2 a c. Proof. unfold mono2. lia. Qed.

Lemma along_true w ls : along (fun _ => True) w ls.
Proof. revert w. induction ls as [|l r IH]; intros w; cbn [along]; auto. Qed.
Lemma along_safe w ls : safe_along w ls -> along install_safe w ls.
Proof. revert w. induction ls as [|l r IH]; intros w; cbn [along safe_along]; [auto|]. intros [H1 H2]. auto. Qed.

(* without any hypothesis: applied index and snapshot boundary never move backwards; the commit index is not below
   where it was or still above what had been applied *)
Theorem run_index_mono_weak ids boot et ld ls1 ls2 id : no_reset id ls2 = true ->
  let w1 := run (init_world ids boot et ld) ls1 in let w2 := run w1 ls2 in
  forall n2, In n2 (w_nodes w2) -> n_id n2 = id -> exists n1, In n1 (w_nodes w1) /\ n_id n1 = id /\ mono3w n1 n2.
Proof.
  intros Hnr w1 w2. subst w2.
  apply (run_rel mono3w (fun _ => True) mono3w_refl mono3w_trans (fun w l _ => step_index_mono_weak w l) id ls2 w1 Hnr).
  apply along_true.
Qed.

Theorem run_applied_lii_mono ids boot et ld ls1 ls2 id : no_reset id ls2 = true ->
  let w1 := run (init_world ids boot et ld) ls1 in let w2 := run w1 ls2 in
  forall n2, In n2 (w_nodes w2) -> n_id n2 = id -> exists n1, In n1 (w_nodes w1) /\ n_id n1 = id /\ mono2 n1 n2.
Proof.
  intros Hnr w1 w2. subst w2.
  apply (run_rel mono2 (fun _ => True) mono2_refl mono2_trans (fun w l _ => step_applied_lii_mono w l) id ls2 w1 Hnr).
  apply along_true.
Qed.

(* the statement asked for, for runs along which no InstallSnapshot request contradicts a committed entry *)
Theorem run_index_mono ids boot et ld ls1 ls2 id : no_reset id ls2 = true ->
  let w1 := run (init_world ids boot et ld) ls1 in let w2 := run w1 ls2 in
  safe_along w1 ls2 ->
  forall n2, In n2 (w_nodes w2) -> n_id n2 = id -> exists n1, In n1 (w_nodes w1) /\ n_id n1 = id /\ mono3 n1 n2.
Proof.
  intros Hnr w1 w2 Hs. subst w2.
  apply (run_rel mono3 install_safe mono3_refl mono3_trans step_index_mono_safe id ls2 w1 Hnr).
  apply along_safe, Hs.
Qed.

(* ================= the third case is not empty ================= *)
(* a follower with an empty log, commitIndex 5, lastApplied 0, receives a one-chunk snapshot with last included
   index 3: its commit index becomes 3 *)
Definition cx_node : node :=
  (mk_node 0 10 10) <| n_role := Follower |> <| n_commit := 5 |>.
Definition cx_req : is_req :=
  {| is_leader := 1; is_term := 0; is_lii := 3; is_lit := 1; is_conf := config0; is_offset := 0; is_bytes := []; is_done := true |}.
Definition cx_world : world :=
  {| w_nodes := [cx_node];
     w_calls := [{| c_id := 0; c_src := 1; c_dst := 0; c_round := 0; c_fgen := 0; c_req := ReqIS cx_req; c_resp := None; c_state := CPending |}];
     w_now := 0; w_next_call := 1; w_next_fid := 0 |}.

Lemma commit_moves_backwards :
  exists n', In n' (w_nodes (step cx_world (LDeliver 0))) /\ n_commit n' = 3 /\
    forall n, In n (w_nodes cx_world) -> n_commit n = 5 /\ ~ reset_label (LDeliver 0) (n_id n).
Proof.
  eexists. split; [|split].
  - vm_compute. left. reflexivity.
  - vm_compute. reflexivity.
  - intros n [<-|[]]. split; [reflexivity|]. intros [X|X]; discriminate X.
Qed.

(* ================= ... and not empty on reachable worlds either (open finding D6) ================= *)
(* The schedule of Witness/W_C09_D6.v (two additions {0,1,2} -> +3 -> +4; node 2 is elected by {1,2} while leader 0
   commits with {0,3,4}) with these changes: leader 0 commits operation 77 at index 5 and a further operation 78 at
   index 6 but its apply loop does not run (commitIndex 6, lastApplied 4); node 2, leader of term 2, applies its own
   entry (5, term 2), takes a snapshot there and sends it to node 0 (call 58).  Node 0 has (5, term 1): the restore
   path sets its commit index to 5.  So with membership changes the statement with the commit index is false of
   the model for a reachable world; [install_safe] fails there. *)
Definition bw_labels : list label :=
  [LTick 4; LElection 0; LElectionRun 0; LTask 0; LTask 0; LDeliver 0; LReply 0;
   LElectionRun 0; LTask 0; LTask 0; LDeliver 1; LReply 1; LDeliver 2; LReply 2;
   LTask 0; LTask 0; LDeliver 3; LReply 3; LDeliver 4; LReply 4; LCommit 0;
   LTask 0; LTask 0; LApply 0; LRo 0; LDeliver 5; LReply 5; LRo 0; LDeliver 6;
   LApply 1; LReply 6; LRo 0; LDeliver 7; LApply 2; LReply 7; LRo 0; LAddServer 0 3 true;
   LTask 0; LTask 0; LTask 0; LDeliver 9; LReply 9; LCommit 0; LDeliver 10;
   LApply 3; LReply 10; LCommit 0; LTask 0; LTask 0; LTask 0; LApply 0; LRo 0;
   LHeartbeat 0; LTask 0; LTask 0; LTask 0; LDeliver 16; LApply 3; LReply 16;
   LHeartbeat 0; LTask 0; LTask 0; LTask 0; LDeliver 19; LReply 19; LAddServer 0 4 true;
   LTask 0; LTask 0; LTask 0; LTask 0; LDeliver 22; LReply 22; LCommit 0; LDeliver 23;
   LApply 4; LReply 23; LCommit 0; LTask 0; LTask 0; LTask 0; LTask 0; LApply 0;
   LRo 0; LHeartbeat 0; LTask 0; LTask 0; LTask 0; LTask 0; LDeliver 31; LApply 4;
   LReply 31; LHeartbeat 0; LTask 0; LTask 0; LTask 0; LTask 0; LDeliver 35;
   LReply 35; LDeliver 34; LApply 3; LReply 34; LRo 0; LSubmit 0 OReplicated 77;
   LTask 0; LTask 0; LTask 0; LTask 0; LDeliver 38; LReply 38; LCommit 0; LDeliver 39;
   LReply 39; LCommit 0; LTask 0; LTask 0; LTask 0; LTask 0; LSubmit 0 OReplicated 78;
   LTask 0; LTask 0; LTask 0; LTask 0; LDeliver 46; LReply 46; LCommit 0; LDeliver 47;
   LReply 47; LCommit 0; LTick 4; LElection 2; LElectionRun 2; LTask 2; LTask 2;
   LDeliver 49; LReply 49; LElectionRun 2; LTask 2; LTask 2; LDeliver 51; LReply 51;
   LTask 2; LTask 2; LDeliver 53; LReply 53; LRo 2; LSubmit 2 OReplicated 88;
   LTask 2; LTask 2; LDeliver 55; LReply 55; LCommit 2; LTask 2; LTask 2; LApply 2;
   LRo 2; LSnapshot 2; LHeartbeat 2; LTask 2].
Definition bw_world : world := run (init_world [0; 1; 2; 3; 4] [0; 1; 2] 4 2) bw_labels.
Definition ica (n : node) := (n_id n, n_commit n, n_applied n).

Lemma bw_before : map ica (w_nodes bw_world) = [(0, 6, 4); (1, 2, 2); (2, 5, 5); (3, 5, 4); (4, 5, 4)].
Proof. vm_compute. reflexivity. Qed.
Lemma bw_after : map ica (w_nodes (run bw_world [LDeliver 58])) = [(0, 5, 5); (1, 2, 2); (2, 5, 5); (3, 5, 4); (4, 5, 4)].
Proof. vm_compute. reflexivity. Qed.

(* the run-level statement with the commit index and without a hypothesis *)
Definition index_mono_statement : Prop :=
  forall ids boot et ld ls1 ls2 id, no_reset id ls2 = true ->
  let w1 := run (init_world ids boot et ld) ls1 in let w2 := run w1 ls2 in
  forall n2, In n2 (w_nodes w2) -> n_id n2 = id -> exists n1, In n1 (w_nodes w1) /\ n_id n1 = id /\ mono3 n1 n2.

Lemma bw_refute w1 l :
  map ica (w_nodes w1) = [(0, 6, 4); (1, 2, 2); (2, 5, 5); (3, 5, 4); (4, 5, 4)] ->
  map ica (w_nodes (run w1 [l])) = [(0, 5, 5); (1, 2, 2); (2, 5, 5); (3, 5, 4); (4, 5, 4)] ->
  ~ (forall n2, In n2 (w_nodes (run w1 [l])) -> n_id n2 = 0 ->
       exists n1, In n1 (w_nodes w1) /\ n_id n1 = 0 /\ mono3 n1 n2).
Proof.
  intros Hb Ha H.
  assert (Hin : In (0, 5, 5) (map ica (w_nodes (run w1 [l])))) by (rewrite Ha; left; reflexivity).
  apply in_map_iff in Hin. destruct Hin as (n2 & Hf & Hin). unfold ica in Hf. injection Hf as Hid Hc _.
  destruct (H n2 Hin Hid) as (n1 & Hn1 & Hid1 & (HM & _)).
  assert (Hb1 : In (ica n1) (map ica (w_nodes w1))) by (apply in_map; exact Hn1).
  rewrite Hb in Hb1. unfold ica in Hb1. rewrite Hid1 in Hb1. rewrite Hc in HM.
  destruct Hb1 as [X|[X|[X|[X|[X|[]]]]]]; try discriminate X. injection X as X _. rewrite <- X in HM. lia.
Qed.

Theorem index_mono_refuted_by_D6 : ~ index_mono_statement.
Proof.
  intros H. apply (bw_refute bw_world (LDeliver 58) bw_before bw_after). unfold bw_world.
  exact (H [0; 1; 2; 3; 4] [0; 1; 2] 4 2 bw_labels [LDeliver 58] 0 eq_refl).
Qed.

(* consequently the hypothesis of [run_index_mono] is not an invariant of the model as long as D6 is open *)
Corollary install_safe_not_invariant :
  ~ (forall ids boot et ld ls, install_safe (run (init_world ids boot et ld) ls)).
Proof.
  intros HS. apply index_mono_refuted_by_D6. intros ids boot et ld ls1 ls2 id Hnr w1 w2.
  apply (run_index_mono ids boot et ld ls1 ls2 id Hnr).
  clear Hnr w2. subst w1. revert ls1. induction ls2 as [|l r IH]; intros ls1; cbn [safe_along]; [exact I|].
  split; [apply HS|]. specialize (IH (ls1 ++ [l])). unfold run in *. rewrite fold_left_app in IH. exact IH.
Qed.

Print Assumptions step_index_mono.
Print Assumptions step_index_mono_weak.
Print Assumptions step_applied_lii_mono.
Print Assumptions step_index_mono_safe.
Print Assumptions run_index_mono_weak.
Print Assumptions run_applied_lii_mono.
Print Assumptions run_index_mono.
Print Assumptions commit_moves_backwards.
Print Assumptions index_mono_refuted_by_D6.
Print Assumptions install_safe_not_invariant.
