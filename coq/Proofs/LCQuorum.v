(* Leader completeness (C07): the commit rule of a leader. If the leader's match indexes reach index j on a
   quorum (hasQuorum(count_matches j)), a majority of voters are members of its entry at j: the entry is
   committed in the sense of LCCore. *)
From RaftV Require Import Cluster.World Cluster.Statements Proofs.Frame.
From RaftV Require Import Proofs.ConfNode Proofs.ConfStatic.
From RaftV Require Import Proofs.ElectNode Proofs.ElectWorld Proofs.ElectSafety.
From RaftV Require Import Proofs.LogDefs Proofs.LogSeg Proofs.LogInv Proofs.LogMatching Proofs.LCDefs Proofs.LCCore Proofs.FollowerKeys.
Open Scope N_scope.

Lemma nodup_map_filter {A} (f : A -> N) (p : A -> bool) (l : list A) : NoDup (map f l) -> NoDup (map f (filter p l)).
Proof.
  induction l as [|x l IH]; cbn [map filter]; intros H; [constructor|]. inversion H as [|? ? Hx ND]; subst.
  destruct (p x); cbn [map]; [|apply IH, ND]. constructor; [|apply IH, ND].
  intro Hin. apply Hx. apply in_map_iff in Hin. destruct Hin as (y & Ey & Hy). apply filter_In in Hy. destruct Hy as [Hy _].
  apply in_map_iff. exists y. auto.
Qed.

Lemma filter_none {A} (p : A -> bool) (l : list A) : (forall x, In x l -> p x = false) -> filter p l = [].
Proof.
  induction l as [|x l IH]; intros H; [reflexivity|]. cbn [filter]. rewrite (H x (or_introl eq_refl)). apply IH. intros y Hy. apply H. right. exact Hy.
Qed.

Lemma half_lt a c : a / 2 < c -> a < 2 * c.
Proof.
  intros H. pose proof (N.div_mod' a 2) as E. pose proof (N.mod_lt a 2 ltac:(discriminate)) as M. lia.
Qed.

Section Quorum.
Variables (C : config) (cs : list call) (n : node).
Hypothesis Hconf : conf_of n = config0 \/ conf_of n = C.
Hypothesis Hfk : fk_ok n.
Hypothesis Hrole : n_role n = Leader.
Hypothesis Hlead : lead C cs (n_id n) (n_term n).
Hypothesis Hmatch : match_ok cs n.

Lemma quorum_committed ej : e_term ej = n_term n -> 1 <= e_index ej ->
  has_quorum (conf_of n) (count_matches n (e_index ej)) = true -> committed C cs ej.
Proof.
  intros Et Hj Hq. unfold has_quorum in Hq. apply N.ltb_lt in Hq.
  destruct Hconf as [E0|EC].
  { exfalso. unfold count_matches, self_count in Hq. rewrite E0 in Hq. unfold is_voter at 1 in Hq. cbn [config0 c_members lookup] in Hq.
    rewrite filter_none in Hq; [cbn in Hq; lia|].
    intros p _. unfold is_voter. cbn [config0 c_members lookup]. rewrite andb_false_r. reflexivity. }
  rewrite EC in Hq. unfold count_matches, self_count in Hq. rewrite EC in Hq.
  set (pr := fun p : N * fstate => negb (fst p =? n_id n) && is_voter C (fst p) && (e_index ej <=? f_match (snd p))) in *.
  set (F := filter pr (n_followers n)) in *.
  set (V0 := if is_voter C (n_id n) then [n_id n] else []).
  exists (V0 ++ map fst F).
  assert (HF : forall p, In p F -> fst p <> n_id n /\ is_voter C (fst p) = true /\ e_index ej <= f_match (snd p) /\ In p (n_followers n)).
  { intros p Hp. apply filter_In in Hp. destruct Hp as [Hin Hp]. unfold pr in Hp.
    apply andb_true_iff in Hp. destruct Hp as [Hp H3]. apply andb_true_iff in Hp. destruct Hp as [H1 H2].
    apply negb_true_iff, N.eqb_neq in H1. apply N.leb_le in H3. auto. }
  split; [|split; [|split]].
  - apply ElectNode.nodup_app.
    + subst V0. destruct (is_voter C (n_id n)); [constructor; [intros []|constructor]|constructor].
    + apply nodup_map_filter. exact Hfk.
    + intros x Hx Hy. subst V0. destruct (is_voter C (n_id n)); [|destruct Hx]. destruct Hx as [<-|[]].
      apply in_map_iff in Hy. destruct Hy as (p & Ep & Hp). destruct (HF p Hp) as [Hne _]. congruence.
  - intros x Hx. apply in_app_or in Hx. destruct Hx as [Hx|Hx].
    + subst V0. destruct (is_voter C (n_id n)) eqn:Ev; [|destruct Hx]. destruct Hx as [<-|[]]. apply voter_in, Ev.
    + apply in_map_iff in Hx. destruct Hx as (p & <- & Hp). apply voter_in. apply (HF p Hp).
  - assert (Hlen : num_voters C < 2 * N.of_nat (length (V0 ++ map fst F))).
    { apply half_lt. rewrite app_length, map_length. subst V0. destruct (is_voter C (n_id n)); cbn [length]; lia. }
    rewrite <- voters_length in Hlen. lia.
  - intros v Hv. apply in_app_or in Hv. destruct Hv as [Hv|Hv].
    + subst V0. destruct (is_voter C (n_id n)); [|destruct Hv]. destruct Hv as [<-|[]]. right. rewrite Et. exact Hlead.
    + apply in_map_iff in Hv. destruct Hv as (p & <- & Hp). destruct (HF p Hp) as (_ & _ & Hm & Hin). left.
      destruct p as [pid f]. cbn [fst snd] in *. destruct (Hmatch Hrole pid f Hin) as [H0|(k & tp & Hk & Hack & Hle)]; [lia|].
      rewrite Et. exists k, tp. split; [exact Hk|]. split; [exact Hack|]. lia.
Qed.

End Quorum.
