(* Leader completeness (C07): the context of one step - every invariant proved so far, for the world before and
   after the step. *)
From Coq Require Import Classical.
From RaftV Require Import Cluster.World Cluster.Statements Proofs.Frame Proofs.AESpec.
From RaftV Require Import Proofs.ConfNode Proofs.ConfStatic Proofs.Votes Proofs.VoteRecords.
From RaftV Require Import Proofs.ElectWorld Proofs.ElectRun Proofs.ElectSafety.
From RaftV Require Import Proofs.LogDefs Proofs.LogSeg Proofs.LogUni Proofs.LogInv Proofs.NoSnap Proofs.TaePeer Proofs.LogRun Proofs.LogMatching
                          Proofs.StepCases Proofs.SortedTerms Proofs.ReachInd Proofs.ReqTerm Proofs.LCDefs Proofs.LCHist Proofs.LCCore Proofs.LCStep Proofs.LCStep2.
Open Scope N_scope.

Record FACTS (C : config) (w : world) : Prop := {
  f_all : ALL C w; f_srt : SRT w; f_rtl : RTL w; f_rte : RTE w; f_rt : rt_ok w; f_cand : cand_ok w;
  f_pt : forall n, In n (w_nodes w) -> n_pterm n <= n_term n;
  f_rvb : forall k r a, In k (w_calls w) -> c_req k = ReqRV r -> rv_prevote r = false -> In a (w_nodes w) -> n_id a = c_src k -> rv_term r <= n_pterm a;
  f_ln : forall n, In n (w_nodes w) -> ln_node n; f_rq : forall k, In k (w_calls w) -> rq_call k;
  f_match : forall a, In a (w_nodes w) -> match_ok (w_calls w) a }.

Record CTX (C : config) (w : world) (l : label) : Prop := {
  cx_nd : NoDup (member_ids C); cx_st : static_label l = true; cx_ns : nosnap_label l = true;
  cx_f : FACTS C w; cx_f' : FACTS C (step w l); cx_i : LCI C w }.
