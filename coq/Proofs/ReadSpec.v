(* Node-level specifications, for every state (and request):
   - the read-only loop (C05, C17): what a read future can be answered with, and when;
   - stickiness and prevote (C16);
   - the label of a locally taken snapshot (C10);
   - what a restart reads back (C14). *)
From RaftV Require Import Node.Leader.
From RaftV Require Import Proofs.Frame Proofs.Futures Proofs.Votes Proofs.AESpec.
Open Scope N_scope.

(* ---------------- respond ---------------- *)
Lemma respond_results n f r x :
  In x (n_results (respond n f r)) -> In x (n_results n) \/ x = (f, r).
Proof.
  unfold respond. destruct (n_frozen n); [auto|]. destruct (existsb _ _); [auto|].
  cbn. intros H. apply in_app_or in H. destruct H as [H|[H|[]]]; auto.
Qed.

Lemma respond_frame n f r :
  n_lease (respond n f r) = n_lease n /\ n_fsm (respond n f r) = n_fsm n /\ n_applied (respond n f r) = n_applied n.
Proof. unfold respond. destruct (n_frozen n); [auto|]. destruct (existsb _ _); auto. Qed.

(* ---------------- readOnlyLoop ---------------- *)
(* the loop body over the ready operations: every new result is the answer to one of them, computed from the
   state machine as it is now, and a lease-based read is answered with a value only while the lease is valid *)
Definition ro_answer (now : N) (m : node) (o : rop) : fresult :=
  match ro_type o with
  | OLease => if lease_valid now m then FRead (ro_payload o) (N.of_nat (length (n_fsm m))) else FInvalidLease
  | _ => FRead (ro_payload o) (N.of_nat (length (n_fsm m)))
  end.

Lemma ro_fold_results now ready : forall m x,
  In x (n_results (fold_left (fun m o => respond m (ro_fid o) (ro_answer now m o)) ready m)) ->
  In x (n_results m) \/ exists o, In o ready /\ x = (ro_fid o, ro_answer now m o).
Proof.
  induction ready as [|o ready IH]; intros m x H; cbn [fold_left] in H; [auto|].
  apply IH in H. destruct H as [H|(o' & Ho' & E)].
  - apply respond_results in H. destruct H as [H|H]; [auto|]. right. exists o. split; [left; reflexivity|exact H].
  - right. exists o'. split; [right; exact Ho'|].
    rewrite E. f_equal. unfold ro_answer, lease_valid.
    destruct (respond_frame m (ro_fid o) (ro_answer now m o)) as (L & F & _). unfold ro_answer, lease_valid in L, F.
    rewrite L, F. reflexivity.
Qed.

Lemma lp_ro_fold_eq now ready m :
  fold_left (fun m o =>
               match ro_type o with
               | OLease => if lease_valid now m then respond m (ro_fid o) (FRead (ro_payload o) (N.of_nat (length (n_fsm m))))
                           else respond m (ro_fid o) FInvalidLease
               | _ => respond m (ro_fid o) (FRead (ro_payload o) (N.of_nat (length (n_fsm m))))
               end) ready m
  = fold_left (fun m o => respond m (ro_fid o) (ro_answer now m o)) ready m.
Proof.
  revert m. induction ready as [|o ready IH]; intros m; cbn [fold_left]; [reflexivity|].
  rewrite <- IH. f_equal. unfold ro_answer. destruct (ro_type o); [reflexivity|reflexivity|].
  destruct (lease_valid now m); reflexivity.
Qed.

(* C05 / C17: a result that readOnlyLoop adds belongs to a pending read-only operation o such that
   - the node is leader and has committed an entry of its term,
   - o's read index has been applied (o saw everything committed when it was submitted),
   - a linearizable read has been verified by a heartbeat round,
   - the value is the state machine's current state,
   - a lease-based read gets a value only if the lease is valid now, otherwise ErrInvalidLease. *)
Theorem lp_ro_spec now n x :
  In x (n_results (lp_ro now n)) ->
  In x (n_results n) \/
  exists o, In o (n_ro n) /\ fst x = ro_fid o /\
    n_role n = Leader /\ committed_this_term n = true /\ ro_read_index o <= n_applied n /\
    (ro_type o = OLinearizable -> ro_verified o = true) /\
    (snd x = FRead (ro_payload o) (N.of_nat (length (n_fsm n))) /\ (ro_type o = OLease -> now < n_lease n)
     \/ snd x = FInvalidLease /\ ro_type o = OLease /\ n_lease n <= now).
Proof.
  unfold lp_ro.
  set (n0 := n <| n_cv ::= fun c => c <| cv_ro := false |> |>).
  assert (R0 : n_results n0 = n_results n) by reflexivity.
  assert (O0 : n_ro n0 = n_ro n) by reflexivity.
  assert (P0 : n_role n0 = n_role n /\ committed_this_term n0 = committed_this_term n /\ n_applied n0 = n_applied n
               /\ n_fsm n0 = n_fsm n /\ n_lease n0 = n_lease n) by (repeat split).
  clearbody n0. destruct P0 as (PR & PC & PA & PF & PL).
  destruct (role_eqb (n_role n0) Leader) eqn:ER; cbn [negb orb]; [|rewrite R0; auto].
  destruct (committed_this_term n0) eqn:EC; cbn [negb]; [|rewrite R0; auto].
  rewrite lp_ro_fold_eq. intros H. apply ro_fold_results in H.
  destruct H as [H|(o & Ho & E)]; [left; cbn in H; rewrite R0 in H; exact H|].
  right. apply filter_In in Ho. destruct Ho as [Ho Happ]. exists o.
  split; [rewrite <- O0; exact Ho|]. rewrite E. cbn [fst snd]. split; [reflexivity|].
  split; [rewrite <- PR; destruct (n_role n0); try discriminate; reflexivity|].
  split; [rewrite <- PC; reflexivity|].
  unfold ro_appliable in Happ. unfold ro_answer, lease_valid. cbn [n_fsm n_lease set].
  rewrite PF, PL. rewrite PA in Happ.
  destruct (ro_type o) eqn:ET.
  - discriminate.
  - apply andb_prop in Happ. destruct Happ as [HV HA]. apply N.leb_le in HA.
    split; [exact HA|]. split; [intros _; exact HV|]. left. split; [reflexivity|discriminate].
  - apply N.leb_le in Happ. split; [exact Happ|]. split; [discriminate|].
    destruct (N.ltb_spec now (n_lease n)) as [HL|HL].
    + left. split; [reflexivity|intros _; exact HL].
    + right. split; [reflexivity|]. split; [reflexivity|exact HL].
Qed.

(* ---------------- stickiness and prevote (C16) ---------------- *)
(* a node that has heard from a leader within the election timeout, or a leader whose lease is valid, refuses
   every vote request - prevote or real, of any term - and does not change in any way (it does not even adopt
   the term) *)
Theorem rv_sticky now n q :
  role_eqb (n_role n) Shutdown = false -> lease_valid now n || recent_contact now n = true ->
  h_request_vote now n q = (n, Some {| rvr_term := n_term n; rvr_granted := false |}).
Proof. intros HS HL. unfold h_request_vote. rewrite HS, HL. reflexivity. Qed.

(* the election timer of a follower that is not alone in its configuration starts a PREVOTE: the term and the
   vote (memory and disk) stay as they are; only vote-request goroutines are spawned *)
Theorem election_prevote_keeps_term now n :
  n_role n = Follower -> is_single (conf_of n) (n_id n) = false ->
  let n' := l_election now n in
  n_term n' = n_term n /\ n_vote n' = n_vote n /\ n_pterm n' = n_pterm n /\ n_pvote n' = n_pvote n /\
  (n_role n' = Follower \/ n_role n' = PreCandidate).
Proof.
  intros HR HS. cbn zeta. unfold l_election.
  set (n0 := n <| n_cv ::= fun c => c <| cv_election := false |> |>).
  assert (E0 : n_role n0 = Follower /\ conf_of n0 = conf_of n /\ n_id n0 = n_id n) by (repeat split; exact HR).
  assert (T0 : tvf n0 = tvf n) by reflexivity. clearbody n0. destruct E0 as (R0 & C0 & I0).
  unfold tvf in T0. injection T0 as _ T1 T2 T3 T4 _.
  destruct (_ || _); [rewrite T1, T2, T3, T4, R0; auto 6|].
  rewrite R0. cbn [role_eqb].
  set (n1 := n0 <| n_role := PreCandidate |>).
  assert (E1 : n_role n1 = PreCandidate /\ conf_of n1 = conf_of n /\ n_id n1 = n_id n) by (repeat split; assumption).
  assert (T1' : n_term n1 = n_term n /\ n_vote n1 = n_vote n /\ n_pterm n1 = n_pterm n /\ n_pvote n1 = n_pvote n)
    by (repeat split; assumption).
  clearbody n1. destruct E1 as (R1 & C1 & I1). rewrite R1. cbn [role_eqb].
  unfold send_rv_to_peers. rewrite C1, I1, HS.
  unfold new_round. cbn. rewrite R1. tauto.
Qed.

(* ---------------- the label of a locally taken snapshot (C10) ---------------- *)
Lemma close_snapshot_snaps m s x :
  In x (n_snaps (close_snapshot m s)) -> In x (n_snaps m) \/ x = s.
Proof.
  unfold close_snapshot, tick_write. destruct (n_frozen m); [auto|].
  destruct (n_budget m) as [k|]; [destruct (k =? 0); [auto|]|];
    cbn; intros H; apply in_app_or in H; destruct H as [H|[H|[]]]; auto.
Qed.

Lemma compact_log_snaps m i : n_snaps (compact_log m i) = n_snaps m.
Proof.
  unfold compact_log, tick_write. destruct (n_frozen m); [reflexivity|].
  destruct (n_budget m) as [k|]; [destruct (k =? 0)|]; reflexivity.
Qed.

(* a snapshot that takeSnapshot adds is labelled with the index and term of the log entry at the applied index,
   contains the state machine exactly as it is at that point, and carries the committed configuration, which is
   not newer than the applied index *)
Theorem lp_snapshot_label n s :
  In s (n_snaps (lp_snapshot n)) ->
  In s (n_snaps n) \/
  (s_data s = fsm_snap (n_pad n) (n_fsm n) /\
   n_cconf n = Some (s_conf s) /\ c_index (s_conf s) <= n_applied n /\
   exists e, log_get (n_log n) (n_applied n) = Some e /\ s_index s = e_index e /\ s_term s = e_term e).
Proof.
  unfold lp_snapshot.
  set (n0 := n <| n_cv ::= fun c => c <| cv_snapshot := false |> |>).
  assert (P0 : n_snaps n0 = n_snaps n /\ n_applied n0 = n_applied n /\ n_pad n0 = n_pad n /\ n_fsm n0 = n_fsm n
               /\ n_cconf n0 = n_cconf n /\ n_log n0 = n_log n) by (repeat split).
  clearbody n0. destruct P0 as (PS & PA & PP & PF & PC & PL).
  destruct (_ || _); [rewrite PS; auto|].
  destruct (n_applied n0 <=? n_lii n0); [rewrite PS; auto|].
  destruct (n_cconf n0) as [cc|] eqn:EC; [|rewrite PS; auto].
  destruct (N.ltb_spec (n_applied n0) (c_index cc)) as [HI|HI]; [rewrite PS; auto|].
  destruct (log_get (n_log n0) (n_applied n0)) as [e|] eqn:EL.
  2:{ unfold fail. destruct (n_out n0); cbn; rewrite PS; auto. }
  set (s0 := {| s_index := e_index e; s_term := e_term e; s_conf := cc; s_data := fsm_snap (n_pad n0) (n_fsm n0) |}).
  assert (HX : forall x, In x (n_snaps (close_snapshot n0 s0)) -> In x (n_snaps n) \/ x = s0).
  { intros x Hx. apply close_snapshot_snaps in Hx. rewrite PS in Hx. exact Hx. }
  assert (HS0 : s_data s0 = fsm_snap (n_pad n) (n_fsm n) /\ n_cconf n = Some (s_conf s0) /\ c_index (s_conf s0) <= n_applied n /\
                exists e', log_get (n_log n) (n_applied n) = Some e' /\ s_index s0 = e_index e' /\ s_term s0 = e_term e').
  { subst s0. cbn [s_data s_conf s_index s_term]. rewrite <- PP, <- PF, <- PA, <- PL.
    split; [reflexivity|]. split; [symmetry; exact PC|]. split; [exact HI|]. exists e. auto. }
  clearbody s0.
  destruct (e_index e <=? n_lii n0).
  - rewrite PS. auto.
  - intros H. unfold reset_snapshot_files in H. cbn [n_snaps set] in H.
    rewrite compact_log_snaps in H. cbn [n_snaps set] in H.
    apply HX in H. destruct H as [H| ->]; [auto|right; exact HS0].
Qed.

(* ---------------- what a restart reads back (C14) ---------------- *)
(* NewRaft + Start over the directory of a process that died at any point: the node comes back with exactly the
   term and vote that were last persisted, not frozen, and with the persistent log - whatever the volatile state
   was when it died *)
Lemma crash_fields n :
  n_id (crash n) = n_id n /\ n_pterm (crash n) = n_pterm n /\ n_pvote (crash n) = n_pvote n /\ n_frozen (crash n) = false.
Proof. unfold crash. cbn [n_id n_pterm n_pvote n_frozen set]. repeat split; reflexivity. Qed.

Lemma frozen_new_opmanager now m : n_frozen (new_opmanager now m) = n_frozen m.
Proof. reflexivity. Qed.

Lemma frozen_api_start now m : n_frozen (api_start now m) = n_frozen m.
Proof.
  unfold api_start. destruct (negb _); [reflexivity|].
  match goal with |- n_frozen (fold_left ?f ?l ?m0 <| n_contact := _ |> <| n_role := _ |>) = _ =>
    change (n_frozen (fold_left f l m0) = n_frozen m) end.
  rewrite (proj_new_followers n_frozen 0); reflexivity.
Qed.

Theorem restart_reads_back now n :
  let n' := restart_after_crash now n in
  n_term n' = n_pterm n /\ n_vote n' = n_pvote n /\ n_pterm n' = n_pterm n /\ n_pvote n' = n_pvote n /\
  n_frozen n' = false /\ n_id n' = n_id n.
Proof.
  cbn zeta. unfold restart_after_crash.
  pose proof (restore_tvf (crash n)) as H. unfold tvf in H.
  destruct (crash_fields n) as (C1 & C2 & C3 & C4).
  set (k := crash n) in *. clearbody k.
  set (m := restore k) in *. clearbody m.
  injection H as H1 H2 H3 H4 H5 H6.
  pose proof (Q_new_opmanager now m) as [B1 B2 B3 B4 B5 _].
  pose proof (frozen_new_opmanager now m) as B6.
  set (m1 := new_opmanager now m) in *. clearbody m1.
  pose proof (Q_api_start now m1) as [A1 A2 A3 A4 A5 _].
  pose proof (frozen_api_start now m1) as A6.
  set (m2 := api_start now m1) in *. clearbody m2.
  repeat split; congruence.
Qed.
