(* Election safety (C02), part 5: sendRequestVote consumes a response; a node that becomes leader there
   has won its term: a majority of the voters, itself included, and every other member of that majority
   is the destination of a recorded RPC that granted it a real vote of that term. *)
From RaftV Require Import Cluster.World Cluster.Statements Proofs.Frame Proofs.RVSpec.
From RaftV Require Import Proofs.ConfNode Proofs.ConfStatic Proofs.ConfSticky.
From RaftV Require Import Proofs.Votes Proofs.VoteRecords Proofs.Names Proofs.ElectSpec.
From RaftV Require Import Proofs.ElectDefs Proofs.EFrame Proofs.RoleFrame Proofs.ElectBook Proofs.ElectNode Proofs.ElectSteps Proofs.ElectWorld.
Open Scope N_scope.

Lemma cnt_upd_plus c0 c cs id rid :
  NoDup (map c_id cs) -> In c cs -> c_id c0 = c_id c -> counted id rid c = false -> counted id rid c0 = true ->
  cnt (upd_call c0 cs) id rid = cnt cs id rid + 1.
Proof.
  intros ND Hin Eid Hf Ht. unfold cnt, upd_call. induction cs as [|x cs IH]; [destruct Hin|].
  cbn [map] in ND. inversion ND as [|? ? Hx ND']; subst. cbn [map filter]. destruct Hin as [->|Hin].
  - assert (Hrest : map (fun d => if c_id d =? c_id c0 then c0 else d) cs = cs).
    { clear - Hx Eid. induction cs as [|y l IH]; [reflexivity|]. cbn [map]. f_equal.
      - destruct (N.eqb_spec (c_id y) (c_id c0)) as [E|E]; [|reflexivity]. exfalso. apply Hx. left. congruence.
      - apply IH. intro H. apply Hx. right. exact H. }
    rewrite Hrest. destruct (N.eqb_spec (c_id c) (c_id c0)) as [E|E]; [|exfalso; apply E; symmetry; exact Eid].
    rewrite Ht, Hf. cbn [length]. lia.
  - destruct (N.eqb_spec (c_id x) (c_id c0)) as [E|E].
    + exfalso. apply Hx. rewrite E, Eid. apply in_map. exact Hin.
    + specialize (IH ND' Hin). destruct (counted id rid x); cbn [length]; lia.
Qed.

Lemma nodup_map_inj {A B} (f : A -> B) l :
  NoDup l -> (forall x y, In x l -> In y l -> f x = f y -> x = y) -> NoDup (map f l).
Proof.
  intros ND Hinj. induction ND as [|x l Hx ND IH]; cbn [map]; constructor.
  - intro H. apply in_map_iff in H. destruct H as (y & E & Hy). apply Hx.
    assert (y = x) by (apply Hinj; [right; exact Hy|left; reflexivity|exact E]). subst y. exact Hy.
  - apply IH. intros a b Ha Hb. apply Hinj; right; assumption.
Qed.

Lemma nodup_of_ids (cs : list call) : NoDup (map c_id cs) -> NoDup cs.
Proof. apply NoDup_map_inv. Qed.

Lemma has_quorum_mono C a b : has_quorum C a = true -> a <= b -> has_quorum C b = true.
Proof. unfold has_quorum. intros H L. apply N.ltb_lt in H. apply N.ltb_lt. lia. Qed.

Lemma find_round_in (rs : list round) rid r : find (fun x => rd_id x =? rid) rs = Some r -> In r rs /\ rd_id r = rid.
Proof. intros H. apply find_some in H. destruct H as [H1 H2]. split; [exact H1|apply N.eqb_eq; exact H2]. Qed.

Lemma find_round_nodup (rs : list round) r :
  NoDup (map rd_id rs) -> In r rs -> find (fun x => rd_id x =? rd_id r) rs = Some r.
Proof.
  intros ND Hr. induction rs as [|x l IH]; [destruct Hr|].
  cbn [find]. cbn [map] in ND. inversion ND as [|? ? Hx ND']; subst. destruct Hr as [->|Hr].
  - rewrite N.eqb_refl. reflexivity.
  - destruct (N.eqb_spec (rd_id x) (rd_id r)) as [E|E]; [|apply IH; assumption].
    exfalso. apply Hx. rewrite E. apply in_map. exact Hr.
Qed.

(* the counter after the increment *)
Lemma round_count_bump n rid r :
  NoDup (map rd_id (n_rounds n)) -> In r (n_rounds n) -> rd_id r = rid ->
  round_count (bump_round n rid) rid = r_count r + 1 /\ round_count n rid = r_count r.
Proof.
  intros ND Hr Er. subst rid. unfold round_count, bump_round. cbn [n_rounds set]. rewrite (find_round_nodup _ r ND Hr).
  split; [|reflexivity]. induction (n_rounds n) as [|x l IH]; [destruct Hr|].
  cbn [map] in ND. inversion ND as [|? ? Hx ND']; subst.
  cbn [map find]. destruct (N.eqb_spec (rd_id x) (rd_id r)) as [E|E].
  - cbn [RaftV.Node.Types.r_id]. rewrite N.eqb_refl. cbn [r_count].
    destruct Hr as [->|Hr]; [reflexivity|]. exfalso. apply Hx. rewrite E. apply in_map. exact Hr.
  - destruct (N.eqb_spec (rd_id x) (rd_id r)); [contradiction|]. destruct Hr as [->|Hr]; [contradiction|]. apply IH; assumption.
Qed.

Section Reply.
Variable C : config.

Lemma get_node_set_call w c0 id : get_node (set_call w c0) id = get_node w id.
Proof. reflexivity. Qed.

Lemma XInv_rv_reply w c q p n now :
  XInv C w -> WI C w -> In c (w_calls w) -> c_state c = CAnswered -> c_req c = ReqRV q -> c_resp c = Some (RespRV p) ->
  get_node w (c_src c) = Some n -> n_frozen n = false ->
  XInv C (set_node (set_call w (c <| c_state := CDone |>)) (l_rv_reply now n (c_round c) (c_dst c) (rv_prevote q) q p)).
Proof.
  intros HX HW Hc Hst Hq Hp G F.
  set (c0 := c <| c_state := CDone |>). set (w0 := set_call w c0).
  set (rid := c_round c). set (m' := l_rv_reply now n rid (c_dst c) (rv_prevote q) q p).
  assert (HX0 : XInv C w0).
  { apply XInv_set_state; [exact HX|exact Hc|discriminate|right; reflexivity]. }
  destruct (Votes.get_node_in _ _ _ G) as [Hn Eid]. assert (Es : c_src c = n_id n) by (symmetry; exact Eid).
  pose proof (vi_coh w (x_v C w HX) n Hn) as Hcoh.
  pose proof (x_b C w HX n Hn) as HB. pose proof (x_b C w0 HX0 n Hn) as HB0.
  set (cs := w_calls w) in *. set (cs0 := w_calls w0) in *.
  assert (Hcs0 : cs0 = upd_call c0 cs) by reflexivity.
  assert (Hc0in : In c0 cs0).
  { rewrite Hcs0. unfold upd_call. apply in_map_iff. exists c. split; [|exact Hc]. cbn. rewrite N.eqb_refl. reflexivity. }
  assert (Hrvc : is_rv c = true) by (unfold is_rv; rewrite Hq; reflexivity).
  assert (Hnc : counted (n_id n) rid c = false).
  { unfold counted, cdone. rewrite Hst. rewrite !andb_false_r. reflexivity. }
  assert (Hcnt_ge : cnt cs (n_id n) rid <= cnt cs0 (n_id n) rid).
  { rewrite Hcs0. unfold upd_call. apply cnt_map_mono_in. intros k Hk Hck.
    destruct (N.eqb_spec (c_id k) (c_id c0)) as [E|E]; [|exact Hck].
    assert (k = c) by (eapply nodup_id_eq; [apply (vi_nodup w (x_v C w HX))|exact Hk|exact Hc|exact E]). subst k.
    rewrite Hnc in Hck. discriminate. }
  assert (Hcnt_gr : rvr_granted p = true -> cnt cs0 (n_id n) rid = cnt cs (n_id n) rid + 1).
  { intros Hg. rewrite Hcs0. apply cnt_upd_plus with (c := c); [apply (vi_nodup w (x_v C w HX))|exact Hc|reflexivity|exact Hnc|].
    unfold counted, c0, is_rv, cdone, cgranted. cbn. rewrite Es, Hq, Hp, Hg, !N.eqb_refl. reflexivity. }
  assert (Hwit : rv_round cs n rid) by (left; exists c; auto).
  assert (Hwit0 : rv_round cs0 n rid).
  { left. exists c0. repeat split; [exact Hc0in|exact Es|exact Hrvc]. }
  assert (G0 : get_node w0 (n_id n) = Some n) by (rewrite Eid; exact G).
  apply XInv_node_gen with (m := n); [exact HX0|exact G0|intros _; apply R_rv_reply, Hcoh| | |].
  - (* the bookkeeping *)
    intros _. destruct (rv_reply_EB now n rid (c_dst c) (rv_prevote q) q p) as [HEB HE]. cbn zeta in HEB, HE.
    destruct (rvr_granted p) eqn:Hg.
    + apply (BN_node_EB C cs0 rid n m'); [apply R_rv_reply, Hcoh|exact Hcoh|apply HEB; reflexivity| |exact HB0].
      intros r Hr Er _. pose proof (b_count _ _ _ HB r Hr) as Hb. rewrite Er in Hb. specialize (Hb Hwit).
      rewrite (Hcnt_gr eq_refl). lia.
    + apply (BN_node_E C cs0 n m'); [apply R_rv_reply, Hcoh|exact Hcoh|apply HE; reflexivity|exact HB0].
  - (* a new leader has won its term *)
    intros Hl Hm. destruct (rv_reply_K now n rid (c_dst c) (rv_prevote q) q p) as [K1 _]. cbn zeta in K1.
    destruct (K1 Hl) as [A|(Epv & Hge & ET & Hact & Hquo)]; [left; exact A|right]. fold m' in ET. rewrite ET.
    destruct (x_l0 C w HX n Hn Hact) as [EC Hvoter].
    (* the counter exists *)
    set (n1 := if rvr_granted p then bump_round n rid else n) in Hquo.
    assert (Hrc : round_count n1 rid <> 0).
    { intro Z. rewrite Z in Hquo. unfold has_quorum in Hquo. apply N.ltb_lt in Hquo. lia. }
    assert (Hr : exists r, In r (n_rounds n) /\ rd_id r = rid).
    { unfold round_count in Hrc. destruct (find (fun r => rd_id r =? rid) (n_rounds n1)) as [r1|] eqn:Ef; [|contradiction].
      apply find_round_in in Ef. destruct Ef as [Hr1 Er1]. subst n1. destruct (rvr_granted p); [|exists r1; auto].
      unfold bump_round in Hr1. cbn [n_rounds set] in Hr1. apply in_map_iff in Hr1. destruct Hr1 as (r & Er & Hr).
      exists r. split; [exact Hr|]. destruct (N.eqb_spec (rd_id r) rid) as [E|E]; [exact E|]. subst r1. contradiction. }
    destruct Hr as (r & Hr & Er).
    destruct (b_wf _ _ _ HB) as [WF1 _].
    destruct (round_count_bump n rid r WF1 Hr Er) as [RC1 RC0].
    (* the term of the request is the current term *)
    destruct (b_req _ _ _ HB0 c0 q Hc0in Hq Es) as [_ Hterm0]. specialize (Hterm0 r Hr Er).
    rewrite Epv in Hterm0.
    pose proof (b_rterm _ _ _ HB r Hr) as Hrt. rewrite Er in Hrt. specialize (Hrt Hwit F).
    assert (Et : rv_term q = n_term n) by lia.
    set (ks := filter (counted (n_id n) rid) cs0).
    assert (Hks : forall k, In k ks -> In k cs0 /\ c_src k = n_id n /\ c_round k = rid /\ is_rv k = true /\ cgranted k = true).
    { intros k Hk. apply filter_In in Hk. destruct Hk as [Hk Hck]. unfold counted in Hck.
      apply andb_prop in Hck. destruct Hck as [Hck G5]. apply andb_prop in Hck. destruct Hck as [Hck G4].
      apply andb_prop in Hck. destruct Hck as [Hck G3]. apply andb_prop in Hck. destruct Hck as [G1 G2].
      apply N.eqb_eq in G1, G2. auto. }
    exists ks. split; [|split].
    + intros k Hk. destruct (Hks k Hk) as (K0 & K1' & K2 & K3 & K4). split; [exact K0|].
      unfold is_rv in K3. destruct (c_req k) as [|qk|] eqn:Eqk; try discriminate.
      destruct (b_req _ _ _ HB0 k qk K0 Eqk K1') as [Hvk Htk]. specialize (Htk r Hr (eq_trans Er (eq_sym K2))).
      assert (Etag : call_tag k = call_tag c0) by (apply (b_cc _ _ _ HB0); auto; rewrite K2; reflexivity).
      unfold call_tag in Etag. rewrite Eqk in Etag. change (c_req c0) with (c_req c) in Etag. rewrite Hq, Epv in Etag.
      assert (Epk : rv_prevote qk = false) by (destruct (rv_prevote qk); [discriminate|reflexivity]).
      rewrite Epk in Htk.
      split; [|split; [apply (b_call_self _ _ _ HB0 k K0 K1'); unfold is_rv; rewrite Eqk; reflexivity|exact Hvk]].
      unfold cgranted in K4. destruct (c_resp k) as [[|pk|]|] eqn:Erk; try discriminate.
      exists qk, pk. repeat split; try assumption; try lia.
      pose proof (x_n C w0 HX0 k K0) as Hnm. unfold named in Hnm. rewrite Eqk in Hnm. congruence.
    + apply nodup_map_inj.
      * apply NoDup_filter, nodup_of_ids, (vi_nodup w0 (x_v C w0 HX0)).
      * intros k1 k2 H1 H2 Ed. destruct (Hks k1 H1) as (A0 & A1 & A2 & A3 & _). destruct (Hks k2 H2) as (B0 & B1 & B2 & B3 & _).
        eapply nodup_id_eq; [apply (vi_nodup w0 (x_v C w0 HX0))|exact A0|exact B0|].
        apply (b_call_peer _ _ _ HB0); auto. congruence.
    + rewrite EC in Hquo. eapply has_quorum_mono; [exact Hquo|].
      change (N.of_nat (length ks)) with (cnt cs0 (n_id n) rid).
      pose proof (b_count _ _ _ HB r Hr) as Hb. rewrite Er in Hb. specialize (Hb Hwit).
      subst n1. destruct (rvr_granted p) eqn:Hg; [rewrite RC1, (Hcnt_gr eq_refl); lia|rewrite RC0; lia].
  - intros Ha. left. destruct (rv_reply_K now n rid (c_dst c) (rv_prevote q) q p) as [_ K2]. split; [apply K2, Ha|].
    apply (sticky_l_rv_reply C). apply (WI_node C w n HW Hn).
Qed.

End Reply.
