(* C17 / C05 (node level, every leader state and reply): the lease is extended only when the reply of a VOTING member
   to a request of the CURRENT term completes the majority of its heartbeat round (fixes D1, D5, D22). *)
From RaftV Require Import Node.Leader.
From RaftV Require Import Proofs.Frame Proofs.ReplySpec.
Open Scope N_scope.

Lemma lease_set_fobj n id g f : n_lease (set_fobj n id g f) = n_lease n.
Proof. unfold set_fobj. destruct (_ =? g); reflexivity. Qed.

Lemma lease_is_send n peer : n_lease (fst (l_is_send n peer)) = n_lease n.
Proof.
  unfold l_is_send. destruct (negb _); [reflexivity|]. destruct (n_lii n =? 0); [reflexivity|].
  match goal with |- n_lease (fst (match ?c with _ => _ end)) = _ => destruct c as [[s o]|] end; cbn [fst].
  - reflexivity.
  - unfold fail. destruct (n_out n); reflexivity.
Qed.

Theorem ae_reply_lease now n rid peer g q r :
  let n' := fst (l_ae_reply now n rid peer g q r) in
  n_lease n' <> n_lease n ->
  n_term n < aer_term r \/
  (is_voter (conf_of n) peer = true /\ ae_term q = n_term n /\ n_role n = Leader /\
   has_quorum (conf_of n) (round_count (bump_round n rid) rid) = true /\ n_lease n' = now + n_ld n).
Proof.
  cbn zeta. unfold l_ae_reply.
  destruct (negb (is_member (conf_of n) peer) || negb (role_eqb (n_role n) Leader)) eqn:G; [cbn [fst]; tauto|].
  apply Bool.orb_false_iff in G. destruct G as [_ GL]. apply Bool.negb_false_iff in GL.
  assert (HL : n_role n = Leader) by (destruct (n_role n); try discriminate; reflexivity).
  destruct (N.ltb_spec (n_term n) (aer_term r)) as [LT|GE]; [intros _; left; exact LT|].
  destruct (N.eqb_spec (ae_term q) (n_term n)) as [ET|NT]; cbn [negb]; [|cbn [fst]; tauto].
  set (n1 := if is_voter (conf_of n) peer then bump_round n rid else n).
  set (n2 := if is_voter (conf_of n) peer && has_quorum (conf_of n1) (round_count n1 rid)
             then try_apply_ro now n1 (round_stamp n1 rid) else n1).
  assert (H2 : n_lease n2 = n_lease n \/
               (is_voter (conf_of n) peer = true /\ has_quorum (conf_of n) (round_count (bump_round n rid) rid) = true
                /\ n_lease n2 = now + n_ld n)).
  { subst n2 n1. destruct (is_voter (conf_of n) peer); cbn [andb]; [|left; reflexivity].
    change (conf_of (bump_round n rid)) with (conf_of n).
    destruct (has_quorum (conf_of n) (round_count (bump_round n rid) rid)); [|left; reflexivity].
    right. split; [reflexivity|]. split; [reflexivity|]. reflexivity. }
  assert (L2 : forall m : node, True) by trivial.
  clearbody n2. clear n1.
  assert (HF : n_lease (fst (if negb (aer_success r)
                             then (let n3 := set_fobj n2 peer g (fobj n2 peer g <| f_next := aer_index r |>) in
                                   if aer_index r <=? n_lii n3 then l_is_send n3 peer else (n3, None))
                             else (let top := ae_prev_index q + N.of_nat (length (ae_entries q)) in
                                   if f_match (fobj n2 peer g) <? top
                                   then (let n3 := set_fobj n2 peer g (fobj n2 peer g <| f_next := N.max (f_next (fobj n2 peer g)) (top + 1) |> <| f_match := top |>) in
                                         ((if n_commit n3 <? top then signal_commit n3 else n3), None))
                                   else (n2, None)))) = n_lease n2).
  { destruct (negb (aer_success r)); cbv zeta.
    - destruct (aer_index r <=? n_lii _); [rewrite lease_is_send|cbn [fst]]; apply lease_set_fobj.
    - destruct (f_match (fobj n2 peer g) <? _); cbn [fst]; [|reflexivity].
      match goal with |- n_lease (if ?c then _ else _) = _ => destruct c end; [cbn [n_lease signal_commit set]|]; apply lease_set_fobj. }
  cbv zeta in HF. rewrite HF. intros HN.
  destruct H2 as [H2|(V & Q & E)]; [rewrite H2 in HN; contradiction|].
  right. auto 10.
Qed.
