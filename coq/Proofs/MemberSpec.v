(* Membership requests (C09, node level, every state): AddServer / RemoveServer change nothing unless the node is a
   leader that has committed an entry of its term and has no membership change pending; an accepted change - a
   removal too (fix D7) - is pending until it is applied. *)
From RaftV Require Import Node.Leader.
From RaftV Require Import Proofs.Frame.
Open Scope N_scope.

Definition refused (r : fresult) : Prop := r = FNotLeader \/ r = FNoCommitThisTerm \/ r = FPendingConfiguration.

Lemma respond_lc n f r : n_log (respond n f r) = n_log n /\ n_conf (respond n f r) = n_conf n /\ n_cfg_fid (respond n f r) = n_cfg_fid n.
Proof. unfold respond. destruct (n_frozen n); [auto|]. destruct (existsb _ _); auto. Qed.

Theorem add_server_guard now n fid id v :
  n_role n <> Leader \/ committed_this_term n = false \/ pending_conf_change n = true ->
  let n' := api_add_server now n fid id v in
  n_log n' = n_log n /\ n_conf n' = n_conf n /\
  exists r, refused r /\ n' = respond n fid r.
Proof.
  intros H. cbn zeta. unfold api_add_server.
  destruct (role_eqb (n_role n) Leader) eqn:ER; cbn [negb].
  2:{ destruct (respond_lc n fid FNotLeader) as (A & B & _). split; [exact A|]. split; [exact B|].
      exists FNotLeader. split; [left; reflexivity|reflexivity]. }
  destruct (committed_this_term n) eqn:EC; cbn [negb].
  2:{ destruct (respond_lc n fid FNoCommitThisTerm) as (A & B & _). split; [exact A|]. split; [exact B|].
      exists FNoCommitThisTerm. split; [right; left; reflexivity|reflexivity]. }
  destruct (pending_conf_change n) eqn:EP.
  { destruct (respond_lc n fid FPendingConfiguration) as (A & B & _). split; [exact A|]. split; [exact B|].
    exists FPendingConfiguration. split; [right; right; reflexivity|reflexivity]. }
  exfalso. destruct H as [H|[H|H]]; try discriminate.
  apply H. destruct (n_role n); try discriminate; reflexivity.
Qed.

Theorem remove_server_guard now n fid id :
  n_role n <> Leader \/ committed_this_term n = false \/ pending_conf_change n = true ->
  let n' := api_remove_server now n fid id in
  n_log n' = n_log n /\ n_conf n' = n_conf n /\
  exists r, refused r /\ n' = respond n fid r.
Proof.
  intros H. cbn zeta. unfold api_remove_server.
  destruct (role_eqb (n_role n) Leader) eqn:ER; cbn [negb].
  2:{ destruct (respond_lc n fid FNotLeader) as (A & B & _). split; [exact A|]. split; [exact B|].
      exists FNotLeader. split; [left; reflexivity|reflexivity]. }
  destruct (committed_this_term n) eqn:EC; cbn [negb].
  2:{ destruct (respond_lc n fid FNoCommitThisTerm) as (A & B & _). split; [exact A|]. split; [exact B|].
      exists FNoCommitThisTerm. split; [right; left; reflexivity|reflexivity]. }
  destruct (pending_conf_change n) eqn:EP.
  { destruct (respond_lc n fid FPendingConfiguration) as (A & B & _). split; [exact A|]. split; [exact B|].
    exists FPendingConfiguration. split; [right; right; reflexivity|reflexivity]. }
  exfalso. destruct H as [H|[H|H]]; try discriminate.
  apply H. destruct (n_role n); try discriminate; reflexivity.
Qed.

Lemma cfg_fid_tick m : n_cfg_fid (snd (tick_write m)) = n_cfg_fid m.
Proof. unfold tick_write. destruct (n_frozen m); [reflexivity|]. destruct (n_budget m) as [k|]; [destruct (k =? 0)|]; reflexivity. Qed.

Lemma cfg_fid_send_ae_to_peers now m : n_cfg_fid (send_ae_to_peers now m) = n_cfg_fid m.
Proof.
  unfold send_ae_to_peers.
  set (m0 := m <| n_hb_rounds ::= N.succ |>).
  assert (H0 : n_cfg_fid m0 = n_cfg_fid m) by reflexivity. clearbody m0.
  set (m1 := if is_single (conf_of m) (n_id m) then _ else m0).
  assert (H1 : n_cfg_fid m1 = n_cfg_fid m0).
  { subst m1. destruct (is_single (conf_of m) (n_id m)); [|reflexivity].
    unfold try_apply_ro, signal_ro. cbn [n_cfg_fid set].
    destruct (n_commit m0 <? last_index (n_log m0)); reflexivity. }
  clearbody m1. unfold new_round. cbn. congruence.
Qed.

(* an accepted removal is pending: a second membership request at this leader is refused until it is applied *)
Theorem accepted_removal_is_pending now n fid id :
  n_role n = Leader -> committed_this_term n = true -> pending_conf_change n = false ->
  is_member (conf_of n) id = true ->
  pending_conf_change (api_remove_server now n fid id) = true.
Proof.
  intros HR HC HP HM. unfold api_remove_server. rewrite HR, HC, HP, HM. cbn [role_eqb negb].
  unfold append_configuration.
  set (n1 := append_entries n _). clearbody n1.
  unfold pending_conf_change. rewrite cfg_fid_send_ae_to_peers. cbn [n_cfg_fid set].
  apply Bool.orb_true_r.
Qed.
